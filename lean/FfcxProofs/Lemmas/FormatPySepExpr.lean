/-
C16 — numba, no token fusion for expressions: the pieces of every well-formed expression are
separated for the Python lexer (`pySeparated_pieces`), hence `lexPyExpr (fmtExprPy e) = tokExprPy e`
(`no_token_fusion_py_aux`).
-/
import FfcxProofs.Lemmas.FormatPySep
import FfcxProofs.Lemmas.FormatPyRTAll
namespace Ffcx.LNodes.Fmt
open Ffcx.LNodes

/-! ## separated numba expression texts -/

theorem pyPend2_none {p c : Char} (h1 : c ≠ '=') (h2 : c ≠ '>') : pyPend2 p c = none := by
  simp [pyPend2, h1, h2]

/-- first character of an expression-first token -/
theorem pyFirst_char {y : Tok} (hy : pyIsFirst y = true) :
    ∃ c cs, y.text = c :: cs ∧ c ≠ '=' ∧ c ≠ '>' ∧ (c.isDigit = true → ∃ s, y = .num s) := by
  simp only [pyIsFirst, Bool.and_eq_true] at hy
  obtain ⟨hok, hcls⟩ := hy
  cases y with
  | num s =>
    simp only [pyTokOK, pyNumShape] at hok
    cases hl : s.toList with
    | nil => simp [hl] at hok
    | cons c cs =>
      simp only [hl, Bool.and_eq_true] at hok
      refine ⟨c, cs, by simp [Tok.text, hl], ?_, ?_, fun _ => ⟨s, rfl⟩⟩ <;>
        (intro hc; subst hc; exact absurd hok.1.1 (by decide))
  | id s =>
    simp only [pyTokOK] at hok
    cases hl : s.toList with
    | nil => simp [hl] at hok
    | cons c cs =>
      simp only [hl, Bool.and_eq_true] at hok
      refine ⟨c, cs, by simp [Tok.text, hl], ?_, ?_, ?_⟩
      · intro hc; subst hc; exact absurd hok.1 (by decide)
      · intro hc; subst hc; exact absurd hok.1 (by decide)
      · intro hd; rw [digit_not_idStart hd] at hok; exact absurd hok.1 (by decide)
  | p q =>
    have : q = .minus ∨ q = .lpar := by cases q <;> simp at hcls <;> simp
    rcases this with rfl | rfl
    · exact ⟨'-', [], rfl, by decide, by decide, fun h => absurd h (by decide)⟩
    · exact ⟨'(', [], rfl, by decide, by decide, fun h => absurd h (by decide)⟩
  | bad c => simp at hcls
  | newline => simp at hcls
  | indent => simp at hcls
  | dedent => simp at hcls

/-- after a pending punctuator other than `.` an expression may start -/
theorem pySepTok_pend_first {q : P} {p : Char} (hq : pyStTok (.p q) = .pend p) (hp : p ≠ '.') (hp2 : p ≠ '/')
    {y : Tok} (hy : pyIsFirst y = true) : pySepTok (.p q) y = true := by
  obtain ⟨c, cs, ht, h1, h2, _⟩ := pyFirst_char hy
  simp [pySepTok, ht, hq, pySepChar, pyPend2_none h1 h2, hp, hp2]

/-- after `.` a name may follow -/
theorem pySepTok_dot_id {s : String} (hs : pyTokOK (.id s) = true) : pySepTok (.p .dot) (.id s) = true := by
  simp only [pyTokOK] at hs
  cases hl : s.toList with
  | nil => simp [hl] at hs
  | cons c cs =>
    simp only [hl, Bool.and_eq_true] at hs
    have h1 : c ≠ '=' := by intro hc; subst hc; exact absurd hs.1 (by decide)
    have h2 : c ≠ '>' := by intro hc; subst hc; exact absurd hs.1 (by decide)
    have hd : c.isDigit = false := by
      cases hd : c.isDigit with
      | false => rfl
      | true => rw [digit_not_idStart hd] at hs; exact absurd hs.1 (by decide)
    have : pyStTok (.p .dot) = .pend '.' := rfl
    simp [pySepTok, Tok.text, hl, this, pySepChar, pyPend2_none h1 h2, hd]

/-- after a name a `.` may follow -/
theorem pySepTok_id_dot {s : String} (hs : pyTokOK (.id s) = true) : pySepTok (.id s) (.p .dot) = true := by
  obtain ⟨acc, h1⟩ := pyStTok_id hs
  simp only [pySepTok, Tok.text, P.text, h1, pySepChar]
  decide

theorem pyStTok_minus : pyStTok (.p .minus) = .pend '-' := rfl
theorem pyStTok_plus : pyStTok (.p .plus) = .pend '+' := rfl

/-- a prefix token in front of a separated text it may touch -/
theorem psp_prefix {q : P} (hf : pyIsFirst (.p q) = true) {ps} (h : PSP ps)
    (hbr : ∀ t, firstP ps = some t → pySepTok (.p q) t = true) : PSP (pp q :: ps) := by
  obtain ⟨l, hl, hl'⟩ := h.last
  have hok : pyTokOK (.p q) = true := pyIsFirst_ok hf
  refine ⟨?_, ⟨_, rfl, hf⟩, ⟨l, ?_, hl'⟩⟩
  · refine pySeparated_append (a := [pp q]) (by simp [pySeparated, pp, hok]) h.sep ?_
    intro x y hx hy
    simp only [lastP, pp, Option.some.injEq] at hx; subst hx
    exact hbr y hy
  · have : pp q :: ps = [pp q] ++ ps := rfl
    rw [this, lastP_append_ne _ h.ne_nil]; exact hl

theorem psp_minus {ps} (h : PSP ps) : PSP (pp .minus :: ps) := by
  refine psp_prefix rfl h ?_
  intro t ht
  obtain ⟨f, hf, hf'⟩ := h.first
  rw [hf] at ht; cases ht
  exact pySepTok_pend_first pyStTok_minus (by decide) (by decide) hf'

/-! ### literals -/

theorem pyTokOK_num_ofList {cs : List Char} (h : pyNumShape cs = true) : pyTokOK (.num (String.ofList cs)) = true := by
  simp [pyTokOK, String.toList_ofList, h]

theorem psp_num {cs : List Char} (h : pyNumShape cs = true) : PSP [.t (.num (String.ofList cs))] :=
  ⟨by simp [pySeparated, pyTokOK_num_ofList h], ⟨_, rfl, by simp [pyIsFirst, pyTokOK_num_ofList h]⟩,
    ⟨_, rfl, by simp [pyIsLast, pyTokOK_num_ofList h]⟩⟩

theorem psp_negnum {cs : List Char} (h : pyNumShape cs = true) : PSP [pp .minus, .t (.num (String.ofList cs))] :=
  psp_minus (psp_num h)

/-- pieces of a signed number text whose magnitude text is `mag x` -/
theorem psp_part (x : Rat) (sfx : List Char) (hs : pyNumShape (reprPart (absR x) ++ sfx) = true) :
    PSP (numPieces (reprPart x ++ sfx)) := by
  by_cases hx : x < 0
  · have hp : 0 < -x := by grind
    rw [absR_neg hx] at hs
    rw [reprPart_neg hx, ← reprPart_pos hp]
    exact psp_negnum hs
  · rw [absR_nonneg hx] at hs
    obtain ⟨c, r, hcr, hc⟩ := pyNumShape_head hs
    rw [hcr, numPieces_pos hc, ← hcr]
    exact psp_num hs

structure PSE (e : Expr) : Prop where
  sp : PSP (piecesPy e)

theorem pse_litF {re im} (hwf : wfPy (.litF re im false) = true) : PSE (.litF re im false) := by
  simp only [wfPy, pyLitShapeOK, Bool.and_eq_true] at hwf
  have hp : piecesPy (.litF re im false) = numPieces (reprFloat re) := by simp [piecesPy, pyNumber]
  refine ⟨?_⟩
  rw [hp]
  by_cases hneg : re < 0
  · have h0 : re ≠ 0 := by grind
    have h1 : ¬ (-re < 0) := by grind
    have h2 : -re ≠ 0 := by grind
    have e1 : reprFloat re = '-' :: reprPos true (-re) := by simp [reprFloat, h0, hneg]
    have e2 : reprFloat (-re) = reprPos true (-re) := by simp [reprFloat, h1, h2]
    rw [absR_neg hneg, e2] at hwf
    rw [e1]
    exact psp_negnum hwf.1
  · rw [absR_nonneg hneg] at hwf
    obtain ⟨c, r, hcr, hc⟩ := pyNumShape_head hwf.1
    rw [hcr, numPieces_pos hc, ← hcr]
    exact psp_num hwf.1

theorem pse_litI {v} (hwf : wfPy (.litI v) = true) : PSE (.litI v) := by
  simp only [wfPy, pyLitShapeOK] at hwf
  have hp : piecesPy (.litI v) = numPieces (fmtInt v) := by simp [piecesPy, pyNumber]
  refine ⟨?_⟩
  rw [hp]
  by_cases hneg : v < 0
  · simp only [hneg, if_true] at hwf
    have e1 : fmtInt v = '-' :: fmtInt (-v) := by
      have : ¬ (-v < 0) := by omega
      simp only [fmtInt, hneg, this, if_true, if_false]
      congr 2; omega
    rw [e1]
    exact psp_negnum hwf
  · simp only [hneg, if_false] at hwf
    obtain ⟨c, r, hcr, hc⟩ := pyNumShape_head hwf
    rw [hcr, numPieces_pos hc, ← hcr]
    exact psp_num hwf

theorem pse_complex {re im} (hwf : wfPy (.litF re im true) = true) : PSE (.litF re im true) := by
  simp only [wfPy, pyLitShapeOK, Bool.and_eq_true, Bool.or_eq_true, decide_eq_true_eq] at hwf
  obtain ⟨hre, him⟩ := hwf
  refine ⟨?_⟩
  by_cases h0 : re = 0
  · have hp : piecesPy (.litF re im true) = numPieces (reprPart im ++ ['j']) := by
      simp [piecesPy, pyNumber, pyComplexPieces, h0]
    rw [hp]; exact psp_part im ['j'] him
  · have hre' : pyNumShape (reprPart (absR re) ++ []) = true := by
      rcases hre with h | h
      · exact absurd h h0
      · simpa using h
    have hR := psp_part re [] hre'
    simp only [List.append_nil] at hR
    have hI := psp_part im ['j'] him
    by_cases hi : im < 0
    · have hp : piecesPy (.litF re im true) = pp .lpar :: (numPieces (reprPart re) ++ [] ++ numPieces (reprPart im ++ ['j']))
          ++ [pp .rpar] := by simp [piecesPy, pyNumber, pyComplexPieces, h0, hi]
      rw [hp]
      refine psp_paren (psp_app3 hR hI rfl ?_ ?_ ?_)
      · intro x y _ _ hy; simp [firstP] at hy
      · intro x y hx; simp [lastP] at hx
      · intro _ x y _ hx hy _
        -- the imaginary part starts with `-`
        have hpim : 0 < -im := by grind
        have : numPieces (reprPart im ++ ['j']) = [pp .minus, .t (.num (String.ofList (reprPart (-im) ++ ['j'])))] := by
          rw [reprPart_neg hi, ← reprPart_pos hpim]; rfl
        rw [this] at hy
        simp only [firstP, pp, Option.some.injEq] at hy; subst hy
        exact pySepTok_last_closer hx (c := '-') (cs := []) rfl rfl
    · have hp : piecesPy (.litF re im true) = pp .lpar :: (numPieces (reprPart re) ++ [pp .plus] ++ numPieces (reprPart im ++ ['j']))
          ++ [pp .rpar] := by simp [piecesPy, pyNumber, pyComplexPieces, h0, hi]
      rw [hp]
      refine psp_paren (psp_app3 hR hI rfl ?_ ?_ ?_)
      · intro x y _ hx hy
        simp only [firstP, pp, Option.some.injEq] at hy; subst hy
        exact pySepTok_last_closer hx (c := '+') (cs := []) rfl rfl
      · intro x y hx _ hy
        simp only [lastP, pp, Option.some.injEq] at hx; subst hx
        exact pySepTok_pend_first pyStTok_plus (by decide) (by decide) hy
      · intro h; simp at h

theorem validIdentPy_tokOK {s : String} (h : validIdentPy s = true) : pyTokOK (.id s) = true := by
  simp only [validIdentPy, Bool.and_eq_true] at h
  have := validIdent_tokOK h.1
  simp only [tokOK] at this
  simp only [pyTokOK]
  exact this

theorem psp_id {s : String} (hok : pyTokOK (.id s) = true) : PSP [.t (.id s)] :=
  ⟨by simp [pySeparated, hok], ⟨_, rfl, by simp [pyIsFirst, hok]⟩, ⟨_, rfl, by simp [pyIsLast, hok]⟩⟩

theorem pse_sym {n dt} (hwf : wfPy (.sym n dt) = true) : PSE (.sym n dt) := by
  simp only [wfPy] at hwf
  have hp : piecesPy (.sym n dt) = [.t (.id n)] := by simp [piecesPy]
  exact ⟨by rw [hp]; exact psp_id (validIdentPy_tokOK hwf)⟩


/-! ### operators -/

theorem pse_neg {a} (ha : PSE a) : PSE (.neg a) := by
  have hp : piecesPy (.neg a) = pp .minus :: parenIf (decide (precF a ≥ 3)) (piecesPy a) := by simp [piecesPy]
  exact ⟨by rw [hp]; exact psp_minus (psp_parenIf _ ha.sp)⟩

theorem pse_not {a} (ha : PSE a) : PSE (.not a) := by
  have hp : piecesPy (.not a) = pp .lpar :: ([.t (.id "not")] ++ [sp] ++ (pp .lpar :: piecesPy a ++ [pp .rpar]))
      ++ [pp .rpar] := by simp [piecesPy]
  refine ⟨?_⟩
  rw [hp]
  refine psp_paren (psp_app3 (psp_id (by decide)) (psp_paren ha.sp) (by decide) ?_ ?_ ?_)
  · intro x y _ _ hy; simp [firstP, sp] at hy
  · intro x y hx; simp [lastP, sp] at hx
  · intro h; simp at h

theorem pyTokOK_opTok (op : BinOp) : pyTokOK (pyOpTok op) = true := by cases op <;> decide

theorem pyOpPieces_eq (op : BinOp) : pyOpPieces op = [.t (pyOpTok op)] := by cases op <;> rfl

theorem pse_bin {op a b} (ha : PSE a) (hb : PSE b) : PSE (.bin op a b) := by
  have hp : piecesPy (.bin op a b) = parenIf (pyParen op a) (piecesPy a) ++ [sp, .t (pyOpTok op), sp]
      ++ parenIf (pyParen op b) (piecesPy b) := by
    simp [piecesPy, pyOpPieces_eq, pyParen]
  exact ⟨by rw [hp]; exact psp_mid_ws _ (pyTokOK_opTok op) (psp_parenIf _ ha.sp) (psp_parenIf _ hb.sp)⟩

theorem pse_cond {c t f} (hc : PSE c) (ht : PSE t) (hf : PSE f) : PSE (.cond c t f) := by
  have hp : piecesPy (.cond c t f) = pp .lpar :: ((parenIf (decide (precF t ≥ 13)) (piecesPy t) ++ [sp, .t (.id "if"), sp]
      ++ parenIf (decide (precF c ≥ 13)) (piecesPy c)) ++ [sp, .t (.id "else"), sp]
      ++ parenIf (decide (precF f ≥ 13)) (piecesPy f)) ++ [pp .rpar] := by simp [piecesPy]
  refine ⟨?_⟩
  rw [hp]
  exact psp_paren (psp_mid_ws _ (by decide) (psp_mid_ws _ (by decide) (psp_parenIf _ ht.sp) (psp_parenIf _ hc.sp))
    (psp_parenIf _ hf.sp))

theorem psp_nary (o : P) (ho : pyPunctOK o = true) (p : Nat) (args : List Expr) (hne : args ≠ [])
    (hall : ∀ x ∈ args, PSE x) : PSP (joinP [sp, pp o, sp] (piecesNaryPy p args)) := by
  refine psp_join (by simp [pySeparated, sp, pp, pyTokOK, ho, isPySpace]) (by simp) ?_ ?_ _ ?_ ?_
  · intro x y _ hy; simp [firstP, sp] at hy
  · intro x y hx; simp [lastP, sp] at hx
  · cases args with
    | nil => exact absurd rfl hne
    | cons a as => simp [piecesNaryPy]
  · intro x hx
    induction args with
    | nil => simp [piecesNaryPy] at hx
    | cons a as ih =>
      simp only [piecesNaryPy, List.mem_cons] at hx
      rcases hx with rfl | hx
      · exact psp_parenIf _ (hall a (by simp)).sp
      · by_cases has : as = []
        · subst has; simp [piecesNaryPy] at hx
        · exact ih has (fun z hz => hall z (by simp [hz])) hx

theorem psp_list_mem {args : List Expr} {x : List Piece} (hx : x ∈ piecesListPy args) :
    ∃ a ∈ args, x = piecesPy a := by
  induction args with
  | nil => simp [piecesListPy] at hx
  | cons a as ih =>
    simp only [piecesListPy, List.mem_cons] at hx
    rcases hx with rfl | hx
    · exact ⟨a, by simp, rfl⟩
    · obtain ⟨b, hb, e⟩ := ih hx
      exact ⟨b, by simp [hb], e⟩

theorem piecesListPy_ne {args : List Expr} (h : args ≠ []) : piecesListPy args ≠ [] := by
  cases args with
  | nil => exact absurd rfl h
  | cons a as => simp [piecesListPy]

/-- comma-separated argument / subscript list -/
theorem psp_args {args : List Expr} (hne : args ≠ []) (hall : ∀ x ∈ args, PSP (piecesPy x)) :
    PSP (joinP [pp .comma, sp] (piecesListPy args)) := by
  refine psp_join (by decide) (by simp) ?_ ?_ _ (piecesListPy_ne hne) ?_
  · intro x y hx hy
    simp only [firstP, pp, Option.some.injEq] at hy; subst hy
    exact pySepTok_last_closer hx (c := ',') (cs := []) rfl rfl
  · intro x y hx; simp [lastP, sp, pp] at hx
  · intro x hx
    obtain ⟨a, ha, rfl⟩ := psp_list_mem hx
    exact hall a ha

/-- the dotted call head -/
theorem psp_dotted2 {a b : String} (ha : pyTokOK (.id a) = true) (hb : pyTokOK (.id b) = true) :
    PSP (dotted [a, b]) := by
  have hp : dotted [a, b] = [.t (.id a)] ++ [pp .dot] ++ [.t (.id b)] := by simp [dotted, joinP]
  rw [hp]
  refine psp_app3 (psp_id ha) (psp_id hb) (by decide) ?_ ?_ ?_
  · intro x y hx _ hy
    simp only [firstP, pp, Option.some.injEq] at hy; subst hy
    simp only [lastP, Option.some.injEq] at hx; subst hx
    exact pySepTok_id_dot ha
  · intro x y hx hy _
    simp only [lastP, pp, Option.some.injEq] at hx; subst hx
    simp only [firstP, Option.some.injEq] at hy; subst hy
    exact pySepTok_dot_id hb
  · intro h; simp at h

theorem psp_dotted3 {a b c : String} (ha : pyTokOK (.id a) = true) (hb : pyTokOK (.id b) = true)
    (hc : pyTokOK (.id c) = true) : PSP (dotted [a, b, c]) := by
  have hp : dotted [a, b, c] = dotted [a, b] ++ [pp .dot] ++ [.t (.id c)] := by simp [dotted, joinP]
  rw [hp]
  refine psp_app3 (psp_dotted2 ha hb) (psp_id hc) (by decide) ?_ ?_ ?_
  · intro x y hx _ hy
    simp only [firstP, pp, Option.some.injEq] at hy; subst hy
    have : lastP (dotted [a, b]) = some (.id b) := by simp [dotted, joinP, lastP]
    rw [this] at hx; cases hx
    exact pySepTok_id_dot hb
  · intro x y hx hy _
    simp only [lastP, pp, Option.some.injEq] at hx; subst hx
    simp only [firstP, Option.some.injEq] at hy; subst hy
    exact pySepTok_dot_id hc
  · intro h; simp at h

theorem psp_pyHead (f : String) (hid : validIdentPy (pyMathName f) = true) :
    PSP (dotted (pyHead f)) ∧ ∃ s, lastP (dotted (pyHead f)) = some (.id s) ∧ pyTokOK (.id s) = true := by
  have hfn := validIdentPy_tokOK hid
  unfold pyHead
  simp only []
  split
  · exact ⟨psp_dotted3 (by decide) (by decide) (by decide), "yn", by simp [dotted, joinP, lastP], by decide⟩
  · split
    · exact ⟨psp_dotted3 (by decide) (by decide) (by decide), "jn", by simp [dotted, joinP, lastP], by decide⟩
    · split
      · exact ⟨psp_dotted2 (by decide) (by decide), "erf", by simp [dotted, joinP, lastP], by decide⟩
      · exact ⟨psp_dotted2 (by decide) hfn, _, by simp [dotted, joinP, lastP], hfn⟩

/-- pieces of a call, for a well-formed call -/
theorem piecesPy_call (f dt args) (herf : pyMathName f ≠ "erf" ∨ args.length = 1) :
    piecesPy (.call f dt args) = dotted (pyHead f) ++ [pp .lpar] ++ joinP [pp .comma, sp] (piecesListPy args) ++ [pp .rpar] := by
  simp only [piecesPy, pyHead]
  split
  · rfl
  · split
    · rfl
    · split
      · rename_i he
        have hl : args.length = 1 := by
          rcases herf with h | h
          · exact absurd he h
          · exact h
        match args, hl with
        | [a], _ => simp [piecesListPy, joinP]
      · rfl

theorem pse_call {f dt args} (hid : validIdentPy (pyMathName f) = true)
    (herf : pyMathName f ≠ "erf" ∨ args.length = 1) (hall : ∀ x ∈ args, PSP (piecesPy x)) :
    PSE (.call f dt args) := by
  obtain ⟨hD, s, hls, hsok⟩ := psp_pyHead f hid
  refine ⟨?_⟩
  rw [piecesPy_call f dt args herf]
  by_cases hne : args = []
  · subst hne
    simp only [piecesListPy, joinP, List.append_nil]
    -- `head()`
    have h1 : PSP (dotted (pyHead f) ++ [] ++ [pp .lpar, pp .rpar]) := by
      obtain ⟨fD, hfD, hfD'⟩ := hD.first
      refine ⟨?_, ⟨fD, ?_, hfD'⟩, ⟨.p .rpar, ?_, rfl⟩⟩
      · simp only [List.append_nil]
        refine pySeparated_append hD.sep (by decide) ?_
        intro x y hx hy
        rw [hls] at hx; cases hx
        simp only [firstP, pp, Option.some.injEq] at hy; subst hy
        exact pySepTok_last_closer (by simp [pyIsLast, hsok]) (c := '(') (cs := []) rfl rfl
      · simp only [List.append_nil]; rw [firstP_append _ hD.ne_nil]; exact hfD
      · simp only [List.append_nil]; rw [lastP_append_ne _ (by simp)]; rfl
    simpa using h1
  · have hJ := psp_args hne hall
    have h1 : PSP (dotted (pyHead f) ++ [pp .lpar] ++ joinP [pp .comma, sp] (piecesListPy args)) := by
      refine psp_app3 hD hJ (by decide) ?_ ?_ ?_
      · intro x y hx hx' hy
        simp only [firstP, pp, Option.some.injEq] at hy; subst hy
        exact pySepTok_last_closer hx' (c := '(') (cs := []) rfl rfl
      · intro x y hx _ hy
        simp only [lastP, pp, Option.some.injEq] at hx; subst hx
        exact pySepTok_start pyStTok_lpar (pyIsFirst_ok hy)
      · intro h; simp at h
    exact psp_snoc .rpar (Or.inl rfl) h1

theorem pse_idx {arr dt ix} (hid : validIdentPy arr = true) (hne : ix ≠ [])
    (hall : ∀ x ∈ ix, PSP (piecesPy x)) : PSE (.idx arr dt ix) := by
  have hJ := psp_args hne hall
  have hp : piecesPy (.idx arr dt ix) = (.t (.id arr) :: pp .lbrack :: joinP [pp .comma, sp] (piecesListPy ix))
      ++ [pp .rbrack] := by simp [piecesPy]
  have h1 := psp_head arr .lbrack '[' rfl rfl pyStTok_lbrack rfl (validIdentPy_tokOK hid) hJ
  exact ⟨by rw [hp]; exact psp_snoc .rbrack (Or.inr rfl) h1⟩

theorem pse_all : ∀ n e, esize e ≤ n → wfPy e = true → PSE e := by
  intro n
  induction n with
  | zero => intro e h; cases e <;> simp [esize] at h
  | succ n ih =>
    intro e hsz hwf
    cases e with
    | litF re im c =>
      cases c with
      | false => exact pse_litF hwf
      | true => exact pse_complex hwf
    | litI v => exact pse_litI hwf
    | sym nm dt => exact pse_sym hwf
    | mi s z gi =>
      simp only [esize] at hsz; simp only [wfPy, Bool.and_eq_true] at hwf
      have := (ih gi (by omega) hwf.2).sp
      exact ⟨by simpa [piecesPy] using this⟩
    | neg a =>
      simp only [esize] at hsz; simp only [wfPy] at hwf
      exact pse_neg (ih a (by omega) hwf)
    | not a =>
      simp only [esize] at hsz; simp only [wfPy] at hwf
      exact pse_not (ih a (by omega) hwf)
    | bin op a b =>
      simp only [esize] at hsz; simp only [wfPy, Bool.and_eq_true] at hwf
      exact pse_bin (ih a (by omega) hwf.1) (ih b (by omega) hwf.2)
    | sum args =>
      simp only [esize] at hsz; simp only [wfPy, Bool.and_eq_true, Bool.not_eq_true', List.isEmpty_eq_false_iff] at hwf
      have hall : ∀ x ∈ args, PSE x := fun x hx =>
        ih x (by have := esize_mem hx; omega) (wfLPy_mem hwf.2 hx)
      exact ⟨by simpa [piecesPy] using psp_nary .plus rfl 5 args hwf.1 hall⟩
    | prod args =>
      simp only [esize] at hsz; simp only [wfPy, Bool.and_eq_true, Bool.not_eq_true', List.isEmpty_eq_false_iff] at hwf
      have hall : ∀ x ∈ args, PSE x := fun x hx =>
        ih x (by have := esize_mem hx; omega) (wfLPy_mem hwf.2 hx)
      exact ⟨by simpa [piecesPy] using psp_nary .star rfl 4 args hwf.1 hall⟩
    | call f dt args =>
      simp only [esize] at hsz
      simp only [wfPy, Bool.and_eq_true, Bool.or_eq_true, bne_iff_ne, ne_eq, beq_iff_eq] at hwf
      exact pse_call hwf.1.1 hwf.1.2 (fun x hx =>
        (ih x (by have := esize_mem hx; omega) (wfLPy_mem hwf.2 hx)).sp)
    | idx arr dt ix =>
      simp only [esize] at hsz; simp only [wfPy, Bool.and_eq_true, Bool.not_eq_true', List.isEmpty_eq_false_iff] at hwf
      exact pse_idx hwf.1.1 hwf.1.2 (fun x hx =>
        (ih x (by have := esize_mem hx; omega) (wfLPy_mem hwf.2 hx)).sp)
    | cond c t f =>
      simp only [esize] at hsz; simp only [wfPy, Bool.and_eq_true] at hwf
      exact pse_cond (ih c (by omega) hwf.1.1) (ih t (by omega) hwf.1.2) (ih f (by omega) hwf.2)

/-- the pieces of every well-formed expression are separated for the Python lexer -/
theorem pySeparated_pieces (e : Expr) (hwf : wfPy e = true) : pySeparated (piecesPy e) = true :=
  (pse_all (esize e) e (Nat.le_refl _) hwf).sp.sep

/-! ### from `lexPyFlat` to `lexPyExpr` -/

theorem pyJoin_id : ∀ (ts : List Tok) (d : Nat) (s : Bool), (∀ t ∈ ts, t ≠ .newline) → pyJoin d s ts = ts := by
  intro ts
  induction ts with
  | nil => intro d s _; rfl
  | cons t ts ih =>
    intro d s h
    have ht := h t (by simp)
    have hr := fun d' s' => ih d' s' (fun x hx => h x (by simp [hx]))
    cases t with
    | newline => exact absurd rfl ht
    | p q => cases q <;> simp [pyJoin, hr]
    | id _ => simp [pyJoin, hr]
    | num _ => simp [pyJoin, hr]
    | bad _ => simp [pyJoin, hr]
    | indent => simp [pyJoin, hr]
    | dedent => simp [pyJoin, hr]

theorem pySeparated_toks_ok : ∀ ps : List Piece, pySeparated ps = true → ∀ t ∈ toks ps, pyTokOK t = true := by
  intro ps
  induction ps with
  | nil => intro _ t ht; simp [toks] at ht
  | cons pc ps ih =>
    intro h t ht
    cases pc with
    | ws s =>
      simp only [pySeparated, Bool.and_eq_true] at h
      exact ih h.2 t (by simpa [toks] using ht)
    | t a =>
      simp only [pySeparated, Bool.and_eq_true] at h
      simp only [toks, List.mem_cons] at ht
      rcases ht with rfl | ht
      · exact h.1.1
      · exact ih h.2 t ht

/-- **No token fusion (numba, full).** For every well-formed expression the Python lexer reads the
    numba text back to exactly the tokens the formatter intends. -/
theorem no_token_fusion_py_aux (e : Expr) (hwf : wfPy e = true) : lexPyExpr (fmtExprPy e) = tokExprPy e := by
  have hs := pySeparated_pieces e hwf
  have h1 := lex_render_py _ hs
  unfold lexPyExpr fmtExprPy
  rw [h1]
  refine pyJoin_id _ 0 true ?_
  intro t ht hn
  have := pySeparated_toks_ok _ hs t ht
  rw [hn] at this
  exact absurd this (by decide)

end Ffcx.LNodes.Fmt
