/-
Generic facts about `Quad.groupInsert` / `Quad.groupBy` (the model of a Python dict of lists filled with
`d.setdefault(k, []).append(v)`) used by the quadrature-selection theorems (C11Select):
keys stay distinct, flattening the groups gives back the inserted pairs up to a permutation (nothing lost,
nothing duplicated), every member sits under the key it was inserted with.  Core Lean only.
-/
import FfcxModel.Geometry.Quad

namespace Ffcx.Quad

variable {κ α : Type} [BEq κ] [LawfulBEq κ]

/-- the pairs a grouped list stands for -/
def ungroup (g : List (κ × List α)) : List (κ × α) :=
  g.flatMap (fun p => p.2.map (fun v => (p.1, v)))

omit [BEq κ] [LawfulBEq κ] in
@[simp] theorem ungroup_nil : ungroup ([] : List (κ × List α)) = [] := rfl

omit [BEq κ] [LawfulBEq κ] in
@[simp] theorem ungroup_cons (p : κ × List α) (g : List (κ × List α)) :
    ungroup (p :: g) = p.2.map (fun v => (p.1, v)) ++ ungroup g := by
  simp [ungroup]

theorem groupInsert_keys (k : κ) (v : α) (g : List (κ × List α)) :
    (groupInsert k v g).map (·.1) = if k ∈ g.map (·.1) then g.map (·.1) else g.map (·.1) ++ [k] := by
  induction g with
  | nil => simp [groupInsert]
  | cons p rest ih =>
    obtain ⟨k', vs⟩ := p
    by_cases h : (k' == k) = true
    · have hk : k' = k := by simpa using h
      subst hk
      simp [groupInsert]
    · have hk : ¬ k' = k := by simpa using h
      have hk' : ¬ k = k' := fun e => hk e.symm
      have e : groupInsert k v ((k', vs) :: rest) = (k', vs) :: groupInsert k v rest := by
        simp [groupInsert, h]
      rw [e, List.map_cons, ih]
      by_cases hm : k ∈ rest.map (·.1)
      · simp [hm]
      · simp [hm, hk']

theorem groupInsert_keys_nodup (k : κ) (v : α) (g : List (κ × List α)) (h : (g.map (·.1)).Nodup) :
    ((groupInsert k v g).map (·.1)).Nodup := by
  rw [groupInsert_keys]
  by_cases hm : k ∈ g.map (·.1)
  · simpa [hm] using h
  · simp only [hm, if_false]
    rw [List.nodup_append]
    refine ⟨h, by simp, ?_⟩
    intro a ha b hb
    simp at hb
    subst hb
    intro e
    subst e
    exact hm ha

theorem groupInsert_perm (k : κ) (v : α) (g : List (κ × List α)) :
    (ungroup (groupInsert k v g)).Perm (ungroup g ++ [(k, v)]) := by
  induction g with
  | nil => simp [groupInsert]
  | cons p rest ih =>
    obtain ⟨k', vs⟩ := p
    by_cases h : (k' == k) = true
    · have hk : k' = k := by simpa using h
      subst hk
      simp only [groupInsert, h, if_true, ungroup_cons, List.map_append, List.map_cons, List.map_nil,
        List.append_assoc]
      refine List.Perm.append_left _ ?_
      exact (List.perm_append_comm (l₁ := [(k', v)]) (l₂ := ungroup rest))
    · have e : groupInsert k v ((k', vs) :: rest) = (k', vs) :: groupInsert k v rest := by
        simp [groupInsert, h]
      rw [e]
      simp only [ungroup_cons, List.append_assoc]
      exact List.Perm.append_left _ ih

theorem foldl_groupInsert_keys_nodup (l : List (κ × α)) (acc : List (κ × List α))
    (h : (acc.map (·.1)).Nodup) :
    ((l.foldl (fun acc kv => groupInsert kv.1 kv.2 acc) acc).map (·.1)).Nodup := by
  induction l generalizing acc with
  | nil => simpa using h
  | cons kv rest ih => exact ih _ (groupInsert_keys_nodup kv.1 kv.2 acc h)

theorem foldl_groupInsert_perm (l : List (κ × α)) (acc : List (κ × List α)) :
    (ungroup (l.foldl (fun acc kv => groupInsert kv.1 kv.2 acc) acc)).Perm (ungroup acc ++ l) := by
  induction l generalizing acc with
  | nil => simp
  | cons kv rest ih =>
    refine (ih (groupInsert kv.1 kv.2 acc)).trans ?_
    have := (groupInsert_perm kv.1 kv.2 acc).append_right rest
    simpa [List.append_assoc] using this

/-- the keys of a grouped list are pairwise distinct -/
theorem groupBy_keys_nodup (l : List (κ × α)) : ((groupBy l).map (·.1)).Nodup :=
  foldl_groupInsert_keys_nodup l [] (by simp)

/-- nothing is lost and nothing is duplicated -/
theorem groupBy_perm (l : List (κ × α)) : (ungroup (groupBy l)).Perm l := by
  simpa [groupBy] using foldl_groupInsert_perm l ([] : List (κ × List α))

/-- every member of a group was inserted with the group's key -/
theorem groupBy_sound (l : List (κ × α)) (k : κ) (vs : List α) (v : α)
    (hg : (k, vs) ∈ groupBy l) (hv : v ∈ vs) : (k, v) ∈ l := by
  have : (k, v) ∈ ungroup (groupBy l) := by
    simp only [ungroup, List.mem_flatMap, List.mem_map]
    exact ⟨(k, vs), hg, v, hv, rfl⟩
  exact (groupBy_perm l).mem_iff.mp this

omit [LawfulBEq κ] in
/-- a group is never empty -/
theorem groupInsert_nonempty (k : κ) (v : α) (g : List (κ × List α)) (h : ∀ p ∈ g, p.2 ≠ []) :
    ∀ p ∈ groupInsert k v g, p.2 ≠ [] := by
  induction g with
  | nil => intro p hp; simp [groupInsert] at hp; subst hp; simp
  | cons q rest ih =>
    obtain ⟨k', us⟩ := q
    intro p hp
    by_cases hk : (k' == k) = true
    · simp only [groupInsert, hk, if_true, List.mem_cons] at hp
      rcases hp with hp | hp
      · subst hp; simp
      · exact h p (by simp [hp])
    · have e : groupInsert k v ((k', us) :: rest) = (k', us) :: groupInsert k v rest := by
        simp [groupInsert, hk]
      rw [e, List.mem_cons] at hp
      rcases hp with hp | hp
      · subst hp; exact h (k', us) (by simp)
      · exact ih (fun p hp => h p (by simp [hp])) p hp

omit [LawfulBEq κ] in
theorem groupBy_nonempty (l : List (κ × α)) : ∀ p ∈ groupBy l, p.2 ≠ [] := by
  suffices H : ∀ (acc : List (κ × List α)), (∀ p ∈ acc, p.2 ≠ []) →
      ∀ p ∈ l.foldl (fun acc kv => groupInsert kv.1 kv.2 acc) acc, p.2 ≠ [] from H [] (by simp)
  induction l with
  | nil => intro acc h; simpa using h
  | cons kv rest ih => intro acc h; exact ih _ (groupInsert_nonempty kv.1 kv.2 acc h)

/-- two groups with the same key are the same group -/
theorem groupBy_key_unique (l : List (κ × α)) (k : κ) (vs ws : List α)
    (h1 : (k, vs) ∈ groupBy l) (h2 : (k, ws) ∈ groupBy l) : vs = ws := by
  have hn := groupBy_keys_nodup l
  generalize groupBy l = g at h1 h2 hn
  induction g with
  | nil => simp at h1
  | cons p rest ih =>
    simp only [List.map_cons, List.nodup_cons] at hn
    simp only [List.mem_cons] at h1 h2
    rcases h1 with h1 | h1 <;> rcases h2 with h2 | h2
    · rw [← h1] at h2; exact (Prod.mk.inj h2).2.symm ▸ rfl
    · exfalso; apply hn.1; rw [← h1]; exact List.mem_map.mpr ⟨(k, ws), h2, rfl⟩
    · exfalso; apply hn.1; rw [← h2]; exact List.mem_map.mpr ⟨(k, vs), h1, rfl⟩
    · exact ih h1 h2 hn.2

end Ffcx.Quad

namespace Ffcx.QuadSel

/-- pointwise relation of two lists of equal length (`List.Forall₂` of Mathlib, kept local: core only) -/
inductive Rel2 {α β : Type} (R : α → β → Prop) : List α → List β → Prop where
  | nil : Rel2 R [] []
  | cons {a b l m} : R a b → Rel2 R l m → Rel2 R (a :: l) (b :: m)

namespace Rel2
variable {α β : Type} {R S : α → β → Prop}

theorem length_eq {l : List α} {m : List β} (h : Rel2 R l m) : l.length = m.length := by
  induction h with
  | nil => rfl
  | cons _ _ ih => simp [ih]

theorem imp (hRS : ∀ a b, R a b → S a b) {l : List α} {m : List β} (h : Rel2 R l m) : Rel2 S l m := by
  induction h with
  | nil => exact .nil
  | cons h _ ih => exact .cons (hRS _ _ h) ih

/-- the i-th elements are related -/
theorem get {l : List α} {m : List β} (h : Rel2 R l m) (i : Nat) (hi : i < l.length) (hj : i < m.length) :
    R l[i] m[i] := by
  induction h generalizing i with
  | nil => simp at hi
  | cons h _ ih =>
    cases i with
    | zero => simpa using h
    | succ n => simpa using ih n (by simpa using hi) (by simpa using hj)

/-- a related pair for every member of the left list -/
theorem of_mem_left {l : List α} {m : List β} (h : Rel2 R l m) {a : α} (ha : a ∈ l) : ∃ b ∈ m, R a b := by
  induction h with
  | nil => simp at ha
  | cons h _ ih =>
    simp only [List.mem_cons] at ha
    rcases ha with ha | ha
    · subst ha; exact ⟨_, by simp, h⟩
    · obtain ⟨b, hb, hr⟩ := ih ha
      exact ⟨b, by simp [hb], hr⟩

/-- a relation that holds along a list also holds, suitably permuted, along every permutation of it -/
theorem perm {l l' : List α} (hp : l'.Perm l) {m : List β} (h : Rel2 R l m) :
    ∃ m', m'.Perm m ∧ Rel2 R l' m' := by
  induction hp generalizing m with
  | nil => cases h; exact ⟨[], .refl _, .nil⟩
  | cons a _ ih =>
    cases h with
    | cons hab hrest =>
      obtain ⟨m', hm, hr⟩ := ih hrest
      exact ⟨_ :: m', hm.cons _, .cons hab hr⟩
  | swap a b l =>
    cases h with
    | cons h1 hrest =>
      cases hrest with
      | cons h2 hrest =>
        exact ⟨_ :: _ :: _, List.Perm.swap _ _ _, .cons h2 (.cons h1 hrest)⟩
  | trans _ _ ih1 ih2 =>
    obtain ⟨m2, hm2, hr2⟩ := ih2 h
    obtain ⟨m1, hm1, hr1⟩ := ih1 hr2
    exact ⟨m1, hm1.trans hm2, hr1⟩

end Rel2
end Ffcx.QuadSel
