/-
Accumulation into one array: the relation `Acc A Wi Ws d σ τ` ("τ is σ with `A[k]` increased by `d k`,
integer names in `Wi` and scalar names in `Ws` possibly overwritten, nothing else changed"), its
algebra, and the loop rule `loopN_acc` / `forRange_accumulate` (induction over the trip count).
-/
import FfcxModel.LNodes.Sem
import FfcxProofs.Lemmas.AgreeOn
import FfcxProofs.Lemmas.AgreeOnExec
import FfcxProofs.Lemmas.Fold

set_option linter.unusedSectionVars false

namespace Ffcx.Codegen
open Ffcx Ffcx.LNodes Lean.Grind
attribute [local instance] Lean.Grind.Ring.intCast
variable {R : Type} [Field R]

/-- Σ_{v = lo}^{lo+n-1} f v, in the order the loop runs. -/
def isum (lo : Int) : Nat → (Int → R) → R
  | 0, _ => 0
  | n + 1, f => f lo + isum (lo + 1) n f

theorem isum_congr {f g : Int → R} : ∀ (n : Nat) (lo : Int),
    (∀ v, lo ≤ v → v < lo + n → f v = g v) → isum lo n f = isum lo n g
  | 0, _, _ => rfl
  | n + 1, lo, h => by
    simp only [isum]
    rw [h lo (by omega) (by omega), isum_congr n (lo + 1) (fun v h1 h2 => h v (by omega) (by omega))]

theorem isum_zero : ∀ (n : Nat) (lo : Int), isum (R := R) lo n (fun _ => 0) = 0
  | 0, _ => rfl
  | n + 1, lo => by simp only [isum, isum_zero n]; grind

theorem isum_add (f g : Int → R) : ∀ (n : Nat) (lo : Int),
    isum lo n (fun v => f v + g v) = isum lo n f + isum lo n g
  | 0, _ => by simp only [isum]; grind
  | n + 1, lo => by simp only [isum, isum_add f g n]; grind

theorem isum_mul_left (c : R) (f : Int → R) : ∀ (n : Nat) (lo : Int),
    isum lo n (fun v => c * f v) = c * isum lo n f
  | 0, _ => by simp only [isum]; grind
  | n + 1, lo => by simp only [isum, isum_mul_left c f n]; grind

/-- a sum all of whose terms but (at most) the one at `v₀` vanish -/
theorem isum_single (f : Int → R) (v₀ : Int) : ∀ (n : Nat) (lo : Int),
    (∀ v, lo ≤ v → v < lo + n → v ≠ v₀ → f v = 0) →
    isum lo n f = if lo ≤ v₀ ∧ v₀ < lo + n then f v₀ else 0
  | 0, lo, _ => by
    simp only [isum]
    split
    · omega
    · rfl
  | n + 1, lo, h => by
    simp only [isum]
    rw [isum_single f v₀ n (lo + 1) (fun v h1 h2 hne => h v (by omega) (by omega) hne)]
    by_cases h0 : lo = v₀
    · subst h0
      have : ¬ (lo + 1 ≤ lo ∧ lo < lo + 1 + ↑n) := by omega
      have h2 : lo ≤ lo ∧ lo < lo + ↑(n + 1) := by omega
      simp only [this, h2, if_false, and_self, if_true]
      grind
    · have hz := h lo (by omega) (by omega) h0
      rw [hz]
      by_cases h1 : lo + 1 ≤ v₀ ∧ v₀ < lo + 1 + ↑n
      · have h2 : lo ≤ v₀ ∧ v₀ < lo + ↑(n + 1) := by omega
        simp only [h1, h2, and_self, if_true]; grind
      · have h2 : ¬ (lo ≤ v₀ ∧ v₀ < lo + ↑(n + 1)) := by omega
        simp only [h1, h2, if_false]; grind

/-- `τ` is `σ` with `A[k]` increased by `d k`; integer variables in `Wi` and scalar variables in
    `Ws` may have been overwritten; everything else (integer arrays, all other scalar arrays, the
    shape of `A`) is unchanged. -/
structure Acc (A : String) (Wi Ws : String → Prop) (d : Nat → R) (σ τ : St R) : Prop where
  ia : τ.ia = σ.ia
  iv : ∀ n, ¬ Wi n → τ.iv.get n = σ.iv.get n
  sv : ∀ n, ¬ Ws n → τ.sv.get n = σ.sv.get n
  sa : ∀ n, n ≠ A → τ.sa.get n = σ.sa.get n
  arr : ∃ a a', σ.sa.get A = some a ∧ τ.sa.get A = some a' ∧ a'.dims = a.dims ∧ a'.const = a.const ∧
      a'.data.size = a.data.size ∧ ∀ k, k < a.data.size → a'.data.getD k 0 = a.data.getD k 0 + d k

/-- `A` is a declared, writable, flat array of `N` scalars. -/
def AOk (A : String) (N : Nat) (σ : St R) : Prop :=
  ∃ a, σ.sa.get A = some a ∧ a.dims = [N] ∧ a.const = false ∧ a.data.size = N

variable {A : String} {Wi Ws : String → Prop}

theorem Acc.refl {σ : St R} {a : Arr R} (h : σ.sa.get A = some a) :
    Acc A Wi Ws (fun _ => 0) σ σ :=
  ⟨rfl, fun _ _ => rfl, fun _ _ => rfl, fun _ _ => rfl,
    ⟨a, a, h, h, rfl, rfl, rfl, fun k _ => by grind⟩⟩

theorem Acc.trans {d₁ d₂ : Nat → R} {σ τ υ : St R} (h₁ : Acc A Wi Ws d₁ σ τ)
    (h₂ : Acc A Wi Ws d₂ τ υ) : Acc A Wi Ws (fun k => d₁ k + d₂ k) σ υ := by
  obtain ⟨a, a', ha, ha', hd, hc, hs, hv⟩ := h₁.arr
  obtain ⟨b, b', hb, hb', hd', hc', hs', hv'⟩ := h₂.arr
  rw [ha'] at hb; cases hb
  refine ⟨h₂.ia.trans h₁.ia, fun n hn => (h₂.iv n hn).trans (h₁.iv n hn),
    fun n hn => (h₂.sv n hn).trans (h₁.sv n hn), fun n hn => (h₂.sa n hn).trans (h₁.sa n hn),
    ⟨a, b', ha, hb', hd'.trans hd, hc'.trans hc, hs'.trans hs, ?_⟩⟩
  intro k hk
  rw [hv' k (by omega), hv k hk]
  grind

theorem Acc.mono {Wi' Ws' : String → Prop} {d : Nat → R} {σ τ : St R} (h : Acc A Wi Ws d σ τ)
    (hi : ∀ n, Wi n → Wi' n) (hs : ∀ n, Ws n → Ws' n) : Acc A Wi' Ws' d σ τ :=
  ⟨h.ia, fun n hn => h.iv n (fun c => hn (hi n c)), fun n hn => h.sv n (fun c => hn (hs n c)),
    h.sa, h.arr⟩

theorem Acc.congr {d d' : Nat → R} {σ τ : St R} (h : Acc A Wi Ws d σ τ) (he : ∀ k, d k = d' k) :
    Acc A Wi Ws d' σ τ := by
  have : d = d' := funext he
  rw [← this]; exact h

/-- the loop index is in the write set: an iteration started from `σ.setIV i v` is an
    accumulation step from `σ` -/
theorem Acc.of_setIV {d : Nat → R} {σ τ : St R} {i : String} {v : Int} (hi : Wi i)
    (h : Acc A Wi Ws d (σ.setIV i v) τ) : Acc A Wi Ws d σ τ := by
  refine ⟨h.ia, ?_, h.sv, h.sa, h.arr⟩
  intro n hn
  have hne : i ≠ n := fun e => hn (e ▸ hi)
  rw [h.iv n hn]
  simp [St.setIV, AList.get_set_ne _ _ _ _ hne]

theorem Acc.of_setSV {d : Nat → R} {σ τ : St R} {s : String} {v : R} (hs : Ws s)
    (h : Acc A Wi Ws d (σ.setSV s v) τ) : Acc A Wi Ws d σ τ := by
  refine ⟨h.ia, h.iv, ?_, h.sa, h.arr⟩
  intro n hn
  have hne : s ≠ n := fun e => hn (e ▸ hs)
  rw [h.sv n hn]
  simp [St.setSV, AList.get_set_ne _ _ _ _ hne]

theorem AOk.of_acc {N : Nat} {d : Nat → R} {σ τ : St R} (h : Acc A Wi Ws d σ τ) (hA : AOk A N σ) :
    AOk A N τ := by
  obtain ⟨a, ha, hd, hc, hs⟩ := hA
  obtain ⟨b, b', hb, hb', hd', hc', hs', _⟩ := h.arr
  rw [ha] at hb; cases hb
  exact ⟨b', hb', hd'.trans hd, hc'.trans hc, hs'.trans hs⟩

theorem AOk.setIV {N : Nat} {σ : St R} (h : AOk A N σ) (i : String) (v : Int) :
    AOk A N (σ.setIV i v) := h

theorem AOk.setSV {N : Nat} {σ : St R} (h : AOk A N σ) (i : String) (v : R) :
    AOk A N (σ.setSV i v) := h

/-- Agreement of two states outside `A`'s contents: integer variables in `Pi`, scalar variables in
    `Ps`, all integer arrays, all scalar arrays but `A`. -/
structure Agree (A : String) (Pi Ps : String → Prop) (σ τ : St R) : Prop where
  ia : τ.ia = σ.ia
  iv : ∀ n, Pi n → τ.iv.get n = σ.iv.get n
  sv : ∀ n, Ps n → τ.sv.get n = σ.sv.get n
  sa : ∀ n, n ≠ A → τ.sa.get n = σ.sa.get n

variable {Pi Ps : String → Prop}

theorem Acc.agree {d : Nat → R} {σ τ : St R} (h : Acc A Wi Ws d σ τ) :
    Agree A (fun n => ¬ Wi n) (fun n => ¬ Ws n) σ τ := ⟨h.ia, h.iv, h.sv, h.sa⟩

theorem Agree.refl (σ : St R) : Agree A Pi Ps σ σ := ⟨rfl, fun _ _ => rfl, fun _ _ => rfl, fun _ _ => rfl⟩

theorem Agree.symm {σ τ : St R} (h : Agree A Pi Ps σ τ) : Agree A Pi Ps τ σ :=
  ⟨h.ia.symm, fun n hn => (h.iv n hn).symm, fun n hn => (h.sv n hn).symm, fun n hn => (h.sa n hn).symm⟩

theorem Agree.mono {Pi' Ps' : String → Prop} {σ τ : St R} (h : Agree A Pi Ps σ τ)
    (hi : ∀ n, Pi' n → Pi n) (hs : ∀ n, Ps' n → Ps n) : Agree A Pi' Ps' σ τ :=
  ⟨h.ia, fun n hn => h.iv n (hi n hn), fun n hn => h.sv n (hs n hn), h.sa⟩

theorem Agree.setIV {σ τ : St R} (h : Agree A Pi Ps σ τ) (i : String) (v : Int) :
    Agree A (fun n => Pi n ∨ n = i) Ps (σ.setIV i v) (τ.setIV i v) := by
  refine ⟨h.ia, ?_, h.sv, h.sa⟩
  intro n hn
  simp only [St.setIV, AList.get_set]
  by_cases e : i = n
  · simp [e]
  · simp only [e, if_false]
    rcases hn with hn | hn
    · exact h.iv n hn
    · exact absurd hn.symm e

theorem Agree.setSV {σ τ : St R} (h : Agree A Pi Ps σ τ) (s : String) (v : R) :
    Agree A Pi (fun n => Ps n ∨ n = s) (σ.setSV s v) (τ.setSV s v) := by
  refine ⟨h.ia, h.iv, ?_, h.sa⟩
  intro n hn
  simp only [St.setSV, AList.get_set]
  by_cases e : s = n
  · simp [e]
  · simp only [e, if_false]
    rcases hn with hn | hn
    · exact h.sv n hn
    · exact absurd hn.symm e

/-- what the existing name-level frame lemmas (`eval_agreeOn`, …) need -/
theorem Agree.agreeOn {σ τ : St R} (h : Agree A Pi Ps σ τ) :
    AgreeOn (fun n => n ≠ A ∧ Pi n ∧ Ps n) σ τ :=
  ⟨fun n hn => (h.iv n hn.2.1).symm, fun n hn => (h.sv n hn.2.2).symm,
    fun n _ => by rw [h.ia], fun n hn => (h.sa n hn.1).symm⟩

theorem execL_singleton (x : Extra R) (s : Stmt) (σ : St R) : execL x [s] σ = exec x s σ := by
  simp only [execL]
  cases exec x s σ <;> rfl

/-- **Loop rule.** If the body, started in any state satisfying `Pre`, succeeds and accumulates
    `δ τ` into `A` (touching only `Wi`, `Ws`), and `Pre`, `δ` at the start of an iteration do not
    depend on what earlier iterations did (to `A`, `Wi`, `Ws`), then `n` iterations accumulate
    `Σ_v δ (σ[i := v])`. Induction over the trip count. -/
theorem loopN_acc (body : St R → Except Err (St R)) (i : String) (hi : Wi i)
    (Pre : St R → Prop) (δ : St R → Nat → R)
    (hbody : ∀ τ, Pre τ → ∃ τ', body τ = .ok τ' ∧ Acc A Wi Ws (δ τ) τ τ')
    (hstab : ∀ (v : Int) (τ τ' : St R) (d : Nat → R), Acc A Wi Ws d τ τ' →
      (Pre (τ.setIV i v) → Pre (τ'.setIV i v)) ∧ ∀ k, δ (τ'.setIV i v) k = δ (τ.setIV i v) k) :
    ∀ (n : Nat) (lo : Int) (σ : St R), (∃ a, σ.sa.get A = some a) →
      (∀ t : Nat, t < n → Pre (σ.setIV i (lo + t))) →
      ∃ σ', loopN body i lo n σ = .ok σ' ∧
        Acc A Wi Ws (fun k => isum lo n (fun v => δ (σ.setIV i v) k)) σ σ'
  | 0, lo, σ, ⟨a, ha⟩, _ => ⟨σ, rfl, (Acc.refl ha).congr (fun _ => rfl)⟩
  | n + 1, lo, σ, ⟨a, ha⟩, hpre => by
    have h0 : Pre (σ.setIV i lo) := by simpa using hpre 0 (by omega)
    obtain ⟨σ₁, hb, hacc⟩ := hbody _ h0
    have hacc' : Acc A Wi Ws (δ (σ.setIV i lo)) σ σ₁ := Acc.of_setIV hi hacc
    have hA₁ : ∃ a, σ₁.sa.get A = some a := by
      obtain ⟨_, a', _, h, _⟩ := hacc'.arr; exact ⟨a', h⟩
    have hpre₁ : ∀ t : Nat, t < n → Pre (σ₁.setIV i (lo + 1 + t)) := by
      intro t ht
      have := hpre (t + 1) (by omega)
      have e : lo + ((t + 1 : Nat) : Int) = lo + 1 + (t : Int) := by omega
      rw [e] at this
      exact (hstab _ σ σ₁ _ hacc').1 this
    obtain ⟨σ', hl, hacc₂⟩ := loopN_acc body i hi Pre δ hbody hstab n (lo + 1) σ₁ hA₁ hpre₁
    refine ⟨σ', ?_, ?_⟩
    · simp only [loopN, hb, hl]
    · refine (hacc'.trans hacc₂).congr ?_
      intro k
      simp only [isum]
      congr 1
      exact isum_congr n (lo + 1) (fun v _ _ => (hstab v σ σ₁ _ hacc').2 k)

/-- **forRange_accumulate.** `for (i = 0; i < n; ++i) body` as `exec` runs it. -/
theorem forRange_accumulate (x : Extra R) (body : List Stmt) (i : String) (n : Nat) (hi : Wi i)
    (Pre : St R → Prop) (δ : St R → Nat → R)
    (hbody : ∀ τ, Pre τ → ∃ τ', execL x body τ = .ok τ' ∧ Acc A Wi Ws (δ τ) τ τ')
    (hstab : ∀ (v : Int) (τ τ' : St R) (d : Nat → R), Acc A Wi Ws d τ τ' →
      (Pre (τ.setIV i v) → Pre (τ'.setIV i v)) ∧ ∀ k, δ (τ'.setIV i v) k = δ (τ.setIV i v) k)
    (σ : St R) (hA : ∃ a, σ.sa.get A = some a)
    (hpre : ∀ t : Nat, t < n → Pre (σ.setIV i t)) :
    ∃ σ', exec x (.forRange i (.litI 0) (.litI n) body) σ = .ok σ' ∧
      Acc A Wi Ws (fun k => isum 0 n (fun v => δ (σ.setIV i v) k)) σ σ' := by
  have := loopN_acc (fun s => execL x body s) i hi Pre δ hbody hstab n 0 σ hA
    (by intro t ht; simpa using hpre t ht)
  simpa [exec, evalI] using this

end Ffcx.Codegen
