/-
C16 — numba token-level round trip, part 2: literals, symbols, unary minus, `not`, binary
operators (comparison chains), the conditional expression, n-ary nodes.
-/
import FfcxProofs.Lemmas.FormatPyRT
import FfcxProofs.Lemmas.FormatRTCases
namespace Ffcx.LNodes.Fmt
open Ffcx.LNodes

/-! ## atoms and literals (numba) -/

theorem pyNumShape_head {cs : List Char} (h : pyNumShape cs = true) : ∃ c r, cs = c :: r ∧ c ≠ '-' := by
  cases cs with
  | nil => simp [pyNumShape] at h
  | cons c r =>
    refine ⟨c, r, rfl, ?_⟩
    simp only [pyNumShape, Bool.and_eq_true] at h
    intro hc
    subst hc
    exact absurd h.1.1 (by decide)

/-- everything follows from the `un` field for nodes printed as factors -/
theorem rtp_of_un {e} (_hlv : 7 ≤ lvPy (precF e))
    (hun : ∀ m rest F, headAll postStopPyT rest = true → 8 * (tkp e).length ≤ F →
      pyOperand F m (tkp e ++ rest) = some (erasePy e, rest))
    (hd : ∃ t r, tkp e = t :: r ∧ pyStart t = true) : RTP e := by
  have hbin := py_bin_of_un hun
  exact ⟨py_full_of_bin hbin, hbin, fun _ => hun, hd⟩

theorem rtp_atom {e t} (htk : tkp e = [t]) (hat : pyAtomOf t = some (erasePy e))
    (hlv : 7 ≤ lvPy (precF e)) : RTP e := by
  have hst : pyStart t = true := by cases t <;> simp [pyAtomOf] at hat <;> rfl
  have hne : t ≠ .id "not" ∧ t ≠ .p .minus ∧ t ≠ .p .lpar ∧ t ≠ .p .lbrack := by
    cases t with
    | id s =>
      refine ⟨?_, by simp, by simp, by simp⟩
      intro h; injection h with h; subst h
      simp [pyAtomOf, pyKeywords] at hat
    | num s => simp
    | p q => simp [pyAtomOf] at hat
    | bad c => simp [pyAtomOf] at hat
    | newline => simp [pyAtomOf] at hat
    | indent => simp [pyAtomOf] at hat
    | dedent => simp [pyAtomOf] at hat
  refine rtp_of_un hlv ?_ ⟨t, [], htk, hst⟩
  intro m rest F hps hF
  rw [htk] at hF ⊢
  obtain ⟨n, rfl⟩ := Nat.exists_eq_add_of_le' (show 2 ≤ F by simp at hF; omega)
  simp only [List.cons_append, List.nil_append]
  rw [pyOperand]
  simp only [hne.1, hne.2.1, hne.2.2.1, hne.2.2.2, if_false, hat]
  exact pyTrailers_stop (by simp at hF; omega) hps

theorem rtp_negatom {e t X} (htk : tkp e = [.p .minus, t]) (hat : pyAtomOf t = some X)
    (her : erasePy e = .un .neg X) (hlv : 7 ≤ lvPy (precF e)) : RTP e := by
  have hne : t ≠ .id "not" ∧ t ≠ .p .minus ∧ t ≠ .p .lpar ∧ t ≠ .p .lbrack := by
    cases t with
    | id s =>
      refine ⟨?_, by simp, by simp, by simp⟩
      intro h; injection h with h; subst h
      simp [pyAtomOf, pyKeywords] at hat
    | num s => simp
    | p q => simp [pyAtomOf] at hat
    | bad c => simp [pyAtomOf] at hat
    | newline => simp [pyAtomOf] at hat
    | indent => simp [pyAtomOf] at hat
    | dedent => simp [pyAtomOf] at hat
  refine rtp_of_un hlv ?_ ⟨_, _, htk, rfl⟩
  intro m rest F hps hF
  rw [htk] at hF ⊢
  obtain ⟨n, rfl⟩ := Nat.exists_eq_add_of_le' (show 3 ≤ F by simp at hF; omega)
  simp only [List.cons_append, List.nil_append]
  rw [pyOperand]
  simp only [show ¬ (Tok.p P.minus = Tok.id "not") by decide, if_false, if_true]
  rw [pyOperand]
  simp only [hne.1, hne.2.1, hne.2.2.1, hne.2.2.2, if_false, hat]
  rw [pyTrailers_stop (by omega) hps, her]

theorem absR_nonneg {x : Rat} (h : ¬ x < 0) : absR x = x := by simp [absR, h]
theorem absR_neg {x : Rat} (h : x < 0) : absR x = -x := by simp [absR, h]

theorem rtp_litF {re im} (hwf : wfPy (.litF re im false) = true) : RTP (.litF re im false) := by
  simp only [wfPy, pyLitShapeOK, Bool.and_eq_true] at hwf
  by_cases hneg : re < 0
  · have h0 : re ≠ 0 := by grind
    have h1 : ¬ (-re < 0) := by grind
    have h2 : -re ≠ 0 := by grind
    have e1 : reprFloat re = '-' :: reprPos true (-re) := by simp [reprFloat, h0, hneg]
    have e2 : reprFloat (-re) = reprPos true (-re) := by simp [reprFloat, h1, h2]
    refine rtp_negatom (t := .num (String.ofList (reprPos true (-re)))) (X := .num (String.ofList (reprPos true (-re)))) ?_ rfl ?_ (by simp [precF, Expr.prec, lvPy])
    · simp [tkp, tokExprPy, piecesPy, pyNumber, e1, numPieces, pp]
    · simp [erasePy, erasePyReal, hneg, e2]
  · rw [absR_nonneg hneg] at hwf
    obtain ⟨c, r, hcr, hc⟩ := pyNumShape_head hwf.1
    refine rtp_atom (t := .num (String.ofList (reprFloat re))) ?_ ?_ (by simp [precF, Expr.prec, lvPy])
    · simp [tkp, tokExprPy, piecesPy, pyNumber, hcr, numPieces_pos hc]
    · simp [erasePy, erasePyReal, hneg, pyAtomOf]

theorem rtp_litI {v} (hwf : wfPy (.litI v) = true) : RTP (.litI v) := by
  simp only [wfPy, pyLitShapeOK] at hwf
  by_cases hneg : v < 0
  · have e1 : fmtInt v = '-' :: natDigits v.natAbs := by simp [fmtInt, hneg]
    have e2 : fmtInt (-v) = natDigits v.natAbs := by
      have : ¬ (-v < 0) := by omega
      simp only [fmtInt, this, if_false]
      congr 1
      omega
    refine rtp_negatom (t := .num (String.ofList (natDigits v.natAbs))) (X := .num (String.ofList (natDigits v.natAbs))) ?_ rfl ?_ (by simp [precF, Expr.prec, lvPy])
    · simp [tkp, tokExprPy, piecesPy, pyNumber, e1, numPieces, pp]
    · simp [erasePy, hneg, e2]
  · simp only [hneg, if_false] at hwf
    obtain ⟨c, r, hcr, hc⟩ := pyNumShape_head hwf
    refine rtp_atom (t := .num (String.ofList (fmtInt v))) ?_ ?_ (by simp [precF, Expr.prec, lvPy])
    · simp [tkp, tokExprPy, piecesPy, pyNumber, hcr, numPieces_pos hc]
    · simp [erasePy, hneg, pyAtomOf]

theorem validIdentPy_not_kw {n : String} (h : validIdentPy n = true) : pyKeywords.contains n = false := by
  simp only [validIdentPy, Bool.and_eq_true, Bool.not_eq_true'] at h
  exact h.2

theorem rtp_sym {n dt} (hwf : wfPy (.sym n dt) = true) : RTP (.sym n dt) := by
  simp only [wfPy] at hwf
  refine rtp_atom (t := .id n) (tkp_sym n dt) ?_ (by simp [precF, Expr.prec, lvPy])
  have := validIdentPy_not_kw hwf
  simp only [erasePy, pyAtomOf, this]
  rfl


/-! ## unary minus, `not`, binary operators, conditional (numba) -/

theorem rtp_neg {a} (ha : RTP a) : RTP (.neg a) := by
  refine rtp_of_un (by simp [precF, Expr.prec, lvPy]) ?_ ⟨_, _, tkp_neg a, rfl⟩
  intro m rest F hps hF
  rw [tkp_neg] at hF ⊢
  simp only [List.length_cons] at hF
  obtain ⟨n, rfl⟩ := Nat.exists_eq_add_of_le' (show 1 ≤ F by omega)
  simp only [List.cons_append]
  rw [pyOperand]
  simp only [show ¬ (Tok.p P.minus = Tok.id "not") by decide, if_false, if_true]
  rw [py_oul ha (p := decide (precF a ≥ 3)) (m := 7) (rest := rest) (F := n) ?_ hps (by omega)]
  · simp [erasePy]
  · intro h
    simp only [decide_eq_false_iff_not] at h
    have : precF a ≤ 2 := by omega
    revert this
    generalize precF a = p
    intro hp
    have : p = 0 ∨ p = 1 ∨ p = 2 := by omega
    rcases this with rfl | rfl | rfl <;> decide

theorem rtp_not {a} (ha : RTP a) : RTP (.not a) := by
  refine rtp_of_un (by simp [precF, Expr.prec, lvPy]) ?_ ⟨_, _, tkp_not a, rfl⟩
  intro m rest F hps hF
  rw [tkp_not] at hF ⊢
  simp only [List.length_cons, List.length_append, List.length_nil] at hF
  obtain ⟨n, rfl⟩ := Nat.exists_eq_add_of_le' (show 6 ≤ F by omega)
  simp only [List.cons_append, List.append_assoc, List.nil_append]
  -- ( not ( a ) )
  rw [pyOperand]
  simp only [show ¬ (Tok.p P.lpar = Tok.id "not") by decide, show ¬ (Tok.p P.lpar = Tok.p P.minus) by decide,
    if_false, if_true, List.head?_cons, show ¬ (some (Tok.id "not") = some (Tok.p P.rpar)) by simp]
  -- the inner `not ( a )` as a test followed by `)`
  have hin : pyTest (n + 5) (.id "not" :: .p .lpar :: (tkp a ++ .p .rpar :: .p .rpar :: rest))
      = some (.un .not (erasePy a), .p .rpar :: rest) := by
    rw [pyTest, pyLvl, pyOperand]
    simp only [if_true, show (1 : Nat) ≤ 3 by decide]
    rw [pyLvl]
    rw [py_paren_un ha (m := 3) (rest := .p .rpar :: rest) (F := n + 1) (by rfl) (by omega)]
    simp only []
    rw [pyLoop_stop (k := n + 1) (m := 3) (l := 0) (by omega) (by rfl) (by omega)]
    simp only []
    rw [pyLoop_stop (k := n + 3) (m := 1) (l := 0) (by omega) (by rfl) (by omega)]
    simp
  rw [hin]
  simp only [if_true]
  rw [pyTrailers_stop (by omega) hps]
  simp [erasePy]

theorem noTighterPy_op {op : BinOp} {L : Nat} (h : lvPy op.prec ≤ L) (r : List Tok) :
    headAll (noTighterPyT L) (pyOpTok op :: r) = true := by
  simp only [headAll, noTighterPyT, pyBinLevel_opTok, Bool.and_eq_true, decide_eq_true_eq]
  refine ⟨?_, h⟩
  cases op <;> decide

/-- a well-formed node whose precedence is that of a comparison is a comparison -/
theorem cmp_of_prec {e} (hwf : wfPy e = true) (h : precF e = 7 ∨ precF e = 8) : isCmpNode e = true := by
  cases e with
  | bin op a b => cases op <;> simp [precF, Expr.prec, BinOp.prec] at h <;> rfl
  | mi s z gi =>
    simp only [wfPy, Bool.and_eq_true] at hwf
    cases gi <;> simp at hwf <;> simp [precF, Expr.prec] at h
  | _ => simp [precF, Expr.prec] at h

/-- an unparenthesised operand of a binary operator binds strictly tighter -/
theorem py_unparen_level {op : BinOp} {x : Expr} (hwf : wfPy x = true) (hp : pyParen op x = false) :
    lvPy op.prec + 1 ≤ lvPy (precF x) := by
  simp only [pyParen, Bool.or_eq_false_iff, decide_eq_false_iff_not, Bool.and_eq_false_iff] at hp
  obtain ⟨h1, h2⟩ := hp
  have hr := binop_prec_range op
  refine lvPy_strict op.prec hr.2 (precF x) (by omega) (binop_prec_cases op) ?_
  by_cases h8 : op.prec = 8
  · right
    intro h7
    have hc := cmp_of_prec hwf (Or.inl h7)
    have : op.isCompare = true := by cases op <;> simp [BinOp.prec] at h8 <;> rfl
    rcases h2 with h2 | h2
    · rw [this] at h2; exact absurd h2 (by decide)
    · rw [hc] at h2; exact absurd h2 (by decide)
  · left; exact h8

theorem rtp_bin {op a b} (wa : wfPy a = true) (wb : wfPy b = true) (ha : RTP a) (hb : RTP b) :
    RTP (.bin op a b) := by
  obtain ⟨hr1, hr2⟩ := binop_prec_range op
  have hprec : precF (.bin op a b) = op.prec := rfl
  have hbin : ∀ m rest k res F, m ≤ lvPy (precF (.bin op a b)) →
      headAll (noTighterPyT (flw (precF (.bin op a b)))) rest = true →
      pyLoop k m (erasePy (.bin op a b)) rest = some res →
      k + 8 * (tkp (.bin op a b)).length + 1 ≤ F →
      pyLvl F m (tkp (.bin op a b) ++ rest) = some res := by
    intro m rest k res F hm hnt hloop hF
    rw [hprec] at hm hnt
    rw [tkp_bin] at hF ⊢
    simp only [List.length_append, List.length_cons] at hF
    simp only [List.append_assoc, List.cons_append]
    have hps := noTighterPy_postStop hnt
    have hflw := flw_le op.prec
    generalize hlv : lvPy op.prec = lv at *
    -- the left operand, then the loop sees the operator
    refine py_opl ha ?_ (noTighterPy_postStop (noTighterPy_op (L := lv) (by omega) _))
      (k := k + 8 * (parenT (pyParen op b) (tkp b)).length + 4) ?_ (by omega)
    · intro hp
      have := py_unparen_level (op := op) wa hp
      refine ⟨by omega, noTighterPy_op ?_ _⟩
      rw [hlv] at this ⊢
      unfold flw; split <;> omega
    · rw [pyLoop]
      simp only [pyBinLevel_opTok, hlv, hm, if_true]
      by_cases h4 : lv = 4
      · -- a comparison: right operand at level 5, then the (empty) chain
        have hnt3 : headAll (noTighterPyT 3) rest = true := by
          unfold flw at hnt; rw [hlv] at hnt; simpa [h4] using hnt
        simp only [h4, if_true]
        have hB : pyLvl (k + 8 * (parenT (pyParen op b) (tkp b)).length + 3) 5
            (parenT (pyParen op b) (tkp b) ++ rest) = some (erasePy b, rest) := by
          refine py_opl hb ?_ hps (k := 1) (pyLoop_stop (by omega) hnt3 (by omega)) (by omega)
          intro hp
          have := py_unparen_level (op := op) wb hp
          rw [hlv, h4] at this
          exact ⟨by omega, noTighterPy_mono hnt3 (by unfold flw; split <;> omega)⟩
        rw [hB]
        simp only []
        rw [pyChain_stop (by omega) hnt3]
        simp only [mkCmp]
        simp only [erasePy] at hloop
        exact pyLoop_mono hloop (by omega)
      · simp only [h4, if_false]
        have hntlv : headAll (noTighterPyT lv) rest = true := by
          unfold flw at hnt; rw [hlv] at hnt; simpa [h4] using hnt
        have hB : pyLvl (k + 8 * (parenT (pyParen op b) (tkp b)).length + 3) (lv + 1)
            (parenT (pyParen op b) (tkp b) ++ rest) = some (erasePy b, rest) := by
          refine py_opl hb ?_ hps (k := 1) (pyLoop_stop (by omega) hntlv (by omega)) (by omega)
          intro hp
          have := py_unparen_level (op := op) wb hp
          rw [hlv] at this
          refine ⟨by omega, noTighterPy_mono hntlv ?_⟩
          unfold flw; split <;> omega
        rw [hB]
        simp only [erasePy] at hloop
        exact pyLoop_mono hloop (by omega)
  refine ⟨py_full_of_bin hbin, hbin, fun h => ?_, ?_⟩
  · rw [hprec] at h
    have := binop_prec_cases op
    rcases this with h' | h' | h' | h' | h' | h' <;> rw [h'] at h <;> exact absurd h (by decide)
  · rw [tkp_bin]
    obtain ⟨t, r, h1, h2⟩ := parenT_pyStart (p := pyParen op a) ha.hd
    exact ⟨t, _, by rw [h1]; rfl, h2⟩


/-! ## the conditional expression `(t if c else f)` -/

theorem closedPy_else (r : List Tok) : headAll closedPyT (.id "else" :: r) = true := by
  simp [headAll, closedPyT, postStopPyT, pyBinLevel]
theorem closedPy_rpar (r : List Tok) : headAll closedPyT (.p .rpar :: r) = true := rfl

theorem rtp_cond {c t f} (hc : RTP c) (ht : RTP t) (hf : RTP f) : RTP (.cond c t f) := by
  refine rtp_of_un (by simp [precF, Expr.prec, lvPy]) ?_ ⟨_, _, tkp_cond c t f, rfl⟩
  intro m rest F hps hF
  rw [tkp_cond] at hF ⊢
  simp only [List.length_cons, List.length_append, List.length_nil] at hF
  obtain ⟨n, rfl⟩ := Nat.exists_eq_add_of_le' (show 3 ≤ F by omega)
  simp only [List.cons_append, List.append_assoc, List.nil_append]
  rw [pyOperand]
  obtain ⟨t0, r0, ht0, hst0⟩ := parenT_pyStart (p := decide (precF t ≥ 13)) ht.hd
  have hne0 := (pyStart_ne hst0).1
  have hh : (parenT (decide (precF t ≥ 13)) (tkp t) ++ .id "if" :: (parenT (decide (precF c ≥ 13)) (tkp c)
      ++ .id "else" :: (parenT (decide (precF f ≥ 13)) (tkp f) ++ .p .rpar :: rest))).head? ≠ some (.p .rpar) := by
    rw [ht0]; simp; exact hne0
  simp only [show ¬ (Tok.p P.lpar = Tok.id "not") by decide, show ¬ (Tok.p P.lpar = Tok.p P.minus) by decide,
    if_false, if_true, hh]
  -- the inner `t if c else f` as a test followed by `)`
  have hin : pyTest (n + 2) (parenT (decide (precF t ≥ 13)) (tkp t) ++ .id "if" :: (parenT (decide (precF c ≥ 13)) (tkp c)
      ++ .id "else" :: (parenT (decide (precF f ≥ 13)) (tkp f) ++ .p .rpar :: rest)))
      = some (.cond (erasePy c) (erasePy t) (erasePy f), .p .rpar :: rest) := by
    rw [pyTest]
    have h1 := py_opl ht (p := decide (precF t ≥ 13)) (m := 1)
      (rest := .id "if" :: (parenT (decide (precF c ≥ 13)) (tkp c)
        ++ .id "else" :: (parenT (decide (precF f ≥ 13)) (tkp f) ++ .p .rpar :: rest)))
      (k := 1) (F := n + 1) (res := (erasePy t, .id "if" :: (parenT (decide (precF c ≥ 13)) (tkp c)
        ++ .id "else" :: (parenT (decide (precF f ≥ 13)) (tkp f) ++ .p .rpar :: rest)))) ?_ (by rfl) ?_ (by omega)
    · rw [h1]
      simp only [if_true]
      have h2 := py_opl hc (p := decide (precF c ≥ 13)) (m := 1)
        (rest := .id "else" :: (parenT (decide (precF f ≥ 13)) (tkp f) ++ .p .rpar :: rest))
        (k := 1) (F := n + 1) (res := (erasePy c, .id "else" :: (parenT (decide (precF f ≥ 13)) (tkp f) ++ .p .rpar :: rest)))
        ?_ (by rfl) ?_ (by omega)
      · rw [h2]
        simp only [if_true]
        rw [py_oel hf (closedPy_rpar rest) (by omega)]
      · intro _; exact ⟨lvPy_ge1 _, by simp [headAll, noTighterPyT, postStopPyT, pyBinLevel]⟩
      · rw [pyLoop]; rfl
    · intro _; exact ⟨lvPy_ge1 _, by simp [headAll, noTighterPyT, postStopPyT, pyBinLevel]⟩
    · rw [pyLoop]; rfl
  rw [hin]
  simp only [if_true]
  rw [pyTrailers_stop (by omega) hps]
  simp [erasePy]

/-! ## n-ary Sum / Product -/

theorem noTighterPy_tkTail {o p op lv L} (hbo : pyBinLevel (.p o) = some (op, lv)) (hL : lv ≤ L)
    (l : List Expr) {rest} (hnt : headAll (noTighterPyT lv) rest = true) :
    headAll (noTighterPyT L) (tkTailPy o p l ++ rest) = true := by
  cases l with
  | nil => exact noTighterPy_mono hnt hL
  | cons x xs =>
    simp only [tkTailPy, List.cons_append, headAll, noTighterPyT, hbo, Bool.and_eq_true, decide_eq_true_eq]
    refine ⟨?_, hL⟩
    cases o <;> simp [pyBinLevel] at hbo <;> decide

theorem py_nary_tail {o op p lv} (hbo : pyBinLevel (.p o) = some (op, lv)) (hlv : lv = lvPy p)
    (hp : p = 4 ∨ p = 5) :
    ∀ (l : List Expr), (∀ x ∈ l, RTP x) →
    ∀ acc m rest k res F, m ≤ lv → headAll (noTighterPyT lv) rest = true →
      pyLoop k m ((eraseLPy l).foldl (fun a b => PT.bin op a b) acc) rest = some res →
      k + 8 * (tkTailPy o p l).length ≤ F →
      pyLoop F m acc (tkTailPy o p l ++ rest) = some res := by
  have hlv4 : lv ≠ 4 := by rcases hp with rfl | rfl <;> (rw [hlv]; decide)
  intro l
  induction l with
  | nil =>
    intro _ acc m rest k res F _ _ hloop hF
    simp only [tkTailPy, List.nil_append]
    exact pyLoop_mono (by simpa [eraseLPy] using hloop) (by simpa [tkTailPy] using hF)
  | cons x xs ih =>
    intro hl acc m rest k res F hm hnt hloop hF
    have hx := hl x (by simp)
    simp only [tkTailPy, List.length_cons, List.length_append] at hF
    simp only [tkTailPy, List.cons_append, List.append_assoc]
    obtain ⟨n, rfl⟩ := Nat.exists_eq_add_of_le' (show 1 ≤ F by omega)
    rw [pyLoop]
    simp only [hbo, hm, if_true, hlv4, if_false]
    have hnt' : headAll (noTighterPyT lv) (tkTailPy o p xs ++ rest) = true :=
      noTighterPy_tkTail hbo (Nat.le_refl _) xs hnt
    have h1 : pyLvl n (lv + 1) (parenT (decide (precF x ≥ p)) (tkp x) ++ (tkTailPy o p xs ++ rest))
        = some (erasePy x, tkTailPy o p xs ++ rest) := by
      refine py_opl hx ?_ (noTighterPy_postStop hnt') (k := 1) (pyLoop_stop (by omega) hnt' (by omega)) (by omega)
      intro hpp
      simp at hpp
      have hs : lv + 1 ≤ lvPy (precF x) := by
        rw [hlv]
        rcases hp with rfl | rfl
        · exact lvPy_strict 4 (by omega) _ hpp (by simp) (by simp)
        · exact lvPy_strict 5 (by omega) _ hpp (by simp) (by simp)
      refine ⟨hs, noTighterPy_tkTail hbo ?_ xs hnt⟩
      unfold flw; split <;> omega
    rw [h1]
    simp only []
    refine ih (fun y hy => hl y (by simp [hy])) _ m rest k res n hm hnt ?_ (by omega)
    simpa [eraseLPy] using hloop

theorem rtp_nary {o op p} (hbo : pyBinLevel (.p o) = some (op, lvPy p)) (hp : p = 4 ∨ p = 5)
    (e : Expr) (a : Expr) (l : List Expr) (hprec : precF e = p)
    (htk : tkp e = parenT (decide (precF a ≥ p)) (tkp a) ++ tkTailPy o p l)
    (her : erasePy e = (eraseLPy l).foldl (fun x y => PT.bin op x y) (erasePy a))
    (ha : RTP a) (hl : ∀ x ∈ l, RTP x) : RTP e := by
  have hlv4 : lvPy p ≠ 4 := by rcases hp with rfl | rfl <;> decide
  have hflw : flw p = lvPy p := by unfold flw; simp [hlv4]
  have hbin : ∀ m rest k res F, m ≤ lvPy (precF e) → headAll (noTighterPyT (flw (precF e))) rest = true →
      pyLoop k m (erasePy e) rest = some res → k + 8 * (tkp e).length + 1 ≤ F →
      pyLvl F m (tkp e ++ rest) = some res := by
    intro m rest k res F hm hnt hloop hF
    rw [hprec] at hm hnt
    rw [hflw] at hnt
    rw [htk] at hF ⊢
    simp only [List.length_append] at hF
    simp only [List.append_assoc]
    have hnt' : ∀ L, lvPy p ≤ L → headAll (noTighterPyT L) (tkTailPy o p l ++ rest) = true :=
      fun L hL => noTighterPy_tkTail hbo hL l hnt
    refine py_opl ha ?_ (noTighterPy_postStop (hnt' _ (Nat.le_refl _))) (k := k + 8 * (tkTailPy o p l).length) ?_ (by omega)
    · intro hpp
      simp at hpp
      have hs : lvPy p + 1 ≤ lvPy (precF a) := by
        rcases hp with rfl | rfl
        · exact lvPy_strict 4 (by omega) _ hpp (by simp) (by simp)
        · exact lvPy_strict 5 (by omega) _ hpp (by simp) (by simp)
      refine ⟨by omega, hnt' _ ?_⟩
      unfold flw; split <;> omega
    · refine py_nary_tail hbo rfl hp l hl _ m rest k res _ hm hnt ?_ (Nat.le_refl _)
      rw [← her]; exact hloop
  refine ⟨py_full_of_bin hbin, hbin, fun h => ?_, ?_⟩
  · rw [hprec] at h; rcases hp with rfl | rfl <;> exact absurd h (by decide)
  · rw [htk]
    obtain ⟨t, r, h1, h2⟩ := parenT_pyStart (p := decide (precF a ≥ p)) ha.hd
    exact ⟨t, _, by rw [h1]; rfl, h2⟩

theorem rtp_sum {a l} (ha : RTP a) (hl : ∀ x ∈ l, RTP x) : RTP (.sum (a :: l)) :=
  rtp_nary (o := .plus) (op := .add) (p := 5) rfl (Or.inr rfl) _ a l rfl (tkp_sum a l)
    (by simp [erasePy, eraseLPy, leftNestPT]) ha hl

theorem rtp_prod {a l} (ha : RTP a) (hl : ∀ x ∈ l, RTP x) : RTP (.prod (a :: l)) :=
  rtp_nary (o := .star) (op := .mul) (p := 4) rfl (Or.inl rfl) _ a l rfl (tkp_prod a l)
    (by simp [erasePy, eraseLPy, leftNestPT]) ha hl

end Ffcx.LNodes.Fmt
