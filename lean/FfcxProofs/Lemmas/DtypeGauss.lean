/-
C09 soundness of the dtype discipline — a concrete model: Gaussian rationals.

Shows that the hypotheses of `dtype_sound` (`ComplexLike`, `LawfulComplexExtra`) are satisfiable by a
carrier with genuinely non-real values, and provides the carrier of the counterexamples.
The math functions are interpreted totally by stand-ins (`abs` ↦ |z|², every other name ↦ the
product of its arguments): only the *laws* matter here, not the analytic functions.
-/
import FfcxProofs.Lemmas.DtypeBase

namespace Ffcx.LNodes

/-- `re + im·i` with rational parts -/
structure GRat where
  re : Rat
  im : Rat
  deriving DecidableEq, Repr

namespace GRat

@[ext] theorem ext' {a b : GRat} (h1 : a.re = b.re) (h2 : a.im = b.im) : a = b := by
  cases a; cases b; simp_all

def conj (a : GRat) : GRat := ⟨a.re, -a.im⟩
def normSq (a : GRat) : Rat := a.re * a.re + a.im * a.im
def inv (a : GRat) : GRat := ⟨a.re / a.normSq, -a.im / a.normSq⟩

instance : Add GRat := ⟨fun a b => ⟨a.re + b.re, a.im + b.im⟩⟩
instance : Sub GRat := ⟨fun a b => ⟨a.re - b.re, a.im - b.im⟩⟩
instance : Neg GRat := ⟨fun a => ⟨-a.re, -a.im⟩⟩
instance : Mul GRat := ⟨fun a b => ⟨a.re * b.re - a.im * b.im, a.re * b.im + a.im * b.re⟩⟩
instance : Div GRat := ⟨fun a b => a * b.inv⟩
instance : IntCast GRat := ⟨fun n => ⟨(n : Rat), 0⟩⟩

@[simp] theorem add_re (a b : GRat) : (a + b).re = a.re + b.re := rfl
@[simp] theorem add_im (a b : GRat) : (a + b).im = a.im + b.im := rfl
@[simp] theorem sub_re (a b : GRat) : (a - b).re = a.re - b.re := rfl
@[simp] theorem sub_im (a b : GRat) : (a - b).im = a.im - b.im := rfl
@[simp] theorem neg_re (a : GRat) : (-a).re = -a.re := rfl
@[simp] theorem neg_im (a : GRat) : (-a).im = -a.im := rfl
@[simp] theorem mul_re (a b : GRat) : (a * b).re = a.re * b.re - a.im * b.im := rfl
@[simp] theorem mul_im (a b : GRat) : (a * b).im = a.re * b.im + a.im * b.re := rfl
@[simp] theorem conj_re (a : GRat) : a.conj.re = a.re := rfl
@[simp] theorem conj_im (a : GRat) : a.conj.im = -a.im := rfl
@[simp] theorem intCast_re (n : Int) : (IntCast.intCast n : GRat).re = (n : Rat) := rfl
@[simp] theorem intCast_im (n : Int) : (IntCast.intCast n : GRat).im = 0 := rfl
theorem div_def (a b : GRat) : a / b = a * b.inv := rfl

theorem conj_mul (a b : GRat) : (a * b).conj = a.conj * b.conj := by
  ext <;> simp <;> grind

theorem normSq_conj (a : GRat) : a.conj.normSq = a.normSq := by
  simp only [normSq, conj_re, conj_im]
  grind

theorem conj_inv (a : GRat) : a.inv.conj = a.conj.inv := by
  ext
  · simp [inv, normSq_conj]
  · simp only [inv, normSq_conj, conj_im, conj_re]
    grind

end GRat

/-- Gaussian rationals with complex conjugation; `re` drops the imaginary part -/
def gaussC : ComplexLike GRat where
  conj := GRat.conj
  re := fun a => ⟨a.re, 0⟩
  conj_add := by intro a b; ext <;> simp <;> grind
  conj_sub := by intro a b; ext <;> simp <;> grind
  conj_mul := GRat.conj_mul
  conj_div := by intro a b; rw [GRat.div_def, GRat.div_def, GRat.conj_mul, GRat.conj_inv]
  conj_neg := by intro a; ext <;> simp
  conj_intCast := by intro n; ext <;> simp
  conj_conj := by intro a; ext <;> simp
  re_real := by intro a; ext <;> simp
  re_of_real := by
    intro a h
    have h2 : -a.im = a.im := congrArg GRat.im h
    ext
    · rfl
    · show (0 : Rat) = a.im
      grind

theorem gauss_isReal_iff (a : GRat) : gaussC.IsReal a ↔ a.im = 0 := by
  constructor
  · intro h
    have h2 : -a.im = a.im := congrArg GRat.im h
    grind
  · intro h
    show a.conj = a
    ext <;> simp [h]

/-- total stand-ins for the math functions (see the header) -/
def gaussFn (f : String) (args : List GRat) : GRat :=
  if f = "real" then ⟨(args.headD (IntCast.intCast 0)).re, 0⟩
  else if f = "imag" then ⟨(args.headD (IntCast.intCast 0)).im, 0⟩
  else if f = "abs" then ⟨(args.headD (IntCast.intCast 0)).normSq, 0⟩
  else if f = "conj" then (args.headD (IntCast.intCast 0)).conj
  else args.foldl (· * ·) (IntCast.intCast 1)

def gaussExtra : Extra GRat where
  ofRat := fun re im => ⟨re, im⟩
  lt := fun a b => decide (a.re < b.re)
  le := fun a b => decide (a.re ≤ b.re)
  eqb := fun a b => decide (a = b)
  fn := gaussFn

/-- **satisfiability of the hypotheses** of `dtype_sound`: the Gaussian rationals are a lawful model -/
theorem gauss_lawful : LawfulComplexExtra gaussC gaussExtra where
  ofRat_real := by
    intro q
    exact (gauss_isReal_iff _).2 rfl
  fn_real_valued := by
    intro f args h
    simp only [realValued, Bool.or_eq_true, beq_iff_eq] at h
    refine (gauss_isReal_iff _).2 ?_
    show (gaussFn f args).im = 0
    unfold gaussFn
    rcases h with (h | h) | h <;> subst h <;> simp
  fn_real_closed := by
    intro f args h
    show gaussC.IsReal (gaussFn f args)
    unfold gaussFn
    have hhead : gaussC.IsReal (args.headD (IntCast.intCast 0)) := by
      cases args with
      | nil => exact gaussC.isReal_intCast 0
      | cons a _ => exact h a (by simp)
    split
    · exact (gauss_isReal_iff _).2 rfl
    · split
      · exact (gauss_isReal_iff _).2 rfl
      · split
        · exact (gauss_isReal_iff _).2 rfl
        · split
          · show gaussC.IsReal (gaussC.conj _)
            unfold ComplexLike.IsReal at hhead ⊢
            rw [hhead, hhead]
          · exact gaussC.isReal_foldl _ (fun _ _ => gaussC.isReal_mul) args _
              (gaussC.isReal_intCast 1) h

end Ffcx.LNodes
