/-
Loop fusion: `for i∈[a,b) {B}; for i∈[a,b) {C}` ≈ `for i∈[a,b) {B; C}` (any trip count), when an
iteration of `C` commutes with later iterations of `B`; and the model of `fuse_loops`.
-/
import FfcxProofs.Lemmas.OptFuseSections

namespace Ffcx.LNodes
open Ffcx.LNodes.Opt
variable {R : Type} [Add R] [Sub R] [Mul R] [Div R] [Neg R] [IntCast R] (x : Extra R)

/-! ### loops with literal bounds -/

theorem AList.set_of_get {α} : ∀ (m : AList α) (k : String) (v : α), m.get k = some v → m.set k v = m
  | [], k, v, h => by simp [AList.get] at h
  | (k', w) :: m, k, v, h => by
    by_cases hk : k' = k
    · simp [AList.get, hk] at h; subst h; simp [AList.set, hk]
    · simp [AList.get, hk] at h
      simp [AList.set, hk, AList.set_of_get m k v h]

theorem setIV_same (σ : St R) (i : String) (v : Int) (h : σ.iv.get i = some v) : σ.setIV i v = σ := by
  cases σ; simp only [St.setIV] at *; simp [AList.set_of_get _ _ _ h]

theorem exec_for_lit (i : String) (a b : Int) (body : List Stmt) (σ : St R) :
    exec x (.forRange i (.litI a) (.litI b) body) σ = loopN (execL x body) i a (b - a).toNat σ := by
  simp [exec, evalI]

theorem bind_ok (r : Except Err (St R)) : r.bind Except.ok = r := by cases r <;> rfl

theorem loopN_one (body : St R → Except Err (St R)) (i : String) (lo : Int) (σ : St R) :
    loopN body i lo 1 σ = body (σ.setIV i lo) := by
  simp only [loopN]; cases body (σ.setIV i lo) <;> rfl

theorem loopN_succ (body : St R → Except Err (St R)) (i : String) (lo : Int) (n : Nat) (σ : St R) :
    loopN body i lo (n + 1) σ = (body (σ.setIV i lo)).bind (loopN body i (lo + 1) n) := by
  simp only [loopN]; cases body (σ.setIV i lo) <;> rfl

/-- the footprint conditions of a literal-bound loop do not depend on the bounds -/
theorem commB_loop_lit (Dl : List String) (i : String) (a b c d : Int) (B C : List Stmt) :
    commB Dl (.forRange i (.litI a) (.litI b) B) (.forRange i (.litI c) (.litI d) C) =
    commB Dl (loop0 i B) (loop0 i C) := by
  have h : commAt Dl (.forRange i (.litI a) (.litI b) B) (.forRange i (.litI c) (.litI d) C) =
      commAt Dl (loop0 i B) (loop0 i C) := by
    funext n
    simp [commAt, loop0, freeS, neverWritten, mentionsS, noStore, mentionsE]
  simp [commB, h, loop0, namesS, namesE]

theorem freeSL_loop_lit (m i : String) (a b : Int) (C : List Stmt) :
    freeSL m [.forRange i (.litI a) (.litI b) C] = freeSL m [loop0 i C] := by
  simp [freeSL, freeS, loop0, mentionsE]

/-- **loop fusion**, any trip count -/
theorem loopN_fuse (Dl : List String) (i : String) (B C : List Stmt)
    (hBi : neverWrittenL i B = true)
    (hcomm : commB Dl (loop0 i B) (loop0 i C) = true)
    (hdC : DeadFree Dl [loop0 i C]) :
    ∀ (n : Nat) (lo : Int) (σ : St R),
      ObsRes (fun m => m ∈ Dl)
        ((loopN (execL x B) i lo n σ).bind (loopN (execL x C) i lo n))
        (loopN (execL x (B ++ C)) i lo n σ)
  | 0, lo, σ => by simp [loopN, Except.bind, ObsRes.refl]
  | n + 1, lo, σ => by
    -- abbreviations: one iteration of B / C at `lo`, the remaining loops
    let L1 : St R → Except Err (St R) := loopN (execL x B) i (lo + 1) n
    let L2 : St R → Except Err (St R) := loopN (execL x C) i (lo + 1) n
    let it2 : St R → Except Err (St R) := fun s => execL x C (s.setIV i lo)
    let σ0 := σ.setIV i lo
    -- statements realising L1, it2, L2
    let S1 : Stmt := .forRange i (.litI (lo + 1)) (.litI (lo + 1 + n)) B
    let S2 : Stmt := .forRange i (.litI lo) (.litI (lo + 1)) C
    let S3 : Stmt := .forRange i (.litI (lo + 1)) (.litI (lo + 1 + n)) C
    have hS1 : ∀ s, exec x S1 s = L1 s := by
      intro s; simp only [S1, L1, exec_for_lit]; congr 1; omega
    have hS2 : ∀ s, exec x S2 s = it2 s := by
      intro s; simp only [S2, it2, exec_for_lit]
      have : (lo + 1 - lo).toNat = 1 := by omega
      rw [this, loopN_one]
    have hS3 : ∀ s, execL x [S3] s = L2 s := by
      intro s
      simp only [execL]
      have : exec x S3 s = L2 s := by simp only [S3, L2, exec_for_lit]; congr 1; omega
      rw [this]; cases L2 s <;> rfl
    -- right-hand side: B; C (with i = lo still); then the fused rest
    have rhs : loopN (execL x (B ++ C)) i lo (n + 1) σ =
        ((execL x B σ0).bind it2).bind (loopN (execL x (B ++ C)) i (lo + 1) n) := by
      rw [loopN_succ]
      congr 1
      show execL x (B ++ C) σ0 = (execL x B σ0).bind it2
      rw [execL_append']
      cases hB : execL x B σ0 with
      | error e => rfl
      | ok σ1 =>
        simp only [Except.bind, it2]
        have hsame := (execL_sameAt x i B σ0 σ1 hBi hB).iv
        have : σ1.iv.get i = some lo := by rw [hsame]; simp [σ0, St.setIV]
        rw [setIV_same σ1 i lo this]
    -- induction hypothesis under the common prefix
    have ih : ObsRes (fun m => m ∈ Dl)
        (((execL x B σ0).bind it2).bind (fun s => (L1 s).bind L2))
        (((execL x B σ0).bind it2).bind (loopN (execL x (B ++ C)) i (lo + 1) n)) :=
      ObsRes.bind_left _ (fun s => loopN_fuse Dl i B C hBi hcomm hdC n (lo + 1) s)
    -- left-hand side
    have lhs : (loopN (execL x B) i lo (n + 1) σ).bind (loopN (execL x C) i lo (n + 1)) =
        (execL x B σ0).bind (fun s => ((L1 s).bind it2).bind L2) := by
      rw [loopN_succ, bind_bind_exec]
      congr 1; funext s
      rw [bind_bind_exec]
      congr 1; funext t
      exact loopN_succ (execL x C) i lo n t
    -- the commutation: it2 hops over L1
    have comm : ∀ s, ObsRes (fun m => m ∈ Dl) (((L1 s).bind it2).bind L2) (((it2 s).bind L1).bind L2) := by
      intro s
      have hc : commB Dl S1 S2 = true := by simp only [S1, S2, commB_loop_lit]; exact hcomm
      have c := commB_sound x Dl S1 S2 hc s
      have hd3 : ∀ m, freeSL m [S3] = true → ¬ (m ∈ Dl) := by
        intro m hm hmD
        have := hdC m hmD
        simp only [S3, freeSL_loop_lit] at hm
        rw [this] at hm; cases hm
      have c2 := ObsRes.bind_execL x c [S3] hd3
      have e1 : ((exec x S1 s).bind (exec x S2)).bind (execL x [S3]) = ((L1 s).bind it2).bind L2 := by
        have f2 : exec x S2 = it2 := funext hS2
        have f3 : execL x [S3] = L2 := funext hS3
        rw [hS1, f2, f3]
      have e2 : ((exec x S2 s).bind (exec x S1)).bind (execL x [S3]) = ((it2 s).bind L1).bind L2 := by
        have f1 : exec x S1 = L1 := funext hS1
        have f3 : execL x [S3] = L2 := funext hS3
        rw [hS2, f1, f3]
      rw [e1, e2] at c2
      exact c2
    rw [lhs, rhs]
    refine ObsRes.trans ?_ ih
    -- reassociate and commute under the prefix `B at lo`
    have e3 : ((execL x B σ0).bind it2).bind (fun s => (L1 s).bind L2) =
        (execL x B σ0).bind (fun s => ((it2 s).bind L1).bind L2) := by
      rw [bind_bind_exec]
      congr 1; funext s
      rw [bind_bind_exec]
    rw [e3]
    exact ObsRes.bind_left _ comm

/-! ### one group of equal-key loops -/

theorem deadFree_iff_mem {Dl : List String} {ss : List Stmt} :
    DeadFree Dl ss ↔ ∀ t, t ∈ ss → DeadFree Dl [t] := by
  induction ss with
  | nil => simp [DeadFree, freeSL]
  | cons s r ih =>
    rw [deadFree_cons, ih]
    constructor
    · intro h t ht
      rcases List.mem_cons.mp ht with rfl | ht
      · exact h.1
      · exact h.2 t ht
    · intro h
      exact ⟨h s (by simp), fun t ht => h t (by simp [ht])⟩

theorem deadFree_loop_lit {Dl : List String} (i : String) (a b : Int) (C : List Stmt) :
    DeadFree Dl [.forRange i (.litI a) (.litI b) C] ↔ DeadFree Dl [loop0 i C] := by
  simp only [DeadFree, freeSL_loop_lit]

theorem group_fuse (Dl : List String) (i : String) (a b : Int) :
    ∀ (bs : List (List Stmt)) (acc q : List Stmt), fuseGroupCert Dl i acc bs = true →
    (∀ c, c ∈ bs → DeadFree Dl [loop0 i c]) → DeadFree Dl q → ∀ σ : St R,
    ObsRes (fun m => m ∈ Dl)
      (execL x (.forRange i (.litI a) (.litI b) acc ::
        (bs.map (fun c => Stmt.forRange i (.litI a) (.litI b) c) ++ q)) σ)
      (execL x (.forRange i (.litI a) (.litI b) (acc ++ bs.flatten) :: q) σ)
  | [], acc, q, _, _, _, σ => by simpa using ObsRes.refl _
  | c :: bs, acc, q, hc, hdb, hdq, σ => by
    simp only [fuseGroupCert, Bool.and_eq_true] at hc
    let F : List Stmt → Stmt := fun c => Stmt.forRange i (.litI a) (.litI b) c
    have hrest : DeadFree Dl (bs.map F ++ q) := by
      rw [deadFree_append]
      refine ⟨?_, hdq⟩
      rw [deadFree_iff_mem]
      intro t ht
      obtain ⟨c', hc', rfl⟩ := List.mem_map.mp ht
      exact (deadFree_loop_lit i a b c').mpr (hdb c' (by simp [hc']))
    -- fuse the first two loops
    have f2 := loopN_fuse x Dl i acc c hc.1.1 hc.1.2 (hdb c (by simp)) (b - a).toNat a σ
    have e1 : execL x (F acc :: (List.map F (c :: bs) ++ q)) σ =
        ((exec x (F acc) σ).bind (exec x (F c))).bind (execL x (bs.map F ++ q)) := by
      rw [execL_cons_bind, bind_bind_exec]
      congr 1; funext s
      simp only [List.map_cons, List.cons_append]
      exact execL_cons_bind x (F c) _ s
    have e2 : ((exec x (F acc) σ).bind (exec x (F c))) =
        (loopN (execL x acc) i a (b - a).toNat σ).bind (loopN (execL x c) i a (b - a).toNat) := by
      have : exec x (F c) = loopN (execL x c) i a (b - a).toNat := funext (fun s => exec_for_lit x i a b c s)
      rw [this]; simp only [F, exec_for_lit]
    have s1 : ObsRes (fun m => m ∈ Dl) (execL x (F acc :: (List.map F (c :: bs) ++ q)) σ)
        (execL x (F (acc ++ c) :: (bs.map F ++ q)) σ) := by
      rw [e1, e2, execL_cons_bind]
      have : exec x (F (acc ++ c)) σ = loopN (execL x (acc ++ c)) i a (b - a).toNat σ := exec_for_lit x i a b _ σ
      rw [this]
      exact ObsRes.bind_execL x f2 _ hrest.obs
    have ih := group_fuse Dl i a b bs (acc ++ c) q hc.2 (fun c' hc' => hdb c' (by simp [hc'])) hdq σ
    have e3 : acc ++ c ++ bs.flatten = acc ++ (c :: bs).flatten := by simp
    rw [e3] at ih
    exact s1.trans ih

/-! ### stage 1: the scan of `splitLoops` -/

def litKey (k : LoopKey) : Bool :=
  match k with
  | (_, .litI _, .litI _) => true
  | _ => false

theorem keyEq_lit {k k' : LoopKey} (h : litKey k = true) (h' : litKey k' = true)
    (he : keyEq k' k = true) : k' = k := by
  obtain ⟨i, lo, hi⟩ := k
  obtain ⟨i', lo', hi'⟩ := k'
  cases lo <;> simp [litKey] at h
  cases hi <;> simp [litKey] at h
  cases lo' <;> simp [litKey] at h'
  cases hi' <;> simp [litKey] at h'
  simp [keyEq, pyEq] at he
  simp [he]

theorem mem_flat_insert (k : LoopKey) (body : List Stmt) (hk : litKey k = true) :
    ∀ (loops : List (LoopKey × List (List Stmt))), (∀ g, g ∈ loops → litKey g.1 = true) →
    ∀ t, t ∈ flatLoops (insertLoop k body loops) →
      t ∈ flatLoops loops ∨ t = .forRange k.1 k.2.1 k.2.2 body
  | [], _, t, ht => by
    simp [insertLoop, flatLoops, groupStmts] at ht; exact Or.inr ht
  | (k', bs) :: r, hl, t, ht => by
    by_cases he : keyEq k' k = true
    · have hkk : k' = k := keyEq_lit hk (hl (k', bs) (by simp)) he
      simp only [insertLoop, he, if_true, flatLoops, groupStmts, List.map_append, List.mem_append,
        List.map_cons, List.map_nil, List.mem_singleton] at ht ⊢
      rcases ht with (ht | ht) | ht
      · exact Or.inl (Or.inl ht)
      · subst hkk; exact Or.inr ht
      · exact Or.inl (Or.inr ht)
    · have he' : keyEq k' k = false := by simpa using he
      simp only [insertLoop, he', Bool.false_eq_true, if_false, flatLoops, List.mem_append] at ht ⊢
      rcases ht with ht | ht
      · exact Or.inl (Or.inl ht)
      · rcases mem_flat_insert k body hk r (fun g hg => hl g (by simp [hg])) t ht with h | h
        · exact Or.inl (Or.inr h)
        · exact Or.inr h

theorem insert_hop (Dl : List String) (i : String) (lo hi : Expr) (body : List Stmt)
    (hk : litKey (i, lo, hi) = true) :
    ∀ (loops : List (LoopKey × List (List Stmt))) (pre q : List Stmt),
    (∀ g, g ∈ loops → litKey g.1 = true) →
    hopB Dl (.forRange i lo hi body) (laterGroups (i, lo, hi) loops) = true →
    DeadFree Dl (flatLoops loops ++ q) → ∀ σ : St R,
    ObsRes (fun m => m ∈ Dl)
      (execL x (pre ++ (flatLoops loops ++ .forRange i lo hi body :: q)) σ)
      (execL x (pre ++ (flatLoops (insertLoop (i, lo, hi) body loops) ++ q)) σ)
  | [], pre, q, _, _, _, σ => by
    simpa [insertLoop, flatLoops, groupStmts] using ObsRes.refl _
  | (k', bs) :: r, pre, q, hl, hh, hd, σ => by
    by_cases he : keyEq k' (i, lo, hi) = true
    · have hkk : k' = (i, lo, hi) := keyEq_lit hk (hl (k', bs) (by simp)) he
      subst hkk
      simp only [laterGroups, he, if_true] at hh
      have hd' : DeadFree Dl (flatLoops r ++ q) := by
        simp only [flatLoops, List.append_assoc] at hd
        exact (deadFree_append.mp hd).2
      have hop := hop_left_pre x Dl (.forRange i lo hi body) (pre ++ groupStmts ((i, lo, hi), bs)) (flatLoops r) q hh hd' σ
      have e1 : pre ++ (flatLoops (((i, lo, hi), bs) :: r) ++ .forRange i lo hi body :: q) =
          pre ++ groupStmts ((i, lo, hi), bs) ++ (flatLoops r ++ .forRange i lo hi body :: q) := by
        simp [flatLoops]
      have e2 : pre ++ (flatLoops (insertLoop (i, lo, hi) body (((i, lo, hi), bs) :: r)) ++ q) =
          pre ++ groupStmts ((i, lo, hi), bs) ++ .forRange i lo hi body :: (flatLoops r ++ q) := by
        simp [insertLoop, he, flatLoops, groupStmts]
      rw [e1, e2]; exact hop
    · have he' : keyEq k' (i, lo, hi) = false := by simpa using he
      simp only [laterGroups, he', Bool.false_eq_true, if_false] at hh
      have hd' : DeadFree Dl (flatLoops r ++ q) := by
        simp only [flatLoops, List.append_assoc] at hd
        exact (deadFree_append.mp hd).2
      have ih := insert_hop Dl i lo hi body hk r (pre ++ groupStmts (k', bs)) q
        (fun g hg => hl g (by simp [hg])) hh hd' σ
      have e1 : pre ++ (flatLoops ((k', bs) :: r) ++ .forRange i lo hi body :: q) =
          pre ++ groupStmts (k', bs) ++ (flatLoops r ++ .forRange i lo hi body :: q) := by
        simp [flatLoops]
      have e2 : pre ++ (flatLoops (insertLoop (i, lo, hi) body ((k', bs) :: r)) ++ q) =
          pre ++ groupStmts (k', bs) ++ (flatLoops (insertLoop (i, lo, hi) body r) ++ q) := by
        simp [insertLoop, he', flatLoops]
      rw [e1, e2]; exact ih

theorem splitLoops_nonloop (s : Stmt) (r out : List Stmt) (loops : List (LoopKey × List (List Stmt)))
    (hs : ∀ i lo hi b, s ≠ .forRange i lo hi b) :
    splitLoops (s :: r) out loops = splitLoops r (out ++ [s]) loops := by
  cases s <;> simp [splitLoops]
  exact absurd rfl (hs _ _ _ _)

theorem flScanCert_nonloop (Dl : List String) (s : Stmt) (r : List Stmt)
    (loops : List (LoopKey × List (List Stmt))) (hs : ∀ i lo hi b, s ≠ .forRange i lo hi b) :
    flScanCert Dl (s :: r) loops = (hopB Dl s (flatLoops loops) && flScanCert Dl r loops) := by
  cases s <;> simp [flScanCert]
  exact absurd rfl (hs _ _ _ _)

theorem insertLoop_inv (k : LoopKey) (body : List Stmt) (hk : litKey k = true) :
    ∀ (loops : List (LoopKey × List (List Stmt))),
    (∀ g, g ∈ loops → litKey g.1 = true ∧ g.2 ≠ []) →
    ∀ g, g ∈ insertLoop k body loops → litKey g.1 = true ∧ g.2 ≠ []
  | [], _, g, hg => by simp [insertLoop] at hg; subst hg; exact ⟨hk, by simp⟩
  | (k', bs) :: r, hl, g, hg => by
    by_cases he : keyEq k' k = true
    · simp only [insertLoop, he, if_true, List.mem_cons] at hg
      rcases hg with rfl | hg
      · exact ⟨(hl (k', bs) (by simp)).1, by simp⟩
      · exact hl g (by simp [hg])
    · have he' : keyEq k' k = false := by simpa using he
      simp only [insertLoop, he', Bool.false_eq_true, if_false, List.mem_cons] at hg
      rcases hg with rfl | hg
      · exact hl _ (by simp)
      · exact insertLoop_inv k body hk r (fun g hg => hl g (by simp [hg])) g hg

theorem fl_scan (Dl : List String) : ∀ (rest out : List Stmt)
    (loops : List (LoopKey × List (List Stmt))) (out' : List Stmt)
    (loops' : List (LoopKey × List (List Stmt))),
    splitLoops rest out loops = .ok (out', loops') →
    flScanCert Dl rest loops = true → rest.all litLoop = true →
    (∀ g, g ∈ loops → litKey g.1 = true ∧ g.2 ≠ []) →
    DeadFree Dl (out ++ (flatLoops loops ++ rest)) →
    (∀ g, g ∈ loops' → litKey g.1 = true ∧ g.2 ≠ []) ∧ DeadFree Dl (out' ++ flatLoops loops') ∧
    ∀ σ : St R, ObsRes (fun m => m ∈ Dl) (execL x (out ++ (flatLoops loops ++ rest)) σ)
      (execL x (out' ++ flatLoops loops') σ)
  | [], out, loops, out', loops', h, _, _, hl, hd => by
    simp [splitLoops] at h
    obtain ⟨rfl, rfl⟩ := h
    exact ⟨hl, by simpa using hd, fun σ => by simpa using ObsRes.refl _⟩
  | s :: r, out, loops, out', loops', h, hc, hlit, hl, hd => by
    simp only [List.all_cons, Bool.and_eq_true] at hlit
    by_cases hs : ∃ i lo hi b, s = .forRange i lo hi b
    · obtain ⟨i, lo, hi, body, rfl⟩ := hs
      have hk : litKey (i, lo, hi) = true := by
        have := hlit.1
        cases lo <;> cases hi <;> simp [litLoop] at this <;> simp [litKey]
      have hhash : (hashable lo && hashable hi) = true := by
        cases lo <;> cases hi <;> simp [litKey] at hk <;> simp [hashable]
      simp only [splitLoops, hhash, if_true] at h
      simp only [flScanCert, Bool.and_eq_true] at hc
      have hd1 := deadFree_append.mp hd
      have hd2 := deadFree_append.mp hd1.2
      have hd3 := deadFree_cons.mp hd2.2
      have hl' := insertLoop_inv (i, lo, hi) body hk loops hl
      have hdnew : DeadFree Dl (out ++ (flatLoops (insertLoop (i, lo, hi) body loops) ++ r)) := by
        rw [deadFree_append, deadFree_append]
        refine ⟨hd1.1, ?_, hd3.2⟩
        rw [deadFree_iff_mem]
        intro t ht
        rcases mem_flat_insert (i, lo, hi) body hk loops (fun g hg => (hl g hg).1) t ht with h' | h'
        · exact (deadFree_iff_mem.mp hd2.1) t h'
        · subst h'; exact hd3.1
      obtain ⟨r1, r2, r3⟩ := fl_scan Dl r out (insertLoop (i, lo, hi) body loops) out' loops' h hc.2 hlit.2 hl' hdnew
      refine ⟨r1, r2, fun σ => ?_⟩
      have hop := insert_hop x Dl i lo hi body hk loops out r (fun g hg => (hl g hg).1) hc.1
        (deadFree_append.mpr ⟨hd2.1, hd3.2⟩) σ
      exact hop.trans (r3 σ)
    · have hs' : ∀ i lo hi b, s ≠ .forRange i lo hi b := fun i lo hi b e => hs ⟨i, lo, hi, b, e⟩
      rw [splitLoops_nonloop s r out loops hs'] at h
      rw [flScanCert_nonloop Dl s r loops hs', Bool.and_eq_true] at hc
      have hd1 := deadFree_append.mp hd
      have hd2 := deadFree_append.mp hd1.2
      have hd3 := deadFree_cons.mp hd2.2
      have hdnew : DeadFree Dl ((out ++ [s]) ++ (flatLoops loops ++ r)) := by
        rw [deadFree_append, deadFree_append, deadFree_append]
        exact ⟨⟨hd1.1, hd3.1⟩, hd2.1, hd3.2⟩
      obtain ⟨r1, r2, r3⟩ := fl_scan Dl r (out ++ [s]) loops out' loops' h hc.2 hlit.2 hl hdnew
      refine ⟨r1, r2, fun σ => ?_⟩
      have hop := hop_left_pre x Dl s out (flatLoops loops) r hc.1 (deadFree_append.mpr ⟨hd2.1, hd3.2⟩) σ
      have e : execL x (out ++ s :: (flatLoops loops ++ r)) σ =
          execL x ((out ++ [s]) ++ (flatLoops loops ++ r)) σ := by simp
      rw [e] at hop
      exact hop.trans (r3 σ)

/-! ### stage 2: every group becomes one loop -/

theorem fuseBodies_flatten : ∀ (bodies : List (List Stmt)) (body : List Stmt),
    fuseBodies bodies = .ok body → body = bodies.flatten
  | [], body, h => by simp [fuseBodies] at h; subst h; rfl
  | b :: bs, body, h => by
    simp only [fuseBodies, bind, Except.bind] at h
    cases h1 : asStatement (.block b) with
    | error e => simp [h1] at h
    | ok s =>
      cases h2 : fuseBodies bs with
      | error e => simp [h1, h2] at h
      | ok rbody =>
        simp [h1, h2, pure, Except.pure] at h; subst h
        have := fuseBodies_flatten bs rbody h2
        unfold asStatement at h1
        split at h1
        · rename_i s0 heq
          simp at h1; subst h1
          simp at heq; subst heq
          simp [this]
        · simp at h1
        · rename_i hne1 hne2
          simp at h1
          exact absurd rfl (hne2 b)

theorem groups_fuse (Dl : List String) : ∀ (loops : List (LoopKey × List (List Stmt)))
    (fused pre q : List Stmt), buildLoops loops = .ok fused →
    loops.all (groupCert Dl) = true → (∀ g, g ∈ loops → litKey g.1 = true ∧ g.2 ≠ []) →
    DeadFree Dl (flatLoops loops ++ q) → ∀ σ : St R,
    ObsRes (fun m => m ∈ Dl) (execL x (pre ++ (flatLoops loops ++ q)) σ)
      (execL x (pre ++ (fused ++ q)) σ)
  | [], fused, pre, q, h, _, _, _, σ => by
    simp [buildLoops] at h; subst h; simpa [flatLoops] using ObsRes.refl _
  | ((i, lo, hi), bodies) :: r, fused, pre, q, h, hc, hl, hd, σ => by
    simp only [buildLoops, bind, Except.bind] at h
    cases h1 : fuseBodies bodies with
    | error e => simp [h1] at h
    | ok body =>
      cases h2 : buildLoops r with
      | error e => simp [h1, h2] at h
      | ok rest =>
        simp [h1, h2, pure, Except.pure] at h; subst h
        have hbody := fuseBodies_flatten bodies body h1
        have hg := hl ((i, lo, hi), bodies) (by simp)
        simp only [List.all_cons, Bool.and_eq_true] at hc
        have hd1 : DeadFree Dl (groupStmts ((i, lo, hi), bodies)) ∧ DeadFree Dl (flatLoops r ++ q) := by
          simp only [flatLoops, List.append_assoc] at hd
          exact deadFree_append.mp hd
        -- literal bounds
        have hk := hg.1
        cases lo <;> simp [litKey] at hk
        cases hi <;> simp [litKey] at hk
        rename_i a b
        cases bodies with
        | nil => exact absurd rfl hg.2
        | cons b1 bs =>
          simp only [groupCert] at hc
          have hdb : ∀ c, c ∈ bs → DeadFree Dl [loop0 i c] := by
            intro c hcm
            have := (deadFree_iff_mem.mp hd1.1) (.forRange i (.litI a) (.litI b) c)
              (by simp [groupStmts, hcm])
            exact (deadFree_loop_lit i a b c).mp this
          have g := fun τ => group_fuse x Dl i a b bs b1 (flatLoops r ++ q) hc.1 hdb hd1.2 τ
          have ih := groups_fuse Dl r rest (pre ++ [.forRange i (.litI a) (.litI b) body]) q h2 hc.2
            (fun g hg => hl g (by simp [hg])) hd1.2 σ
          have e1 : execL x (pre ++ (flatLoops (((i, Expr.litI a, Expr.litI b), b1 :: bs) :: r) ++ q)) σ =
              (execL x pre σ).bind (execL x (.forRange i (.litI a) (.litI b) b1 ::
                (bs.map (fun c => Stmt.forRange i (.litI a) (.litI b) c) ++ (flatLoops r ++ q)))) := by
            rw [execL_append']
            simp [flatLoops, groupStmts]
          have e2 : execL x (pre ++ [.forRange i (.litI a) (.litI b) body] ++ (flatLoops r ++ q)) σ =
              (execL x pre σ).bind (execL x (.forRange i (.litI a) (.litI b) (b1 ++ bs.flatten) ::
                (flatLoops r ++ q))) := by
            rw [List.append_assoc, execL_append', hbody]
            simp
          have e3 : execL x (pre ++ [.forRange i (.litI a) (.litI b) body] ++ (rest ++ q)) σ =
              execL x (pre ++ (.forRange i (.litI a) (.litI b) body :: rest ++ q)) σ := by simp
          rw [e1]
          rw [e2] at ih
          rw [e3] at ih
          exact (ObsRes.bind_left _ g).trans ih

/-! ### the model of `fuse_loops` -/

theorem exec_sect_bind (n : String) (d s : List Stmt) (i o a : List String) (σ : St R) :
    exec x (.sect n d s i o a) σ = (execL x d σ).bind (execL x s) := by
  simp only [exec]; cases execL x d σ <;> rfl

theorem fuse_loops_model_sound (Dl : List String) (s s' : Stmt) (h : fuseLoops s = .ok s')
    (hc : flCert Dl s = true) (σ : St R) :
    ObsRes (fun m => m ∈ Dl) (exec x s σ) (exec x s' σ) := by
  cases s <;> simp only [fuseLoops] at h <;> try (simp at h)
  rename_i name decls stmts inp out ann
  simp only [flCert, Bool.and_eq_true] at hc
  simp only [bind, Except.bind] at h
  cases h1 : splitLoops stmts [] [] with
  | error e => simp [h1] at h
  | ok p =>
    obtain ⟨nonloops, loops⟩ := p
    simp only [h1] at h hc
    cases h2 : buildLoops loops with
    | error e => simp [h2] at h
    | ok fused =>
      simp only [h2, mkSection, bind, Except.bind] at h
      cases h3 : asStatements (nonloops ++ fused) with
      | error e => simp [h3] at h
      | ok stmts'' =>
        cases h4 : addDeclOutputs out decls with
        | error e => simp [h3, h4] at h
        | ok out' =>
          simp [h3, h4, pure, Except.pure] at h; subst h
          rw [exec_sect_bind, exec_sect_bind]
          refine ObsRes.bind_left _ (fun τ => ?_)
          have hdead : DeadFree Dl stmts := (deadOK_iff Dl stmts).mp hc.1.1.1
          obtain ⟨r1, r2, r3⟩ := fl_scan x Dl stmts [] [] nonloops loops h1 hc.1.2 hc.1.1.2
            (by simp) (by simpa [flatLoops] using hdead)
          have g := groups_fuse x Dl loops fused nonloops [] h2 hc.2 r1
            (by simpa using (deadFree_append.mp r2).2) τ
          have e1 : execL x ([] ++ (flatLoops [] ++ stmts)) τ = execL x stmts τ := by simp [flatLoops]
          have e2 : execL x (nonloops ++ (flatLoops loops ++ [])) τ = execL x (nonloops ++ flatLoops loops) τ := by simp
          have e3 : execL x (nonloops ++ (fused ++ [])) τ = execL x stmts'' τ := by
            rw [asStatements_execL x h3 τ]; simp
          have s1 := r3 τ
          rw [e1] at s1
          rw [e2, e3] at g
          exact s1.trans g

end Ffcx.LNodes
