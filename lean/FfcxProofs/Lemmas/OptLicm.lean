/-
Loop-invariant code motion, semantic core: a product `Π args` inside a loop nest over `(o, n)` may be
replaced by `Π (rem ++ [temp[o]])` when `temp[v]` holds the value of the removed factors for every
value `v` of the outer index and `args` is a permutation of `rem ++ hoisted`.

Scalars: any field (`Lean.Grind.Field`).  Floating point is out of scope: reassociating a product
changes rounding.
-/
import FfcxProofs.Lemmas.OptFuseLoops
import FfcxProofs.C17

namespace Ffcx.LNodes
open Ffcx.LNodes.Opt
open Lean.Grind
attribute [local instance] Lean.Grind.Ring.intCast

variable {R : Type} [Field R] (x : Extra R)

/-! ### `safeE` on argument lists -/

theorem safeL_append (σ : St R) (l₁ l₂ : List Expr) :
    safeE.safeL σ (l₁ ++ l₂) = (safeE.safeL σ l₁ && safeE.safeL σ l₂) := by
  induction l₁ with
  | nil => simp [safeE.safeL]
  | cons a as ih => simp [safeE.safeL, ih, Bool.and_assoc]

theorem safeL_perm (σ : St R) {l₁ l₂ : List Expr} (h : l₁.Perm l₂) :
    safeE.safeL σ l₁ = safeE.safeL σ l₂ := by
  induction h with
  | nil => rfl
  | cons a _ ih => simp [safeE.safeL, ih]
  | swap a b l => simp only [safeE.safeL]; rw [← Bool.and_assoc, ← Bool.and_assoc, Bool.and_comm (safeE σ b)]
  | trans _ _ ih1 ih2 => rw [ih1, ih2]

/-! ### records of hoisted products and the invariant of the temporaries -/

structure HRec where
  temp : String
  hoisted : List Expr

def tempAccess (t o : String) : Expr := .idx t .scalar [.sym o .int]

/-- what one temporary must hold -/
def TempOK (o : String) (N : Nat) (τ : St R) (r : HRec) : Prop :=
  ∃ a, τ.sa.get r.temp = some a ∧ a.dims = [N] ∧ a.data.size = N ∧ a.const = false ∧
    ∀ v : Nat, v < N →
      a.data.getD v (IntCast.intCast 0) = eval x (τ.setIV o v) (.prod r.hoisted) ∧
      safeE.safeL (τ.setIV o v) r.hoisted = true

def TempInv (recs : List HRec) (o : String) (N : Nat) (τ : St R) : Prop :=
  ∀ r, r ∈ recs → TempOK x o N τ r

/-- names the invariant of `r` depends on -/
def footOf (r : HRec) (m : String) : Prop := m = r.temp ∨ mentionsL m r.hoisted = true

theorem setIV_setIV (σ : St R) (i : String) (a b : Int) : (σ.setIV i a).setIV i b = σ.setIV i b := by
  cases σ
  simp only [St.setIV]
  congr 1
  rename_i iv _ _ _
  induction iv with
  | nil => simp [AList.set]
  | cons p m ih =>
    obtain ⟨k, w⟩ := p
    by_cases hk : k = i <;> simp [AList.set, hk, ih]

/-- the invariant of `r` only depends on the footprint of `r`, and not on the integer variable `o` -/
theorem TempOK.frame {o : String} {N : Nat} {τ τ' : St R} {r : HRec}
    (hag : AgreeOnQ (fun m => mentionsL m r.hoisted = true ∧ m ≠ o) (footOf r) τ τ') (h : TempOK x o N τ r) :
    TempOK x o N τ' r := by
  obtain ⟨a, ha, hd, hs, hc, hv⟩ := h
  refine ⟨a, ?_, hd, hs, hc, ?_⟩
  · rw [← hag.sa r.temp (Or.inl rfl)]; exact ha
  · intro v hvN
    have hag' : AgreeOn (fun m => mentionsL m r.hoisted = true) (τ.setIV o v) (τ'.setIV o v) := by
      refine ⟨?_, ?_, ?_, ?_⟩
      · intro m hm
        simp only [St.setIV, AList.get_set]
        split
        · rfl
        · rename_i hne
          exact hag.iv m ⟨hm, fun e => hne e.symm⟩
      · intro m hm; exact hag.sv m (Or.inr hm)
      · intro m hm; exact hag.ia m (Or.inr hm)
      · intro m hm; exact hag.sa m (Or.inr hm)
    obtain ⟨h1, h2⟩ := hv v hvN
    refine ⟨?_, ?_⟩
    · rw [h1]
      exact eval_agreeOn x hag' (.prod r.hoisted) (fun m hm => by simpa [mentionsE] using hm)
    · rw [← h2]
      exact (safeL_agreeOn hag' r.hoisted (fun m hm => hm)).symm

/-- binding any integer variable that the hoisted factors do not mention (or `o` itself) keeps the
    invariant -/
theorem TempOK.setIV {o : String} {N : Nat} {τ : St R} {r : HRec} (i : String) (v : Int)
    (hi : i = o ∨ mentionsL i r.hoisted = false) (h : TempOK x o N τ r) :
    TempOK x o N (τ.setIV i v) r := by
  refine TempOK.frame x ?_ h
  refine ⟨?_, fun _ _ => rfl, fun _ _ => rfl, fun _ _ => rfl⟩
  intro m hm
  simp only [St.setIV]
  rw [AList.get_set_ne]
  intro e
  subst e
  rcases hi with hi | hi
  · exact hm.2 hi
  · rw [hm.1] at hi; cases hi

/-! ### simulation of the rewritten loop nest -/

def SimRes (Q : St R → St R → Prop) : Except Err (St R) → Except Err (St R) → Prop
  | .ok a, .ok b => Q a b
  | .error _, .error _ => True
  | _, _ => False

theorem SimRes.mono {Q Q' : St R → St R → Prop} {a b : Except Err (St R)} (h : SimRes Q a b)
    (hq : ∀ s t, Q s t → Q' s t) : SimRes Q' a b := by
  cases a <;> cases b <;> simp_all [SimRes]

/-- inside the outer loop: agreement outside the temporaries, the invariant, and `o = v` -/
structure LRin (T : String → Prop) (recs : List HRec) (o : String) (N : Nat) (v : Nat)
    (σ τ : St R) : Prop where
  agree : AgreeOn (fun m => ¬ T m) σ τ
  inv : TempInv x recs o N τ
  ov : τ.iv.get o = some (v : Int)

/-- old and new statement of the inner body -/
inductive HStmt0 (recs : List HRec) (o : String) : Stmt → Stmt → Prop
  | same (arr : String) (dt : DType) (ix args : List Expr) :
      HStmt0 recs o (.addAssign (.idx arr dt ix) (.prod args)) (.addAssign (.idx arr dt ix) (.prod args))
  | hoist (arr : String) (dt : DType) (ix args rem : List Expr) (r : HRec) :
      r ∈ recs → args.Perm (rem ++ r.hoisted) →
      HStmt0 recs o (.addAssign (.idx arr dt ix) (.prod args))
        (.addAssign (.idx arr dt ix) (.prod (rem ++ [tempAccess r.temp o])))

/-- old and new inner body, statement by statement -/
inductive HList0 (recs : List HRec) (o : String) : List Stmt → List Stmt → Prop
  | nil : HList0 recs o [] []
  | cons {s s' : Stmt} {b b' : List Stmt} : HStmt0 recs o s s' → HList0 recs o b b' →
      HList0 recs o (s :: b) (s' :: b')

/-- a statement of the inner body: an update, or a `StatementList` of updates -/
inductive HStmt (recs : List HRec) (o : String) : Stmt → Stmt → Prop
  | flat {s s' : Stmt} : HStmt0 recs o s s' → HStmt recs o s s'
  | block {ss ss' : List Stmt} : HList0 recs o ss ss' → HStmt recs o (.block ss) (.block ss')

inductive HList (recs : List HRec) (o : String) : List Stmt → List Stmt → Prop
  | nil : HList recs o [] []
  | cons {s s' : Stmt} {b b' : List Stmt} : HStmt recs o s s' → HList recs o b b' →
      HList recs o (s :: b) (s' :: b')

theorem AgreeOn.mono' {P Q : String → Prop} {σ τ : St R} (h : AgreeOn P σ τ) (hq : ∀ n, Q n → P n) :
    AgreeOn Q σ τ :=
  ⟨fun n hn => h.iv n (hq n hn), fun n hn => h.sv n (hq n hn), fun n hn => h.ia n (hq n hn),
   fun n hn => h.sa n (hq n hn)⟩

/-- side conditions on an (old) statement of the inner body -/
structure BodyOK (T : String → Prop) (recs : List HRec) (o : String) (s : Stmt) : Prop where
  noT : ∀ m, mentionsS m s = true → ¬ T m
  keep : ∀ r, r ∈ recs → ∀ m, footOf r m → neverWritten m s = true
  keepO : neverWritten o s = true

theorem flatIdx_singleNat (N v : Nat) (h : v < N) : flatIdx [N] [(v : Int)] = some v := by
  simp [flatIdx, h]

theorem evalIs_sym (σ : St R) (o : String) (v : Int) (h : σ.iv.get o = some v) :
    evalIs σ.iv σ.ia [.sym o .int] = some [v] := by
  simp [evalIs, evalI, h]

theorem safeE_prod (σ : St R) (args : List Expr) : safeE σ (.prod args) = safeE.safeL σ args := by
  simp [safeE]

/-- a statement of the new body preserves the invariant -/
theorem inv_after {recs : List HRec} {o : String} {N : Nat} {τ τ' : St R} {s' : Stmt}
    (hk : ∀ r, r ∈ recs → ∀ m, footOf r m → neverWritten m s' = true)
    (h : exec x s' τ = .ok τ') (hinv : TempInv x recs o N τ) : TempInv x recs o N τ' := by
  intro r hr
  refine TempOK.frame x ?_ (hinv r hr)
  have f := exec_frameQ x s' τ τ' h
  exact f.mono (fun m hm => hk r hr m (Or.inr hm.1)) (fun m hm => Or.inl (hk r hr m hm))

theorem hstmt0_sim (T : String → Prop) (recs : List HRec) (o : String) (N v : Nat) (hv : v < N)
    {s s' : Stmt} (hs : HStmt0 recs o s s') (hok : BodyOK T recs o s) (σ τ : St R)
    (hlr : LRin x T recs o N v σ τ) :
    SimRes (LRin x T recs o N v) (exec x s σ) (exec x s' τ) := by
  -- the footprint of the written location is the same on both sides
  have finish : ∀ (arr : String) (dt : DType) (ix : List Expr) (rhs' : Expr) (f : R → R),
      (∀ m, mentionsE m (.idx arr dt ix) = true → ¬ T m) →
      (∀ r, r ∈ recs → ∀ m, footOf r m → arr ≠ m) → arr ≠ o →
      SimRes (LRin x T recs o N v) (store x σ (.idx arr dt ix) f) (store x τ (.idx arr dt ix) f) := by
    intro arr dt ix rhs' f hm hk hko
    have st := store_agreeOn x hlr.agree (.idx arr dt ix) hm f
    cases h1 : store x σ (.idx arr dt ix) f with
    | error e =>
      cases h2 : store x τ (.idx arr dt ix) f with
      | error e' => simp [SimRes]
      | ok b => simp [h1, h2, RelResP] at st
    | ok a =>
      cases h2 : store x τ (.idx arr dt ix) f with
      | error e' => simp [h1, h2, RelResP] at st
      | ok b =>
        simp only [h1, h2, RelResP] at st
        simp only [SimRes]
        have sm : ∀ m, arr ≠ m → SameAt m τ b :=
          fun m hne => store_sameAt x m τ b (.idx arr dt ix) f hne h2
        refine ⟨st, ?_, ?_⟩
        · intro r hr
          refine TempOK.frame x ?_ (hlr.inv r hr)
          refine ⟨fun m hm' => ((sm m (hk r hr m (Or.inr hm'.1))).iv).symm, ?_, ?_, ?_⟩
          · intro m hm'; exact ((sm m (hk r hr m hm')).sv).symm
          · intro m hm'; rw [(sm m (hk r hr m hm')).ia]
          · intro m hm'; exact ((sm m (hk r hr m hm')).sa).symm
        · rw [(sm o hko).iv]; exact hlr.ov
  cases hs with
  | same arr dt ix args =>
    have hm : ∀ m, mentionsE m (.prod args) = true → ¬ T m := fun m h =>
      hok.noT m (by simp [mentionsS, h])
    have hml : ∀ m, mentionsE m (.idx arr dt ix) = true → ¬ T m := fun m h =>
      hok.noT m (by simp [mentionsS, h])
    simp only [exec, safeE_agreeOn hlr.agree (.prod args) hm, eval_agreeOn x hlr.agree (.prod args) hm]
    split
    · refine finish arr dt ix (.prod args) _ hml ?_ ?_
      · intro r hr m hf
        have := hok.keep r hr m hf
        simpa [neverWritten] using this
      · have := hok.keepO; simpa [neverWritten] using this
    · simp [SimRes]
  | hoist arr dt ix args rem r hr hperm =>
    have hm : ∀ m, mentionsE m (.prod args) = true → ¬ T m := fun m h =>
      hok.noT m (by simp [mentionsS, h])
    have hml : ∀ m, mentionsE m (.idx arr dt ix) = true → ¬ T m := fun m h =>
      hok.noT m (by simp [mentionsS, h])
    obtain ⟨a, ha, hd, hsz, hc, hvals⟩ := hlr.inv r hr
    obtain ⟨hval, hsafe⟩ := hvals v hv
    have hτ : τ.setIV o (v : Int) = τ := setIV_same τ o v hlr.ov
    rw [hτ] at hval hsafe
    -- safety of the two right-hand sides coincides
    have hacc_safe : safeE τ (tempAccess r.temp o) = true := by
      simp [tempAccess, safeE, ha, evalIs_sym τ o v hlr.ov, hd, flatIdx_singleNat N v hv]
    have hsafe_eq : safeE σ (.prod args) = safeE τ (.prod (rem ++ [tempAccess r.temp o])) := by
      rw [safeE_agreeOn hlr.agree (.prod args) hm, safeE_prod, safeE_prod, safeL_perm τ hperm,
        safeL_append, safeL_append, hsafe]
      simp [safeE.safeL, hacc_safe]
    -- and so do their values
    have hacc_val : eval x τ (tempAccess r.temp o) = eval x τ (.prod r.hoisted) := by
      rw [← hval]
      simp [tempAccess, eval, readArr, ha, evalIs_sym τ o v hlr.ov, hd, flatIdx_singleNat N v hv]
    have hval_eq : eval x σ (.prod args) = eval x τ (.prod (rem ++ [tempAccess r.temp o])) := by
      rw [eval_agreeOn x hlr.agree (.prod args) hm]
      exact (licm_factor_sound τ args rem r.hoisted _ hperm hacc_val).symm
    simp only [exec, hsafe_eq, hval_eq]
    split
    · refine finish arr dt ix (.prod args) _ hml ?_ ?_
      · intro r' hr' m hf
        have := hok.keep r' hr' m hf
        simpa [neverWritten] using this
      · have := hok.keepO; simpa [neverWritten] using this
    · simp [SimRes]

theorem body0_sim (T : String → Prop) (recs : List HRec) (o : String) (N v : Nat) (hv : v < N) :
    ∀ (b b' : List Stmt), HList0 recs o b b' → (∀ s, s ∈ b → BodyOK T recs o s) →
    ∀ σ τ : St R, LRin x T recs o N v σ τ →
      SimRes (LRin x T recs o N v) (execL x b σ) (execL x b' τ)
  | [], [], _, _, σ, τ, h => by simpa [execL, SimRes] using h
  | s :: b, s' :: b', hf, hok, σ, τ, h => by
    cases hf with
    | cons h1 h2 =>
      have st := hstmt0_sim x T recs o N v hv h1 (hok s (by simp)) σ τ h
      simp only [execL]
      cases e1 : exec x s σ with
      | error e =>
        cases e2 : exec x s' τ with
        | error e' => simp [SimRes]
        | ok t => simp [e1, e2, SimRes] at st
      | ok a =>
        cases e2 : exec x s' τ with
        | error e' => simp [e1, e2, SimRes] at st
        | ok t =>
          simp only [e1, e2, SimRes] at st
          exact body0_sim T recs o N v hv b b' h2 (fun s hs => hok s (by simp [hs])) a t st

theorem mentionsSL_of_mem {m : String} {s : Stmt} : ∀ {ss : List Stmt}, s ∈ ss →
    mentionsS m s = true → mentionsSL m ss = true
  | [], hs, _ => by cases hs
  | a :: r, hs, h => by
    simp only [mentionsSL, Bool.or_eq_true]
    rcases List.mem_cons.mp hs with rfl | hs'
    · exact Or.inl h
    · exact Or.inr (mentionsSL_of_mem hs' h)

theorem neverWritten_of_mem {m : String} {s : Stmt} : ∀ {ss : List Stmt}, s ∈ ss →
    neverWrittenL m ss = true → neverWritten m s = true
  | [], hs, _ => by cases hs
  | a :: r, hs, h => by
    simp only [neverWrittenL, Bool.and_eq_true] at h
    rcases List.mem_cons.mp hs with rfl | hs'
    · exact h.1
    · exact neverWritten_of_mem hs' h.2

theorem bodyOK_of_block {T : String → Prop} {recs : List HRec} {o : String} {ss : List Stmt}
    (h : BodyOK T recs o (.block ss)) : ∀ s, s ∈ ss → BodyOK T recs o s := by
  intro s hs
  refine ⟨fun m hms => h.noT m (by simpa [mentionsS] using mentionsSL_of_mem hs hms),
    fun r hr m hf => ?_, ?_⟩
  · exact neverWritten_of_mem hs (by simpa [neverWritten] using h.keep r hr m hf)
  · exact neverWritten_of_mem hs (by simpa [neverWritten] using h.keepO)

theorem hstmt_sim (T : String → Prop) (recs : List HRec) (o : String) (N v : Nat) (hv : v < N)
    {s s' : Stmt} (hs : HStmt recs o s s') (hok : BodyOK T recs o s) (σ τ : St R)
    (hlr : LRin x T recs o N v σ τ) :
    SimRes (LRin x T recs o N v) (exec x s σ) (exec x s' τ) := by
  cases hs with
  | flat h0 => exact hstmt0_sim x T recs o N v hv h0 hok σ τ hlr
  | block hl =>
    simp only [exec]
    exact body0_sim x T recs o N v hv _ _ hl (bodyOK_of_block hok) σ τ hlr

theorem body_sim (T : String → Prop) (recs : List HRec) (o : String) (N v : Nat) (hv : v < N) :
    ∀ (b b' : List Stmt), HList recs o b b' → (∀ s, s ∈ b → BodyOK T recs o s) →
    ∀ σ τ : St R, LRin x T recs o N v σ τ →
      SimRes (LRin x T recs o N v) (execL x b σ) (execL x b' τ)
  | [], [], _, _, σ, τ, h => by simpa [execL, SimRes] using h
  | s :: b, s' :: b', hf, hok, σ, τ, h => by
    cases hf with
    | cons h1 h2 =>
      have st := hstmt_sim x T recs o N v hv h1 (hok s (by simp)) σ τ h
      simp only [execL]
      cases e1 : exec x s σ with
      | error e =>
        cases e2 : exec x s' τ with
        | error e' => simp [SimRes]
        | ok t => simp [e1, e2, SimRes] at st
      | ok a =>
        cases e2 : exec x s' τ with
        | error e' => simp [e1, e2, SimRes] at st
        | ok t =>
          simp only [e1, e2, SimRes] at st
          exact body_sim T recs o N v hv b b' h2 (fun s hs => hok s (by simp [hs])) a t st

theorem loopN_sim (Q : St R → St R → Prop) (body body' : St R → Except Err (St R)) (i : String)
    (hset : ∀ s t k, Q s t → Q (s.setIV i k) (t.setIV i k))
    (hb : ∀ s t, Q s t → SimRes Q (body s) (body' t)) :
    ∀ (n : Nat) (lo : Int) (s t : St R), Q s t →
      SimRes Q (loopN body i lo n s) (loopN body' i lo n t)
  | 0, _, s, t, h => by simpa [loopN, SimRes] using h
  | n + 1, lo, s, t, h => by
    simp only [loopN]
    have := hb _ _ (hset s t lo h)
    cases h1 : body (s.setIV i lo) with
    | error e =>
      cases h2 : body' (t.setIV i lo) with
      | error e' => simp [SimRes]
      | ok b => simp [h1, h2, SimRes] at this
    | ok a =>
      cases h2 : body' (t.setIV i lo) with
      | error e' => simp [h1, h2, SimRes] at this
      | ok b =>
        simp only [h1, h2, SimRes] at this
        exact loopN_sim Q body body' i hset hb n (lo + 1) a b this

/-- the inner loop -/
theorem inner_sim (T : String → Prop) (recs : List HRec) (o n : String) (N v : Nat) (hv : v < N)
    (lo2 hi2 : Expr) (b b' : List Stmt) (hf : HList recs o b b')
    (hok : ∀ s, s ∈ b → BodyOK T recs o s) (hno : n ≠ o)
    (hnm : ∀ r, r ∈ recs → mentionsL n r.hoisted = false)
    (hb : ∀ m, mentionsE m lo2 = true ∨ mentionsE m hi2 = true → ¬ T m)
    (σ τ : St R) (h : LRin x T recs o N v σ τ) :
    SimRes (LRin x T recs o N v) (exec x (.forRange n lo2 hi2 b) σ) (exec x (.forRange n lo2 hi2 b') τ) := by
  simp only [exec, evalI_agreeOn h.agree lo2 (fun m hm => hb m (Or.inl hm)),
    evalI_agreeOn h.agree hi2 (fun m hm => hb m (Or.inr hm))]
  split
  · refine loopN_sim _ _ _ n ?_ (fun s t hq => body_sim x T recs o N v hv b b' hf hok s t hq) _ _ σ τ h
    intro s t k hq
    refine ⟨hq.agree.setIV n k, fun r hr => TempOK.setIV x n k (Or.inr (hnm r hr)) (hq.inv r hr), ?_⟩
    simp only [St.setIV]
    rw [AList.get_set_ne _ _ _ _ hno]
    exact hq.ov
  · simp [SimRes]

/-- at the level of the section: integer variable `o` is dead -/
structure LRtop (T : String → Prop) (recs : List HRec) (o : String) (N : Nat) (σ τ : St R) : Prop where
  agree : AgreeOnQ (fun m => ¬ T m ∧ m ≠ o) (fun m => ¬ T m) σ τ
  inv : TempInv x recs o N τ

theorem outer_loopN_sim (T : String → Prop) (recs : List HRec) (o : String) (N : Nat) (hoT : ¬ T o)
    (body body' : List Stmt)
    (hb : ∀ v, v < N → ∀ s t, LRin x T recs o N v s t →
      SimRes (LRin x T recs o N v) (execL x body s) (execL x body' t)) :
    ∀ (k lo : Nat), lo + k ≤ N → ∀ σ τ : St R, LRtop x T recs o N σ τ →
      SimRes (LRtop x T recs o N) (loopN (execL x body) o (lo : Int) k σ) (loopN (execL x body') o (lo : Int) k τ)
  | 0, _, _, σ, τ, h => by simpa [loopN, SimRes] using h
  | k + 1, lo, hle, σ, τ, h => by
    simp only [loopN]
    have hin : LRin x T recs o N lo (σ.setIV o lo) (τ.setIV o lo) := by
      refine ⟨?_, fun r hr => TempOK.setIV x o lo (Or.inl rfl) (h.inv r hr), by simp [St.setIV]⟩
      have := (h.agree.setIV_bind o (lo : Int)).toAgreeOn
      refine this.mono' ?_
      intro m hm
      by_cases hmo : m = o
      · exact ⟨Or.inr hmo, hm⟩
      · exact ⟨Or.inl ⟨hm, hmo⟩, hm⟩
    have st := hb lo (by omega) _ _ hin
    cases h1 : execL x body (σ.setIV o lo) with
    | error e =>
      cases h2 : execL x body' (τ.setIV o lo) with
      | error e' => simp [SimRes]
      | ok b => simp [h1, h2, SimRes] at st
    | ok a =>
      cases h2 : execL x body' (τ.setIV o lo) with
      | error e' => simp [h1, h2, SimRes] at st
      | ok b =>
        simp only [h1, h2, SimRes] at st
        have htop : LRtop x T recs o N a b :=
          ⟨⟨fun m hm => st.agree.iv m hm.1, st.agree.sv, st.agree.ia, st.agree.sa⟩, st.inv⟩
        have := outer_loopN_sim T recs o N hoT body body' hb k (lo + 1) (by omega) a b htop
        simpa [Int.natCast_add] using this

/-! ### the pre-loops establish the invariant -/

theorem getD_set_self (a : Array R) (u : Nat) (v d : R) (h : u < a.size) :
    (a.setIfInBounds u v).getD u d = v := by
  simp [Array.getD, h]

theorem getD_set_ne (a : Array R) (u w : Nat) (v d : R) (hne : u ≠ w) :
    (a.setIfInBounds u v).getD w d = a.getD w d := by
  rw [Array.getD_eq_getD_getElem?, Array.getD_eq_getD_getElem?, Array.getElem?_setIfInBounds_ne hne]

def preOf (o : String) (N : Nat) (r : HRec) : List Stmt :=
  [.adecl r.temp .scalar [N] false (some [.litI 0]),
   .forRange o (.litI 0) (.litI (N : Int)) [.assign (tempAccess r.temp o) (.prod r.hoisted)]]

/-- state while the pre-loop of one temporary runs: entries below `u` are filled -/
structure Fill (temp o : String) (hoisted : List Expr) (N : Nat) (τ0 : St R) (u : Nat) (σ : St R) : Prop where
  base : AgreeOnQ (fun m => m ≠ o) (fun m => m ≠ temp) τ0 σ
  arr : ∃ a, σ.sa.get temp = some a ∧ a.dims = [N] ∧ a.data.size = N ∧ a.const = false ∧
    ∀ w : Nat, w < u →
      a.data.getD w (IntCast.intCast 0) = eval x (τ0.setIV o w) (.prod hoisted) ∧
      safeE.safeL (τ0.setIV o w) hoisted = true

theorem fill_agree {temp o : String} {hoisted : List Expr} {N u : Nat} {τ0 σ : St R}
    (hf : Fill x temp o hoisted N τ0 u σ) (hfresh : mentionsL temp hoisted = false) (w : Int) :
    AgreeOn (fun m => mentionsL m hoisted = true) (τ0.setIV o w) (σ.setIV o w) := by
  have hne : ∀ m, mentionsL m hoisted = true → m ≠ temp := by
    intro m hm e; subst e; rw [hfresh] at hm; cases hm
  refine ⟨?_, fun m hm => hf.base.sv m (hne m hm), fun m hm => hf.base.ia m (hne m hm),
    fun m hm => hf.base.sa m (hne m hm)⟩
  intro m _
  simp only [St.setIV, AList.get_set]
  split
  · rfl
  · rename_i hne'
    exact hf.base.iv m (fun e => hne' e.symm)

theorem fill_loop (temp o : String) (hoisted : List Expr) (N : Nat) (τ0 : St R)
    (hfresh : mentionsL temp hoisted = false) (hto : temp ≠ o) :
    ∀ (k u : Nat) (σ σ' : St R), u + k = N → Fill x temp o hoisted N τ0 u σ →
      loopN (execL x [.assign (tempAccess temp o) (.prod hoisted)]) o (u : Int) k σ = .ok σ' →
      Fill x temp o hoisted N τ0 N σ'
  | 0, u, σ, σ', hu, hf, h => by
    simp [loopN] at h; subst h
    have : u = N := by omega
    subst this; exact hf
  | k + 1, u, σ, σ', hu, hf, h => by
    simp only [loopN] at h
    have hag := fill_agree x hf hfresh (u : Int)
    obtain ⟨a, ha, hd, hsz, hc, hvals⟩ := hf.arr
    have huN : u < N := by omega
    -- one iteration
    have hiv : (σ.setIV o u).iv.get o = some (u : Int) := by simp [St.setIV]
    have hsa : (σ.setIV o u).sa.get temp = some a := by simpa [St.setIV] using ha
    cases hb : execL x [.assign (tempAccess temp o) (.prod hoisted)] (σ.setIV o u) with
    | error e => simp [hb] at h
    | ok σ1 =>
      simp only [hb] at h
      -- unfold the single assignment
      simp only [execL, exec] at hb
      by_cases hsafe : safeE (σ.setIV o u) (.prod hoisted) = true
      · simp only [hsafe, if_true] at hb
        have hst : store x (σ.setIV o u) (tempAccess temp o) (fun _ => eval x (σ.setIV o u) (.prod hoisted)) =
            .ok ((σ.setIV o u).setSA temp { a with data := a.data.setIfInBounds u (eval x (σ.setIV o u) (.prod hoisted)) }) := by
          simp [tempAccess, store, resolve, hsa, evalIs_sym _ o u hiv, hd, flatIdx_singleNat N u huN, hsz, huN, hc]
        rw [hst] at hb
        simp at hb
        subst hb
        have hval : eval x (σ.setIV o u) (.prod hoisted) = eval x (τ0.setIV o u) (.prod hoisted) :=
          (eval_agreeOn x hag (.prod hoisted) (fun m hm => by simpa [mentionsE] using hm)).symm
        have hsf : safeE.safeL (τ0.setIV o u) hoisted = true := by
          rw [safeL_agreeOn hag hoisted (fun m hm => hm), ← safeE_prod]; exact hsafe
        refine fill_loop temp o hoisted N τ0 hfresh hto k (u + 1) _ σ' (by omega) ?_ (by simpa [Int.natCast_add] using h)
        refine ⟨?_, ⟨{ a with data := a.data.setIfInBounds u (eval x (σ.setIV o u) (.prod hoisted)) },
          by simp [St.setSA], hd, by simp [hsz], hc, ?_⟩⟩
        · refine ⟨?_, ?_, ?_, ?_⟩
          · intro m hm
            simp only [St.setSA, St.setIV]
            rw [AList.get_set_ne _ _ _ _ (fun e => hm e.symm)]
            exact hf.base.iv m hm
          · intro m hm; simpa [St.setSA, St.setIV] using hf.base.sv m hm
          · intro m hm; simpa [St.setSA, St.setIV] using hf.base.ia m hm
          · intro m hm
            simp only [St.setSA, St.setIV]
            rw [AList.get_set_ne _ _ _ _ (fun e => hm e.symm)]
            exact hf.base.sa m hm
        · intro w hw
          by_cases hwu : w = u
          · subst hwu
            refine ⟨?_, hsf⟩
            rw [← hval]
            exact getD_set_self _ _ _ _ (by omega)
          · have hwlt : w < u := by omega
            obtain ⟨h1, h2⟩ := hvals w hwlt
            refine ⟨?_, h2⟩
            rw [← h1]
            exact getD_set_ne _ _ _ _ _ (Ne.symm hwu)
      · simp [hsafe] at hb

/-- the pre-loop of one temporary cannot fail when the hoisted factors are safe for every value of
    the outer index -/
theorem fill_loop_ok (temp o : String) (hoisted : List Expr) (N : Nat) (τ0 : St R)
    (hfresh : mentionsL temp hoisted = false) (hto : temp ≠ o)
    (hsafe : ∀ w : Nat, w < N → safeE.safeL (τ0.setIV o w) hoisted = true) :
    ∀ (k u : Nat) (σ : St R), u + k = N → Fill x temp o hoisted N τ0 u σ →
      ∃ σ', loopN (execL x [.assign (tempAccess temp o) (.prod hoisted)]) o (u : Int) k σ = .ok σ'
  | 0, u, σ, _, _ => ⟨σ, by simp [loopN]⟩
  | k + 1, u, σ, hu, hf => by
    simp only [loopN]
    have hag := fill_agree x hf hfresh (u : Int)
    obtain ⟨a, ha, hd, hsz, hc, hvals⟩ := hf.arr
    have huN : u < N := by omega
    have hiv : (σ.setIV o u).iv.get o = some (u : Int) := by simp [St.setIV]
    have hsa : (σ.setIV o u).sa.get temp = some a := by simpa [St.setIV] using ha
    have hs : safeE (σ.setIV o u) (.prod hoisted) = true := by
      rw [safeE_prod, ← safeL_agreeOn hag hoisted (fun m hm => hm)]; exact hsafe u huN
    have hst : store x (σ.setIV o u) (tempAccess temp o) (fun _ => eval x (σ.setIV o u) (.prod hoisted)) =
        .ok ((σ.setIV o u).setSA temp { a with data := a.data.setIfInBounds u (eval x (σ.setIV o u) (.prod hoisted)) }) := by
      simp [tempAccess, store, resolve, hsa, evalIs_sym _ o u hiv, hd, flatIdx_singleNat N u huN, hsz, huN, hc]
    have hb : execL x [.assign (tempAccess temp o) (.prod hoisted)] (σ.setIV o u) =
        .ok ((σ.setIV o u).setSA temp { a with data := a.data.setIfInBounds u (eval x (σ.setIV o u) (.prod hoisted)) }) := by
      simp only [execL, exec, hs, if_true, hst]
    rw [hb]
    simp only []
    have hval : eval x (σ.setIV o u) (.prod hoisted) = eval x (τ0.setIV o u) (.prod hoisted) :=
      (eval_agreeOn x hag (.prod hoisted) (fun m hm => by simpa [mentionsE] using hm)).symm
    have := fill_loop_ok temp o hoisted N τ0 hfresh hto hsafe k (u + 1)
      ((σ.setIV o u).setSA temp { a with data := a.data.setIfInBounds u (eval x (σ.setIV o u) (.prod hoisted)) })
      (by omega) ?_
    · simpa [Int.natCast_add] using this
    · refine ⟨?_, ⟨{ a with data := a.data.setIfInBounds u (eval x (σ.setIV o u) (.prod hoisted)) },
        by simp [St.setSA], hd, by simp [hsz], hc, ?_⟩⟩
      · refine ⟨?_, ?_, ?_, ?_⟩
        · intro m hm
          simp only [St.setSA, St.setIV]
          rw [AList.get_set_ne _ _ _ _ (fun e => hm e.symm)]
          exact hf.base.iv m hm
        · intro m hm; simpa [St.setSA, St.setIV] using hf.base.sv m hm
        · intro m hm; simpa [St.setSA, St.setIV] using hf.base.ia m hm
        · intro m hm
          simp only [St.setSA, St.setIV]
          rw [AList.get_set_ne _ _ _ _ (fun e => hm e.symm)]
          exact hf.base.sa m hm
      · intro w hw
        by_cases hwu : w = u
        · subst hwu
          refine ⟨?_, hsafe w huN⟩
          rw [← hval]
          exact getD_set_self _ _ _ _ (by omega)
        · have hwlt : w < u := by omega
          obtain ⟨h1, h2⟩ := hvals w hwlt
          refine ⟨?_, h2⟩
          rw [← h1]
          exact getD_set_ne _ _ _ _ _ (Ne.symm hwu)

theorem pre_one_ok (o : String) (N : Nat) (r : HRec) (hfresh : mentionsL r.temp r.hoisted = false)
    (hto : r.temp ≠ o) (τ : St R)
    (hsafe : ∀ w : Nat, w < N → safeE.safeL (τ.setIV o w) r.hoisted = true) :
    ∃ τ', execL x (preOf o N r) τ = .ok τ' := by
  simp only [preOf, execL]
  have hdecl : exec x (.adecl r.temp .scalar [N] false (some [.litI 0])) τ =
      .ok (τ.setSA r.temp { dims := [N], data := initData x τ N [.litI 0], const := false }) := by
    simp [exec]
  rw [hdecl]
  simp only [exec_for_lit]
  have hN : ((N : Int) - 0).toNat = N := by omega
  rw [hN]
  have f0 : Fill x r.temp o r.hoisted N τ 0
      (τ.setSA r.temp { dims := [N], data := initData x τ N [.litI 0], const := false }) := by
    refine ⟨⟨fun _ _ => rfl, fun _ _ => rfl, fun _ _ => rfl, ?_⟩,
      ⟨{ dims := [N], data := initData x τ N [.litI 0], const := false }, by simp [St.setSA], rfl, ?_, rfl, ?_⟩⟩
    · intro m hm
      simp only [St.setSA]
      rw [AList.get_set_ne _ _ _ _ (fun e => hm e.symm)]
    · simp [initData]
    · intro w hw; omega
  obtain ⟨σ', h⟩ := fill_loop_ok x r.temp o r.hoisted N τ hfresh hto hsafe N 0 _ (by omega) f0
  have h' : loopN (execL x [.assign (tempAccess r.temp o) (.prod r.hoisted)]) o 0 N
      (τ.setSA r.temp { dims := [N], data := initData x τ N [.litI 0], const := false }) = .ok σ' := by
    simpa using h
  rw [h']
  exact ⟨σ', rfl⟩

theorem pre_one (o : String) (N : Nat) (r : HRec) (hfresh : mentionsL r.temp r.hoisted = false)
    (hto : r.temp ≠ o) (τ τ' : St R) (h : execL x (preOf o N r) τ = .ok τ') :
    TempOK x o N τ' r ∧ AgreeOnQ (fun m => m ≠ o) (fun m => m ≠ r.temp) τ τ' := by
  simp only [preOf, execL] at h
  have hdecl : exec x (.adecl r.temp .scalar [N] false (some [.litI 0])) τ =
      .ok (τ.setSA r.temp { dims := [N], data := initData x τ N [.litI 0], const := false }) := by
    simp [exec]
  rw [hdecl] at h
  simp only [exec_for_lit] at h
  generalize hτ1 : τ.setSA r.temp { dims := [N], data := initData x τ N [.litI 0], const := false } = τ1 at h
  have hN : ((N : Int) - 0).toNat = N := by omega
  rw [hN] at h
  cases hl : loopN (execL x [.assign (tempAccess r.temp o) (.prod r.hoisted)]) o 0 N τ1 with
  | error e => simp [hl] at h
  | ok τ2 =>
    simp [hl] at h; subst h
    have f0 : Fill x r.temp o r.hoisted N τ 0 τ1 := by
      subst hτ1
      refine ⟨⟨fun _ _ => rfl, fun _ _ => rfl, fun _ _ => rfl, ?_⟩,
        ⟨{ dims := [N], data := initData x τ N [.litI 0], const := false }, by simp [St.setSA], rfl, ?_, rfl, ?_⟩⟩
      · intro m hm
        simp only [St.setSA]
        rw [AList.get_set_ne _ _ _ _ (fun e => hm e.symm)]
      · simp [initData]
      · intro w hw; omega
    have fN := fill_loop x r.temp o r.hoisted N τ hfresh hto N 0 τ1 τ2 (by omega) f0 (by simpa using hl)
    refine ⟨?_, fN.base⟩
    obtain ⟨a, ha, hd, hsz, hc, hvals⟩ := fN.arr
    refine ⟨a, ha, hd, hsz, hc, fun v hv => ?_⟩
    obtain ⟨h1, h2⟩ := hvals v hv
    have hag := fill_agree x fN hfresh (v : Int)
    refine ⟨?_, ?_⟩
    · rw [h1]
      exact eval_agreeOn x hag (.prod r.hoisted) (fun m hm => by simpa [mentionsE] using hm)
    · rw [← h2]
      exact (safeL_agreeOn hag r.hoisted (fun m hm => hm)).symm

def preAll (o : String) (N : Nat) : List HRec → List Stmt
  | [] => []
  | r :: rs => preOf o N r ++ preAll o N rs

/-- freshness of the temporaries: distinct names, mentioned by no hoisted factor, different from `o` -/
def TempsFresh (o : String) : List HRec → Prop
  | [] => True
  | r :: rs => r.temp ≠ o ∧ mentionsL r.temp r.hoisted = false ∧
      (∀ r', r' ∈ rs → r'.temp ≠ r.temp ∧ mentionsL r'.temp r.hoisted = false ∧
        mentionsL r.temp r'.hoisted = false) ∧ TempsFresh o rs

theorem pre_all (o : String) (N : Nat) : ∀ (recs : List HRec), TempsFresh o recs →
    ∀ τ τ' : St R, execL x (preAll o N recs) τ = .ok τ' →
    TempInv x recs o N τ' ∧
      AgreeOnQ (fun m => m ≠ o) (fun m => ∀ r, r ∈ recs → m ≠ r.temp) τ τ'
  | [], _, τ, τ', h => by
    simp [preAll, execL] at h; subst h
    exact ⟨fun r hr => absurd hr List.not_mem_nil, AgreeOnQ.refl τ⟩
  | r :: rs, hf, τ, τ', h => by
    simp only [preAll, execL_append'] at h
    cases h1 : execL x (preOf o N r) τ with
    | error e => simp [h1, Except.bind] at h
    | ok τ1 =>
      simp only [h1, Except.bind] at h
      obtain ⟨ok1, ag1⟩ := pre_one x o N r hf.2.1 hf.1 τ τ1 h1
      obtain ⟨inv2, ag2⟩ := pre_all o N rs hf.2.2.2 τ1 τ' h
      refine ⟨?_, ?_⟩
      · intro r' hr'
        rcases List.mem_cons.mp hr' with rfl | hr'
        · refine TempOK.frame x ?_ ok1
          refine ag2.mono (fun m hm => hm.2) ?_
          intro m hm r'' hr''
          rcases hm with hm | hm
          · subst hm; exact fun e => (hf.2.2.1 r'' hr'').1 e.symm
          · intro e; subst e
            rw [(hf.2.2.1 r'' hr'').2.1] at hm; cases hm
        · exact inv2 r' hr'
      · refine AgreeOnQ.trans (ag1.mono (fun _ h => h) ?_) (ag2.mono (fun _ h => h) ?_)
        · intro m hm; exact hm r (by simp)
        · intro m hm r' hr'; exact hm r' (by simp [hr'])

theorem pre_all_ok (o : String) (N : Nat) : ∀ (recs : List HRec), TempsFresh o recs →
    ∀ τ : St R, (∀ r, r ∈ recs → ∀ w : Nat, w < N → safeE.safeL (τ.setIV o w) r.hoisted = true) →
    ∃ τ', execL x (preAll o N recs) τ = .ok τ'
  | [], _, τ, _ => ⟨τ, by simp [preAll, execL]⟩
  | r :: rs, hf, τ, hs => by
    obtain ⟨τ1, h1⟩ := pre_one_ok x o N r hf.2.1 hf.1 τ (hs r (by simp))
    obtain ⟨_, ag1⟩ := pre_one x o N r hf.2.1 hf.1 τ τ1 h1
    have hs' : ∀ r', r' ∈ rs → ∀ w : Nat, w < N → safeE.safeL (τ1.setIV o w) r'.hoisted = true := by
      intro r' hr' w hw
      rw [← hs r' (by simp [hr']) w hw]
      have hag : AgreeOn (fun m => mentionsL m r'.hoisted = true) (τ1.setIV o w) (τ.setIV o w) := by
        have hne : ∀ m, mentionsL m r'.hoisted = true → m ≠ r.temp := by
          intro m hm e; subst e
          rw [(hf.2.2.1 r' hr').2.2] at hm; cases hm
        refine ⟨?_, fun m hm => (ag1.sv m (hne m hm)).symm, fun m hm => (ag1.ia m (hne m hm)).symm,
          fun m hm => (ag1.sa m (hne m hm)).symm⟩
        intro m _
        simp only [St.setIV, AList.get_set]
        split
        · rfl
        · rename_i hne'
          exact (ag1.iv m (fun e => hne' e.symm)).symm
      exact safeL_agreeOn hag r'.hoisted (fun m hm => hm)
    obtain ⟨τ', h2⟩ := pre_all_ok o N rs hf.2.2.2 τ1 hs'
    exact ⟨τ', by simp only [preAll, execL_append', h1, Except.bind, h2]⟩

/-! ### the whole section -/

theorem execL_singleton (s : Stmt) (σ : St R) : execL x [s] σ = exec x s σ := by
  simp only [execL]; cases exec x s σ <;> rfl

/-- the names of the temporaries -/
def tempSet (recs : List HRec) (m : String) : Prop := ∃ r, r ∈ recs ∧ m = r.temp

/-- what the two runs agree on at the end: everything except the temporaries and the integer
    variable `o` -/
def LicmObs (recs : List HRec) (o : String) (σ τ : St R) : Prop :=
  AgreeOnQ (fun m => ¬ tempSet recs m ∧ m ≠ o) (fun m => ¬ tempSet recs m) σ τ

theorem licm_core (recs : List HRec) (o n : String) (N : Nat) (lo2 hi2 : Expr)
    (body body' decls : List Stmt) (nm : String) (i1 o1 a1 i2 o2 a2 : List String)
    (hfresh : TempsFresh o recs) (hno : n ≠ o)
    (hnm : ∀ r, r ∈ recs → mentionsL n r.hoisted = false)
    (hb : ∀ m, mentionsE m lo2 = true ∨ mentionsE m hi2 = true → ¬ tempSet recs m)
    (hok : ∀ s, s ∈ body → BodyOK (tempSet recs) recs o s)
    (hl : HList recs o body body') (σ σd τP : St R)
    (hd : execL x decls σ = .ok σd) (hp : execL x (preAll o N recs) σd = .ok τP) :
    SimRes (LicmObs recs o)
      (exec x (.sect nm decls [.forRange o (.litI 0) (.litI (N : Int)) [.forRange n lo2 hi2 body]] i1 o1 a1) σ)
      (exec x (.sect nm decls (preAll o N recs ++
        [.forRange o (.litI 0) (.litI (N : Int)) [.forRange n lo2 hi2 body']]) i2 o2 a2) σ) := by
  have hoT : ¬ tempSet recs o := by
    intro ⟨r, hr, he⟩
    have : ∀ (rs : List HRec), TempsFresh o rs → r ∈ rs → r.temp ≠ o := by
      intro rs
      induction rs with
      | nil => intro _ h; cases h
      | cons r0 rs ih =>
        intro hf hm
        rcases List.mem_cons.mp hm with rfl | hm
        · exact hf.1
        · exact ih hf.2.2.2 hm
    exact this recs hfresh hr he.symm
  obtain ⟨inv, ag⟩ := pre_all x o N recs hfresh σd τP hp
  have htop : LRtop x (tempSet recs) recs o N σd τP :=
    ⟨ag.mono (fun m hm => hm.2) (fun m hm r hr e => hm ⟨r, hr, e⟩), inv⟩
  have hN : ((N : Int) - 0).toNat = N := by omega
  have sim := outer_loopN_sim x (tempSet recs) recs o N hoT
    [.forRange n lo2 hi2 body] [.forRange n lo2 hi2 body']
    (by
      intro v hv s t hq
      rw [execL_singleton, execL_singleton]
      exact inner_sim x (tempSet recs) recs o n N v hv lo2 hi2 body body' hl hok hno hnm hb s t hq)
    N 0 (by omega) σd τP htop
  rw [exec_sect_bind, exec_sect_bind, hd]
  simp only [Except.bind]
  rw [execL_append', hp]
  simp only [Except.bind, execL_singleton, exec_for_lit, hN]
  exact sim.mono (fun s t h => h.agree)

end Ffcx.LNodes
