/-
`part = 'diagonal'` block groups: what `genOneBlock` produces (both argument tables indexed by the
single loop index `i`, one subscript of `A`) and the value of the produced terms.
-/
import FfcxProofs.C01Codegen

set_option linter.unusedSectionVars false

namespace Ffcx.Codegen
open Ffcx Ffcx.LNodes Lean.Grind
attribute [local instance] Lean.Grind.Ring.intCast
variable {R : Type} [Field R] (x : Extra R)

/-- what a successful `genOneBlock` returns for a rank-2 block of a `diagonal` kernel -/
structure DiagInv (g : GroupDesc) (st : GenState) (b : BlockData) (o : BlockOut) (a0 a1 : ArgDesc) : Prop where
  args : b.args = [a0, a1]
  fw : o.fw = (fwOf g st b).1
  bIdx : o.bIdx = [dofIndex a0.table "i"]
  aIdx : o.term.aIdx = aIndices [a0, a1] [dofIndex a0.table "i"] g.bmLens
  facs : ∃ facs tabs, argFactors g (quadIndex g.rule)
      [(a0, dofIndex a0.table "i"), (a1, dofIndex a0.table "i")] = .ok (facs, tabs) ∧
    o.term.rhs = (floatProductPy (.ex o.fw :: facs)).toExpr

theorem genOneBlock_inv_diag (g : GroupDesc) (st st1 : GenState) (b : BlockData) (o : BlockOut)
    (hgen : genOneBlock g st b = .ok (o, st1)) (hdiag : g.diagonal = true)
    (hrank : g.bmLens.length = 2) (a0 a1 : ArgDesc) (hargs : b.args = [a0, a1]) :
    DiagInv g st b o a0 a1 ∧ st1 = (fwOf g st b).2.2 ∧ g.aShape.length = 1 := by
  unfold genOneBlock at hgen
  simp only [hdiag, hrank, hargs, Bool.true_and, beq_self_eq_true, List.length_cons, List.length_nil,
    Nat.lt_irrefl, decide_false, Bool.false_or, dofNames, List.take, bIndices] at hgen
  have h4 : decide (0 + 1 + 1 + 1 + 1 < 2) = false := by decide
  simp only [h4, Bool.false_eq_true, if_false, if_true] at hgen
  by_cases hsh : (g.aShape.length != 1) = true
  · simp [hsh] at hgen
  simp only [hsh, Bool.false_eq_true, if_false] at hgen
  split at hgen
  · simp at hgen
  split at hgen
  · simp at hgen
  split at hgen
  · simp at hgen
  cases hv : varOf (fwOf g st b).1 with
  | error e => simp [hv] at hgen
  | ok var =>
    simp only [hv] at hgen
    split at hgen
    · simp at hgen
    simp only [List.zip_cons_cons, List.zip_nil_right] at hgen
    cases ha : argFactors g (quadIndex g.rule)
        [(a0, dofIndex a0.table "i"), (a1, dofIndex a0.table "i")] with
    | error e => simp [ha] at hgen
    | ok p =>
      obtain ⟨facs, tabs⟩ := p
      simp only [ha, Except.ok.injEq, Prod.mk.injEq, List.take] at hgen
      obtain ⟨rfl, rfl⟩ := hgen
      refine ⟨⟨hargs, rfl, rfl, rfl, facs, tabs, ha, rfl⟩, rfl, ?_⟩
      simpa using hsh

end Ffcx.Codegen

namespace Ffcx.Codegen
open Ffcx Ffcx.LNodes Lean.Grind
attribute [local instance] Lean.Grind.Ring.intCast
variable {R : Type} [Field R] (x : Extra R)

/-- **One diagonal term, one dof index.** -/
theorem diag_term_sem (hlaw : LawfulExtra x) (g : GroupDesc) (st : GenState) (b : BlockData) (o : BlockOut)
    (a0 a1 : ArgDesc) (hinv : DiagInv g st b o a0 a1) (hrule : g.rule.factors = none)
    (hnf0 : a0.table.factors = none) (hnf1 : a1.table.factors = none) (n0 n1 : Nat)
    (hL : g.bmLens = [n0, n1]) (hn1 : a1.table.ndofs = n0)
    (hcov : coversB [a0] [n0] g.aShape = true)
    (hname0 : a0.table.name ≠ aName) (hname1 : a1.table.name ≠ aName)
    (hfwA : mentionsE aName o.fw = false)
    (τ : St R) (q d : Int) (hq : τ.iv.get "iq" = some q) (hd : τ.iv.get "i" = some d)
    (hin : ∃ dn : Nat, d = dn ∧ dn < n0)
    (hok0 : ArgOk τ g.entityType q a0) (hok1 : ArgOk τ g.entityType q a1)
    (hsfw : safeE τ o.fw = true) :
    (o.term.aterm g.aShape).noA aName = true ∧ safeE τ o.term.rhs = true ∧
    ∃ k : Nat, evalI τ.iv τ.ia (o.term.aterm g.aShape).1 = some (k : Int) ∧ k < sizeProd g.aShape ∧
      flatIdx g.aShape [aCoord a0 n0 d] = some k ∧
      eval x τ o.term.rhs = eval x τ o.fw *
        (argVal τ g.entityType q a0 d * argVal τ g.entityType q a1 d) := by
  obtain ⟨facs, tabs, hfac, hrhs⟩ := hinv.facs
  obtain ⟨_, _, hnd⟩ := coversB_lens _ _ _ hcov
  simp only [List.map_cons, List.map_nil, List.cons.injEq, and_true] at hnd
  rw [quadIndex_noTF _ hrule, dofIndex_noTF _ _ hnf0] at hfac
  -- the two argument factors
  simp only [argFactors] at hfac
  cases h1 : argFactor g { syms := ["iq"], sizes := [g.rule.nweights] } a0
      { syms := ["i"], sizes := [a0.table.ndofs] } with
  | error e => simp [h1] at hfac
  | ok p1 =>
    obtain ⟨f1, t1⟩ := p1
    cases h2 : argFactor g { syms := ["iq"], sizes := [g.rule.nweights] } a1
        { syms := ["i"], sizes := [a0.table.ndofs] } with
    | error e => simp [h1, h2] at hfac
    | ok p2 =>
      obtain ⟨f2, t2⟩ := p2
      simp only [h1, h2, Except.ok.injEq, Prod.mk.injEq] at hfac
      obtain ⟨rfl, _⟩ := hfac
      obtain ⟨v1, s1, m1⟩ := argFactor_sem x g a0 "i" a0.table.ndofs g.rule.nweights f1 t1 h1 τ q d hq hd hok0
      obtain ⟨v2, s2, m2⟩ := argFactor_sem x g a1 "i" a0.table.ndofs g.rule.nweights f2 t2 h2 τ q d hq hd hok1
      obtain ⟨dn, rfl, hdn⟩ := hin
      -- the subscript of A
      have haidx : o.term.aIdx = [aIndex a0 { syms := ["i"], sizes := [a0.table.ndofs] } n0] := by
        rw [hinv.aIdx, hL, dofIndex_noTF _ _ hnf0]; rfl
      have hev : evalIs τ.iv τ.ia o.term.aIdx = some [aCoord a0 n0 dn] := by
        rw [haidx]; simp [evalIs, evalI_aIndex τ.iv τ.ia a0 "i" a0.table.ndofs n0 dn hd]
      have hinr : InRange [a0] [(dn : Int)] := by
        simp only [InRange, and_true]; exact ⟨dn, rfl, by omega⟩
      obtain ⟨c1, c2⟩ := coversB_inrange _ _ _ _ hcov hinr rfl
      obtain ⟨k, k1, k2, k3⟩ := evalI_mkMultiIndex τ.iv τ.ia o.term.aIdx g.aShape _ hev
        (by simpa [aCoords] using c1) (by simpa [aCoords] using c2)
      refine ⟨?_, ?_, k, k1, k2, k3, ?_⟩
      · simp only [ATerm.noA, Term.aterm, Bool.and_eq_true, Bool.not_eq_true']
        refine ⟨mentions_mkMultiIndex aName _ _ ?_, ?_⟩
        · intro e he
          rw [haidx] at he
          simp only [List.mem_singleton] at he
          subst he
          exact mentions_aIndex aName a0 "i" _ n0 (by decide)
        · rw [hrhs]
          apply mentions_floatProductPy
          intro f hf
          simp only [List.mem_cons, List.mem_nil_iff, or_false] at hf
          rcases hf with rfl | rfl | rfl
          · exact hfwA
          · exact m1 aName (fun e => hname0 e.symm) (by decide) (by decide) (by decide) (by decide)
          · exact m2 aName (fun e => hname1 e.symm) (by decide) (by decide) (by decide) (by decide)
      · rw [hrhs]
        apply safe_floatProductPy
        intro f hf
        simp only [List.mem_cons, List.mem_nil_iff, or_false] at hf
        rcases hf with rfl | rfl | rfl
        · exact hsfw
        · exact s1 ⟨dn, rfl, by omega⟩
        · exact s2 ⟨dn, rfl, by omega⟩
      · rw [hrhs, eval_floatProductPy hlaw]
        have e0 : (MSym.ex o.fw).toExpr = o.fw := rfl
        simp only [evalPy, prodR, v1, v2, e0]
        grind

/-- `Σ_b [flat(bs_b0·d + off_b0) = k] · fw_b · T_b0(q,d) · T_b1(q,d)` over the blocks of a diagonal group -/
def diagLeafL (σ : St R) (et : String) (aShape : List Nat) (n0 : Nat) (q d : Int) (k : Nat) :
    List BlockData → List Expr → R
  | b :: bs, fw :: fws =>
    (match b.args with
     | [a0, a1] =>
       if flatIdx aShape [aCoord a0 n0 d] = some k
         then eval x σ fw * (argVal σ et q a0 d * argVal σ et q a1 d) else 0
     | _ => 0) +
    diagLeafL σ et aShape n0 q d k bs fws
  | _, _ => 0

/-- per (block, output) facts of a diagonal group -/
structure DiagOk (g : GroupDesc) (st : GenState) (σ : St R) (q : Int) (n0 : Nat) (b : BlockData)
    (o : BlockOut) : Prop where
  ex : ∃ a0 a1, DiagInv g st b o a0 a1 ∧ a0.table.factors = none ∧ a1.table.factors = none ∧
    a1.table.ndofs = n0 ∧ coversB [a0] [n0] g.aShape = true ∧ a0.table.name ≠ aName ∧
    a1.table.name ≠ aName ∧ ArgOk σ g.entityType q a0 ∧ ArgOk σ g.entityType q a1
  fwA : mentionsE aName o.fw = false
  fwD : ∀ n ∈ dofNames, mentionsE n o.fw = false
  fwS : safeE σ o.fw = true

end Ffcx.Codegen
