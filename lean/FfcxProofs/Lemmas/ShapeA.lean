/-
An accumulate-only array keeps its shape (dims, const flag, number of entries) through `exec`.
-/
import FfcxModel.LNodes.Sem
import FfcxModel.LNodes.Static

namespace Ffcx.LNodes
variable {R : Type} [Add R] [Sub R] [Mul R] [Div R] [Neg R] [IntCast R] (x : Extra R)

def ShapeAt (A : String) (dims : List Nat) (c : Bool) (sz : Nat) (σ : St R) : Prop :=
  ∃ a, σ.sa.get A = some a ∧ a.dims = dims ∧ a.const = c ∧ a.data.size = sz

variable {A : String} {dims : List Nat} {c : Bool} {sz : Nat}

theorem store_shapeA (σ σ' : St R) (lhs : Expr) (f : R → R) (hp : ShapeAt A dims c sz σ)
    (h : store x σ lhs f = .ok σ') : ShapeAt A dims c sz σ' := by
  obtain ⟨a, ha, hd, hc, hs⟩ := hp
  cases lhs <;> simp only [store] at h
  case sym m dt =>
    split at h
    · simp at h
    · split at h
      · simp at h
      · simp at h; subst h; exact ⟨a, by simpa [St.setSV] using ha, hd, hc, hs⟩
  case idx arr dt ix =>
    split at h
    · simp at h
    · cases hr : resolve σ arr ix with
      | error e => simp [hr] at h
      | ok p =>
        obtain ⟨b, k⟩ := p
        simp [hr] at h
        split at h
        · simp at h
        · simp at h; subst h
          by_cases hA : arr = A
          · subst hA
            have hb : σ.sa.get arr = some b := by
              simp only [resolve] at hr
              split at hr
              · simp at hr
              · rename_i b' hb'
                split at hr
                · simp at hr
                · split at hr
                  · simp at hr
                  · split at hr
                    · simp at hr; rw [hb', hr.1]
                    · simp at hr
            rw [ha] at hb; simp at hb; subst hb
            exact ⟨{ a with data := a.data.setIfInBounds k (f (a.data.getD k (IntCast.intCast 0))) },
              by simp [St.setSA], hd, hc, by simp [hs]⟩
          · exact ⟨a, by simp [St.setSA, AList.get_set_ne _ _ _ _ hA, ha], hd, hc, hs⟩
  all_goals simp at h

theorem loopN_shapeA (body : St R → Except Err (St R)) (i : String)
    (hb : ∀ σ σ', ShapeAt A dims c sz σ → body σ = .ok σ' → ShapeAt A dims c sz σ') :
    ∀ (k : Nat) (lo : Int) (σ σ' : St R), ShapeAt A dims c sz σ → loopN body i lo k σ = .ok σ' →
      ShapeAt A dims c sz σ'
  | 0, _, σ, σ', hp, h => by simp [loopN] at h; subst h; exact hp
  | k + 1, lo, σ, σ', hp, h => by
    simp only [loopN] at h
    cases hb1 : body (σ.setIV i lo) with
    | error e => simp [hb1] at h
    | ok σ1 =>
      simp [hb1] at h
      have h0 : ShapeAt A dims c sz (σ.setIV i lo) := by
        obtain ⟨a, ha, r⟩ := hp; exact ⟨a, by simpa [St.setIV] using ha, r⟩
      exact loopN_shapeA body i hb k (lo + 1) σ1 σ' (hb _ _ h0 hb1) h

mutual
theorem exec_shapeA : ∀ (s : Stmt) (σ σ' : St R), onlyAccum A s = true →
    ShapeAt A dims c sz σ → exec x s σ = .ok σ' → ShapeAt A dims c sz σ'
  | .assign l r, σ, σ', _, hp, h => by
    simp only [exec] at h
    split at h
    · exact store_shapeA x σ σ' l _ hp h
    · simp at h
  | .addAssign l r, σ, σ', _, hp, h => by
    simp only [exec] at h
    split at h
    · exact store_shapeA x σ σ' l _ hp h
    · simp at h
  | .vdecl m dt v, σ, σ', _, hp, h => by
    obtain ⟨a, ha, r⟩ := hp
    simp only [exec] at h
    split at h
    · split at h
      · simp at h; subst h; exact ⟨a, by simpa [St.setIV] using ha, r⟩
      · simp at h
    · split at h
      · simp at h; subst h; exact ⟨a, by simpa [St.setSV] using ha, r⟩
      · simp at h
  | .adecl m dt sizes cc vals, σ, σ', hs, hp, h => by
    simp [onlyAccum] at hs
    obtain ⟨a, ha, r⟩ := hp
    simp only [exec] at h
    split at h
    · simp at h
    · simp at h; subst h
      exact ⟨a, by simp [St.setSA, AList.get_set_ne _ _ _ _ hs.1, ha], r⟩
  | .forRange i lo hi body, σ, σ', hs, hp, h => by
    simp [onlyAccum] at hs
    simp only [exec] at h
    split at h
    · exact loopN_shapeA _ i (fun a b ha hab => execL_shapeA body a b hs.2 ha hab) _ _ σ σ' hp h
    · simp at h
  | .comment _, σ, σ', _, hp, h => by simp [exec] at h; subst h; exact hp
  | .block ss, σ, σ', hs, hp, h => by
    simp [onlyAccum] at hs
    simp only [exec] at h
    exact execL_shapeA ss σ σ' hs hp h
  | .sect _ decls stmts _ _ _, σ, σ', hs, hp, h => by
    simp [onlyAccum] at hs
    simp only [exec] at h
    cases h1 : execL x decls σ with
    | error e => simp [h1] at h
    | ok σ1 =>
      simp [h1] at h
      exact execL_shapeA stmts σ1 σ' hs.2 (execL_shapeA decls σ σ1 hs.1 hp h1) h

theorem execL_shapeA : ∀ (ss : List Stmt) (σ σ' : St R), onlyAccumL A ss = true →
    ShapeAt A dims c sz σ → execL x ss σ = .ok σ' → ShapeAt A dims c sz σ'
  | [], σ, σ', _, hp, h => by simp [execL] at h; subst h; exact hp
  | s :: ss, σ, σ', hs, hp, h => by
    simp [onlyAccumL] at hs
    simp only [execL] at h
    cases h1 : exec x s σ with
    | error e => simp [h1] at h
    | ok σ1 =>
      simp [h1] at h
      exact execL_shapeA ss σ1 σ' hs.2 (exec_shapeA s σ σ1 hs.1 hp h1) h
end

end Ffcx.LNodes
