/-
Helper lemmas for C12 (FfcxProofs/C12.lean): permutations, sorting, set iteration orders.
Core Lean only (`List.Perm.eq_of_pairwise`, `List.pairwise_mergeSort`, `List.mergeSort_perm`,
`List.perm_ext_iff_of_nodup` are in core 4.33).
-/
import FfcxModel.Determinism.Sites

namespace Ffcx.C12.Lemmas
open Ffcx.Determinism

/-- Two iteration orders of the same set are permutations of each other. -/
theorem setIter_perm {α : Type} {l s₁ s₂ : List α} (h₁ : IsSetIter l s₁) (h₂ : IsSetIter l s₂) :
    s₁.Perm s₂ :=
  (List.perm_ext_iff_of_nodup h₁.1 h₂.1).2 (fun x => (h₁.2 x).trans (h₂.2 x).symm)

/-- Same, for sets built from two element lists with the same members (different insertion histories). -/
theorem setIter_perm' {α : Type} {l l' s₁ s₂ : List α} (h₁ : IsSetIter l s₁) (h₂ : IsSetIter l' s₂)
    (hm : ∀ x, x ∈ l ↔ x ∈ l') : s₁.Perm s₂ :=
  (List.perm_ext_iff_of_nodup h₁.1 h₂.1).2 (fun x => ((h₁.2 x).trans (hm x)).trans (h₂.2 x).symm)

/-- Sorting a permutation gives the same list, when `le` is transitive and total and antisymmetric
on the members (distinct keys). -/
theorem pySorted_eq_of_perm {α : Type} (le : α → α → Bool)
    (trans : ∀ a b c, le a b = true → le b c = true → le a c = true)
    (total : ∀ a b, (le a b || le b a) = true)
    {l₁ l₂ : List α}
    (antisymm : ∀ a b, a ∈ l₁ → b ∈ l₁ → le a b = true → le b a = true → a = b)
    (h : l₁.Perm l₂) : pySorted le l₁ = pySorted le l₂ := by
  unfold pySorted
  have p₁ := List.pairwise_mergeSort (le := le) trans total l₁
  have p₂ := List.pairwise_mergeSort (le := le) trans total l₂
  have hp : (l₁.mergeSort le).Perm (l₂.mergeSort le) :=
    (List.mergeSort_perm l₁ le).trans (h.trans (List.mergeSort_perm l₂ le).symm)
  refine List.Perm.eq_of_pairwise (le := fun a b => le a b = true) ?_ p₁ p₂ hp
  intro a b ha hb hab hba
  have ha' : a ∈ l₁ := List.mem_mergeSort.mp ha
  have hb' : b ∈ l₁ := h.symm.subset (List.mem_mergeSort.mp hb)
  exact antisymm a b ha' hb' hab hba

/-- A duplicate-free list all of whose members are equal has at most one element. -/
theorem nodup_subsingleton {α : Type} {s : List α} (hn : s.Nodup)
    (h : ∀ x y, x ∈ s → y ∈ s → x = y) : s = [] ∨ ∃ a, s = [a] := by
  match s, hn, h with
  | [], _, _ => exact Or.inl rfl
  | [a], _, _ => exact Or.inr ⟨a, rfl⟩
  | a :: b :: t, hn, h =>
    have hab : a = b := h a b (by simp) (by simp)
    subst hab
    simp at hn

/-- A set with at most one distinct element has exactly one iteration order. -/
theorem setIter_eq_of_subsingleton {α : Type} {l s₁ s₂ : List α}
    (hl : ∀ x y, x ∈ l → y ∈ l → x = y) (h₁ : IsSetIter l s₁) (h₂ : IsSetIter l s₂) : s₁ = s₂ := by
  have hs₁ : ∀ x y, x ∈ s₁ → y ∈ s₁ → x = y := fun x y hx hy => hl x y ((h₁.2 x).mp hx) ((h₁.2 y).mp hy)
  have hs₂ : ∀ x y, x ∈ s₂ → y ∈ s₂ → x = y := fun x y hx hy => hl x y ((h₂.2 x).mp hx) ((h₂.2 y).mp hy)
  have hp := setIter_perm h₁ h₂
  rcases nodup_subsingleton h₁.1 hs₁ with rfl | ⟨a, rfl⟩
  · exact (List.perm_nil.mp hp.symm).symm
  · exact (List.perm_singleton.mp hp.symm).symm

/-- Sorted (ascending) lists that are permutations of each other are equal. -/
theorem ascending_unique {s₁ s₂ : List Nat} (h : s₁.Perm s₂) (a₁ : Ascending s₁) (a₂ : Ascending s₂) :
    s₁ = s₂ := by
  refine List.Perm.eq_of_pairwise (le := fun a b => natLe a b = true) ?_ a₁ a₂ h
  intro a b _ _ hab hba
  simp [natLe] at hab hba
  omega

theorem natLe_totalOrder : TotalOrder natLe where
  trans := by intro a b c; simp [natLe]; omega
  total := by intro a b; simp [natLe]; omega
  antisymm := by intro a b; simp [natLe]; omega

theorem lexLe_refl : ∀ a, lexLe a a = true
  | [] => by simp [lexLe]
  | a :: as => by simp [lexLe, lexLe_refl as]

theorem lexLe_total : ∀ a b, (lexLe a b || lexLe b a) = true
  | [], _ => by simp [lexLe]
  | _ :: _, [] => by simp [lexLe]
  | a :: as, b :: bs => by
    have ih := lexLe_total as bs
    simp only [lexLe]
    by_cases h1 : a < b
    · simp [h1]
    · by_cases h2 : b < a
      · simp [h1, h2]
      · simpa [h1, h2] using ih

theorem lexLe_antisymm : ∀ a b, lexLe a b = true → lexLe b a = true → a = b
  | [], [], _, _ => rfl
  | [], _ :: _, _, h => by simp [lexLe] at h
  | _ :: _, [], h, _ => by simp [lexLe] at h
  | a :: as, b :: bs, h₁, h₂ => by
    simp only [lexLe] at h₁ h₂
    by_cases h1 : a < b
    · have : ¬ b < a := by omega
      simp [h1, this] at h₂
    · by_cases h2 : b < a
      · simp [h1, h2] at h₁
      · simp [h1, h2] at h₁ h₂
        have : a = b := by omega
        subst this
        rw [lexLe_antisymm as bs h₁ h₂]

theorem lexLe_trans : ∀ a b c, lexLe a b = true → lexLe b c = true → lexLe a c = true
  | [], _, _, _, _ => by simp [lexLe]
  | _ :: _, [], _, h, _ => by simp [lexLe] at h
  | _ :: _, _ :: _, [], _, h => by simp [lexLe] at h
  | a :: as, b :: bs, c :: cs, h₁, h₂ => by
    simp only [lexLe] at h₁ h₂ ⊢
    by_cases hab : a < b
    · by_cases hbc : b < c
      · have : a < c := by omega
        simp [this]
      · by_cases hcb : c < b
        · simp [hbc, hcb] at h₂
        · have : a < c := by omega
          simp [this]
    · by_cases hba : b < a
      · simp [hab, hba] at h₁
      · simp [hab, hba] at h₁
        have hEq : a = b := by omega
        subst hEq
        by_cases hbc : a < c
        · simp [hbc]
        · by_cases hcb : c < a
          · simp [hbc, hcb] at h₂
          · simp [hbc, hcb] at h₂ ⊢
            exact lexLe_trans as bs cs h₁ h₂

theorem lexLe_totalOrder : TotalOrder lexLe where
  trans := lexLe_trans
  total := lexLe_total
  antisymm := lexLe_antisymm

/-- `dict(zip(keys, f(keys)))[q]` depends only on whether `q` is a key. -/
theorem lookup_map_self (dim : Nat → Nat) (s : List Nat) (q : Nat) :
    (s.map (fun e => (e, dim e))).lookup q = if q ∈ s then some (dim q) else none := by
  induction s with
  | nil => simp
  | cons a t ih =>
    by_cases h : q = a
    · subst h; simp
    · have : (q == a) = false := by simpa using h
      simp [List.lookup, this, ih, h]

/-- Looking an object up by its address in a table keyed by addresses = looking it up by the object,
as long as distinct objects have distinct addresses. -/
theorem lookup_by_addr (named : List (Nat × String)) (addr : Nat → Nat)
    (inj : ∀ a b, addr a = addr b → a = b) (obj : Nat) :
    (named.map (fun p => (addr p.1, p.2))).lookup (addr obj) = named.lookup obj := by
  induction named with
  | nil => simp [List.lookup]
  | cons p t ih =>
    obtain ⟨k, v⟩ := p
    by_cases h : obj = k
    · subst h; simp [List.lookup]
    · have h1 : (obj == k) = false := by simpa using h
      have h2 : (addr obj == addr k) = false := by
        simp only [beq_eq_false_iff_ne, ne_eq]
        exact fun e => h (inj _ _ e)
      simp [List.lookup, h1, h2, ih]

/-- The position of a value in a list is unchanged by an injective renaming of all values. -/
theorem idxOf_map_inj (f : Nat → Nat) (inj : ∀ a b, f a = f b → a = b) (l : List Nat) (c : Nat) :
    (l.map f).idxOf (f c) = l.idxOf c := by
  induction l with
  | nil => simp
  | cons a t ih =>
    by_cases h : a = c
    · subst h; simp
    · have h2 : ¬ f a = f c := fun e => h (inj _ _ e)
      have b1 : (a == c) = false := by simpa using h
      have b2 : (f a == f c) = false := by simpa using h2
      simp [List.idxOf_cons, b1, b2, ih]

theorem strLe_totalOrder : TotalOrder strLe where
  trans := by
    intro a b c h₁ h₂
    simp only [strLe, decide_eq_true_eq] at *
    exact String.le_trans h₁ h₂
  total := by
    intro a b
    simp only [strLe, Bool.or_eq_true, decide_eq_true_eq]
    exact String.le_total a b
  antisymm := by
    intro a b h₁ h₂
    simp only [strLe, decide_eq_true_eq] at *
    exact String.le_antisymm h₁ h₂

/-! ### `list(dict.fromkeys(xs))` -/

theorem mem_dedupFirst {α : Type} [DecidableEq α] (l : List α) (x : α) : x ∈ dedupFirst l ↔ x ∈ l := by
  induction l with
  | nil => simp [dedupFirst]
  | cons a t ih =>
    simp only [dedupFirst, List.mem_cons, List.mem_filter, ih, decide_eq_true_eq]
    by_cases h : x = a
    · simp [h]
    · simp [h]

theorem nodup_dedupFirst {α : Type} [DecidableEq α] (l : List α) : (dedupFirst l).Nodup := by
  induction l with
  | nil => simp [dedupFirst]
  | cons a t ih =>
    simp only [dedupFirst, List.nodup_cons, List.mem_filter, decide_eq_true_eq]
    exact ⟨fun h => h.2 rfl, ih.filter _⟩

/-- The de-duplicated list is one of the iteration orders the old `set` could have produced
(same symbols, each once): the fix only pins the order. -/
theorem dedupFirst_isSetIter {α : Type} [DecidableEq α] (l : List α) : IsSetIter l (dedupFirst l) :=
  ⟨nodup_dedupFirst l, mem_dedupFirst l⟩

/-- order of first occurrence: a sublist of the input -/
theorem dedupFirst_sublist {α : Type} [DecidableEq α] (l : List α) : (dedupFirst l).Sublist l := by
  induction l with
  | nil => simp [dedupFirst]
  | cons a t ih =>
    simp only [dedupFirst]
    exact List.Sublist.cons_cons a ((List.filter_sublist).trans ih)

theorem dedupFirst_of_nodup {α : Type} [DecidableEq α] (l : List α) (h : l.Nodup) : dedupFirst l = l := by
  induction l with
  | nil => simp [dedupFirst]
  | cons a t ih =>
    have ht := (List.nodup_cons.mp h)
    simp only [dedupFirst, ih ht.2]
    congr 1
    apply List.filter_eq_self.mpr
    intro b hb
    simp only [decide_eq_true_eq]
    exact fun e => ht.1 (e ▸ hb)

/-- De-duplication commutes with an injective renaming of the keys. -/
theorem dedupFirst_map_inj (f : Nat → Nat) (inj : ∀ a b, f a = f b → a = b) (l : List Nat) :
    dedupFirst (l.map f) = (dedupFirst l).map f := by
  induction l with
  | nil => simp [dedupFirst]
  | cons a t ih =>
    simp only [List.map_cons, dedupFirst, ih, List.filter_map]
    congr 2
    apply List.filter_congr
    intro b _
    simp only [Function.comp, decide_eq_decide]
    exact ⟨fun h e => h (e ▸ rfl), fun h e => h (inj _ _ e)⟩

theorem perm_isEmpty {α : Type} {s₁ s₂ : List α} (h : s₁.Perm s₂) : s₁.isEmpty = s₂.isEmpty := by
  have := h.length_eq
  cases s₁ <;> cases s₂ <;> simp_all

end Ffcx.C12.Lemmas
