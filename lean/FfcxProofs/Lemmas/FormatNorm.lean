/-
C16 — the normal form: the erasure does not see it (`eraseC_norm`).
-/
import FfcxProofs.Lemmas.FormatSepExpr
namespace Ffcx.LNodes.Fmt
open Ffcx.LNodes

/-! ## the erasure does not see the normalisation -/

theorem eraseReal_normReal (sc : Scalar) (re im : Rat) : eraseC sc (normReal re im) = eraseReal re := by
  unfold normReal
  by_cases h : re < 0
  · have h1 : ¬ (-re < 0) := by grind
    simp [h, eraseC, eraseReal, h1]
  · simp [h, eraseC]

theorem leftNest_erase (sc : Scalar) (op : BinOp) (u : Int) (s : String) (hs : s = String.ofList (fmtInt u))
    (hu : ¬ u < 0) (l : List Expr) :
    eraseC sc (leftNest op u l) = leftNestPT op s (eraseLC sc l) := by
  cases l with
  | nil => simp [leftNest, leftNestPT, eraseC, eraseLC, hu, hs]
  | cons a as =>
    simp only [leftNest, leftNestPT, eraseLC]
    induction as generalizing a with
    | nil => simp [eraseLC]
    | cons b bs ih =>
      simp only [List.foldl, eraseLC]
      have := ih (.bin op a b)
      simpa [eraseC] using this

theorem callOK_name {sc : Scalar} {f : String} {args : List Expr} (h : callOK sc f args = true) :
    cMathName sc (normL args) f = cMathName sc args f := by
  simp only [callOK, Bool.and_eq_true, beq_iff_eq] at h
  simp only [cMathName, h.2]

mutual
theorem eraseC_norm (sc : Scalar) : ∀ e : Expr, wfC sc e = true → eraseC sc (norm e) = eraseC sc e
  | .litF re im true, _ => by simp [norm, eraseC, eraseReal_normReal]
  | .litF re im false, _ => by simp [norm, eraseC, eraseReal_normReal]
  | .litI v, _ => by
    by_cases h : v < 0
    · have h1 : ¬ (-v < 0) := by omega
      simp [norm, eraseC, h]
      omega
    · simp [norm, eraseC, h]
  | .sym n dt, _ => by simp [norm]
  | .mi s z gi, h => by simp only [wfC] at h; simp [norm, eraseC, eraseC_norm sc gi h]
  | .neg a, h => by simp only [wfC] at h; simp [norm, eraseC, eraseC_norm sc a h]
  | .not a, h => by simp only [wfC] at h; simp [norm, eraseC, eraseC_norm sc a h]
  | .bin op a b, h => by
    simp only [wfC, Bool.and_eq_true] at h
    simp [norm, eraseC, eraseC_norm sc a h.1, eraseC_norm sc b h.2]
  | .sum args, h => by
    simp only [wfC, Bool.and_eq_true] at h
    simp only [norm, eraseC]
    rw [leftNest_erase sc .add 0 "0" (by decide) (by decide), eraseLC_norm sc args h.2]
  | .prod args, h => by
    simp only [wfC, Bool.and_eq_true] at h
    simp only [norm, eraseC]
    rw [leftNest_erase sc .mul 1 "1" (by decide) (by decide), eraseLC_norm sc args h.2]
  | .call f dt args, h => by
    simp only [wfC, Bool.and_eq_true] at h
    simp only [norm, eraseC, eraseLC_norm sc args h.2, callOK_name h.1.1]
  | .idx arr dt ix, h => by
    simp only [wfC, Bool.and_eq_true] at h
    simp [norm, eraseC, eraseLC_norm sc ix h.2]
  | .cond c t f, h => by
    simp only [wfC, Bool.and_eq_true] at h
    simp [norm, eraseC, eraseC_norm sc c h.1.1, eraseC_norm sc t h.1.2, eraseC_norm sc f h.2]
theorem eraseLC_norm (sc : Scalar) : ∀ l : List Expr, wfLC sc l = true → eraseLC sc (normL l) = eraseLC sc l
  | [], _ => by simp [normL, eraseLC]
  | a :: as, h => by
    simp only [wfLC, Bool.and_eq_true] at h
    simp [normL, eraseLC, eraseC_norm sc a h.1, eraseLC_norm sc as h.2]
end

end Ffcx.LNodes.Fmt
