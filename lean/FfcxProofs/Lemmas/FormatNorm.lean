/-
C16 — the normal form: the erasure does not see it (`eraseC_norm`).
-/
import FfcxProofs.Lemmas.FormatSepExpr
namespace Ffcx.LNodes.Fmt
open Ffcx.LNodes

/-! ## the erasure does not see the normalisation -/

theorem eraseReal_normReal (sc : Scalar) (re im : Rat) : eraseC sc (normReal re im) = eraseReal re := by
  unfold normReal
  by_cases h : re < 0
  · have h1 : ¬ (-re < 0) := by grind
    simp [h, eraseC, eraseReal, h1]
  · simp [h, eraseC]

theorem leftNest_erase (sc : Scalar) (op : BinOp) (u : Int) (s : String) (hs : s = String.ofList (fmtInt u))
    (hu : ¬ u < 0) (l : List Expr) :
    eraseC sc (leftNest op u l) = leftNestPT op s (eraseLC sc l) := by
  cases l with
  | nil => simp [leftNest, leftNestPT, eraseC, eraseLC, hu, hs]
  | cons a as =>
    simp only [leftNest, leftNestPT, eraseLC]
    induction as generalizing a with
    | nil => simp [eraseLC]
    | cons b bs ih =>
      simp only [List.foldl, eraseLC]
      have := ih (.bin op a b)
      simpa [eraseC] using this

mutual
theorem eraseC_norm (sc : Scalar) : ∀ e : Expr, eraseC sc (norm e) = eraseC sc e
  | .litF re im true => by simp [norm, eraseC, eraseReal_normReal]
  | .litF re im false => by simp [norm, eraseC, eraseReal_normReal]
  | .litI v => by
    by_cases h : v < 0
    · have h1 : ¬ (-v < 0) := by omega
      simp [norm, eraseC, h]
      omega
    · simp [norm, eraseC, h]
  | .sym n dt => by simp [norm]
  | .mi s z gi => by simp [norm, eraseC, eraseC_norm sc gi]
  | .neg a => by simp [norm, eraseC, eraseC_norm sc a]
  | .not a => by simp [norm, eraseC, eraseC_norm sc a]
  | .bin op a b => by simp [norm, eraseC, eraseC_norm sc a, eraseC_norm sc b]
  | .sum args => by
    simp only [norm, eraseC]
    rw [leftNest_erase sc .add 0 "0" (by decide) (by decide), eraseLC_norm sc args]
  | .prod args => by
    simp only [norm, eraseC]
    rw [leftNest_erase sc .mul 1 "1" (by decide) (by decide), eraseLC_norm sc args]
  | .call f dt args => by simp [norm, eraseC, eraseLC_norm sc args]
  | .idx arr dt ix => by simp [norm, eraseC, eraseLC_norm sc ix]
  | .cond c t f => by simp [norm, eraseC, eraseC_norm sc c, eraseC_norm sc t, eraseC_norm sc f]
theorem eraseLC_norm (sc : Scalar) : ∀ l : List Expr, eraseLC sc (normL l) = eraseLC sc l
  | [] => by simp [normL, eraseLC]
  | a :: as => by simp [normL, eraseLC, eraseC_norm sc a, eraseLC_norm sc as]
end

end Ffcx.LNodes.Fmt
