/-
Theorems about the element-table model `FfcxModel/IR/Tables.lean` (C01, C10).

* `clamp_bound`, `clamp_idem`      — `clamp_table_small_numbers`
* `zeros_replacement`, `ones_replacement` — a table classified zeros/ones is within tolerance of the literal
* `access_compress`                 — exact version (tolerances 0)
* `access_compress_tol`             — tolerance version with the constant the code really gives
* `access_compress_needs_all_perms` — the hypothesis `ClassifiedOnAllPerms` cannot be dropped
                                      (the classification inspects permutation slice 0 only)
-/
import FfcxModel.IR.Tables

namespace Ffcx.IR
set_option linter.unusedVariables false

/-! ### `qabs`, `isClose`, `allBelow` -/

theorem qabs_nonneg (x : Rat) : 0 ≤ qabs x := by unfold qabs; split <;> grind
theorem qabs_tri (a b c : Rat) : qabs (a - c) ≤ qabs (a - b) + qabs (b - c) := by
  unfold qabs; grind
theorem qabs_le_add (a b : Rat) : qabs a ≤ qabs b + qabs (a - b) := by unfold qabs; grind
theorem qabs_zero : qabs 0 = 0 := by unfold qabs; grind
theorem qabs_sub_self (a : Rat) : qabs (a - a) = 0 := by unfold qabs; grind
theorem qabs_eq_zero (x : Rat) (h : qabs x ≤ 0) : x = 0 := by unfold qabs at h; grind
theorem qabs_one : qabs 1 = 1 := by unfold qabs; grind
theorem qabs_neg_one : qabs (-1) = 1 := by unfold qabs; grind

theorem isClose_iff (rtol atol a b : Rat) :
    isClose rtol atol a b = true ↔ qabs (a - b) ≤ atol + rtol * qabs b := by
  simp [isClose]

/-- with both tolerances 0, `np.isclose` is equality -/
theorem isClose_zero_tol (a b : Rat) : isClose 0 0 a b = true ↔ a = b := by
  rw [isClose_iff]
  constructor
  · intro h
    have : qabs (a - b) ≤ 0 := by grind
    have := qabs_eq_zero _ this
    grind
  · intro h; subst h; rw [qabs_sub_self]; grind

theorem isClose_refl (rtol atol a : Rat) (hr : 0 ≤ rtol) (ha : 0 ≤ atol) :
    isClose rtol atol a a = true := by
  rw [isClose_iff, qabs_sub_self]
  have := Rat.mul_nonneg hr (qabs_nonneg a)
  grind

theorem allBelow_iff (n : Nat) (f : Nat → Bool) :
    allBelow n f = true ↔ ∀ i, i < n → f i = true := by
  simp [allBelow, List.all_eq_true]

/-! ### `clamp_table_small_numbers` -/

/-- One pass: the entry either stays, or moves to `n` from within tolerance of `n`. -/
theorem clampTo_cases (rtol atol n x : Rat) :
    (clampTo rtol atol n x = x ∧ (isClose rtol atol x n = false ∨ x = n)) ∨
    (clampTo rtol atol n x = n ∧ qabs (x - n) ≤ atol + rtol * qabs n) := by
  unfold clampTo
  by_cases h : isClose rtol atol x n = true
  · right; simp [h]; exact (isClose_iff ..).1 h
  · left; simp [h]

/-- `|clamp x − x| ≤ atol + rtol·|n|` for the clamped-to number `n = clamp x` (and `0` if the
entry is not clamped), for tolerances with `atol + rtol < 1` (so that the three passes
`-1, 0, 1` cannot chain). -/
theorem clamp_bound (rtol atol x : Rat) (hr : 0 ≤ rtol) (ha : 0 ≤ atol) (hsmall : atol + rtol < 1) :
    qabs (clamp rtol atol x - x) ≤ atol + rtol * qabs (clamp rtol atol x) ∧
    (clamp rtol atol x = x ∨ clamp rtol atol x = -1 ∨ clamp rtol atol x = 0 ∨
      clamp rtol atol x = 1) := by
  have hnn := Rat.mul_nonneg hr (qabs_nonneg x)
  unfold clamp
  have ha' := clampTo_cases rtol atol (-1) x
  generalize clampTo rtol atol (-1) x = a at ha'
  have hb' := clampTo_cases rtol atol 0 a
  generalize clampTo rtol atol 0 a = b at hb'
  have hc' := clampTo_cases rtol atol 1 b
  generalize clampTo rtol atol 1 b = c at hc'
  simp only [qabs_one, qabs_neg_one, qabs_zero] at ha' hb' hc'
  rcases ha' with ⟨rfl, _⟩ | ⟨rfl, h1⟩ <;> rcases hb' with ⟨rfl, _⟩ | ⟨rfl, h2⟩ <;>
    rcases hc' with ⟨rfl, _⟩ | ⟨rfl, h3⟩ <;>
    simp only [qabs_one, qabs_neg_one, qabs_zero, qabs_sub_self] <;>
    (try unfold qabs at *) <;> grind

/-- clamping twice is clamping once (same tolerances, `atol + rtol < 1`) -/
theorem clamp_idem (rtol atol x : Rat) (hr : 0 ≤ rtol) (ha : 0 ≤ atol) (hsmall : atol + rtol < 1) :
    clamp rtol atol (clamp rtol atol x) = clamp rtol atol x := by
  have hfix : ∀ n : Rat, (n = -1 ∨ n = 0 ∨ n = 1) → clamp rtol atol n = n := by
    intro n hn
    unfold clamp clampTo isClose
    rcases hn with rfl | rfl | rfl <;> simp only [qabs_one, qabs_neg_one, qabs_zero] <;>
      unfold qabs <;> grind
  obtain ⟨_, h | h | h | h⟩ := clamp_bound rtol atol x hr ha hsmall
  · rw [h]; exact h
  · rw [h]; exact hfix _ (by grind)
  · rw [h]; exact hfix _ (by grind)
  · rw [h]; exact hfix _ (by grind)

/-- non-vacuity / the default tolerances -/
example : clamp (1/1000000) (1/1000000000) (1 - 1/10000000) = 1 ∧
    clamp (1/1000000) (1/1000000000) (1/2) = 1/2 ∧
    clamp (1/1000000) (1/1000000000) (-1/10000000000) = 0 := by decide +kernel

/-- `clampTable` applies `clamp` entrywise and keeps the shape. -/
theorem clampTable_val (rtol atol : Rat) (t : Table) (p e q d : Nat) :
    (clampTable rtol atol t).val p e q d = clamp rtol atol (t.val p e q d) := rfl

/-! ### zeros / ones replacement -/

theorem isZeros_entry (rtol atol : Rat) (t : Table) (h : isZerosTable rtol atol t = true)
    (p e q d : Nat) (hp : p < t.P) (he : e < t.E) (hq : q < t.Q) (hd : d < t.D) :
    isClose rtol atol (t.val p e q d) 0 = true := by
  unfold isZerosTable at h
  rw [Bool.or_eq_true] at h
  rcases h with h | h
  · exfalso
    have : t.size = 0 := by simpa using h
    unfold Table.size at this
    have h1 : 0 < t.P * t.E := Nat.mul_pos (by omega) (by omega)
    have h2 : 0 < t.P * t.E * t.Q := Nat.mul_pos h1 (by omega)
    have h3 : 0 < t.P * t.E * t.Q * t.D := Nat.mul_pos h2 (by omega)
    omega
  · simp only [allBelow_iff] at h
    exact h p hp e he q hq d hd

theorem analyse_zeros (rtol atol : Rat) (t : Table) (h : analyse rtol atol t = .zeros) :
    isZerosTable rtol atol t = true := by
  unfold analyse at h
  by_cases hz : isZerosTable rtol atol t = true
  · exact hz
  · simp [hz] at h
    repeat (split at h <;> try contradiction)

theorem analyse_ones (rtol atol : Rat) (t : Table) (h : analyse rtol atol t = .ones) :
    isOnesTable rtol atol t = true := by
  unfold analyse at h
  by_cases hz : isZerosTable rtol atol t = true
  · simp [hz] at h
  · by_cases ho : isOnesTable rtol atol t = true
    · exact ho
    · simp [hz, ho] at h
      repeat (split at h <;> try contradiction)

/-- A table classified `zeros` (and then replaced by the literal `0`): every entry is within
`atol` of `0` (`rtol·|0| = 0`). -/
theorem zeros_replacement (rtol atol : Rat) (t : Table) (h : analyse rtol atol t = .zeros)
    (p e q d : Nat) (hp : p < t.P) (he : e < t.E) (hq : q < t.Q) (hd : d < t.D) :
    qabs (t.val p e q d - 0) ≤ atol := by
  have := (isClose_iff ..).1 (isZeros_entry rtol atol t (analyse_zeros _ _ _ h) p e q d hp he hq hd)
  rw [qabs_zero] at this
  grind

/-- A table classified `ones` (and then replaced by the literal `1`): every entry is within
`atol + rtol` of `1`. -/
theorem ones_replacement (rtol atol : Rat) (t : Table) (h : analyse rtol atol t = .ones)
    (p e q d : Nat) (hp : p < t.P) (he : e < t.E) (hq : q < t.Q) (hd : d < t.D) :
    qabs (t.val p e q d - 1) ≤ atol + rtol := by
  have h1 := analyse_ones _ _ _ h
  unfold isOnesTable at h1
  simp only [allBelow_iff] at h1
  have := (isClose_iff ..).1 (h1 p hp e he q hq d hd)
  rw [qabs_one] at this
  grind

/-! ### What `compress` stores and what `tableAccess` reads -/

/-- the three index replacements of `table_access`, as functions of the compressed record -/
def accP (c : Compressed) (p : Nat) : Nat := if c.isPermuted then p else 0
def accE (c : Compressed) (e : Nat) : Nat := if c.ttype.isUniform then 0 else e
def accQ (c : Compressed) (q : Nat) : Nat := if c.ttype.isPiecewise then 0 else q

theorem reduceByType_val (tt : TType) (t : Table) : (reduceByType tt t).val = t.val := by
  unfold reduceByType Table.slicePoints Table.sliceEntities
  cases tt <;> rfl

theorem reduceByType_P (tt : TType) (t : Table) : (reduceByType tt t).P = t.P := by
  unfold reduceByType Table.slicePoints Table.sliceEntities
  cases tt <;> rfl

theorem reduceByType_D (tt : TType) (t : Table) : (reduceByType tt t).D = t.D := by
  unfold reduceByType Table.slicePoints Table.sliceEntities
  cases tt <;> rfl

theorem reduceByType_E (tt : TType) (t : Table) :
    (reduceByType tt t).E = if tt.isUniform then min 1 t.E else t.E := by
  unfold reduceByType Table.slicePoints Table.sliceEntities
  cases tt <;> rfl

theorem reduceByType_Q (tt : TType) (t : Table) :
    (reduceByType tt t).Q = if tt.isPiecewise then min 1 t.Q else t.Q := by
  unfold reduceByType Table.slicePoints Table.sliceEntities
  cases tt <;> rfl

/-- `compress` with the two decisions made explicit -/
def compressWith (tt : TType) (perm : Bool) (t : Table) : Compressed :=
  { ttype := tt, isPermuted := perm,
    table := if perm then reduceByType tt t else (reduceByType tt t).slicePerms }

theorem compress_eq (rtol atol : Rat) (t : Table) :
    compress rtol atol t = compressWith (analyse rtol atol t)
      (isPermutedTable rtol atol (reduceByType (analyse rtol atol t) t)) t := rfl

theorem tableAccess_compressWith (tt : TType) (perm : Bool) (t : Table) (p e q d : Nat)
    (hp : p < t.P) (he : e < t.E) (hq : q < t.Q) (hd : d < t.D) :
    tableAccess (compressWith tt perm t) p e q d =
      some (t.val (if perm then p else 0) (if tt.isUniform then 0 else e)
        (if tt.isPiecewise then 0 else q) d) := by
  have h1 : 0 < min 1 t.P := by omega
  have h2 : 0 < min 1 t.E := by omega
  have h3 : 0 < min 1 t.Q := by omega
  cases tt <;> cases perm <;>
    simp [tableAccess, accessIndex, Table.get?, compressWith, reduceByType, Table.slicePoints,
      Table.sliceEntities, Table.slicePerms, TType.isUniform, TType.isPiecewise, *]

/-- The read of the generated code never leaves the compressed array, and returns the entry of
the UNcompressed table at the replaced indices. -/
theorem tableAccess_compress (rtol atol : Rat) (t : Table) (p e q d : Nat)
    (hp : p < t.P) (he : e < t.E) (hq : q < t.Q) (hd : d < t.D) :
    tableAccess (compress rtol atol t) p e q d =
      some (t.val (accP (compress rtol atol t) p) (accE (compress rtol atol t) e)
        (accQ (compress rtol atol t) q) d) := by
  rw [compress_eq, tableAccess_compressWith _ _ _ p e q d hp he hq hd]
  rfl

/-! ### The chain point axis → entity axis → permutation axis -/

/-- error growth of a chain of `k` `isclose` steps: `geom k r = Σ_{j<k} (1+r)^j` -/
def geom (r : Rat) : Nat → Rat
  | 0 => 0
  | k + 1 => (1 + r) * geom r k + 1

theorem geom_nonneg (r : Rat) (hr : 0 ≤ r) (k : Nat) : 0 ≤ geom r k := by
  induction k with
  | zero => simp [geom]
  | succ k ih =>
    have : 0 ≤ (1 + r) * geom r k := Rat.mul_nonneg (by grind) ih
    simp only [geom]; grind

theorem geom_three (r : Rat) : geom r 3 = 3 + 3 * r + r * r := by
  simp only [geom]; grind

/-- number of axes that compression reduced (= `isclose` steps between the stored and the
original entry) -/
def nReductions (c : Compressed) : Nat :=
  (if c.ttype.isPiecewise then 1 else 0) + (if c.ttype.isUniform then 1 else 0) +
  (if c.isPermuted then 0 else 1)

theorem step_bound (rtol atol x y y' g : Rat) (hr : 0 ≤ rtol) (ha : 0 ≤ atol) (hg : 0 ≤ g)
    (h1 : qabs (y' - y) ≤ atol + rtol * qabs y)
    (h2 : qabs (y - x) ≤ g * (atol + rtol * qabs x)) :
    qabs (y' - x) ≤ ((1 + rtol) * g + 1) * (atol + rtol * qabs x) := by
  have hy : qabs y ≤ qabs x + qabs (y - x) := qabs_le_add y x
  have ht := qabs_tri y' y x
  have : rtol * qabs y ≤ rtol * (qabs x + g * (atol + rtol * qabs x)) := by
    apply Rat.mul_le_mul_of_nonneg_left _ hr
    grind
  grind

/-- one optional `isclose` step -/
theorem step_opt (rtol atol x y y' : Rat) (k : Nat) (b : Bool) (hr : 0 ≤ rtol) (ha : 0 ≤ atol)
    (h1 : if b then qabs (y' - y) ≤ atol + rtol * qabs y else y' = y)
    (h2 : qabs (y - x) ≤ geom rtol k * (atol + rtol * qabs x)) :
    qabs (y' - x) ≤ geom rtol (k + (if b then 1 else 0)) * (atol + rtol * qabs x) := by
  cases b
  · simp only [Bool.false_eq_true, if_false, Nat.add_zero] at h1 ⊢
    rw [h1]; exact h2
  · simp only [if_true] at h1 ⊢
    exact step_bound rtol atol x y y' _ hr ha (geom_nonneg rtol hr k) h1 h2

/-- three optional `isclose` steps -/
theorem chain_bound (rtol atol x y1 y2 y3 : Rat) (b1 b2 b3 : Bool) (hr : 0 ≤ rtol) (ha : 0 ≤ atol)
    (h1 : if b1 then qabs (y1 - x) ≤ atol + rtol * qabs x else y1 = x)
    (h2 : if b2 then qabs (y2 - y1) ≤ atol + rtol * qabs y1 else y2 = y1)
    (h3 : if b3 then qabs (y3 - y2) ≤ atol + rtol * qabs y2 else y3 = y2) :
    qabs (y3 - x) ≤
      geom rtol ((if b1 then 1 else 0) + (if b2 then 1 else 0) + (if b3 then 1 else 0)) *
        (atol + rtol * qabs x) := by
  have h0 : qabs (x - x) ≤ geom rtol 0 * (atol + rtol * qabs x) := by
    rw [qabs_sub_self]; simp [geom]
  have s1 := step_opt rtol atol x x y1 0 b1 hr ha h1 h0
  have s2 := step_opt rtol atol x y1 y2 _ b2 hr ha h2 s1
  have s3 := step_opt rtol atol x y2 y3 _ b3 hr ha h3 s2
  rw [Nat.zero_add] at s3
  exact s3

/-! ### The three steps from the classification -/

theorem analyse_piecewise_slice0 (rtol atol : Rat) (t : Table)
    (h : (analyse rtol atol t).isPiecewise = true)
    (hz : analyse rtol atol t ≠ .zeros) (ho : analyse rtol atol t ≠ .ones) :
    isPiecewiseTable rtol atol t = true := by
  unfold analyse at h hz ho
  by_cases h1 : isZerosTable rtol atol t = true
  · simp [h1] at hz
  by_cases h2 : isOnesTable rtol atol t = true
  · simp [h1, h2] at ho
  by_cases h3 : isQuadratureTable rtol atol t = true
  · simp [h1, h2, h3, TType.isPiecewise] at h
  by_cases h4 : isPiecewiseTable rtol atol t = true
  · exact h4
  · by_cases h5 : isUniformTable rtol atol t = true <;>
      simp [h1, h2, h3, h4, h5, TType.isPiecewise] at h

/-- the point-axis step on slice `p` -/
theorem point_step (rtol atol : Rat) (t : Table) (hr : 0 ≤ rtol) (ha : 0 ≤ atol)
    (hcls : ClassifiedOnAllPerms rtol atol t)
    (hz : analyse rtol atol t ≠ .zeros) (ho : analyse rtol atol t ≠ .ones)
    (hpw : (analyse rtol atol t).isPiecewise = true)
    (p e q d : Nat) (hp : p < t.P) (he : e < t.E) (hq : q < t.Q) (hd : d < t.D) :
    qabs (t.val p e 0 d - t.val p e q d) ≤ atol + rtol * qabs (t.val p e q d) := by
  have hs : isPiecewiseSlice rtol atol t p = true := by
    unfold ClassifiedOnAllPerms classifiedOnAllPerms at hcls
    generalize analyse rtol atol t = tt at *
    cases tt <;> simp [TType.isPiecewise] at hpw hz ho hcls
    · have := (allBelow_iff _ _).1 hcls p hp
      simp at this; exact this.1
    · exact (allBelow_iff _ _).1 hcls p hp
  unfold isPiecewiseSlice at hs
  have h1 := (allBelow_iff _ _).1 hs q hq
  rw [Bool.or_eq_true] at h1
  rcases h1 with h1 | h1
  · have : q = 0 := by simpa using h1
    subst this
    rw [qabs_sub_self]
    have := Rat.mul_nonneg hr (qabs_nonneg (t.val p e 0 d))
    grind
  · simp only [allBelow_iff] at h1
    exact (isClose_iff ..).1 (h1 e he d hd)

/-- the entity-axis step on slice `p` -/
theorem entity_step (rtol atol : Rat) (t : Table) (hr : 0 ≤ rtol) (ha : 0 ≤ atol)
    (hcls : ClassifiedOnAllPerms rtol atol t)
    (hz : analyse rtol atol t ≠ .zeros) (ho : analyse rtol atol t ≠ .ones)
    (hun : (analyse rtol atol t).isUniform = true)
    (p e q d : Nat) (hp : p < t.P) (he : e < t.E) (hq : q < t.Q) (hd : d < t.D) :
    qabs (t.val p 0 q d - t.val p e q d) ≤ atol + rtol * qabs (t.val p e q d) := by
  have hs : isUniformSlice rtol atol t p = true := by
    unfold ClassifiedOnAllPerms classifiedOnAllPerms at hcls
    generalize analyse rtol atol t = tt at *
    cases tt <;> simp [TType.isUniform] at hun hz ho hcls
    · have := (allBelow_iff _ _).1 hcls p hp
      simp at this; exact this.2
    · exact (allBelow_iff _ _).1 hcls p hp
  unfold isUniformSlice at hs
  have h1 := (allBelow_iff _ _).1 hs e he
  rw [Bool.or_eq_true] at h1
  rcases h1 with h1 | h1
  · have : e = 0 := by simpa using h1
    subst this
    rw [qabs_sub_self]
    have := Rat.mul_nonneg hr (qabs_nonneg (t.val p 0 q d))
    grind
  · simp only [allBelow_iff] at h1
    exact (isClose_iff ..).1 (h1 q hq d hd)

/-- the permutation-axis step (on the reduced table, as `is_permuted_table` is called there) -/
theorem perm_step (rtol atol : Rat) (t2 : Table) (hr : 0 ≤ rtol) (ha : 0 ≤ atol)
    (hnp : isPermutedTable rtol atol t2 = false)
    (p e q d : Nat) (hp : p < t2.P) (he : e < t2.E) (hq : q < t2.Q) (hd : d < t2.D) :
    qabs (t2.val 0 e q d - t2.val p e q d) ≤ atol + rtol * qabs (t2.val p e q d) := by
  unfold isPermutedTable at hnp
  simp only [Bool.not_eq_false'] at hnp
  have h1 := (allBelow_iff _ _).1 hnp p hp
  rw [Bool.or_eq_true] at h1
  rcases h1 with h1 | h1
  · have : p = 0 := by simpa using h1
    subst this
    rw [qabs_sub_self]
    have := Rat.mul_nonneg hr (qabs_nonneg (t2.val 0 e q d))
    grind
  · simp only [allBelow_iff] at h1
    exact (isClose_iff ..).1 (h1 e he q hq d hd)

/-! ### `access_compress` -/

/-- **Tolerance version.**  For a table that is not replaced by a literal (`zeros`/`ones`), whose
classification holds on every permutation slice, the value the generated code reads from the
compressed table differs from the original entry by at most
`geom rtol k · (atol + rtol·|t[p][e][q][d]|)` where `k ≤ 3` is the number of reduced axes and
`geom r k = Σ_{j<k} (1+r)^j` (`k·(…)` to first order in `rtol`): one `isclose` step per reduced
axis, each relative to the previous intermediate entry. -/
theorem access_compress_tol (rtol atol : Rat) (t : Table) (hr : 0 ≤ rtol) (ha : 0 ≤ atol)
    (hcls : ClassifiedOnAllPerms rtol atol t)
    (hz : analyse rtol atol t ≠ .zeros) (ho : analyse rtol atol t ≠ .ones)
    (p e q d : Nat) (hp : p < t.P) (he : e < t.E) (hq : q < t.Q) (hd : d < t.D) :
    ∃ y, tableAccess (compress rtol atol t) p e q d = some y ∧
      qabs (y - t.val p e q d) ≤
        geom rtol (nReductions (compress rtol atol t)) * (atol + rtol * qabs (t.val p e q d)) := by
  refine ⟨_, tableAccess_compress rtol atol t p e q d hp he hq hd, ?_⟩
  have htt : (compress rtol atol t).ttype = analyse rtol atol t := rfl
  have hpm : (compress rtol atol t).isPermuted =
      isPermutedTable rtol atol (reduceByType (analyse rtol atol t) t) := rfl
  unfold nReductions accP accE accQ
  rw [htt, hpm]
  generalize hb1 : (analyse rtol atol t).isPiecewise = b1
  generalize hb2 : (analyse rtol atol t).isUniform = b2
  generalize hb3 : isPermutedTable rtol atol (reduceByType (analyse rtol atol t) t) = b3
  -- intermediate entries
  have hq' : (if b1 = true then 0 else q) < t.Q := by split <;> omega
  have he' : (if b2 = true then 0 else e) < t.E := by split <;> omega
  have key := chain_bound rtol atol (t.val p e q d)
    (t.val p e (if b1 = true then 0 else q) d)
    (t.val p (if b2 = true then 0 else e) (if b1 = true then 0 else q) d)
    (t.val (if b3 = true then p else 0) (if b2 = true then 0 else e) (if b1 = true then 0 else q) d)
    b1 b2 (!b3) hr ha ?_ ?_ ?_
  · cases b3 <;> simpa using key
  · cases b1
    · simp
    · simp only [if_true]
      exact point_step rtol atol t hr ha hcls hz ho hb1 p e q d hp he hq hd
  · cases b2
    · simp
    · simp only [if_true]
      exact entity_step rtol atol t hr ha hcls hz ho hb2 p e _ d hp he hq' hd
  · cases b3
    · simp only [Bool.not_false, if_true, Bool.false_eq_true, if_false]
      have hv := reduceByType_val (analyse rtol atol t) t
      have := perm_step rtol atol (reduceByType (analyse rtol atol t) t) hr ha hb3 p
        (if b2 = true then 0 else e) (if b1 = true then 0 else q) d
        (by rw [reduceByType_P]; exact hp)
        (by rw [reduceByType_E, hb2]; cases b2 <;> simp <;> omega)
        (by rw [reduceByType_Q, hb1]; cases b1 <;> simp <;> omega)
        (by rw [reduceByType_D]; exact hd)
      rw [hv] at this
      exact this
    · simp

/-- The constant never exceeds `3 + 3·rtol + rtol²`. -/
theorem geom_mono (r : Rat) (hr : 0 ≤ r) (k : Nat) : geom r k ≤ geom r (k + 1) := by
  induction k with
  | zero => simp only [geom]; grind
  | succ k ih =>
    have : (1 + r) * geom r k ≤ (1 + r) * geom r (k + 1) :=
      Rat.mul_le_mul_of_nonneg_left ih (by grind)
    simp only [geom] at *; grind

theorem access_compress_tol3 (rtol atol : Rat) (t : Table) (hr : 0 ≤ rtol) (ha : 0 ≤ atol)
    (hcls : ClassifiedOnAllPerms rtol atol t)
    (hz : analyse rtol atol t ≠ .zeros) (ho : analyse rtol atol t ≠ .ones)
    (p e q d : Nat) (hp : p < t.P) (he : e < t.E) (hq : q < t.Q) (hd : d < t.D) :
    ∃ y, tableAccess (compress rtol atol t) p e q d = some y ∧
      qabs (y - t.val p e q d) ≤
        (3 + 3 * rtol + rtol * rtol) * (atol + rtol * qabs (t.val p e q d)) := by
  obtain ⟨y, h1, h2⟩ := access_compress_tol rtol atol t hr ha hcls hz ho p e q d hp he hq hd
  refine ⟨y, h1, ?_⟩
  have hk : nReductions (compress rtol atol t) ≤ 3 := by
    unfold nReductions; split <;> split <;> split <;> omega
  have hmono : geom rtol (nReductions (compress rtol atol t)) ≤ geom rtol 3 := by
    have m0 := geom_mono rtol hr 0
    have m1 := geom_mono rtol hr 1
    have m2 := geom_mono rtol hr 2
    generalize nReductions (compress rtol atol t) = k at hk
    match k, hk with
    | 0, _ => grind
    | 1, _ => grind
    | 2, _ => grind
    | 3, _ => grind
  rw [geom_three] at hmono
  have hτ : 0 ≤ atol + rtol * qabs (t.val p e q d) := by
    have := Rat.mul_nonneg hr (qabs_nonneg (t.val p e q d)); grind
  have := Rat.mul_le_mul_of_nonneg_right hmono hτ
  grind

/-- **Exact version.**  With both tolerances 0 and the classification valid on every permutation
slice, the generated code reads exactly `t[p][e][q][d]` — for every table type. -/
theorem access_compress (t : Table) (hcls : ClassifiedOnAllPerms 0 0 t)
    (p e q d : Nat) (hp : p < t.P) (he : e < t.E) (hq : q < t.Q) (hd : d < t.D) :
    tableAccess (compress 0 0 t) p e q d = some (t.val p e q d) := by
  by_cases hz : analyse 0 0 t = .zeros
  · -- every entry is 0
    rw [tableAccess_compress 0 0 t p e q d hp he hq hd]
    have hZ := analyse_zeros _ _ _ hz
    have ent : ∀ p e q d, p < t.P → e < t.E → q < t.Q → d < t.D → t.val p e q d = 0 :=
      fun p e q d hp he hq hd => (isClose_zero_tol _ _).1 (isZeros_entry 0 0 t hZ p e q d hp he hq hd)
    rw [ent p e q d hp he hq hd, ent _ _ _ d _ _ _ hd]
    · unfold accP; split <;> omega
    · unfold accE; split <;> omega
    · unfold accQ; split <;> omega
  by_cases ho : analyse 0 0 t = .ones
  · rw [tableAccess_compress 0 0 t p e q d hp he hq hd]
    have hO := analyse_ones _ _ _ ho
    unfold isOnesTable at hO
    simp only [allBelow_iff] at hO
    have ent : ∀ p e q d, p < t.P → e < t.E → q < t.Q → d < t.D → t.val p e q d = 1 :=
      fun p e q d hp he hq hd => (isClose_zero_tol _ _).1 (hO p hp e he q hq d hd)
    rw [ent p e q d hp he hq hd, ent _ _ _ d _ _ _ hd]
    · unfold accP; split <;> omega
    · unfold accE; split <;> omega
    · unfold accQ; split <;> omega
  obtain ⟨y, h1, h2⟩ := access_compress_tol 0 0 t (by grind) (by grind) hcls hz ho p e q d hp he hq hd
  rw [h1]
  have : qabs (y - t.val p e q d) ≤ 0 := by grind
  have := qabs_eq_zero _ this
  congr 1
  grind

/-! ### Non-vacuity and necessity of the hypothesis -/

/-- a `[2][2][2][1]` table, constant over points on BOTH permutation slices, different on the
two entities and on the two permutations: classified `piecewise`, permuted -/
def exPiecewise : Table :=
  Table.ofFlat 2 2 2 1 #[1/2, 1/2, 1/3, 1/3,   1/5, 1/5, 1/7, 1/7]

example : ClassifiedOnAllPerms 0 0 exPiecewise ∧ analyse 0 0 exPiecewise = .piecewise ∧
    (compress 0 0 exPiecewise).isPermuted = true ∧ (compress 0 0 exPiecewise).table.Q = 1 ∧
    tableAccess (compress 0 0 exPiecewise) 1 1 1 0 = some (1/7) := by decide +kernel

example : ClassifiedOnAllPerms (1/1000000) (1/1000000000) exPiecewise := by decide +kernel

/-- slice 0 is constant over points, slice 1 is NOT: still classified `piecewise` (only slice 0 is
inspected), the point axis of BOTH slices is dropped, after which the two slices agree and the
permutation axis is dropped too -/
def exSlice0Only : Table :=
  Table.ofFlat 2 2 2 1 #[1/2, 1/2, 1/5, 1/5,   1/2, 1/3, 1/5, 1/5]

/-- `ClassifiedOnAllPerms` cannot be dropped from `access_compress`: on `exSlice0Only` the model of
the code classifies `piecewise`, and the read for permutation 1, point 1 returns `1/2` while the
table entry is `1/3`. -/
theorem access_compress_needs_all_perms :
    ¬ ClassifiedOnAllPerms 0 0 exSlice0Only ∧ analyse 0 0 exSlice0Only = .piecewise ∧
    tableAccess (compress 0 0 exSlice0Only) 1 0 1 0 = some (1/2) ∧
    exSlice0Only.val 1 0 1 0 = 1/3 := by decide +kernel

end Ffcx.IR
