/-
The loop over all nodes (`runNodes`) preserves the invariant; `facs` only grows by `push`, so the
well-formedness conditions stated on the final `nodeFacs` apply at every step.
-/
import FfcxProofs.Lemmas.FactorizeStep

namespace Ffcx.IR
open Lean.Grind
set_option linter.unusedVariables false
set_option linter.unusedSimpArgs false

theorem wfNode_congr (facs facs' : Array Dict) (n : Node)
    (h : ∀ d ∈ n.deps, facs[d]?.getD [] = facs'[d]?.getD []) : wfNode facs n = wfNode facs' n := by
  obtain ⟨k, ds⟩ := n
  unfold wfNode
  simp only
  split
  · rename_i a b
    rw [h a (by simp), h b (by simp)]
  · rfl

/-- one node appends one entry to `facs` -/
theorem stepNode_facs (avIndex : Nat → Nat) (st : FState) (si : Nat) (n : Node) (st1 : FState)
    (h : stepNode avIndex st si n = .ok st1) : ∃ d, st1.facs = st.facs.push d := by
  unfold stepNode at h
  simp only at h
  split at h
  · cases h
  split at h
  · cases h
  split at h
  · cases h; exact ⟨_, rfl⟩
  split at h
  · cases h; exact ⟨_, rfl⟩
  split at h
  · obtain ⟨r, _, rfl⟩ := except_map_ok _ _ _ h; exact ⟨_, rfl⟩
  · obtain ⟨r, _, rfl⟩ := except_map_ok _ _ _ h; exact ⟨_, rfl⟩
  · obtain ⟨r, _, rfl⟩ := except_map_ok _ _ _ h; exact ⟨_, rfl⟩
  · obtain ⟨r, _, rfl⟩ := except_map_ok _ _ _ h; exact ⟨_, rfl⟩
  · obtain ⟨r, _, rfl⟩ := except_map_ok _ _ _ h; exact ⟨_, rfl⟩
  · cases h

theorem runNodes_facs_stable (avIndex : Nat → Nat) (fin : FState) :
    ∀ (rest : List Node) (st : FState) (si : Nat), runNodes avIndex st si rest = .ok fin →
      ∀ j, j < st.facs.size → fin.facs[j]? = st.facs[j]? := by
  intro rest
  induction rest with
  | nil =>
    intro st si h j _
    simp [runNodes] at h
    subst h; rfl
  | cons n rest ih =>
    intro st si h j hj
    unfold runNodes at h
    split at h
    · cases h
    rename_i st1 hstep
    obtain ⟨d, hd⟩ := stepNode_facs avIndex st si n st1 hstep
    rw [ih st1 (si + 1) h j (by rw [hd]; simp; omega), hd, Array.getElem?_push]
    have : j ≠ st.facs.size := by omega
    simp [this]

section
variable {R : Type} [Field R] (ρ : Env R)

/-- the loop over the nodes of `S` preserves the invariant -/
theorem runNodes_inv (hρ : LawfulEnv ρ) (hreal : RealArgs ρ) (S : Array Node) (hcS : Closed S)
    (avIndex : Nat → Nat) (fin : FState)
    (hwfall : ∀ i (h : i < S.size), wfNode fin.facs S[i] = true) :
    ∀ (rest : List Node) (st : FState) (si : Nat),
      (∀ k, rest[k]? = S[si + k]?) → Inv ρ S st si →
      runNodes avIndex st si rest = .ok fin →
      Inv ρ S fin (si + rest.length) ∧ Ext st.F fin.F ∧ (∀ j, j < si → facAt fin j = facAt st j) ∧
        fin.one = st.one := by
  intro rest
  induction rest with
  | nil =>
    intro st si _ hinv h
    simp [runNodes] at h
    subst h
    exact ⟨by simpa using hinv, Ext.refl _, fun _ _ => rfl, rfl⟩
  | cons n rest ih =>
    intro st si hsuf hinv h
    unfold runNodes at h
    split at h
    · cases h
    rename_i st1 hstep
    have h0 := hsuf 0
    simp only [List.getElem?_cons_zero, Nat.add_zero] at h0
    have hsi : si < S.size := by
      by_cases hlt : si < S.size
      · exact hlt
      · rw [Array.getElem?_eq_none (by omega)] at h0; cases h0
    have hn : S[si] = n := by
      rw [Array.getElem?_eq_getElem hsi] at h0; exact (Option.some.inj h0).symm
    have hsuf1 : ∀ k, rest[k]? = S[si + 1 + k]? := by
      intro k
      have := hsuf (k + 1)
      simp only [List.getElem?_cons_succ] at this
      rw [this]; congr 1; omega
    have hwf_now : wfNode st.facs S[si] = true := by
      rw [← hwfall si hsi]
      apply wfNode_congr
      intro d hd
      have hdlt : d < si := hcS si hsi d hd
      have h1 := runNodes_facs_stable avIndex fin rest st1 (si + 1) h d (by
        obtain ⟨dd, hdd⟩ := stepNode_facs avIndex st si n st1 hstep
        rw [hdd, Array.size_push, hinv.nfacs]; omega)
      obtain ⟨dd, hdd⟩ := stepNode_facs avIndex st si n st1 hstep
      rw [h1, hdd, Array.getElem?_push]
      have : d ≠ st.facs.size := by rw [hinv.nfacs]; omega
      simp [this]
    have hpost := stepNode_post ρ hρ hreal S hcS avIndex st si hsi hinv hwf_now st1 (hn ▸ hstep)
    obtain ⟨hinv1, hx1, hst1⟩ := inv_of_post ρ S st st1 si hinv hpost
    obtain ⟨hfin, hx2, hst2, hone⟩ := ih st1 (si + 1) hsuf1 hinv1 h
    refine ⟨by simpa [Nat.add_assoc, Nat.add_comm 1] using hfin, hx1.trans hx2, ?_, ?_⟩
    · intro j hj
      rw [hst2 j (by omega), hst1 j hj]
    · obtain ⟨_, _, _, rfl, _⟩ := hpost
      rw [hone]; rfl

end
end Ffcx.IR
