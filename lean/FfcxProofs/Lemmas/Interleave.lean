/-
Every interleaving (order-preserving merge) of two statement sequences whose statements have
pairwise disjoint name-level footprints behaves like running the first sequence and then the second.
-/
import FfcxProofs.Lemmas.Commute

namespace Ffcx.LNodes
variable {R : Type} [Add R] [Sub R] [Mul R] [Div R] [Neg R] [IntCast R] (x : Extra R)

/-- outcomes equivalent: both fail, or both succeed in extensionally equal states -/
def ResEq : Except Err (St R) → Except Err (St R) → Prop
  | .ok a, .ok b => StEq a b
  | .error _, .error _ => True
  | _, _ => False

theorem StEq.refl (σ : St R) : StEq σ σ := ⟨fun _ _ => rfl, fun _ _ => rfl, fun _ _ => rfl, fun _ _ => rfl⟩

theorem StEq.trans {a b c : St R} (h1 : StEq a b) (h2 : StEq b c) : StEq a c :=
  ⟨fun n _ => (h1.iv n trivial).trans (h2.iv n trivial), fun n _ => (h1.sv n trivial).trans (h2.sv n trivial),
   fun n _ => (h1.ia n trivial).trans (h2.ia n trivial), fun n _ => (h1.sa n trivial).trans (h2.sa n trivial)⟩

theorem ResEq.refl (r : Except Err (St R)) : ResEq r r := by
  cases r <;> simp [ResEq, StEq.refl]

theorem ResEq.trans {a b c : Except Err (St R)} (h1 : ResEq a b) (h2 : ResEq b c) : ResEq a c := by
  cases a <;> cases b <;> cases c <;> simp_all [ResEq]
  exact StEq.trans h1 h2

/-- running the same statements from extensionally equal states gives equivalent outcomes -/
theorem execL_congr (ss : List Stmt) (σ τ : St R) (h : StEq σ τ) :
    ResEq (execL x ss σ) (execL x ss τ) := by
  have := execL_agreeOn x (P := fun _ => True) ss σ τ (fun _ _ => trivial) h
  cases h1 : execL x ss σ <;> cases h2 : execL x ss τ <;> simp_all [RelResP, ResEq, StEq]

theorem execL_congr_res (ss : List Stmt) (a b : Except Err (St R)) (h : ResEq a b) :
    ResEq (a.bind (execL x ss)) (b.bind (execL x ss)) := by
  cases a <;> cases b <;> simp_all [ResEq, Except.bind]
  exact execL_congr x ss _ _ h

theorem ResEq.symm {a b : Except Err (St R)} (h : ResEq a b) : ResEq b a := by
  cases a <;> cases b <;> simp_all [ResEq]
  exact AgreeOn.symm h

theorem exec_commute_res (s₁ s₂ : Stmt)
    (h12 : ∀ n, mentionsS n s₁ = true → neverWritten n s₂ = true)
    (h21 : ∀ n, mentionsS n s₂ = true → neverWritten n s₁ = true) (σ : St R) :
    ResEq ((exec x s₁ σ).bind (exec x s₂)) ((exec x s₂ σ).bind (exec x s₁)) := by
  have := exec_commute x s₁ s₂ h12 h21 σ
  generalize (exec x s₁ σ).bind (exec x s₂) = A at this ⊢
  generalize (exec x s₂ σ).bind (exec x s₁) = B at this ⊢
  cases A <;> cases B <;> simp_all [ResEq]

/-- `t` hops over the whole list `p` when it is footprint-disjoint from every statement of `p` -/
theorem hop_over_list (t : Stmt) (p : List Stmt)
    (h1 : ∀ n, mentionsSL n p = true → neverWritten n t = true)
    (h2 : ∀ n, mentionsS n t = true → neverWrittenL n p = true) (σ : St R) :
    ResEq ((exec x t σ).bind (execL x p)) ((execL x p σ).bind (exec x t)) := by
  have := exec_commute_res x t (.block p)
    (fun n hn => by simpa [neverWritten] using h2 n hn)
    (fun n hn => h1 n (by simpa [mentionsS] using hn)) σ
  simpa [exec] using this

end Ffcx.LNodes

namespace Ffcx.LNodes
variable {R : Type} [Add R] [Sub R] [Mul R] [Div R] [Neg R] [IntCast R] (x : Extra R)

/-- `r` is an order-preserving merge of `p` and `q` -/
inductive Interleave : List Stmt → List Stmt → List Stmt → Prop
  | nil : Interleave [] [] []
  | left (s : Stmt) {p q r : List Stmt} : Interleave p q r → Interleave (s :: p) q (s :: r)
  | right (t : Stmt) {p q r : List Stmt} : Interleave p q r → Interleave p (t :: q) (t :: r)

/-- footprints of the two threads are disjoint at name level: no statement of one writes a name
    a statement of the other mentions -/
def Disjoint (p q : List Stmt) : Prop :=
  (∀ n, mentionsSL n p = true → neverWrittenL n q = true) ∧
  (∀ n, mentionsSL n q = true → neverWrittenL n p = true)

theorem execL_append' (l₁ l₂ : List Stmt) (σ : St R) :
    execL x (l₁ ++ l₂) σ = (execL x l₁ σ).bind (execL x l₂) := by
  induction l₁ generalizing σ with
  | nil => simp [execL, Except.bind]
  | cons s ss ih =>
    simp only [List.cons_append, execL]
    cases exec x s σ with
    | error e => simp [Except.bind]
    | ok σ' => simpa using ih σ'

theorem execL_cons_bind (t : Stmt) (l : List Stmt) (σ : St R) :
    execL x (t :: l) σ = (exec x t σ).bind (execL x l) := by
  simp only [execL]; cases exec x t σ <;> simp [Except.bind]

theorem bind_bind_exec (a : Except Err (St R)) (f g : St R → Except Err (St R)) :
    (a.bind f).bind g = a.bind (fun s => (f s).bind g) := by
  cases a <;> simp [Except.bind]

/-- **every interleaving equals the sequential composition** -/
theorem interleave_seq {p q r : List Stmt} (hi : Interleave p q r) (hd : Disjoint p q) (σ : St R) :
    ResEq (execL x r σ) (execL x (p ++ q) σ) := by
  induction hi generalizing σ with
  | nil => exact ResEq.refl _
  | left s hpr ih =>
    rename_i p' q' r'
    have hd' : Disjoint p' q' := by
      refine ⟨fun n hn => hd.1 n (by simp [mentionsSL, hn]), fun n hn => ?_⟩
      have := hd.2 n hn
      simp [neverWrittenL] at this; exact this.2
    simp only [List.cons_append, execL]
    cases exec x s σ with
    | error e => simp [ResEq]
    | ok σ' => exact ih hd' σ'
  | right t hpr ih =>
    rename_i p' q' r'
    have hd' : Disjoint p' q' := by
      refine ⟨fun n hn => ?_, fun n hn => hd.2 n (by simp [mentionsSL, hn])⟩
      have := hd.1 n hn
      simp [neverWrittenL] at this; exact this.2
    -- r = t :: r';  target: p' ++ t :: q'
    rw [execL_cons_bind, execL_append']
    have ecb : execL x (t :: q') = fun s => (exec x t s).bind (execL x q') := by
      funext s; exact execL_cons_bind x t q' s
    rw [ecb]
    -- step 1: inside, replace r' by p' ++ q'
    have step1 : ResEq ((exec x t σ).bind (execL x r')) ((exec x t σ).bind (execL x (p' ++ q'))) := by
      cases exec x t σ with
      | error e => simp [ResEq, Except.bind]
      | ok σ' => simpa [Except.bind] using ih hd' σ'
    -- step 2: t hops over p'
    have hop := hop_over_list x t p'
      (fun n hn => by have := hd.1 n hn; simp [neverWrittenL] at this; exact this.1)
      (fun n hn => hd.2 n (by simp [mentionsSL, hn])) σ
    have step2 : ResEq ((exec x t σ).bind (execL x (p' ++ q')))
        ((execL x p' σ).bind (fun s => (exec x t s).bind (execL x q'))) := by
      have e : (exec x t σ).bind (execL x (p' ++ q')) = ((exec x t σ).bind (execL x p')).bind (execL x q') := by
        rw [bind_bind_exec]; congr 1; funext s; exact execL_append' x p' q' s
      rw [e, ← bind_bind_exec]
      exact execL_congr_res x q' _ _ hop
    exact ResEq.trans step1 step2

end Ffcx.LNodes
