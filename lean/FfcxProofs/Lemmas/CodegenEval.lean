/-
Values of the expressions the block generators build: `float_product` with Python numbers,
`MultiIndex.global_index` of a one-symbol index, `block_size * index + offset`, the multi-index of
`A`, element-table accesses.
-/
import FfcxModel.Codegen.Block
import FfcxModel.LNodes.Static
import FfcxProofs.Lemmas.Fold
import FfcxProofs.Lemmas.Index

set_option linter.unusedSectionVars false

namespace Ffcx.Codegen
open Ffcx Ffcx.LNodes Lean.Grind
attribute [local instance] Lean.Grind.Ring.intCast
variable {R : Type} [Field R] {x : Extra R}

/-- values of a list of (Python number | expression) factors -/
def evalPy (x : Extra R) (σ : St R) : List MSym → List R
  | [] => []
  | f :: fs => eval x σ f.toExpr :: evalPy x σ fs

theorem evalL_map_toExpr (σ : St R) : ∀ fs : List MSym,
    evalL x σ (fs.map MSym.toExpr) = evalPy x σ fs
  | [] => rfl
  | f :: fs => by simp [evalL, evalPy, evalL_map_toExpr σ fs]

theorem prodR_filter_py (h : LawfulExtra x) (σ : St R) : ∀ fs : List MSym,
    prodR (evalPy x σ (fs.filter (fun f => match f with | .py _ => true | .ex e => !isOne e))) =
      prodR (evalPy x σ fs)
  | [] => rfl
  | f :: fs => by
    have ih := prodR_filter_py h σ fs
    cases f with
    | py n => simp [List.filter, evalPy, prodR, ih]
    | ex e =>
      by_cases he : isOne e = true
      · simp [List.filter, he, evalPy, prodR, ih, MSym.toExpr, eval_isOne h σ e he]; grind
      · simp [List.filter, he, evalPy, prodR, ih]

/-- `float_product` (with Python-number factors) is the product of the factors -/
theorem eval_floatProductPy (h : LawfulExtra x) (σ : St R) (fs : List MSym) :
    eval x σ (floatProductPy fs).toExpr = prodR (evalPy x σ fs) := by
  unfold floatProductPy
  rw [← prodR_filter_py h σ fs]
  generalize fs.filter _ = l
  match l with
  | [] => simp [MSym.toExpr, eval, evalPy, prodR, h.ofRat_one]
  | [f] => simp [evalPy, prodR]; grind
  | a :: b :: r => simp only [MSym.toExpr]; rw [eval_prod, evalL_map_toExpr]

theorem safe_floatProductPy (σ : St R) (fs : List MSym)
    (hs : ∀ f ∈ fs, safeE σ f.toExpr = true) : safeE σ (floatProductPy fs).toExpr = true := by
  unfold floatProductPy
  have hf : ∀ f ∈ fs.filter (fun f => match f with | .py _ => true | .ex e => !isOne e),
      safeE σ f.toExpr = true := fun f hf => hs f (List.mem_filter.mp hf).1
  generalize fs.filter _ = l at hf
  match l, hf with
  | [], _ => simp [MSym.toExpr, safeE]
  | [f], hf => exact hf f (by simp)
  | a :: b :: r, hf =>
    simp only [MSym.toExpr, safeE]
    generalize a :: b :: r = l at hf
    induction l with
    | nil => simp [safeE.safeL]
    | cons a as ih =>
      simp only [List.map_cons, safeE.safeL, Bool.and_eq_true]
      exact ⟨hf a (by simp), ih (fun f hf' => hf f (by simp [hf']))⟩

theorem mentions_floatProductPy (m : String) (fs : List MSym)
    (hs : ∀ f ∈ fs, mentionsE m f.toExpr = false) : mentionsE m (floatProductPy fs).toExpr = false := by
  unfold floatProductPy
  have hf : ∀ f ∈ fs.filter (fun f => match f with | .py _ => true | .ex e => !isOne e),
      mentionsE m f.toExpr = false := fun f hf => hs f (List.mem_filter.mp hf).1
  generalize fs.filter _ = l at hf
  match l, hf with
  | [], _ => simp [MSym.toExpr, mentionsE]
  | [f], hf => exact hf f (by simp)
  | a :: b :: r, hf =>
    simp only [MSym.toExpr, mentionsE]
    generalize a :: b :: r = l at hf
    induction l with
    | nil => simp [mentionsL]
    | cons a as ih =>
      simp only [List.map_cons, mentionsL, Bool.or_eq_false_iff]
      exact ⟨hf a (by simp), ih (fun f hf' => hf f (by simp [hf']))⟩

/-- `MultiIndex([Symbol(s)], [n]).global_index` is `Sum([s])` and evaluates to the value of `s` -/
theorem evalI_global_single (iv : AList Int) (ia : AList (Array Int)) (s : String) (n : Nat) (v : Int)
    (h : iv.get s = some v) : evalI iv ia (MIx.global { syms := [s], sizes := [n] }) = some v := by
  simp [MIx.global, miGlobal, strides, miTerms, miTerm, lRMul, isZero, isOne, isym, evalI,
    evalI.evalISum, h]

theorem mentions_global_single (m s : String) (n : Nat) :
    mentionsE m (MIx.global { syms := [s], sizes := [n] }) = (s == m) := by
  simp [MIx.global, miGlobal, strides, miTerms, miTerm, lRMul, isZero, isOne, isym, mentionsE,
    mentionsL]

theorem evalI_lAdd_lit (iv ia) (a : Expr) (c va : Int) (h : evalI iv ia a = some va) :
    evalI iv ia (lAdd a (.litI c)) = some (va + c) := by
  unfold lAdd
  split
  · rename_i hz; have := evalI_isZero iv ia a va hz h; subst this; simp [evalI]
  split
  · rename_i hz; simp [isZero] at hz; subst hz; simpa using h
  · simp [evalI, h]

theorem evalI_lRMul_litI (iv ia) (s : Expr) (c v : Int) (h : evalI iv ia s = some v) :
    evalI iv ia (lRMul s (.litI c)) = some (c * v) := by
  unfold lRMul
  split
  · rename_i hz; have := evalI_isZero iv ia s v hz h; subst this; simpa using h
  split
  · rename_i hz; simp [isZero] at hz; simp [evalI, hz]
  split
  · rename_i hz; have := evalI_isOne iv ia s v hz h; subst this; simp [evalI]
  split
  · rename_i hz; simp [isOne] at hz; simp [hz, h]
  split
  · rename_i hz; simp [isNegOne] at hz; subst hz; simp [evalI, h]
  split
  · rename_i hz; have := evalI_isNegOne iv ia s v hz h; subst this; simp [evalI]
  · simp [evalI, h]

theorem mentions_lAdd_lit (m : String) (a : Expr) (c : Int) (h : mentionsE m a = false) :
    mentionsE m (lAdd a (.litI c)) = false := by
  unfold lAdd
  split
  · simp [mentionsE]
  split
  · exact h
  · simp [mentionsE, h]

theorem mentions_lRMul_lit (m : String) (a : Expr) (c : Int) (h : mentionsE m a = false) :
    mentionsE m (lRMul a (.litI c)) = false := by
  unfold lRMul
  repeat' split
  all_goals simp [mentionsE, h]

/-- the coordinate `block_size * d + offset` (`d + offset` for a one-dof block) -/
def aCoord (a : ArgDesc) (len : Nat) (d : Int) : Int :=
  if len == 1 then d + a.table.offset else a.table.blockSize * d + a.table.offset

theorem evalI_aIndex (iv ia) (a : ArgDesc) (s : String) (n len : Nat) (d : Int)
    (h : iv.get s = some d) :
    evalI iv ia (aIndex a { syms := [s], sizes := [n] } len) = some (aCoord a len d) := by
  have hg := evalI_global_single iv ia s n d h
  unfold aIndex aCoord
  split
  · exact evalI_lAdd_lit iv ia _ _ _ hg
  · exact evalI_lAdd_lit iv ia _ _ _ (evalI_lRMul_litI iv ia _ _ _ hg)

theorem mentions_aIndex (m : String) (a : ArgDesc) (s : String) (n len : Nat) (h : (s == m) = false) :
    mentionsE m (aIndex a { syms := [s], sizes := [n] } len) = false := by
  have hg : mentionsE m (MIx.global { syms := [s], sizes := [n] }) = false := by
    rw [mentions_global_single]; exact h
  unfold aIndex
  split
  · exact mentions_lAdd_lit m _ _ hg
  · exact mentions_lAdd_lit m _ _ (mentions_lRMul_lit m _ _ hg)

/-- in-range index tuples flatten -/
theorem flatIdx_some_of_inrange : ∀ (ds : List Nat) (is : List Int), is.length = ds.length →
    (∀ p ∈ List.zip ds is, 0 ≤ p.2 ∧ p.2 < (p.1 : Int)) → ∃ k, flatIdx ds is = some k
  | [], [], _, _ => ⟨0, rfl⟩
  | [], _ :: _, h, _ => by simp at h
  | _ :: _, [], h, _ => by simp at h
  | d :: ds, i :: is, hl, hr => by
    have h0 := hr (d, i) (by simp)
    obtain ⟨r, hr'⟩ := flatIdx_some_of_inrange ds is (by simpa using hl)
      (fun p hp => hr p (by simp [hp]))
    have h0' : 0 ≤ i ∧ i < (d : Int) := h0
    exact ⟨i.toNat * ds.foldr (· * ·) 1 + r, by simp [flatIdx, h0', hr']⟩

/-- the value of `MultiIndex(indices, A_shape).global_index` is the row-major flat index, inside
    `prod A_shape` -/
theorem evalI_mkMultiIndex (iv ia) (es : List Expr) (shape : List Nat) (vals : List Int)
    (hv : evalIs iv ia es = some vals) (hl : vals.length = shape.length)
    (hr : ∀ p ∈ List.zip shape vals, 0 ≤ p.2 ∧ p.2 < (p.1 : Int)) :
    ∃ k : Nat, evalI iv ia (mkMultiIndex (es.map .ex) shape) = some (k : Int) ∧ k < sizeProd shape ∧
      flatIdx shape vals = some k := by
  obtain ⟨k, hk⟩ := flatIdx_some_of_inrange shape vals hl hr
  refine ⟨k, ?_, flatIdx_lt shape vals k hk, hk⟩
  have hmap : evalIs iv ia ((es.map MSym.ex).map MSym.toExpr) = some vals := by
    simpa [List.map_map, Function.comp_def, MSym.toExpr] using hv
  simp only [mkMultiIndex, evalI]
  unfold miGlobal
  split
  · rename_i he
    have : shape = [] := by simpa using he
    subst this
    cases vals with
    | nil => simp [flatIdx] at hk; subst hk; simp [evalI]
    | cons _ _ => simp at hl
  · simp only [evalI, evalISum_miTerms iv ia (strides shape) (es.map .ex) vals hmap,
      flatIdx_dot shape vals k hk]

theorem mentions_mkMultiIndex (m : String) (es : List Expr) (shape : List Nat)
    (h : ∀ e ∈ es, mentionsE m e = false) : mentionsE m (mkMultiIndex (es.map .ex) shape) = false := by
  have h1 : mentionsL m ((es.map MSym.ex).map MSym.toExpr) = false := by
    simp only [List.map_map, Function.comp_def, MSym.toExpr, List.map_id']
    clear shape
    induction es with
    | nil => rfl
    | cons e es ih => simp [mentionsL, h e (by simp), ih (fun e' he' => h e' (by simp [he']))]
  have h2 : ∀ (ns : List Nat) (l : List Expr), (∀ e ∈ l, mentionsE m e = false) →
      mentionsL m (miTerms ns (l.map .ex)) = false := by
    intro ns
    induction ns with
    | nil => intro l _; cases l <;> simp [miTerms, mentionsL]
    | cons n ns ih =>
      intro l hl
      cases l with
      | nil => simp [miTerms, mentionsL]
      | cons e l =>
        have := mentions_lRMul_lit m e n (hl e (by simp))
        simp [miTerms, miTerm, mentionsL, this, ih l (fun e' he' => hl e' (by simp [he']))]
  simp only [mkMultiIndex, mentionsE, h1, Bool.false_or]
  unfold miGlobal
  split
  · simp [mentionsE]
  · simp [mentionsE, h2 _ es h]

end Ffcx.Codegen
