/-
The initial state (`F` = arguments in `AV` order, then `1.0`), what a successful `factorize` is, and
STAGE A of the soundness theorem: every argument-dependent node of `S` equals its factorised sum.
-/
import FfcxProofs.Lemmas.FactorizeRun

namespace Ffcx.IR
open Lean.Grind
set_option linter.unusedVariables false
set_option linter.unusedSimpArgs false

/-! ### the initial state -/

theorem mem_argIndices (S : Array Node) (si : Nat) :
    si ∈ argIndices S ↔ si < S.size ∧ isArgKind (kindAt S si) = true := by
  unfold argIndices
  rw [(isort_perm _ _).mem_iff]
  simp [List.mem_filter]

theorem argIndices_nodup (S : Array Node) : (argIndices S).Nodup := by
  unfold argIndices
  apply (isort_perm _ _).nodup_iff.mpr
  exact List.Nodup.sublist List.filter_sublist List.nodup_range

theorem arityB_spec (S : Array Node) (h : arityB S = true) (i : Nat) (hi : i < S.size) :
    (S[i]).kind.arityOk (S[i]).deps.length = true := by
  unfold arityB at h
  rw [Array.all_eq_true] at h
  exact h i hi

theorem arg_no_deps (S : Array Node) (h : arityB S = true) (si : Nat) (hm : si ∈ argIndices S) :
    (nodeAt S si).deps = [] := by
  obtain ⟨hlt, hk⟩ := (mem_argIndices S si).mp hm
  have := arityB_spec S h si hlt
  unfold kindAt at hk
  rw [nodeAt_eq S si hlt] at hk ⊢
  generalize S[si] = n at this hk
  obtain ⟨k, ds⟩ := n
  cases k <;> simp [isArgKind] at hk
  simp [Kind.arityOk] at this
  exact this

theorem foldl_insert_closed {α : Type} (node : α → Node) :
    ∀ (l : List α) (F : Array Node), Closed F → (∀ x ∈ l, (node x).deps = []) →
      Closed (l.foldl (fun F x => (graphInsert F (node x)).1) F) ∧
      Ext F (l.foldl (fun F x => (graphInsert F (node x)).1) F) := by
  intro l
  induction l with
  | nil => intro F hc _; exact ⟨hc, Ext.refl _⟩
  | cons x l ih =>
    intro F hc hd
    simp only [List.foldl_cons]
    have hx : ∀ d ∈ (node x).deps, d < F.size := by rw [hd x (by simp)]; simp
    obtain ⟨he, hc1, _, _⟩ := graphInsert_spec F (node x) hc hx
    obtain ⟨hc2, he2⟩ := ih _ hc1 (fun y hy => hd y (by simp [hy]))
    exact ⟨hc2, he.trans he2⟩

section
variable {R : Type} [Field R] (ρ : Env R)

theorem initState_inv (hρ : LawfulEnv ρ) (S : Array Node) (har : arityB S = true) :
    Inv ρ S (initState S) 0 := by
  unfold initState
  simp only
  obtain ⟨hc0, _⟩ := foldl_insert_closed (fun si => nodeAt S si) (argIndices S) #[] closed_empty
    (fun x hx => arg_no_deps S har x hx)
  generalize (argIndices S).foldl (fun F si => (graphInsert F (nodeAt S si)).1) #[] = F0 at hc0
  have hd : ∀ d ∈ (⟨.lit false 1, []⟩ : Node).deps, d < F0.size := by simp
  obtain ⟨_, hc1, hlt, _⟩ := graphInsert_spec F0 ⟨.lit false 1, []⟩ hc0 hd
  refine ⟨rfl, rfl, hc1, hlt, ?_, fun j hj => by omega⟩
  show val ρ (graphInsert F0 ⟨.lit false 1, []⟩).1 (graphInsert F0 ⟨.lit false 1, []⟩).2 = 1
  rw [graphInsert_val ρ F0 _ hc0 hd]
  simp [evalNode, hρ.ofRat_one]

/-- what a successful `factorize` is -/
theorem factorize_ok (S : Graph) (rank : Nat) (res : FResult) (h : factorize S rank = .ok res) :
    ∃ st, runNodes (fun si => (argIndices S.nodes).idxOf si) (initState S.nodes) 0 S.nodes.toList = .ok st ∧
      res.F = st.F ∧ res.nodeFacs = st.facs ∧ res.argIndices = argIndices S.nodes ∧
      res.targetDicts = S.targets.map (fun (t, comps) =>
        (t, comps, targetDict (fun si => (argIndices S.nodes).idxOf si) rank st t)) ∧
      (∀ t ∈ S.targets, t.1 < S.nodes.size) ∧
      (∀ t ∈ S.targets, targetRejected rank st S.nodes t.1 = false) := by
  unfold factorize at h
  simp only at h
  split at h
  · cases h
  rename_i st hrun
  split at h
  · cases h
  rename_i hrange
  split at h
  · cases h
  rename_i hrej
  simp only [Except.ok.injEq] at h
  subst h
  refine ⟨st, hrun, rfl, rfl, rfl, rfl, ?_, ?_⟩
  · intro t ht
    apply Decidable.byContradiction
    intro hlt
    apply hrange
    rw [List.any_eq_true]
    exact ⟨t, ht, by simp; omega⟩
  · intro t ht
    apply Bool.eq_false_iff.mpr
    intro hr
    apply hrej
    rw [List.any_eq_true]
    exact ⟨t, ht, hr⟩

theorem wfCheck_spec (S : Graph) (rank : Nat) (res : FResult) (h : wfCheck S rank res = true) :
    (res.argIndices.map fun si => argPos (kindAt S.nodes si)) = List.range res.argIndices.length ∧
    (∀ i (hi : i < S.nodes.size), wfNode res.nodeFacs S.nodes[i] = true) ∧
    (∀ t ∈ S.targets, wfTarget (fun si => res.argIndices.idxOf si) S.nodes rank res.nodeFacs t.1 = true) := by
  unfold wfCheck at h
  simp only [Bool.and_eq_true, decide_eq_true_eq, List.all_eq_true] at h
  obtain ⟨⟨h3, h4⟩, h5⟩ := h
  refine ⟨h3, ?_, h5⟩
  rw [Array.all_eq_true] at h4
  exact h4

/-- `stepNode` checks the operand order and the operand count of the node -/
theorem stepNode_ok_checks (avIndex : Nat → Nat) (st : FState) (si : Nat) (n : Node) (st1 : FState)
    (h : stepNode avIndex st si n = .ok st1) :
    (n.deps.all fun d => d < si) = true ∧ n.kind.arityOk n.deps.length = true := by
  unfold stepNode at h
  simp only at h
  split at h
  · cases h
  rename_i h1
  split at h
  · cases h
  rename_i h2
  exact ⟨by simpa using h1, by simpa using h2⟩

theorem runNodes_ok_checks (avIndex : Nat → Nat) (fin : FState) :
    ∀ (rest : List Node) (st : FState) (si : Nat), runNodes avIndex st si rest = .ok fin →
      ∀ k (hk : k < rest.length), (rest[k].deps.all fun d => d < si + k) = true ∧
        rest[k].kind.arityOk rest[k].deps.length = true := by
  intro rest
  induction rest with
  | nil => intro st si _ k hk; simp at hk
  | cons n rest ih =>
    intro st si h k hk
    unfold runNodes at h
    split at h
    · cases h
    rename_i st1 hstep
    cases k with
    | zero => simpa using stepNode_ok_checks avIndex st si n st1 hstep
    | succ k =>
      have := ih st1 (si + 1) h k (by simpa using hk)
      simp only [List.getElem_cons_succ]
      have e : si + (k + 1) = si + 1 + k := by omega
      rw [e]; exact this

/-- **Acceptance implies shape.**  A graph the algorithm accepts is in topological order and every
node has the operand count of its class. -/
theorem accepted_closed (S : Array Node) (avIndex : Nat → Nat) (st0 fin : FState)
    (h : runNodes avIndex st0 0 S.toList = .ok fin) : Closed S ∧ arityB S = true := by
  have hk := runNodes_ok_checks avIndex fin S.toList st0 0 h
  constructor
  · intro i hi d hd
    have := (hk i (by simpa using hi)).1
    simp only [Array.getElem_toList, Nat.zero_add, List.all_eq_true, decide_eq_true_eq] at this
    exact this d hd
  · unfold arityB
    rw [Array.all_eq_true]
    intro i hi
    have := (hk i (by simpa using hi)).2
    simpa using this

/-- the invariant holds for the final state of an accepted, well-formed graph -/
theorem factorize_inv (hρ : LawfulEnv ρ) (hreal : RealArgs ρ) (S : Graph) (rank : Nat) (res : FResult)
    (st : FState)
    (hrun : runNodes (fun si => (argIndices S.nodes).idxOf si) (initState S.nodes) 0 S.nodes.toList = .ok st)
    (hF : res.F = st.F) (hfacs : res.nodeFacs = st.facs)
    (hwf : wfCheck S rank res = true) :
    Inv ρ S.nodes st S.nodes.size ∧ Ext (initState S.nodes).F st.F := by
  obtain ⟨_, hwfall, _⟩ := wfCheck_spec S rank res hwf
  obtain ⟨hcS, har⟩ := accepted_closed S.nodes _ _ st hrun
  rw [hfacs] at hwfall
  obtain ⟨hinv, hx, _, _⟩ := runNodes_inv ρ hρ hreal S.nodes hcS _ st hwfall S.nodes.toList
    (initState S.nodes) 0 (by intro k; simp) (initState_inv ρ hρ S.nodes har) hrun
  exact ⟨by simpa using hinv, hx⟩

/-- **Stage A.** For every node `j` of an accepted, well-formed graph that depends on arguments:
`S[j] = Σ_{(k,f) ∈ S.nodes[j]["factors"]} F[f] · Π_{a ∈ k} S[a]`. -/
theorem factorize_nodes_sound (hρ : LawfulEnv ρ) (hreal : RealArgs ρ) (S : Graph) (rank : Nat)
    (res : FResult) (h : factorize S rank = .ok res) (hwf : wfCheck S rank res = true)
    (j : Nat) (hj : j < S.nodes.size) (hne : res.nodeFacs[j]?.getD [] ≠ []) :
    val ρ S.nodes j = factSum ρ res.F (val ρ S.nodes) (res.nodeFacs[j]?.getD []) := by
  obtain ⟨st, hrun, hF, hfacs, _, _, _, _⟩ := factorize_ok S rank res h
  obtain ⟨hinv, _⟩ := factorize_inv ρ hρ hreal S rank res st hrun hF hfacs hwf
  have := (hinv.node j hj).dep
  unfold facAt at this
  rw [hF, hfacs]
  exact this (hfacs ▸ hne)

end
end Ffcx.IR
