/-
C16 — numba: the erasure does not see the normal form on trees without complex literals
(`erasePy_norm`).
-/
import FfcxProofs.Lemmas.FormatNorm
import FfcxModel.LNodes.ParsePy
namespace Ffcx.LNodes.Fmt
open Ffcx.LNodes

theorem erasePyReal_normReal (re im : Rat) : erasePy (normReal re im) = erasePyReal re := by
  unfold normReal
  by_cases h : re < 0
  · have h1 : ¬ (-re < 0) := by grind
    simp [h, erasePy, erasePyReal, h1]
  · simp [h, erasePy]

theorem leftNest_erasePy (op : BinOp) (u : Int) (s : String) (hs : s = String.ofList (fmtInt u))
    (hu : ¬ u < 0) (l : List Expr) :
    erasePy (leftNest op u l) = leftNestPT op s (eraseLPy l) := by
  cases l with
  | nil => simp [leftNest, leftNestPT, erasePy, eraseLPy, hu, hs]
  | cons a as =>
    simp only [leftNest, leftNestPT, eraseLPy]
    induction as generalizing a with
    | nil => simp [eraseLPy]
    | cons b bs ih =>
      simp only [List.foldl, eraseLPy]
      have := ih (.bin op a b)
      simpa [erasePy] using this

mutual
theorem erasePy_norm : ∀ e : Expr, noComplex e = true → erasePy (norm e) = erasePy e
  | .litF re im true, h => by simp [noComplex] at h
  | .litF re im false, _ => by simp [norm, erasePy, erasePyReal_normReal]
  | .litI v, _ => by
    by_cases h : v < 0
    · have h1 : ¬ (-v < 0) := by omega
      simp [norm, erasePy, h]
      omega
    · simp [norm, erasePy, h]
  | .sym n dt, _ => by simp [norm]
  | .mi s z gi, h => by
    simp only [noComplex] at h; simp [norm, erasePy, erasePy_norm gi h]
  | .neg a, h => by simp only [noComplex] at h; simp [norm, erasePy, erasePy_norm a h]
  | .not a, h => by simp only [noComplex] at h; simp [norm, erasePy, erasePy_norm a h]
  | .bin op a b, h => by
    simp only [noComplex, Bool.and_eq_true] at h
    simp [norm, erasePy, erasePy_norm a h.1, erasePy_norm b h.2]
  | .sum args, h => by
    simp only [noComplex] at h
    simp only [norm, erasePy]
    rw [leftNest_erasePy .add 0 "0" (by decide) (by decide), eraseLPy_norm args h]
  | .prod args, h => by
    simp only [noComplex] at h
    simp only [norm, erasePy]
    rw [leftNest_erasePy .mul 1 "1" (by decide) (by decide), eraseLPy_norm args h]
  | .call f dt args, h => by
    simp only [noComplex] at h; simp only [norm, erasePy, eraseLPy_norm args h]
  | .idx arr dt ix, h => by
    simp only [noComplex] at h; simp only [norm, erasePy, eraseLPy_norm ix h]
  | .cond c t f, h => by
    simp only [noComplex, Bool.and_eq_true] at h
    simp [norm, erasePy, erasePy_norm c h.1.1, erasePy_norm t h.1.2, erasePy_norm f h.2]
theorem eraseLPy_norm : ∀ l : List Expr, noComplexL l = true → eraseLPy (normL l) = eraseLPy l
  | [], _ => by simp [normL, eraseLPy]
  | a :: as, h => by
    simp only [noComplexL, Bool.and_eq_true] at h
    simp [normL, eraseLPy, erasePy_norm a h.1, eraseLPy_norm as h.2]
end

end Ffcx.LNodes.Fmt
