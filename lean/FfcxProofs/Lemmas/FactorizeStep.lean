/-
One iteration of the main loop (`stepNode`) establishes the invariant for the new node: modified
argument, argument-free node (`graph_insert(F, v)`), and the handlers for Sum, Product, Conj,
Division, Conditional.
-/
import FfcxProofs.Lemmas.FactorizeInv

namespace Ffcx.IR
open Lean.Grind
set_option linter.unusedVariables false
set_option linter.unusedSimpArgs false

section
variable {R : Type} [Field R] (ρ : Env R)

theorem except_map_ok {ε α β : Type} (f : α → β) (x : Except ε α) (y : β)
    (h : Except.map f x = .ok y) : ∃ r, x = .ok r ∧ y = f r := by
  cases x with
  | error e => simp [Except.map] at h
  | ok r => simp [Except.map] at h; exact ⟨r, rfl, h.symm⟩

theorem evalNode_map (look : Nat → R) (f : Nat → Nat) (k : Kind) (ds : List Nat) :
    evalNode ρ look ⟨k, ds.map f⟩ = evalNode ρ (fun d => look (f d)) ⟨k, ds⟩ := by
  cases k
  case condition n => simp [evalNode, List.map_map, Function.comp_def]
  case op n => simp [evalNode, List.map_map, Function.comp_def]
  all_goals first
    | rfl
    | (rcases ds with _ | ⟨a, _ | ⟨b, _ | ⟨c, _ | ⟨d, t⟩⟩⟩⟩ <;> simp [evalNode])

theorem evalNode_toFNode (look : Nat → R) (F : Array Node) (sf : Array Nat) (n : Node) :
    evalNode ρ look (toFNode F sf n) = evalNode ρ (fun d => look (sf[d]?.getD 0)) n := by
  obtain ⟨k, ds⟩ := n
  unfold toFNode
  simp only
  split
  · rename_i a b hds
    rw [evalNode_sum_normPair]
    rcases ds with _ | ⟨x, _ | ⟨y, _ | ⟨z, t⟩⟩⟩ <;> simp at hds
    obtain ⟨rfl, rfl⟩ := hds
    simp [evalNode]
  · rename_i a b hds
    rw [evalNode_prod_normPair]
    rcases ds with _ | ⟨x, _ | ⟨y, _ | ⟨z, t⟩⟩⟩ <;> simp at hds
    obtain ⟨rfl, rfl⟩ := hds
    simp [evalNode]
  · exact evalNode_map ρ look _ _ ds

theorem toFNode_deps (F : Array Node) (sf : Array Nat) (n : Node) (d : Nat)
    (hd : d ∈ (toFNode F sf n).deps) : ∃ x ∈ n.deps, d = sf[x]?.getD 0 := by
  obtain ⟨k, ds⟩ := n
  unfold toFNode at hd
  simp only at hd
  split at hd
  · rename_i a b hds
    rcases ds with _ | ⟨x, _ | ⟨y, _ | ⟨z, t⟩⟩⟩ <;> simp at hds
    obtain ⟨rfl, rfl⟩ := hds
    rcases normPair_mem F _ _ d hd with h | h
    · exact ⟨x, by simp, h⟩
    · exact ⟨y, by simp, h⟩
  · rename_i a b hds
    rcases ds with _ | ⟨x, _ | ⟨y, _ | ⟨z, t⟩⟩⟩ <;> simp at hds
    obtain ⟨rfl, rfl⟩ := hds
    rcases normPair_mem F _ _ d hd with h | h
    · exact ⟨x, by simp, h⟩
    · exact ⟨y, by simp, h⟩
  · simp only [List.mem_map] at hd
    obtain ⟨x, hx, rfl⟩ := hd
    exact ⟨x, hx, rfl⟩

/-- packaging the result of a handler -/
theorem post_of_handler (S : Array Node) (st : FState) (si : Nat) (F' : Array Node) (d' : Dict)
    (hx : Ext st.F F') (hc : Closed F') (hd : DictOK F' d') (hnd : d'.keys.Nodup)
    (hq : KeysIn (QReal ρ S) d') (hne : d' ≠ [])
    (hv : val ρ S si = factSum ρ F' (val ρ S) d') :
    StepPost ρ S st si (nextState st F' d' 0) :=
  ⟨F', d', 0, rfl, hx, hc, hd, hnd, hq, fun h => absurd h hne, fun _ => hv⟩

end
end Ffcx.IR

namespace Ffcx.IR
open Lean.Grind
set_option linter.unusedVariables false
set_option linter.unusedSimpArgs false
section
variable {R : Type} [Field R] (ρ : Env R)

theorem handleDivision_ok_fac1 (F : Array Node) (fac0 fac1 : Dict) (sf1 : Nat)
    (r : Array Node × Dict) (h : handleDivision F fac0 fac1 sf1 = .ok r) : fac1 = [] := by
  unfold handleDivision at h
  split at h
  · cases h
  · rename_i hf1; cases fac1 <;> simp_all

theorem handleConditional_ok_fac0 (F : Array Node) (fac0 fac1 fac2 : Dict) (sf0 : Nat) (z1 z2 : Bool)
    (r : Array Node × Dict) (h : handleConditional F fac0 fac1 fac2 sf0 z1 z2 = .ok r) :
    fac0 = [] := by
  unfold handleConditional at h
  split at h
  · cases h
  · rename_i hf0; cases fac0 <;> simp_all

theorem stepNode_post (hρ : LawfulEnv ρ) (hreal : RealArgs ρ) (S : Array Node) (hcS : Closed S)
    (avIndex : Nat → Nat) (st : FState) (si : Nat) (hsi : si < S.size)
    (hinv : Inv ρ S st si) (hwf : wfNode st.facs S[si] = true) (st' : FState)
    (h : stepNode avIndex st si S[si] = .ok st') : StepPost ρ S st si st' := by
  have hval := val_eq_evalNode ρ S hcS si hsi
  generalize hn : S[si] = n at h hwf hval
  obtain ⟨k, ds⟩ := n
  unfold stepNode at h
  simp only at h
  split at h
  · cases h
  rename_i hord
  split at h
  · cases h
  rename_i har
  have hdlt : ∀ d ∈ ds, d < si := by
    simpa [List.all_eq_true] using hord
  split at h
  · -- a modified argument
    rename_i harg
    cases k <;> simp [isArgKind] at harg
    rename_i p num
    simp only [Except.ok.injEq] at h
    subst h
    refine ⟨st.F, [([si], st.one)], avIndex si, rfl, Ext.refl _, hinv.closed, ?_, ?_, ?_, ?_, ?_⟩
    · intro e he; simp at he; subst he; exact hinv.one_lt
    · simp [Dict.keys]
    · intro k hk a ha
      simp [Dict.keys] at hk; subst hk; simp at ha; subst ha
      refine ⟨?_, hsi, ?_⟩
      · unfold kindAt; rw [nodeAt_eq S _ hsi, hn]; rfl
      · rw [hval]; simp [evalNode]; exact hreal p
    · intro h; simp at h
    · intro _
      simp [factSum, hinv.one_val]; grind
  · rename_i harg
    split at h
    · -- no operand depends on arguments
      rename_i hall
      have hfree : ∀ d ∈ ds, sfAt st d < st.F.size ∧ val ρ st.F (sfAt st d) = val ρ S d := by
        intro d hd
        have hemp : facAt st d = [] := by
          have := List.all_eq_true.mp hall (st.facs[d]?.getD []) (List.mem_map_of_mem hd)
          simpa [facAt] using this
        exact (hinv.node d (hdlt d hd)).free hemp
      simp only [Except.ok.injEq] at h
      subst h
      have hdeps : ∀ d ∈ (toFNode st.F st.sf ⟨k, ds⟩).deps, d < st.F.size := by
        intro d hd
        obtain ⟨x, hx, rfl⟩ := toFNode_deps _ _ _ d hd
        exact (hfree x hx).1
      obtain ⟨hx, hc', hlt, _⟩ := graphInsert_spec st.F _ hinv.closed hdeps
      refine ⟨_, [], _, rfl, hx, hc', by intro e he; simp at he, by simp [Dict.keys],
        by intro k hk; simp [Dict.keys] at hk, ?_, by intro h; exact absurd rfl h⟩
      intro _
      refine ⟨hlt, ?_⟩
      rw [graphInsert_val ρ st.F _ hinv.closed hdeps, evalNode_toFNode, hval]
      apply evalNode_congr
      intro d hd
      exact (hfree d hd).2
    · rename_i hnall
      split at h
      · -- Sum
        rename_i f0 f1 heq
        rcases ds with _ | ⟨a, _ | ⟨b, _ | ⟨c, t⟩⟩⟩ <;> simp at heq
        obtain ⟨rfl, rfl⟩ := heq
        obtain ⟨r, hr, rfl⟩ := except_map_ok _ _ _ h
        obtain ⟨F', d'⟩ := r
        have ha := hinv.node a (hdlt a (by simp))
        have hb := hinv.node b (hdlt b (by simp))
        obtain ⟨hne0, hne1, hx, hc', hd', hnd', hq', hne', hsum⟩ := handleSum_sound ρ hρ (val ρ S) (QReal ρ S)
          st.F _ _ F' d' hinv.closed ha.ok hb.ok ha.nodup hb.nodup ha.real hb.real hr
        have hne : facAt st a ≠ [] ∧ facAt st b ≠ [] := ⟨hne0, hne1⟩
        refine post_of_handler ρ S st si F' d' hx hc' hd' hnd' hq' (hne' (Or.inl hne.1)) ?_
        rw [hval, hsum]
        have e1 := ha.dep hne.1
        have e2 := hb.dep hne.2
        rw [← e1, ← e2]
        simp [evalNode]
      · -- Product
        rename_i f0 f1 heq
        rcases ds with _ | ⟨a, _ | ⟨b, _ | ⟨c, t⟩⟩⟩ <;> simp at heq
        obtain ⟨rfl, rfl⟩ := heq
        obtain ⟨r, hr, rfl⟩ := except_map_ok _ _ _ h
        obtain ⟨F', d'⟩ := r
        have ha := hinv.node a (hdlt a (by simp))
        have hb := hinv.node b (hdlt b (by simp))
        simp only [List.getElem?_cons_zero, List.getElem?_cons_succ, Option.getD_some] at hr
        have hne : facAt st a ≠ [] ∨ facAt st b ≠ [] := by
          unfold facAt
          simp at hnall
          cases h1 : st.facs[a]?.getD [] <;> cases h2 : st.facs[b]?.getD [] <;> simp_all
        have hclash : (pairKeys (Dict.keys (sortEntries (facAt st a))) (Dict.keys (sortEntries (facAt st b)))).Nodup := by
          unfold facAt
          simpa [wfNode] using hwf
        obtain ⟨hx, hc', hd', hnd', hq', hne', hprod⟩ := handleProduct_sound ρ hρ (val ρ S) (QReal ρ S)
          st.F _ _ _ _ F' d' hinv.closed ha.ok hb.ok ha.nodup hb.nodup ha.real hb.real hne
          (fun h => (ha.free h).1) (fun h => (hb.free h).1) hclash hr
        refine post_of_handler ρ S st si F' d' hx hc' hd' hnd' hq' hne' ?_
        rw [hval, hprod]
        simp only [evalNode]
        congr 1
        · by_cases h0 : facAt st a = []
          · rw [if_pos h0]; exact ((ha.free h0).2).symm
          · rw [if_neg h0]; exact ha.dep h0
        · by_cases h0 : facAt st b = []
          · rw [if_pos h0]; exact ((hb.free h0).2).symm
          · rw [if_neg h0]; exact hb.dep h0
      · -- Conj
        rename_i f0 heq
        rcases ds with _ | ⟨a, _ | ⟨b, t⟩⟩ <;> simp at heq
        subst heq
        obtain ⟨r, hr, rfl⟩ := except_map_ok _ _ _ h
        obtain ⟨F', d'⟩ := r
        have ha := hinv.node a (hdlt a (by simp))
        have hne : facAt st a ≠ [] := by
          unfold facAt
          simp at hnall
          exact hnall
        obtain ⟨hx, hc', hd', hnd', hq', hne', hcj⟩ := handleConj_sound ρ hρ (val ρ S) (QReal ρ S)
          (fun a h => h.2.2) st.F _ F' d' hinv.closed ha.ok ha.nodup ha.real hne hr
        refine post_of_handler ρ S st si F' d' hx hc' hd' hnd' hq' hne' ?_
        rw [hval, hcj]
        have e1 := ha.dep hne
        rw [← e1]
        simp [evalNode]
      · -- Division
        rename_i f0 f1 heq
        rcases ds with _ | ⟨a, _ | ⟨b, _ | ⟨c, t⟩⟩⟩ <;> simp at heq
        obtain ⟨rfl, rfl⟩ := heq
        obtain ⟨r, hr, rfl⟩ := except_map_ok _ _ _ h
        obtain ⟨F', d'⟩ := r
        have ha := hinv.node a (hdlt a (by simp))
        have hb := hinv.node b (hdlt b (by simp))
        simp only [List.getElem?_cons_zero, List.getElem?_cons_succ, Option.getD_some] at hr
        have hb0 : facAt st b = [] := handleDivision_ok_fac1 _ _ _ _ _ hr
        have hne : facAt st a ≠ [] := by
          unfold facAt at hb0 ⊢
          simp at hnall
          intro h0
          exact hnall h0 hb0
        obtain ⟨_, hx, hc', hd', hnd', hq', hne', hdv⟩ := handleDivision_sound ρ hρ (val ρ S) (QReal ρ S)
          st.F _ _ _ F' d' hinv.closed ha.ok ha.nodup ha.real hne (hb.free hb0).1 hr
        refine post_of_handler ρ S st si F' d' hx hc' hd' hnd' hq' hne' ?_
        rw [hval, hdv]
        have e1 := ha.dep hne
        have e2 := (hb.free hb0).2
        rw [← e1]
        simp only [evalNode]
        rw [e2]
      · -- Conditional
        rename_i f0 f1 f2 heq
        rcases ds with _ | ⟨c, _ | ⟨t, _ | ⟨f, _ | ⟨g, u⟩⟩⟩⟩ <;> simp at heq
        obtain ⟨rfl, rfl, rfl⟩ := heq
        obtain ⟨r, hr, rfl⟩ := except_map_ok _ _ _ h
        obtain ⟨F', d'⟩ := r
        simp only [List.getElem?_cons_zero, List.getElem?_cons_succ, Option.getD_some] at hr
        have hcn := hinv.node c (hdlt c (by simp))
        have htn := hinv.node t (hdlt t (by simp))
        have hfn := hinv.node f (hdlt f (by simp))
        have hc0 : facAt st c = [] := handleConditional_ok_fac0 _ _ _ _ _ _ _ _ hr
        obtain ⟨_, hz1, hz2, hx, hc', hd', hnd', hq', hne', hcd⟩ := handleConditional_sound ρ hρ (val ρ S)
          (QReal ρ S) st.F _ _ _ _ _ _ F' d' hinv.closed htn.ok hfn.ok htn.nodup hfn.nodup
          htn.real hfn.real (hcn.free hc0).1 hr
        have hne : facAt st t ≠ [] ∨ facAt st f ≠ [] := by
          unfold facAt at hc0 ⊢
          simp at hnall
          by_cases h1 : st.facs[t]?.getD [] = []
          · right; exact hnall hc0 h1
          · left; exact h1
        refine post_of_handler ρ S st si F' d' hx hc' hd' hnd' hq' (hne' hne) ?_
        rw [hval, hcd]
        simp only [evalNode]
        have ec := (hcn.free hc0).2
        rw [ec]
        have branch : ∀ (x : Nat) (hxn : NodeInv ρ S st x)
            (hz : facAt st x = [] → ((facAt st x).isEmpty && kindAt st.F (sfAt st x) == Kind.zero) = true),
            val ρ S x = factSum ρ st.F (val ρ S) (facAt st x) := by
          intro x hxn hz
          by_cases h0 : facAt st x = []
          · have hk := hz h0
            simp only [Bool.and_eq_true, beq_iff_eq] at hk
            rw [← (hxn.free h0).2, val_zero_of_kind ρ st.F hinv.closed _ (hxn.free h0).1 hk.2, h0]
            rfl
          · exact hxn.dep h0
        rw [branch t htn hz1, branch f hfn hz2]
      · -- every other operator: rejected
        cases h

end
end Ffcx.IR
