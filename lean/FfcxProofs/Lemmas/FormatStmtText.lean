/-
C16 — statements, text level (C): pieces of declarations, initialiser lists and loop headers are
separated; `stmt_lex`: the text of every well-formed statement lexes to its intended tokens.
-/
import FfcxProofs.Lemmas.FormatStmtLex
import FfcxProofs.Lemmas.FormatStmtParse
import FfcxProofs.Lemmas.FormatShape
namespace Ffcx.LNodes.Fmt
open Ffcx.LNodes

/-! ## "lexes to … and ends a line" -/

/-- the text lexes to `ts` and is empty or ends in a newline -/
def LN (text : List Char) (ts : List Tok) : Prop := lexC text = ts ∧ NLE text

theorem ln_nil : LN [] [] := ⟨rfl, Or.inl rfl⟩

theorem ln_append {a b ta tb} (ha : LN a ta) (hb : LN b tb) : LN (a ++ b) (ta ++ tb) :=
  ⟨by rw [lexC_es_append ha.2.es, ha.1, hb.1], nle_append ha.2 hb.2⟩

/-- a separated piece list printed on its own line(s) -/
theorem ln_pieces {ps : List Piece} (h : separated ps = true) : LN (render ps ++ ['\n']) (toks ps) :=
  ⟨by rw [lexC_snoc_nl, lex_render ps h], Or.inr ⟨_, rfl⟩⟩

theorem ln_indentLines {b tb} (h : LN b tb) : LN (indentLines b) tb :=
  ⟨by rw [lexC_indentLines, h.1], nle_indentLines b⟩

theorem ln_comment_line (pre l : List Char) (hp : '\n' ∉ pre) (h : '\n' ∉ l) :
    LN ('/' :: '/' :: pre ++ l ++ ['\n']) [] :=
  ⟨(comment_line pre l hp h).1, Or.inr ⟨'/' :: '/' :: pre ++ l, by simp⟩⟩

/-! ## joins -/

theorem render_joinP (sepr : List Piece) (xs : List (List Piece)) :
    render (joinP sepr xs) = joinC (render sepr) (xs.map render) := by
  induction xs with
  | nil => rfl
  | cons x xs ih =>
    cases xs with
    | nil => simp [joinP, joinC]
    | cons y ys => simp only [joinP, List.map_cons, joinC, render_append, ih]

theorem toks_joinP (sepr : List Piece) (xs : List (List Piece)) :
    toks (joinP sepr xs) = joinT (toks sepr) (xs.map toks) := by
  induction xs with
  | nil => rfl
  | cons x xs ih =>
    cases xs with
    | nil => simp [joinP, joinT]
    | cons y ys => simp only [joinP, List.map_cons, joinT, toks_append, ih]

/-! ## pieces whose last token may be followed by `,` `}` `;` -/

theorem sepTok_last_rbrace {x : Tok} (hx : isLast x = true) : sepTok x (.p .rbrace) = true := by
  simp only [sepTok, Tok.text, P.text]
  simp only [isLast, Bool.and_eq_true] at hx
  cases x with
  | num s =>
    obtain ⟨acc, h1, h2⟩ := stTok_num hx.1
    rw [h1]
    simp only [sepChar, numCont, digit_not_exp h2, Bool.and_false, Bool.or_false]
    decide
  | id s =>
    obtain ⟨acc, h1⟩ := stTok_id hx.1
    rw [h1]
    simp only [sepChar]
    decide
  | p q =>
    have : q = .rpar ∨ q = .rbrack := by
      cases q <;> simp at hx <;> simp
    rcases this with rfl | rfl <;> rfl
  | bad c => simp [tokOK] at hx
  | newline => simp [tokOK] at hx
  | indent => simp [tokOK] at hx
  | dedent => simp [tokOK] at hx

/-- separated, non-empty, first token well-shaped, last token closed by `,` `}` `;` -/
structure QP (ps : List Piece) : Prop where
  sep : separated ps = true
  first : ∃ t, firstP ps = some t ∧ tokOK t = true
  last : ∃ t, lastP ps = some t ∧ sepTok t (.p .comma) = true ∧ sepTok t (.p .rbrace) = true
    ∧ sepTok t (.p .semi) = true

theorem QP.ne_nil {ps} (h : QP ps) : ps ≠ [] := by
  obtain ⟨t, ht, _⟩ := h.first
  intro hn; subst hn; simp [firstP] at ht

theorem qp_of_sp {ps} (h : SP ps) : QP ps := by
  obtain ⟨f, hf, hf'⟩ := h.first
  obtain ⟨l, hl, hl'⟩ := h.last
  exact ⟨h.sep, ⟨f, hf, isFirst_ok hf'⟩, ⟨l, hl, sepTok_last_closer hl' (c := ',') (cs := []) rfl rfl,
    sepTok_last_rbrace hl', sepTok_last_closer hl' (c := ';') (cs := []) rfl rfl⟩⟩

/-- join with `, ` / `,\n  ` -/
theorem qp_join (w : List Char) (hw : w ≠ []) (hws : w.all isSpace = true) :
    ∀ xs : List (List Piece), xs ≠ [] → (∀ x ∈ xs, QP x) → QP (joinP [pp .comma, .ws w] xs) := by
  intro xs
  induction xs with
  | nil => intro h; exact absurd rfl h
  | cons x xs ih =>
    intro _ hall
    have hx := hall x (by simp)
    cases xs with
    | nil => simpa [joinP] using hx
    | cons y ys =>
      have hr := ih (by simp) (fun z hz => hall z (by simp [List.mem_cons] at hz ⊢; right; exact hz))
      have hj : joinP [pp .comma, .ws w] (x :: y :: ys) = x ++ ([pp .comma, .ws w] ++ joinP [pp .comma, .ws w] (y :: ys)) := by
        simp [joinP]
      rw [hj]
      obtain ⟨f, hf, hf'⟩ := hx.first
      obtain ⟨l, hl, hl1, _, _⟩ := hx.last
      have hne : w.isEmpty = false := by cases w <;> simp at hw ⊢
      refine ⟨?_, ⟨f, by rw [firstP_append _ hx.ne_nil]; exact hf, hf'⟩, ?_⟩
      · refine separated_append hx.sep ?_ ?_
        · have := hr.sep
          simp only [pp] at this
          simp only [List.cons_append, List.nil_append, separated, pp, tokOK, hne, hws, this, Bool.not_false,
            Bool.and_self]
        · intro a b ha hb
          rw [hl] at ha; cases ha
          simp only [List.cons_append, firstP, pp, Option.some.injEq] at hb; subst hb
          exact hl1
      · obtain ⟨l2, hl2, h2⟩ := hr.last
        refine ⟨l2, ?_, h2⟩
        rw [← List.append_assoc, lastP_append_ne _ hr.ne_nil]; exact hl2

/-- braces around a (possibly empty) separated list -/
theorem qp_braces {ps : List Piece} (h : ps = [] ∨ QP ps) : QP ([pp .lbrace] ++ ps ++ [pp .rbrace]) := by
  have hlast : ∃ t, lastP ([pp .lbrace] ++ ps ++ [pp .rbrace]) = some t ∧ sepTok t (.p .comma) = true
      ∧ sepTok t (.p .rbrace) = true ∧ sepTok t (.p .semi) = true :=
    ⟨.p .rbrace, by rw [lastP_append_cons]; rfl, rfl, rfl, rfl⟩
  rcases h with rfl | h
  · exact ⟨by decide, ⟨_, rfl, rfl⟩, hlast⟩
  · refine ⟨?_, ⟨.p .lbrace, rfl, rfl⟩, hlast⟩
    obtain ⟨f, hf, hf'⟩ := h.first
    obtain ⟨l, hl, _, hl2, _⟩ := h.last
    have h1 : separated (ps ++ [pp .rbrace]) = true := by
      refine separated_append h.sep (by decide) ?_
      intro a b ha hb
      rw [hl] at ha; cases ha
      simp only [firstP, pp, Option.some.injEq] at hb; subst hb
      exact hl2
    have : [pp .lbrace] ++ ps ++ [pp .rbrace] = [pp .lbrace] ++ (ps ++ [pp .rbrace]) := by simp
    rw [this]
    refine separated_append (by decide) h1 ?_
    intro a b ha hb
    simp only [lastP, pp, Option.some.injEq] at ha; subst ha
    rw [firstP_append _ h.ne_nil, hf] at hb; cases hb
    exact sepTok_start rfl hf'

/-! ## initialiser lists -/

def initPieces : List Nat → List Expr → List Piece
  | [], _ => [pp .lbrace, pp .rbrace]
  | [_], vals => [pp .lbrace] ++ joinP [pp .comma, sp] (vals.map cNumber) ++ [pp .rbrace]
  | d :: d' :: ds, vals =>
    let inner := (d' :: ds).foldr (· * ·) 1
    [pp .lbrace] ++ joinP [pp .comma, .ws ['\n', ' ', ' ']] ((chunks inner d vals).map (initPieces (d' :: ds)))
      ++ [pp .rbrace]

theorem render_initPieces (sc : Scalar) : ∀ (shape : List Nat) (vals : List Expr),
    render (initPieces shape vals) = initListC sc shape vals := by
  intro shape
  induction shape with
  | nil => intro vals; rfl
  | cons d tl ih =>
    intro vals
    cases tl with
    | nil =>
      simp only [initPieces, initListC, render_append, render_joinP, List.map_map]
      rfl
    | cons d' ds =>
      simp only [initPieces, initListC, render_append, render_joinP, List.map_map]
      have : (render ∘ initPieces (d' :: ds)) = initListC sc (d' :: ds) := funext (fun c => ih c)
      rw [this]
      rfl

theorem toks_initPieces : ∀ (shape : List Nat) (vals : List Expr),
    toks (initPieces shape vals) = initToksC shape vals := by
  intro shape
  induction shape with
  | nil => intro vals; rfl
  | cons d tl ih =>
    intro vals
    cases tl with
    | nil =>
      simp only [initPieces, initToksC, toks_append, toks_joinP, List.map_map]
      rfl
    | cons d' ds =>
      simp only [initPieces, initToksC, toks_append, toks_joinP, List.map_map]
      have : (toks ∘ initPieces (d' :: ds)) = initToksC (d' :: ds) := funext (fun c => ih c)
      rw [this]
      rfl

theorem qp_lit (sc : Scalar) (v : Expr) (hl : isLit v = true) (hwf : wfC sc v = true) : QP (cNumber v) := by
  have := (se_all sc (esize v) v (Nat.le_refl _) hwf).sp
  have e : piecesC sc v = cNumber v := by cases v <;> simp [isLit] at hl <;> simp [piecesC]
  rw [e] at this
  exact qp_of_sp this

theorem qp_initPieces (sc : Scalar) : ∀ (shape : List Nat) (vals : List Expr),
    (∀ v ∈ vals, isLit v = true ∧ wfC sc v = true) → QP (initPieces shape vals) := by
  intro shape
  induction shape with
  | nil => intro vals _; exact qp_braces (ps := []) (Or.inl rfl)
  | cons d tl ih =>
    intro vals hv
    cases tl with
    | nil =>
      simp only [initPieces]
      refine qp_braces ?_
      by_cases hne : vals = []
      · left; subst hne; rfl
      · right
        refine qp_join [' '] (by simp) (by decide) _ (by simpa using hne) ?_
        intro x hx
        simp only [List.mem_map] at hx
        obtain ⟨v, hvm, rfl⟩ := hx
        exact qp_lit sc v (hv v hvm).1 (hv v hvm).2
    | cons d' ds =>
      simp only [initPieces]
      refine qp_braces ?_
      by_cases hne : chunks ((d' :: ds).foldr (· * ·) 1) d vals = []
      · left; rw [hne]; rfl
      · right
        refine qp_join ['\n', ' ', ' '] (by simp) (by decide) _ (by simpa using hne) ?_
        intro x hx
        simp only [List.mem_map] at hx
        obtain ⟨c, hc, rfl⟩ := hx
        exact ih c (fun v hvc => hv v (chunks_mem _ _ _ _ hc v hvc))


/-! ## declarations -/

/-- words, each followed by a blank -/
def wordsPieces : List String → List Piece
  | [] => []
  | w :: ws => .t (.id w) :: sp :: wordsPieces ws

def dimPieces (sizes : List Nat) : List Piece :=
  sizes.flatMap (fun i => [pp .lbrack, .t (.num (String.ofList (natDigits i))), pp .rbrack])

/-- `= initialiser` or nothing, then `;` -/
def initTailP (init : Option (List Piece)) : List Piece :=
  (match init with | none => [] | some ps => [sp, pp .assign, sp] ++ ps) ++ [pp .semi]

def declPieces (quals : List String) (n : String) (sizes : List Nat) (init : Option (List Piece)) : List Piece :=
  wordsPieces quals ++ .t (.id n) :: (dimPieces sizes ++ initTailP init)

theorem toks_wordsPieces (ws : List String) : toks (wordsPieces ws) = ws.map Tok.id := by
  induction ws with
  | nil => rfl
  | cons w ws ih => simp [wordsPieces, toks, ih]

theorem dimPieces_cons (a : Nat) (l : List Nat) :
    dimPieces (a :: l) = [pp .lbrack, .t (.num (String.ofList (natDigits a))), pp .rbrack] ++ dimPieces l := by
  simp [dimPieces]

theorem dimToks_cons (a : Nat) (l : List Nat) :
    dimToks (a :: l) = [Tok.p .lbrack, .num (String.ofList (natDigits a)), .p .rbrack] ++ dimToks l := by
  simp [dimToks]

theorem toks_dimPieces (sizes : List Nat) : toks (dimPieces sizes) = dimToks sizes := by
  induction sizes with
  | nil => rfl
  | cons a l ih => rw [dimPieces_cons, dimToks_cons, toks_append, ih]; rfl

theorem render_dimPieces (sizes : List Nat) :
    render (dimPieces sizes) = sizes.flatMap (fun i => ['['] ++ natDigits i ++ [']']) := by
  induction sizes with
  | nil => rfl
  | cons a l ih =>
    rw [dimPieces_cons, render_append, ih]
    simp [render, pp, Tok.text, P.text, String.toList_ofList]

theorem render_wordsPieces_ty {sc : Scalar} {dt : DType} {ty : String} (h : cTypeName sc dt = some ty) :
    render (wordsPieces (tyWords ty)) = strL ty ++ [' '] := by
  cases sc <;> cases dt <;> simp [cTypeName, Scalar.cType, Scalar.real] at h <;> (subst h; decide +kernel)

theorem typeWord_tokOK {w : String} (h : cTypeWords.contains w = true) : tokOK (.id w) = true := by
  simp only [cTypeWords, List.contains_eq_mem, List.mem_cons, List.mem_nil_iff, or_false,
    decide_eq_true_eq] at h
  rcases h with rfl | rfl | rfl | rfl | rfl | rfl | rfl | rfl | rfl | rfl | rfl | rfl | rfl | rfl <;> decide +kernel

/-- a token in front of a separated list -/
theorem sep_tok_cons {t : Tok} {ps : List Piece} (ht : tokOK t = true)
    (hb : ∀ b ps', ps = .t b :: ps' → sepTok t b = true) (h : separated ps = true) :
    separated (.t t :: ps) = true := by
  cases ps with
  | nil => simp [separated, ht]
  | cons p ps' =>
    cases p with
    | ws s => simp only [separated, ht, Bool.true_and]; simpa [separated] using h
    | t b => simp only [separated, ht, hb b ps' rfl, Bool.true_and]; simpa [separated] using h

theorem sep_head_ok {b : Tok} {ps : List Piece} (h : separated (.t b :: ps) = true) : tokOK b = true := by
  simp only [separated, Bool.and_eq_true] at h; exact h.1.1

/-- a token after which the lexer is in its start state -/
theorem sep_start_cons {t : Tok} {ps : List Piece} (ht : tokOK t = true) (hst : stTok t = .start)
    (h : separated ps = true) : separated (.t t :: ps) = true :=
  sep_tok_cons ht (fun b ps' e => sepTok_start hst (sep_head_ok (e ▸ h))) h

theorem sep_ws_cons {w : List Char} {ps : List Piece} (hw : w ≠ []) (hws : w.all isSpace = true)
    (h : separated ps = true) : separated (.ws w :: ps) = true := by
  have : w.isEmpty = false := by cases w <;> simp at hw ⊢
  simp [separated, this, hws, h]

theorem sep_sp_cons {ps : List Piece} (h : separated ps = true) : separated (sp :: ps) = true :=
  sep_ws_cons (by simp) (by decide) h

/-- a token followed by white space -/
theorem sep_tok_ws {t : Tok} {w : List Char} {ps : List Piece} (ht : tokOK t = true)
    (h : separated (.ws w :: ps) = true) : separated (.t t :: .ws w :: ps) = true :=
  sep_tok_cons ht (fun b ps' e => by cases e) h

theorem sep_words (ws : List String) (hw : ∀ w ∈ ws, tokOK (.id w) = true) {ps : List Piece}
    (h : separated ps = true) : separated (wordsPieces ws ++ ps) = true := by
  induction ws with
  | nil => exact h
  | cons w ws ih =>
    have := ih (fun x hx => hw x (by simp [hx]))
    simp only [wordsPieces, List.cons_append]
    exact sep_tok_ws (hw w (by simp)) (sep_sp_cons this)

theorem isLast_id {n : String} (h : tokOK (.id n) = true) : isLast (.id n) = true := by simp [isLast, h]

theorem sep_initTail (init : Option (List Piece)) (hi : ∀ ps, init = some ps → QP ps) :
    separated (initTailP init) = true := by
  cases init with
  | none => decide
  | some ps =>
    have hq := hi ps rfl
    obtain ⟨l, hl, _, _, hl3⟩ := hq.last
    have h1 : separated (ps ++ [pp .semi]) = true := by
      refine separated_append hq.sep (by decide) ?_
      intro a b ha hb
      rw [hl] at ha; cases ha
      simp only [firstP, pp, Option.some.injEq] at hb; subst hb
      exact hl3
    simp only [initTailP, List.cons_append, List.nil_append, List.append_assoc]
    exact sep_sp_cons (sep_tok_ws rfl (sep_sp_cons h1))

theorem sep_dims (sizes : List Nat) {ps : List Piece} (h : separated ps = true) :
    separated (dimPieces sizes ++ ps) = true := by
  induction sizes with
  | nil => exact h
  | cons a l ih =>
    rw [dimPieces_cons]
    have hnum : tokOK (.num (String.ofList (natDigits a))) = true :=
      tokOK_num_ofList (numShape_digits _ (natDigits_ne _) (natDigits_digits _))
    have hlast : isLast (.num (String.ofList (natDigits a))) = true := by simp [isLast, hnum]
    simp only [List.cons_append, List.nil_append, pp]
    refine sep_start_cons rfl rfl (sep_tok_cons hnum ?_ (sep_start_cons rfl rfl ih))
    intro b ps' e
    cases e
    exact sepTok_last_closer hlast (c := ']') (cs := []) rfl rfl

theorem sep_decl (quals : List String) (n : String) (sizes : List Nat) (init : Option (List Piece))
    (hq : ∀ w ∈ quals, tokOK (.id w) = true) (hn : tokOK (.id n) = true)
    (hi : ∀ ps, init = some ps → QP ps) : separated (declPieces quals n sizes init) = true := by
  unfold declPieces
  refine sep_words quals hq (sep_tok_cons hn ?_ (sep_dims sizes (sep_initTail init hi)))
  intro _ _ e
  cases sizes with
  | nil =>
    cases init with
    | none =>
      simp only [dimPieces, List.flatMap_nil, List.nil_append, initTailP, pp] at e
      cases e
      exact sepTok_last_closer (isLast_id hn) (c := ';') (cs := []) rfl rfl
    | some ps => simp [dimPieces, initTailP, sp] at e
  | cons a l =>
    rw [dimPieces_cons] at e
    simp only [List.cons_append, pp] at e
    cases e
    exact sepTok_last_closer (isLast_id hn) (c := '[') (cs := []) rfl rfl

/-- tokens of `= initialiser` or nothing -/
def initTailT (init : Option (List Piece)) : List Tok :=
  match init with
  | none => []
  | some ps => .p .assign :: toks ps

theorem toks_declPieces (quals : List String) (n : String) (sizes : List Nat) (init : Option (List Piece)) :
    toks (declPieces quals n sizes init) = quals.map Tok.id ++ Tok.id n ::
      (dimToks sizes ++ (initTailT init ++ [Tok.p .semi])) := by
  cases init <;> simp [declPieces, initTailP, initTailT, toks_append, toks_wordsPieces, toks_dimPieces, toks]

/-! ## loop headers -/

def forPieces (sc : Scalar) (i : String) (lo hi : Expr) : List Piece :=
  [.t (.id "for"), sp, pp .lpar, .t (.id "int"), sp, .t (.id i), sp, pp .assign, sp] ++ (piecesC sc lo ++
  ([pp .semi, sp, .t (.id i), sp, pp .lt, sp] ++ (piecesC sc hi ++
  [pp .semi, sp, pp .incr, .t (.id i), pp .rpar, .ws ['\n'], pp .lbrace])))

theorem sep_for (sc : Scalar) (i : String) (lo hi : Expr) (hi' : tokOK (.id i) = true)
    (hlo : SP (piecesC sc lo)) (hhi : SP (piecesC sc hi)) : separated (forPieces sc i lo hi) = true := by
  unfold forPieces
  have hC : separated [pp .semi, sp, pp .incr, .t (.id i), pp .rpar, .ws ['\n'], pp .lbrace] = true := by
    have h0 : separated [pp .rpar, .ws ['\n'], pp .lbrace] = true := by decide
    have : separated [pp .incr, .t (.id i), pp .rpar, .ws ['\n'], pp .lbrace] = true := by
      refine sep_start_cons rfl rfl (sep_tok_cons hi' ?_ h0)
      intro b ps' e; cases e
      exact sepTok_last_closer (isLast_id hi') (c := ')') (cs := []) rfl rfl
    exact sep_start_cons rfl rfl (sep_sp_cons this)
  obtain ⟨l2, hl2, hl2'⟩ := hhi.last
  have h1 : separated (piecesC sc hi ++ [pp .semi, sp, pp .incr, .t (.id i), pp .rpar, .ws ['\n'], pp .lbrace]) = true := by
    refine separated_append hhi.sep hC ?_
    intro a b ha hb
    rw [hl2] at ha; cases ha
    simp only [firstP, pp, Option.some.injEq] at hb; subst hb
    exact sepTok_last_closer hl2' (c := ';') (cs := []) rfl rfl
  have h2 : separated ([pp .semi, sp, .t (.id i), sp, pp .lt, sp] ++ (piecesC sc hi ++
      [pp .semi, sp, pp .incr, .t (.id i), pp .rpar, .ws ['\n'], pp .lbrace])) = true := by
    simp only [List.cons_append, List.nil_append]
    exact sep_start_cons rfl rfl (sep_sp_cons (sep_tok_ws hi' (sep_sp_cons (sep_tok_ws rfl (sep_sp_cons h1)))))
  obtain ⟨l1, hl1, hl1'⟩ := hlo.last
  have h3 : separated (piecesC sc lo ++ ([pp .semi, sp, .t (.id i), sp, pp .lt, sp] ++ (piecesC sc hi ++
      [pp .semi, sp, pp .incr, .t (.id i), pp .rpar, .ws ['\n'], pp .lbrace]))) = true := by
    refine separated_append hlo.sep h2 ?_
    intro a b ha hb
    rw [hl1] at ha; cases ha
    simp only [List.cons_append, firstP, pp, Option.some.injEq] at hb; subst hb
    exact sepTok_last_closer hl1' (c := ';') (cs := []) rfl rfl
  simp only [List.cons_append, List.nil_append]
  have hint : tokOK (.id "int") = true := by decide +kernel
  have hfor : tokOK (.id "for") = true := by decide +kernel
  exact sep_tok_ws hfor (sep_sp_cons (sep_start_cons rfl rfl (sep_tok_ws hint (sep_sp_cons
    (sep_tok_ws hi' (sep_sp_cons (sep_tok_ws rfl (sep_sp_cons h3))))))))

theorem toks_forPieces (sc : Scalar) (i : String) (lo hi : Expr) :
    toks (forPieces sc i lo hi) = .id "for" :: .p .lpar :: .id "int" :: .id i :: .p .assign :: (tk sc lo ++
        .p .semi :: .id i :: .p .lt :: (tk sc hi ++ [.p .semi, .p .incr, .id i, .p .rpar, .p .lbrace])) := by
  simp [forPieces, toks_append, toks, tk, tokExprC, sp, pp]

/-! ## comments -/

theorem ln_comment_lines (pre : List Char) (hp : '\n' ∉ pre) : ∀ ls : List (List Char), (∀ l ∈ ls, '\n' ∉ l) →
    LN (ls.flatMap (fun l => '/' :: '/' :: pre ++ l ++ ['\n'])) [] := by
  intro ls
  induction ls with
  | nil => intro _; exact ln_nil
  | cons l ls ih =>
    intro h
    have := ln_append (ln_comment_line pre l hp (h l (by simp))) (ih (fun x hx => h x (by simp [hx])))
    simpa using this

theorem noNL_joinC (ns : List String) (h : ns.all noNL = true) : '\n' ∉ commaNames ns := by
  unfold commaNames
  induction ns with
  | nil => simp [joinC]
  | cons a l ih =>
    simp only [List.all_cons, Bool.and_eq_true] at h
    have ha : '\n' ∉ strL a := by
      have := h.1
      simp only [noNL, Bool.not_eq_true', List.contains_eq_mem, decide_eq_false_iff_not] at this
      exact this
    cases l with
    | nil => simpa [joinC] using ha
    | cons b l =>
      have := ih h.2
      simp only [List.map_cons, joinC, List.mem_append, not_or] at this ⊢
      exact ⟨⟨ha, by decide⟩, this⟩


/-! ## all statements -/

theorem ln_assign (sc : Scalar) (o : P) (ho : o = .assign ∨ o = .plusAssign) (l r : Expr)
    (hlv : isLvalue l = true) (hl : wfC sc l = true) (hr : wfC sc r = true) :
    LN (render (assignPieces sc o l r)) (tokExprC sc l ++ [.p o] ++ tokExprC sc r ++ [.p .semi]) := by
  refine ⟨?_, Or.inr ⟨render (piecesC sc l ++ [sp, pp o, sp] ++ piecesC sc r ++ [pp .semi]), ?_⟩⟩
  · rw [(assign_roundtrip sc o ho l r hlv hl hr).1]; simp
  · have e : assignPieces sc o l r = (piecesC sc l ++ [sp, pp o, sp] ++ piecesC sc r ++ [pp .semi]) ++ [.ws ['\n']] := by
      simp [assignPieces]
    rw [e, render_append]; rfl

theorem typeWords_tokOK {sc : Scalar} {dt : DType} {ty : String} (h : cTypeName sc dt = some ty) :
    ∀ w ∈ tyWords ty, tokOK (.id w) = true := by
  intro w hw
  have := (tyWords_ok h).1
  simp only [List.all_eq_true] at this
  exact typeWord_tokOK (this w hw)

/-- the text of a declaration -/
theorem ln_decl (quals : List String) (n : String) (sizes : List Nat) (init : Option (List Piece))
    (hq : ∀ w ∈ quals, tokOK (.id w) = true) (hn : validIdent n = true)
    (hi : ∀ ps, init = some ps → QP ps) :
    LN (render (declPieces quals n sizes init) ++ ['\n']) (quals.map Tok.id ++ Tok.id n ::
      (dimToks sizes ++ (initTailT init ++ [Tok.p .semi]))) := by
  have := ln_pieces (sep_decl quals n sizes init hq (validIdent_tokOK hn) hi)
  rwa [toks_declPieces] at this

theorem render_wordsPieces_append (a b : List String) :
    wordsPieces (a ++ b) = wordsPieces a ++ wordsPieces b := by
  induction a with
  | nil => rfl
  | cons w ws ih => simp [wordsPieces, ih]

theorem render_declPieces (quals : List String) (n : String) (sizes : List Nat) (init : Option (List Piece)) :
    render (declPieces quals n sizes init) = render (wordsPieces quals) ++ (strL n ++ (render (dimPieces sizes)
      ++ ((match init with | none => [] | some ps => strL " = " ++ render ps) ++ [';']))) := by
  cases init <;> simp [declPieces, initTailP, render_append, render, strL, sp, pp, Tok.text, P.text]

mutual
/-- **text level**: the text of a well-formed statement lexes to its intended tokens -/
theorem stmt_lex (sc : Scalar) : ∀ (s : Stmt), wfS sc s = true →
    ∃ text, fmtStmtC sc s = some text ∧ LN text (tokStmtC sc s)
  | .assign l r, hwf => by
    simp only [wfS, Bool.and_eq_true] at hwf
    obtain ⟨⟨hlv, hl⟩, hr⟩ := hwf
    exact ⟨_, fmtStmtC_assign sc l r, by simpa [tokStmtC] using ln_assign sc .assign (Or.inl rfl) l r hlv hl hr⟩
  | .addAssign l r, hwf => by
    simp only [wfS, Bool.and_eq_true] at hwf
    obtain ⟨⟨hlv, hl⟩, hr⟩ := hwf
    exact ⟨_, fmtStmtC_addAssign sc l r, by simpa [tokStmtC] using ln_assign sc .plusAssign (Or.inr rfl) l r hlv hl hr⟩
  | .vdecl n dt v, hwf => by
    simp only [wfS, Bool.and_eq_true, Option.isSome_iff_exists] at hwf
    obtain ⟨⟨hn, ⟨ty, hty⟩⟩, hv⟩ := hwf
    have hsp := (se_all sc (esize v) v (Nat.le_refl _) hv).sp
    have h := ln_decl (tyWords ty) n [] (some (piecesC sc v)) (typeWords_tokOK hty) hn
      (by intro ps hp; cases hp; exact qp_of_sp hsp)
    simp only [fmtStmtC, hty]
    refine ⟨_, rfl, ?_⟩
    · have e1 : strL ty ++ [' '] ++ strL n ++ strL " = " ++ fmtExprC sc v ++ strL ";\n"
          = render (declPieces (tyWords ty) n [] (some (piecesC sc v))) ++ ['\n'] := by
        simp [declPieces, initTailP, render_append, render_wordsPieces_ty hty, render, dimPieces, fmtExprC,
          strL, sp, pp, Tok.text, P.text]
      rw [e1]
      simpa [tokStmtC, hty, tyToks, dimToks, tokExprC, initTailT] using h
  | .adecl n dt sizes c vals, hwf => by
    simp only [wfS, Bool.and_eq_true, Option.isSome_iff_exists] at hwf
    obtain ⟨⟨hn, ⟨ty, hty⟩⟩, hvals⟩ := hwf
    cases vals with
    | none =>
      have h := ln_decl (tyWords ty) n sizes none (typeWords_tokOK hty) hn (by intro ps hp; cases hp)
      simp only [fmtStmtC, hty]
      refine ⟨_, rfl, ?_⟩
      · have e1 : strL ty ++ [' '] ++ strL n ++ sizes.flatMap (fun i => ['['] ++ natDigits i ++ [']']) ++ strL ";\n"
            = render (declPieces (tyWords ty) n sizes none) ++ ['\n'] := by
          simp [declPieces, initTailP, render_append, render_wordsPieces_ty hty, render, render_dimPieces,
            strL, pp, Tok.text, P.text]
        rw [e1]
        simpa [tokStmtC, hty, tyToks, dimToks, initTailT] using h
    | some vs =>
      have hqp : QP (initPieces (initShape sizes vs) vs) := by
        refine qp_initPieces sc _ vs (fun v hv => ?_)
        simp only [List.all_eq_true, Bool.and_eq_true] at hvals
        exact hvals v hv
      have hsc : ∀ w ∈ ["static", "const"], tokOK (Tok.id w) = true := by
        intro w hw; simp at hw; rcases hw with rfl | rfl <;> decide +kernel
      have h := ln_decl ((if c = true then ["static", "const"] else []) ++ tyWords ty) n sizes
        (some (initPieces (initShape sizes vs) vs))
        (by
          intro w hw
          simp only [List.mem_append] at hw
          rcases hw with hw | hw
          · split at hw
            · exact hsc w hw
            · cases hw
          · exact typeWords_tokOK hty w hw) hn
        (by intro ps hp; cases hp; exact hqp)
      simp only [fmtStmtC, hty]
      refine ⟨_, rfl, ?_⟩
      · have hst : render (wordsPieces ["static", "const"]) = strL "static const " := by decide +kernel
        have e0 : render (wordsPieces ((if c = true then ["static", "const"] else []) ++ tyWords ty))
            = (if c = true then strL "static const " else []) ++ strL ty ++ [' '] := by
          rw [render_wordsPieces_append, render_append, render_wordsPieces_ty hty]
          by_cases hc : c = true
          · simp only [hc, if_true, hst]; simp
          · simp only [hc]; simp [wordsPieces, render]
        have e1 : (if c = true then strL "static const " else []) ++ strL ty ++ [' '] ++ strL n
              ++ sizes.flatMap (fun i => ['['] ++ natDigits i ++ [']']) ++ strL " = "
              ++ initListC sc (initShape sizes vs) vs ++ strL ";\n"
            = render (declPieces ((if c = true then ["static", "const"] else []) ++ tyWords ty) n sizes
                (some (initPieces (initShape sizes vs) vs))) ++ ['\n'] := by
          rw [render_declPieces, e0, render_dimPieces]
          simp only [render_initPieces sc]
          simp [strL]
        rw [e1]
        by_cases hc : c = true <;> simpa [hc, tokStmtC, hty, tyToks, dimToks, toks_initPieces, initTailT] using h
  | .forRange i lo hi body, hwf => by
    simp only [wfS, Bool.and_eq_true] at hwf
    obtain ⟨⟨⟨hi', hlo⟩, hhi⟩, hbody⟩ := hwf
    obtain ⟨b, hb, hbl⟩ := stmts_lex sc body hbody
    have hslo := (se_all sc (esize lo) lo (Nat.le_refl _) hlo).sp
    have hshi := (se_all sc (esize hi) hi (Nat.le_refl _) hhi).sp
    have hH := ln_pieces (sep_for sc i lo hi (validIdent_tokOK hi') hslo hshi)
    have hclose : LN (strL "}\n") [.p .rbrace] := ⟨by decide +kernel, Or.inr ⟨['}'], by decide⟩⟩
    have hall := ln_append hH (ln_append (ln_indentLines hbl) hclose)
    simp only [fmtStmtC, hb]
    refine ⟨_, rfl, ?_⟩
    · have e1 : strL "for (int " ++ strL i ++ strL " = " ++ fmtExprC sc lo ++ strL "; " ++ strL i
            ++ strL " < " ++ fmtExprC sc hi ++ strL "; ++" ++ strL i ++ strL ")\n{\n" ++ indentLines b ++ strL "}\n"
          = render (forPieces sc i lo hi) ++ ['\n'] ++ (indentLines b ++ strL "}\n") := by
        simp [forPieces, render_append, render, fmtExprC, strL, sp, pp, Tok.text, P.text]
      rw [e1]
      simpa [tokStmtC, toks_forPieces] using hall
  | .comment t, _ => by
    refine ⟨_, rfl, ?_⟩
    have := ln_comment_lines [' '] (by decide) (splitLines [] (strL t)) (splitLines_no_nl _)
    simpa [tokStmtC, strL] using this
  | .block ss, hwf => by
    simp only [wfS] at hwf
    obtain ⟨b, hb, hbl⟩ := stmts_lex sc ss hwf
    exact ⟨b, by simp only [fmtStmtC, hb], by simpa [tokStmtC] using hbl⟩
  | .sect name decls stmts inp out an, hwf => by
    simp only [wfS, Bool.and_eq_true] at hwf
    obtain ⟨⟨⟨⟨hname, hinp⟩, hout⟩, hd⟩, hs⟩ := hwf
    obtain ⟨d, hd1, hd2⟩ := stmts_lex sc decls hd
    obtain ⟨b, hb1, hb2⟩ := stmts_lex sc stmts hs
    have hnm : '\n' ∉ strL name := by
      simpa only [strL, noNL, Bool.not_eq_true', List.contains_eq_mem, decide_eq_false_iff_not] using hname
    -- the comment lines
    have hbar : LN (strL "// ------------------------ \n") [] := by
      have := ln_comment_line (strL " ------------------------ ") [] (by decide +kernel) (by simp)
      simpa [strL] using this
    have hc1 := ln_comment_line (strL " Section: ") (strL name) (by decide +kernel) hnm
    have hc2 := ln_comment_line (strL " Inputs: ") (commaNames inp) (by decide +kernel) (noNL_joinC inp hinp)
    have hc3 := ln_comment_line (strL " Outputs: ") (commaNames out) (by decide +kernel) (noNL_joinC out hout)
    have hcom := ln_append hbar (ln_append hc1 (ln_append hc2 hc3))
    by_cases hemp : stmts.isEmpty = true
    · have hall := ln_append hcom (ln_append hd2 hbar)
      simp only [fmtStmtC, hd1, hb1, hemp, if_true]
      refine ⟨_, rfl, ?_⟩
      simpa [tokStmtC, hemp, strL] using hall
    · -- `{` + indented body + `}`
      have hopen : LN (strL "{\n") [.p .lbrace] := ⟨by decide +kernel, Or.inr ⟨['{'], by decide⟩⟩
      have hclose : LN (strL "}\n") [.p .rbrace] := ⟨by decide +kernel, Or.inr ⟨['}'], by decide⟩⟩
      have hbc : LN (strL "  " ++ dropLast2 (indentAfterNewlines b) ++ strL "}\n") (tokStmtsC sc stmts ++ [.p .rbrace]) := by
        rcases hb2.2 with hbe | ⟨a, hbe⟩
        · subst hbe
          have h0 : tokStmtsC sc stmts = [] := by rw [← hb2.1]; rfl
          rw [h0]
          exact ⟨by decide +kernel, Or.inr ⟨strL "  }", by decide +kernel⟩⟩
        · subst hbe
          rw [dropLast2_indent_nl]
          have h1 : LN (strL "  " ++ (indentAfterNewlines a ++ ['\n'])) (tokStmtsC sc stmts) := by
            refine ⟨?_, Or.inr ⟨strL "  " ++ indentAfterNewlines a, by simp⟩⟩
            rw [lexC_spaces (by decide), lexC_snoc_nl, lexC_indentAfterNewlines]
            rw [← hb2.1, lexC_snoc_nl]
          exact ln_append h1 hclose
      have hall := ln_append hcom (ln_append hd2 (ln_append hopen (ln_append hbc hbar)))
      simp only [fmtStmtC, hd1, hb1, hemp, Bool.false_eq_true, if_false]
      refine ⟨_, rfl, ?_⟩
      simpa [tokStmtC, hemp, strL] using hall
theorem stmts_lex (sc : Scalar) : ∀ (ss : List Stmt), wfSL sc ss = true →
    ∃ text, fmtStmtsC sc ss = some text ∧ LN text (tokStmtsC sc ss)
  | [], _ => ⟨[], rfl, ln_nil⟩
  | s :: ss, hwf => by
    simp only [wfSL, Bool.and_eq_true] at hwf
    obtain ⟨a, ha, hla⟩ := stmt_lex sc s hwf.1
    obtain ⟨b, hb, hlb⟩ := stmts_lex sc ss hwf.2
    exact ⟨a ++ b, by simp only [fmtStmtsC, ha, hb], by simpa [tokStmtsC] using ln_append hla hlb⟩
end

end Ffcx.LNodes.Fmt
