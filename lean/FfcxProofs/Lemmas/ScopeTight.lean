/-
The scope-aware semantics really is block structured: if every name bound in the store is visible
in the block stack before an accepted statement runs, the same holds afterwards — the variables of a
block that was left are gone from the store (erased by `leave`), and a shadowed outer variable is
back.  (`Tight` is the "bound ⇒ visible" half of "the visible names are exactly described by the
stack"; the other half fails only for names that are declared but never bound, like the parameter
`custom_data` which is not part of the store.)
-/
import FfcxProofs.Lemmas.ScopeSound

namespace Ffcx.LNodes
variable {R : Type} [Add R] [Sub R] [Mul R] [Div R] [Neg R] [IntCast R]

/-- `n` has a binding in at least one of the four name spaces -/
def Bound (σ : St R) (n : String) : Prop :=
  σ.iv.get n ≠ none ∨ σ.sv.get n ≠ none ∨ σ.ia.get n ≠ none ∨ σ.sa.get n ≠ none

def SavedBound (s : Saved R) : Prop := s.iv ≠ none ∨ s.sv ≠ none ∨ s.ia ≠ none ∨ s.sa ≠ none

/-- whatever a frame remembers as shadowed belongs to a name declared further out -/
def SavedOK : List (Frame R) → Prop
  | [] => True
  | F :: rest => (∀ s, s ∈ F → SavedBound s → declared (stackNames rest) s.name = true) ∧ SavedOK rest

structure Tight (b : BSt R) : Prop where
  bound : ∀ n, Bound b.σ n → declared (stackNames b.st) n = true
  saved : SavedOK b.st

omit [Add R] [Sub R] [Mul R] [Div R] [Neg R] [IntCast R] in
theorem Bound.of_same4 {m : String} {σ σ' : St R} (h : Same4 m σ σ') (hb : Bound σ' m) : Bound σ m := by
  unfold Bound at *
  rw [h.iv, h.sv, h.ia, h.sa] at hb
  exact hb

omit [Add R] [Sub R] [Mul R] [Div R] [Neg R] [IntCast R] in
theorem restoreFrame_bound (rest : Scopes) : ∀ (F : Frame R) (σ : St R),
    (∀ s, s ∈ F → SavedBound s → declared rest s.name = true) →
    (∀ m, Bound σ m → m ∈ frameNames F ∨ declared rest m = true) →
    ∀ m, Bound (restoreFrame σ F) m → declared rest m = true
  | [], σ, _, h2, m, hb => by
    rcases h2 m hb with h | h
    · simp [frameNames] at h
    · exact h
  | s :: F, σ, h1, h2, m, hb => by
    simp only [restoreFrame] at hb
    refine restoreFrame_bound rest F (restore1 σ s) (fun s' hs' => h1 s' (List.mem_cons_of_mem _ hs')) ?_ m hb
    intro m' hb'
    by_cases hm : s.name = m'
    · subst hm
      right
      apply h1 s (by simp)
      unfold Bound at hb'
      simpa [restore1, AList.get_put, SavedBound] using hb'
    · rcases h2 m' (Bound.of_same4 (restore1_same4 σ s m' hm) hb') with h | h
      · simp only [frameNames, List.map_cons, List.mem_cons] at h
        rcases h with h | h
        · exact absurd h.symm hm
        · exact Or.inl h
      · exact Or.inr h

omit [Add R] [Sub R] [Mul R] [Div R] [Neg R] [IntCast R] in
theorem Tight.enter {b : BSt R} (h : Tight b) : Tight (enter b) :=
  ⟨fun n hn => by simpa using h.bound n hn, ⟨fun s hs => by simp at hs, h.saved⟩⟩

omit [Add R] [Sub R] [Mul R] [Div R] [Neg R] [IntCast R] in
theorem Tight.leave {b : BSt R} (h : Tight b) : Tight (leave b) := by
  cases hst : b.st with
  | nil =>
    have : LNodes.leave b = b := by simp [LNodes.leave, hst]
    rw [this]; exact h
  | cons F rest =>
    have hl : LNodes.leave b = { σ := restoreFrame b.σ F, st := rest } := by simp [LNodes.leave, hst]
    rw [hl]
    have hs := h.saved
    rw [hst] at hs
    refine ⟨?_, hs.2⟩
    refine restoreFrame_bound (stackNames rest) F b.σ hs.1 ?_
    intro m hm
    have := h.bound m hm
    rw [hst, stackNames_cons, declared_cons, Bool.or_eq_true] at this
    rcases this with h' | h'
    · exact Or.inl (by simpa using h')
    · exact Or.inr h'

omit [Add R] [Sub R] [Mul R] [Div R] [Neg R] [IntCast R] in
/-- declaring `n` (kind `k`) with new store `σ'.only n k`, where `σ'` differs from the old store
    only at `n` -/
theorem Tight.decl {b : BSt R} (h : Tight b) {n : String} {st' : List (Frame R)}
    (hd : declareB b.st b.σ n = .ok st') (σ' : St R) (k : Kind)
    (hσ : ∀ m, n ≠ m → Same4 m b.σ σ') : Tight { σ := σ'.only n k, st := st' } := by
  have hdn := declareB_names b.st b.σ n
  rw [hd] at hdn
  have hdecl := fun m => declare_declared hdn m
  constructor
  · intro m hm
    by_cases hmn : n = m
    · subst hmn; exact (hdecl n).mpr (Or.inl rfl)
    · refine (hdecl m).mpr (Or.inr (h.bound m ?_))
      exact Bound.of_same4 (hσ m hmn) (Bound.of_same4 (only_same4 σ' n m k hmn) hm)
  · have hsb : SavedBound (saveOf b.σ n) → Bound b.σ n := fun hb => by
      simpa [SavedBound, saveOf, Bound] using hb
    cases hst : b.st with
    | nil =>
      simp only [hst, declareB, Except.ok.injEq] at hd
      subst hd
      refine ⟨?_, trivial⟩
      intro s hs hb
      simp only [List.mem_singleton] at hs
      subst hs
      have := h.bound n (hsb hb)
      simp [hst, stackNames, declared] at this
    | cons F rest =>
      have hs := h.saved
      rw [hst] at hs
      simp only [hst, declareB] at hd
      split at hd
      · simp at hd
      · rename_i hc
        simp only [Except.ok.injEq] at hd
        subst hd
        refine ⟨?_, hs.2⟩
        intro s hs' hb
        rcases List.mem_cons.mp hs' with e | e
        · subst e
          have := h.bound n (hsb hb)
          rw [hst, stackNames_cons, declared_cons, Bool.or_eq_true] at this
          rcases this with h' | h'
          · exact absurd h' hc
          · exact h'
        · exact hs.1 s e hb

omit [Add R] [Sub R] [Mul R] [Div R] [Neg R] in
theorem store_bound (x : Extra R) {σ σ' : St R} (lhs : Expr) (f : R → R)
    (hs : store x σ lhs f = .ok σ') : ∀ m, Bound σ' m → Bound σ m := by
  cases lhs <;> simp only [store] at hs
  case sym n dt =>
    split at hs
    · simp at hs
    · split at hs
      · simp at hs
      · rename_i v hv
        simp at hs; subst hs
        intro m hm
        by_cases hmn : n = m
        · subst hmn; exact Or.inr (Or.inl (by simp [hv]))
        · exact Bound.of_same4 (setSV_same4 σ n m _ hmn) hm
  case idx arr dt ix =>
    split at hs
    · simp at hs
    · split at hs
      · simp at hs
      · rename_i a k hres
        split at hs
        · simp at hs
        · simp at hs; subst hs
          intro m hm
          by_cases hmn : arr = m
          · subst hmn
            refine Or.inr (Or.inr (Or.inr ?_))
            intro hnone
            simp [resolve, hnone] at hres
          · exact Bound.of_same4 (setSA_same4 σ arr m _ hmn) hm
  all_goals simp at hs

theorem assign_bound (x : Extra R) {σ σ' : St R} (l r : Expr)
    (hs : exec x (.assign l r) σ = .ok σ' ∨ exec x (.addAssign l r) σ = .ok σ') :
    ∀ m, Bound σ' m → Bound σ m := by
  rcases hs with hs | hs <;> simp only [exec] at hs <;> split at hs
  · exact store_bound x l _ hs
  · simp at hs
  · exact store_bound x l _ hs
  · simp at hs

omit [Add R] [Sub R] [Mul R] [Div R] [Neg R] [IntCast R] in
theorem Tight.setIdx {b : BSt R} (h : Tight b) (i : String) (v : Int)
    (hi : declared (stackNames b.st) i = true) : Tight (b.setIdx i v) := by
  refine ⟨?_, h.saved⟩
  intro m hm
  by_cases hmi : i = m
  · subst hmi; exact hi
  · exact h.bound m (Bound.of_same4 (setIV_same4 b.σ i m v hmi)
      (Bound.of_same4 (only_same4 _ i m .ivar hmi) hm))

omit [Add R] [Sub R] [Mul R] [Div R] [Neg R] [IntCast R] in
theorem loopB_tight (body : BSt R → Except BErr (BSt R)) (i : String) (sc : Scopes) (fb : List String)
    (hb : ∀ b b', stackNames b.st = [] :: [i] :: sc → Tight b → body b = .ok b' →
      Tight b' ∧ stackNames b'.st = fb :: [i] :: sc) :
    ∀ (n : Nat) (lo : Int) (b b' : BSt R), stackNames b.st = [i] :: sc → Tight b →
      loopB body i lo n b = .ok b' → Tight b' ∧ stackNames b'.st = [i] :: sc
  | 0, _, b, b', hn, ht, h => by
    simp only [loopB, Except.ok.injEq] at h; subst h; exact ⟨ht, hn⟩
  | n + 1, lo, b, b', hn, ht, h => by
    simp only [loopB] at h
    cases hr : body (enter (b.setIdx i lo)) with
    | error e => simp [hr] at h
    | ok b1 =>
      simp only [hr] at h
      have hti : Tight (b.setIdx i lo) := ht.setIdx i lo (by rw [hn]; simp [declared])
      obtain ⟨ht1, hn1⟩ := hb _ b1 (by simp [hn]) hti.enter hr
      exact loopB_tight body i sc fb hb n (lo + 1) (leave b1) b' (by simp [stackNames_leave, hn1])
        ht1.leave h

mutual
theorem execB_tight (x : Extra R) : ∀ (s : Stmt) (sc sc' : Scopes) (b b' : BSt R),
    scopedS sc s = .ok sc' → stackNames b.st = sc → Tight b → execB x s b = .ok b' → Tight b'
  | .assign l r, sc, sc', b, b', _, _, ht, h => by
    simp only [execB] at h
    split at h
    · simp at h
    · cases he : exec x (.assign l r) b.σ with
      | error e => simp [he] at h
      | ok σ' =>
        simp only [he, Except.ok.injEq] at h; subst h
        exact ⟨fun n hn => ht.bound n (assign_bound x l r (Or.inl he) n hn), ht.saved⟩
  | .addAssign l r, sc, sc', b, b', _, _, ht, h => by
    simp only [execB] at h
    split at h
    · simp at h
    · cases he : exec x (.addAssign l r) b.σ with
      | error e => simp [he] at h
      | ok σ' =>
        simp only [he, Except.ok.injEq] at h; subst h
        exact ⟨fun n hn => ht.bound n (assign_bound x l r (Or.inr he) n hn), ht.saved⟩
  | .vdecl n dt v, sc, sc', b, b', _, _, ht, h => by
    simp only [execB] at h
    split at h
    · simp at h
    · cases hd : declareB b.st b.σ n with
      | error e => simp [hd] at h
      | ok st' =>
        simp only [hd] at h
        cases he : exec x (.vdecl n dt v) b.σ with
        | error e => simp [he] at h
        | ok σ' =>
          simp only [he, Except.ok.injEq] at h; subst h
          refine ht.decl hd σ' _ ?_
          intro m hm
          simp only [exec] at he
          split at he
          · split at he
            · simp at he; subst he; exact setIV_same4 _ n m _ hm
            · simp at he
          · split at he
            · simp at he; subst he; exact setSV_same4 _ n m _ hm
            · simp at he
  | .adecl n dt sizes c vals, sc, sc', b, b', _, _, ht, h => by
    simp only [execB] at h
    split at h
    · simp at h
    · cases hd : declareB b.st b.σ n with
      | error e => simp [hd] at h
      | ok st' =>
        simp only [hd] at h
        cases he : exec x (.adecl n dt sizes c vals) b.σ with
        | error e => simp [he] at h
        | ok σ' =>
          simp only [he, Except.ok.injEq] at h; subst h
          refine ht.decl hd σ' _ ?_
          intro m hm
          simp only [exec] at he
          split at he
          · simp at he
          · simp at he; subst he; exact setSA_same4 _ n m _ hm
  | .forRange i lo hi body, sc, sc', b, b', hs, hn, ht, h => by
    simp only [scopedS] at hs
    split at hs
    · simp at hs
    · cases hb : scopedL ([] :: [i] :: sc) body with
      | error e => simp [hb] at hs
      | ok scb =>
        obtain ⟨fb, rfl, _⟩ := scopedL_tail body [] ([i] :: sc) scb hb
        simp only [execB] at h
        split at h
        · simp at h
        · split at h
          · rename_i l hh _ _
            cases hl : loopB (fun s => execBL x body s) i l (hh - l).toNat
                (BSt.setIdx { σ := b.σ, st := [saveOf b.σ i] :: b.st } i l) with
            | error e => simp [hl] at h
            | ok b2 =>
              simp only [hl, Except.ok.injEq] at h; subst h
              have ht0 : Tight ({ σ := b.σ, st := [saveOf b.σ i] :: b.st } : BSt R) := by
                refine ⟨?_, ⟨?_, ht.saved⟩⟩
                · intro m hm
                  rw [stackNames_cons, declared_cons, ht.bound m hm, Bool.or_true]
                · intro s hs' hbd
                  simp only [List.mem_singleton] at hs'
                  subst hs'
                  exact ht.bound i (by simpa [SavedBound, saveOf, Bound] using hbd)
              have hn0 : stackNames ({ σ := b.σ, st := [saveOf b.σ i] :: b.st } : BSt R).st = [i] :: sc := by
                simp [frameNames, saveOf, hn]
              have ht1 := ht0.setIdx i l (by rw [hn0]; simp [declared])
              have := loopB_tight (fun s => execBL x body s) i sc fb
                (fun b0 b0' hn' ht' hr' =>
                  ⟨execBL_tight x body _ _ b0 b0' hb hn' ht' hr', by
                    have hsd := scopedL_sound x body _ _ b0 hb hn'
                    rw [hr'] at hsd; exact hsd⟩)
                (hh - l).toNat l (BSt.setIdx { σ := b.σ, st := [saveOf b.σ i] :: b.st } i l) b2
                (by simpa using hn0) ht1 hl
              exact this.1.leave
          · simp at h
  | .comment _, sc, sc', b, b', _, _, ht, h => by
    simp only [execB, Except.ok.injEq] at h; subst h; exact ht
  | .block ss, sc, sc', b, b', hs, hn, ht, h => by
    simp only [scopedS] at hs
    simp only [execB] at h
    exact execBL_tight x ss sc sc' b b' hs hn ht h
  | .sect _ decls stmts _ _ _, sc, sc', b, b', hs, hn, ht, h => by
    simp only [scopedS] at hs
    cases h1 : scopedL sc decls with
    | error e => simp [h1] at hs
    | ok sc1 =>
      simp only [h1] at hs
      cases h2 : scopedL ([] :: sc1) stmts with
      | error e => simp [h2] at hs
      | ok sc2 =>
        simp only [execB] at h
        cases hr : execBL x decls b with
        | error e => simp [hr] at h
        | ok b1 =>
          simp only [hr] at h
          cases hr2 : execBL x stmts (enter b1) with
          | error e => simp [hr2] at h
          | ok b2 =>
            simp only [hr2, Except.ok.injEq] at h; subst h
            have ht1 := execBL_tight x decls sc sc1 b b1 h1 hn ht hr
            have hn1 : stackNames b1.st = sc1 := by
              have hsd := scopedL_sound x decls sc sc1 b h1 hn
              rw [hr] at hsd; exact hsd
            exact (execBL_tight x stmts ([] :: sc1) sc2 (enter b1) b2 h2 (by simp [hn1]) ht1.enter hr2).leave

theorem execBL_tight (x : Extra R) : ∀ (ss : List Stmt) (sc sc' : Scopes) (b b' : BSt R),
    scopedL sc ss = .ok sc' → stackNames b.st = sc → Tight b → execBL x ss b = .ok b' → Tight b'
  | [], sc, sc', b, b', _, _, ht, h => by
    simp only [execBL, Except.ok.injEq] at h; subst h; exact ht
  | s :: ss, sc, sc', b, b', hs, hn, ht, h => by
    simp only [scopedL] at hs
    cases h1 : scopedS sc s with
    | error e => simp [h1] at hs
    | ok sc1 =>
      simp only [h1] at hs
      simp only [execBL] at h
      cases hr : execB x s b with
      | error e => simp [hr] at h
      | ok b1 =>
        simp only [hr] at h
        have ht1 := execB_tight x s sc sc1 b b1 h1 hn ht hr
        have hn1 : stackNames b1.st = sc1 := by
          have hsd := scopedS_sound x s sc sc1 b h1 hn
          rw [hr] at hsd; exact hsd
        exact execBL_tight x ss sc1 sc' b1 b' hs hn1 ht1 h
end

end Ffcx.LNodes
