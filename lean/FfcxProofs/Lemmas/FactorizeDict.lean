/-
Dictionaries of the factorisation model, finite-map sums, and the generic loop `buildDict`
(`for k in …: factors[k] = graph_insert(F, …)`).
-/
import FfcxProofs.Lemmas.FactorizeCtor

namespace Ffcx.IR
open Lean.Grind
set_option linter.unusedVariables false
set_option linter.unusedSimpArgs false

/-! ### dictionaries -/

def DictOK (F : Array Node) (d : Dict) : Prop := ∀ e ∈ d, e.2 < F.size

theorem DictOK.ext {F F' : Array Node} {d : Dict} (h : DictOK F d) (hext : Ext F F') : DictOK F' d :=
  fun e he => Nat.lt_of_lt_of_le (h e he) hext.size_le

theorem Dict.set_fresh (d : Dict) (k : Key) (v : Nat) (h : k ∉ d.keys) :
    d.set k v = d ++ [(k, v)] := by
  unfold Dict.set; rw [if_neg h]

theorem Dict.keys_append (d e : Dict) : Dict.keys (d ++ e) = d.keys ++ e.keys := by
  unfold Dict.keys; simp

theorem Dict.mem_keys (d : Dict) (k : Key) : k ∈ d.keys ↔ ∃ v, (k, v) ∈ d := by
  unfold Dict.keys; simp

theorem Dict.get_some (d : Dict) (k : Key) (v : Nat) (h : d.get k = some v) : (k, v) ∈ d := by
  unfold Dict.get at h
  induction d with
  | nil => simp at h
  | cons e d ih =>
    obtain ⟨k', v'⟩ := e
    rw [List.lookup_cons] at h
    by_cases hk : k == k'
    · simp [hk] at h
      have : k = k' := by simpa using hk
      subst this; subst h; simp
    · simp [hk] at h
      exact List.mem_cons_of_mem _ (ih h)

theorem Dict.get_none (d : Dict) (k : Key) (h : k ∉ d.keys) : d.get k = none := by
  unfold Dict.get
  induction d with
  | nil => rfl
  | cons e d ih =>
    obtain ⟨k', v'⟩ := e
    rw [List.lookup_cons]
    have h1 : k ≠ k' := by intro h'; apply h; simp [Dict.keys, h']
    have h2 : k ∉ Dict.keys d := by intro h'; apply h; simp [Dict.keys] at h' ⊢; right; exact h'
    have : (k == k') = false := by simpa using h1
    simp only [this]; exact ih h2

/-! ### dedup, sorting -/

theorem mem_dedup {α : Type} [DecidableEq α] (l : List α) (x : α) : x ∈ dedup l ↔ x ∈ l := by
  induction l with
  | nil => simp [dedup]
  | cons y l ih =>
    unfold dedup
    split
    · rename_i h; rw [ih]; constructor
      · intro h'; exact List.mem_cons_of_mem _ h'
      · intro h'; rcases List.mem_cons.mp h' with rfl | h'
        · exact h
        · exact h'
    · simp [ih]

theorem nodup_dedup {α : Type} [DecidableEq α] (l : List α) : (dedup l).Nodup := by
  induction l with
  | nil => simp [dedup]
  | cons y l ih =>
    unfold dedup
    split
    · exact ih
    · rename_i h
      rw [List.nodup_cons]; exact ⟨by rw [mem_dedup]; exact h, ih⟩

theorem sortKeys_perm (l : List Key) : (sortKeys l).Perm l := isort_perm _ _
theorem sortEntries_perm {α : Type} (l : List (Key × α)) : (sortEntries l).Perm l :=
  isort_perm _ _

section
variable {R : Type} [Field R] (ρ : Env R)

/-- `Σ_{(k,f) ∈ d} val F f · Π_{a ∈ k} look a` -/
def factSum (F : Array Node) (look : Nat → R) (d : Dict) : R :=
  lsum (fun e => val ρ F e.2 * keyProd look e.1) d

theorem factSum_ext {F F' : Array Node} (look : Nat → R) (d : Dict) (hext : Ext F F')
    (hd : DictOK F d) : factSum ρ F' look d = factSum ρ F look d := by
  unfold factSum
  apply lsum_congr
  intro e he
  rw [hext.val_eq ρ e.2 (hd e he)]

/-- sum over keys with lookup = sum over the entries (finite maps) -/
theorem lsum_lookup (d : Dict) (ks : List Key) (hks : ks.Nodup) (hd : d.keys.Nodup)
    (hsub : ∀ k ∈ d.keys, k ∈ ks) (h : Key → Nat → R) :
    lsum (fun k => match d.get k with | some f => h k f | none => 0) ks =
      lsum (fun e => h e.1 e.2) d := by
  induction d with
  | nil =>
    simp [Dict.get]
    exact lsum_zero ks
  | cons e d ih =>
    obtain ⟨k0, f0⟩ := e
    have hd' : (Dict.keys d).Nodup ∧ k0 ∉ Dict.keys d := by
      simp [Dict.keys] at hd ⊢; exact ⟨hd.2, hd.1⟩
    have hsub' : ∀ k ∈ Dict.keys d, k ∈ ks := by
      intro k hk; apply hsub; simp [Dict.keys] at hk ⊢; right; exact hk
    have hk0 : k0 ∈ ks := by apply hsub; simp [Dict.keys]
    have hpt : ∀ k ∈ ks, (match Dict.get ((k0, f0) :: d) k with | some f => h k f | none => 0) =
        (if k = k0 then h k0 f0 else 0) + (match Dict.get d k with | some f => h k f | none => 0) := by
      intro k _
      unfold Dict.get
      rw [List.lookup_cons]
      by_cases hk : k = k0
      · subst hk
        have : List.lookup k d = none := Dict.get_none d k hd'.2
        simp [this]; grind
      · have : (k == k0) = false := by simpa using hk
        simp [this, hk]; grind
    rw [lsum_congr _ _ ks hpt, lsum_add, lsum_ite_eq ks k0 _ hks hk0, ih hd'.1 hsub']
    simp

/-! ### the generic loop -/

theorem buildDict_sound {α : Type} (step : Array Node → α → Except FErr (Array Node × Nat))
    (F0 : Array Node) (g : α → R) (look : Nat → R) :
    ∀ (es : List (Key × α)) (F : Array Node) (d : Dict) (F' : Array Node) (d' : Dict),
      (∀ e ∈ es, ∀ F r, Ext F0 F → Closed F → step F e.2 = .ok r →
        Grows F r ∧ val ρ r.1 r.2 = g e.2) →
      (es.map (·.1)).Nodup → (∀ e ∈ es, e.1 ∉ d.keys) →
      Ext F0 F → Closed F → DictOK F d →
      buildDict step F es d = .ok (F', d') →
      Ext F F' ∧ Closed F' ∧ DictOK F' d' ∧ d'.keys = d.keys ++ es.map (·.1) ∧
        factSum ρ F' look d' = factSum ρ F look d + lsum (fun e => g e.2 * keyProd look e.1) es := by
  intro es
  induction es with
  | nil =>
    intro F d F' d' _ _ _ _ hc hd h
    simp [buildDict] at h
    obtain ⟨rfl, rfl⟩ := h
    refine ⟨Ext.refl _, hc, hd, by simp, ?_⟩
    simp; grind
  | cons e rest ih =>
    intro F d F' d' hstep hnd hfresh hext hc hd h
    obtain ⟨k, x⟩ := e
    unfold buildDict at h
    split at h
    · cases h
    · rename_i F1 i hs
      obtain ⟨⟨hx1, hc1, hi1⟩, hv⟩ := hstep (k, x) (by simp) F (F1, i) hext hc hs
      have hk : k ∉ d.keys := hfresh (k, x) (by simp)
      rw [Dict.set_fresh d k i hk] at h
      simp only [List.map_cons, List.nodup_cons] at hnd
      have hd1 : DictOK F1 (d ++ [(k, i)]) := by
        intro e he
        rcases List.mem_append.mp he with he | he
        · exact Nat.lt_of_lt_of_le (hd e he) hx1.size_le
        · simp at he; subst he; exact hi1
      have hfresh1 : ∀ e ∈ rest, e.1 ∉ Dict.keys (d ++ [(k, i)]) := by
        intro e he hmem
        rw [Dict.keys_append] at hmem
        rcases List.mem_append.mp hmem with hm | hm
        · exact hfresh e (List.mem_cons_of_mem _ he) hm
        · simp [Dict.keys] at hm
          apply hnd.1
          rw [← hm]; exact List.mem_map_of_mem he
      obtain ⟨hx2, hc2, hd2, hkeys, hsum⟩ := ih F1 (d ++ [(k, i)]) F' d'
        (fun e he => hstep e (List.mem_cons_of_mem _ he)) hnd.2 hfresh1 (hext.trans hx1) hc1 hd1 h
      refine ⟨hx1.trans hx2, hc2, hd2, ?_, ?_⟩
      · rw [hkeys, Dict.keys_append]; simp [Dict.keys]
      · rw [hsum]
        unfold factSum
        rw [lsum_append]
        have : lsum (fun e => val ρ F1 e.2 * keyProd look e.1) d =
            lsum (fun e => val ρ F e.2 * keyProd look e.1) d := factSum_ext ρ look d hx1 hd
        simp only [lsum_cons, lsum_nil]
        rw [this, hv]
        grind

end
end Ffcx.IR
