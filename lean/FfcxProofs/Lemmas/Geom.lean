/-
Helper lemmas of the geom cluster (C02, C03): list indexing of the permutation rows, `allclose`
entrywise, every permutation code as an affine map, code/group bijections (finite checks),
layout arithmetic, affinity of the reference-entity maps.
-/
import FfcxModel.IR.Perm
import FfcxModel.Geometry.RefCell

namespace Ffcx.Lemmas.Geom
open Ffcx.Perm Ffcx.Geometry
set_option linter.unusedSimpArgs false

/-- closes ring identities between points (pairs) of a commutative ring -/
macro "fin_ring" : tactic => `(tactic| first | grind | (constructor <;> grind))


/-! ### `permRows`: the row index of the nested loops -/

theorem permRows_succ {α : Type} (n nref : Nat) (f : Nat → Nat → α) :
    permRows (n + 1) nref f = permRows n nref f ++ (List.range nref).map (fun ref => f ref n) := by
  simp [permRows, List.range_succ, List.flatMap_append]

theorem permRows_length {α : Type} (n nref : Nat) (f : Nat → Nat → α) :
    (permRows n nref f).length = n * nref := by
  induction n with
  | zero => simp [permRows]
  | succ n ih => rw [permRows_succ, List.length_append, ih]; simp [Nat.succ_mul]

theorem permRows_get {α : Type} (n nref : Nat) (f : Nat → Nat → α) (rot ref : Nat)
    (hrot : rot < n) (href : ref < nref) :
    (permRows n nref f)[nref * rot + ref]? = some (f ref rot) := by
  induction n with
  | zero => omega
  | succ n ih =>
    rw [permRows_succ]
    by_cases h : rot < n
    · have hlt : nref * rot + ref < (permRows n nref f).length := by
        rw [permRows_length]
        calc nref * rot + ref < nref * rot + nref := by omega
          _ = nref * (rot + 1) := by rw [Nat.mul_succ]
          _ ≤ nref * n := Nat.mul_le_mul_left _ h
          _ = n * nref := Nat.mul_comm _ _
      rw [List.getElem?_append_left hlt]
      exact ih h
    · have hr : rot = n := by omega
      subst hr
      have hge : (permRows rot nref f).length ≤ nref * rot + ref := by
        rw [permRows_length, Nat.mul_comm]; omega
      rw [List.getElem?_append_right hge, permRows_length]
      have : nref * rot + ref - rot * nref = ref := by rw [Nat.mul_comm]; omega
      rw [this]
      simp [href]



/-! ### `all2` / `allClose` -/

theorem all2_length {α β : Type} (r : α → β → Bool) :
    ∀ (as : List α) (bs : List β), all2 r as bs = true → as.length = bs.length
  | [], [], _ => rfl
  | a :: as, b :: bs, h => by
    simp only [all2, Bool.and_eq_true] at h
    simp [all2_length r as bs h.2]
  | [], _ :: _, h => by simp [all2] at h
  | _ :: _, [], h => by simp [all2] at h

theorem all2_get {α β : Type} (r : α → β → Bool) (da : α) (db : β) :
    ∀ (as : List α) (bs : List β), all2 r as bs = true →
      ∀ i, i < bs.length → r (as.getD i da) (bs.getD i db) = true
  | [], [], _, i, hi => by simp at hi
  | a :: as, b :: bs, h, i, hi => by
    simp only [all2, Bool.and_eq_true] at h
    cases i with
    | zero => simpa using h.1
    | succ i =>
      have := all2_get r da db as bs h.2 i (by simpa using hi)
      simpa using this
  | [], _ :: _, h, _, _ => by simp [all2] at h
  | _ :: _, [], h, _, _ => by simp [all2] at h

/-- Entry-wise meaning of `np.allclose` on two `[entity][point][dof]` slices. -/
theorem allClose3_get (rtol atol : Rat) (a b : List (List (List Rat)))
    (h : allClose3 rtol atol a b = true) (e q d : Nat)
    (he : e < b.length) (hq : q < (b.getD e []).length) (hd : d < ((b.getD e []).getD q []).length) :
    isClose rtol atol (((a.getD e []).getD q []).getD d 0) (((b.getD e []).getD q []).getD d 0) = true := by
  have h1 := all2_get (allClose2 rtol atol) [] [] a b h e he
  have h2 := all2_get (allClose1 rtol atol) [] [] _ _ h1 q hq
  exact all2_get (isClose rtol atol) 0 0 _ _ h2 d hd

theorem isClose_iff (rtol atol a b : Rat) :
    isClose rtol atol a b = true ↔ absR (a - b) ≤ atol + rtol * absR b := by
  simp [isClose]



section CodeAffine
variable {R : Type} [Lean.Grind.CommRing R]

theorem sigma_interval : (List.range 2).map (sigmaOfCode .interval) = [[0, 1], [1, 0]] := by
  decide +kernel
theorem sigma_triangle : (List.range 6).map (sigmaOfCode .triangle) =
    [[0, 1, 2], [0, 2, 1], [2, 0, 1], [1, 0, 2], [1, 2, 0], [2, 1, 0]] := by decide +kernel
theorem sigma_quad : (List.range 8).map (sigmaOfCode .quadrilateral) =
    [[0, 1, 2, 3], [0, 2, 1, 3], [2, 0, 3, 1], [1, 0, 3, 2], [3, 2, 1, 0], [3, 1, 2, 0],
     [1, 3, 0, 2], [2, 3, 0, 1]] := by decide +kernel


/-- every interval code is the affine map of its vertex permutation, for all points -/
theorem interval_code_affine (N : Nat) (hN : N < 2) (x : R) :
    permuteInterval (codeRef N) x = affI (sigmaOfCode .interval N) x := by
  have h : N = 0 ∨ N = 1 := by omega
  rcases h with rfl | rfl
  · rw [show sigmaOfCode .interval 0 = [0, 1] by decide +kernel]
    simp [permuteInterval, codeRef, iter, reflectInterval, affI, vI] <;> fin_ring
  · rw [show sigmaOfCode .interval 1 = [1, 0] by decide +kernel]
    simp [permuteInterval, codeRef, iter, reflectInterval, affI, vI] <;> fin_ring

theorem triangle_code_affine (N : Nat) (hN : N < 6) (p : R × R) :
    permuteTriangle (codeRef N) (codeRot N) p = affT (sigmaOfCode .triangle N) p := by
  obtain ⟨x, y⟩ := p
  have h : N = 0 ∨ N = 1 ∨ N = 2 ∨ N = 3 ∨ N = 4 ∨ N = 5 := by omega
  rcases h with rfl | rfl | rfl | rfl | rfl | rfl
  · rw [show sigmaOfCode .triangle 0 = [0, 1, 2] by decide +kernel]
    simp [permuteTriangle, codeRef, codeRot, iter, rotateTriangle, reflect2, affT, vT] <;> fin_ring
  · rw [show sigmaOfCode .triangle 1 = [0, 2, 1] by decide +kernel]
    simp [permuteTriangle, codeRef, codeRot, iter, rotateTriangle, reflect2, affT, vT] <;> fin_ring
  · rw [show sigmaOfCode .triangle 2 = [2, 0, 1] by decide +kernel]
    simp [permuteTriangle, codeRef, codeRot, iter, rotateTriangle, reflect2, affT, vT] <;> fin_ring
  · rw [show sigmaOfCode .triangle 3 = [1, 0, 2] by decide +kernel]
    simp [permuteTriangle, codeRef, codeRot, iter, rotateTriangle, reflect2, affT, vT] <;> fin_ring
  · rw [show sigmaOfCode .triangle 4 = [1, 2, 0] by decide +kernel]
    simp [permuteTriangle, codeRef, codeRot, iter, rotateTriangle, reflect2, affT, vT] <;> fin_ring
  · rw [show sigmaOfCode .triangle 5 = [2, 1, 0] by decide +kernel]
    simp [permuteTriangle, codeRef, codeRot, iter, rotateTriangle, reflect2, affT, vT] <;> fin_ring

theorem quad_code_affine (N : Nat) (hN : N < 8) (p : R × R) :
    permuteQuad (codeRef N) (codeRot N) p = affQ (sigmaOfCode .quadrilateral N) p := by
  obtain ⟨x, y⟩ := p
  have h : N = 0 ∨ N = 1 ∨ N = 2 ∨ N = 3 ∨ N = 4 ∨ N = 5 ∨ N = 6 ∨ N = 7 := by omega
  rcases h with rfl | rfl | rfl | rfl | rfl | rfl | rfl | rfl
  · rw [show sigmaOfCode .quadrilateral 0 = [0, 1, 2, 3] by decide +kernel]
    simp [permuteQuad, codeRef, codeRot, iter, rotateQuad, reflect2, affQ, vQ] <;> fin_ring
  · rw [show sigmaOfCode .quadrilateral 1 = [0, 2, 1, 3] by decide +kernel]
    simp [permuteQuad, codeRef, codeRot, iter, rotateQuad, reflect2, affQ, vQ] <;> fin_ring
  · rw [show sigmaOfCode .quadrilateral 2 = [2, 0, 3, 1] by decide +kernel]
    simp [permuteQuad, codeRef, codeRot, iter, rotateQuad, reflect2, affQ, vQ] <;> fin_ring
  · rw [show sigmaOfCode .quadrilateral 3 = [1, 0, 3, 2] by decide +kernel]
    simp [permuteQuad, codeRef, codeRot, iter, rotateQuad, reflect2, affQ, vQ] <;> fin_ring
  · rw [show sigmaOfCode .quadrilateral 4 = [3, 2, 1, 0] by decide +kernel]
    simp [permuteQuad, codeRef, codeRot, iter, rotateQuad, reflect2, affQ, vQ] <;> fin_ring
  · rw [show sigmaOfCode .quadrilateral 5 = [3, 1, 2, 0] by decide +kernel]
    simp [permuteQuad, codeRef, codeRot, iter, rotateQuad, reflect2, affQ, vQ] <;> fin_ring
  · rw [show sigmaOfCode .quadrilateral 6 = [1, 3, 0, 2] by decide +kernel]
    simp [permuteQuad, codeRef, codeRot, iter, rotateQuad, reflect2, affQ, vQ] <;> fin_ring
  · rw [show sigmaOfCode .quadrilateral 7 = [2, 3, 0, 1] by decide +kernel]
    simp [permuteQuad, codeRef, codeRot, iter, rotateQuad, reflect2, affQ, vQ] <;> fin_ring

end CodeAffine


/-! ### Codes ↔ group elements (finite checks) -/

/-- `N` and `σ` agree on the reference vertices (over `Rat`) -/
def agreesI (N : Nat) (σ : List Nat) : Bool :=
  (List.range 2).all fun i => decide (permuteInterval (R := Rat) (codeRef N) (vI i) = affI σ (vI i))
def agreesT (N : Nat) (σ : List Nat) : Bool :=
  (List.range 3).all fun i =>
    decide (permuteTriangle (R := Rat) (codeRef N) (codeRot N) (vT i) = affT σ (vT i))
def agreesQ (N : Nat) (σ : List Nat) : Bool :=
  (List.range 4).all fun i =>
    decide (permuteQuad (R := Rat) (codeRef N) (codeRot N) (vQ i) = affQ σ (vQ i))

/-- code ↦ σ is a bijection from `[0, n)` onto the group `G`, and two codes agreeing with the same
σ on the vertices are equal. -/
def codesBijective (n : Nat) (G : List (List Nat)) (sig : Nat → List Nat)
    (agrees : Nat → List Nat → Bool) : Bool :=
  G.length == n
  && (List.range n).all (fun N => G.contains (sig N) && agrees N (sig N))
  && G.all (fun σ => ((List.range n).filter (fun N => sig N == σ)).length == 1)
  && G.all (fun σ => (List.range n).all fun N => (List.range n).all fun N' =>
       !(agrees N σ && agrees N' σ) || N == N')

theorem bij_interval : codesBijective 2 S2 (sigmaOfCode .interval) agreesI = true := by
  decide +kernel
theorem bij_triangle : codesBijective 6 S3 (sigmaOfCode .triangle) agreesT = true := by
  decide +kernel
theorem bij_quad : codesBijective 8 D4 (sigmaOfCode .quadrilateral) agreesQ = true := by
  decide +kernel

theorem D4_eq : D4 = [[0, 1, 2, 3], [0, 2, 1, 3], [2, 0, 3, 1], [2, 3, 0, 1], [1, 0, 3, 2],
    [1, 3, 0, 2], [3, 1, 2, 0], [3, 2, 1, 0]] := by decide +kernel

theorem codesBijective_spec {n : Nat} {G : List (List Nat)} {sig : Nat → List Nat}
    {agrees : Nat → List Nat → Bool} (h : codesBijective n G sig agrees = true) :
    G.length = n ∧ (∀ N, N < n → sig N ∈ G) ∧ (∀ σ, σ ∈ G → ∃ N, N < n ∧ sig N = σ) ∧
    (∀ σ, σ ∈ G → ∀ N N', N < n → N' < n → agrees N σ = true → agrees N' σ = true → N = N') := by
  simp only [codesBijective, Bool.and_eq_true, List.all_eq_true, List.mem_range, beq_iff_eq,
    Bool.or_eq_true, Bool.not_eq_true', Bool.and_eq_false_iff, List.contains_iff_mem] at h
  obtain ⟨⟨⟨h1, h2⟩, h3⟩, h4⟩ := h
  refine ⟨h1, fun N hN => (h2 N hN).1, ?_, ?_⟩
  · intro σ hσ
    have := h3 σ hσ
    match hf : (List.range n).filter (fun N => sig N == σ) with
    | [] => simp [hf] at this
    | N :: _ =>
      have hm : N ∈ (List.range n).filter (fun N => sig N == σ) := by simp [hf]
      simp only [List.mem_filter, List.mem_range, beq_iff_eq] at hm
      exact ⟨N, hm.1, hm.2⟩
  · intro σ hσ N N' hN hN' ha ha'
    rcases h4 σ hσ N hN N' hN' with h | h
    · rcases h with h | h <;> simp_all
    · exact h


/-! ### Aligning codes: the code that undoes a vertex relabelling -/

/-- inverse of the vertex permutation of code `N` -/
def invSigmaOfCode (t : FacetType) (N : Nat) : List Nat :=
  let s := sigmaOfCode t N
  (List.range s.length).map (fun j => s.idxOf j)

section Align
variable {R : Type} [Lean.Grind.CommRing R]

theorem interval_code_align (N : Nat) (hN : N < 2) (x : R) :
    affI (invSigmaOfCode .interval N) (permuteInterval (codeRef N) x) = x := by
  have h : N = 0 ∨ N = 1 := by omega
  rcases h with rfl | rfl
  · rw [show invSigmaOfCode .interval 0 = [0, 1] by decide +kernel]
    simp [permuteInterval, codeRef, iter, reflectInterval, affI, vI] <;> fin_ring
  · rw [show invSigmaOfCode .interval 1 = [1, 0] by decide +kernel]
    simp [permuteInterval, codeRef, iter, reflectInterval, affI, vI] <;> fin_ring

theorem triangle_code_align (N : Nat) (hN : N < 6) (p : R × R) :
    affT (invSigmaOfCode .triangle N) (permuteTriangle (codeRef N) (codeRot N) p) = p := by
  obtain ⟨x, y⟩ := p
  have h : N = 0 ∨ N = 1 ∨ N = 2 ∨ N = 3 ∨ N = 4 ∨ N = 5 := by omega
  rcases h with rfl | rfl | rfl | rfl | rfl | rfl
  · rw [show invSigmaOfCode .triangle 0 = [0, 1, 2] by decide +kernel]
    simp [permuteTriangle, codeRef, codeRot, iter, rotateTriangle, reflect2, affT, vT] <;> fin_ring
  · rw [show invSigmaOfCode .triangle 1 = [0, 2, 1] by decide +kernel]
    simp [permuteTriangle, codeRef, codeRot, iter, rotateTriangle, reflect2, affT, vT] <;> fin_ring
  · rw [show invSigmaOfCode .triangle 2 = [1, 2, 0] by decide +kernel]
    simp [permuteTriangle, codeRef, codeRot, iter, rotateTriangle, reflect2, affT, vT] <;> fin_ring
  · rw [show invSigmaOfCode .triangle 3 = [1, 0, 2] by decide +kernel]
    simp [permuteTriangle, codeRef, codeRot, iter, rotateTriangle, reflect2, affT, vT] <;> fin_ring
  · rw [show invSigmaOfCode .triangle 4 = [2, 0, 1] by decide +kernel]
    simp [permuteTriangle, codeRef, codeRot, iter, rotateTriangle, reflect2, affT, vT] <;> fin_ring
  · rw [show invSigmaOfCode .triangle 5 = [2, 1, 0] by decide +kernel]
    simp [permuteTriangle, codeRef, codeRot, iter, rotateTriangle, reflect2, affT, vT] <;> fin_ring

theorem quad_code_align (N : Nat) (hN : N < 8) (p : R × R) :
    affQ (invSigmaOfCode .quadrilateral N) (permuteQuad (codeRef N) (codeRot N) p) = p := by
  obtain ⟨x, y⟩ := p
  have h : N = 0 ∨ N = 1 ∨ N = 2 ∨ N = 3 ∨ N = 4 ∨ N = 5 ∨ N = 6 ∨ N = 7 := by omega
  rcases h with rfl | rfl | rfl | rfl | rfl | rfl | rfl | rfl
  · rw [show invSigmaOfCode .quadrilateral 0 = [0, 1, 2, 3] by decide +kernel]
    simp [permuteQuad, codeRef, codeRot, iter, rotateQuad, reflect2, affQ, vQ] <;> fin_ring
  · rw [show invSigmaOfCode .quadrilateral 1 = [0, 2, 1, 3] by decide +kernel]
    simp [permuteQuad, codeRef, codeRot, iter, rotateQuad, reflect2, affQ, vQ] <;> fin_ring
  · rw [show invSigmaOfCode .quadrilateral 2 = [1, 3, 0, 2] by decide +kernel]
    simp [permuteQuad, codeRef, codeRot, iter, rotateQuad, reflect2, affQ, vQ] <;> fin_ring
  · rw [show invSigmaOfCode .quadrilateral 3 = [1, 0, 3, 2] by decide +kernel]
    simp [permuteQuad, codeRef, codeRot, iter, rotateQuad, reflect2, affQ, vQ] <;> fin_ring
  · rw [show invSigmaOfCode .quadrilateral 4 = [3, 2, 1, 0] by decide +kernel]
    simp [permuteQuad, codeRef, codeRot, iter, rotateQuad, reflect2, affQ, vQ] <;> fin_ring
  · rw [show invSigmaOfCode .quadrilateral 5 = [3, 1, 2, 0] by decide +kernel]
    simp [permuteQuad, codeRef, codeRot, iter, rotateQuad, reflect2, affQ, vQ] <;> fin_ring
  · rw [show invSigmaOfCode .quadrilateral 6 = [2, 0, 3, 1] by decide +kernel]
    simp [permuteQuad, codeRef, codeRot, iter, rotateQuad, reflect2, affQ, vQ] <;> fin_ring
  · rw [show invSigmaOfCode .quadrilateral 7 = [2, 3, 0, 1] by decide +kernel]
    simp [permuteQuad, codeRef, codeRot, iter, rotateQuad, reflect2, affQ, vQ] <;> fin_ring

end Align

def alignsI (N : Nat) (τ : List Nat) : Bool :=
  (List.range 2).all fun i =>
    decide (affI τ (permuteInterval (R := Rat) (codeRef N) (vI i)) = vI i)
def alignsT (N : Nat) (τ : List Nat) : Bool :=
  (List.range 3).all fun i =>
    decide (affT τ (permuteTriangle (R := Rat) (codeRef N) (codeRot N) (vT i)) = vT i)
def alignsQ (N : Nat) (τ : List Nat) : Bool :=
  (List.range 4).all fun i =>
    decide (affQ τ (permuteQuad (R := Rat) (codeRef N) (codeRot N) (vQ i)) = vQ i)

theorem align_bij_interval : codesBijective 2 S2 (invSigmaOfCode .interval) alignsI = true := by
  decide +kernel
theorem align_bij_triangle : codesBijective 6 S3 (invSigmaOfCode .triangle) alignsT = true := by
  decide +kernel
theorem align_bij_quad : codesBijective 8 D4 (invSigmaOfCode .quadrilateral) alignsQ = true := by
  decide +kernel


/-! ### The reference-entity maps are affine -/

section Affine
variable {R : Type} [Lean.Grind.CommRing R]

/-- affine combination `t·p + (1-t)·q`, componentwise -/
def mix (t : R) (p q : List R) : List R := List.zipWith (fun a b => t * a + (1 - t) * b) p q

theorem dotEdges_mix (v0 t : R) : ∀ (vs p q : List R), p.length = q.length →
    dotEdges v0 vs (mix t p q) = t * dotEdges v0 vs p + (1 - t) * dotEdges v0 vs q
  | [], p, q, _ => by
    cases p <;> cases q <;> simp [dotEdges, mix] <;> grind
  | v :: vs, [], [], _ => by simp [dotEdges, mix]; grind
  | v :: vs, [], _ :: _, h => by simp at h
  | v :: vs, _ :: _, [], h => by simp at h
  | v :: vs, x :: p, y :: q, h => by
    have ih := dotEdges_mix v0 t vs p q (by simpa using h)
    simp only [mix, List.zipWith_cons_cons, dotEdges] at ih ⊢
    rw [ih]; grind

theorem mapComp_mix (vc : List R) (t : R) (p q : List R) (h : p.length = q.length) :
    mapComp vc (mix t p q) = t * mapComp vc p + (1 - t) * mapComp vc q := by
  cases vc with
  | nil => simp [mapComp]; grind
  | cons v0 vs => simp only [mapComp, dotEdges_mix v0 t vs p q h]; grind

/-- `map_facet_points` / `map_edge_points` commute with affine combinations of points, for any
vertex coordinates: the map of any entity of any cell is affine. -/
theorem mapEntityPoint_mix (gdim : Nat) (verts : List (List R)) (t : R) (p q : List R)
    (h : p.length = q.length) :
    mapEntityPoint gdim verts (mix t p q) =
      mix t (mapEntityPoint gdim verts p) (mapEntityPoint gdim verts q) := by
  simp only [mapEntityPoint, mix, List.zipWith_map_left, List.zipWith_map_right, List.zipWith_self]
  apply List.map_congr_left
  intro c _
  exact mapComp_mix _ t p q h

end Affine

/-! ### Layout arithmetic -/

theorem pair_inj {M a b a' b' : Nat} (hb : b < M) (hb' : b' < M) (h : a * M + b = a' * M + b') :
    a = a' ∧ b = b' := by
  have key : ∀ {a b a' b' : Nat}, b < M → b' < M → a * M + b = a' * M + b' → ¬ a < a' := by
    intro a b a' b' hb _ h hlt
    have h1 : (a + 1) * M ≤ a' * M := Nat.mul_le_mul_right M hlt
    rw [Nat.add_mul] at h1
    omega
  have h1 := key hb hb' h
  have h2 := key hb' hb h.symm
  have : a = a' := by omega
  subst this
  exact ⟨rfl, by omega⟩

theorem pair_lt {M K a b : Nat} (ha : a < K) (hb : b < M) : a * M + b < K * M := by
  have h1 : (a + 1) * M ≤ K * M := Nat.mul_le_mul_right M ha
  rw [Nat.add_mul] at h1
  omega

theorem pair_surj {M K k : Nat} (hk : k < K * M) : ∃ a b, a < K ∧ b < M ∧ k = a * M + b := by
  have hM : 0 < M := by
    cases M with
    | zero => simp at hk
    | succ M => omega
  refine ⟨k / M, k % M, ?_, Nat.mod_lt _ hM, ?_⟩
  · exact Nat.div_lt_of_lt_mul (by rw [Nat.mul_comm]; exact hk)
  · rw [Nat.mul_comm]; exact (Nat.div_add_mod k M).symm

/-- `r*n + i` with `r < 2`, `i < n` enumerates `[0, 2n)` bijectively. -/
theorem side_lt {n r i : Nat} (hr : r < 2) (hi : i < n) : r * n + i < 2 * n := pair_lt hr hi
theorem side_inj {n r i r' i' : Nat} (hi : i < n) (hi' : i' < n) (h : r * n + i = r' * n + i') :
    r = r' ∧ i = i' := pair_inj hi hi' h
theorem side_surj {n k : Nat} (hk : k < 2 * n) : ∃ r i, r < 2 ∧ i < n ∧ k = r * n + i :=
  pair_surj hk

theorem aIndex_lt {n m ri rj i j : Nat} (hri : ri < 2) (hrj : rj < 2) (hi : i < n) (hj : j < m) :
    aIndex n m ri rj i j < 4 * n * m := by
  have h := pair_lt (side_lt hri hi) (side_lt hrj hj)
  have e : 2 * n * (2 * m) = 4 * n * m := by
    rw [Nat.mul_mul_mul_comm]; simp [Nat.mul_assoc]
  simpa [aIndex, e] using h

theorem aIndex_inj {n m ri rj i j ri' rj' i' j' : Nat} (hrj : rj < 2) (hrj' : rj' < 2)
    (hi : i < n) (hj : j < m) (hi' : i' < n) (hj' : j' < m)
    (h : aIndex n m ri rj i j = aIndex n m ri' rj' i' j') :
    ri = ri' ∧ rj = rj' ∧ i = i' ∧ j = j' := by
  obtain ⟨h1, h2⟩ := pair_inj (side_lt hrj hj) (side_lt hrj' hj') h
  obtain ⟨h3, h4⟩ := side_inj hi hi' h1
  obtain ⟨h5, h6⟩ := side_inj hj hj' h2
  exact ⟨h3, h5, h4, h6⟩

theorem aIndex_surj {n m k : Nat} (hk : k < 4 * n * m) :
    ∃ ri rj i j, ri < 2 ∧ rj < 2 ∧ i < n ∧ j < m ∧ k = aIndex n m ri rj i j := by
  have e : 2 * n * (2 * m) = 4 * n * m := by
    rw [Nat.mul_mul_mul_comm]; simp [Nat.mul_assoc]
  obtain ⟨a, b, ha, hb, hk'⟩ := pair_surj (K := 2 * n) (M := 2 * m) (by rw [e]; exact hk)
  obtain ⟨ri, i, hri, hi, rfl⟩ := side_surj ha
  obtain ⟨rj, j, hrj, hj, rfl⟩ := side_surj hb
  exact ⟨ri, rj, i, j, hri, hrj, hi, hj, hk'⟩

/-! `w` layout -/

theorem wIndex_zero (d : Nat) (ds : List Nat) (r i : Nat) : wIndex (d :: ds) 0 r i = r * d + i := by
  simp [wIndex, wOffset]

theorem wIndex_succ (d : Nat) (ds : List Nat) (k r i : Nat) :
    wIndex (d :: ds) (k + 1) r i = 2 * d + wIndex ds k r i := by
  simp [wIndex, wOffset, Nat.add_assoc]

theorem wIndex_lt : ∀ (dims : List Nat) (k r i : Nat), k < dims.length → r < 2 →
    i < dims.getD k 0 → wIndex dims k r i < 2 * sumDims dims
  | [], k, _, _, hk, _, _ => by simp at hk
  | d :: ds, 0, r, i, _, hr, hi => by
    rw [wIndex_zero]; have := side_lt hr (by simpa using hi : i < d); simp only [sumDims]; omega
  | d :: ds, k + 1, r, i, hk, hr, hi => by
    rw [wIndex_succ]
    have := wIndex_lt ds k r i (by simpa using hk) hr (by simpa using hi)
    simp only [sumDims]; omega

theorem wIndex_inj : ∀ (dims : List Nat) (k r i k' r' i' : Nat), k < dims.length → k' < dims.length →
    r < 2 → r' < 2 → i < dims.getD k 0 → i' < dims.getD k' 0 →
    wIndex dims k r i = wIndex dims k' r' i' → k = k' ∧ r = r' ∧ i = i'
  | [], k, _, _, _, _, _, hk, _, _, _, _, _, _ => by simp at hk
  | d :: ds, 0, r, i, 0, r', i', _, _, _, _, hi, hi', h => by
    rw [wIndex_zero, wIndex_zero] at h
    obtain ⟨h1, h2⟩ := side_inj (by simpa using hi : i < d) (by simpa using hi' : i' < d) h
    exact ⟨rfl, h1, h2⟩
  | d :: ds, 0, r, i, k' + 1, r', i', _, _, hr, _, hi, _, h => by
    rw [wIndex_zero, wIndex_succ] at h
    have := side_lt hr (by simpa using hi : i < d); omega
  | d :: ds, k + 1, r, i, 0, r', i', _, _, _, hr', _, hi', h => by
    rw [wIndex_zero, wIndex_succ] at h
    have := side_lt hr' (by simpa using hi' : i' < d); omega
  | d :: ds, k + 1, r, i, k' + 1, r', i', hk, hk', hr, hr', hi, hi', h => by
    rw [wIndex_succ, wIndex_succ] at h
    obtain ⟨h1, h2, h3⟩ := wIndex_inj ds k r i k' r' i' (by simpa using hk) (by simpa using hk')
      hr hr' (by simpa using hi) (by simpa using hi') (by omega)
    exact ⟨by omega, h2, h3⟩

theorem wIndex_surj : ∀ (dims : List Nat) (x : Nat), x < 2 * sumDims dims →
    ∃ k r i, k < dims.length ∧ r < 2 ∧ i < dims.getD k 0 ∧ x = wIndex dims k r i
  | [], x, hx => by simp [sumDims] at hx
  | d :: ds, x, hx => by
    by_cases h : x < 2 * d
    · obtain ⟨r, i, hr, hi, rfl⟩ := side_surj h
      exact ⟨0, r, i, by simp, hr, by simpa using hi, by rw [wIndex_zero]⟩
    · obtain ⟨k, r, i, hk, hr, hi, hx'⟩ := wIndex_surj ds (x - 2 * d) (by simp only [sumDims] at hx; omega)
      exact ⟨k + 1, r, i, by simpa using hk, hr, by simpa using hi, by rw [wIndex_succ]; omega⟩

end Ffcx.Lemmas.Geom
