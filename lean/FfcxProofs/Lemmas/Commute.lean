/-
Commutation of statements with disjoint name-level footprints.

If `s₂` never writes a name `s₁` mentions and vice versa, then running `s₁; s₂` and `s₂; s₁` from the
same state either both fail or both succeed in extensionally equal states.  This is the fact behind
section fusion (statements hopping over other sections), loop fusion, and the statement-granularity
interleaving theorem of C07.
-/
import FfcxProofs.Lemmas.AgreeOnExec
import FfcxProofs.Lemmas.Unwritten

namespace Ffcx.LNodes
variable {R : Type} [Add R] [Sub R] [Mul R] [Div R] [Neg R] [IntCast R] (x : Extra R)

/-- extensional equality of states -/
def StEq (σ τ : St R) : Prop := AgreeOn (fun _ => True) σ τ

mutual
theorem neverWritten_of_not_mentions (n : String) : ∀ (s : Stmt), mentionsS n s = false →
    neverWritten n s = true
  | .assign l r, h => by
    simp [mentionsS] at h
    cases l <;> simp_all [neverWritten, mentionsE]
  | .addAssign l r, h => by
    simp [mentionsS] at h
    cases l <;> simp_all [neverWritten, mentionsE]
  | .vdecl m dt v, h => by simp [mentionsS] at h; simp [neverWritten, h.1]
  | .adecl m dt sizes c vals, h => by simp [mentionsS] at h; simp [neverWritten, h.1]
  | .forRange i lo hi body, h => by
    simp [mentionsS] at h
    simp [neverWritten, h.1.1.1, neverWrittenL_of_not_mentions n body h.2]
  | .comment _, _ => by simp [neverWritten]
  | .block ss, h => by
    simp [mentionsS] at h; simp [neverWritten, neverWrittenL_of_not_mentions n ss h]
  | .sect _ decls stmts _ _ _, h => by
    simp [mentionsS] at h
    simp [neverWritten, neverWrittenL_of_not_mentions n decls h.1, neverWrittenL_of_not_mentions n stmts h.2]

theorem neverWrittenL_of_not_mentions (n : String) : ∀ (ss : List Stmt), mentionsSL n ss = false →
    neverWrittenL n ss = true
  | [], _ => by simp [neverWrittenL]
  | s :: ss, h => by
    simp [mentionsSL] at h
    simp [neverWrittenL, neverWritten_of_not_mentions n s h.1, neverWrittenL_of_not_mentions n ss h.2]
end

/-- a successful run of a statement changes nothing at the names it never writes -/
theorem agreeOn_of_unwritten (s : Stmt) (σ σ' : St R) (P : String → Prop)
    (hP : ∀ n, P n → neverWritten n s = true) (h : exec x s σ = .ok σ') : AgreeOn P σ σ' := by
  refine ⟨?_, ?_, ?_, ?_⟩ <;> intro n hn
  · exact (exec_sameAt x n s σ σ' (hP n hn) h).iv.symm
  · exact (exec_sameAt x n s σ σ' (hP n hn) h).sv.symm
  · rw [(exec_sameAt x n s σ σ' (hP n hn) h).ia]
  · exact (exec_sameAt x n s σ σ' (hP n hn) h).sa.symm

theorem AgreeOn.symm {P : String → Prop} {σ τ : St R} (h : AgreeOn P σ τ) : AgreeOn P τ σ :=
  ⟨fun n hn => (h.iv n hn).symm, fun n hn => (h.sv n hn).symm, fun n hn => (h.ia n hn).symm,
   fun n hn => (h.sa n hn).symm⟩

/-- **commutation**: footprints disjoint at name level ⇒ the two orders agree -/
theorem exec_commute (s₁ s₂ : Stmt)
    (h12 : ∀ n, mentionsS n s₁ = true → neverWritten n s₂ = true)
    (h21 : ∀ n, mentionsS n s₂ = true → neverWritten n s₁ = true) (σ : St R) :
    match (exec x s₁ σ).bind (exec x s₂), (exec x s₂ σ).bind (exec x s₁) with
    | .ok a, .ok b => StEq a b
    | .error _, .error _ => True
    | _, _ => False := by
  -- the four single runs
  let M₁ : String → Prop := fun n => mentionsS n s₁ = true
  let M₂ : String → Prop := fun n => mentionsS n s₂ = true
  cases e1 : exec x s₁ σ with
  | error err1 =>
    -- s₁ fails on σ; in the other order s₁ runs on σ₂ which agrees with σ on M₁, so it fails too
    cases e2 : exec x s₂ σ with
    | error err2 => simp [Except.bind]
    | ok σ₂ =>
      have hag : AgreeOn M₁ σ σ₂ := agreeOn_of_unwritten x s₂ σ σ₂ M₁ h12 e2
      have := exec_agreeOn x s₁ σ σ₂ (fun n hn => hn) hag
      rw [e1] at this
      cases e3 : exec x s₁ σ₂ with
      | error _ => simp [Except.bind, e3]
      | ok _ => simp [e3, RelResP] at this
  | ok σ₁ =>
    have hag2 : AgreeOn M₂ σ σ₁ := agreeOn_of_unwritten x s₁ σ σ₁ M₂ h21 e1
    have r2 := exec_agreeOn x s₂ σ σ₁ (fun n hn => hn) hag2
    cases e2 : exec x s₂ σ with
    | error err2 =>
      rw [e2] at r2
      cases e4 : exec x s₂ σ₁ with
      | error _ => simp [Except.bind, e4]
      | ok _ => simp [e4, RelResP] at r2
    | ok σ₂ =>
      rw [e2] at r2
      cases e4 : exec x s₂ σ₁ with
      | error _ => simp [e4, RelResP] at r2
      | ok σA =>
        simp only [e4, RelResP] at r2          -- AgreeOn M₂ σ₂ σA
        have hag1 : AgreeOn M₁ σ σ₂ := agreeOn_of_unwritten x s₂ σ σ₂ M₁ h12 e2
        have r1 := exec_agreeOn x s₁ σ σ₂ (fun n hn => hn) hag1
        rw [e1] at r1
        cases e3 : exec x s₁ σ₂ with
        | error _ => simp [e3, RelResP] at r1
        | ok σB =>
          simp only [e3, RelResP] at r1        -- AgreeOn M₁ σ₁ σB
          simp only [Except.bind, e4, e3]
          -- pointwise comparison of σA and σB
          have key : ∀ n,
              σA.iv.get n = σB.iv.get n ∧ σA.sv.get n = σB.sv.get n ∧
              σA.ia.get n = σB.ia.get n ∧ σA.sa.get n = σB.sa.get n := by
            intro n
            by_cases hm1 : mentionsS n s₁ = true
            · -- n ∈ M₁: s₂ does not write n
              have hA := exec_sameAt x n s₂ σ₁ σA (h12 n hm1) e4
              refine ⟨?_, ?_, ?_, ?_⟩
              · rw [hA.iv]; exact r1.iv n hm1
              · rw [hA.sv]; exact r1.sv n hm1
              · rw [hA.ia]; exact r1.ia n hm1
              · rw [hA.sa]; exact r1.sa n hm1
            · have hm1' : mentionsS n s₁ = false := by simpa using hm1
              have hnw1 := neverWritten_of_not_mentions n s₁ hm1'
              have hB := exec_sameAt x n s₁ σ₂ σB hnw1 e3
              have h1 := exec_sameAt x n s₁ σ σ₁ hnw1 e1
              by_cases hm2 : mentionsS n s₂ = true
              · refine ⟨?_, ?_, ?_, ?_⟩
                · rw [hB.iv]; exact (r2.iv n hm2).symm
                · rw [hB.sv]; exact (r2.sv n hm2).symm
                · rw [hB.ia]; exact (r2.ia n hm2).symm
                · rw [hB.sa]; exact (r2.sa n hm2).symm
              · have hm2' : mentionsS n s₂ = false := by simpa using hm2
                have hnw2 := neverWritten_of_not_mentions n s₂ hm2'
                have hA := exec_sameAt x n s₂ σ₁ σA hnw2 e4
                have h2 := exec_sameAt x n s₂ σ σ₂ hnw2 e2
                refine ⟨?_, ?_, ?_, ?_⟩
                · rw [hA.iv, h1.iv, hB.iv, h2.iv]
                · rw [hA.sv, h1.sv, hB.sv, h2.sv]
                · rw [hA.ia, h1.ia, hB.ia, h2.ia]
                · rw [hA.sa, h1.sa, hB.sa, h2.sa]
          exact ⟨fun n _ => (key n).1, fun n _ => (key n).2.1, fun n _ => (key n).2.2.1,
            fun n _ => (key n).2.2.2⟩

end Ffcx.LNodes
