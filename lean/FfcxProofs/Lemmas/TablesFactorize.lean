/-
IR cluster (C01, C10): the theorems about element tables and argument factorisation.

Tables (`FfcxModel/IR/Tables.lean`, proofs in `Lemmas/Tables.lean`):
  `clamp_bound`, `clamp_idem`, `zeros_replacement`, `ones_replacement`,
  `access_compress` (exact), `access_compress_tol`, `access_compress_tol3` (tolerance),
  `access_compress_needs_all_perms` (the hypothesis `ClassifiedOnAllPerms` cannot be dropped).

Factorisation (`FfcxModel/IR/{Graph,Factorize}.lean`, proofs in `Lemmas/Factorize*.lean`):
  `factorize_sound`            FULL: every ACCEPTED graph satisfying the three residual conditions
                               of `wfCheck`, every handler (sum, product, conj, division,
                               conditional), any field
  `accepted_closed`, `accepted_sum_operands`   what acceptance alone implies
  `factorize_rejects`, `factorize_rejects_nonlinear`, `factorize_rejects_divisor`,
  `accepted_targets`
  `factorize_rejects_sum_argfree`, `factorize_rejects_target_argfree`
                               (the former F10 inputs `u + f`, `as_vector((u, f))` are now REJECTED)
  `factorize_product_collision_counterexample`
                               the residual product condition CAN fail on accepted input
-/
import FfcxProofs.Lemmas.Tables
import FfcxProofs.Lemmas.FactorizeTargets

namespace Ffcx.IR
open Lean.Grind
set_option linter.unusedVariables false
set_option linter.unusedSimpArgs false

/-! ### `factorize_sound` -/

section
variable {R : Type} [Field R] (ρ : Env R)

/-- **`factorize_sound`** (full).  For every graph `S` that the algorithm ACCEPTS and that
satisfies the residual decidable conditions `wfCheck` (`WF S rank` is the conjunction: product
argkeys do not collide; the re-keyed argkeys of a target are distinct; argument `pos` = rank) and every field `R` with a lawful interpretation of literals and conjugation and
real-valued argument tables (`conj a = a`):

* the result lists the targets of `S` in order;
* `eval S target = Σ_{(k,f) ∈ factors(target)} eval F f · Π_{a ∈ k} eval F a`;
* the same for every argument-dependent node `j` of `S` with the intermediate
  `S.nodes[j]["factors"]` (argkeys are node indices of `S` there). -/
theorem factorize_sound (hρ : LawfulEnv ρ) (hreal : RealArgs ρ) (S : Graph) (rank : Nat)
    (hwf : WF S rank) :
    ∃ res, factorize S rank = .ok res ∧
      res.targetDicts.map (fun e => (e.1, e.2.1)) = S.targets ∧
      (∀ e ∈ res.targetDicts,
        val ρ S.nodes e.1 =
          lsum (fun kf => val ρ res.F kf.2 * keyProd (val ρ res.F) kf.1) e.2.2) ∧
      (∀ j, j < S.nodes.size → res.nodeFacs[j]?.getD [] ≠ [] →
        val ρ S.nodes j =
          lsum (fun kf => val ρ res.F kf.2 * keyProd (val ρ S.nodes) kf.1) (res.nodeFacs[j]?.getD [])) := by
  unfold WF at hwf
  split at hwf
  · rename_i res h
    refine ⟨res, h, ?_, ?_, ?_⟩
    · obtain ⟨st, _, _, _, _, htd, _, _⟩ := factorize_ok S rank res h
      rw [htd, List.map_map]
      have : ((fun e : Nat × List Nat × Dict => (e.1, e.2.1)) ∘ fun (x : Nat × List Nat) =>
          (x.1, x.2, targetDict (fun si => List.idxOf si (argIndices S.nodes)) rank st x.1)) = id := by
        funext x; rfl
      exact (congrArg (fun f => List.map f S.targets) this).trans (List.map_id _)
    · exact fun e he => factorize_targets_sound ρ hρ hreal S rank res h hwf e he
    · exact fun j hj hne => factorize_nodes_sound ρ hρ hreal S rank res h hwf j hj hne
  · exact absurd hwf (by simp)

end

/-! ### Non-vacuity -/

/-- the rational interpretation used by the driver is lawful … -/
theorem ratEnv_lawful (a t : Nat → Rat) : LawfulEnv (ratEnv a t) where
  ofRat_zero := rfl
  ofRat_one := rfl
  ofRat_add := fun _ _ => rfl
  ofRat_mul := fun _ _ => rfl
  ofRat_div := fun _ _ => rfl
  conj_zero := rfl
  conj_one := rfl
  conj_add := fun _ _ => rfl
  conj_mul := fun _ _ => rfl
  conj_conj := fun _ => rfl
  conj_ofRat := fun _ => rfl
  conj_abs := fun _ => rfl
  conj_re := fun _ => rfl
  conj_im := fun _ => rfl

/-- … and has real-valued arguments -/
theorem ratEnv_real (a t : Nat → Rat) : RealArgs (ratEnv a t) := fun _ => rfl

/-- `(f·u)·v + u·v`, a bilinear form integrand (`u = arg 1 1`, `v = arg 0 0`) -/
def exBilinear : Graph :=
  { nodes := #[⟨.term 0, []⟩, ⟨.arg 1 1, []⟩, ⟨.prod, [0, 1]⟩, ⟨.arg 0 0, []⟩, ⟨.prod, [2, 3]⟩,
               ⟨.prod, [1, 3]⟩, ⟨.sum, [4, 5]⟩],
    targets := [(6, [0])] }

example : WF exBilinear 2 := by decide +kernel

/-- `conditional(f < g, 2·u, u/f)·conj(v)` -/
def exCond : Graph :=
  { nodes := #[⟨.term 0, []⟩, ⟨.term 1, []⟩, ⟨.condition "LT", [0, 1]⟩, ⟨.arg 1 1, []⟩,
               ⟨.lit true 2, []⟩, ⟨.prod, [4, 3]⟩, ⟨.div, [3, 0]⟩, ⟨.cond, [2, 5, 6]⟩,
               ⟨.arg 0 0, []⟩, ⟨.conj, [8]⟩, ⟨.prod, [7, 9]⟩],
    targets := [(10, [0])] }

example : WF exCond 2 := by decide +kernel

/-! ### `factorize_rejects` -/

/-- an error in the loop is the result of the loop -/
theorem runNodes_error (avIndex : Nat → Nat) (e : FErr) (n : Node) (rest : List Node) :
    ∀ (pre : List Node) (st : FState) (si : Nat) (st1 : FState),
      runNodes avIndex st si pre = .ok st1 →
      stepNode avIndex st1 (si + pre.length) n = .error e →
      runNodes avIndex st si (pre ++ n :: rest) = .error e := by
  intro pre
  induction pre with
  | nil =>
    intro st si st1 h hs
    simp [runNodes] at h
    subst h
    simp only [List.nil_append, runNodes, List.length_nil, Nat.add_zero] at hs ⊢
    rw [hs]
  | cons m pre ih =>
    intro st si st1 h hs
    simp only [List.cons_append]
    unfold runNodes at h ⊢
    split at h
    · cases h
    rename_i st2 hstep
    apply ih st2 (si + 1) st1 h
    rw [← hs]; congr 1; simp; omega

/-- **`factorize_rejects`**: if the nodes before node `i` are processed and the handler of node
`i` raises `e`, then `compute_argument_factorization` raises `e`. -/
theorem factorize_rejects (S : Graph) (rank : Nat) (i : Nat) (hi : i < S.nodes.size) (st1 : FState)
    (e : FErr)
    (hpre : runNodes (fun si => (argIndices S.nodes).idxOf si) (initState S.nodes) 0
      (S.nodes.toList.take i) = .ok st1)
    (hstep : stepNode (fun si => (argIndices S.nodes).idxOf si) st1 i S.nodes[i] = .error e) :
    factorize S rank = .error e := by
  have hsplit : S.nodes.toList = S.nodes.toList.take i ++ S.nodes[i] :: S.nodes.toList.drop (i + 1) := by
    have hi' : i < S.nodes.toList.length := by simpa using hi
    have hd : S.nodes.toList.drop i = S.nodes.toList[i] :: S.nodes.toList.drop (i + 1) :=
      List.drop_eq_getElem_cons hi'
    rw [Array.getElem_toList] at hd
    rw [← hd, List.take_append_drop]
  have hlen : (S.nodes.toList.take i).length = i := by simp; omega
  have := runNodes_error _ e S.nodes[i] (S.nodes.toList.drop (i + 1)) (S.nodes.toList.take i)
    (initState S.nodes) 0 st1 hpre (by rw [hlen, Nat.zero_add]; exact hstep)
  unfold factorize
  simp only
  rw [hsplit, this]

/-- the operators without a factorisation handler -/
def isNonlinear : Kind → Bool
  | .real | .imag | .abs | .condition _ | .op _ => true
  | _ => false

/-- The default handler: a math function, power, condition, `Abs/Real/Imag` with an
argument-dependent operand raises `RuntimeError("Assuming that a <class> cannot be applied to
arguments …")`. -/
theorem stepNode_rejects_nonlinear (avIndex : Nat → Nat) (st : FState) (si : Nat) (n : Node)
    (hord : n.deps.all (fun d => d < si) = true) (har : n.kind.arityOk n.deps.length = true)
    (hk : isNonlinear n.kind = true)
    (hdep : ∃ d ∈ n.deps, st.facs[d]?.getD [] ≠ []) :
    stepNode avIndex st si n = .error (.nonlinear n.kind.clsName) := by
  obtain ⟨k, ds⟩ := n
  obtain ⟨d, hd, hne⟩ := hdep
  have hnall : ((ds.map fun d => st.facs[d]?.getD []).all (·.isEmpty)) = false := by
    rw [Bool.eq_false_iff]
    intro hall
    have := List.all_eq_true.mp hall _ (List.mem_map_of_mem hd)
    exact hne (List.isEmpty_iff.mp this)
  unfold stepNode
  simp only at hord har ⊢
  simp only [hord, har, Bool.not_true, Bool.false_eq_true, if_false, hnall]
  cases k <;> simp [isNonlinear] at hk <;> simp [isArgKind]

/-- Division by an argument-dependent expression raises `AssertionError("Cannot divide by
arguments.")`. -/
theorem stepNode_rejects_divisor (avIndex : Nat → Nat) (st : FState) (si : Nat) (a b : Nat)
    (ha : a < si) (hb : b < si) (hdep : st.facs[b]?.getD [] ≠ []) :
    stepNode avIndex st si ⟨.div, [a, b]⟩ = .error .divByArg := by
  have hnall : (([a, b].map fun d => st.facs[d]?.getD []).all (·.isEmpty)) = false := by
    rw [Bool.eq_false_iff]
    intro hall
    have := List.all_eq_true.mp hall (st.facs[b]?.getD []) (by simp)
    exact hdep (List.isEmpty_iff.mp this)
  have hb' : (st.facs[b]?.getD []).isEmpty = false := by
    cases h : st.facs[b]?.getD [] <;> simp_all
  unfold stepNode
  simp only [List.all_cons, List.all_nil, ha, hb, decide_true, Bool.and_self, Bool.not_true,
    Bool.false_eq_true, if_false, Kind.arityOk, List.length_cons, List.length_nil, isArgKind, hnall]
  simp [handleDivision, hb', Except.map]

theorem factorize_rejects_nonlinear (S : Graph) (rank : Nat) (i : Nat) (hi : i < S.nodes.size)
    (st1 : FState)
    (hpre : runNodes (fun si => (argIndices S.nodes).idxOf si) (initState S.nodes) 0
      (S.nodes.toList.take i) = .ok st1)
    (hord : S.nodes[i].deps.all (fun d => d < i) = true)
    (har : S.nodes[i].kind.arityOk S.nodes[i].deps.length = true)
    (hk : isNonlinear S.nodes[i].kind = true)
    (hdep : ∃ d ∈ S.nodes[i].deps, st1.facs[d]?.getD [] ≠ []) :
    factorize S rank = .error (.nonlinear S.nodes[i].kind.clsName) :=
  factorize_rejects S rank i hi st1 _ hpre (stepNode_rejects_nonlinear _ st1 i _ hord har hk hdep)

theorem factorize_rejects_divisor (S : Graph) (rank : Nat) (i : Nat) (hi : i < S.nodes.size)
    (st1 : FState) (a b : Nat)
    (hpre : runNodes (fun si => (argIndices S.nodes).idxOf si) (initState S.nodes) 0
      (S.nodes.toList.take i) = .ok st1)
    (hn : S.nodes[i] = ⟨.div, [a, b]⟩) (ha : a < i) (hb : b < i)
    (hdep : st1.facs[b]?.getD [] ≠ []) :
    factorize S rank = .error .divByArg :=
  factorize_rejects S rank i hi st1 _ hpre (hn ▸ stepNode_rejects_divisor _ st1 i a b ha hb hdep)

/-- the error of a run, for `decide` -/
def factorizeError (S : Graph) (rank : Nat) : Option FErr :=
  match factorize S rank with
  | .ok _ => none
  | .error e => some e

/-- concrete rejected inputs (all confirmed on the real code through `compile_ufl_objects` on
expressions, which by-pass UFL's arity checker): `sqrt(u)`, `f/u`, `conditional(u < f, f, g)`,
`conditional(f < g, u, f)`, `u + f`. -/
example : factorizeError ⟨#[⟨.arg 0 0, []⟩, ⟨.op "Sqrt", [0]⟩], [(1, [0])]⟩ 1 =
    some (.nonlinear "Sqrt") := by decide +kernel
example : factorizeError ⟨#[⟨.term 0, []⟩, ⟨.arg 0 0, []⟩, ⟨.div, [0, 1]⟩], [(2, [0])]⟩ 1 =
    some .divByArg := by decide +kernel
example : factorizeError ⟨#[⟨.arg 0 0, []⟩, ⟨.term 0, []⟩, ⟨.condition "LT", [0, 1]⟩, ⟨.term 1, []⟩,
    ⟨.cond, [2, 1, 3]⟩], [(4, [0])]⟩ 1 = some (.nonlinear "LT") := by decide +kernel
example : factorizeError ⟨#[⟨.term 0, []⟩, ⟨.term 1, []⟩, ⟨.condition "LT", [0, 1]⟩, ⟨.arg 0 0, []⟩,
    ⟨.cond, [2, 3, 0]⟩], [(4, [0])]⟩ 1 = some .condNonzeroBranch := by decide +kernel
example : factorizeError ⟨#[⟨.arg 0 0, []⟩, ⟨.term 0, []⟩, ⟨.sum, [0, 1]⟩], [(2, [0])]⟩ 1 =
    some .sumArgFree := by decide +kernel

/-- `conditional(f < g, u₀, u₁)·v`: a valid bilinear form whose branches have different argkeys, so
that `as_ufl(0.0)` is needed and is not a node of `S` (the real code raised `KeyError: Zero` before
commit e5efe38; now the zero is inserted and the graph is accepted and well formed) -/
def exCondZero : Graph :=
  ⟨#[⟨.term 0, []⟩, ⟨.term 1, []⟩, ⟨.condition "LT", [0, 1]⟩, ⟨.arg 1 1, []⟩,
    ⟨.arg 2 1, []⟩, ⟨.cond, [2, 3, 4]⟩, ⟨.arg 0 0, []⟩, ⟨.prod, [5, 6]⟩], [(7, [0])]⟩

example : WF exCondZero 2 := by decide +kernel

/-- A sum of an argument-dependent and an argument-free operand is rejected with
`RuntimeError("Expecting all summands to depend on the arguments.")` (DESIGN F10, fixed by commit
d075f67: before, the argument-free summand was silently dropped). -/
theorem stepNode_rejects_sum_argfree (avIndex : Nat → Nat) (st : FState) (si : Nat) (a b : Nat)
    (ha : a < si) (hb : b < si)
    (hdep : (st.facs[a]?.getD []).isEmpty ≠ (st.facs[b]?.getD []).isEmpty) :
    stepNode avIndex st si ⟨.sum, [a, b]⟩ = .error .sumArgFree := by
  have hnall : (([a, b].map fun d => st.facs[d]?.getD []).all (·.isEmpty)) = false := by
    cases h1 : (st.facs[a]?.getD []).isEmpty <;> cases h2 : (st.facs[b]?.getD []).isEmpty <;> simp_all
  have hor : ((st.facs[a]?.getD []).isEmpty || (st.facs[b]?.getD []).isEmpty) = true := by
    cases h1 : (st.facs[a]?.getD []).isEmpty <;> cases h2 : (st.facs[b]?.getD []).isEmpty <;> simp_all
  unfold stepNode
  simp only [List.all_cons, List.all_nil, ha, hb, decide_true, Bool.and_self, Bool.not_true,
    Bool.false_eq_true, if_false, Kind.arityOk, List.length_cons, List.length_nil, isArgKind, hnall]
  simp [handleSum, hor, Except.map]

theorem factorize_rejects_sum_argfree (S : Graph) (rank : Nat) (i : Nat) (hi : i < S.nodes.size)
    (st1 : FState) (a b : Nat)
    (hpre : runNodes (fun si => (argIndices S.nodes).idxOf si) (initState S.nodes) 0
      (S.nodes.toList.take i) = .ok st1)
    (hn : S.nodes[i] = ⟨.sum, [a, b]⟩) (ha : a < i) (hb : b < i)
    (hdep : (st1.facs[a]?.getD []).isEmpty ≠ (st1.facs[b]?.getD []).isEmpty) :
    factorize S rank = .error .sumArgFree :=
  factorize_rejects S rank i hi st1 _ hpre (hn ▸ stepNode_rejects_sum_argfree _ st1 i a b ha hb hdep)

/-! ### What acceptance alone implies -/

theorem runNodes_append (avIndex : Nat → Nat) :
    ∀ (pre rest : List Node) (st : FState) (si : Nat),
      runNodes avIndex st si (pre ++ rest) =
        match runNodes avIndex st si pre with
        | .error e => .error e
        | .ok st1 => runNodes avIndex st1 (si + pre.length) rest := by
  intro pre
  induction pre with
  | nil => intro rest st si; simp [runNodes]
  | cons m pre ih =>
    intro rest st si
    simp only [List.cons_append]
    have e1 : ∀ l, runNodes avIndex st si (m :: l) =
        match stepNode avIndex st si m with
        | .error e => .error e
        | .ok st' => runNodes avIndex st' (si + 1) l := fun l => by rw [runNodes]; rfl
    rw [e1 (pre ++ rest), e1 pre]
    cases hs : stepNode avIndex st si m with
    | error e => rfl
    | ok st2 =>
      simp only
      rw [ih rest st2 (si + 1)]
      have : si + 1 + pre.length = si + (m :: pre).length := by simp; omega
      rw [this]

theorem runNodes_prefix_error (avIndex : Nat → Nat) (e : FErr) (pre rest : List Node) (st : FState)
    (si : Nat) (h : runNodes avIndex st si pre = .error e) :
    runNodes avIndex st si (pre ++ rest) = .error e := by
  rw [runNodes_append, h]

theorem runNodes_suffix (avIndex : Nat → Nat) (pre rest : List Node) (st : FState) (si : Nat)
    (st1 : FState) (h : runNodes avIndex st si pre = .ok st1) :
    runNodes avIndex st si (pre ++ rest) = runNodes avIndex st1 (si + pre.length) rest := by
  rw [runNodes_append, h]

theorem runNodes_facs_size (avIndex : Nat → Nat) (fin : FState) :
    ∀ (rest : List Node) (st : FState) (si : Nat), runNodes avIndex st si rest = .ok fin →
      fin.facs.size = st.facs.size + rest.length := by
  intro rest
  induction rest with
  | nil => intro st si h; simp [runNodes] at h; subst h; simp
  | cons n rest ih =>
    intro st si h
    unfold runNodes at h
    split at h
    · cases h
    rename_i st1 hstep
    obtain ⟨d, hd⟩ := stepNode_facs avIndex st si n st1 hstep
    rw [ih st1 (si + 1) h, hd]; simp; omega

/-- In an accepted graph the operands of every sum are both argument-dependent or both
argument-free (the former `WF` condition). -/
theorem accepted_sum_operands (S : Graph) (rank : Nat) (res : FResult)
    (h : factorize S rank = .ok res) (i : Nat) (hi : i < S.nodes.size) (a b : Nat)
    (hn : S.nodes[i] = ⟨.sum, [a, b]⟩) :
    (res.nodeFacs[a]?.getD []).isEmpty = (res.nodeFacs[b]?.getD []).isEmpty := by
  apply Decidable.byContradiction
  intro hne
  obtain ⟨st, hrun, _, hfacs, _, _, _, _⟩ := factorize_ok S rank res h
  -- split the run at node i
  have hsplit : S.nodes.toList = S.nodes.toList.take i ++ S.nodes[i] :: S.nodes.toList.drop (i + 1) := by
    have hi' : i < S.nodes.toList.length := by simpa using hi
    have hd : S.nodes.toList.drop i = S.nodes.toList[i] :: S.nodes.toList.drop (i + 1) :=
      List.drop_eq_getElem_cons hi'
    rw [Array.getElem_toList] at hd
    rw [← hd, List.take_append_drop]
  have hlen : (S.nodes.toList.take i).length = i := by simp; omega
  obtain ⟨hcS, _⟩ := accepted_closed S.nodes _ _ st hrun
  have hab : a < i ∧ b < i := by
    have := hcS i hi
    rw [hn] at this
    exact ⟨this a (by simp), this b (by simp)⟩
  -- the prefix run
  cases hpre : runNodes (fun si => (argIndices S.nodes).idxOf si) (initState S.nodes) 0
      (S.nodes.toList.take i) with
  | error e =>
    have := runNodes_prefix_error _ e (S.nodes.toList.take i) (S.nodes[i] :: S.nodes.toList.drop (i + 1))
      (initState S.nodes) 0 hpre
    rw [← hsplit, hrun] at this; cases this
  | ok st1 =>
    -- facs of a, b at st1 are the final ones
    have hsuf := runNodes_suffix _ (S.nodes.toList.take i) (S.nodes[i] :: S.nodes.toList.drop (i + 1))
      (initState S.nodes) 0 st1 hpre
    rw [← hsplit, hrun, hlen, Nat.zero_add] at hsuf
    have hsize : st1.facs.size = i := by
      have := runNodes_facs_size _ st1 (S.nodes.toList.take i) (initState S.nodes) 0 hpre
      rw [this, hlen]; simp [initState]
    have hst := runNodes_facs_stable _ st _ st1 i hsuf.symm
    have hrej := stepNode_rejects_sum_argfree (fun si => (argIndices S.nodes).idxOf si) st1 i a b
      hab.1 hab.2 (by
        rw [← hst a (by omega), ← hst b (by omega), ← hfacs]; exact hne)
    unfold runNodes at hsuf
    rw [hn, hrej] at hsuf
    cases hsuf

/-- A target without factors in a form of rank ≥ 1 that is not the literal `Zero` is rejected with
`RuntimeError("Expecting all non-zero components to depend on the arguments.")`. -/
theorem factorize_rejects_target_argfree (S : Graph) (rank : Nat) (st : FState)
    (hrun : runNodes (fun si => (argIndices S.nodes).idxOf si) (initState S.nodes) 0 S.nodes.toList = .ok st)
    (hrange : ∀ t ∈ S.targets, t.1 < S.nodes.size)
    (t : Nat × List Nat) (ht : t ∈ S.targets) (hrank : rank ≠ 0)
    (hfree : st.facs[t.1]?.getD [] = []) (hk : kindAt S.nodes t.1 ≠ .zero) :
    factorize S rank = .error .targetArgFree := by
  unfold factorize
  simp only [hrun]
  have h1 : (S.targets.any fun t => decide (S.nodes.size ≤ t.1)) = false := by
    apply Bool.eq_false_iff.mpr
    intro h
    rw [List.any_eq_true] at h
    obtain ⟨x, hx, hle⟩ := h
    have := hrange x hx
    simp at hle; omega
  have h2 : (S.targets.any fun t => targetRejected rank st S.nodes t.1) = true := by
    rw [List.any_eq_true]
    refine ⟨t, ht, ?_⟩
    simp [targetRejected, hfree, hrank, hk]
  simp [h1, h2]

/-- In an accepted graph every target is a node of `S`, and a target of a form of rank ≥ 1 depends
on arguments or is the literal `Zero` (the former `WF` target condition). -/
theorem accepted_targets (S : Graph) (rank : Nat) (res : FResult) (h : factorize S rank = .ok res)
    (t : Nat × List Nat) (ht : t ∈ S.targets) :
    t.1 < S.nodes.size ∧
    (res.nodeFacs[t.1]?.getD [] = [] → rank = 0 ∨ kindAt S.nodes t.1 = .zero) := by
  obtain ⟨st, _, _, hfacs, _, _, hrange, hnrej⟩ := factorize_ok S rank res h
  refine ⟨hrange t ht, ?_⟩
  intro hemp
  have := hnrej t ht
  rw [hfacs] at hemp
  simp only [targetRejected, hemp, List.isEmpty_nil, Bool.true_and] at this
  by_cases hr : rank = 0
  · exact Or.inl hr
  · right
    simpa [hr] using this

/-! ### The residual conditions of `wfCheck` can fail on accepted input -/

/-- does `Σ F_k Π args = S` hold for every target, in the rational interpretation? -/
def identityHolds (ρ : Env Rat) (S : Graph) (rank : Nat) : Bool :=
  match factorize S rank with
  | .ok res => res.targetDicts.all fun e =>
      decide (val ρ S.nodes e.1 = lsum (fun kf => val ρ res.F kf.2 * keyProd (val ρ res.F) kf.1) e.2.2)
  | .error _ => false

/-- `as_vector((u, f))` as an Expression of rank 1: the component `f` does not depend on the
argument -/
def exTargetDrop : Graph :=
  { nodes := #[⟨.arg 0 0, []⟩, ⟨.term 0, []⟩], targets := [(0, [0]), (1, [1])] }

/-- rejected since commit 3991a34 (before: accepted, component `f` silently dropped) -/
example : factorizeError exTargetDrop 1 = some .targetArgFree := by decide +kernel

/-- `(u₀ + u₁)·(u₀ + u₁)` -/
def exCollision : Graph :=
  { nodes := #[⟨.arg 0 0, []⟩, ⟨.arg 1 0, []⟩, ⟨.sum, [0, 1]⟩, ⟨.prod, [2, 2]⟩], targets := [(3, [0])] }

/-- **Counterexample (product condition).**  `factors[argkey] = …` overwrites the term of the
argkey `(u₀, u₁)` that occurs twice: with `u₀ = 2`, `u₁ = 3` the target is `25`, the factorised
value `4 + 6 + 9 = 19`.  (The real pipeline stops such input later: `assert rank == len(ma_indices)`
in `integral.py`; forms are rejected by UFL's arity check.) -/
theorem factorize_product_collision_counterexample :
    factorizeError exCollision 1 = none ∧ ¬ WF exCollision 1 ∧
    identityHolds (ratEnv (fun p => if p = 0 then 2 else 3) (fun _ => 0)) exCollision 1 = false ∧
    identityHolds (ratEnv (fun _ => 2) (fun _ => 3)) exBilinear 2 = true := by decide +kernel

end Ffcx.IR
