/-
`exec` depends only on the names a statement mentions (name-level frame lemma, reads).
-/
import FfcxProofs.Lemmas.AgreeOn

namespace Ffcx.LNodes
variable {R : Type} [Add R] [Sub R] [Mul R] [Div R] [Neg R] [IntCast R] {P : String → Prop} (x : Extra R)

theorem AgreeOn.setIV {σ τ : St R} (h : AgreeOn P σ τ) (n : String) (v : Int) :
    AgreeOn P (σ.setIV n v) (τ.setIV n v) := by
  refine ⟨?_, h.sv, h.ia, h.sa⟩
  intro m hm
  simp only [St.setIV, AList.get_set]
  split
  · rfl
  · exact h.iv m hm

theorem AgreeOn.setSV {σ τ : St R} (h : AgreeOn P σ τ) (n : String) (v : R) :
    AgreeOn P (σ.setSV n v) (τ.setSV n v) := by
  refine ⟨h.iv, ?_, h.ia, h.sa⟩
  intro m hm
  simp only [St.setSV, AList.get_set]
  split
  · rfl
  · exact h.sv m hm

theorem AgreeOn.setSA {σ τ : St R} (h : AgreeOn P σ τ) (n : String) (a : Arr R) :
    AgreeOn P (σ.setSA n a) (τ.setSA n a) := by
  refine ⟨h.iv, h.sv, h.ia, ?_⟩
  intro m hm
  simp only [St.setSA, AList.get_set]
  split
  · rfl
  · exact h.sa m hm

theorem store_agreeOn {σ τ : St R} (h : AgreeOn P σ τ) (l : Expr)
    (hp : ∀ n, mentionsE n l = true → P n) (f : R → R) :
    RelResP (AgreeOn P) (store x σ l f) (store x τ l f) := by
  cases l
  case sym n dt =>
    simp only [store]
    by_cases hdt : (dt == DType.int) = true
    · simp [hdt, RelResP]
    · simp only [hdt, Bool.false_eq_true, if_false]
      rw [h.sv n (hp n (by simp [mentionsE]))]
      cases hg : τ.sv.get n with
      | none => simp [RelResP]
      | some v => simp only [RelResP]; exact h.setSV n (f v)
  case idx arr dt ix =>
    simp only [store]
    by_cases hdt : (dt == DType.int) = true
    · simp [hdt, RelResP]
    · simp only [hdt, Bool.false_eq_true, if_false, resolve]
      have harr := hp arr (by simp [mentionsE])
      have hix : ∀ n, mentionsL n ix = true → P n := fun n hn => hp n (by simp [mentionsE, hn])
      rw [h.sa arr harr, evalIs_agreeOn h ix hix]
      cases ha : τ.sa.get arr with
      | none => simp [RelResP]
      | some a =>
        simp only []
        cases hi : evalIs τ.iv τ.ia ix with
        | none => simp [RelResP]
        | some is =>
          simp only []
          cases hf : flatIdx a.dims is with
          | none => simp [RelResP]
          | some k =>
            simp only []
            by_cases hk : k < a.data.size
            · simp only [hk, if_true]
              by_cases hc : a.const = true
              · simp [hc, RelResP]
              · simp only [hc, Bool.false_eq_true, if_false, RelResP]
                exact h.setSA arr _
            · simp [hk, RelResP]
  all_goals simp [store, RelResP]

theorem loopN_agreeOn (body : St R → Except Err (St R)) (i : String)
    (hb : ∀ σ τ, AgreeOn P σ τ → RelResP (AgreeOn P) (body σ) (body τ)) :
    ∀ (n : Nat) (lo : Int) (σ τ : St R), AgreeOn P σ τ →
      RelResP (AgreeOn P) (loopN body i lo n σ) (loopN body i lo n τ)
  | 0, _, σ, τ, h => by simpa [loopN, RelResP] using h
  | n + 1, lo, σ, τ, h => by
    simp only [loopN]
    have := hb _ _ (h.setIV i lo)
    cases h1 : body (σ.setIV i lo) with
    | error e =>
      cases h2 : body (τ.setIV i lo) with
      | error e' => simp [h1, h2, RelResP] at this ⊢; exact this
      | ok b => simp [h1, h2, RelResP] at this
    | ok a =>
      cases h2 : body (τ.setIV i lo) with
      | error e' => simp [h1, h2, RelResP] at this
      | ok b =>
        simp [h1, h2, RelResP] at this
        exact loopN_agreeOn body i hb n (lo + 1) a b this

mutual
theorem exec_agreeOn : ∀ (s : Stmt) (σ τ : St R), (∀ n, mentionsS n s = true → P n) →
    AgreeOn P σ τ → RelResP (AgreeOn P) (exec x s σ) (exec x s τ)
  | .assign l r, σ, τ, hp, h => by
    have hl : ∀ n, mentionsE n l = true → P n := fun n hn => hp n (by simp [mentionsS, hn])
    have hr : ∀ n, mentionsE n r = true → P n := fun n hn => hp n (by simp [mentionsS, hn])
    simp only [exec, safeE_agreeOn h r hr, eval_agreeOn x h r hr]
    split
    · exact store_agreeOn x h l hl _
    · simp [RelResP]
  | .addAssign l r, σ, τ, hp, h => by
    have hl : ∀ n, mentionsE n l = true → P n := fun n hn => hp n (by simp [mentionsS, hn])
    have hr : ∀ n, mentionsE n r = true → P n := fun n hn => hp n (by simp [mentionsS, hn])
    simp only [exec, safeE_agreeOn h r hr, eval_agreeOn x h r hr]
    split
    · exact store_agreeOn x h l hl _
    · simp [RelResP]
  | .vdecl n dt v, σ, τ, hp, h => by
    have hv : ∀ m, mentionsE m v = true → P m := fun m hm => hp m (by simp [mentionsS, hm])
    simp only [exec, evalI_agreeOn h v hv, safeE_agreeOn h v hv, eval_agreeOn x h v hv,
      evalB_agreeOn x h v hv]
    split
    · split
      · simp only [RelResP]; exact h.setIV n _
      · simp [RelResP]
    · split
      · simp only [RelResP]; exact h.setSV n _
      · simp [RelResP]
  | .adecl n dt sizes c vals, σ, τ, hp, h => by
    have hv : ∀ m, mentionsL m (vals.getD []) = true → P m := fun m hm => hp m (by simp [mentionsS, hm])
    simp only [exec]
    split
    · simp [RelResP]
    · simp only [RelResP, initData, evalL_agreeOn x h _ hv]
      exact h.setSA n _
  | .forRange i lo hi body, σ, τ, hp, h => by
    have hlo : ∀ m, mentionsE m lo = true → P m := fun m hm => hp m (by simp [mentionsS, hm])
    have hhi : ∀ m, mentionsE m hi = true → P m := fun m hm => hp m (by simp [mentionsS, hm])
    have hb : ∀ m, mentionsSL m body = true → P m := fun m hm => hp m (by simp [mentionsS, hm])
    simp only [exec, evalI_agreeOn h lo hlo, evalI_agreeOn h hi hhi]
    split
    · exact loopN_agreeOn _ i (fun σ τ h => execL_agreeOn body σ τ hb h) _ _ σ τ h
    · simp [RelResP]
  | .comment _, σ, τ, _, h => by simpa [exec, RelResP] using h
  | .block ss, σ, τ, hp, h => by
    have hb : ∀ m, mentionsSL m ss = true → P m := fun m hm => hp m (by simpa [mentionsS] using hm)
    simpa [exec] using execL_agreeOn ss σ τ hb h
  | .sect _ decls stmts _ _ _, σ, τ, hp, h => by
    have hd : ∀ m, mentionsSL m decls = true → P m := fun m hm => hp m (by simp [mentionsS, hm])
    have hs : ∀ m, mentionsSL m stmts = true → P m := fun m hm => hp m (by simp [mentionsS, hm])
    simp only [exec]
    have := execL_agreeOn decls σ τ hd h
    cases h1 : execL x decls σ with
    | error e =>
      cases h2 : execL x decls τ with
      | error e' => simp [h1, h2, RelResP] at this ⊢; exact this
      | ok b => simp [h1, h2, RelResP] at this
    | ok a =>
      cases h2 : execL x decls τ with
      | error e' => simp [h1, h2, RelResP] at this
      | ok b =>
        simp [h1, h2, RelResP] at this
        exact execL_agreeOn stmts a b hs this

theorem execL_agreeOn : ∀ (ss : List Stmt) (σ τ : St R), (∀ n, mentionsSL n ss = true → P n) →
    AgreeOn P σ τ → RelResP (AgreeOn P) (execL x ss σ) (execL x ss τ)
  | [], σ, τ, _, h => by simpa [execL, RelResP] using h
  | s :: ss, σ, τ, hp, h => by
    have h1p : ∀ n, mentionsS n s = true → P n := fun n hn => hp n (by simp [mentionsSL, hn])
    have h2p : ∀ n, mentionsSL n ss = true → P n := fun n hn => hp n (by simp [mentionsSL, hn])
    simp only [execL]
    have := exec_agreeOn s σ τ h1p h
    cases h1 : exec x s σ with
    | error e =>
      cases h2 : exec x s τ with
      | error e' => simp [h1, h2, RelResP] at this ⊢; exact this
      | ok b => simp [h1, h2, RelResP] at this
    | ok a =>
      cases h2 : exec x s τ with
      | error e' => simp [h1, h2, RelResP] at this
      | ok b =>
        simp [h1, h2, RelResP] at this
        exact execL_agreeOn ss a b h2p this
end

end Ffcx.LNodes
