/-
The loop nest `for … for … { A[idx₁] += rhs₁; …; A[idxₘ] += rhsₘ }` built by
`create_nested_for_loops` (`nestStmt`): for ANY list of loops, trip counts and terms it adds
`Σ_{index tuples} Σ_t [idx_t = k] · rhs_t` to `A[k]` (`nest_accumulate`).
-/
import FfcxModel.Codegen.Block
import FfcxProofs.Lemmas.CodegenAcc

set_option linter.unusedSectionVars false

namespace Ffcx.Codegen
open Ffcx Ffcx.LNodes Lean.Grind
attribute [local instance] Lean.Grind.Ring.intCast
variable {R : Type} [Field R] (x : Extra R)

/-- one accumulation statement: subscript of `A`, right-hand side -/
abbrev ATerm := Expr × Expr

def ATerm.stmt (A : String) (t : ATerm) : Stmt := .addAssign (.idx A .scalar [t.1]) t.2

/-- the term neither reads nor subscripts with `A` -/
def ATerm.noA (A : String) (t : ATerm) : Bool := !mentionsE A t.1 && !mentionsE A t.2

/-- what must hold at the innermost level: right-hand sides are safe to evaluate and the subscripts
    are inside `A` -/
def leafPre (N : Nat) : List ATerm → St R → Prop
  | [], _ => True
  | t :: ts, τ => (safeE τ t.2 = true ∧ ∃ k : Nat, evalI τ.iv τ.ia t.1 = some (k : Int) ∧ k < N) ∧
      leafPre N ts τ

/-- what the innermost statement list adds to `A[k]` -/
def leafSum : List ATerm → St R → Nat → R
  | [], _, _ => 0
  | t :: ts, τ, k =>
    (if evalI τ.iv τ.ia t.1 = some (k : Int) then eval x τ t.2 else 0) + leafSum ts τ k

def loopNames (ls : List (String × Nat)) : List String := ls.map (·.1)

/-- `leafPre` at every index tuple -/
def nestPre (N : Nat) (terms : List ATerm) : List (String × Nat) → St R → Prop
  | [], τ => leafPre N terms τ
  | (i, n) :: ls, τ => ∀ t : Nat, t < n → nestPre N terms ls (τ.setIV i t)

/-- Σ over all index tuples (outermost loop first) of `leafSum` -/
def nestSum (terms : List ATerm) : List (String × Nat) → St R → Nat → R
  | [], τ, k => leafSum x terms τ k
  | (i, n) :: ls, τ, k => isum 0 n (fun v => nestSum terms ls (τ.setIV i v) k)

variable {A : String}

theorem leaf_stable (terms : List ATerm) (hA : ∀ t ∈ terms, t.noA A = true) (N : Nat) {σ τ : St R}
    (h : Agree A (fun _ => True) (fun _ => True) σ τ) :
    (leafPre N terms σ → leafPre N terms τ) ∧ ∀ k, leafSum x terms τ k = leafSum x terms σ k := by
  have hag := h.agreeOn
  induction terms with
  | nil => exact ⟨fun _ => trivial, fun _ => rfl⟩
  | cons t ts ih =>
    have ht := hA t (by simp)
    simp only [ATerm.noA, Bool.and_eq_true, Bool.not_eq_true'] at ht
    have hp1 : ∀ n, mentionsE n t.1 = true → n ≠ A ∧ True ∧ True := by
      intro n hn; refine ⟨?_, trivial, trivial⟩; intro e; subst e; simp [ht.1] at hn
    have hp2 : ∀ n, mentionsE n t.2 = true → n ≠ A ∧ True ∧ True := by
      intro n hn; refine ⟨?_, trivial, trivial⟩; intro e; subst e; simp [ht.2] at hn
    have e1 := evalI_agreeOn hag t.1 hp1
    have e2 := eval_agreeOn x hag t.2 hp2
    have e3 := safeE_agreeOn hag t.2 hp2
    obtain ⟨ih1, ih2⟩ := ih (fun u hu => hA u (by simp [hu]))
    refine ⟨?_, ?_⟩
    · intro hpre
      simp only [leafPre] at hpre ⊢
      exact ⟨by rw [← e3, ← e1]; exact hpre.1, ih1 hpre.2⟩
    · intro k
      simp only [leafSum, ih2 k, e1, e2]

theorem nest_stable (terms : List ATerm) (hA : ∀ t ∈ terms, t.noA A = true) (N : Nat) :
    ∀ (ls : List (String × Nat)) {σ τ : St R},
      Agree A (fun n => n ∉ loopNames ls) (fun _ => True) σ τ →
      (nestPre N terms ls σ → nestPre N terms ls τ) ∧
        ∀ k, nestSum x terms ls τ k = nestSum x terms ls σ k
  | [], σ, τ, h => by
    have := leaf_stable x terms hA N (h.mono (fun _ _ => by simp [loopNames]) (fun _ h => h))
    simpa [nestPre, nestSum] using this
  | (i, n) :: ls, σ, τ, h => by
    have hstep : ∀ v : Int, Agree A (fun m => m ∉ loopNames ls) (fun _ => True)
        (σ.setIV i v) (τ.setIV i v) := by
      intro v
      refine (h.setIV i v).mono ?_ (fun _ h => h)
      intro m hm
      by_cases e : m = i
      · exact Or.inr e
      · left
        simp only [loopNames, List.map_cons, List.mem_cons]
        intro h; rcases h with h | h
        · exact e h
        · exact hm h
    refine ⟨?_, ?_⟩
    · intro hpre t ht
      exact (nest_stable terms hA N ls (hstep t)).1 (hpre t ht)
    · intro k
      simp only [nestSum]
      exact isum_congr n 0 (fun v _ _ => (nest_stable terms hA N ls (hstep v)).2 k)

/-- one `A[idx] += rhs` -/
theorem addAssign_acc (t : ATerm) (N : Nat) (τ : St R) (hA : AOk A N τ)
    (hs : safeE τ t.2 = true) (k : Nat) (hk : evalI τ.iv τ.ia t.1 = some (k : Int)) (hkN : k < N) :
    ∃ τ', exec x (t.stmt A) τ = .ok τ' ∧
      Acc A (fun _ => False) (fun _ => False)
        (fun k' => if evalI τ.iv τ.ia t.1 = some (k' : Int) then eval x τ t.2 else 0) τ τ' := by
  obtain ⟨a, ha, hd, hc, hsz⟩ := hA
  have hflat : flatIdx a.dims [(k : Int)] = some k := by
    rw [hd]
    have : (0 : Int) ≤ k ∧ (k : Int) < N := by omega
    simp [flatIdx, this]
  have hres : resolve τ A [t.1] = .ok (a, k) := by
    simp [resolve, ha, evalIs, hk, hflat, hsz, hkN]
  let a' : Arr R := { a with data := a.data.setIfInBounds k (a.data.getD k 0 + eval x τ t.2) }
  refine ⟨τ.setSA A a', ?_, ?_⟩
  · simp only [ATerm.stmt, exec, hs, if_true, store, hres, hc]
    simp [a', Ring.intCast_zero, hc]
  · refine ⟨rfl, fun _ _ => rfl, fun _ _ => rfl, ?_, ⟨a, a', ha, by simp [St.setSA], rfl, rfl, by simp [a'], ?_⟩⟩
    · intro n hn
      have : A ≠ n := fun e => hn e.symm
      simp [St.setSA, AList.get_set_ne _ _ _ _ this]
    · intro k' hk'
      simp only [hk, a']
      by_cases e : k' = k
      · subst e
        simp [Array.getD, hk']
      · have e' : ¬ ((k : Int) = (k' : Int)) := by omega
        have e'' : ¬ (some (k : Int) = some (k' : Int)) := by simpa using e'
        simp only [e'', if_false]
        have : (a.data.setIfInBounds k (a.data.getD k 0 + eval x τ t.2)).getD k' 0 = a.data.getD k' 0 := by
          simp only [Array.getD_eq_getD_getElem?]
          rw [Array.getElem?_setIfInBounds_ne (by omega)]
        rw [this]; grind

theorem leaf_acc (N : Nat) : ∀ (terms : List ATerm), (∀ t ∈ terms, t.noA A = true) →
    ∀ τ : St R, AOk A N τ → leafPre N terms τ →
    ∃ τ', execL x (terms.map (ATerm.stmt A)) τ = .ok τ' ∧
      Acc A (fun _ => False) (fun _ => False) (leafSum x terms τ) τ τ'
  | [], _, τ, hA, _ => by
    obtain ⟨a, ha, _⟩ := hA
    exact ⟨τ, rfl, (Acc.refl ha).congr (fun _ => rfl)⟩
  | t :: ts, hnoA, τ, hA, hpre => by
    simp only [leafPre] at hpre
    obtain ⟨⟨hs, k, hk, hkN⟩, hrest⟩ := hpre
    obtain ⟨τ₁, he, hacc⟩ := addAssign_acc x t N τ hA hs k hk hkN
    have hag : Agree A (fun _ => True) (fun _ => True) τ τ₁ :=
      hacc.agree.mono (fun _ _ => by simp) (fun _ _ => by simp)
    have hst := leaf_stable x ts (fun u hu => hnoA u (by simp [hu])) N hag
    obtain ⟨τ', he', hacc'⟩ := leaf_acc N ts (fun u hu => hnoA u (by simp [hu])) τ₁
      (AOk.of_acc hacc hA) (hst.1 hrest)
    refine ⟨τ', ?_, ?_⟩
    · simp only [List.map_cons, execL, he, he']
    · refine (hacc.trans hacc').congr ?_
      intro k'
      simp only [leafSum, hst.2 k']

theorem exec_asStmt (ss : List Stmt) (σ : St R) : exec x (asStmt ss) σ = execL x ss σ := by
  unfold asStmt
  split
  · rw [execL_singleton]
  · simp only [exec]

/-- **nest_accumulate.** The loop nest over `ls` (outermost first, any trip counts) around the
    statement list `A[idx_t] += rhs_t` (`t ∈ terms`), started in a state where `A` is a writable flat
    array of `N` scalars and every subscript/right-hand side is well defined at every index tuple,
    succeeds and adds `nestSum` to `A`; only the loop indices are overwritten besides. -/
theorem nest_accumulate (terms : List ATerm) (hnoA : ∀ t ∈ terms, t.noA A = true) (N : Nat) :
    ∀ (ls : List (String × Nat)) (τ : St R), AOk A N τ → nestPre N terms ls τ →
    ∃ τ', exec x (nestStmt ls (asStmt (terms.map (ATerm.stmt A)))) τ = .ok τ' ∧
      Acc A (fun n => n ∈ loopNames ls) (fun _ => False) (nestSum x terms ls τ) τ τ'
  | [], τ, hA, hpre => by
    obtain ⟨τ', he, hacc⟩ := leaf_acc x N terms hnoA τ hA hpre
    refine ⟨τ', ?_, (hacc.mono (fun _ h => h.elim) (fun _ h => h)).congr (fun _ => rfl)⟩
    simp only [nestStmt, exec_asStmt, he]
  | (i, n) :: ls, τ, hA, hpre => by
    let Wi : String → Prop := fun m => m ∈ loopNames ((i, n) :: ls)
    have hi : Wi i := by simp [Wi, loopNames]
    have hbody : ∀ υ : St R, (AOk A N υ ∧ nestPre N terms ls υ) →
        ∃ υ', execL x [nestStmt ls (asStmt (terms.map (ATerm.stmt A)))] υ = .ok υ' ∧
          Acc A Wi (fun _ => False) (nestSum x terms ls υ) υ υ' := by
      intro υ ⟨hAυ, hpυ⟩
      obtain ⟨υ', he, hacc⟩ := nest_accumulate terms hnoA N ls υ hAυ hpυ
      refine ⟨υ', by rw [execL_singleton]; exact he, hacc.mono ?_ (fun _ h => h)⟩
      intro m hm
      simp only [Wi, loopNames, List.map_cons, List.mem_cons]
      exact Or.inr hm
    have hstab : ∀ (v : Int) (υ υ' : St R) (d : Nat → R), Acc A Wi (fun _ => False) d υ υ' →
        ((AOk A N (υ.setIV i v) ∧ nestPre N terms ls (υ.setIV i v)) →
          (AOk A N (υ'.setIV i v) ∧ nestPre N terms ls (υ'.setIV i v))) ∧
        ∀ k, nestSum x terms ls (υ'.setIV i v) k = nestSum x terms ls (υ.setIV i v) k := by
      intro v υ υ' d hacc
      have hag : Agree A (fun m => m ∉ loopNames ls) (fun _ => True) (υ.setIV i v) (υ'.setIV i v) := by
        refine (hacc.agree.setIV i v).mono ?_ (fun _ _ => by simp)
        intro m hm
        by_cases e : m = i
        · exact Or.inr e
        · left
          simp only [Wi, loopNames, List.map_cons, List.mem_cons]
          intro h; rcases h with h | h
          · exact e h
          · exact hm h
      have hst := nest_stable x terms hnoA N ls hag
      exact ⟨fun ⟨h1, h2⟩ => ⟨(AOk.of_acc hacc (h1 : AOk A N υ)).setIV i v, hst.1 h2⟩, hst.2⟩
    have hA' := hA
    obtain ⟨a, ha, _⟩ := hA'
    have := forRange_accumulate x [nestStmt ls (asStmt (terms.map (ATerm.stmt A)))] i n hi
      (fun υ => AOk A N υ ∧ nestPre N terms ls υ) (nestSum x terms ls) hbody hstab τ ⟨a, ha⟩
      (fun t ht => ⟨hA.setIV i t, hpre t ht⟩)
    obtain ⟨τ', he, hacc⟩ := this
    exact ⟨τ', by simpa [nestStmt] using he, hacc.congr (fun _ => rfl)⟩

end Ffcx.Codegen
