/-
C16 — the C formatter does not raise on well-formed trees: `wfC` excludes the MathFunction calls
the handler rejects (complex scalar type, a SCALAR argument, no complex version of the function).
-/
import FfcxProofs.Lemmas.FormatStmtText
namespace Ffcx.LNodes.Fmt
open Ffcx.LNodes

mutual
theorem wfC_not_raises (sc : Scalar) : ∀ e : Expr, wfC sc e = true → raisesC sc e = false
  | .litF .., _ => rfl
  | .litI _, _ => rfl
  | .sym .., _ => rfl
  | .mi s z gi, h => by simp only [wfC] at h; simp only [raisesC]; exact wfC_not_raises sc gi h
  | .neg a, h => by simp only [wfC] at h; simp only [raisesC]; exact wfC_not_raises sc a h
  | .not a, h => by simp only [wfC] at h; simp only [raisesC]; exact wfC_not_raises sc a h
  | .bin op a b, h => by
    simp only [wfC, Bool.and_eq_true] at h
    simp only [raisesC, wfC_not_raises sc a h.1, wfC_not_raises sc b h.2, Bool.or_self]
  | .sum args, h => by
    simp only [wfC, Bool.and_eq_true] at h
    simp only [raisesC]; exact wfLC_not_raises sc args h.2
  | .prod args, h => by
    simp only [wfC, Bool.and_eq_true] at h
    simp only [raisesC]; exact wfLC_not_raises sc args h.2
  | .call f dt args, h => by
    simp only [wfC, Bool.and_eq_true] at h
    have h1 : callRaisesC sc f args = false := by
      have := h.1.1
      simp only [callOK, Bool.and_eq_true, Bool.not_eq_true'] at this
      exact this.1.2
    simp only [raisesC, h1, wfLC_not_raises sc args h.2, Bool.or_self]
  | .idx arr dt ix, h => by
    simp only [wfC, Bool.and_eq_true] at h
    simp only [raisesC]; exact wfLC_not_raises sc ix h.2
  | .cond c t f, h => by
    simp only [wfC, Bool.and_eq_true] at h
    simp only [raisesC, wfC_not_raises sc c h.1.1, wfC_not_raises sc t h.1.2, wfC_not_raises sc f h.2, Bool.or_self]
theorem wfLC_not_raises (sc : Scalar) : ∀ l : List Expr, wfLC sc l = true → raisesLC sc l = false
  | [], _ => rfl
  | a :: as, h => by
    simp only [wfLC, Bool.and_eq_true] at h
    simp only [raisesLC, wfC_not_raises sc a h.1, wfLC_not_raises sc as h.2, Bool.or_self]
end

mutual
theorem wfS_not_raises (sc : Scalar) : ∀ s : Stmt, wfS sc s = true → stmtRaisesC sc s = false
  | .assign l r, h => by
    simp only [wfS, Bool.and_eq_true] at h
    simp only [stmtRaisesC, wfC_not_raises sc l h.1.2, wfC_not_raises sc r h.2, Bool.or_self]
  | .addAssign l r, h => by
    simp only [wfS, Bool.and_eq_true] at h
    simp only [stmtRaisesC, wfC_not_raises sc l h.1.2, wfC_not_raises sc r h.2, Bool.or_self]
  | .vdecl n dt v, h => by
    simp only [wfS, Bool.and_eq_true] at h
    simp only [stmtRaisesC, wfC_not_raises sc v h.2]
  | .adecl .., _ => rfl
  | .forRange i lo hi body, h => by
    simp only [wfS, Bool.and_eq_true] at h
    simp only [stmtRaisesC, wfC_not_raises sc lo h.1.1.2, wfC_not_raises sc hi h.1.2, wfSL_not_raise sc body h.2,
      Bool.or_self]
  | .comment _, _ => rfl
  | .block ss, h => by simp only [wfS] at h; simp only [stmtRaisesC]; exact wfSL_not_raise sc ss h
  | .sect name decls stmts inp out an, h => by
    simp only [wfS, Bool.and_eq_true] at h
    simp only [stmtRaisesC, wfSL_not_raise sc decls h.1.2, wfSL_not_raise sc stmts h.2, Bool.or_self]
theorem wfSL_not_raise (sc : Scalar) : ∀ ss : List Stmt, wfSL sc ss = true → stmtsRaiseC sc ss = false
  | [], _ => rfl
  | s :: ss, h => by
    simp only [wfSL, Bool.and_eq_true] at h
    simp only [stmtsRaiseC, wfS_not_raises sc s h.1, wfSL_not_raise sc ss h.2, Bool.or_self]
end

end Ffcx.LNodes.Fmt
