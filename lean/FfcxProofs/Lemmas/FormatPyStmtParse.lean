/-
C16 — numba statements, token level: fuel monotonicity of the statement parser; tuples, list
displays, keyword arguments and `np.*(...)` calls as operands; every statement form in front of
arbitrary following tokens; `parse_tokens_stmt_py`.
-/
import FfcxProofs.Lemmas.FormatPyRTAll
import FfcxProofs.Lemmas.FormatStmtParse
import FfcxProofs.Lemmas.FormatPyShape
namespace Ffcx.LNodes.Fmt
open Ffcx.LNodes

/-! ## fuel monotonicity -/

theorem parseStmtPy_step : ∀ f,
    (∀ ts v, parseStmtPy f ts = some v → parseStmtPy (f + 1) ts = some v)
    ∧ (∀ ts v, parseStmtsPy f ts = some v → parseStmtsPy (f + 1) ts = some v) := by
  intro f
  induction f with
  | zero => exact ⟨fun ts v h => by simp [parseStmtPy] at h, fun ts v h => by simp [parseStmtsPy] at h⟩
  | succ f ih =>
    obtain ⟨ih1, ih2⟩ := ih
    constructor
    · intro ts v h
      rw [parseStmtPy] at h ⊢
      split
      · rename_i h1
        rw [if_pos h1] at h
        cases hh : forHeadPy ts.tail with
        | none => simp [hh] at h
        | some w =>
          obtain ⟨i, lo, hi, r2⟩ := w
          simp only [hh] at h ⊢
          cases hb : parseStmtsPy f r2 with
          | none => simp [hb] at h
          | some w2 => rw [hb] at h; rw [ih2 _ _ hb]; exact h
      · rename_i h1
        rw [if_neg h1] at h; exact h
    · intro ts v h
      rw [parseStmtsPy] at h ⊢
      split
      · rename_i h1; rw [if_pos h1] at h; exact h
      · rename_i h1
        rw [if_neg h1] at h
        split
        · rename_i h2; rw [if_pos h2] at h; exact h
        · rename_i h2
          rw [if_neg h2] at h
          split
          · rename_i h3; rw [if_pos h3] at h; exact ih2 _ _ h
          · rename_i h3
            rw [if_neg h3] at h
            cases hi : parseStmtPy f ts with
            | none => simp [hi] at h
            | some w =>
              obtain ⟨s, r⟩ := w
              rw [hi] at h; rw [ih1 _ _ hi]
              simp only [] at h ⊢
              cases hj : parseStmtsPy f r with
              | none => simp [hj] at h
              | some w2 => rw [hj] at h; rw [ih2 _ _ hj]; exact h

theorem parseStmtPy_mono {f f' ts v} (hle : f ≤ f') (h : parseStmtPy f ts = some v) : parseStmtPy f' ts = some v := by
  induction hle with
  | refl => exact h
  | step _ ih => exact (parseStmtPy_step _).1 _ _ ih

theorem parseStmtsPy_mono {f f' ts v} (hle : f ≤ f') (h : parseStmtsPy f ts = some v) : parseStmtsPy f' ts = some v := by
  induction hle with
  | refl => exact h
  | step _ ih => exact (parseStmtPy_step _).2 _ _ ih

/-! ## token lists that parse as one operand / one full expression -/

/-- `ts` is read as the operand `x` in front of anything that is no trailer -/
def OpPy (ts : List Tok) (x : PT) : Prop :=
  ∀ m rest F, headAll postStopPyT rest = true → 8 * ts.length ≤ F → pyOperand F m (ts ++ rest) = some (x, rest)

/-- `ts` is read as the full expression `x` in front of any closing token -/
structure FullPy (ts : List Tok) (x : PT) : Prop where
  full : ∀ rest F, headAll closedPyT rest = true → 8 * ts.length + 4 ≤ F → pyTest F (ts ++ rest) = some (x, rest)
  hd : ∃ t r, ts = t :: r ∧ t ≠ .p .rpar ∧ t ≠ .p .rbrack

theorem closedPy_postStop {rest} (hc : headAll closedPyT rest = true) : headAll postStopPyT rest = true :=
  noTighterPy_postStop (closedPy_noTighter (l := 0) hc)

theorem full_of_op {ts : List Tok} {x : PT} (h : OpPy ts x) (hd : ∃ t r, ts = t :: r ∧ t ≠ .p .rpar ∧ t ≠ .p .rbrack) :
    FullPy ts x := by
  refine ⟨?_, hd⟩
  intro rest F hc hF
  obtain ⟨n, rfl⟩ := Nat.exists_eq_add_of_le' (show 2 ≤ F by omega)
  rw [pyTest, pyLvl, h 1 rest n (closedPy_postStop hc) (by omega)]
  simp only []
  rw [pyLoop_stop (by omega) (closedPy_noTighter (l := 0) hc) (by omega)]
  simp only []
  cases rest with
  | nil => rfl
  | cons t r =>
    simp only [headAll, closedPyT, Bool.and_eq_true, bne_iff_ne, ne_eq] at hc
    simp only [hc.1.2, if_false]

theorem full_expr (e : Expr) (hwf : wfPy e = true) : FullPy (tkp e) (erasePy e) := by
  have h := rtp_all (esize e) e (Nat.le_refl _) hwf
  obtain ⟨t, r, ht, hst⟩ := h.hd
  exact ⟨h.full, ⟨t, r, ht, (pyStart_ne hst).1, (pyStart_ne hst).2⟩⟩

/-! ## items of a tuple / list / argument list -/

/-- one item in front of the closing token or of a comma and further items -/
structure StepItem (ts : List Tok) (x : PT) : Prop where
  hd : ∃ t r, ts = t :: r ∧ t ≠ .p .rpar ∧ t ≠ .p .rbrack
  last : ∀ close, close = .rpar ∨ close = .rbrack → ∀ f rest, 8 * ts.length + 5 ≤ f →
    pyItem f close (ts ++ .p close :: rest) = some ([x], rest)
  more : ∀ close, close = .rpar ∨ close = .rbrack → ∀ f R es r', 8 * ts.length + 4 ≤ f →
    pyItems f close R = some (es, r') → pyItem (f + 1) close (ts ++ .p .comma :: R) = some (x :: es, r')

theorem step_of_full {ts : List Tok} {x : PT} (h : FullPy ts x) : StepItem ts x := by
  refine ⟨h.hd, ?_, ?_⟩
  · intro close hcl f rest hF
    obtain ⟨n, rfl⟩ := Nat.exists_eq_add_of_le' (show 1 ≤ f by omega)
    have hcc : ¬ (Tok.p close = Tok.p P.assign) ∧ ¬ (Tok.p close = Tok.p P.comma) := by
      rcases hcl with rfl | rfl <;> decide
    rw [pyItem, h.full (.p close :: rest) n (closedPy_close close hcl rest) (by omega)]
    simp [hcc.1, hcc.2]
  · intro close hcl f R es r' hF hR
    rw [pyItem, h.full (.p .comma :: R) f rfl (by omega)]
    simp only [show ¬ (Tok.p P.comma = Tok.p P.assign) by decide, if_false, if_true]
    rw [hR]

/-- keyword argument `k = v` -/
theorem step_kw (k : String) (hk : validIdentPy k = true) {vts : List Tok} {v : PT} (hv : FullPy vts v) :
    StepItem (.id k :: .p .assign :: vts) (.kw k v) := by
  have hsym := rtp_sym (n := k) (dt := .real) (by simpa [wfPy] using hk)
  have hkf : ∀ R f, 8 * 1 + 4 ≤ f → pyTest f (.id k :: .p .assign :: R) = some (.id k, .p .assign :: R) := by
    intro R f hf
    have := hsym.full (.p .assign :: R) f rfl (by rw [tkp_sym]; simpa using hf)
    rw [tkp_sym] at this
    simpa [erasePy] using this
  refine ⟨⟨.id k, _, rfl, by simp, by simp⟩, ?_, ?_⟩
  · intro close hcl f rest hF
    simp only [List.length_cons] at hF
    obtain ⟨n, rfl⟩ := Nat.exists_eq_add_of_le' (show 1 ≤ f by omega)
    have hcc : ¬ (Tok.p close = Tok.p P.comma) := by rcases hcl with rfl | rfl <;> decide
    rw [List.cons_append, List.cons_append, pyItem, hkf _ n (by omega)]
    simp only [if_true, nameOf]
    rw [hv.full (.p close :: rest) n (closedPy_close close hcl rest) (by omega)]
    simp [hcc]
  · intro close hcl f R es r' hF hR
    simp only [List.length_cons] at hF
    rw [List.cons_append, List.cons_append, pyItem, hkf _ f (by omega)]
    simp only [if_true, nameOf]
    rw [hv.full (.p .comma :: R) f rfl (by omega)]
    simp only [if_true]
    rw [hR]

theorem joinT_head {sep : List Tok} {a : List Tok} {l : List (List Tok)} {t : Tok} {r : List Tok} (ha : a = t :: r) :
    ∃ r', joinT sep (a :: l) = t :: r' := by
  cases l with
  | nil => exact ⟨r, by simp [joinT, ha]⟩
  | cons b l => exact ⟨_, by rw [joinT_cons_cons, ha]; rfl⟩

/-- a non-empty comma-separated item list up to the closing token -/
theorem items_gen (close : P) (hcl : close = .rpar ∨ close = .rbrack) :
    ∀ (l : List (List Tok × PT)), l ≠ [] → (∀ p ∈ l, StepItem p.1 p.2) →
    ∀ rest F, 8 * (joinT [.p .comma] (l.map (·.1))).length + 8 ≤ F →
    pyItems F close (joinT [.p .comma] (l.map (·.1)) ++ .p close :: rest) = some (l.map (·.2), rest) := by
  intro l
  induction l with
  | nil => intro h; exact absurd rfl h
  | cons a l ih =>
    intro _ hall rest F hF
    have ha := hall a (by simp)
    obtain ⟨t, r, ht, hne1, hne2⟩ := ha.hd
    have hne : t ≠ .p close := by rcases hcl with rfl | rfl <;> assumption
    obtain ⟨n, rfl⟩ := Nat.exists_eq_add_of_le' (show 2 ≤ F by omega)
    obtain ⟨r', hj⟩ := joinT_head (sep := [.p .comma]) (l := l.map (·.1)) ht
    have hstart : pyItems (n + 2) close (joinT [.p .comma] ((a :: l).map (·.1)) ++ .p close :: rest)
        = pyItem (n + 1) close (joinT [.p .comma] ((a :: l).map (·.1)) ++ .p close :: rest) := by
      simp only [List.map_cons]
      rw [hj, List.cons_append, pyItems]
      simp only [hne, if_false]
    rw [hstart]
    cases l with
    | nil =>
      simp only [List.map_cons, List.map_nil, joinT] at hF ⊢
      exact ha.last close hcl (n + 1) rest (by omega)
    | cons b l =>
      simp only [List.map_cons] at hF ⊢
      rw [joinT_cons_cons] at hF ⊢
      simp only [List.length_append, List.length_cons, List.length_nil] at hF
      have e : a.1 ++ [Tok.p .comma] ++ joinT [.p .comma] (b.1 :: l.map (·.1)) ++ .p close :: rest
          = a.1 ++ .p .comma :: (joinT [.p .comma] (b.1 :: l.map (·.1)) ++ .p close :: rest) := by simp
      rw [e]
      have hR := ih (by simp) (fun p hp => hall p (by simp [List.mem_cons] at hp ⊢; right; exact hp)) rest n
        (by simp only [List.map_cons]; omega)
      simp only [List.map_cons] at hR
      exact ha.more close hcl n _ _ _ (by omega) hR

/-! ## tuples, lists, calls -/

/-- what stands between the parentheses of a tuple: nothing, `a,`, or `a, b, …` -/
def tupleBody : List (List Tok) → List Tok
  | [] => []
  | [a] => a ++ [.p .comma]
  | a :: b :: l => joinT [.p .comma] (a :: b :: l)

/-- `(a, b, …)` with at least two items, `(a,)`, `()` -/
theorem op_tuple (l : List (List Tok × PT)) (hall : ∀ p ∈ l, FullPy p.1 p.2) :
    OpPy ([.p .lpar] ++ tupleBody (l.map (·.1)) ++ [.p .rpar]) (.tuple (l.map (·.2))) := by
  intro m rest F hps hF
  cases l with
  | nil =>
    simp only [List.map_nil, tupleBody] at hF ⊢
    simp only [List.nil_append, List.cons_append, List.length_cons, List.length_nil] at hF ⊢
    obtain ⟨n, rfl⟩ := Nat.exists_eq_add_of_le' (show 2 ≤ F by omega)
    rw [pyOperand]
    simp only [show ¬ (Tok.p P.lpar = Tok.id "not") by simp, show ¬ (Tok.p P.lpar = Tok.p P.minus) by decide,
      if_false, if_true, List.head?_cons, List.tail_cons, List.map_nil]
    exact pyTrailers_stop (by omega) hps
  | cons a l =>
    have ha := hall a (by simp)
    obtain ⟨t, r, ht, hne1, _⟩ := ha.hd
    cases l with
    | nil =>
      simp only [List.map_cons, List.map_nil, tupleBody] at hF ⊢
      simp only [List.length_cons, List.length_append, List.length_nil] at hF
      obtain ⟨n, rfl⟩ := Nat.exists_eq_add_of_le' (show 3 ≤ F by omega)
      have e : [Tok.p .lpar] ++ (a.1 ++ [Tok.p .comma]) ++ [Tok.p .rpar] ++ rest
          = .p .lpar :: (a.1 ++ .p .comma :: .p .rpar :: rest) := by simp
      rw [e, pyOperand]
      simp only [show ¬ (Tok.p P.lpar = Tok.id "not") by simp, show ¬ (Tok.p P.lpar = Tok.p P.minus) by decide,
        if_false, if_true]
      have hh : ¬ ((a.1 ++ .p .comma :: .p .rpar :: rest).head? = some (.p .rpar)) := by
        rw [ht]; simpa using hne1
      rw [if_neg hh, ha.full _ (n + 2) rfl (by omega)]
      simp only [show ¬ (Tok.p P.comma = Tok.p P.rpar) by decide, if_false, if_true]
      rw [pyItems]
      simp only [if_true, List.map_cons, List.map_nil]
      exact pyTrailers_stop (by omega) hps
    | cons b l =>
      simp only [List.map_cons, tupleBody] at hF ⊢
      rw [joinT_cons_cons] at hF ⊢
      simp only [List.length_cons, List.length_append, List.length_nil] at hF
      obtain ⟨n, rfl⟩ := Nat.exists_eq_add_of_le' (show 3 ≤ F by omega)
      have e : [Tok.p .lpar] ++ (a.1 ++ [Tok.p .comma] ++ joinT [.p .comma] (b.1 :: l.map (·.1))) ++ [Tok.p .rpar] ++ rest
          = .p .lpar :: (a.1 ++ .p .comma :: (joinT [.p .comma] (b.1 :: l.map (·.1)) ++ .p .rpar :: rest)) := by simp
      rw [e, pyOperand]
      simp only [show ¬ (Tok.p P.lpar = Tok.id "not") by simp, show ¬ (Tok.p P.lpar = Tok.p P.minus) by decide,
        if_false, if_true]
      have hh : ¬ ((a.1 ++ .p .comma :: (joinT [.p .comma] (b.1 :: l.map (·.1)) ++ .p .rpar :: rest)).head?
          = some (.p .rpar)) := by
        rw [ht]; simpa using hne1
      rw [if_neg hh, ha.full _ (n + 2) rfl (by omega)]
      simp only [show ¬ (Tok.p P.comma = Tok.p P.rpar) by decide, if_false, if_true]
      have := items_gen .rpar (Or.inl rfl) (b :: l) (by simp)
        (fun p hp => step_of_full (hall p (by simp [List.mem_cons] at hp ⊢; right; exact hp))) rest (n + 2)
        (by simp only [List.map_cons]; omega)
      simp only [List.map_cons] at this
      rw [this]
      exact pyTrailers_stop (by omega) hps

/-- `[a, b, …]`, `[]` -/
theorem op_list (l : List (List Tok × PT)) (hall : ∀ p ∈ l, FullPy p.1 p.2) :
    OpPy ([.p .lbrack] ++ joinT [.p .comma] (l.map (·.1)) ++ [.p .rbrack]) (.list (l.map (·.2))) := by
  intro m rest F hps hF
  simp only [List.cons_append, List.nil_append, List.length_cons, List.length_append, List.length_nil] at hF ⊢
  obtain ⟨n, rfl⟩ := Nat.exists_eq_add_of_le' (show 2 ≤ F by omega)
  rw [pyOperand]
  simp only [show ¬ (Tok.p P.lbrack = Tok.id "not") by simp, show ¬ (Tok.p P.lbrack = Tok.p P.minus) by decide,
    show ¬ (Tok.p P.lbrack = Tok.p P.lpar) by decide, if_false, if_true]
  cases l with
  | nil =>
    have e : joinT [Tok.p .comma] (([] : List (List Tok × PT)).map (·.1)) ++ [Tok.p .rbrack] ++ rest = .p .rbrack :: rest := by
      simp [joinT]
    rw [e, pyItems]
    simp only [if_true]
    exact pyTrailers_stop (by omega) hps
  | cons a l =>
    have := items_gen .rbrack (Or.inr rfl) (a :: l) (by simp) (fun p hp => step_of_full (hall p hp)) rest (n + 1)
      (by omega)
    have e : joinT [Tok.p .comma] ((a :: l).map (·.1)) ++ [Tok.p .rbrack] ++ rest
        = joinT [Tok.p .comma] ((a :: l).map (·.1)) ++ .p .rbrack :: rest := by simp
    rw [e, this]
    exact pyTrailers_stop (by omega) hps


/-! ## calls `np.f(items)` -/

theorem op_dotted2 (a b : String) (ha : pyKeywords.contains a = false) (hn : a ≠ "not") :
    OpPy [.id a, .p .dot, .id b] (.id (a ++ "." ++ b)) := by
  intro m rest F hps hF
  simp only [List.length_cons, List.length_nil] at hF
  obtain ⟨n, rfl⟩ := Nat.exists_eq_add_of_le' (show 2 ≤ F by omega)
  exact py_dotted2 a b ha hn (pyTrailers_stop (by omega) hps)

theorem full_dotted2 (a b : String) (ha : pyKeywords.contains a = false) (hn : a ≠ "not") :
    FullPy [.id a, .p .dot, .id b] (.id (a ++ "." ++ b)) :=
  full_of_op (op_dotted2 a b ha hn) ⟨_, _, rfl, by simp, by simp⟩

/-- `np.f(item, …)` with at least one item -/
theorem op_npcall (f : String) (l : List (List Tok × PT)) (hne : l ≠ []) (hall : ∀ p ∈ l, StepItem p.1 p.2) :
    OpPy ([.id "np", .p .dot, .id f, .p .lpar] ++ joinT [.p .comma] (l.map (·.1)) ++ [.p .rpar])
      (.call ("np" ++ "." ++ f) (l.map (·.2))) := by
  intro m rest F hps hF
  simp only [List.length_cons, List.length_append, List.length_nil] at hF
  obtain ⟨n, rfl⟩ := Nat.exists_eq_add_of_le' (show 4 ≤ F by omega)
  have e : [Tok.id "np", .p .dot, .id f, .p .lpar] ++ joinT [.p .comma] (l.map (·.1)) ++ [.p .rpar] ++ rest
      = .id "np" :: .p .dot :: .id f :: (.p .lpar :: (joinT [.p .comma] (l.map (·.1)) ++ .p .rpar :: rest)) := by simp
  rw [e]
  refine py_dotted2 "np" f (by decide) (by decide) (n := n + 2) ?_
  rw [pyTrailers]
  simp only [show ¬ (Tok.p P.lpar = Tok.p P.dot) by decide, if_false, if_true, nameOf]
  rw [items_gen .rpar (Or.inl rfl) l hne hall rest (n + 1) (by omega)]
  simp only []
  exact pyTrailers_stop (by omega) hps

/-! ## the pieces of an array declaration -/

theorem fmtInt_nat (n : Nat) : fmtInt (n : Int) = natDigits n := by
  simp [fmtInt]

/-- a dimension `n` -/
theorem full_nat (n : Nat) : FullPy [.num (String.ofList (natDigits n))] (.num (String.ofList (natDigits n))) := by
  have hwf : wfPy (.litI (n : Int)) = true := by
    simp only [wfPy, pyLitShapeOK_eq]
  have hs : pyNumShape (natDigits n) = true := by
    have := pyNumShape_fmtInt (n : Int) (by omega); rwa [fmtInt_nat] at this
  obtain ⟨c, r, hcr, hc⟩ := pyNumShape_head hs
  have hn : ¬ ((n : Int) < 0) := by omega
  have e1 : tkp (.litI (n : Int)) = [.num (String.ofList (natDigits n))] := by
    simp [tkp, tokExprPy, piecesPy, pyNumber, fmtInt_nat, hcr, numPieces_pos hc, toks]
  have e2 : erasePy (.litI (n : Int)) = .num (String.ofList (natDigits n)) := by
    simp [erasePy, hn, fmtInt_nat]
  have := full_expr (.litI (n : Int)) hwf
  rwa [e1, e2] at this

/-- the shape tuple -/
theorem full_sizes (sizes : List Nat) : FullPy (tupleToks sizes) (sizesPT sizes) := by
  have h := op_tuple (sizes.map (fun n => ([Tok.num (String.ofList (natDigits n))], PT.num (String.ofList (natDigits n)))))
    (by intro p hp; simp only [List.mem_map] at hp; obtain ⟨n, _, rfl⟩ := hp; exact full_nat n)
  have e : tupleToks sizes = [Tok.p .lpar] ++ tupleBody ((sizes.map (fun n => ([Tok.num (String.ofList (natDigits n))], PT.num (String.ofList (natDigits n))))).map (·.1)) ++ [.p .rpar] := by
    cases sizes with
    | nil => rfl
    | cons a l =>
      cases l with
      | nil => rfl
      | cons b l => simp [tupleToks, tupleBody, List.map_map, Function.comp_def]
  have e2 : sizesPT sizes = .tuple ((sizes.map (fun n => ([Tok.num (String.ofList (natDigits n))], PT.num (String.ofList (natDigits n))))).map (·.2)) := by
    simp [sizesPT, List.map_map, Function.comp_def]
  rw [e, e2]
  exact full_of_op h ⟨_, _, rfl, by decide, by decide⟩

/-- a numeric literal as an item -/
theorem full_lit (v : Expr) (hl : isLit v = true) (hwf : wfPy v = true) : FullPy (toks (pyNumber v)) (erasePy v) := by
  have := full_expr v hwf
  have e : tkp v = toks (pyNumber v) := by cases v <;> simp [isLit] at hl <;> simp [tkp, tokExprPy, piecesPy]
  rwa [e] at this

/-- nested list displays -/
theorem full_initPy : ∀ (shape : List Nat) (vals : List Expr),
    (∀ v ∈ vals, isLit v = true ∧ wfPy v = true) → FullPy (initToksPy shape vals) (initPTPy shape vals) := by
  intro shape
  induction shape with
  | nil =>
    intro vals _
    have := op_list [] (by simp)
    exact full_of_op (by simpa [initToksPy, initPTPy, joinT] using this) ⟨_, _, rfl, by decide, by decide⟩
  | cons d tl ih =>
    intro vals hv
    cases tl with
    | nil =>
      have := op_list (vals.map (fun v => (toks (pyNumber v), erasePy v))) (by
        intro p hp
        simp only [List.mem_map] at hp
        obtain ⟨v, hvm, rfl⟩ := hp
        exact full_lit v (hv v hvm).1 (hv v hvm).2)
      exact full_of_op (by simpa [initToksPy, initPTPy, List.map_map, Function.comp_def] using this)
        ⟨_, _, rfl, by decide, by decide⟩
    | cons d' ds =>
      have := op_list (((chunks ((d' :: ds).foldr (· * ·) 1) d vals)).map
          (fun c => (initToksPy (d' :: ds) c, initPTPy (d' :: ds) c))) (by
        intro p hp
        simp only [List.mem_map] at hp
        obtain ⟨c, hc, rfl⟩ := hp
        exact ih c (fun v hvc => hv v (chunks_mem _ _ _ _ hc v hvc)))
      exact full_of_op (by simpa [initToksPy, initPTPy, List.map_map, Function.comp_def] using this)
        ⟨_, _, rfl, by decide, by decide⟩

/-- `dtype=np.float64` -/
theorem step_dtype {sc : Scalar} {dt : DType} {ty : String} (h : pyTypeName sc dt = some ty) :
    StepItem (dtypeKwToks ty) (.kw "dtype" (.id ty)) := by
  have key : ∀ b : String, StepItem ([Tok.id "dtype", .p .assign] ++ [Tok.id "np", .p .dot, .id b])
      (.kw "dtype" (.id ("np" ++ "." ++ b))) :=
    fun b => step_kw "dtype" (by decide +kernel) (full_dotted2 "np" b (by decide) (by decide))
  cases sc <;> cases dt <;> simp [pyTypeName, Scalar.name, Scalar.real] at h <;> subst h
  all_goals first
    | exact key "float64" | exact key "float32" | exact key "complex128" | exact key "complex64"
    | exact key "int32" | exact key "bool_"


/-! ## single statements -/

theorem closedPy_newline (r : List Tok) : headAll closedPyT (.newline :: r) = true := rfl

/-- head of an lvalue's tokens: an identifier that is no keyword -/
theorem lvalue_head (l : Expr) (hlv : isLvalue l = true) (hl : wfPy l = true) :
    ∃ n r, tkp l = .id n :: r ∧ validIdentPy n = true := by
  cases l with
  | sym n dt => exact ⟨n, [], tkp_sym n dt, by simpa [wfPy] using hl⟩
  | idx arr dt ix =>
    simp only [wfPy, Bool.and_eq_true] at hl
    exact ⟨arr, _, by rw [tkp_idx], hl.1.1⟩
  | _ => simp [isLvalue] at hlv

theorem validIdentPy_ne {n : String} (h : validIdentPy n = true) {k : String} (hk : pyKeywords.contains k = true) :
    n ≠ k := by
  intro e; subst e
  rw [validIdentPy_not_kw h] at hk; exact absurd hk (by decide)

/-- `target = expr NEWLINE` / `target += expr NEWLINE` -/
theorem simple_stmt (l : Expr) (hlv : isLvalue l = true) (hl : wfPy l = true) (o : P)
    (ho : o = .assign ∨ o = .plusAssign) {rts : List Tok} {rx : PT} (hr : FullPy rts rx) (rest : List Tok) :
    simpleStmtPy (tkp l ++ .p o :: (rts ++ .newline :: rest))
      = some (.assign (decide (o = .plusAssign)) (erasePy l) rx, rest) := by
  have rl := rtp_all (esize l) l (Nat.le_refl _) hl
  have hlp : 7 ≤ lvPy (precF l) := by
    cases l <;> simp [isLvalue] at hlv <;> simp [precF, Expr.prec, lvPy]
  unfold simpleStmtPy
  have h1 : pyOperand (fuelFor (tkp l ++ .p o :: (rts ++ .newline :: rest))) 7 (tkp l ++ .p o :: (rts ++ .newline :: rest))
      = some (erasePy l, .p o :: (rts ++ .newline :: rest)) := by
    refine rl.un hlp 7 _ _ ?_ ?_
    · rcases ho with rfl | rfl <;> rfl
    · simp only [fuelFor, List.length_append]; omega
  rw [h1]
  have h2 := hr.full (.newline :: rest) (fuelFor (rts ++ .newline :: rest)) (closedPy_newline rest)
    (by simp only [fuelFor, List.length_append]; omega)
  rcases ho with rfl | rfl <;> simp [h2]

/-- the dispatcher on a simple statement -/
theorem parseStmtPy_simple (l : Expr) (hlv : isLvalue l = true) (hl : wfPy l = true) (o : P)
    (ho : o = .assign ∨ o = .plusAssign) {rts : List Tok} {rx : PT} (hr : FullPy rts rx) (rest : List Tok) (F : Nat) :
    parseStmtPy (F + 1) (tkp l ++ .p o :: (rts ++ .newline :: rest))
      = some (.assign (decide (o = .plusAssign)) (erasePy l) rx, rest) := by
  obtain ⟨n, r, hn, hv⟩ := lvalue_head l hlv hl
  rw [parseStmtPy]
  have hh : ¬ ((tkp l ++ .p o :: (rts ++ .newline :: rest)).head? = some (.id "for")) := by
    rw [hn]
    simp only [List.cons_append, List.head?_cons, Option.some.injEq, Tok.id.injEq]
    exact validIdentPy_ne hv (by decide)
  rw [if_neg hh]
  exact simple_stmt l hlv hl o ho hr rest

/-- one statement in front of a parsed tail (numba) -/
theorem parseStmtsPy_cons {F : Nat} {ts : List Tok} {s : PS} {rest : List Tok} {tail : List PS} {r' : List Tok}
    (hne : ∃ t r, ts = t :: r ∧ t ≠ .dedent ∧ t ≠ .id "pass")
    (h1 : parseStmtPy F ts = some (s, rest)) (h2 : parseStmtsPy F rest = some (tail, r')) :
    parseStmtsPy (F + 1) ts = some (s :: tail, r') := by
  obtain ⟨t, r, rfl, ht1, ht2⟩ := hne
  rw [parseStmtsPy]
  rw [if_neg (by simp), if_neg (by simpa using ht1), if_neg (by simp; intro h; exact absurd h ht2), h1]
  simp only []
  rw [h2]

/-- a simple statement in front of a parsed tail -/
theorem simple_prefix (l : Expr) (hlv : isLvalue l = true) (hl : wfPy l = true) (o : P)
    (ho : o = .assign ∨ o = .plusAssign) {rts : List Tok} {rx : PT} (hr : FullPy rts rx)
    (k : Nat) (rest : List Tok) (tail : List PS) (r' : List Tok) (F : Nat)
    (hk : parseStmtsPy k rest = some (tail, r')) (hF : k + 2 ≤ F) :
    parseStmtsPy F (tkp l ++ .p o :: (rts ++ .newline :: rest))
      = some (.assign (decide (o = .plusAssign)) (erasePy l) rx :: tail, r') := by
  obtain ⟨n, r, hn, hv⟩ := lvalue_head l hlv hl
  obtain ⟨F2, rfl⟩ := Nat.exists_eq_add_of_le' (show 2 ≤ F by omega)
  refine parseStmtsPy_cons ⟨.id n, _, by rw [hn]; rfl, by simp, ?_⟩
    (parseStmtPy_simple l hlv hl o ho hr rest F2) (parseStmtsPy_mono (by omega) hk)
  intro e; injection e with e
  exact validIdentPy_ne hv (by decide) e

/-- a `for` loop whose body parses -/
theorem parseStmtPy_for (i : String) (lo hi : Expr) (hlo : wfPy lo = true) (hhi : wfPy hi = true)
    (bodyT : List Tok) (B : List PS) (rest : List Tok) (F : Nat)
    (hb : parseStmtsPy F (bodyT ++ .dedent :: rest) = some (B, .dedent :: rest)) :
    parseStmtPy (F + 1) (.id "for" :: .id i :: .id "in" :: .id "range" :: .p .lpar :: (tkp lo ++
        .p .comma :: (tkp hi ++ .p .rpar :: .p .colon :: .newline :: .indent :: (bodyT ++ .dedent :: rest))))
      = some (.loop i (erasePy lo) (erasePy hi) B, rest) := by
  have rlo := rtp_all (esize lo) lo (Nat.le_refl _) hlo
  have rhi := rtp_all (esize hi) hi (Nat.le_refl _) hhi
  rw [parseStmtPy]
  simp only [List.head?_cons, if_true, List.tail_cons]
  have hhead : forHeadPy (.id i :: .id "in" :: .id "range" :: .p .lpar :: (tkp lo ++
        .p .comma :: (tkp hi ++ .p .rpar :: .p .colon :: .newline :: .indent :: (bodyT ++ .dedent :: rest))))
      = some (i, erasePy lo, erasePy hi, bodyT ++ .dedent :: rest) := by
    unfold forHeadPy
    simp only [and_self, if_true, nameOf']
    rw [rlo.full _ _ rfl (by simp only [fuelFor, List.length_append]; omega)]
    simp only [List.head?_cons, if_true, List.tail_cons]
    rw [rhi.full _ _ rfl (by simp only [fuelFor, List.length_append]; omega)]
    simp
  rw [hhead]
  simp only []
  rw [hb]
  simp


/-! ## all statements -/

mutual
/-- a statement without tokens (comments, empty lists) erases to nothing -/
theorem tokStmtPy_empty (sc : Scalar) : ∀ s : Stmt, tokStmtPy sc s = [] → eraseStmtPy sc s = []
  | .assign l r, h => by simp [tokStmtPy] at h
  | .addAssign l r, h => by simp [tokStmtPy] at h
  | .vdecl n dt v, h => by simp [tokStmtPy] at h
  | .adecl n dt sizes c vals, h => by
    cases vals with
    | none => simp [tokStmtPy] at h
    | some vs =>
      cases vs with
      | nil => simp [tokStmtPy] at h
      | cons v vs => cases vs <;> simp [tokStmtPy] at h
  | .forRange i lo hi body, h => by simp [tokStmtPy] at h
  | .comment t, _ => by simp [eraseStmtPy]
  | .block ss, h => by
    simp only [tokStmtPy] at h; simp only [eraseStmtPy]; exact tokStmtsPy_empty sc ss h
  | .sect name decls stmts inp out an, h => by
    simp only [tokStmtPy, List.append_eq_nil_iff] at h
    simp only [eraseStmtPy, tokStmtsPy_empty sc decls h.1, tokStmtsPy_empty sc stmts h.2, List.append_nil]
theorem tokStmtsPy_empty (sc : Scalar) : ∀ ss : List Stmt, tokStmtsPy sc ss = [] → eraseStmtsPy sc ss = []
  | [], _ => rfl
  | s :: ss, h => by
    simp only [tokStmtsPy, List.append_eq_nil_iff] at h
    simp only [eraseStmtsPy, tokStmtPy_empty sc s h.1, tokStmtsPy_empty sc ss h.2, List.append_nil]
end

theorem parseStmtsPy_dedent (k : Nat) (rest : List Tok) :
    parseStmtsPy (k + 1) (.dedent :: rest) = some ([], .dedent :: rest) := by
  rw [parseStmtsPy]; simp

theorem tokStmtsPy_cons_len (sc : Scalar) (s : Stmt) (ss : List Stmt) :
    (tokStmtsPy sc (s :: ss)).length = (tokStmtPy sc s).length + (tokStmtsPy sc ss).length := by
  simp [tokStmtsPy]

theorem full_sym (n : String) (hn : validIdentPy n = true) : wfPy (.sym n .real) = true := by simpa [wfPy] using hn

/-- the right-hand side of an array declaration -/
theorem full_adecl_rhs (sc : Scalar) (dt : DType) (ty : String) (hty : pyTypeName sc dt = some ty)
    (sizes : List Nat) (vals : Option (List Expr))
    (hv : ∀ vs, vals = some vs → ∀ v ∈ vs, isLit v = true ∧ wfPy v = true) :
    ∃ rts rx, FullPy rts rx
      ∧ tokStmtPy sc (.adecl n dt sizes c vals) = [Tok.id n, .p .assign] ++ rts ++ [.newline]
      ∧ eraseStmtPy sc (.adecl n dt sizes c vals) = [.assign false (.id n) rx] := by
  have hd := step_dtype hty
  cases vals with
  | none =>
    have h := op_npcall "empty" [(tupleToks sizes, sizesPT sizes), (dtypeKwToks ty, .kw "dtype" (.id ty))] (by simp)
      (by
        intro p hp
        simp only [List.mem_cons, List.mem_nil_iff, or_false] at hp
        rcases hp with rfl | rfl
        · exact step_of_full (full_sizes sizes)
        · exact hd)
    refine ⟨_, _, full_of_op h ⟨_, _, rfl, by simp, by simp⟩, ?_, ?_⟩
    · simp [tokStmtPy, hty, joinT]
    · simp only [eraseStmtPy, hty, Option.getD_some, List.map_cons, List.map_nil]
      have : ("np" ++ "." ++ "empty" : String) = "np.empty" := by decide
      rw [this]
  | some vs =>
    have hvs := hv vs rfl
    by_cases h1 : ∃ v, vs = [v]
    · obtain ⟨v, rfl⟩ := h1
      have hv1 := hvs v (by simp)
      have h := op_npcall "full" [(tupleToks sizes, sizesPT sizes), (toks (pyNumber v), erasePy v),
          (dtypeKwToks ty, .kw "dtype" (.id ty))] (by simp)
        (by
          intro p hp
          simp only [List.mem_cons, List.mem_nil_iff, or_false] at hp
          rcases hp with rfl | rfl | rfl
          · exact step_of_full (full_sizes sizes)
          · exact step_of_full (full_lit v hv1.1 hv1.2)
          · exact hd)
      refine ⟨_, _, full_of_op h ⟨_, _, rfl, by simp, by simp⟩, ?_, ?_⟩
      · simp [tokStmtPy, hty, joinT]
      · simp only [eraseStmtPy, hty, Option.getD_some, List.map_cons, List.map_nil]
        have : ("np" ++ "." ++ "full" : String) = "np.full" := by decide
        rw [this]
    · have h := op_npcall "array" [(initToksPy (initShape sizes vs) vs, initPTPy (initShape sizes vs) vs),
          (dtypeKwToks ty, .kw "dtype" (.id ty))] (by simp)
        (by
          intro p hp
          simp only [List.mem_cons, List.mem_nil_iff, or_false] at hp
          rcases hp with rfl | rfl
          · exact step_of_full (full_initPy _ vs hvs)
          · exact hd)
      refine ⟨_, _, full_of_op h ⟨_, _, rfl, by simp, by simp⟩, ?_, ?_⟩
      · cases vs with
        | nil => simp [tokStmtPy, hty, joinT]
        | cons a l =>
          cases l with
          | nil => exact absurd ⟨a, rfl⟩ h1
          | cons b l => simp [tokStmtPy, hty, joinT]
      · have : ("np" ++ "." ++ "array" : String) = "np.array" := by decide
        cases vs with
        | nil => simp only [eraseStmtPy, hty, Option.getD_some, List.map_cons, List.map_nil, this]
        | cons a l =>
          cases l with
          | nil => exact absurd ⟨a, rfl⟩ h1
          | cons b l => simp only [eraseStmtPy, hty, Option.getD_some, List.map_cons, List.map_nil, this]

mutual
/-- a statement's tokens in front of a parsed tail parse to its erasure followed by that tail -/
theorem stmtpy_prefix (sc : Scalar) : ∀ (s : Stmt), wfSPy sc s = true →
    ∀ (k : Nat) (rest : List Tok) (tail : List PS) (r' : List Tok) (F : Nat),
    parseStmtsPy k rest = some (tail, r') → k + 2 * (tokStmtPy sc s).length ≤ F →
    parseStmtsPy F (tokStmtPy sc s ++ rest) = some (eraseStmtPy sc s ++ tail, r')
  | .assign l r, hwf, k, rest, tail, r', F, hk, hF => by
    simp only [wfSPy, Bool.and_eq_true] at hwf
    obtain ⟨⟨hlv, hl⟩, hr⟩ := hwf
    simp only [tokStmtPy, List.length_append, List.length_cons, List.length_nil] at hF
    have e : tokStmtPy sc (.assign l r) ++ rest = tkp l ++ .p .assign :: (tkp r ++ .newline :: rest) := by
      simp [tokStmtPy, tkp]
    rw [e]
    exact simple_prefix l hlv hl .assign (Or.inl rfl) (full_expr r hr) k rest tail r' F hk (by omega)
  | .addAssign l r, hwf, k, rest, tail, r', F, hk, hF => by
    simp only [wfSPy, Bool.and_eq_true] at hwf
    obtain ⟨⟨hlv, hl⟩, hr⟩ := hwf
    simp only [tokStmtPy, List.length_append, List.length_cons, List.length_nil] at hF
    have e : tokStmtPy sc (.addAssign l r) ++ rest = tkp l ++ .p .plusAssign :: (tkp r ++ .newline :: rest) := by
      simp [tokStmtPy, tkp]
    rw [e]
    exact simple_prefix l hlv hl .plusAssign (Or.inr rfl) (full_expr r hr) k rest tail r' F hk (by omega)
  | .vdecl n dt v, hwf, k, rest, tail, r', F, hk, hF => by
    simp only [wfSPy, Bool.and_eq_true] at hwf
    obtain ⟨hn, hv⟩ := hwf
    simp only [tokStmtPy, List.length_append, List.length_cons, List.length_nil] at hF
    have e : tokStmtPy sc (.vdecl n dt v) ++ rest = tkp (.sym n .real) ++ .p .assign :: (tkp v ++ .newline :: rest) := by
      simp [tokStmtPy, tkp_sym]
    rw [e]
    have := simple_prefix (.sym n .real) rfl (full_sym n hn) .assign (Or.inl rfl) (full_expr v hv) k rest tail r' F hk (by omega)
    simpa [eraseStmtPy, erasePy] using this
  | .adecl n dt sizes c vals, hwf, k, rest, tail, r', F, hk, hF => by
    simp only [wfSPy, Bool.and_eq_true, Option.isSome_iff_exists] at hwf
    obtain ⟨⟨hn, ⟨ty, hty⟩⟩, hvals⟩ := hwf
    obtain ⟨rts, rx, hfull, htok, her⟩ := full_adecl_rhs (n := n) (c := c) sc dt ty hty sizes vals (by
      intro vs hvs v hv
      subst hvs
      simp only [List.all_eq_true, Bool.and_eq_true] at hvals
      exact hvals v hv)
    rw [htok] at hF ⊢
    simp only [List.length_append, List.length_cons, List.length_nil] at hF
    have e : [Tok.id n, .p .assign] ++ rts ++ [.newline] ++ rest
        = tkp (.sym n .real) ++ .p .assign :: (rts ++ .newline :: rest) := by
      simp [tkp_sym]
    rw [e, her]
    have := simple_prefix (.sym n .real) rfl (full_sym n hn) .assign (Or.inl rfl) hfull k rest tail r' F hk (by omega)
    simpa [erasePy] using this
  | .forRange i lo hi body, hwf, k, rest, tail, r', F, hk, hF => by
    simp only [wfSPy, Bool.and_eq_true] at hwf
    obtain ⟨⟨⟨hi', hlo⟩, hhi⟩, hbody⟩ := hwf
    -- the body between INDENT and DEDENT
    have hbodyP : ∀ F2, 2 + 2 * (tokStmtsPy sc body).length ≤ F2 →
        parseStmtsPy F2 ((if (tokStmtsPy sc body).isEmpty then [Tok.id "pass", .newline] else tokStmtsPy sc body)
          ++ .dedent :: rest) = some (eraseStmtsPy sc body, .dedent :: rest) := by
      intro F2 hF2
      by_cases hemp : (tokStmtsPy sc body).isEmpty = true
      · have h0 : tokStmtsPy sc body = [] := by simpa using hemp
        rw [if_pos hemp, tokStmtsPy_empty sc body h0]
        obtain ⟨F3, rfl⟩ := Nat.exists_eq_add_of_le' (show 2 ≤ F2 by omega)
        rw [List.cons_append, List.cons_append, List.nil_append, parseStmtsPy]
        rw [if_neg (by simp), if_neg (by simp), if_pos (by simp)]
        exact parseStmtsPy_dedent F3 rest
      · rw [if_neg hemp]
        have := stmtspy_prefix sc body hbody 1 (.dedent :: rest) [] (.dedent :: rest) F2
          (parseStmtsPy_dedent 0 rest) (by omega)
        rwa [List.append_nil] at this
    have hlen : (tokStmtPy sc (.forRange i lo hi body)).length ≥ (tokStmtsPy sc body).length + 10 := by
      by_cases hemp : (tokStmtsPy sc body).isEmpty = true
      · have h0 : (tokStmtsPy sc body).length = 0 := by simpa using hemp
        simp only [tokStmtPy, hemp, if_true, List.length_append, List.length_cons, List.length_nil]
        omega
      · simp only [tokStmtPy, hemp, Bool.false_eq_true, if_false, List.length_append, List.length_cons, List.length_nil]
        omega
    obtain ⟨F2, rfl⟩ := Nat.exists_eq_add_of_le' (show 2 ≤ F by omega)
    have e : tokStmtPy sc (.forRange i lo hi body) ++ rest
        = .id "for" :: .id i :: .id "in" :: .id "range" :: .p .lpar :: (tkp lo ++
        .p .comma :: (tkp hi ++ .p .rpar :: .p .colon :: .newline :: .indent ::
          ((if (tokStmtsPy sc body).isEmpty then [Tok.id "pass", .newline] else tokStmtsPy sc body)
            ++ .dedent :: rest))) := by
      by_cases hemp : (tokStmtsPy sc body).isEmpty = true <;> simp [tokStmtPy, hemp, tkp]
    rw [e]
    have := parseStmtsPy_cons ⟨_, _, rfl, by simp, by simp⟩
      (parseStmtPy_for i lo hi hlo hhi _ _ rest F2 (hbodyP F2 (by omega))) (parseStmtsPy_mono (by omega) hk)
    rw [this]
    simp [eraseStmtPy]
  | .comment t, _, k, rest, tail, r', F, hk, hF => by
    simp only [tokStmtPy, eraseStmtPy, List.nil_append]
    exact parseStmtsPy_mono (by omega) hk
  | .block ss, hwf, k, rest, tail, r', F, hk, hF => by
    simp only [wfSPy] at hwf
    simp only [tokStmtPy, eraseStmtPy] at hF ⊢
    exact stmtspy_prefix sc ss hwf k rest tail r' F hk hF
  | .sect name decls stmts inp out an, hwf, k, rest, tail, r', F, hk, hF => by
    simp only [wfSPy, Bool.and_eq_true] at hwf
    simp only [tokStmtPy, eraseStmtPy, List.length_append] at hF ⊢
    have h1 := stmtspy_prefix sc stmts hwf.2 k rest tail r' (k + 2 * (tokStmtsPy sc stmts).length) hk (Nat.le_refl _)
    have h2 := stmtspy_prefix sc decls hwf.1 _ _ _ r' F h1 (by omega)
    simpa using h2
theorem stmtspy_prefix (sc : Scalar) : ∀ (ss : List Stmt), wfSLPy sc ss = true →
    ∀ (k : Nat) (rest : List Tok) (tail : List PS) (r' : List Tok) (F : Nat),
    parseStmtsPy k rest = some (tail, r') → k + 2 * (tokStmtsPy sc ss).length ≤ F →
    parseStmtsPy F (tokStmtsPy sc ss ++ rest) = some (eraseStmtsPy sc ss ++ tail, r')
  | [], _, k, rest, tail, r', F, hk, hF => by
    simp only [tokStmtsPy, eraseStmtsPy, List.nil_append]
    exact parseStmtsPy_mono (by omega) hk
  | s :: ss, hwf, k, rest, tail, r', F, hk, hF => by
    simp only [wfSLPy, Bool.and_eq_true] at hwf
    rw [tokStmtsPy_cons_len] at hF
    have h1 := stmtspy_prefix sc ss hwf.2 k rest tail r' (k + 2 * (tokStmtsPy sc ss).length) hk (Nat.le_refl _)
    have h2 := stmtpy_prefix sc s hwf.1 _ _ _ r' F h1 (by omega)
    simpa [tokStmtsPy, eraseStmtsPy] using h2
end

/-- **token level (numba)**: the intended token stream of a well-formed statement parses to its erasure -/
theorem parse_tokens_stmt_py (sc : Scalar) (s : Stmt) (hwf : wfSPy sc s = true) :
    parseStmtsTopPy (tokStmtPy sc s) = some (eraseStmtPy sc s) := by
  unfold parseStmtsTopPy
  have h0 : parseStmtsPy 1 [] = some ([], []) := by rw [parseStmtsPy]; simp
  have := stmtpy_prefix sc s hwf 1 [] [] [] (2 * (tokStmtPy sc s).length + 2) h0 (by omega)
  simp only [List.append_nil] at this
  rw [this]

end Ffcx.LNodes.Fmt
