/-
C16 — no token fusion, structural part 1: first/last token pieces, appending separated piece
lists, which characters end a pending token.
-/
import FfcxProofs.Lemmas.FormatLex
namespace Ffcx.LNodes.Fmt
open Ffcx.LNodes

/-! ## first and last token pieces; appending separated lists -/

def firstP : List Piece → Option Tok
  | .t a :: _ => some a
  | _ => none

def lastP : List Piece → Option Tok
  | [] => none
  | [.t a] => some a
  | [.ws _] => none
  | _ :: p :: ps => lastP (p :: ps)

theorem lastP_append_cons (a : List Piece) (p : Piece) (b : List Piece) :
    lastP (a ++ p :: b) = lastP (p :: b) := by
  induction a with
  | nil => rfl
  | cons x xs ih =>
    cases xs with
    | nil => simp [lastP]
    | cons y ys => simpa [lastP] using ih

theorem firstP_append {a : List Piece} (b : List Piece) (h : a ≠ []) : firstP (a ++ b) = firstP a := by
  cases a with
  | nil => exact absurd rfl h
  | cons x xs => cases x <;> rfl

theorem separated_append {a b : List Piece} (ha : separated a = true) (hb : separated b = true)
    (hbr : ∀ x y, lastP a = some x → firstP b = some y → sepTok x y = true) :
    separated (a ++ b) = true := by
  induction a with
  | nil => exact hb
  | cons pc a' ih =>
    cases pc with
    | ws s =>
      simp only [List.cons_append, separated, Bool.and_eq_true] at ha ⊢
      refine ⟨ha.1, ih ha.2 ?_⟩
      intro x y hx hy
      cases a' with
      | nil => simp [lastP] at hx
      | cons q qs => exact hbr x y (by simpa [lastP] using hx) hy
    | t x =>
      simp only [List.cons_append, separated, Bool.and_eq_true] at ha ⊢
      obtain ⟨⟨hok, hadj⟩, hrest⟩ := ha
      refine ⟨⟨hok, ?_⟩, ih hrest ?_⟩
      · cases a' with
        | nil =>
          simp only [List.nil_append]
          cases b with
          | nil => rfl
          | cons q qs =>
            cases q with
            | ws s => rfl
            | t y => exact hbr x y rfl rfl
        | cons q qs => cases q <;> simp at hadj ⊢ <;> exact hadj
      · intro x' y hx hy
        cases a' with
        | nil => simp [lastP] at hx
        | cons q qs => exact hbr x' y (by simpa [lastP] using hx) hy

/-! ## token classes at the boundaries of expression texts -/

/-- first tokens of an expression text: a number, an identifier, `-`, `!`, `(` -/
def isFirst (t : Tok) : Bool :=
  tokOK t && (match t with
    | .num _ | .id _ | .p .minus | .p .bang | .p .lpar => true
    | _ => false)

/-- … that is not a prefix operator -/
def isFirstNM (t : Tok) : Bool :=
  tokOK t && (match t with
    | .num _ | .id _ | .p .lpar => true
    | _ => false)

/-- last tokens of an expression text: a number, an identifier, `)`, `]` -/
def isLast (t : Tok) : Bool :=
  tokOK t && (match t with
    | .num _ | .id _ | .p .rpar | .p .rbrack => true
    | _ => false)

theorem isFirstNM_isFirst {t} (h : isFirstNM t = true) : isFirst t = true := by
  cases t <;> simp_all [isFirstNM, isFirst]
  rename_i q; cases q <;> simp_all

theorem tokOK_text_ne {t} (h : tokOK t = true) : ∃ c cs, t.text = c :: cs := by
  cases t with
  | id s =>
    simp only [tokOK] at h
    cases hl : s.toList with
    | nil => simp [hl] at h
    | cons c cs => exact ⟨c, cs, by simp [Tok.text, hl]⟩
  | num s =>
    simp only [tokOK, numShape] at h
    cases hl : s.toList with
    | nil => simp [hl] at h
    | cons c cs => exact ⟨c, cs, by simp [Tok.text, hl]⟩
  | p q => cases q <;> exact ⟨_, _, rfl⟩
  | bad c => simp [tokOK] at h
  | newline => simp [tokOK] at h
  | indent => simp [tokOK] at h
  | dedent => simp [tokOK] at h

/-- after a token that leaves the lexer in the start state anything may follow -/
theorem sepTok_start {x y : Tok} (hx : stTok x = .start) (hy : tokOK y = true) : sepTok x y = true := by
  obtain ⟨c, cs, h⟩ := tokOK_text_ne hy
  simp [sepTok, h, hx, sepChar]

theorem stTok_lpar : stTok (.p .lpar) = .start := rfl
theorem stTok_rpar : stTok (.p .rpar) = .start := rfl
theorem stTok_lbrack : stTok (.p .lbrack) = .start := rfl
theorem stTok_rbrack : stTok (.p .rbrack) = .start := rfl
theorem stTok_comma : stTok (.p .comma) = .start := rfl

theorem digit_not_exp {c : Char} (h : c.isDigit = true) : isExpChar c = false := by
  cases he : isExpChar c with
  | false => rfl
  | true =>
    simp only [isExpChar, Bool.or_eq_true, beq_iff_eq] at he
    rcases he with ((rfl | rfl) | rfl) | rfl <;> exact absurd h (by decide)

/-- the state after a well-shaped number: pending number whose last character is a digit -/
theorem stTok_num {s : String} (h : tokOK (.num s) = true) :
    ∃ acc, stTok (.num s) = .num acc ∧ (acc.headD '0').isDigit = true := by
  simp only [tokOK, numShape] at h
  cases hl : s.toList with
  | nil => simp [hl] at h
  | cons c cs =>
    simp only [hl, Bool.and_eq_true] at h
    have hf : feed .start (Tok.num s).text = ([], .num (cs.reverse ++ [c])) := by
      simp only [Tok.text, hl, feed, trans, transStart_digit h.1.1]
      rw [feed_num cs [c] c rfl h.1.2]
      simp
    refine ⟨cs.reverse ++ [c], by simp [stTok, hf], ?_⟩
    have hlast := h.2
    simp only [List.reverse_cons] at hlast
    cases hr : cs.reverse ++ [c] with
    | nil => simp at hr
    | cons d ds => rw [hr] at hlast; simpa using hlast

theorem stTok_id {s : String} (h : tokOK (.id s) = true) : ∃ acc, stTok (.id s) = .ident acc := by
  simp only [tokOK] at h
  cases hl : s.toList with
  | nil => simp [hl] at h
  | cons c cs =>
    simp only [hl, Bool.and_eq_true] at h
    have hf : feed .start (Tok.id s).text = ([], .ident (cs.reverse ++ [c])) := by
      simp only [Tok.text, hl, feed, trans, transStart_idStart h.1]
      rw [feed_ident cs [c] h.2]
      simp
    exact ⟨cs.reverse ++ [c], by simp [stTok, hf]⟩

/-- characters that end an identifier or a number whose last character is a digit -/
def isCloser (c : Char) : Bool :=
  c == ')' || c == ']' || c == ',' || c == '[' || c == '(' || c == '+' || c == '*' || c == ';'

theorem sepTok_last_closer {x y : Tok} (hx : isLast x = true) {c cs} (hy : y.text = c :: cs)
    (hc : isCloser c = true) : sepTok x y = true := by
  simp only [sepTok, hy]
  have hcases : c = ')' ∨ c = ']' ∨ c = ',' ∨ c = '[' ∨ c = '(' ∨ c = '+' ∨ c = '*' ∨ c = ';' := by
    simp only [isCloser, Bool.or_eq_true, beq_iff_eq] at hc
    rcases hc with ((((((h | h) | h) | h) | h) | h) | h) | h <;> simp [h]
  simp only [isLast, Bool.and_eq_true] at hx
  cases x with
  | num s =>
    obtain ⟨acc, h1, h2⟩ := stTok_num hx.1
    rw [h1]
    simp only [sepChar, numCont, digit_not_exp h2, Bool.and_false, Bool.or_false]
    rcases hcases with rfl | rfl | rfl | rfl | rfl | rfl | rfl | rfl <;> decide
  | id s =>
    obtain ⟨acc, h1⟩ := stTok_id hx.1
    rw [h1]
    simp only [sepChar]
    rcases hcases with rfl | rfl | rfl | rfl | rfl | rfl | rfl | rfl <;> decide
  | p q =>
    have : q = .rpar ∨ q = .rbrack := by
      cases q <;> simp at hx <;> simp
    rcases this with rfl | rfl <;> rfl
  | bad c => simp [tokOK] at hx
  | newline => simp [tokOK] at hx
  | indent => simp [tokOK] at hx
  | dedent => simp [tokOK] at hx

end Ffcx.LNodes.Fmt
