/-
C16 — numba token-level round trip, part 3: argument/subscript lists, calls (np.* / math.* /
scipy.special.*), subscripts, MultiIndex, complex literals, the induction over all trees
(`rtp_all`, `parse_tokens_Py`).
-/
import FfcxProofs.Lemmas.FormatPyRTCases
import FfcxProofs.Lemmas.FormatRTAll
namespace Ffcx.LNodes.Fmt
open Ffcx.LNodes

/-! ## argument and subscript lists -/

theorem closedPy_close (c : P) (hc : c = .rpar ∨ c = .rbrack) (r : List Tok) :
    headAll closedPyT (.p c :: r) = true := by
  rcases hc with rfl | rfl <;> rfl

theorem py_items_parse (close : P) (hcl : close = .rpar ∨ close = .rbrack) :
    ∀ (args : List Expr), args ≠ [] → (∀ x ∈ args, RTP x) →
    ∀ rest F, 8 * (tkArgsPy args).length + 6 ≤ F →
      pyItems F close (tkArgsPy args ++ .p close :: rest) = some (eraseLPy args, rest) := by
  intro args
  induction args with
  | nil => intro h; exact absurd rfl h
  | cons a as ih =>
    intro _ hall rest F hF
    have ha := hall a (by simp)
    obtain ⟨t, r, ht, hst⟩ := ha.hd
    have hne : t ≠ .p close := by
      have := pyStart_ne hst
      rcases hcl with rfl | rfl
      · exact this.1
      · exact this.2
    have hcc : ¬ (Tok.p close = Tok.p P.assign) ∧ ¬ (Tok.p close = Tok.p P.comma) := by
      rcases hcl with rfl | rfl <;> decide
    obtain ⟨n, rfl⟩ := Nat.exists_eq_add_of_le' (show 2 ≤ F by omega)
    cases as with
    | nil =>
      simp only [tkArgsPy] at hF ⊢
      rw [ht, List.cons_append, pyItems]
      simp only [hne, if_false]
      rw [← List.cons_append, ← ht, pyItem, ha.full (.p close :: rest) n (closedPy_close close hcl rest) (by omega)]
      simp [hcc.1, hcc.2, eraseLPy]
    | cons b bs =>
      simp only [tkArgsPy, List.length_append, List.length_cons] at hF
      simp only [tkArgsPy, List.append_assoc, List.cons_append]
      rw [ht, List.cons_append, pyItems]
      simp only [hne, if_false]
      rw [← List.cons_append, ← ht, pyItem,
        ha.full (.p .comma :: (tkArgsPy (b :: bs) ++ .p close :: rest)) n rfl (by omega)]
      simp only [show ¬ (Tok.p P.comma = Tok.p P.assign) by decide, if_false, if_true]
      rw [ih (by simp) (fun x hx => hall x (by simp [hx])) rest n (by omega)]
      simp [eraseLPy]

/-! ## calls -/

/-- the dotted name of the callable -/
def pyHeadName (f : String) : String :=
  let fn := pyMathName f
  if containsL "bessel_y".toList fn.toList then "scipy.special.yn"
  else if containsL "bessel_j".toList fn.toList then "scipy.special.jn"
  else if fn = "erf" then "math.erf"
  else "np." ++ fn

theorem erasePy_call (f dt args) : erasePy (.call f dt args) = .call (pyHeadName f) (eraseLPy args) := by
  simp only [erasePy, pyHeadName]
  split
  · rfl
  · split
    · rfl
    · split <;> rfl

theorem py_dotted2 (a b : String) (ha : pyKeywords.contains a = false) (hn : a ≠ "not") {m n X res}
    (h : pyTrailers n (.id (a ++ "." ++ b)) X = some res) :
    pyOperand (n + 2) m (.id a :: .p .dot :: .id b :: X) = some res := by
  rw [pyOperand]
  have h1 : ¬ (Tok.id a = Tok.id "not") := by intro h; injection h with h; exact hn h
  simp only [h1, show ¬ (Tok.id a = Tok.p P.minus) by simp, show ¬ (Tok.id a = Tok.p P.lpar) by simp,
    show ¬ (Tok.id a = Tok.p P.lbrack) by simp, if_false, pyAtomOf, ha, Bool.false_eq_true]
  rw [pyTrailers]
  simp only [if_true, dotName, nameOf]
  exact h

theorem py_dotted3 (a b c : String) (ha : pyKeywords.contains a = false) (hn : a ≠ "not") {m n X res}
    (h : pyTrailers n (.id (a ++ "." ++ b ++ "." ++ c)) X = some res) :
    pyOperand (n + 3) m (.id a :: .p .dot :: .id b :: .p .dot :: .id c :: X) = some res := by
  refine py_dotted2 a b ha hn ?_
  rw [pyTrailers]
  simp only [if_true, dotName, nameOf]
  exact h

/-- the call head as an operand: the dotted name, then the trailers -/
theorem py_head_operand (f : String) {m n X res}
    (h : pyTrailers n (.id (pyHeadName f)) X = some res) :
    pyOperand (n + 3) m (dottedToks (pyHead f) ++ X) = some res := by
  unfold pyHead pyHeadName at *
  simp only [] at h ⊢
  split
  · rename_i h1
    simp only [h1, if_true] at h
    exact py_dotted3 "scipy" "special" "yn" (by decide) (by decide) h
  · rename_i h1
    simp only [h1, if_false] at h
    split
    · rename_i h2
      simp only [h2, if_true] at h
      exact py_dotted3 "scipy" "special" "jn" (by decide) (by decide) h
    · rename_i h2
      simp only [h2, if_false] at h
      split
      · rename_i h3
        simp only [h3, if_true] at h
        exact pyOperand_mono (f := n + 2) (py_dotted2 "math" "erf" (by decide) (by decide) h) (by omega)
      · rename_i h3
        simp only [h3, if_false] at h
        refine pyOperand_mono (f := n + 2) (py_dotted2 "np" (pyMathName f) (by decide) (by decide) ?_) (by omega)
        have : ("np" ++ "." ++ pyMathName f) = "np." ++ pyMathName f := by
          have : ("np" ++ "." : String) = "np." := by decide
          rw [this]
        rw [this]; exact h

theorem dottedToks_pyHead_start (f : String) : ∃ t r, dottedToks (pyHead f) = t :: r ∧ pyStart t = true := by
  unfold pyHead
  simp only []
  split
  · exact ⟨_, _, rfl, rfl⟩
  · split
    · exact ⟨_, _, rfl, rfl⟩
    · split <;> exact ⟨_, _, rfl, rfl⟩

theorem dottedToks_pyHead_len (f : String) : (dottedToks (pyHead f)).length ≥ 3 := by
  unfold pyHead
  simp only []
  split
  · decide
  · split
    · decide
    · split <;> simp [dottedToks]

theorem rtp_call {f dt args} (herf : pyMathName f ≠ "erf" ∨ args.length = 1)
    (hall : ∀ x ∈ args, RTP x) : RTP (.call f dt args) := by
  have htk := tkp_call f dt args herf
  obtain ⟨t0, r0, ht0, hst0⟩ := dottedToks_pyHead_start f
  refine rtp_of_un (by simp [precF, Expr.prec, lvPy]) ?_ ⟨t0, _, by rw [htk, ht0]; rfl, hst0⟩
  intro m rest F hps hF
  rw [htk] at hF ⊢
  have hlen := dottedToks_pyHead_len f
  simp only [List.length_cons, List.length_append, List.length_nil] at hF
  obtain ⟨n, rfl⟩ := Nat.exists_eq_add_of_le' (show 3 ≤ F by omega)
  rw [List.append_assoc]
  refine py_head_operand f ?_
  obtain ⟨n', rfl⟩ := Nat.exists_eq_add_of_le' (show 1 ≤ n by omega)
  rw [List.cons_append, pyTrailers]
  simp only [show ¬ (Tok.p P.lpar = Tok.p P.dot) by decide, if_false, if_true, nameOf, List.append_assoc,
    List.cons_append, List.nil_append]
  have hitems : pyItems n' .rpar (tkArgsPy args ++ .p .rpar :: rest) = some (eraseLPy args, rest) := by
    cases args with
    | nil =>
      obtain ⟨n'', rfl⟩ := Nat.exists_eq_add_of_le' (show 1 ≤ n' by omega)
      simp [tkArgsPy, pyItems, eraseLPy]
    | cons a as => exact py_items_parse .rpar (Or.inl rfl) (a :: as) (by simp) hall rest n' (by omega)
  rw [hitems]
  simp only []
  rw [pyTrailers_stop (by omega) hps, erasePy_call]

theorem rtp_idx {arr dt a as} (hid : validIdentPy arr = true) (hall : ∀ x ∈ a :: as, RTP x) :
    RTP (.idx arr dt (a :: as)) := by
  have hkw := validIdentPy_not_kw hid
  have hnot : arr ≠ "not" := by
    intro h; subst h; exact absurd hkw (by decide)
  refine rtp_of_un (by simp [precF, Expr.prec, lvPy]) ?_ ⟨_, _, tkp_idx .., rfl⟩
  intro m rest F hps hF
  rw [tkp_idx] at hF ⊢
  simp only [List.length_cons, List.length_append, List.length_nil] at hF
  obtain ⟨n, rfl⟩ := Nat.exists_eq_add_of_le' (show 2 ≤ F by omega)
  simp only [List.cons_append, List.append_assoc, List.nil_append]
  rw [pyOperand]
  have h1 : ¬ (Tok.id arr = Tok.id "not") := by intro h; injection h with h; exact hnot h
  simp only [h1, show ¬ (Tok.id arr = Tok.p P.minus) by simp, show ¬ (Tok.id arr = Tok.p P.lpar) by simp,
    show ¬ (Tok.id arr = Tok.p P.lbrack) by simp, if_false, pyAtomOf, hkw, Bool.false_eq_true]
  rw [pyTrailers]
  simp only [show ¬ (Tok.p P.lbrack = Tok.p P.dot) by decide, show ¬ (Tok.p P.lbrack = Tok.p P.lpar) by decide,
    if_false, if_true]
  rw [py_items_parse .rbrack (Or.inr rfl) (a :: as) (by simp) hall rest n (by omega)]
  simp only [eraseLPy, List.isEmpty_cons, Bool.false_eq_true, if_false]
  rw [pyTrailers_stop (by omega) hps]
  simp [erasePy, eraseLPy]

theorem rtp_mi {s z gi} (h : RTP gi) : RTP (.mi s z gi) := by
  have e1 : tkp (.mi s z gi) = tkp gi := tkp_mi s z gi
  have e2 : erasePy (.mi s z gi) = erasePy gi := by simp [erasePy]
  have e3 : precF (.mi s z gi) = precF gi := by simp [precF]
  refine ⟨?_, ?_, ?_, ?_⟩
  · rw [e1, e2]; exact h.full
  · rw [e1, e2, e3]; exact h.bin
  · rw [e1, e2, e3]; exact h.un
  · rw [e1]; exact h.hd


/-! ## complex literals `(re±imj)` / `imj` -/

theorem reprPart_neg {x : Rat} (hx : x < 0) : reprPart x = '-' :: reprPos false (-x) := by
  have h0 : x ≠ 0 := by grind
  simp [reprPart, h0, hx]

theorem reprPart_pos {x : Rat} (hx : 0 < x) : reprPart x = reprPos false x := by
  have h0 : x ≠ 0 := by grind
  have h1 : ¬ x < 0 := by grind
  simp [reprPart, h0, h1]

/-- tokens and tree of a real/imaginary part text with suffix `sfx` -/
theorem part_tokens (x : Rat) (sfx : List Char) (hs : pyNumShape (reprPart (absR x) ++ sfx) = true) :
    (x < 0 ∧ toks (numPieces (reprPart x ++ sfx)) = [.p .minus, .num (String.ofList (reprPart (-x) ++ sfx))]
        ∧ erasePyPart x sfx = .un .neg (.num (String.ofList (reprPart (-x) ++ sfx))))
    ∨ (¬ x < 0 ∧ toks (numPieces (reprPart x ++ sfx)) = [.num (String.ofList (reprPart x ++ sfx))]
        ∧ erasePyPart x sfx = .num (String.ofList (reprPart x ++ sfx))) := by
  by_cases hx : x < 0
  · left
    have hp : 0 < -x := by grind
    refine ⟨hx, ?_, by simp [erasePyPart, hx]⟩
    rw [reprPart_neg hx, reprPart_pos hp]
    simp [numPieces, pp]
  · right
    rw [absR_nonneg hx] at hs
    obtain ⟨c, r, hcr, hc⟩ := pyNumShape_head hs
    refine ⟨hx, ?_, by simp [erasePyPart, hx]⟩
    rw [hcr, numPieces_pos hc]; rfl

/-- `[num]` or `[-, num]` as an operand -/
theorem py_part_operand {ts : List Tok} {X : PT} {s : String}
    (h : (ts = [.p .minus, .num s] ∧ X = .un .neg (.num s)) ∨ (ts = [.num s] ∧ X = .num s))
    (m n : Nat) (rest : List Tok) (hps : headAll postStopPyT rest = true) :
    pyOperand (n + 3) m (ts ++ rest) = some (X, rest) := by
  rcases h with ⟨rfl, rfl⟩ | ⟨rfl, rfl⟩
  · simp only [List.cons_append, List.nil_append]
    rw [pyOperand]
    simp only [show ¬ (Tok.p P.minus = Tok.id "not") by decide, if_false, if_true]
    rw [pyOperand]
    simp only [show ¬ (Tok.num s = Tok.id "not") by simp, show ¬ (Tok.num s = Tok.p P.minus) by simp,
      show ¬ (Tok.num s = Tok.p P.lpar) by simp, show ¬ (Tok.num s = Tok.p P.lbrack) by simp, if_false, pyAtomOf]
    rw [pyTrailers_stop (by omega) hps]
  · simp only [List.cons_append, List.nil_append]
    rw [pyOperand]
    simp only [show ¬ (Tok.num s = Tok.id "not") by simp, show ¬ (Tok.num s = Tok.p P.minus) by simp,
      show ¬ (Tok.num s = Tok.p P.lpar) by simp, show ¬ (Tok.num s = Tok.p P.lbrack) by simp, if_false, pyAtomOf]
    rw [pyTrailers_stop (by omega) hps]

/-- `( R op I )` with `R` a part, `op` ∈ {+, -}, `I` one NUMBER -/
theorem py_complex_operand {R : List Tok} {XR : PT} {sr si : String}
    (hR : (R = [.p .minus, .num sr] ∧ XR = .un .neg (.num sr)) ∨ (R = [.num sr] ∧ XR = .num sr))
    (o : P) (bop : BinOp) (ho : (o = .plus ∧ bop = .add) ∨ (o = .minus ∧ bop = .sub))
    (m n : Nat) (rest : List Tok) (hps : headAll postStopPyT rest = true) :
    pyOperand (n + 12) m (.p .lpar :: (R ++ .p o :: .num si :: .p .rpar :: rest))
      = some (.bin bop XR (.num si), rest) := by
  have hRne : (R ++ .p o :: .num si :: .p .rpar :: rest).head? ≠ some (.p .rpar) := by
    rcases hR with ⟨rfl, _⟩ | ⟨rfl, _⟩ <;> simp
  have hbl : pyBinLevel (.p o) = some (bop, 5) := by
    rcases ho with ⟨rfl, rfl⟩ | ⟨rfl, rfl⟩ <;> rfl
  have hpso : headAll postStopPyT (.p o :: .num si :: .p .rpar :: rest) = true := by
    rcases ho with ⟨rfl, _⟩ | ⟨rfl, _⟩ <;> rfl
  rw [pyOperand]
  simp only [show ¬ (Tok.p P.lpar = Tok.id "not") by decide, show ¬ (Tok.p P.lpar = Tok.p P.minus) by decide,
    if_false, if_true, hRne]
  have hin : pyTest (n + 11) (R ++ .p o :: .num si :: .p .rpar :: rest)
      = some (.bin bop XR (.num si), .p .rpar :: rest) := by
    rw [pyTest, pyLvl, py_part_operand hR 1 (n + 6) _ hpso]
    simp only []
    rw [pyLoop]
    simp only [hbl, show (1 : Nat) ≤ 5 by decide, if_true, show ¬ ((5 : Nat) = 4) by decide, if_false]
    have h6 : pyLvl (n + 8) 6 (.num si :: .p .rpar :: rest) = some (.num si, .p .rpar :: rest) := by
      rw [pyLvl]
      have := py_part_operand (ts := [.num si]) (X := .num si) (s := si) (Or.inr ⟨rfl, rfl⟩) 6 (n + 4)
        (.p .rpar :: rest) rfl
      simp only [List.cons_append, List.nil_append] at this
      rw [this]
      simp only []
      exact pyLoop_stop (l := 0) (by omega) rfl (by omega)
    rw [h6]
    simp only []
    rw [pyLoop_stop (k := n + 8) (m := 1) (l := 0) (by omega) rfl (by omega)]
    simp
  rw [hin]
  simp only [if_true]
  rw [pyTrailers_stop (by omega) hps]

theorem rtp_complex {re im} (hwf : wfPy (.litF re im true) = true) : RTP (.litF re im true) := by
  simp only [wfPy, pyLitShapeOK, Bool.and_eq_true, Bool.or_eq_true, decide_eq_true_eq] at hwf
  obtain ⟨hre, him⟩ := hwf
  by_cases h0 : re = 0
  · -- purely imaginary: `imj` / `-imj`
    have hp : tkp (.litF re im true) = toks (numPieces (reprPart im ++ ['j'])) := by
      simp [tkp, tokExprPy, piecesPy, pyNumber, pyComplexPieces, h0]
    have he : erasePy (.litF re im true) = erasePyPart im ['j'] := by simp [erasePy, h0]
    rcases part_tokens im ['j'] him with ⟨_, ht, hx⟩ | ⟨_, ht, hx⟩
    · exact rtp_negatom (t := .num _) (X := .num _) (by rw [hp, ht]) rfl (by rw [he, hx]) (by simp [precF, Expr.prec, lvPy])
    · exact rtp_atom (t := .num _) (by rw [hp, ht]) (by rw [he, hx]; rfl) (by simp [precF, Expr.prec, lvPy])
  · have hre' : pyNumShape (reprPart (absR re) ++ []) = true := by
      rcases hre with h | h
      · exact absurd h h0
      · simpa using h
    -- the imaginary magnitude as one NUMBER
    have him' : pyNumShape (reprPart (absR (absR im)) ++ ['j']) = true := by
      have : absR (absR im) = absR im := by
        by_cases hq : im < 0
        · have h2 : ¬ (-im < 0) := by grind
          simp [absR, hq, h2]
        · simp [absR, hq]
      rw [this]; exact him
    have hnn : ¬ absR im < 0 := by
      by_cases hq : im < 0
      · simp only [absR, hq, if_true]; grind
      · simp [absR, hq]
    have hI : toks (numPieces (reprPart (absR im) ++ ['j'])) = [.num (String.ofList (reprPart (absR im) ++ ['j']))] := by
      rcases part_tokens (absR im) ['j'] him' with ⟨h, _, _⟩ | ⟨_, ht, _⟩
      · exact absurd h hnn
      · exact ht
    have hR := part_tokens re [] hre'
    simp only [List.append_nil] at hR
    by_cases hi : im < 0
    · -- `(re-|im|j)`
      have hai : absR im = -im := absR_neg hi
      have hp : tkp (.litF re im true) = .p .lpar :: (toks (numPieces (reprPart re)) ++ .p .minus ::
          .num (String.ofList (reprPart (-im) ++ ['j'])) :: [.p .rpar]) := by
        have e1 : reprPart im ++ ['j'] = '-' :: (reprPart (-im) ++ ['j']) := by
          rw [reprPart_neg hi, reprPart_pos (by grind : 0 < -im)]; rfl
        simp [tkp, tokExprPy, piecesPy, pyNumber, pyComplexPieces, h0, hi, toks_append, e1, numPieces, pp]
      have he : erasePy (.litF re im true) = .bin .sub (erasePyPart re [])
          (.num (String.ofList (reprPart (-im) ++ ['j']))) := by simp [erasePy, h0, hi]
      refine rtp_of_un (by simp [precF, Expr.prec, lvPy]) ?_ ⟨_, _, hp, rfl⟩
      intro m rest F hps hF
      rw [hp] at hF ⊢
      simp only [List.length_cons, List.length_append, List.length_nil] at hF
      obtain ⟨n, rfl⟩ := Nat.exists_eq_add_of_le' (show 12 ≤ F by omega)
      simp only [List.cons_append, List.append_assoc, List.nil_append]
      rw [he]
      rcases hR with ⟨_, ht, hx⟩ | ⟨_, ht, hx⟩
      · rw [ht, hx]; exact py_complex_operand (Or.inl ⟨rfl, rfl⟩) .minus .sub (Or.inr ⟨rfl, rfl⟩) m n rest hps
      · rw [ht, hx]; exact py_complex_operand (Or.inr ⟨rfl, rfl⟩) .minus .sub (Or.inr ⟨rfl, rfl⟩) m n rest hps
    · -- `(re+imj)`
      have hai : absR im = im := absR_nonneg hi
      rw [hai] at hI
      have hp : tkp (.litF re im true) = .p .lpar :: (toks (numPieces (reprPart re)) ++ .p .plus ::
          .num (String.ofList (reprPart im ++ ['j'])) :: [.p .rpar]) := by
        simp [tkp, tokExprPy, piecesPy, pyNumber, pyComplexPieces, h0, hi, toks_append, hI]
      have he : erasePy (.litF re im true) = .bin .add (erasePyPart re [])
          (.num (String.ofList (reprPart im ++ ['j']))) := by simp [erasePy, h0, hi]
      refine rtp_of_un (by simp [precF, Expr.prec, lvPy]) ?_ ⟨_, _, hp, rfl⟩
      intro m rest F hps hF
      rw [hp] at hF ⊢
      simp only [List.length_cons, List.length_append, List.length_nil] at hF
      obtain ⟨n, rfl⟩ := Nat.exists_eq_add_of_le' (show 12 ≤ F by omega)
      simp only [List.cons_append, List.append_assoc, List.nil_append]
      rw [he]
      rcases hR with ⟨_, ht, hx⟩ | ⟨_, ht, hx⟩
      · rw [ht, hx]; exact py_complex_operand (Or.inl ⟨rfl, rfl⟩) .plus .add (Or.inl ⟨rfl, rfl⟩) m n rest hps
      · rw [ht, hx]; exact py_complex_operand (Or.inr ⟨rfl, rfl⟩) .plus .add (Or.inl ⟨rfl, rfl⟩) m n rest hps

/-! ## the induction over all expression trees (numba) -/

theorem wfLPy_mem {x : Expr} {l : List Expr} (hl : wfLPy l = true) (h : x ∈ l) : wfPy x = true := by
  induction l with
  | nil => cases h
  | cons a as ih =>
    simp only [wfLPy, Bool.and_eq_true] at hl
    cases h with
    | head => exact hl.1
    | tail _ h' => exact ih hl.2 h'

theorem rtp_all : ∀ n e, esize e ≤ n → wfPy e = true → RTP e := by
  intro n
  induction n with
  | zero => intro e h; cases e <;> simp [esize] at h
  | succ n ih =>
    intro e hsz hwf
    cases e with
    | litF re im c =>
      cases c with
      | false => exact rtp_litF hwf
      | true => exact rtp_complex hwf
    | litI v => exact rtp_litI hwf
    | sym nm dt => exact rtp_sym hwf
    | mi s z gi =>
      simp only [esize] at hsz; simp only [wfPy, Bool.and_eq_true] at hwf
      exact rtp_mi (ih gi (by omega) hwf.2)
    | neg a =>
      simp only [esize] at hsz; simp only [wfPy] at hwf
      exact rtp_neg (ih a (by omega) hwf)
    | not a =>
      simp only [esize] at hsz; simp only [wfPy] at hwf
      exact rtp_not (ih a (by omega) hwf)
    | bin op a b =>
      simp only [esize] at hsz; simp only [wfPy, Bool.and_eq_true] at hwf
      exact rtp_bin hwf.1 hwf.2 (ih a (by omega) hwf.1) (ih b (by omega) hwf.2)
    | sum args =>
      simp only [esize] at hsz; simp only [wfPy, Bool.and_eq_true] at hwf
      cases args with
      | nil => simp at hwf
      | cons a as =>
        have hall : ∀ x ∈ a :: as, RTP x := fun x hx =>
          ih x (by have := esize_mem hx; omega) (wfLPy_mem hwf.2 hx)
        exact rtp_sum (hall a (by simp)) (fun x hx => hall x (by simp [hx]))
    | prod args =>
      simp only [esize] at hsz; simp only [wfPy, Bool.and_eq_true] at hwf
      cases args with
      | nil => simp at hwf
      | cons a as =>
        have hall : ∀ x ∈ a :: as, RTP x := fun x hx =>
          ih x (by have := esize_mem hx; omega) (wfLPy_mem hwf.2 hx)
        exact rtp_prod (hall a (by simp)) (fun x hx => hall x (by simp [hx]))
    | call f dt args =>
      simp only [esize] at hsz
      simp only [wfPy, Bool.and_eq_true, Bool.or_eq_true, bne_iff_ne, ne_eq, beq_iff_eq] at hwf
      exact rtp_call hwf.1.2 (fun x hx => ih x (by have := esize_mem hx; omega) (wfLPy_mem hwf.2 hx))
    | idx arr dt ix =>
      simp only [esize] at hsz; simp only [wfPy, Bool.and_eq_true] at hwf
      cases ix with
      | nil => simp at hwf
      | cons a as =>
        exact rtp_idx hwf.1.1 (fun x hx => ih x (by have := esize_mem hx; omega) (wfLPy_mem hwf.2 hx))
    | cond c t f =>
      simp only [esize] at hsz; simp only [wfPy, Bool.and_eq_true] at hwf
      exact rtp_cond (ih c (by omega) hwf.1.1) (ih t (by omega) hwf.1.2) (ih f (by omega) hwf.2)

/-- token-level round trip (numba): the Python parser reads the token stream the numba formatter
    intends for a well-formed tree back to the erased tree -/
theorem parse_tokens_Py (e : Expr) (hwf : wfPy e = true) :
    parseExprPy (tokExprPy e) = some (erasePy e) := by
  have h := (rtp_all (esize e) e (Nat.le_refl _) hwf).full [] (fuelFor (tokExprPy e)) rfl
    (by simp only [fuelFor, tkp]; omega)
  simp only [List.append_nil, tkp] at h
  simp [parseExprPy, h]

end Ffcx.LNodes.Fmt
