/-
Soundness of the UFL constructors of the factorisation model (`mkSum … mkCond`, `graphInsert`):
the graph only grows, stays closed, and the returned node has the value of the operation.
-/
import FfcxProofs.Lemmas.GraphEval

namespace Ffcx.IR
open Lean.Grind
set_option linter.unusedVariables false
set_option linter.unusedSimpArgs false

/-- What the soundness theorem needs from the interpretation. -/
structure LawfulEnv {R : Type} [Field R] (ρ : Env R) : Prop where
  ofRat_zero : ρ.ofRat 0 = 0
  ofRat_one : ρ.ofRat 1 = 1
  ofRat_add : ∀ a b, ρ.ofRat (a + b) = ρ.ofRat a + ρ.ofRat b
  ofRat_mul : ∀ a b, ρ.ofRat (a * b) = ρ.ofRat a * ρ.ofRat b
  ofRat_div : ∀ a b, ρ.ofRat (a / b) = ρ.ofRat a / ρ.ofRat b
  conj_zero : ρ.conj 0 = 0
  conj_one : ρ.conj 1 = 1
  conj_add : ∀ a b, ρ.conj (a + b) = ρ.conj a + ρ.conj b
  conj_mul : ∀ a b, ρ.conj (a * b) = ρ.conj a * ρ.conj b
  conj_conj : ∀ a, ρ.conj (ρ.conj a) = a
  conj_ofRat : ∀ q, ρ.conj (ρ.ofRat q) = ρ.ofRat q
  conj_abs : ∀ a, ρ.conj (ρ.abs a) = ρ.abs a
  conj_re : ∀ a, ρ.conj (ρ.re a) = ρ.re a
  conj_im : ∀ a, ρ.conj (ρ.im a) = ρ.im a

section
variable {R : Type} [Field R] (ρ : Env R)

/-! ### `graph_insert` -/

theorem graphInsert_spec (F : Array Node) (n : Node) (hc : Closed F)
    (hn : ∀ d ∈ n.deps, d < F.size) :
    Ext F (graphInsert F n).1 ∧ Closed (graphInsert F n).1 ∧
    (graphInsert F n).2 < (graphInsert F n).1.size ∧
    nodeAt (graphInsert F n).1 (graphInsert F n).2 = n := by
  unfold graphInsert
  by_cases h : List.idxOf n F.toList < F.size
  · simp only [if_pos h]
    refine ⟨Ext.refl _, hc, h, ?_⟩
    rw [nodeAt_eq F _ h]
    have h' : List.idxOf n F.toList < F.toList.length := by rw [Array.length_toList]; exact h
    have := List.getElem_idxOf h'
    rw [Array.getElem_toList] at this
    exact this
  · simp only [if_neg h]
    refine ⟨Ext.push n (Ext.refl _), closed_push F n hc hn, by simp, ?_⟩
    unfold nodeAt; simp

/-- value of an inserted node: `evalNode` on the values of its operands in the OLD graph -/
theorem graphInsert_val (F : Array Node) (n : Node) (hc : Closed F)
    (hn : ∀ d ∈ n.deps, d < F.size) :
    val ρ (graphInsert F n).1 (graphInsert F n).2 = evalNode ρ (val ρ F) n := by
  obtain ⟨hext, hc', hlt, hnode⟩ := graphInsert_spec F n hc hn
  rw [val_eq_evalNode' ρ _ hc' _ hlt, hnode]
  apply evalNode_congr
  intro d hd
  exact hext.val_eq ρ d (hn d hd)

theorem val_zero_of_kind (F : Array Node) (hc : Closed F) (a : Nat) (ha : a < F.size)
    (hk : kindAt F a = .zero) : val ρ F a = 0 := by
  rw [val_eq_evalNode' ρ F hc a ha]
  unfold kindAt at hk
  unfold evalNode
  rw [hk]

theorem val_lit_of_kind (F : Array Node) (hc : Closed F) (a : Nat) (ha : a < F.size)
    (c : Bool) (v : Rat) (hk : kindAt F a = .lit c v) : val ρ F a = ρ.ofRat v := by
  rw [val_eq_evalNode' ρ F hc a ha]
  unfold kindAt at hk
  unfold evalNode
  rw [hk]

theorem evalNode_mkLit (hρ : LawfulEnv ρ) (look : Nat → R) (c : Bool) (v : Rat) :
    evalNode ρ look (mkLit c v) = ρ.ofRat v := by
  unfold mkLit
  split
  · rename_i h; subst h; simp [evalNode, Node.zero, hρ.ofRat_zero]
  · simp [evalNode]

theorem mkLit_deps (c : Bool) (v : Rat) : (mkLit c v).deps = [] := by
  unfold mkLit; split <;> rfl

/-- what every constructor on `F` guarantees -/
def Grows (F : Array Node) (r : Array Node × Nat) : Prop :=
  Ext F r.1 ∧ Closed r.1 ∧ r.2 < r.1.size

theorem grows_insert (F : Array Node) (n : Node) (hc : Closed F) (hn : ∀ d ∈ n.deps, d < F.size) :
    Grows F (graphInsert F n) := by
  obtain ⟨h1, h2, h3, _⟩ := graphInsert_spec F n hc hn
  exact ⟨h1, h2, h3⟩

theorem normPair_mem (F : Array Node) (a b d : Nat) (h : d ∈ normPair F a b) : d = a ∨ d = b := by
  unfold normPair at h
  split at h
  · simpa using h
  · split at h
    · simp at h; omega
    · split at h <;> simp at h <;> omega

theorem evalNode_sum_normPair (F : Array Node) (look : Nat → R) (a b : Nat) :
    evalNode ρ look ⟨.sum, normPair F a b⟩ = look a + look b := by
  unfold normPair
  split
  · simp [evalNode]
  · split
    · simp [evalNode]; grind
    · split <;> simp [evalNode]; grind

theorem evalNode_prod_normPair (F : Array Node) (look : Nat → R) (a b : Nat) :
    evalNode ρ look ⟨.prod, normPair F a b⟩ = look a * look b := by
  unfold normPair
  split
  · simp [evalNode]
  · split
    · simp [evalNode]; grind
    · split <;> simp [evalNode]; grind

/-! ### the UFL constructors -/

theorem mkSum_sound (hρ : LawfulEnv ρ) (F : Array Node) (hc : Closed F) (a b : Nat)
    (ha : a < F.size) (hb : b < F.size) :
    Grows F (mkSum F a b) ∧ val ρ (mkSum F a b).1 (mkSum F a b).2 = val ρ F a + val ρ F b := by
  unfold mkSum
  split
  · rename_i hk
    refine ⟨⟨Ext.refl _, hc, hb⟩, ?_⟩
    rw [val_zero_of_kind ρ F hc a ha hk]; grind
  · rename_i hk _
    refine ⟨⟨Ext.refl _, hc, ha⟩, ?_⟩
    rw [val_zero_of_kind ρ F hc b hb hk]; grind
  · rename_i ia va ib vb hka hkb
    have hd : ∀ d ∈ (mkLit (ia && ib) (va + vb)).deps, d < F.size := by
      rw [mkLit_deps]; simp
    refine ⟨grows_insert F _ hc hd, ?_⟩
    rw [graphInsert_val ρ F _ hc hd, evalNode_mkLit ρ hρ, hρ.ofRat_add,
      val_lit_of_kind ρ F hc a ha _ _ hka, val_lit_of_kind ρ F hc b hb _ _ hkb]
  · have hd : ∀ d ∈ (⟨.sum, normPair F a b⟩ : Node).deps, d < F.size := by
      intro d hd
      rcases normPair_mem F a b d hd with h | h <;> omega
    refine ⟨grows_insert F _ hc hd, ?_⟩
    rw [graphInsert_val ρ F _ hc hd, evalNode_sum_normPair]


theorem mkProd_sound (hρ : LawfulEnv ρ) (F : Array Node) (hc : Closed F) (a b : Nat)
    (ha : a < F.size) (hb : b < F.size) :
    Grows F (mkProd F a b) ∧ val ρ (mkProd F a b).1 (mkProd F a b).2 = val ρ F a * val ρ F b := by
  have hz : ∀ d ∈ Node.zero.deps, d < F.size := by simp [Node.zero]
  have hzv : val ρ (graphInsert F Node.zero).1 (graphInsert F Node.zero).2 = 0 := by
    rw [graphInsert_val ρ F _ hc hz]; simp [evalNode, Node.zero]
  unfold mkProd
  split
  · rename_i hk
    refine ⟨grows_insert F _ hc hz, ?_⟩
    rw [hzv, val_zero_of_kind ρ F hc a ha hk]; grind
  · rename_i hk _
    refine ⟨grows_insert F _ hc hz, ?_⟩
    rw [hzv, val_zero_of_kind ρ F hc b hb hk]; grind
  · rename_i ia va ib vb hka hkb
    have hd : ∀ d ∈ (mkLit (ia && ib) (va * vb)).deps, d < F.size := by
      rw [mkLit_deps]; simp
    refine ⟨grows_insert F _ hc hd, ?_⟩
    rw [graphInsert_val ρ F _ hc hd, evalNode_mkLit ρ hρ, hρ.ofRat_mul,
      val_lit_of_kind ρ F hc a ha _ _ hka, val_lit_of_kind ρ F hc b hb _ _ hkb]
  · rename_i c va hka _ _
    split
    · rename_i h1
      refine ⟨⟨Ext.refl _, hc, hb⟩, ?_⟩
      rw [val_lit_of_kind ρ F hc a ha _ _ hka, h1, hρ.ofRat_one]; grind
    · have hd : ∀ d ∈ (⟨.prod, [a, b]⟩ : Node).deps, d < F.size := by
        intro d hd; simp at hd; omega
      refine ⟨grows_insert F _ hc hd, ?_⟩
      rw [graphInsert_val ρ F _ hc hd]; simp [evalNode]
  · rename_i cb vb hkb _ _
    split
    · rename_i h1
      refine ⟨⟨Ext.refl _, hc, ha⟩, ?_⟩
      rw [val_lit_of_kind ρ F hc b hb _ _ hkb, h1, hρ.ofRat_one]; grind
    · have hd : ∀ d ∈ (⟨.prod, [b, a]⟩ : Node).deps, d < F.size := by
        intro d hd; simp at hd; omega
      refine ⟨grows_insert F _ hc hd, ?_⟩
      rw [graphInsert_val ρ F _ hc hd]; simp [evalNode]; grind
  · have hd : ∀ d ∈ (⟨.prod, normPair F a b⟩ : Node).deps, d < F.size := by
      intro d hd
      rcases normPair_mem F a b d hd with h | h <;> omega
    refine ⟨grows_insert F _ hc hd, ?_⟩
    rw [graphInsert_val ρ F _ hc hd, evalNode_prod_normPair]

theorem mkDiv_sound (hρ : LawfulEnv ρ) (F : Array Node) (hc : Closed F) (a b : Nat)
    (ha : a < F.size) (hb : b < F.size) (r : Array Node × Nat) (h : mkDiv F a b = .ok r) :
    Grows F r ∧ val ρ r.1 r.2 = val ρ F a / val ρ F b := by
  have hdd : ∀ d ∈ (⟨.div, [a, b]⟩ : Node).deps, d < F.size := by
    intro d hd; simp at hd; omega
  have hdiv : Grows F (graphInsert F ⟨.div, [a, b]⟩) ∧
      val ρ (graphInsert F ⟨.div, [a, b]⟩).1 (graphInsert F ⟨.div, [a, b]⟩).2 =
        val ρ F a / val ρ F b := by
    refine ⟨grows_insert F _ hc hdd, ?_⟩
    rw [graphInsert_val ρ F _ hc hdd]; simp [evalNode]
  unfold mkDiv at h
  split at h
  · cases h
  · rename_i hka _
    cases h
    refine ⟨⟨Ext.refl _, hc, ha⟩, ?_⟩
    rw [val_zero_of_kind ρ F hc a ha hka]; grind
  · rename_i ca va cb vb hka hkb
    split at h
    · rename_i h1
      cases h
      refine ⟨⟨Ext.refl _, hc, ha⟩, ?_⟩
      rw [val_lit_of_kind ρ F hc b hb _ _ hkb, h1, hρ.ofRat_one]; grind
    · cases h
      have hd : ∀ d ∈ (mkLit false (va / vb)).deps, d < F.size := by
        rw [mkLit_deps]; simp
      refine ⟨grows_insert F _ hc hd, ?_⟩
      rw [graphInsert_val ρ F _ hc hd, evalNode_mkLit ρ hρ, hρ.ofRat_div,
        val_lit_of_kind ρ F hc a ha _ _ hka, val_lit_of_kind ρ F hc b hb _ _ hkb]
  · rename_i cb vb hkb _ _
    split at h
    · rename_i h1
      cases h
      refine ⟨⟨Ext.refl _, hc, ha⟩, ?_⟩
      rw [val_lit_of_kind ρ F hc b hb _ _ hkb, h1, hρ.ofRat_one]; grind
    · cases h; exact hdiv
  · cases h; exact hdiv

theorem mkConj_sound (hρ : LawfulEnv ρ) (F : Array Node) (hc : Closed F) (a : Nat)
    (ha : a < F.size) :
    Grows F (mkConj F a) ∧ val ρ (mkConj F a).1 (mkConj F a).2 = ρ.conj (val ρ F a) := by
  have hva := val_eq_evalNode' ρ F hc a ha
  have hdeps := closed_deps F hc a ha
  unfold mkConj
  split
  · rename_i ds hn
    refine ⟨⟨Ext.refl _, hc, ha⟩, ?_⟩
    rw [hva, hn]
    unfold evalNode
    split <;> simp_all [hρ.conj_abs, hρ.conj_zero]
  · rename_i ds hn
    refine ⟨⟨Ext.refl _, hc, ha⟩, ?_⟩
    rw [hva, hn]
    unfold evalNode
    split <;> simp_all [hρ.conj_re, hρ.conj_zero]
  · rename_i ds hn
    refine ⟨⟨Ext.refl _, hc, ha⟩, ?_⟩
    rw [hva, hn]
    unfold evalNode
    split <;> simp_all [hρ.conj_im, hρ.conj_zero]
  · rename_i ds hn
    refine ⟨⟨Ext.refl _, hc, ha⟩, ?_⟩
    rw [hva, hn]
    simp [evalNode, hρ.conj_zero]
  · rename_i c hn
    rw [hn] at hdeps
    have hca : c < a := hdeps c (by simp)
    refine ⟨⟨Ext.refl _, hc, by show c < F.size; omega⟩, ?_⟩
    rw [hva, hn]
    simp [evalNode, hρ.conj_conj]
  · rename_i ci vi ds hn
    refine ⟨⟨Ext.refl _, hc, ha⟩, ?_⟩
    rw [hva, hn]
    simp [evalNode, hρ.conj_ofRat]
  · have hd : ∀ d ∈ (⟨.conj, [a]⟩ : Node).deps, d < F.size := by
      intro d hd; simp at hd; omega
    refine ⟨grows_insert F _ hc hd, ?_⟩
    rw [graphInsert_val ρ F _ hc hd]; simp [evalNode]

theorem mkCond_sound (F : Array Node) (hc : Closed F) (c t f : Nat)
    (hcc : c < F.size) (ht : t < F.size) (hf : f < F.size) :
    Grows F (mkCond F c t f) ∧ val ρ (mkCond F c t f).1 (mkCond F c t f).2 =
      (if ρ.truth (val ρ F c) then val ρ F t else val ρ F f) := by
  unfold mkCond
  split
  · rename_i h; subst h
    refine ⟨⟨Ext.refl _, hc, ht⟩, ?_⟩
    split <;> rfl
  · have hd : ∀ d ∈ (⟨.cond, [c, t, f]⟩ : Node).deps, d < F.size := by
      intro d hd; simp at hd; omega
    refine ⟨grows_insert F _ hc hd, ?_⟩
    rw [graphInsert_val ρ F _ hc hd]; simp [evalNode]

end
end Ffcx.IR
