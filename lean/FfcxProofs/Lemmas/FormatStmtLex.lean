/-
C16 — statements, text level (C): the lexer is line-compositional (a newline flushes every
pending token), so indentation (`indentLines`, `indentAfterNewlines`) does not change the token
stream and `//` comment lines contribute no tokens.
-/
import FfcxProofs.Lemmas.FormatStmt
namespace Ffcx.LNodes.Fmt
open Ffcx.LNodes

/-! ## newlines flush -/

theorem trans_nl (st : LS) : trans st '\n' = (flush st, .start) := by
  cases st with
  | start => rfl
  | ident acc => simp [trans, flush, isIdChar, transStart, isSpace]
  | num acc => simp [trans, flush, numCont, transStart, isSpace]
  | pend p => simp [trans, flush, pend2, transStart, isSpace]
  | comment => rfl

/-- the lexer ends in its start state -/
def ES (x : List Char) : Prop := (feed .start x).2 = .start

theorem es_nil : ES [] := rfl

theorem feed_snoc_nl (st : LS) (a : List Char) :
    feed st (a ++ ['\n']) = (run st a, .start) := by
  rw [feed_append]
  simp [feed, trans_nl, run]

theorem es_nl (a : List Char) : ES (a ++ ['\n']) := by
  simp [ES, feed_snoc_nl]

theorem es_append {x y : List Char} (hx : ES x) (hy : ES y) : ES (x ++ y) := by
  simp only [ES] at *
  rw [feed_append, hx]; exact hy

theorem lexC_es_append {x : List Char} (hx : ES x) (y : List Char) : lexC (x ++ y) = lexC x ++ lexC y := by
  simp only [ES] at hx
  simp only [lexC_eq_run, run, feed_append, hx, flush, List.append_nil, List.append_assoc]

theorem lexC_snoc_nl (a : List Char) : lexC (a ++ ['\n']) = lexC a := by
  simp only [lexC_eq_run]
  simp only [run, feed_snoc_nl, flush, List.append_nil]

theorem lexC_nl (a b : List Char) : lexC (a ++ '\n' :: b) = lexC a ++ lexC b := by
  have : a ++ '\n' :: b = (a ++ ['\n']) ++ b := by simp
  rw [this, lexC_es_append (es_nl a), lexC_snoc_nl]

theorem lexC_nil : lexC [] = [] := rfl

/-- ends in a newline or is empty: what every statement text looks like -/
def NLE (x : List Char) : Prop := x = [] ∨ ∃ a, x = a ++ ['\n']

theorem NLE.es {x} (h : NLE x) : ES x := by
  rcases h with rfl | ⟨a, rfl⟩
  · exact es_nil
  · exact es_nl a

theorem nle_append {x y} (hx : NLE x) (hy : NLE y) : NLE (x ++ y) := by
  rcases hy with rfl | ⟨b, rfl⟩
  · simpa using hx
  · exact Or.inr ⟨x ++ b, by simp⟩

/-! ## leading blanks -/

theorem lexC_spaces {s : List Char} (hs : s.all isSpace = true) (cs : List Char) :
    lexC (s ++ cs) = lexC cs := by
  simp only [lexC_eq_run]; exact run_spaces hs cs

/-! ## `indentAfterNewlines` -/

theorem feed_indentAfterNewlines (st : LS) (cs : List Char) :
    feed st (indentAfterNewlines cs) = feed st cs := by
  induction cs generalizing st with
  | nil => rfl
  | cons c cs ih =>
    by_cases h : c = '\n'
    · subst h
      simp only [indentAfterNewlines, beq_self_eq_true, if_true, feed, trans_nl]
      have : trans .start ' ' = ([], .start) := rfl
      simp only [this, ih, List.nil_append]
    · have : (c == '\n') = false := by simpa using h
      simp only [indentAfterNewlines, this, Bool.false_eq_true, if_false, feed, ih]

theorem lexC_indentAfterNewlines (cs : List Char) : lexC (indentAfterNewlines cs) = lexC cs := by
  simp only [lexC, feed_indentAfterNewlines]

theorem indentAfterNewlines_append (a b : List Char) :
    indentAfterNewlines (a ++ b) = indentAfterNewlines a ++ indentAfterNewlines b := by
  induction a with
  | nil => rfl
  | cons c cs ih =>
    simp only [List.cons_append, indentAfterNewlines, ih]
    split <;> simp

/-- `body.replace("\n", "\n  ")[:-2]` of a text ending in a newline: only the last line's
    indentation is cut off -/
theorem dropLast2_indent_nl (a : List Char) :
    dropLast2 (indentAfterNewlines (a ++ ['\n'])) = indentAfterNewlines a ++ ['\n'] := by
  rw [indentAfterNewlines_append]
  have : indentAfterNewlines ['\n'] = ['\n', ' ', ' '] := rfl
  rw [this]
  simp only [dropLast2, List.length_append, List.length_cons, List.length_nil]
  have h2 : (indentAfterNewlines a).length + (0 + 1 + 1 + 1) - 2 = (indentAfterNewlines a).length + 1 := by omega
  rw [h2]
  rw [show indentAfterNewlines a ++ ['\n', ' ', ' '] = (indentAfterNewlines a ++ ['\n']) ++ [' ', ' '] by simp]
  rw [List.take_append_of_le_length (by simp)]
  rw [List.take_of_length_le (by simp)]

/-! ## `splitLines`, `indentLines` -/

theorem splitLines_acc (acc cs : List Char) :
    ∃ l ls, splitLines acc cs = (acc.reverse ++ l) :: ls ∧ splitLines [] cs = l :: ls := by
  induction cs generalizing acc with
  | nil => exact ⟨[], [], by simp [splitLines], by simp [splitLines]⟩
  | cons c cs ih =>
    by_cases h : c = '\n'
    · subst h
      exact ⟨[], splitLines [] cs, by simp [splitLines], by simp [splitLines]⟩
    · have hc : (c == '\n') = false := by simpa using h
      obtain ⟨l, ls, h1, h2⟩ := ih (c :: acc)
      obtain ⟨l', ls', h1', h2'⟩ := ih [c]
      refine ⟨c :: l', ls', ?_, ?_⟩
      · simp only [splitLines, hc]
        rw [h1]
        rw [h2] at h2'
        injection h2' with e1 e2
        subst e1; subst e2
        simp
      · simp only [splitLines, hc]
        rw [h1']; simp

/-- the lines of a text: `splitLines [] (c :: cs)` by cases -/
theorem splitLines_cons_nl (cs : List Char) : splitLines [] ('\n' :: cs) = [] :: splitLines [] cs := by
  simp [splitLines]

theorem splitLines_cons (c : Char) (hc : c ≠ '\n') (cs : List Char) :
    ∃ l ls, splitLines [] cs = l :: ls ∧ splitLines [] (c :: cs) = (c :: l) :: ls := by
  have h : (c == '\n') = false := by simpa using hc
  obtain ⟨l, ls, h1, h2⟩ := splitLines_acc [c] cs
  exact ⟨l, ls, h2, by simp only [splitLines, h]; rw [h1]; simp⟩

/-- lines joined by newlines -/
def joinNL : List (List Char) → List Char
  | [] => []
  | [l] => l
  | l :: l' :: ls => l ++ '\n' :: joinNL (l' :: ls)

theorem joinNL_cons_cons (c : Char) (l : List Char) (ls : List (List Char)) :
    joinNL ((c :: l) :: ls) = c :: joinNL (l :: ls) := by
  cases ls <;> simp [joinNL]

theorem joinNL_splitLines (cs : List Char) : joinNL (splitLines [] cs) = cs := by
  induction cs with
  | nil => rfl
  | cons c cs ih =>
    by_cases hc : c = '\n'
    · subst hc
      rw [splitLines_cons_nl]
      obtain ⟨l, ls, _, h2⟩ := splitLines_acc [] cs
      rw [h2] at ih ⊢
      simp [joinNL, ih]
    · obtain ⟨l, ls, h1, h2⟩ := splitLines_cons c hc cs
      rw [h2, joinNL_cons_cons, ← h1, ih]

theorem lexC_joinNL (ls : List (List Char)) : lexC (joinNL ls) = ls.flatMap lexC := by
  induction ls with
  | nil => rfl
  | cons l ls ih =>
    cases ls with
    | nil => simp [joinNL]
    | cons l' ls => simp only [joinNL, lexC_nl, ih, List.flatMap_cons]

/-- tokens never span lines -/
theorem lexC_lines (cs : List Char) : lexC cs = (splitLines [] cs).flatMap lexC := by
  rw [← lexC_joinNL, joinNL_splitLines]

/-- `indentLines`: every non-empty line indented by two blanks and terminated -/
theorem lexC_indentLines (b : List Char) : lexC (indentLines b) = lexC b := by
  rw [lexC_lines b]
  unfold indentLines
  induction splitLines [] b with
  | nil => rfl
  | cons l ls ih =>
    by_cases hl : l = []
    · subst hl
      simp only [List.filter_cons, List.isEmpty_nil, Bool.not_true, List.flatMap_cons, lexC_nil, List.nil_append]
      exact ih
    · have : (!l.isEmpty) = true := by simp [hl]
      simp only [List.filter_cons, this, if_true, List.flatMap_cons]
      have e : (' ' :: ' ' :: l ++ ['\n']) = ([' ', ' '] ++ l) ++ ['\n'] := by simp
      rw [e, lexC_es_append (es_nl _), lexC_snoc_nl, lexC_spaces (by decide), ih]

theorem nle_indentLines (b : List Char) : NLE (indentLines b) := by
  unfold indentLines
  induction (splitLines [] b).filter (fun l => !l.isEmpty) with
  | nil => exact Or.inl rfl
  | cons l ls ih =>
    simp only [List.flatMap_cons]
    exact nle_append (Or.inr ⟨' ' :: ' ' :: l, by simp⟩) ih

/-! ## comment lines -/

theorem splitLines_no_nl (cs : List Char) : ∀ l ∈ splitLines [] cs, '\n' ∉ l := by
  induction cs with
  | nil => intro l hl; simp [splitLines] at hl; subst hl; simp
  | cons c cs ih =>
    by_cases hc : c = '\n'
    · subst hc
      rw [splitLines_cons_nl]
      intro l hl
      simp only [List.mem_cons] at hl
      rcases hl with rfl | hl
      · simp
      · exact ih l hl
    · obtain ⟨l0, ls, h1, h2⟩ := splitLines_cons c hc cs
      rw [h2]
      rw [h1] at ih
      intro l hl
      simp only [List.mem_cons] at hl
      rcases hl with rfl | hl
      · have := ih l0 (by simp)
        simp only [List.mem_cons, not_or]
        exact ⟨fun h => hc h.symm, this⟩
      · exact ih l (by simp [hl])

theorem feed_comment (l : List Char) (h : '\n' ∉ l) : feed .comment l = ([], .comment) := by
  induction l with
  | nil => rfl
  | cons c cs ih =>
    simp only [List.mem_cons, not_or] at h
    have hc : (c == '\n') = false := by simpa using fun e => h.1 e.symm
    simp only [feed, trans, hc, Bool.false_eq_true, if_false, ih h.2, List.append_nil]

/-- a `//` line: no tokens, and the lexer is back in its start state -/
theorem feed_comment_line (pre l : List Char) (h : '\n' ∉ l) :
    feed .start ('/' :: '/' :: pre ++ l ++ ['\n']) = ([], .start) ∨ '\n' ∈ pre := by
  by_cases hp : '\n' ∈ pre
  · exact Or.inr hp
  · left
    have h1 : '\n' ∉ pre ++ l := by simp [hp, h]
    have e : '/' :: '/' :: pre ++ l ++ ['\n'] = ['/', '/'] ++ ((pre ++ l) ++ ['\n']) := by simp
    rw [e, feed_append]
    have h2 : feed .start ['/', '/'] = ([], .comment) := rfl
    rw [h2]
    simp only [List.nil_append]
    rw [feed_append, feed_comment _ h1]
    rfl

theorem comment_line (pre l : List Char) (hp : '\n' ∉ pre) (h : '\n' ∉ l) :
    lexC ('/' :: '/' :: pre ++ l ++ ['\n']) = [] ∧ ES ('/' :: '/' :: pre ++ l ++ ['\n']) := by
  rcases feed_comment_line pre l h with h1 | h1
  · exact ⟨by simp only [lexC, h1]; rfl, by simp only [ES, h1]⟩
  · exact absurd h1 hp

end Ffcx.LNodes.Fmt
