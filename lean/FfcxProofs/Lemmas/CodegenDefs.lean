/-
The definition sections `s = 0.0; for (ic…) s += dofs[D(ic)] * FE[…][iq][ic]` of `definitions.py`:
a scalar accumulation loop rule (`scalar_accumulate`) and the value of a generated linear-combination
section (`lincombSection_spec`).
-/
import FfcxModel.Codegen.Definitions
import FfcxProofs.Lemmas.CodegenBlock
import FfcxProofs.C17

set_option linter.unusedSectionVars false

namespace Ffcx.Codegen
open Ffcx Ffcx.LNodes Lean.Grind
attribute [local instance] Lean.Grind.Ring.intCast
variable {R : Type} [Field R] (x : Extra R)

/-- `τ` is `σ` up to the integer variable `ic` and the scalar variable `a` -/
structure SFrame (a ic : String) (σ τ : St R) : Prop where
  ia : τ.ia = σ.ia
  sa : τ.sa = σ.sa
  iv : ∀ n, n ≠ ic → τ.iv.get n = σ.iv.get n
  sv : ∀ n, n ≠ a → τ.sv.get n = σ.sv.get n

theorem SFrame.refl (a ic : String) (σ : St R) : SFrame a ic σ σ :=
  ⟨rfl, rfl, fun _ _ => rfl, fun _ _ => rfl⟩

theorem SFrame.trans {a ic : String} {σ τ υ : St R} (h₁ : SFrame a ic σ τ) (h₂ : SFrame a ic τ υ) :
    SFrame a ic σ υ :=
  ⟨h₂.ia.trans h₁.ia, h₂.sa.trans h₁.sa, fun n hn => (h₂.iv n hn).trans (h₁.iv n hn),
    fun n hn => (h₂.sv n hn).trans (h₁.sv n hn)⟩

theorem SFrame.setIV {a ic : String} {σ τ : St R} (h : SFrame a ic σ τ) (v : Int) :
    SFrame a ic σ (τ.setIV ic v) := by
  refine ⟨h.ia, h.sa, ?_, h.sv⟩
  intro n hn
  simp only [St.setIV, AList.get_set_ne _ _ _ _ (fun e => hn e.symm)]
  exact h.iv n hn

theorem SFrame.setSV {a ic : String} {σ τ : St R} (h : SFrame a ic σ τ) (v : R) :
    SFrame a ic σ (τ.setSV a v) := by
  refine ⟨h.ia, h.sa, h.iv, ?_⟩
  intro n hn
  simp only [St.setSV, AList.get_set_ne _ _ _ _ (fun e => hn e.symm)]
  exact h.sv n hn

/-- **scalar_accumulate.** `for (ic = lo; ic < lo+n; ++ic) a += rhs`, where in every state that
    differs from `σ` only in `ic` and `a` the right-hand side is safe and has the value `g ic`:
    afterwards `a` holds its old value plus `Σ g`; only `ic` and `a` have changed. -/
theorem scalar_accumulate (a ic : String) (dt : DType) (hdt : (dt == DType.int) = false) (rhs : Expr)
    (g : Int → R) (σ : St R) :
    ∀ (n : Nat) (lo : Int) (τ : St R) (v₀ : R), SFrame a ic σ τ → τ.sv.get a = some v₀ →
      (∀ (t : Nat) (υ : St R), t < n → SFrame a ic σ υ → υ.iv.get ic = some (lo + t) →
        safeE υ rhs = true ∧ eval x υ rhs = g (lo + t)) →
      ∃ τ', loopN (fun s => execL x [.addAssign (.sym a dt) rhs] s) ic lo n τ = .ok τ' ∧
        SFrame a ic σ τ' ∧ τ'.sv.get a = some (v₀ + isum lo n g)
  | 0, lo, τ, v₀, hf, hv, _ => ⟨τ, rfl, hf, by simp [isum, hv]; grind⟩
  | n + 1, lo, τ, v₀, hf, hv, hr => by
    have hf₁ : SFrame a ic σ (τ.setIV ic lo) := hf.setIV lo
    obtain ⟨hs, he⟩ := hr 0 (τ.setIV ic lo) (by omega) hf₁ (by simp [St.setIV])
    have hv₁ : (τ.setIV ic lo).sv.get a = some v₀ := hv
    have hstep : execL x [.addAssign (.sym a dt) rhs] (τ.setIV ic lo) =
        .ok ((τ.setIV ic lo).setSV a (v₀ + g lo)) := by
      rw [execL_singleton]
      simp only [exec, hs, if_true, store, hdt, hv₁]
      simp at he
      simp [he]
    obtain ⟨τ', hl, hf', hv'⟩ := scalar_accumulate a ic dt hdt rhs g σ n (lo + 1)
      ((τ.setIV ic lo).setSV a (v₀ + g lo)) (v₀ + g lo) (hf₁.setSV _) (by simp [St.setSV])
      (fun t υ ht hυ hic => by
        have := hr (t + 1) υ (by omega) hυ (by rw [hic]; congr 1; omega)
        have e : lo + ((t + 1 : Nat) : Int) = lo + 1 + (t : Int) := by omega
        rw [e] at this; exact this)
    refine ⟨τ', by simp only [loopN, hstep, hl], hf', ?_⟩
    rw [hv']; simp only [isum]; congr 1; grind

/-! ## values of the generated subscripts -/

theorem evalI_lMul_lit (iv ia) (s : Expr) (c v : Int) (h : evalI iv ia s = some v) :
    evalI iv ia (lMul s (.litI c)) = some (v * c) := by
  unfold lMul
  split
  · rename_i hz; have := evalI_isZero iv ia s v hz h; subst this; simpa using h
  split
  · rename_i hz; simp [isZero] at hz; simp [evalI, hz]
  split
  · rename_i hz; have := evalI_isOne iv ia s v hz h; subst this; simp [evalI]
  split
  · rename_i hz; simp [isOne] at hz; simp [hz, h]
  split
  · rename_i hz; simp [isNegOne] at hz; subst hz; simp [evalI, h]
  split
  · rename_i hz; have := evalI_isNegOne iv ia s v hz h; subst this; simp [evalI]
  split
  · rename_i a b heq _ _ _
    simp only [Expr.litI.injEq] at heq
    simp [evalI] at h ⊢; subst h; rw [heq]
  · simp [evalI, h]

theorem evalI_lRAdd_lit (iv ia) (s : Expr) (c v : Int) (h : evalI iv ia s = some v) :
    evalI iv ia (lRAdd s (.litI c)) = some (c + v) := by
  unfold lRAdd
  split
  · rename_i hz; have := evalI_isZero iv ia s v hz h; subst this; simp [evalI]
  split
  · rename_i hz; simp [isZero] at hz; subst hz; simpa using h
  split
  · simp only [evalI, Option.map_eq_some_iff] at h
    obtain ⟨w, hw, rfl⟩ := h
    simp [evalI, hw]; omega
  · simp [evalI, h]

theorem mentions_lMul (m : String) (a b : Expr) (ha : mentionsE m a = false) (hb : mentionsE m b = false) :
    mentionsE m (lMul a b) = false := by
  unfold lMul
  repeat' split
  all_goals simp_all [mentionsE]

theorem mentions_lRAdd_lit (m : String) (a : Expr) (c : Int) (h : mentionsE m a = false) :
    mentionsE m (lRAdd a (.litI c)) = false := by
  unfold lRAdd
  repeat' split
  all_goals simp_all [mentionsE]

theorem safe_lMul (σ : St R) (a b : Expr) (ha : safeE σ a = true) (hb : safeE σ b = true) :
    safeE σ (lMul a b) = true := by
  unfold lMul
  repeat' split
  all_goals simp_all [safeE]

/-! ## the generated section -/

/-- the right-hand side `dofs[D] * FE` of a linear-combination section -/
def Lincomb.rhs (l : Lincomb) : Expr := lMul (.idx l.arr l.arrDt [l.dofIdx]) l.fe

/-- **lincombSection_spec.** The section `s = 0.0; for (ic < n) s += dofs[D] * FE`: if in every state
    differing from `σ` only in `ic` and `s` the right-hand side is safe with value `g ic`, then the
    section succeeds, `s = Σ_{ic<n} g ic` afterwards, and only `ic` and `s` have changed (in
    particular `A` and all arrays are untouched). -/
theorem lincombSection_spec (hlaw : LawfulExtra x) (l : Lincomb) (n : Nat)
    (hic : l.ic = { syms := ["ic"], sizes := [n] })
    (hdt1 : (l.dtype == DType.int) = false) (hdt2 : (l.dtype == DType.bool) = false)
    (g : Int → R) (σ : St R)
    (hr : ∀ (t : Nat) (υ : St R), t < n → SFrame l.access "ic" σ υ → υ.iv.get "ic" = some (t : Int) →
      safeE υ l.rhs = true ∧ eval x υ l.rhs = g t) :
    ∃ σ', exec x (lincombSection l) σ = .ok σ' ∧ SFrame l.access "ic" σ σ' ∧
      σ'.sv.get l.access = some (isum 0 n g) := by
  have hdecl : execL x [.vdecl l.access l.dtype (.litF 0 0 false)] σ = .ok (σ.setSV l.access 0) := by
    rw [execL_singleton]
    simp [exec, hdt1, hdt2, safeE, eval, hlaw.ofRat_zero]
  obtain ⟨σ', hl, hf, hv⟩ := scalar_accumulate x l.access "ic" l.dtype hdt1 l.rhs g σ n 0
    (σ.setSV l.access 0) 0 ((SFrame.refl _ _ σ).setSV 0) (by simp [St.setSV])
    (fun t υ ht hυ hic' => by
      have := hr t υ ht hυ (by simpa using hic')
      simpa using this)
  refine ⟨σ', ?_, hf, by rw [hv]; congr 1; grind⟩
  simp only [lincombSection, exec, hdecl, hic, List.zip_cons_cons, List.zip_nil_right, nestStmt, asStmt]
  rw [execL_singleton]
  simpa [exec, evalI, Lincomb.rhs] using hl

theorem argVal_sframe {a ic : String} {σ υ : St R} (h : SFrame a ic σ υ) (et : String) (q : Int)
    (ad : ArgDesc) (d : Int) : argVal υ et q ad d = argVal σ et q ad d := by
  have h1 : subVal υ (qpExpr ad.table ad.restriction) = subVal σ (qpExpr ad.table ad.restriction) := by
    simp only [subVal, h.ia]; rw [evalI_qpExpr_iv υ.iv σ.iv]
  have h3 : ∀ ix, readArr υ ad.table.name ix = readArr σ ad.table.name ix := by
    intro ix; simp only [readArr, h.sa]
  simp only [argVal, h1, h3]
  cases he : entExpr et ad.table ad.restriction with
  | none => rfl
  | some e =>
    have : subVal υ e = subVal σ e := by
      simp only [subVal, h.ia]; rw [evalI_entExpr_iv υ.iv σ.iv _ et _ _ e he]
    simp only [this]

theorem ArgOk_sframe {a ic : String} {σ υ : St R} (h : SFrame a ic σ υ) (et : String) (q : Int)
    (ad : ArgDesc) (hok : ArgOk σ et q ad) : ArgOk υ et q ad := by
  rcases hok with hok | ⟨e, vp, ve, arr, he, hvp, hve, harr, hfl⟩
  · exact Or.inl hok
  · refine Or.inr ⟨e, vp, ve, arr, he, ?_, ?_, ?_, hfl⟩
    · rw [h.ia, evalI_qpExpr_iv υ.iv σ.iv]; exact hvp
    · rw [h.ia, evalI_entExpr_iv υ.iv σ.iv _ et _ _ e he]; exact hve
    · rw [h.sa]; exact harr

/-- the dof array is declared and the subscripts `D d`, `d < n`, are inside it -/
def DofsOk (σ : St R) (arr : String) (n : Nat) (D : Int → Int) : Prop :=
  ∃ a, σ.sa.get arr = some a ∧ ∀ d : Nat, d < n → (flatIdx a.dims [D d]).isSome = true

/-- the common core of `coeff_lincomb` / `coord_lincomb`: a `Lincomb` whose table access comes from
    `table_access` on a one-symbol dof index and whose dof subscript evaluates to `D ic` -/
theorem lincomb_core (hlaw : LawfulExtra x) (l : Lincomb) (et : String) (t : TableRef) (r : Restr)
    (nq : Nat) (tabs : List String) (D : Int → Int)
    (hic : l.ic = { syms := ["ic"], sizes := [t.ndofs] })
    (hdt1 : (l.dtype == DType.int) = false) (hdt2 : (l.dtype == DType.bool) = false)
    (hadt : (l.arrDt == DType.int) = false)
    (hta : tableAccess t et r { syms := ["iq"], sizes := [nq] } { syms := ["ic"], sizes := [t.ndofs] } =
      .ok (l.fe, tabs))
    (hz : (t.ttype == "zeros") = false) (ho : (t.ttype == "ones") = false)
    (hD : ∀ (iv : AList Int) (ia : AList (Array Int)) (d : Int), iv.get "ic" = some d →
      evalI iv ia l.dofIdx = some (D d))
    (σ : St R) (q : Int) (hq : σ.iv.get "iq" = some q)
    (htab : ArgOk σ et q { table := t, restriction := r })
    (hdofs : DofsOk σ l.arr t.ndofs D) :
    ∃ σ', exec x (lincombSection l) σ = .ok σ' ∧ SFrame l.access "ic" σ σ' ∧
      σ'.sv.get l.access = some (isum 0 t.ndofs (fun d =>
        readArr σ l.arr [D d] * argVal σ et q { table := t, restriction := r } d)) := by
  refine lincombSection_spec x hlaw l t.ndofs hic hdt1 hdt2 _ σ ?_
  intro d υ hd hυ hicv
  let g' : GroupDesc := { (default : GroupDesc) with entityType := et }
  have haf : argFactor g' { syms := ["iq"], sizes := [nq] } { table := t, restriction := r }
      { syms := ["ic"], sizes := [t.ndofs] } = .ok (.ex l.fe, tabs) := by
    simp [argFactor, hz, ho, g', hta]
  have hqυ : υ.iv.get "iq" = some q := by rw [hυ.iv "iq" (by decide)]; exact hq
  obtain ⟨f1, f2, _⟩ := argFactor_sem x g' { table := t, restriction := r } "ic" t.ndofs nq (.ex l.fe) tabs
    haf υ q d hqυ hicv (ArgOk_sframe hυ et q _ htab)
  obtain ⟨arr, harr, hin⟩ := hdofs
  have hidx := hD υ.iv υ.ia d hicv
  have hsafeI : safeE υ (.idx l.arr l.arrDt [l.dofIdx]) = true := by
    simp only [safeE, hadt, hυ.sa, harr, evalIs, hidx]
    simpa using hin d hd
  have hevalI : eval x υ (.idx l.arr l.arrDt [l.dofIdx]) = readArr σ l.arr [D d] := by
    simp only [eval, hadt, evalIs, hidx]
    simp [readArr, hυ.sa]
  refine ⟨safe_lMul υ _ _ hsafeI (f2 ⟨d, rfl, hd⟩), ?_⟩
  simp only [Lincomb.rhs]
  rw [mul_sound hlaw, hevalI]
  simp only [MSym.toExpr] at f1
  rw [f1, argVal_sframe hυ]

end Ffcx.Codegen
