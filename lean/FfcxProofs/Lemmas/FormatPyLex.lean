/-
C16 — the Python lexer on rendered pieces (expression texts: no newlines): if every token piece is
a well-shaped token and no two adjacent token pieces fuse (`pySeparated`), lexing the rendered
text gives back exactly the token pieces (`lex_render_py`). Mirrors FormatLex.lean.
-/
import FfcxProofs.Lemmas.FormatLex
import FfcxModel.LNodes.ParsePy

namespace Ffcx.LNodes.Fmt
open Ffcx.LNodes

/-- blanks inside a Python expression text -/
def isPySpace (c : Char) : Bool := c == ' ' || c == '\t' || c == '\r'

theorem pySpace_cases {c : Char} (h : isPySpace c = true) : c = ' ' ∨ c = '\t' ∨ c = '\r' := by
  simp only [isPySpace, Bool.or_eq_true, beq_iff_eq] at h
  rcases h with (h | h) | h
  · exact Or.inl h
  · exact Or.inr (Or.inl h)
  · exact Or.inr (Or.inr h)

theorem pyTransStart_idStart {c : Char} (h : isIdStart c = true) : pyTransStart c = ([], .ident [c]) := by
  have h1 : c ≠ ' ' ∧ c ≠ '\t' ∧ c ≠ '\r' ∧ c ≠ '\n' ∧ c ≠ '#' := by
    refine ⟨?_, ?_, ?_, ?_, ?_⟩ <;> (intro hc; subst hc; exact absurd h (by decide))
  simp [pyTransStart, h1.1, h1.2.1, h1.2.2.1, h1.2.2.2.1, h1.2.2.2.2, h]

theorem pyTransStart_digit {c : Char} (h : c.isDigit = true) : pyTransStart c = ([], .num [c]) := by
  have h1 : c ≠ ' ' ∧ c ≠ '\t' ∧ c ≠ '\r' ∧ c ≠ '\n' ∧ c ≠ '#' := by
    refine ⟨?_, ?_, ?_, ?_, ?_⟩ <;> (intro hc; subst hc; exact absurd h (by decide))
  simp [pyTransStart, h1.1, h1.2.1, h1.2.2.1, h1.2.2.2.1, h1.2.2.2.2, digit_not_idStart h, h]

theorem pyTransStart_space {c : Char} (h : isPySpace c = true) : pyTransStart c = ([], .start) := by
  rcases pySpace_cases h with rfl | rfl | rfl <;> rfl

/-! ## running the transducer -/

/-- all tokens: emitted ones followed by the flushed pending one -/
def pyRun (st : PLS) (cs : List Char) : List Tok := (pyFeed st cs).1 ++ pyFlush (pyFeed st cs).2

theorem lexPyFlat_eq_run (cs : List Char) : lexPyFlat cs = pyRun .start cs := by
  simp only [lexPyFlat, pyRun]

theorem pyRun_nil (st : PLS) : pyRun st [] = pyFlush st := by simp [pyRun, pyFeed]

theorem pyRun_cons (st : PLS) (c : Char) (cs : List Char) :
    pyRun st (c :: cs) = (pyTrans st c).1 ++ pyRun (pyTrans st c).2 cs := by
  simp only [pyRun, pyFeed]
  cases pyTrans st c with
  | mk o s' =>
    cases pyFeed s' cs with
    | mk o' s'' => simp

theorem pyFeed_append (st : PLS) (a b : List Char) :
    pyFeed st (a ++ b) = ((pyFeed st a).1 ++ (pyFeed (pyFeed st a).2 b).1, (pyFeed (pyFeed st a).2 b).2) := by
  induction a generalizing st with
  | nil => simp [pyFeed]
  | cons c cs ih =>
    simp only [List.cons_append, pyFeed]
    rw [ih]
    cases pyTrans st c with
    | mk o s' => simp

theorem pyRun_append (st : PLS) (a b : List Char) :
    pyRun st (a ++ b) = (pyFeed st a).1 ++ pyRun (pyFeed st a).2 b := by
  simp [pyRun, pyFeed_append]

/-! ## closing a pending token -/

/-- the next character `c` does not extend the token pending in state `st` -/
def pySepChar : PLS → Char → Bool
  | .start, _ => true
  | .ident _, c => !isIdChar c
  | .num acc, c => !pyNumCont (acc.headD '0') c
  | .pend p, c => !(p == '/' && c == '/') && !(p == '.' && c.isDigit) && (pyPend2 p c).isNone
  | .comment, _ => false

theorem pyTrans_sep {st : PLS} {c : Char} (h : pySepChar st c = true) :
    pyTrans st c = (pyFlush st ++ (pyTransStart c).1, (pyTransStart c).2) := by
  cases st with
  | start => simp [pyTrans, pyFlush]
  | ident acc =>
    simp only [pySepChar, Bool.not_eq_true'] at h
    simp [pyTrans, pyFlush, h]
  | num acc =>
    simp only [pySepChar, Bool.not_eq_true'] at h
    simp only [pyTrans, pyFlush, h]
    rfl
  | pend p =>
    simp only [pySepChar, Bool.and_eq_true, Bool.not_eq_true', Option.isNone_iff_eq_none] at h
    obtain ⟨⟨h1, h2⟩, h3⟩ := h
    simp [pyTrans, pyFlush, h1, h2, h3]
  | comment => simp [pySepChar] at h

theorem pyRun_sep {st : PLS} {c : Char} {cs : List Char} (h : pySepChar st c = true) :
    pyRun st (c :: cs) = pyFlush st ++ pyRun .start (c :: cs) := by
  rw [pyRun_cons, pyRun_cons, pyTrans_sep h]
  simp [pyTrans]

theorem pySepChar_space {st : PLS} (hst : st ≠ .comment) {c : Char} (h : isPySpace c = true) :
    pySepChar st c = true := by
  rcases pySpace_cases h with rfl | rfl | rfl | rfl <;>
  (cases st with
   | start => rfl
   | ident acc => simp [pySepChar] <;> decide
   | num acc => simp [pySepChar, pyNumCont] <;> decide
   | pend p => simp [pySepChar, pyPend2] <;> decide
   | comment => exact absurd rfl hst)

theorem pyRun_spaces {s : List Char} (hs : s.all isPySpace = true) (cs : List Char) :
    pyRun .start (s ++ cs) = pyRun .start cs := by
  induction s with
  | nil => rfl
  | cons c s ih =>
    simp only [List.all_cons, Bool.and_eq_true] at hs
    rw [List.cons_append, pyRun_cons]
    simp only [pyTrans, pyTransStart_space hs.1, List.nil_append]
    exact ih hs.2

/-! ## feeding one token -/

theorem pyFeed_ident (cs acc : List Char) (h : cs.all isIdChar = true) :
    pyFeed (.ident acc) cs = ([], .ident (cs.reverse ++ acc)) := by
  induction cs generalizing acc with
  | nil => simp [pyFeed]
  | cons c cs ih =>
    simp only [List.all_cons, Bool.and_eq_true] at h
    simp only [pyFeed, pyTrans, h.1, if_true]
    rw [ih _ h.2]
    simp

theorem pyFeed_num (cs acc : List Char) (last : Char) (hacc : acc.headD '0' = last)
    (h : pyNumContAll last cs = true) :
    pyFeed (.num acc) cs = ([], .num (cs.reverse ++ acc)) := by
  induction cs generalizing acc last with
  | nil => simp [pyFeed]
  | cons c cs ih =>
    simp only [pyNumContAll, Bool.and_eq_true] at h
    simp only [pyFeed, pyTrans, hacc, h.1, if_true]
    rw [ih (c :: acc) c rfl h.2]
    simp

/-- punctuators that are Python tokens -/
def pyPunctOK : P → Bool
  | .quest | .andand | .oror | .bang | .incr | .decr | .amp | .bar => false
  | _ => true

/-- a token piece is well-shaped: an identifier is an identifier, a number text is one pp-number
    ending in a digit, a punctuator is a punctuator (no `bad`, no Python line structure) -/
def pyTokOK : Tok → Bool
  | .id s => match s.toList with
    | [] => false
    | c :: cs => isIdStart c && cs.all isIdChar
  | .num s => pyNumShape s.toList
  | .p q => pyPunctOK q
  | _ => false

/-- the lexer state after the text of a token has been read from the start state -/
def pyStTok (t : Tok) : PLS := (pyFeed .start t.text).2
def pyPreTok (t : Tok) : List Tok := (pyFeed .start t.text).1

theorem pyFeed_tok (t : Tok) (h : pyTokOK t = true) :
    pyPreTok t ++ pyFlush (pyStTok t) = [t] ∧ pyStTok t ≠ .comment := by
  cases t with
  | id s =>
    simp only [pyTokOK] at h
    have hs : String.ofList s.toList = s := String.ofList_toList
    cases hl : s.toList with
    | nil => simp [hl] at h
    | cons c cs =>
      simp only [hl, Bool.and_eq_true] at h
      have hf : pyFeed .start (Tok.id s).text = ([], .ident (cs.reverse ++ [c])) := by
        simp only [Tok.text, hl, pyFeed, pyTrans, pyTransStart_idStart h.1]
        rw [pyFeed_ident cs [c] h.2]
        simp
      simp only [pyPreTok, pyStTok, hf, pyFlush, mkStr]
      refine ⟨?_, by simp⟩
      simp [← hl, hs]
  | num s =>
    simp only [pyTokOK, pyNumShape] at h
    have hs : String.ofList s.toList = s := String.ofList_toList
    cases hl : s.toList with
    | nil => simp [hl] at h
    | cons c cs =>
      simp only [hl, Bool.and_eq_true] at h
      have hf : pyFeed .start (Tok.num s).text = ([], .num (cs.reverse ++ [c])) := by
        simp only [Tok.text, hl, pyFeed, pyTrans, pyTransStart_digit h.1.1]
        rw [pyFeed_num cs [c] c rfl h.1.2]
        simp
      simp only [pyPreTok, pyStTok, hf, pyFlush, mkStr]
      refine ⟨?_, by simp⟩
      simp [← hl, hs]
  | p q => cases q <;> first | exact ⟨rfl, by decide⟩ | (simp [pyTokOK, pyPunctOK] at h)
  | bad c => simp [pyTokOK] at h
  | newline => simp [pyTokOK] at h
  | indent => simp [pyTokOK] at h
  | dedent => simp [pyTokOK] at h

/-- the text of `t2` may follow the text of `t1` directly: its first character does not extend `t1` -/
def pySepTok (t1 t2 : Tok) : Bool :=
  match t2.text with
  | [] => false
  | c :: _ => pySepChar (pyStTok t1) c

/-- local condition on a piece list: token pieces well-shaped, white space pieces non-empty and
    blank, directly adjacent token pieces do not fuse -/
def pySeparated : List Piece → Bool
  | [] => true
  | .ws s :: ps => !s.isEmpty && s.all isPySpace && pySeparated ps
  | .t a :: ps =>
    pyTokOK a && (match ps with | .t b :: _ => pySepTok a b | _ => true) && pySeparated ps

/-- **No token fusion, generic form.** For a pySeparated piece list the C lexer reads the rendered
    text back to exactly the token pieces. -/
theorem lex_render_py : ∀ ps : List Piece, pySeparated ps = true → lexPyFlat (render ps) = toks ps := by
  intro ps hps
  rw [lexPyFlat_eq_run]
  -- B: from the start state; A: from the state after a token `t0` that may be followed by `ps`
  suffices H : ∀ ps, pySeparated ps = true →
      pyRun .start (render ps) = toks ps ∧
      ∀ t0, pyTokOK t0 = true → (match ps with | .t b :: _ => pySepTok t0 b | _ => true) = true →
        pyRun (pyStTok t0) (render ps) = pyFlush (pyStTok t0) ++ toks ps from (H ps hps).1
  intro ps
  induction ps with
  | nil =>
    intro _
    exact ⟨by simp [render, toks, pyRun_nil, pyFlush], fun t0 _ _ => by simp [render, toks, pyRun_nil]⟩
  | cons pc ps ih =>
    intro h
    cases pc with
    | ws s =>
      simp only [pySeparated, Bool.and_eq_true, Bool.not_eq_true', List.isEmpty_eq_false_iff] at h
      obtain ⟨⟨hne, hsp⟩, hrest⟩ := h
      have hB := (ih hrest).1
      have hB' : pyRun .start (render (.ws s :: ps)) = toks (.ws s :: ps) := by
        simp only [render, toks]
        rw [pyRun_spaces hsp, hB]
      refine ⟨hB', ?_⟩
      intro t0 ht0 _
      cases s with
      | nil => exact absurd rfl hne
      | cons c s' =>
        simp only [List.all_cons, Bool.and_eq_true] at hsp
        have hst := (pyFeed_tok t0 ht0).2
        have : render (.ws (c :: s') :: ps) = c :: (s' ++ render ps) := by simp [render]
        rw [this, pyRun_sep (pySepChar_space hst hsp.1), ← this, hB']
    | t a =>
      simp only [pySeparated, Bool.and_eq_true] at h
      obtain ⟨⟨hok, hadj⟩, hrest⟩ := h
      obtain ⟨_, hA⟩ := ih hrest
      have hfa := (pyFeed_tok a hok).1
      have hB' : pyRun .start (render (.t a :: ps)) = toks (.t a :: ps) := by
        simp only [render, toks]
        rw [pyRun_append]
        change pyPreTok a ++ pyRun (pyStTok a) (render ps) = a :: toks ps
        rw [hA a hok hadj, ← List.append_assoc, hfa]
        rfl
      refine ⟨hB', ?_⟩
      intro t0 ht0 hsep
      simp only [pySepTok] at hsep
      cases hat : a.text with
      | nil => simp [hat] at hsep
      | cons c cs =>
        simp only [hat] at hsep
        have : render (.t a :: ps) = c :: (cs ++ render ps) := by simp [render, hat]
        rw [this, pyRun_sep hsep, ← this, hB']

end Ffcx.LNodes.Fmt
