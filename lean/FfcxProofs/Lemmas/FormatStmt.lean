/-
C16 — statements: assignment statements (`lhs = rhs;`, `lhs += rhs;`) at the text, token and
parse level.
-/
import FfcxProofs.Lemmas.FormatNorm
namespace Ffcx.LNodes.Fmt
open Ffcx.LNodes

/-! ## assignment statements -/

/-- pieces of `lhs op rhs;\n` -/
def assignPieces (sc : Scalar) (o : P) (l r : Expr) : List Piece :=
  piecesC sc l ++ [sp, pp o, sp] ++ piecesC sc r ++ [pp .semi, .ws ['\n']]

theorem render_append (a b : List Piece) : render (a ++ b) = render a ++ render b := by
  induction a with
  | nil => rfl
  | cons p ps ih => cases p <;> simp [render, ih]

theorem fmtStmtC_assign (sc : Scalar) (l r : Expr) :
    fmtStmtC sc (.assign l r) = some (render (assignPieces sc .assign l r)) := by
  simp [fmtStmtC, assignPieces, render_append, render, fmtExprC, strL, sp, pp, Tok.text, P.text]

theorem fmtStmtC_addAssign (sc : Scalar) (l r : Expr) :
    fmtStmtC sc (.addAssign l r) = some (render (assignPieces sc .plusAssign l r)) := by
  simp [fmtStmtC, assignPieces, render_append, render, fmtExprC, strL, sp, pp, Tok.text, P.text]

theorem toks_assignPieces (sc : Scalar) (o : P) (l r : Expr) :
    toks (assignPieces sc o l r) = tokExprC sc l ++ .p o :: (tokExprC sc r ++ [.p .semi]) := by
  simp [assignPieces, toks_append, tokExprC, toks]

theorem separated_assign (sc : Scalar) (o : P) (l r : Expr) (hl : SP (piecesC sc l)) (hr : SP (piecesC sc r)) :
    separated (assignPieces sc o l r) = true := by
  have h1 := sp_mid_ws o hl hr
  obtain ⟨x, hx, hx'⟩ := h1.last
  unfold assignPieces
  refine separated_append h1.sep (by simp [separated, pp, tokOK, isSpace]) ?_
  intro a b ha hb
  rw [hx] at ha; cases ha
  simp only [firstP, pp, Option.some.injEq] at hb; subst hb
  exact sepTok_last_closer hx' (c := ';') (cs := []) rfl rfl

theorem validIdent_not_for {n : String} (h : validIdent n = true) : n ≠ "for" := by
  intro hn; subst hn; exact absurd h (by decide)

/-- token-level: an assignment statement parses back -/
theorem parse_assign_tokens (sc : Scalar) (o : P) (ho : o = .assign ∨ o = .plusAssign) (l r : Expr)
    (hlv : isLvalue l = true) (hl : wfC sc l = true) (hr : wfC sc r = true) :
    parseStmtsTopC (tokExprC sc l ++ .p o :: (tokExprC sc r ++ [.p .semi]))
      = some [.assign (decide (o = .plusAssign)) (eraseC sc l) (eraseC sc r)] := by
  have rl := rt_all sc (esize l) l (Nat.le_refl _) hl
  have rr := rt_all sc (esize r) r (Nat.le_refl _) hr
  have hlp : (precF l) ≤ 2 := by cases l <;> simp [isLvalue] at hlv <;> simp [precF, Expr.prec]
  -- the text starts with an identifier that is not a keyword, followed by a punctuator
  have hshape : ∃ n rest2 q, validIdent n = true ∧
      tokExprC sc l ++ .p o :: (tokExprC sc r ++ [.p .semi]) = .id n :: .p q :: rest2 := by
    cases l with
    | sym n dt =>
      simp only [wfC] at hl
      exact ⟨n, _, o, hl, by rw [show tokExprC sc (.sym n dt) = [.id n] from tk_sym sc n dt]; rfl⟩
    | idx arr dt ix =>
      simp only [wfC, Bool.and_eq_true] at hl
      exact ⟨arr, _, .lbrack, hl.1.1, by rw [show tokExprC sc (.idx arr dt ix) = _ from tk_idx sc arr dt ix]; rfl⟩
    | _ => simp [isLvalue] at hlv
  obtain ⟨n, rest2, q, hn, hts⟩ := hshape
  generalize hTS : tokExprC sc l ++ .p o :: (tokExprC sc r ++ [.p .semi]) = ts at hts
  have hlen : (tokExprC sc l).length + (tokExprC sc r).length + 2 = ts.length := by
    rw [← hTS]; simp; omega
  -- the expression statement
  have hassign : parseAssignC ts = some (.assign (decide (o = .plusAssign)) (eraseC sc l) (eraseC sc r), []) := by
    unfold parseAssignC
    have h1 : parseUnary (fuelFor ts) ts = some (eraseC sc l, .p o :: (tokExprC sc r ++ [.p .semi])) := by
      rw [← hTS]
      refine rl.un hlp _ _ ?_ ?_
      · rcases ho with rfl | rfl <;> rfl
      · simp only [fuelFor, tk]; rw [hTS]; omega
    rw [h1]
    simp only []
    have ho' : (Tok.p o = Tok.p P.assign ∨ Tok.p o = Tok.p P.plusAssign) := by
      rcases ho with rfl | rfl <;> simp
    rw [if_pos ho']
    have h2 : parseCond (fuelFor (tokExprC sc r ++ [.p .semi])) (tokExprC sc r ++ [.p .semi])
        = some (eraseC sc r, [.p .semi]) := by
      refine rr.full _ _ rfl ?_
      simp only [fuelFor, tk, List.length_append, List.length_cons, List.length_nil]; omega
    rw [h2]
    simp only [if_true]
    rcases ho with rfl | rfl <;> rfl
  -- the statement dispatcher: not a block, not `for`, not a declaration
  have hstmt : ∀ F, parseStmtC (F + 1) ts = parseAssignC ts := by
    intro F
    rw [hts, parseStmtC]
    have h1 : ¬ (Tok.id n = Tok.p P.lbrace) := by simp
    have h2 : ¬ (Tok.id n = Tok.id "for") := by
      intro h; injection h with h; exact validIdent_not_for hn h
    simp only [h1, h2, if_false, isDeclStart]
    rfl
  unfold parseStmtsTopC
  obtain ⟨F, hF⟩ : ∃ F, 2 * ts.length + 2 = F + 2 := ⟨2 * ts.length, by omega⟩
  rw [hF, hts, parseStmtsC]
  have h3 : ¬ (Tok.id n = Tok.p P.rbrace) := by simp
  simp only [h3, if_false]
  rw [← hts, hstmt F, hassign]
  simp only []
  have : parseStmtsC (F + 1) [] = some ([], []) := by rw [parseStmtsC]
  rw [this]


/-- text, tokens and parse of an assignment statement -/
theorem assign_roundtrip (sc : Scalar) (o : P) (ho : o = .assign ∨ o = .plusAssign) (l r : Expr)
    (hlv : isLvalue l = true) (hl : wfC sc l = true) (hr : wfC sc r = true)
    :
    lexC (render (assignPieces sc o l r)) = tokExprC sc l ++ .p o :: (tokExprC sc r ++ [.p .semi])
    ∧ parseStmtsTopC (lexC (render (assignPieces sc o l r)))
        = some [.assign (decide (o = .plusAssign)) (eraseC sc l) (eraseC sc r)] := by
  have sl := (se_all sc (esize l) l (Nat.le_refl _) hl).sp
  have sr := (se_all sc (esize r) r (Nat.le_refl _) hr).sp
  have h1 := lex_render _ (separated_assign sc o l r sl sr)
  rw [toks_assignPieces] at h1
  exact ⟨h1, by rw [h1]; exact parse_assign_tokens sc o ho l r hlv hl hr⟩

end Ffcx.LNodes.Fmt
