/-
Helper lemmas for FfcxProofs/C18Descr.lean (descriptor generators of the two backends).
Core Lean only.
-/
import FfcxModel.Backend.Descriptors

namespace Ffcx.Backend

instance {ε α : Type} [DecidableEq ε] [DecidableEq α] : DecidableEq (Except ε α)
  | .ok a, .ok b => if h : a = b then isTrue (h ▸ rfl) else isFalse (fun e => h (Except.ok.inj e))
  | .error a, .error b => if h : a = b then isTrue (h ▸ rfl) else isFalse (fun e => h (Except.error.inj e))
  | .ok _, .error _ => isFalse (fun e => nomatch e)
  | .error _, .ok _ => isFalse (fun e => nomatch e)

/-! ### `resEq` -/

theorem resEq_refl {δ : Type} {eq : δ → δ → Prop} (hrefl : ∀ d, eq d d) (r : Except String δ) :
    resEq eq r r := by
  cases r <;> simp [resEq, hrefl]

theorem resEq_mono {δ : Type} {eq eq' : δ → δ → Prop} (h : ∀ a b, eq a b → eq' a b)
    {r s : Except String δ} (hr : resEq eq r s) : resEq eq' r s := by
  cases r <;> cases s <;> simp_all [resEq]

theorem resEq_ok_left {δ : Type} {eq : δ → δ → Prop} {r s : Except String δ} {c : δ}
    (h : resEq eq r s) (hc : r = .ok c) : ∃ n, s = .ok n ∧ eq c n := by
  subst hc
  cases s <;> simp_all [resEq]

/-- `mapM` of two functions that agree pointwise up to the error message. -/
theorem mapM_resEq {α β : Type} (f g : α → Except String β) (l : List α)
    (h : ∀ x ∈ l, resEq Eq (f x) (g x)) : resEq Eq (l.mapM f) (l.mapM g) := by
  induction l with
  | nil => simp [resEq, pure, Except.pure]
  | cons a l ih =>
    have ha := h a (by simp)
    have hl := ih (fun x hx => h x (by simp [hx]))
    simp only [List.mapM_cons]
    cases hfa : f a <;> cases hga : g a <;> rw [hfa, hga] at ha <;> simp [resEq] at ha
    · simp [resEq, bind, Except.bind]
    · subst ha
      cases hfl : l.mapM f <;> cases hgl : l.mapM g <;> rw [hfl, hgl] at hl <;> simp [resEq] at hl
      · simp [resEq, bind, Except.bind]
      · subst hl
        simp [resEq, bind, Except.bind, pure, Except.pure]

/-- the tail `rows ← …; pure (arr rows)` of the constant-shape tables -/
theorem bind_arr_resEq {β : Type} {r s : Except String (List β)} (h : resEq Eq r s) :
    resEq Eq (r >>= fun rows => pure (Enc.arr rows)) (s >>= fun rows => pure (Enc.arr rows)) := by
  cases r <;> cases s <;> simp [resEq] at h
  · simp [resEq, bind, Except.bind]
  · subst h; simp [resEq, bind, Except.bind, pure, Except.pure]

theorem bind_arr_ok {β : Type} {r : Except String (List β)} {cs : Enc β}
    (h : (r >>= fun rows => pure (Enc.arr rows)) = .ok cs) : ∃ rows, r = .ok rows ∧ cs = .arr rows := by
  cases r with
  | error e => simp [bind, Except.bind] at h
  | ok rows => simp [bind, Except.bind, pure, Except.pure] at h; exact ⟨rows, rfl, h.symm⟩

/-! ### `Enc` -/

@[simp] theorem Enc.toList_absent {α} : (Enc.absent : Enc α).toList = [] := rfl
@[simp] theorem Enc.toList_arr {α} (xs : List α) : (Enc.arr xs).toList = xs := rfl

theorem List.map_eq_self_of_forall {α} (f : α → α) (xs : List α) (h : ∀ x ∈ xs, f x = x) : xs.map f = xs := by
  induction xs with
  | nil => rfl
  | cons a l ih =>
    simp only [List.map_cons, List.cons.injEq]
    exact ⟨h a (by simp), ih (fun x hx => h x (by simp [hx]))⟩

theorem Enc.map_id_of_forall {α} (f : α → α) (e : Enc α) (h : ∀ x ∈ e.toList, f x = x) : e.map f = e := by
  cases e with
  | absent => rfl
  | arr xs =>
    simp only [Enc.map, Enc.arr.injEq]
    exact List.map_eq_self_of_forall f xs (by simpa using h)

/-! ### `integral_data`: the three lists stay aligned and the last offset is the table length -/

theorem mapM_pyIndex_length {α} (xs : List α) (is : List Nat) (ys : List α)
    (h : is.mapM (pyIndex xs) = .ok ys) : ys.length = is.length := by
  induction is generalizing ys with
  | nil => simp [pure, Except.pure] at h; subst h; rfl
  | cons i is ih =>
    simp only [List.mapM_cons] at h
    cases hi : pyIndex xs i with
    | error e => rw [hi] at h; simp [bind, Except.bind] at h
    | ok y =>
      rw [hi] at h
      cases hr : is.mapM (pyIndex xs) with
      | error e => rw [hr] at h; simp [bind, Except.bind] at h
      | ok r =>
        rw [hr] at h
        simp [bind, Except.bind, pure, Except.pure] at h
        subst h
        simp [ih r hr]

/-- the invariant of the loop of `integral_data` -/
structure IntegralData.Aligned (d : IntegralData) : Prop where
  names : d.names.length = d.ids.length
  domains : d.domains.length = d.ids.length
  last : d.offsets.getLast?.getD 0 = (d.domains.map List.length).sum
  len : d.offsets ≠ []

theorem foldlM_invariant {α β : Type} (P : β → Prop) (step : β → α → Except String β)
    (hstep : ∀ acc t acc', P acc → step acc t = .ok acc' → P acc')
    (l : List α) (init r : β) (hinit : P init) (h : l.foldlM step init = .ok r) : P r := by
  induction l generalizing init with
  | nil => simp [pure, Except.pure] at h; subst h; exact hinit
  | cons a l ih =>
    simp only [List.foldlM_cons] at h
    cases hs : step init a with
    | error e => rw [hs] at h; simp [bind, Except.bind] at h
    | ok acc' =>
      rw [hs] at h
      exact ih acc' (hstep init a acc' hinit hs) (by simpa [bind, Except.bind] using h)

/-- what a successful iteration of the loop of `integral_data` did -/
theorem integralDataStep_ok (argsort : List Int → List Nat) (acc : IntegralData) (t : TypeIntegrals)
    (acc' : IntegralData) (h : integralDataStep argsort acc t = .ok acc') :
    ∃ ids names doms,
      (argsort t.ids).mapM (pyIndex t.ids) = .ok ids
      ∧ (argsort t.ids).mapM (pyIndex t.names) = .ok names
      ∧ (argsort t.ids).mapM (pyIndex t.domains) = .ok doms
      ∧ acc' = { names := acc.names ++ names, ids := acc.ids ++ ids, domains := acc.domains ++ doms,
                 offsets := acc.offsets ++ [acc.offsets.getLast?.getD 0 + (doms.map List.length).sum] } := by
  simp only [integralDataStep] at h
  cases h1 : (argsort t.ids).mapM (pyIndex t.ids) with
  | error e => simp [h1, bind, Except.bind] at h
  | ok ids =>
    cases h2 : (argsort t.ids).mapM (pyIndex t.names) with
    | error e => simp [h1, h2, bind, Except.bind] at h
    | ok names =>
      cases h3 : (argsort t.ids).mapM (pyIndex t.domains) with
      | error e => simp [h1, h2, h3, bind, Except.bind] at h
      | ok doms =>
        simp [h1, h2, h3, bind, Except.bind, pure, Except.pure] at h
        exact ⟨ids, names, doms, rfl, rfl, rfl, h.symm⟩

theorem integralDataStep_aligned (argsort : List Int → List Nat) (acc : IntegralData) (t : TypeIntegrals)
    (acc' : IntegralData) (hacc : acc.Aligned) (h : integralDataStep argsort acc t = .ok acc') :
    acc'.Aligned := by
  obtain ⟨ids, names, doms, h1, h2, h3, rfl⟩ := integralDataStep_ok argsort acc t acc' h
  have l1 := mapM_pyIndex_length _ _ _ h1
  have l2 := mapM_pyIndex_length _ _ _ h2
  have l3 := mapM_pyIndex_length _ _ _ h3
  refine ⟨?_, ?_, ?_, ?_⟩
  · simp [hacc.names, l1, l2]
  · simp [hacc.domains, l1, l3]
  · simp [hacc.last]
  · simp

theorem integralData_aligned (argsort : List Int → List Nat) (ir : FormIR) (d : IntegralData)
    (h : integralData argsort ir = .ok d) : d.Aligned := by
  unfold integralData at h
  exact foldlM_invariant IntegralData.Aligned (integralDataStep argsort)
    (integralDataStep_aligned argsort) ir.integrals _ d ⟨rfl, rfl, rfl, by simp⟩ h

/-- every type appends exactly one offset -/
theorem integralData_offsets_length (argsort : List Int → List Nat) (ir : FormIR) (d : IntegralData)
    (h : integralData argsort ir = .ok d) : d.offsets.length = ir.integrals.length + 1 := by
  unfold integralData at h
  have := foldlM_invariant
    (fun (p : IntegralData × Nat) => p.1.offsets.length = p.2 + 1)
    (fun p t => (integralDataStep argsort p.1 t).map (fun a => (a, p.2 + 1)))
    (by
      intro acc t acc' hacc hs
      cases hst : integralDataStep argsort acc.1 t with
      | error e => rw [hst] at hs; simp [Except.map] at hs
      | ok a =>
        rw [hst] at hs
        simp [Except.map] at hs
        subst hs
        obtain ⟨ids, names, doms, -, -, -, rfl⟩ := integralDataStep_ok argsort acc.1 t a hst
        simp [hacc])
  -- transport the fold over the pair back to the fold of `integral_data`
  have key : ∀ (l : List TypeIntegrals) (init : IntegralData) (k : Nat) (r : IntegralData),
      l.foldlM (integralDataStep argsort) init = .ok r →
      l.foldlM (fun (p : IntegralData × Nat) t => (integralDataStep argsort p.1 t).map (fun a => (a, p.2 + 1)))
        (init, k) = .ok (r, k + l.length) := by
    intro l
    induction l with
    | nil => intro init k r h; simp [pure, Except.pure] at h ⊢; exact h
    | cons a l ih =>
      intro init k r h
      simp only [List.foldlM_cons] at h ⊢
      cases hs : integralDataStep argsort init a with
      | error e => rw [hs] at h; simp [bind, Except.bind] at h
      | ok acc' =>
        rw [hs] at h
        simp only [bind, Except.bind, Except.map] at h ⊢
        have := ih acc' (k + 1) r h
        simp only [Except.map] at this
        rw [this]
        simp; omega
  have h2 := key ir.integrals _ 0 d h
  have := this ir.integrals (_, 0) (d, 0 + ir.integrals.length) (by simp) h2
  simpa using this

/-- length of a per-domain comprehension `[e for x, domains in zip(xs, domains) for _ in domains]` -/
theorem flatMap_zip_length {α β : Type} (xs : List α) (doms : List (List Domain)) (f : α → Domain → β)
    (h : xs.length = doms.length) :
    ((xs.zip doms).flatMap (fun p => p.2.map (f p.1))).length = (doms.map List.length).sum := by
  induction xs generalizing doms with
  | nil => cases doms <;> simp_all
  | cons x xs ih =>
    cases doms with
    | nil => simp at h
    | cons d ds =>
      simp only [List.length_cons, Nat.add_right_cancel_iff] at h
      simp [ih ds h]

/-! ### C storage -/

theorem wrap32_id (x : Int) (h : -2147483648 ≤ x ∧ x < 2147483648) : C.wrap32 x = x := by
  unfold C.wrap32; omega

theorem wrap64_id (x : Nat) (h : x < 18446744073709551616) : C.wrap64 x = x := by
  unfold C.wrap64; omega

end Ffcx.Backend

namespace Ffcx.Backend

/-! ### membership through `mapM` / `foldlM` -/

theorem mapM_ok_forall {α β : Type} (f : α → Except String β) (Q : β → Prop) (l : List α) (ys : List β)
    (h : l.mapM f = .ok ys) (hf : ∀ x ∈ l, ∀ y, f x = .ok y → Q y) : ∀ y ∈ ys, Q y := by
  induction l generalizing ys with
  | nil => simp [pure, Except.pure] at h; subst h; simp
  | cons a l ih =>
    simp only [List.mapM_cons] at h
    cases ha : f a with
    | error e => rw [ha] at h; simp [bind, Except.bind] at h
    | ok b =>
      rw [ha] at h
      cases hl : l.mapM f with
      | error e => rw [hl] at h; simp [bind, Except.bind] at h
      | ok bs =>
        rw [hl] at h
        simp [bind, Except.bind, pure, Except.pure] at h
        subst h
        intro y hy
        rcases List.mem_cons.mp hy with rfl | hy
        · exact hf a (by simp) _ ha
        · exact ih bs hl (fun x hx => hf x (by simp [hx])) y hy

theorem mapM_pyIndex_mem {α : Type} (xs : List α) (is : List Nat) (ys : List α)
    (h : is.mapM (pyIndex xs) = .ok ys) : ∀ y ∈ ys, y ∈ xs := by
  refine mapM_ok_forall (pyIndex xs) (fun (y : α) => y ∈ xs) is ys h ?_
  intro i _ y hy
  unfold pyIndex at hy
  cases hg : xs[i]? with
  | none => simp [hg] at hy
  | some v =>
    simp [hg] at hy
    subst hy
    exact List.mem_of_getElem? hg

theorem foldlM_invariant_mem {α β : Type} (P : β → Prop) (step : β → α → Except String β) (l : List α)
    (hstep : ∀ acc t acc', t ∈ l → P acc → step acc t = .ok acc' → P acc')
    (init r : β) (hinit : P init) (h : l.foldlM step init = .ok r) : P r := by
  induction l generalizing init with
  | nil => simp [pure, Except.pure] at h; subst h; exact hinit
  | cons a l ih =>
    simp only [List.foldlM_cons] at h
    cases hs : step init a with
    | error e => rw [hs] at h; simp [bind, Except.bind] at h
    | ok acc' =>
      rw [hs] at h
      exact ih (fun acc t acc'' ht => hstep acc t acc'' (by simp [ht])) acc'
        (hstep init a acc' (by simp) hinit hs) (by simpa [bind, Except.bind] using h)

/-- every id `integral_data` returns is an id of the FormIR (whatever `argsort` returns) -/
theorem integralData_ids_mem (argsort : List Int → List Nat) (ir : FormIR) (d : IntegralData)
    (h : integralData argsort ir = .ok d) : ∀ i ∈ d.ids, ∃ t ∈ ir.integrals, i ∈ t.ids := by
  unfold integralData at h
  refine foldlM_invariant_mem (fun acc => ∀ i ∈ acc.ids, ∃ t ∈ ir.integrals, i ∈ t.ids)
    (integralDataStep argsort) ir.integrals ?_ _ d (by simp) h
  intro acc t acc' ht hacc hs
  obtain ⟨ids, names, doms, h1, -, -, rfl⟩ := integralDataStep_ok argsort acc t acc' hs
  intro i hi
  rcases List.mem_append.mp hi with hi | hi
  · exact hacc i hi
  · exact ⟨t, ht, mapM_pyIndex_mem _ _ _ h1 i hi⟩

/-- the offsets are non-decreasing: every entry is bounded by the last one -/
theorem integralData_offsets_le_last (argsort : List Int → List Nat) (ir : FormIR) (d : IntegralData)
    (h : integralData argsort ir = .ok d) : ∀ x ∈ d.offsets, x ≤ d.offsets.getLast?.getD 0 := by
  unfold integralData at h
  refine foldlM_invariant (fun acc => ∀ x ∈ acc.offsets, x ≤ acc.offsets.getLast?.getD 0)
    (integralDataStep argsort) ?_ ir.integrals _ d (by simp) h
  intro acc t acc' hacc hs
  obtain ⟨ids, names, doms, -, -, -, rfl⟩ := integralDataStep_ok argsort acc t acc' hs
  intro x hx
  simp only [List.getLast?_append, List.getLast?_singleton, Option.some_or, Option.getD_some]
  rcases List.mem_append.mp hx with hx | hx
  · have := hacc x hx; omega
  · simp at hx; omega

/-! ### `_compute_form_ir`: the ids that pass the guards fit, and the three lists stay parallel -/

theorem mem_modifyAt {α} (f : α → α) (k : Nat) (l : List α) (t : α) (h : t ∈ modifyAt f k l) :
    t ∈ l ∨ ∃ t0 ∈ l, t = f t0 := by
  induction l generalizing k with
  | nil => simp [modifyAt] at h
  | cons a l ih =>
    cases k with
    | zero =>
      simp only [modifyAt, List.mem_cons] at h
      rcases h with rfl | h
      · exact .inr ⟨a, by simp, rfl⟩
      · exact .inl (by simp [h])
    | succ k =>
      simp only [modifyAt, List.mem_cons] at h
      rcases h with rfl | h
      · exact .inl (by simp)
      · rcases ih k h with h | ⟨t0, h0, rfl⟩
        · exact .inl (by simp [h])
        · exact .inr ⟨t0, by simp [h0], rfl⟩

theorem SubId.toInt_fits (s : SubId) (h1 : s.isNegative = false) (h2 : s.tooLarge = false) : idFits s.toInt := by
  cases s with
  | otherwise => simp [SubId.toInt, idFits]
  | num i =>
    simp [SubId.isNegative, SubId.tooLarge] at h1 h2
    simp only [SubId.toInt, idFits]; omega

/-- the invariant of the loop of `_compute_form_ir` -/
def GroupsOk (gs : List TypeIntegrals) : Prop :=
  ∀ t ∈ gs, (∀ i ∈ t.ids, idFits i) ∧ t.names.length = t.ids.length ∧ t.domains.length = t.ids.length

theorem formIRIntegralsStep_ok (gs gs' : List TypeIntegrals) (d : ItgData) (hg : GroupsOk gs)
    (h : formIRIntegralsStep gs d = .ok gs') : GroupsOk gs' := by
  unfold formIRIntegralsStep at h
  split at h
  · simp at h
  · rename_i hneg
    split at h
    · simp at h
    · rename_i hbig
      split at h
      · simp at h
        subst h
        intro t ht
        rcases mem_modifyAt _ _ _ _ ht with ht | ⟨t0, h0, rfl⟩
        · exact hg t ht
        · obtain ⟨a, b, c⟩ := hg t0 h0
          refine ⟨?_, by simp [TypeIntegrals.extend, b], by simp [TypeIntegrals.extend, c]⟩
          intro i hi
          simp only [TypeIntegrals.extend, List.mem_append, List.mem_map] at hi
          rcases hi with hi | ⟨s, hs, rfl⟩
          · exact a i hi
          · have n1 : s.isNegative = false := by
              cases hn : s.isNegative with
              | false => rfl
              | true => exact absurd (List.any_eq_true.mpr ⟨s, hs, hn⟩) hneg
            have n2 : s.tooLarge = false := by
              cases hn : s.tooLarge with
              | false => rfl
              | true => exact absurd (List.any_eq_true.mpr ⟨s, hs, hn⟩) hbig
            exact SubId.toInt_fits s n1 n2
      · simp at h

theorem formIRIntegrals_ok (ntypes : Nat) (itgs : List ItgData) (gs : List TypeIntegrals)
    (h : formIRIntegrals ntypes itgs = .ok gs) : GroupsOk gs := by
  unfold formIRIntegrals at h
  refine foldlM_invariant GroupsOk formIRIntegralsStep
    (fun acc t acc' hacc hs => formIRIntegralsStep_ok acc acc' t hacc hs) itgs _ gs ?_ h
  intro t ht
  rw [List.mem_replicate] at ht
  obtain ⟨-, rfl⟩ := ht
  simp

end Ffcx.Backend
