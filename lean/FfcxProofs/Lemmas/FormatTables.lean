/-
C16 — definitions for the finite-table theorems of FfcxProofs/C16.lean: the model's class table,
grammar levels (DESIGN Appendix E), the local faithfulness predicates.
-/
import FfcxModel.LNodes.ParsePy
import FfcxModel.LNodes.Simplify

namespace Ffcx.LNodes.Fmt
open Ffcx.LNodes Ffcx.Generated.Precedence

/-- the expression classes as the Lean model hard-wires them (Syntax.lean `Expr.prec`,
    `BinOp.prec`, `BinOp.opStr`; unary operator characters of FormatC/FormatNumba) -/
def modelRows : List (String × Nat × String) := [
  ("Add", BinOp.add.prec, BinOp.add.opStr), ("Sub", BinOp.sub.prec, BinOp.sub.opStr),
  ("Mul", BinOp.mul.prec, BinOp.mul.opStr), ("Div", BinOp.div.prec, BinOp.div.opStr),
  ("EQ", BinOp.eq.prec, BinOp.eq.opStr), ("NE", BinOp.ne.prec, BinOp.ne.opStr),
  ("LT", BinOp.lt.prec, BinOp.lt.opStr), ("GT", BinOp.gt.prec, BinOp.gt.opStr),
  ("LE", BinOp.le.prec, BinOp.le.opStr), ("GE", BinOp.ge.prec, BinOp.ge.opStr),
  ("And", BinOp.and.prec, BinOp.and.opStr), ("Or", BinOp.or.prec, BinOp.or.opStr),
  ("Neg", (Expr.neg (.litI 0)).prec, String.ofList P.minus.text),
  ("Not", (Expr.not (.litI 0)).prec, String.ofList P.bang.text),
  ("Sum", (Expr.sum []).prec, String.ofList P.plus.text),
  ("Product", (Expr.prod []).prec, String.ofList P.star.text),
  ("LiteralFloat", (Expr.litF 0 0 false).prec, ""), ("LiteralInt", (Expr.litI 0).prec, ""),
  ("Symbol", (Expr.sym "x" .real).prec, ""), ("MultiIndex", (Expr.mi [] [] (.litI 0)).prec, ""),
  ("MathFunction", (Expr.call "f" .real []).prec, ""), ("ArrayAccess", (Expr.idx "a" .real []).prec, ""),
  ("Conditional", (Expr.cond (.litI 0) (.litI 0) (.litI 0)).prec, "")]

def rowMatches (r : String × Nat × String) (c : ClassRow) : Bool :=
  c.name == r.1 && c.prec == r.2.1 && c.op == r.2.2

/-- on the handler names that occur as keys, each `math_table[dtype]` is injective and no image
    collides with another key that passes through unchanged: the C name determines the function -/
def tableInjective (tbl : List (String × String)) : Bool :=
  tbl.all (fun a => tbl.all (fun b => a.2 != b.2 || a.1 == b.1))

/-! ## grammar levels (DESIGN Appendix E) -/

/-- C grammar level of the text of a node of the class: conditional 1, `||` 2, `&&` 3, equality 7,
    relational 8, additive 10, multiplicative 11, unary 12, postfix 13, primary 14.
    Pseudo-classes: `NegativeLiteral` (a literal `< 0` prints as unary minus + number) and
    `MultiIndex` (prints as its global index, in general a Sum: additive). -/
def cLevel : String → Nat
  | "LiteralFloat" | "LiteralInt" | "Symbol" => 14
  | "MathFunction" | "ArrayAccess" => 13
  | "Neg" | "Not" | "NegativeLiteral" => 12
  | "Mul" | "Div" | "Product" => 11
  | "Add" | "Sub" | "Sum" | "MultiIndex" => 10
  | "LT" | "LE" | "GT" | "GE" => 8
  | "EQ" | "NE" => 7
  | "And" => 3
  | "Or" => 2
  | "Conditional" => 1
  | _ => 0

/-- Python level of the text the numba formatter prints for a node of the class: or 1, and 2,
    not 3, comparison 4, additive 5, multiplicative 6, unary minus 7, call/subscript 8, atom 9.
    `Not` and `Conditional` are printed inside their own parentheses: atoms. -/
def pyLevel : String → Nat
  | "LiteralFloat" | "LiteralInt" | "Symbol" | "Not" | "Conditional" => 9
  | "MathFunction" | "ArrayAccess" => 8
  | "Neg" | "NegativeLiteral" => 7
  | "Mul" | "Div" | "Product" => 6
  | "Add" | "Sub" | "Sum" | "MultiIndex" => 5
  | "LT" | "LE" | "GT" | "GE" | "EQ" | "NE" => 4
  | "And" => 2
  | "Or" => 1
  | _ => 0

/-- operand positions of a parent class whose children are parenthesised by the
    `child.precedence ≥ parent.precedence` rule -/
def positions (c : ClassRow) : List Nat :=
  if c.kind == "unary" then [0]
  else if c.kind == "bin" then [0, 1]
  else if c.kind == "nary" then [0, 1, 2]
  else if c.name == "Conditional" then [0, 1, 2]
  else []

/-- least C level an UNPARENTHESISED operand must have at that position: unary operand: a
    cast/unary expression (12); left-associative binary operator of level `l`: left operand `l`,
    right operand `l+1` (n-ary: every operand after the first is a right operand);
    conditional: condition a logical-OR expression (2), branches any conditional expression (1) -/
def cRequired (p : ClassRow) (pos : Nat) : Nat :=
  if p.kind == "unary" then 12
  else if p.name == "Conditional" then (if pos == 0 then 2 else 1)
  else if pos == 0 then cLevel p.name else cLevel p.name + 1

/-- Python: as C, except that comparisons chain, so BOTH operands of a comparison must bind
    strictly tighter than a comparison; the operand of unary minus is a factor (7);
    `Not`/`Conditional` put their operands inside parentheses (any level) -/
def pyRequired (p : ClassRow) (pos : Nat) : Nat :=
  if p.name == "Neg" then 7
  else if p.name == "Not" || p.name == "Conditional" then 0
  else if pyLevel p.name == 4 then 5
  else if pos == 0 then pyLevel p.name else pyLevel p.name + 1

/-- child classes: every class of the table that is an expression, plus the pseudo-class of
    negative literals (precedence of a literal) -/
def childRows : List ClassRow :=
  classes.filter (fun c => c.kind != "assign") ++ [⟨"NegativeLiteral", 0, "", "terminal"⟩]

def parentRows : List ClassRow := classes.filter (fun c => !(positions c).isEmpty)

/-- the formatter's rule at (parent, child, position): parenthesised, or binds tight enough -/
def cFaithful (p c : ClassRow) (pos : Nat) : Bool :=
  decide (c.prec ≥ p.prec) || decide (cLevel c.name ≥ cRequired p pos)

def isCmpClass (n : String) : Bool := ["LT", "LE", "GT", "GE", "EQ", "NE"].contains n

/-- numba: additionally a comparison directly under a comparison is parenthesised
    (`isinstance(child, comparisons)` in the BinOp handler) -/
def pyFaithful (p c : ClassRow) (pos : Nat) : Bool :=
  decide (c.prec ≥ p.prec) || (isCmpClass p.name && isCmpClass c.name)
    || decide (pyLevel c.name ≥ pyRequired p pos)

/-- the precedence the formatter model (`precF`) reads off MultiIndex nodes with 0, 1, 2 symbols,
    built as `MultiIndex.__init__` builds them (`mkMultiIndex` of Simplify.lean) -/
def miProbes : List (Nat × Nat) :=
  [(0, precF (mkMultiIndex [] [])),
   (1, precF (mkMultiIndex [.ex (.sym "i" .int)] [3])),
   (2, precF (mkMultiIndex [.ex (.sym "i" .int), .ex (.sym "j" .int)] [3, 4]))]

/-- the typing discipline on (parent, child, position): arithmetic operators and comparisons take
    arithmetic operands, `&& || !` take conditions, a conditional a condition and two values -/
def isCondClass (n : String) : Bool :=
  ["Not", "LT", "LE", "GT", "GE", "EQ", "NE", "And", "Or"].contains n

def wtPair (p c : ClassRow) (pos : Nat) : Bool :=
  let wantsCond := p.name == "Not" || p.name == "And" || p.name == "Or" || (p.name == "Conditional" && pos == 0)
  if c.name == "Symbol" then true else isCondClass c.name == wantsCond

end Ffcx.LNodes.Fmt
