/-
C16 — numba statements, text level, part 3: the pieces of every statement line (assignments,
`np.empty/full/array` declarations with nested list displays, `for` headers), comment lines,
`stmt_lex_py`: the Python lexer reads the text of every well-formed statement back to its
intended token stream with NEWLINE / INDENT / DEDENT.
-/
import FfcxProofs.Lemmas.FormatPyStmtLx
namespace Ffcx.LNodes.Fmt
open Ffcx.LNodes

/-! ## list displays -/

/-- separated (line breaks allowed), first token well-shaped, last token closed by `,` `]` `)` -/
structure PQ (ps : List Piece) : Prop where
  sep : pySepNL ps = true
  first : ∃ t, firstP ps = some t ∧ pyTokOK t = true
  last : ∃ t, lastP ps = some t ∧ pySepTok t (.p .comma) = true ∧ pySepTok t (.p .rbrack) = true
    ∧ pySepTok t (.p .rpar) = true

theorem PQ.ne_nil {ps} (h : PQ ps) : ps ≠ [] := by
  obtain ⟨t, ht, _⟩ := h.first
  intro hn; subst hn; simp [firstP] at ht

theorem pq_of_psp {ps} (h : PSP ps) : PQ ps := by
  obtain ⟨f, hf, hf'⟩ := h.first
  obtain ⟨l, hl, hl'⟩ := h.last
  exact ⟨pySepNL_of_sep _ h.sep, ⟨f, hf, pyIsFirst_ok hf'⟩, ⟨l, hl,
    pySepTok_last_closer hl' (c := ',') (cs := []) rfl rfl,
    pySepTok_last_closer hl' (c := ']') (cs := []) rfl rfl,
    pySepTok_last_closer hl' (c := ')') (cs := []) rfl rfl⟩⟩

/-- join with `, ` or `,` + line break -/
theorem pq_join (w : Piece) (hw : w = sp ∨ w = nlp) :
    ∀ xs : List (List Piece), xs ≠ [] → (∀ x ∈ xs, PQ x) → PQ (joinP [pp .comma, w] xs) := by
  intro xs
  induction xs with
  | nil => intro h; exact absurd rfl h
  | cons x xs ih =>
    intro _ hall
    have hx := hall x (by simp)
    cases xs with
    | nil => simpa [joinP] using hx
    | cons y ys =>
      have hr := ih (by simp) (fun z hz => hall z (by simp [List.mem_cons] at hz ⊢; right; exact hz))
      have hj : joinP [pp .comma, w] (x :: y :: ys) = x ++ ([pp .comma, w] ++ joinP [pp .comma, w] (y :: ys)) := by
        simp [joinP]
      rw [hj]
      obtain ⟨f, hf, hf'⟩ := hx.first
      obtain ⟨l, hl, hl1, _, _⟩ := hx.last
      refine ⟨?_, ⟨f, by rw [firstP_append _ hx.ne_nil]; exact hf, hf'⟩, ?_⟩
      · refine nl_append hx.sep ?_ ?_
        · simp only [List.cons_append, List.nil_append, pp]
          rcases hw with rfl | rfl
          · exact nl_tok_ws (t := .p .comma) (w := [' ']) rfl (nl_sp_cons hr.sep)
          · exact nl_tok_ws (t := .p .comma) (w := ['\n']) rfl (nl_nlp_cons hr.sep)
        · intro a b ha hb
          rw [hl] at ha; cases ha
          simp only [List.cons_append, firstP, pp, Option.some.injEq] at hb; subst hb
          exact hl1
      · obtain ⟨l2, hl2, h2⟩ := hr.last
        refine ⟨l2, ?_, h2⟩
        rw [← List.append_assoc, lastP_append_ne _ hr.ne_nil]; exact hl2

/-- brackets around a (possibly empty) list -/
theorem pq_bracks {ps : List Piece} (h : ps = [] ∨ PQ ps) : PQ ([pp .lbrack] ++ ps ++ [pp .rbrack]) := by
  have hlast : ∃ t, lastP ([pp .lbrack] ++ ps ++ [pp .rbrack]) = some t ∧ pySepTok t (.p .comma) = true
      ∧ pySepTok t (.p .rbrack) = true ∧ pySepTok t (.p .rpar) = true :=
    ⟨.p .rbrack, by rw [lastP_append_cons]; rfl, rfl, rfl, rfl⟩
  rcases h with rfl | h
  · exact ⟨by decide, ⟨_, rfl, rfl⟩, hlast⟩
  · refine ⟨?_, ⟨.p .lbrack, rfl, rfl⟩, hlast⟩
    obtain ⟨f, hf, hf'⟩ := h.first
    obtain ⟨l, hl, _, hl2, _⟩ := h.last
    have h1 : pySepNL (ps ++ [pp .rbrack]) = true := by
      refine nl_append h.sep (by decide) ?_
      intro a b ha hb
      rw [hl] at ha; cases ha
      simp only [firstP, pp, Option.some.injEq] at hb; subst hb
      exact hl2
    have : [pp .lbrack] ++ ps ++ [pp .rbrack] = [pp .lbrack] ++ (ps ++ [pp .rbrack]) := by simp
    rw [this]
    refine nl_append (by decide) h1 ?_
    intro a b ha hb
    simp only [lastP, pp, Option.some.injEq] at ha; subst ha
    rw [firstP_append _ h.ne_nil, hf] at hb; cases hb
    exact pySepTok_start rfl hf'

def initPiecesPy : List Nat → List Expr → List Piece
  | [], _ => [pp .lbrack, pp .rbrack]
  | [_], vals => [pp .lbrack] ++ joinP [pp .comma, sp] (vals.map pyNumber) ++ [pp .rbrack]
  | d :: d' :: ds, vals =>
    let inner := (d' :: ds).foldr (· * ·) 1
    [pp .lbrack] ++ joinP [pp .comma, nlp] ((chunks inner d vals).map (initPiecesPy (d' :: ds))) ++ [pp .rbrack]

theorem render_initPiecesPy : ∀ (shape : List Nat) (vals : List Expr),
    render (initPiecesPy shape vals) = initListPy shape vals := by
  intro shape
  induction shape with
  | nil => intro vals; rfl
  | cons d tl ih =>
    intro vals
    cases tl with
    | nil =>
      simp only [initPiecesPy, initListPy, render_append, render_joinP, List.map_map]
      rfl
    | cons d' ds =>
      simp only [initPiecesPy, initListPy, render_append, render_joinP, List.map_map]
      have : (render ∘ initPiecesPy (d' :: ds)) = initListPy (d' :: ds) := funext (fun c => ih c)
      rw [this]
      rfl

theorem toks_initPiecesPy : ∀ (shape : List Nat) (vals : List Expr),
    toks (initPiecesPy shape vals) = initToksPy shape vals := by
  intro shape
  induction shape with
  | nil => intro vals; rfl
  | cons d tl ih =>
    intro vals
    cases tl with
    | nil =>
      simp only [initPiecesPy, initToksPy, toks_append, toks_joinP, List.map_map]
      rfl
    | cons d' ds =>
      simp only [initPiecesPy, initToksPy, toks_append, toks_joinP, List.map_map]
      have : (toks ∘ initPiecesPy (d' :: ds)) = initToksPy (d' :: ds) := funext (fun c => ih c)
      rw [this]
      rfl

theorem pq_lit (v : Expr) (hl : isLit v = true) (hwf : wfPy v = true) : PQ (pyNumber v) := by
  have := (pse_all (esize v) v (Nat.le_refl _) hwf).sp
  have e : piecesPy v = pyNumber v := by cases v <;> simp [isLit] at hl <;> simp [piecesPy]
  rw [e] at this
  exact pq_of_psp this

theorem pq_initPiecesPy : ∀ (shape : List Nat) (vals : List Expr),
    (∀ v ∈ vals, isLit v = true ∧ wfPy v = true) → PQ (initPiecesPy shape vals) := by
  intro shape
  induction shape with
  | nil => intro vals _; exact pq_bracks (ps := []) (Or.inl rfl)
  | cons d tl ih =>
    intro vals hv
    cases tl with
    | nil =>
      simp only [initPiecesPy]
      refine pq_bracks ?_
      by_cases hne : vals = []
      · left; subst hne; rfl
      · right
        refine pq_join sp (Or.inl rfl) _ (by simpa using hne) ?_
        intro x hx
        simp only [List.mem_map] at hx
        obtain ⟨v, hvm, rfl⟩ := hx
        exact pq_lit v (hv v hvm).1 (hv v hvm).2
    | cons d' ds =>
      simp only [initPiecesPy]
      refine pq_bracks ?_
      by_cases hne : chunks ((d' :: ds).foldr (· * ·) 1) d vals = []
      · left; rw [hne]; rfl
      · right
        refine pq_join nlp (Or.inr rfl) _ (by simpa using hne) ?_
        intro x hx
        simp only [List.mem_map] at hx
        obtain ⟨c, hc, rfl⟩ := hx
        exact ih c (fun v hvc => hv v (chunks_mem _ _ _ _ hc v hvc))

/-! ### bracket depth of list displays: all line breaks are inside -/

/-- inside brackets (`0 < d`) the pieces lead back to the same depth -/
def BalN (ps : List Piece) : Prop := ∀ d, 0 < d → walk d (toksN ps) = some d

theorem balN_of_balT {ps : List Piece} (h : BalT (toksN ps)) : BalN ps := fun d _ => h d

theorem balN_append {a b : List Piece} (ha : BalN a) (hb : BalN b) : BalN (a ++ b) := by
  intro d hd; rw [toksN_append, walk_append, ha d hd]; exact hb d hd

theorem balN_join (w : Piece) (hw : w = sp ∨ w = nlp) : ∀ xs : List (List Piece), (∀ x ∈ xs, BalN x) →
    BalN (joinP [pp .comma, w] xs) := by
  have hsep : BalN [pp .comma, w] := by
    intro d hd
    rcases hw with rfl | rfl
    · simp [toksN, pp, sp, walk, isOpenT, isCloseT]
    · simp [toksN, pp, nlp, walk, isOpenT, isCloseT, hd]
  intro xs
  induction xs with
  | nil => intro _ d _; rfl
  | cons x xs ih =>
    intro hall
    cases xs with
    | nil => simpa [joinP] using hall x (by simp)
    | cons y ys =>
      have hr := ih (fun z hz => hall z (by simp [List.mem_cons] at hz ⊢; right; exact hz))
      have hj : joinP [pp .comma, w] (x :: y :: ys) = x ++ ([pp .comma, w] ++ joinP [pp .comma, w] (y :: ys)) := by
        simp [joinP]
      rw [hj]
      exact balN_append (hall x (by simp)) (balN_append hsep hr)

theorem balN_bracks {ps : List Piece} (h : BalN ps) : BalN ([pp .lbrack] ++ ps ++ [pp .rbrack]) := by
  intro d hd
  rw [toksN_append, toksN_append, walk_append, walk_append]
  have h1 : walk d (toksN [pp .lbrack]) = some (d + 1) := by simp [toksN, pp, walk, isOpenT]
  have h2 : walk (d + 1) (toksN [pp .rbrack]) = some d := by simp [toksN, pp, walk, isOpenT, isCloseT]
  rw [h1]
  simp only [Option.bind_some]
  rw [h ( d + 1) (by omega)]
  simpa using h2

theorem balN_lit (v : Expr) (hl : isLit v = true) (hwf : wfPy v = true) : BalN (pyNumber v) := by
  have hs := (pse_all (esize v) v (Nat.le_refl _) hwf).sp.sep
  have e : piecesPy v = pyNumber v := by cases v <;> simp [isLit] at hl <;> simp [piecesPy]
  rw [e] at hs
  refine balN_of_balT ?_
  rw [toksN_of_sep _ hs]
  have := balT_lit v hl
  simpa [tkp, tokExprPy, e] using this

theorem balN_initPiecesPy : ∀ (shape : List Nat) (vals : List Expr),
    (∀ v ∈ vals, isLit v = true ∧ wfPy v = true) → BalN (initPiecesPy shape vals) := by
  intro shape
  induction shape with
  | nil => intro vals _; exact balN_bracks (ps := []) (fun d _ => rfl)
  | cons d tl ih =>
    intro vals hv
    cases tl with
    | nil =>
      simp only [initPiecesPy]
      refine balN_bracks (balN_join sp (Or.inl rfl) _ ?_)
      intro x hx
      simp only [List.mem_map] at hx
      obtain ⟨v, hvm, rfl⟩ := hx
      exact balN_lit v (hv v hvm).1 (hv v hvm).2
    | cons d' ds =>
      simp only [initPiecesPy]
      refine balN_bracks (balN_join nlp (Or.inr rfl) _ ?_)
      intro x hx
      simp only [List.mem_map] at hx
      obtain ⟨c, hc, rfl⟩ := hx
      exact ih c (fun v hvc => hv v (chunks_mem _ _ _ _ hc v hvc))


/-! ## tuples `(3, 4)` -/

def numP (n : Nat) : Piece := .t (.num (String.ofList (natDigits n)))

def tuplePiecesPy : List Nat → List Piece
  | [] => [pp .lpar, pp .rpar]
  | [n] => [pp .lpar, numP n, pp .comma, pp .rpar]
  | n :: m :: ns => [pp .lpar] ++ joinP [pp .comma, sp] ((n :: m :: ns).map (fun k => [numP k])) ++ [pp .rpar]

theorem pyTokOK_nat (n : Nat) : pyTokOK (.num (String.ofList (natDigits n))) = true := by
  have hs : pyNumShape (natDigits n) = true := by
    have := pyNumShape_fmtInt (n : Int) (by omega); rwa [fmtInt_nat] at this
  simp [pyTokOK, String.toList_ofList, hs]

theorem psp_nat (n : Nat) : PSP [numP n] :=
  ⟨by simp [pySeparated, numP, pyTokOK_nat], ⟨_, rfl, by simp [pyIsFirst, pyTokOK_nat]⟩,
    ⟨_, rfl, by simp [pyIsLast, pyTokOK_nat]⟩⟩

theorem render_tuplePiecesPy (sizes : List Nat) : render (tuplePiecesPy sizes) = tupleRepr sizes := by
  cases sizes with
  | nil => rfl
  | cons n l =>
    cases l with
    | nil => simp [tuplePiecesPy, tupleRepr, render, numP, pp, Tok.text, P.text, String.toList_ofList]
    | cons m ns =>
      simp only [tuplePiecesPy, tupleRepr, render_append, render_joinP, List.map_map]
      simp [render, numP, pp, sp, Tok.text, P.text, String.toList_ofList, Function.comp_def]

theorem toks_tuplePiecesPy (sizes : List Nat) : toks (tuplePiecesPy sizes) = tupleToks sizes := by
  cases sizes with
  | nil => rfl
  | cons n l =>
    cases l with
    | nil => rfl
    | cons m ns =>
      simp only [tuplePiecesPy, tupleToks, toks_append, toks_joinP, List.map_map]
      simp [toks, numP, pp, sp, Function.comp_def]

theorem balN_nat (n : Nat) : BalN [numP n] := by
  intro d _; simp [toksN, numP, walk, isOpenT, isCloseT]

theorem pq_tuple (sizes : List Nat) : PQ (tuplePiecesPy sizes) ∧ BalN (tuplePiecesPy sizes) := by
  have hlastr : ∀ ps : List Piece, ∃ t, lastP (ps ++ [pp .rpar]) = some t ∧ pySepTok t (.p .comma) = true
      ∧ pySepTok t (.p .rbrack) = true ∧ pySepTok t (.p .rpar) = true :=
    fun ps => ⟨.p .rpar, by rw [lastP_append_cons]; rfl, rfl, rfl, rfl⟩
  cases sizes with
  | nil => exact ⟨⟨by decide, ⟨_, rfl, rfl⟩, ⟨.p .rpar, rfl, rfl, rfl, rfl⟩⟩, fun d _ => by simp [tuplePiecesPy, toksN, pp, walk, isOpenT, isCloseT]⟩
  | cons n l =>
    cases l with
    | nil =>
      constructor
      · refine ⟨?_, ⟨_, rfl, rfl⟩, ⟨.p .rpar, rfl, rfl, rfl, rfl⟩⟩
        simp only [tuplePiecesPy, pp, numP]
        refine nl_start_cons rfl rfl (nl_tok_cons (pyTokOK_nat n) ?_ (by decide))
        intro b ps' e; cases e
        exact pySepTok_last_closer (by simp [pyIsLast, pyTokOK_nat]) (c := ',') (cs := []) rfl rfl
      · intro d _; simp [tuplePiecesPy, toksN, pp, numP, walk, isOpenT, isCloseT]
    | cons m ns =>
      have hj := pq_join sp (Or.inl rfl) ((n :: m :: ns).map (fun k => [numP k])) (by simp)
        (by intro x hx; simp only [List.mem_map] at hx; obtain ⟨k, _, rfl⟩ := hx; exact pq_of_psp (psp_nat k))
      have hbj := balN_join sp (Or.inl rfl) ((n :: m :: ns).map (fun k => [numP k]))
        (by intro x hx; simp only [List.mem_map] at hx; obtain ⟨k, _, rfl⟩ := hx; exact balN_nat k)
      obtain ⟨f, hf, hf'⟩ := hj.first
      obtain ⟨l, hl, _, _, hl3⟩ := hj.last
      constructor
      · refine ⟨?_, ⟨.p .lpar, rfl, rfl⟩, hlastr _⟩
        have h1 : pySepNL (joinP [pp .comma, sp] ((n :: m :: ns).map (fun k => [numP k])) ++ [pp .rpar]) = true := by
          refine nl_append hj.sep (by decide) ?_
          intro a b ha hb
          rw [hl] at ha; cases ha
          simp only [firstP, pp, Option.some.injEq] at hb; subst hb
          exact hl3
        have e : tuplePiecesPy (n :: m :: ns) = [pp .lpar] ++ (joinP [pp .comma, sp] ((n :: m :: ns).map (fun k => [numP k])) ++ [pp .rpar]) := by
          simp [tuplePiecesPy]
        rw [e]
        refine nl_append (by decide) h1 ?_
        intro a b ha hb
        simp only [lastP, pp, Option.some.injEq] at ha; subst ha
        rw [firstP_append _ hj.ne_nil, hf] at hb; cases hb
        exact pySepTok_start rfl hf'
      · intro d hd
        simp only [tuplePiecesPy]
        rw [toksN_append, toksN_append, walk_append, walk_append]
        have h1 : walk d (toksN [pp .lpar]) = some (d + 1) := by simp [toksN, pp, walk, isOpenT]
        have h2 : walk (d + 1) (toksN [pp .rpar]) = some d := by simp [toksN, pp, walk, isOpenT, isCloseT]
        rw [h1]
        simp only [Option.bind_some]
        rw [hbj (d + 1) (by omega)]
        simpa using h2

/-! ## the pieces of statement lines -/

/-- `lhs op rhs` -/
def assignLinePy (lhs : List Piece) (o : P) (rhs : List Piece) : List Piece := lhs ++ ([sp, pp o, sp] ++ rhs)

/-- what `pyLines` makes of the physical lines of a piece list (no `LowFirst` needed) -/
theorem pieces_run (P : List Piece) (hsep : pySepNL P = true)
    (hfirst : ∃ c cs, render P = c :: cs ∧ RealChar c) (hw : walk 0 (toksN P) = some 0) :
    (∀ l ∈ splitLines [] (render P), '\n' ∉ l)
    ∧ (∃ l tl, splitLines [] (render P) = l :: tl ∧ RealStart l)
    ∧ ∀ n st' rest, pyLines (n :: st') 0 ((splitLines [] (render P)).map (ind n) ++ rest)
        = (pyLines (n :: st') 0 rest).map (fun r => toks P ++ [.newline] ++ r) := by
  have hlex : joinTokNL ((splitLines [] (render P)).map lexPyFlat) = toksN P := by
    rw [← lexPyFlat_lines, lex_render_nl P hsep]
  have hnl := splitLines_no_nl (render P)
  have hT : (splitLines [] (render P)).flatMap lineToks = toks P := by
    have := filter_joinTokNL ((splitLines [] (render P)).map lexPyFlat)
    rw [hlex, toksN_filter P hsep] at this
    rw [this, List.flatMap_map]
    rfl
  have hreal : ∃ l tl, splitLines [] (render P) = l :: tl ∧ RealStart l := by
    obtain ⟨c, cs, hr, h1, h2, h3, h4, h5⟩ := hfirst
    rw [hr]
    obtain ⟨l, ls, _, e⟩ := splitLines_cons c h5 cs
    exact ⟨c :: l, ls, e, c, l, rfl, h1, h2, h3, h4⟩
  refine ⟨hnl, hreal, ?_⟩
  intro n st' rest
  rw [pyLines_logical n st' rest _ hnl hreal (by rw [hlex]; exact hw), hT]

theorem plain_assignOp {o : P} (ho : o = .assign ∨ o = .plusAssign) : plainT (.p o) ∧ pyTokOK (.p o) = true := by
  rcases ho with rfl | rfl <;> exact ⟨⟨by simp, by simp [isOpenT], by simp [isCloseT]⟩, rfl⟩

/-- the facts `lx_pieces` / `pieces_run` need, for a line `lhs op rhs` -/
theorem assignLine_ok (lhs rhs : List Piece) (o : P) (ho : o = .assign ∨ o = .plusAssign)
    (hl : PSP lhs) (hlc : ∃ c cs, render lhs = c :: cs ∧ RealChar c) (hbl : BalT (toks lhs))
    (hr : pySepNL rhs = true) (hwr : walk 0 (toksN rhs) = some 0) :
    pySepNL (assignLinePy lhs o rhs) = true
    ∧ (∃ c cs, render (assignLinePy lhs o rhs) = c :: cs ∧ RealChar c)
    ∧ walk 0 (toksN (assignLinePy lhs o rhs)) = some 0
    ∧ toks (assignLinePy lhs o rhs) = toks lhs ++ [.p o] ++ toks rhs := by
  obtain ⟨hplain, hok⟩ := plain_assignOp ho
  refine ⟨?_, ?_, ?_, ?_⟩
  · refine nl_append (pySepNL_of_sep _ hl.sep) ?_ ?_
    · simp only [List.cons_append, List.nil_append, pp]
      exact nl_sp_cons (nl_tok_ws hok (nl_sp_cons hr))
    · intro x y _ hy; simp [firstP, sp] at hy
  · obtain ⟨c, cs, hc, hrc⟩ := hlc
    exact ⟨c, _, by simp only [assignLinePy, render_append, hc]; rfl, hrc⟩
  · simp only [assignLinePy]
    rw [toksN_append, toksN_append, walk_append, toksN_of_sep _ hl.sep, hbl 0]
    simp only [Option.bind_some]
    rw [walk_append]
    have : walk 0 (toksN [sp, pp o, sp]) = some 0 := by
      have := balT_single hplain 0
      simpa [toksN, sp, pp] using this
    rw [this]
    exact hwr
  · simp [assignLinePy, toks_append, toks, sp, pp]

theorem render_first_of_psp_id {ps : List Piece} {n : String} (hn : validIdentPy n = true)
    (h : ∃ r, ps = .t (.id n) :: r) : ∃ c cs, render ps = c :: cs ∧ RealChar c := by
  obtain ⟨r, rfl⟩ := h
  have hok := validIdentPy_tokOK hn
  simp only [pyTokOK] at hok
  cases hl : n.toList with
  | nil => simp [hl] at hok
  | cons c cs =>
    simp only [hl, Bool.and_eq_true] at hok
    exact ⟨c, cs ++ render r, by simp [render, Tok.text, hl], idStart_real hok.1⟩

/-- an lvalue's pieces start with its name -/
theorem lvalue_pieces (l : Expr) (hlv : isLvalue l = true) (hl : wfPy l = true) :
    ∃ n r, piecesPy l = .t (.id n) :: r ∧ validIdentPy n = true := by
  cases l with
  | sym n dt => exact ⟨n, [], by simp [piecesPy], by simpa [wfPy] using hl⟩
  | idx arr dt ix =>
    simp only [wfPy, Bool.and_eq_true] at hl
    exact ⟨arr, pp .lbrack :: (joinP [pp .comma, sp] (piecesListPy ix) ++ [pp .rbrack]), by simp [piecesPy], hl.1.1⟩
  | _ => simp [isLvalue] at hlv


/-! ## `np.empty / np.full / np.array ( …, dtype=… )` -/

/-- the dtype name as pieces (`np`, `.`, `float64`) -/
def tyPiecesPy (ty : String) : List Piece := (lexPyFlat ty.toList).map Piece.t

def kwTail (ty : String) : List Piece :=
  [pp .comma, sp, .t (.id "dtype"), pp .assign] ++ (tyPiecesPy ty ++ [pp .rpar])

theorem toks_map_t (ts : List Tok) : toks (ts.map Piece.t) = ts := by
  induction ts with
  | nil => rfl
  | cons t ts ih => simp [toks, ih]

theorem kwTail_ok {sc : Scalar} {dt : DType} {ty : String} (h : pyTypeName sc dt = some ty) :
    render (kwTail ty) = strL ", dtype=" ++ strL ty ++ [')']
    ∧ pySepNL (kwTail ty) = true
    ∧ walk 1 (toksN (kwTail ty)) = some 0
    ∧ toks (kwTail ty) = [.p .comma] ++ dtypeKwToks ty ++ [.p .rpar] := by
  cases sc <;> cases dt <;> simp [pyTypeName, Scalar.name, Scalar.real] at h <;> subst h <;>
    (refine ⟨?_, ?_, ?_, ?_⟩ <;> decide +kernel)

def callP (f : String) (args : List Piece) (ty : String) : List Piece :=
  [.t (.id "np"), pp .dot, .t (.id f), pp .lpar] ++ (args ++ kwTail ty)

theorem call_ok (f : String) (hf : pySepNL [.t (.id "np"), pp .dot, .t (.id f), pp .lpar] = true)
    (args : List Piece) (hq : PQ args) (hb : BalN args)
    {sc : Scalar} {dt : DType} {ty : String} (hty : pyTypeName sc dt = some ty) :
    pySepNL (callP f args ty) = true
    ∧ walk 0 (toksN (callP f args ty)) = some 0
    ∧ toks (callP f args ty) = [.id "np", .p .dot, .id f, .p .lpar] ++ toks args ++ [.p .comma] ++ dtypeKwToks ty ++ [.p .rpar]
    ∧ render (callP f args ty) = strL "np." ++ strL f ++ ['('] ++ render args ++ strL ", dtype=" ++ strL ty ++ [')'] := by
  obtain ⟨hk1, hk2, hk3, hk4⟩ := kwTail_ok hty
  obtain ⟨t0, ht0, ht0'⟩ := hq.first
  obtain ⟨l, hl, hl1, _, _⟩ := hq.last
  refine ⟨?_, ?_, ?_, ?_⟩
  · refine nl_append hf ?_ ?_
    · refine nl_append hq.sep hk2 ?_
      intro a b ha hb'
      rw [hl] at ha; cases ha
      simp only [kwTail, List.cons_append, firstP, pp, Option.some.injEq] at hb'; subst hb'
      exact hl1
    · intro a b ha hb'
      have : lastP [.t (.id "np"), pp .dot, .t (.id f), pp .lpar] = some (.p .lpar) := rfl
      rw [this] at ha; cases ha
      rw [firstP_append _ hq.ne_nil, ht0] at hb'; cases hb'
      exact pySepTok_start rfl ht0'
  · simp only [callP]
    rw [toksN_append, toksN_append]
    have h1 : walk 0 (toksN [.t (.id "np"), pp .dot, .t (.id f), pp .lpar]) = some 1 := by
      simp [toksN, pp, walk, isOpenT, isCloseT]
    rw [walk_append, h1]
    simp only [Option.bind_some]
    rw [walk_append, hb 1 (by omega)]
    exact hk3
  · simp only [callP, toks_append, hk4]
    simp [toks, pp]
  · simp only [callP, render_append, hk1]
    simp [render, pp, Tok.text, P.text, strL]

/-! ## `for` headers -/

def forP (i : String) (lo hi : Expr) : List Piece :=
  [.t (.id "for"), sp, .t (.id i), sp, .t (.id "in"), sp, .t (.id "range"), pp .lpar] ++ (piecesPy lo ++
    ([pp .comma, sp] ++ (piecesPy hi ++ [pp .rpar, pp .colon])))

theorem forP_ok (i : String) (lo hi : Expr) (hi' : validIdentPy i = true) (hlo : wfPy lo = true) (hhi : wfPy hi = true) :
    pySepNL (forP i lo hi) = true
    ∧ (∃ c cs, render (forP i lo hi) = c :: cs ∧ RealChar c)
    ∧ walk 0 (toksN (forP i lo hi)) = some 0
    ∧ toks (forP i lo hi) = [.id "for", .id i, .id "in", .id "range", .p .lpar] ++ tkp lo ++ [.p .comma] ++ tkp hi
        ++ [.p .rpar, .p .colon]
    ∧ render (forP i lo hi) = strL "for " ++ strL i ++ strL " in range(" ++ fmtExprPy lo ++ strL ", " ++ fmtExprPy hi
        ++ strL "):" := by
  have slo := (pse_all (esize lo) lo (Nat.le_refl _) hlo).sp
  have shi := (pse_all (esize hi) hi (Nat.le_refl _) hhi).sp
  have blo := balT_tkp lo hlo
  have bhi := balT_tkp hi hhi
  have hiok := validIdentPy_tokOK hi'
  obtain ⟨l1, hl1, hl1'⟩ := slo.last
  obtain ⟨l2, hl2, hl2'⟩ := shi.last
  obtain ⟨f1, hf1, hf1'⟩ := slo.first
  refine ⟨?_, ⟨'f', _, by simp [forP, render, Tok.text]; rfl, by decide, by decide, by decide, by decide, by decide⟩, ?_, ?_, ?_⟩
  · have h1 : pySepNL (piecesPy hi ++ [pp .rpar, pp .colon]) = true := by
      refine nl_append (pySepNL_of_sep _ shi.sep) (by decide) ?_
      intro a b ha hb
      rw [hl2] at ha; cases ha
      simp only [firstP, pp, Option.some.injEq] at hb; subst hb
      exact pySepTok_last_closer hl2' (c := ')') (cs := []) rfl rfl
    have h2 : pySepNL ([pp .comma, sp] ++ (piecesPy hi ++ [pp .rpar, pp .colon])) = true := by
      simp only [List.cons_append, List.nil_append, pp]
      exact nl_tok_ws rfl (nl_sp_cons h1)
    have h3 : pySepNL (piecesPy lo ++ ([pp .comma, sp] ++ (piecesPy hi ++ [pp .rpar, pp .colon]))) = true := by
      refine nl_append (pySepNL_of_sep _ slo.sep) h2 ?_
      intro a b ha hb
      rw [hl1] at ha; cases ha
      simp only [List.cons_append, firstP, pp, Option.some.injEq] at hb; subst hb
      exact pySepTok_last_closer hl1' (c := ',') (cs := []) rfl rfl
    simp only [forP, List.cons_append, List.nil_append, pp]
    have hfor : pyTokOK (.id "for") = true := by decide +kernel
    have hin : pyTokOK (.id "in") = true := by decide +kernel
    have hrange : pyTokOK (.id "range") = true := by decide +kernel
    refine nl_tok_ws hfor (nl_sp_cons (nl_tok_ws hiok (nl_sp_cons (nl_tok_ws hin (nl_sp_cons
      (nl_tok_cons hrange ?_ (nl_start_cons rfl rfl h3)))))))
    intro b ps' e; cases e
    exact pySepTok_last_closer (by simp [pyIsLast, hrange]) (c := '(') (cs := []) rfl rfl
  · simp only [forP]
    rw [toksN_append, toksN_append, toksN_append, toksN_append, toksN_of_sep _ slo.sep, toksN_of_sep _ shi.sep]
    have h1 : walk 0 (toksN [.t (.id "for"), sp, .t (.id i), sp, .t (.id "in"), sp, .t (.id "range"), pp .lpar]) = some 1 := by
      simp [toksN, sp, pp, walk, isOpenT, isCloseT]
    have h2 : walk 1 (toksN [pp .comma, sp]) = some 1 := by simp [toksN, sp, pp, walk, isOpenT, isCloseT]
    have h3 : walk 1 (toksN [pp .rpar, pp .colon]) = some 0 := by simp [toksN, pp, walk, isOpenT, isCloseT]
    rw [walk_append, h1]; simp only [Option.bind_some]
    rw [walk_append, show toks (piecesPy lo) = tkp lo from rfl, blo 1]; simp only [Option.bind_some]
    rw [walk_append, h2]; simp only [Option.bind_some]
    rw [walk_append, show toks (piecesPy hi) = tkp hi from rfl, bhi 1]; simp only [Option.bind_some]
    exact h3
  · simp [forP, toks_append, toks, sp, pp, tkp, tokExprPy]
  · simp [forP, render_append, render, sp, pp, Tok.text, P.text, strL, fmtExprPy]

/-! ## comment lines -/

theorem lx_blanks : ∀ ls : List (List Char), (∀ l ∈ ls, isBlankLine l = true) → (∀ l ∈ ls, '\n' ∉ l) → Lx ls [] := by
  intro ls
  induction ls with
  | nil => intro _ _; exact lx_nil
  | cons l ls ih =>
    intro hb hn
    have := lx_append (lx_blank l (hb l (by simp)) (hn l (by simp)))
      (ih (fun x hx => hb x (by simp [hx])) (fun x hx => hn x (by simp [hx])))
    simpa using this

/-- the lines of `_format_comment_str` -/
def commentLines (t : List Char) : List (List Char) := (splitLines [] t).map (fun l => '#' :: ' ' :: l ++ [' '])

theorem unl_commentLines (t : List Char) : unl (commentLines t) = pyComment t := by
  simp [unl, commentLines, pyComment, List.flatMap_map]

theorem lx_comment (t : List Char) : Lx (commentLines t) [] := by
  refine lx_blanks _ ?_ ?_
  · intro l hl
    simp only [commentLines, List.mem_map] at hl
    obtain ⟨x, _, rfl⟩ := hl
    rfl
  · intro l hl
    simp only [commentLines, List.mem_map] at hl
    obtain ⟨x, hx, rfl⟩ := hl
    have := splitLines_no_nl t x hx
    simp [this]

theorem firstAt_exists {n : Nat} : ∀ {ls : List (List Char)}, FirstAt n ls → ∃ l ∈ ls, isBlankLine l = false := by
  intro ls
  induction ls with
  | nil => intro h; exact absurd h (by simp [FirstAt])
  | cons l ls ih =>
    intro h
    simp only [FirstAt] at h
    by_cases hb : isBlankLine l = true
    · rw [if_pos hb] at h
      obtain ⟨x, hx, hxb⟩ := ih h
      exact ⟨x, by simp [hx], hxb⟩
    · exact ⟨l, by simp, by simpa using hb⟩

/-- `pass` is printed exactly when the body carries no token -/
theorem pass_iff {lsb : List (List Char)} {Tb : List Tok} (hb : Lx lsb Tb) :
    (splitLines [] (unl lsb)).all isBlankLine = decide (Tb = []) := by
  rw [splitLines_unl lsb hb.nonl]
  by_cases hT : Tb = []
  · simp only [hT, decide_true, List.all_append, List.all_cons, List.all_nil, Bool.and_true]
    have : isBlankLine [] = true := rfl
    rw [this, Bool.and_true, List.all_eq_true]
    exact hb.empty hT
  · have := hb.first hT 0 []
    rw [map_ind_zero, List.append_nil] at this
    obtain ⟨x, hx, hxb⟩ := firstAt_exists this
    simp only [hT, decide_false, List.all_append, Bool.and_eq_false_iff]
    left
    rw [List.all_eq_false]
    exact ⟨x, hx, by simp [hxb]⟩

theorem indentAll_unl {lsb : List (List Char)} (hn : ∀ l ∈ lsb, '\n' ∉ l) :
    indentAllLines (unl lsb) = unl ((lsb ++ [[]]).map (ind 4)) := by
  unfold indentAllLines
  rw [splitLines_unl lsb hn]
  simp [unl, List.flatMap_map, ind, List.replicate]


/-! ## all statements -/

/-- a line `lhs op rhs` as statement text -/
theorem lx_assignLine (lhs rhs : List Piece) (o : P) (ho : o = .assign ∨ o = .plusAssign)
    (hl : PSP lhs) (hlc : ∃ c cs, render lhs = c :: cs ∧ RealChar c) (hbl : BalT (toks lhs))
    (hr : pySepNL rhs = true) (hwr : walk 0 (toksN rhs) = some 0) :
    ∃ ls, unl ls = render lhs ++ [' '] ++ (P.text o) ++ [' '] ++ render rhs ++ ['\n']
      ∧ Lx ls (toks lhs ++ [.p o] ++ toks rhs ++ [.newline]) := by
  obtain ⟨h1, h2, h3, h4⟩ := assignLine_ok lhs rhs o ho hl hlc hbl hr hwr
  refine ⟨splitLines [] (render (assignLinePy lhs o rhs)), ?_, ?_⟩
  · rw [unl_splitLines]
    simp [assignLinePy, render_append, render, sp, pp, Tok.text]
  · have := lx_pieces _ h1 h2 h3
    rwa [h4] at this

theorem psp_expr (e : Expr) (hwf : wfPy e = true) : PSP (piecesPy e) := (pse_all (esize e) e (Nat.le_refl _) hwf).sp

theorem rhs_expr (e : Expr) (hwf : wfPy e = true) :
    pySepNL (piecesPy e) = true ∧ walk 0 (toksN (piecesPy e)) = some 0 := by
  have hs := (psp_expr e hwf).sep
  exact ⟨pySepNL_of_sep _ hs, by rw [toksN_of_sep _ hs]; exact balT_tkp e hwf 0⟩

theorem psp_name (n : String) (hn : validIdentPy n = true) :
    PSP [.t (.id n)] ∧ (∃ c cs, render [Piece.t (.id n)] = c :: cs ∧ RealChar c) ∧ BalT (toks [Piece.t (.id n)]) :=
  ⟨psp_id (validIdentPy_tokOK hn), render_first_of_psp_id hn ⟨[], rfl⟩, balT_single (plain_id n)⟩

theorem hhead (f : String) (hf : f = "empty" ∨ f = "full" ∨ f = "array") :
    pySepNL [.t (.id "np"), pp .dot, .t (.id f), pp .lpar] = true := by
  rcases hf with rfl | rfl | rfl <;> decide +kernel

mutual
/-- **text level (numba)**: the text of a well-formed statement is a list of physical lines which
    the Python lexer — indentation stack, implicit line joining, blank and comment lines — reads
    back to the intended token stream -/
theorem stmt_lx (sc : Scalar) : ∀ (s : Stmt), wfSPy sc s = true →
    ∃ ls, fmtStmtPy sc s = some (unl ls) ∧ Lx ls (tokStmtPy sc s)
  | .assign l r, hwf => by
    simp only [wfSPy, Bool.and_eq_true] at hwf
    obtain ⟨⟨hlv, hl⟩, hr⟩ := hwf
    obtain ⟨n, r0, hp, hn⟩ := lvalue_pieces l hlv hl
    obtain ⟨ls, h1, h2⟩ := lx_assignLine (piecesPy l) (piecesPy r) .assign (Or.inl rfl) (psp_expr l hl)
      (render_first_of_psp_id hn ⟨r0, hp⟩) (balT_tkp l hl) (rhs_expr r hr).1 (rhs_expr r hr).2
    refine ⟨ls, ?_, by simpa [tokStmtPy, tokExprPy] using h2⟩
    rw [h1]; simp [fmtStmtPy, fmtExprPy, strL, P.text]
  | .addAssign l r, hwf => by
    simp only [wfSPy, Bool.and_eq_true] at hwf
    obtain ⟨⟨hlv, hl⟩, hr⟩ := hwf
    obtain ⟨n, r0, hp, hn⟩ := lvalue_pieces l hlv hl
    obtain ⟨ls, h1, h2⟩ := lx_assignLine (piecesPy l) (piecesPy r) .plusAssign (Or.inr rfl) (psp_expr l hl)
      (render_first_of_psp_id hn ⟨r0, hp⟩) (balT_tkp l hl) (rhs_expr r hr).1 (rhs_expr r hr).2
    refine ⟨ls, ?_, by simpa [tokStmtPy, tokExprPy] using h2⟩
    rw [h1]; simp [fmtStmtPy, fmtExprPy, strL, P.text]
  | .vdecl n dt v, hwf => by
    simp only [wfSPy, Bool.and_eq_true] at hwf
    obtain ⟨hn, hv⟩ := hwf
    obtain ⟨p1, p2, p3⟩ := psp_name n hn
    obtain ⟨ls, h1, h2⟩ := lx_assignLine [.t (.id n)] (piecesPy v) .assign (Or.inl rfl) p1 p2 p3
      (rhs_expr v hv).1 (rhs_expr v hv).2
    refine ⟨ls, ?_, by simpa [tokStmtPy, tokExprPy, toks] using h2⟩
    rw [h1]; simp [fmtStmtPy, fmtExprPy, strL, P.text, render, Tok.text]
  | .adecl n dt sizes c vals, hwf => by
    simp only [wfSPy, Bool.and_eq_true, Option.isSome_iff_exists] at hwf
    obtain ⟨⟨hn, ⟨ty, hty⟩⟩, hvals⟩ := hwf
    obtain ⟨p1, p2, p3⟩ := psp_name n hn
    obtain ⟨hqt, hbt⟩ := pq_tuple sizes
    cases vals with
    | none =>
      obtain ⟨c1, c2, c3, c4⟩ := call_ok "empty" (hhead _ (Or.inl rfl)) (tuplePiecesPy sizes) hqt hbt hty
      obtain ⟨ls, h1, h2⟩ := lx_assignLine [.t (.id n)] (callP "empty" (tuplePiecesPy sizes) ty) .assign
        (Or.inl rfl) p1 p2 p3 c1 c2
      refine ⟨ls, ?_, ?_⟩
      · rw [h1, c4, render_tuplePiecesPy]
        simp [fmtStmtPy, hty, strL, P.text, render, Tok.text]
      · rw [c3, toks_tuplePiecesPy] at h2
        simpa [tokStmtPy, hty, toks] using h2
    | some vs =>
      have hvs : ∀ v ∈ vs, isLit v = true ∧ wfPy v = true := by
        intro v hv
        simp only [List.all_eq_true, Bool.and_eq_true] at hvals
        exact hvals v hv
      by_cases h1v : ∃ v, vs = [v]
      · obtain ⟨v, rfl⟩ := h1v
        have hv1 := hvs v (by simp)
        have hqa : PQ (joinP [pp .comma, sp] [tuplePiecesPy sizes, pyNumber v]) :=
          pq_join sp (Or.inl rfl) _ (by simp) (by
            intro x hx
            simp only [List.mem_cons, List.mem_nil_iff, or_false] at hx
            rcases hx with rfl | rfl
            · exact hqt
            · exact pq_lit v hv1.1 hv1.2)
        have hba : BalN (joinP [pp .comma, sp] [tuplePiecesPy sizes, pyNumber v]) :=
          balN_join sp (Or.inl rfl) _ (by
            intro x hx
            simp only [List.mem_cons, List.mem_nil_iff, or_false] at hx
            rcases hx with rfl | rfl
            · exact hbt
            · exact balN_lit v hv1.1 hv1.2)
        obtain ⟨c1, c2, c3, c4⟩ := call_ok "full" (hhead _ (Or.inr (Or.inl rfl))) _ hqa hba hty
        obtain ⟨ls, h1, h2⟩ := lx_assignLine [.t (.id n)] (callP "full" _ ty) .assign (Or.inl rfl) p1 p2 p3 c1 c2
        refine ⟨ls, ?_, ?_⟩
        · rw [h1, c4]
          simp [fmtStmtPy, hty, strL, P.text, render, Tok.text, joinP, render_append, render_tuplePiecesPy, sp, pp]
        · rw [c3] at h2
          simpa [tokStmtPy, hty, toks, joinP, toks_append, toks_tuplePiecesPy, sp, pp] using h2
      · obtain ⟨c1, c2, c3, c4⟩ := call_ok "array" (hhead _ (Or.inr (Or.inr rfl))) _
          (pq_initPiecesPy (initShape sizes vs) vs hvs) (balN_initPiecesPy (initShape sizes vs) vs hvs) hty
        obtain ⟨ls, h1, h2⟩ := lx_assignLine [.t (.id n)] (callP "array" _ ty) .assign (Or.inl rfl) p1 p2 p3 c1 c2
        refine ⟨ls, ?_, ?_⟩
        · rw [h1, c4, render_initPiecesPy]
          cases vs with
          | nil => simp [fmtStmtPy, hty, strL, P.text, render, Tok.text]
          | cons a l =>
            cases l with
            | nil => exact absurd ⟨a, rfl⟩ h1v
            | cons b l => simp [fmtStmtPy, hty, strL, P.text, render, Tok.text]
        · rw [c3, toks_initPiecesPy] at h2
          cases vs with
          | nil => simpa [tokStmtPy, hty, toks] using h2
          | cons a l =>
            cases l with
            | nil => exact absurd ⟨a, rfl⟩ h1v
            | cons b l => simpa [tokStmtPy, hty, toks] using h2
  | .forRange i lo hi body, hwf => by
    simp only [wfSPy, Bool.and_eq_true] at hwf
    obtain ⟨⟨⟨hi', hlo⟩, hhi⟩, hbody⟩ := hwf
    obtain ⟨lsb, hb1, hb2⟩ := stmts_lx sc body hbody
    obtain ⟨f1, f2, f3, f4, f5⟩ := forP_ok i lo hi hi' hlo hhi
    obtain ⟨g1, g2, g3⟩ := pieces_run (forP i lo hi) f1 f2 f3
    have hfor := lx_for g1 g2 g3 hb2
    refine ⟨splitLines [] (render (forP i lo hi)) ++ (List.map (ind 4) (lsb ++ [[]]) ++
      if tokStmtsPy sc body = [] then [ind 4 "pass".toList] else []), ?_, ?_⟩
    · simp only [fmtStmtPy, hb1, pass_iff hb2]
      rw [unl_append, unl_append, unl_splitLines, f5, indentAll_unl hb2.nonl]
      by_cases hT : tokStmtsPy sc body = [] <;> simp [hT, unl, ind, strL, List.replicate]
    · rw [f4] at hfor
      by_cases hT : tokStmtsPy sc body = [] <;> simpa [tokStmtPy, hT, tkp] using hfor
  | .comment t, _ => ⟨commentLines (strL t), by simp [fmtStmtPy, unl_commentLines], by simpa [tokStmtPy] using lx_comment (strL t)⟩
  | .block ss, hwf => by
    simp only [wfSPy] at hwf
    obtain ⟨ls, h1, h2⟩ := stmts_lx sc ss hwf
    exact ⟨ls, by simp only [fmtStmtPy, h1], by simpa [tokStmtPy] using h2⟩
  | .sect name decls stmts inp out an, hwf => by
    simp only [wfSPy, Bool.and_eq_true] at hwf
    obtain ⟨d, hd1, hd2⟩ := stmts_lx sc decls hwf.1
    obtain ⟨b, hb1, hb2⟩ := stmts_lx sc stmts hwf.2
    have hbar := lx_comment (strL "------------------------")
    have hc1 := lx_comment (strL "Section: " ++ strL name)
    have hc2 := lx_comment (strL "Inputs: " ++ commaNames inp)
    have hc3 := lx_comment (strL "Outputs: " ++ commaNames out)
    have hall := lx_append hbar (lx_append hc1 (lx_append hc2 (lx_append hc3 (lx_append hd2 (lx_append hb2 hbar)))))
    refine ⟨_, ?_, by simpa [tokStmtPy] using hall⟩
    simp only [fmtStmtPy, hd1, hb1, unl_append, unl_commentLines, List.append_assoc]
theorem stmts_lx (sc : Scalar) : ∀ (ss : List Stmt), wfSLPy sc ss = true →
    ∃ ls, fmtStmtsPy sc ss = some (unl ls) ∧ Lx ls (tokStmtsPy sc ss)
  | [], _ => ⟨[], rfl, lx_nil⟩
  | s :: ss, hwf => by
    simp only [wfSLPy, Bool.and_eq_true] at hwf
    obtain ⟨a, ha1, ha2⟩ := stmt_lx sc s hwf.1
    obtain ⟨b, hb1, hb2⟩ := stmts_lx sc ss hwf.2
    exact ⟨a ++ b, by simp only [fmtStmtsPy, ha1, hb1, unl_append], by simpa [tokStmtsPy] using lx_append ha2 hb2⟩
end

/-- **text → tokens (numba)**: the Python lexer reads the text of a well-formed statement back to
    the intended token stream, with NEWLINE / INDENT / DEDENT -/
theorem stmt_lex_py (sc : Scalar) (s : Stmt) (hwf : wfSPy sc s = true) :
    ∃ text, fmtStmtPy sc s = some text ∧ lexPy text = some (tokStmtPy sc s) := by
  obtain ⟨ls, h1, h2⟩ := stmt_lx sc s hwf
  refine ⟨unl ls, h1, ?_⟩
  unfold lexPy
  rw [splitLines_unl ls h2.nonl]
  have := h2.run 0 [] [[]] (by unfold LowFirst; rw [if_pos (show isBlankLine [] = true from rfl)]; trivial)
  rw [map_ind_zero] at this
  rw [this]
  have h0 : pyLines [0] 0 [[]] = some [] := by
    rw [pyLines_blank _ rfl]; simp [pyLines]
  rw [h0]; simp

end Ffcx.LNodes.Fmt
