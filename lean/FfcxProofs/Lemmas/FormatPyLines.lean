/-
C16 — numba statements, text level, part 1: the flat Python lexer is line-compositional; piece
lists with line breaks (`pySepNL`, `lex_render_nl`); bracket depth (`walk`).
-/
import FfcxProofs.Lemmas.FormatPySepExpr
import FfcxProofs.Lemmas.FormatStmtLex
namespace Ffcx.LNodes.Fmt
open Ffcx.LNodes

/-! ## newlines flush -/

theorem pyTrans_nl (st : PLS) : pyTrans st '\n' = (pyFlush st ++ [.newline], .start) := by
  cases st with
  | start => rfl
  | ident acc => simp [pyTrans, pyFlush, isIdChar, pyTransStart]
  | num acc => simp [pyTrans, pyFlush, pyNumCont, pyTransStart]
  | pend p => simp [pyTrans, pyFlush, pyPend2, pyTransStart]
  | comment => rfl

theorem pyFeed_snoc_nl (st : PLS) (a : List Char) :
    pyFeed st (a ++ ['\n']) = (pyRun st a ++ [.newline], .start) := by
  rw [pyFeed_append]
  simp [pyFeed, pyTrans_nl, pyRun]

theorem lexPyFlat_nl (a b : List Char) : lexPyFlat (a ++ '\n' :: b) = lexPyFlat a ++ .newline :: lexPyFlat b := by
  have : a ++ '\n' :: b = (a ++ ['\n']) ++ b := by simp
  simp only [lexPyFlat_eq_run]
  rw [this, pyRun_append, pyFeed_snoc_nl]
  simp

theorem lexPyFlat_nil : lexPyFlat [] = [] := rfl

theorem lexPyFlat_spaces {s : List Char} (hs : s.all isPySpace = true) (cs : List Char) :
    lexPyFlat (s ++ cs) = lexPyFlat cs := by
  simp only [lexPyFlat_eq_run]; exact pyRun_spaces hs cs

/-- tokens of the lines, separated by NEWLINE tokens -/
def joinTokNL : List (List Tok) → List Tok
  | [] => []
  | [l] => l
  | l :: l' :: ls => l ++ .newline :: joinTokNL (l' :: ls)

theorem lexPyFlat_joinNL (ls : List (List Char)) : lexPyFlat (joinNL ls) = joinTokNL (ls.map lexPyFlat) := by
  induction ls with
  | nil => rfl
  | cons l ls ih =>
    cases ls with
    | nil => simp [joinNL, joinTokNL]
    | cons l' ls => simp only [joinNL, lexPyFlat_nl, ih, List.map_cons, joinTokNL]

/-- the flat lexer reads a text line by line -/
theorem lexPyFlat_lines (cs : List Char) : lexPyFlat cs = joinTokNL ((splitLines [] cs).map lexPyFlat) := by
  rw [← lexPyFlat_joinNL, joinNL_splitLines]

/-! ## piece lists with line breaks -/

/-- the NEWLINE piece -/
def nlp : Piece := .ws ['\n']

/-- tokens including a NEWLINE for every line-break piece -/
def toksN : List Piece → List Tok
  | [] => []
  | .t k :: ps => k :: toksN ps
  | .ws s :: ps => if s = ['\n'] then .newline :: toksN ps else toksN ps

/-- like `pySeparated`, a white-space piece may also be the single line break -/
def pySepNL : List Piece → Bool
  | [] => true
  | .ws s :: ps => (decide (s = ['\n']) || (!s.isEmpty && s.all isPySpace)) && pySepNL ps
  | .t a :: ps =>
    pyTokOK a && (match ps with | .t b :: _ => pySepTok a b | _ => true) && pySepNL ps

theorem pySepNL_of_sep : ∀ ps : List Piece, pySeparated ps = true → pySepNL ps = true := by
  intro ps
  induction ps with
  | nil => intro _; rfl
  | cons pc ps ih =>
    intro h
    cases pc with
    | ws s =>
      simp only [pySeparated, Bool.and_eq_true] at h
      simp only [pySepNL, Bool.and_eq_true, Bool.or_eq_true]
      exact ⟨Or.inr (by simpa using h.1), ih h.2⟩
    | t a =>
      simp only [pySeparated, Bool.and_eq_true] at h
      simp only [pySepNL, Bool.and_eq_true]
      exact ⟨h.1, ih h.2⟩

/-- **No token fusion across line breaks.** The flat Python lexer reads the rendered text of a
    `pySepNL` piece list back to its token pieces, with a NEWLINE for every line break. -/
theorem lex_render_nl : ∀ ps : List Piece, pySepNL ps = true → lexPyFlat (render ps) = toksN ps := by
  intro ps hps
  rw [lexPyFlat_eq_run]
  suffices H : ∀ ps, pySepNL ps = true →
      pyRun .start (render ps) = toksN ps ∧
      ∀ t0, pyTokOK t0 = true → (match ps with | .t b :: _ => pySepTok t0 b | _ => true) = true →
        pyRun (pyStTok t0) (render ps) = pyFlush (pyStTok t0) ++ toksN ps from (H ps hps).1
  intro ps
  induction ps with
  | nil =>
    intro _
    exact ⟨by simp [render, toksN, pyRun_nil, pyFlush], fun t0 _ _ => by simp [render, toksN, pyRun_nil]⟩
  | cons pc ps ih =>
    intro h
    cases pc with
    | ws s =>
      simp only [pySepNL, Bool.and_eq_true, Bool.or_eq_true, decide_eq_true_eq, Bool.not_eq_true',
        List.isEmpty_eq_false_iff] at h
      obtain ⟨hs, hrest⟩ := h
      have hB := (ih hrest).1
      rcases hs with hs | ⟨hne, hsp⟩
      · subst hs
        have hB' : ∀ st, pyRun st (render (.ws ['\n'] :: ps)) = pyFlush st ++ toksN (.ws ['\n'] :: ps) := by
          intro st
          simp only [render, toksN, if_true, List.cons_append, List.nil_append]
          rw [pyRun_cons, pyTrans_nl, hB]
          simp
        exact ⟨by simpa [pyFlush] using hB' .start, fun t0 _ _ => hB' _⟩
      · have hnl : s ≠ ['\n'] := by
          intro e; subst e; simp [isPySpace] at hsp
        have hB' : pyRun .start (render (.ws s :: ps)) = toksN (.ws s :: ps) := by
          simp only [render, toksN, hnl, if_false]
          rw [pyRun_spaces hsp, hB]
        refine ⟨hB', ?_⟩
        intro t0 ht0 _
        cases s with
        | nil => exact absurd rfl hne
        | cons c s' =>
          simp only [List.all_cons, Bool.and_eq_true] at hsp
          have hst := (pyFeed_tok t0 ht0).2
          have : render (.ws (c :: s') :: ps) = c :: (s' ++ render ps) := by simp [render]
          rw [this, pyRun_sep (pySepChar_space hst hsp.1), ← this, hB']
    | t a =>
      simp only [pySepNL, Bool.and_eq_true] at h
      obtain ⟨⟨hok, hadj⟩, hrest⟩ := h
      obtain ⟨_, hA⟩ := ih hrest
      have hfa := (pyFeed_tok a hok).1
      have hB' : pyRun .start (render (.t a :: ps)) = toksN (.t a :: ps) := by
        simp only [render, toksN]
        rw [pyRun_append]
        change pyPreTok a ++ pyRun (pyStTok a) (render ps) = a :: toksN ps
        rw [hA a hok hadj, ← List.append_assoc, hfa]
        rfl
      refine ⟨hB', ?_⟩
      intro t0 ht0 hsep
      simp only [pySepTok] at hsep
      cases hat : a.text with
      | nil => simp [hat] at hsep
      | cons c cs =>
        simp only [hat] at hsep
        have : render (.t a :: ps) = c :: (cs ++ render ps) := by simp [render, hat]
        rw [this, pyRun_sep hsep, ← this, hB']

theorem pySepNL_toks_ok : ∀ ps : List Piece, pySepNL ps = true → ∀ t ∈ toks ps, pyTokOK t = true := by
  intro ps
  induction ps with
  | nil => intro _ t ht; simp [toks] at ht
  | cons pc ps ih =>
    intro h t ht
    cases pc with
    | ws s =>
      simp only [pySepNL, Bool.and_eq_true] at h
      exact ih h.2 t (by simpa [toks] using ht)
    | t a =>
      simp only [pySepNL, Bool.and_eq_true] at h
      simp only [toks, List.mem_cons] at ht
      rcases ht with rfl | ht
      · exact h.1.1
      · exact ih h.2 t ht

/-- dropping the NEWLINEs gives the token pieces -/
theorem toksN_filter : ∀ ps : List Piece, pySepNL ps = true → (toksN ps).filter (· != .newline) = toks ps := by
  intro ps
  induction ps with
  | nil => intro _; rfl
  | cons pc ps ih =>
    intro h
    cases pc with
    | ws s =>
      simp only [pySepNL, Bool.and_eq_true] at h
      simp only [toksN, toks]
      split
      · simp [ih h.2]
      · exact ih h.2
    | t a =>
      simp only [pySepNL, Bool.and_eq_true] at h
      have : a ≠ .newline := by intro e; subst e; simp [pyTokOK] at h
      simp only [toksN, toks, List.filter_cons]
      have hb : (a != Tok.newline) = true := by simpa using this
      rw [hb]; simp [ih h.2]


/-! ## no NEWLINE token inside a physical line -/

theorem pyTransStart_no_nl {c : Char} (hc : c ≠ '\n') : Tok.newline ∉ (pyTransStart c).1 := by
  unfold pyTransStart
  have : (c == '\n') = false := by simpa using hc
  simp only [this]
  split
  · simp
  · simp only [Bool.false_eq_true, if_false]
    split
    · simp
    · split
      · simp
      · split
        · simp
        · split
          · simp
          · split <;> simp

theorem pyPend1_ne_nl (p : Char) : pyPend1 p ≠ .newline := by
  unfold pyPend1
  repeat' split
  all_goals simp

theorem pyTrans_no_nl (st : PLS) {c : Char} (hc : c ≠ '\n') : Tok.newline ∉ (pyTrans st c).1 := by
  have h0 := pyTransStart_no_nl hc
  cases st with
  | start => exact h0
  | ident acc =>
    simp only [pyTrans]
    split
    · simp
    · simp only [List.mem_cons, not_or]; exact ⟨by simp, h0⟩
  | num acc =>
    simp only [pyTrans]
    split
    · simp
    · simp only [List.mem_cons, not_or]; exact ⟨by simp, h0⟩
  | pend p =>
    simp only [pyTrans]
    split
    · simp
    · split
      · simp
      · simp only [List.mem_cons, not_or]; exact ⟨fun h => pyPend1_ne_nl p h.symm, h0⟩
  | comment =>
    have : (c == '\n') = false := by simpa using hc
    simp [pyTrans, this]

theorem pyFlush_no_nl (st : PLS) : Tok.newline ∉ pyFlush st := by
  cases st <;> simp [pyFlush]
  exact fun h => pyPend1_ne_nl _ h.symm

theorem pyFeed_no_nl : ∀ (l : List Char) (st : PLS), '\n' ∉ l → Tok.newline ∉ (pyFeed st l).1 := by
  intro l
  induction l with
  | nil => intro st _; simp [pyFeed]
  | cons c cs ih =>
    intro st h
    simp only [List.mem_cons, not_or] at h
    simp only [pyFeed, List.mem_append, not_or]
    exact ⟨pyTrans_no_nl st (fun e => h.1 e.symm), ih _ h.2⟩

theorem lexPyFlat_no_nl {l : List Char} (h : '\n' ∉ l) : ∀ t ∈ lexPyFlat l, t ≠ .newline := by
  intro t ht e
  subst e
  simp only [lexPyFlat, List.mem_append] at ht
  rcases ht with ht | ht
  · exact pyFeed_no_nl l .start h ht
  · exact pyFlush_no_nl _ ht

theorem filter_no_nl {ts : List Tok} (h : ∀ t ∈ ts, t ≠ .newline) : ts.filter (· != .newline) = ts := by
  rw [List.filter_eq_self]
  intro t ht
  simpa using h t ht

/-! ## bracket depth -/

def isOpenT (t : Tok) : Prop := t = .p .lpar ∨ t = .p .lbrack ∨ t = .p .lbrace
def isCloseT (t : Tok) : Prop := t = .p .rpar ∨ t = .p .rbrack ∨ t = .p .rbrace

instance (t : Tok) : Decidable (isOpenT t) := by unfold isOpenT; infer_instance
instance (t : Tok) : Decidable (isCloseT t) := by unfold isCloseT; infer_instance

theorem depthAfter_cons (d : Nat) (t : Tok) (ts : List Tok) :
    depthAfter d (t :: ts) = depthAfter (if isOpenT t then d + 1 else if isCloseT t then d - 1 else d) ts := by
  cases t with
  | p q => cases q <;> simp [depthAfter, isOpenT, isCloseT]
  | _ => simp [depthAfter, isOpenT, isCloseT]

/-- walk through tokens from depth `d`: a NEWLINE may only occur inside brackets, a closing bracket
    needs an open one -/
def walk : Nat → List Tok → Option Nat
  | d, [] => some d
  | d, t :: ts =>
    if t = .newline then (if 0 < d then walk d ts else none)
    else if isOpenT t then walk (d + 1) ts
    else if isCloseT t then (if 0 < d then walk (d - 1) ts else none)
    else walk d ts

theorem walk_append (a b : List Tok) : ∀ d, walk d (a ++ b) = (walk d a).bind (fun d' => walk d' b) := by
  induction a with
  | nil => intro d; simp [walk]
  | cons t ts ih =>
    intro d
    simp only [List.cons_append, walk]
    split
    · split
      · exact ih d
      · rfl
    · split
      · exact ih _
      · split
        · split
          · exact ih _
          · rfl
        · exact ih d

theorem walk_depthAfter : ∀ (ts : List Tok) (d d' : Nat), (∀ t ∈ ts, t ≠ .newline) → walk d ts = some d' →
    depthAfter d ts = d' := by
  intro ts
  induction ts with
  | nil => intro d d' _ h; simpa [walk, depthAfter] using h
  | cons t ts ih =>
    intro d d' hn h
    have ht : t ≠ .newline := hn t (by simp)
    have hn' : ∀ x ∈ ts, x ≠ .newline := fun x hx => hn x (by simp [hx])
    rw [depthAfter_cons]
    simp only [walk, ht, if_false] at h
    split at h
    · rename_i ho; rw [if_pos ho]; exact ih _ _ hn' h
    · rename_i ho
      rw [if_neg ho]
      split at h
      · rename_i hc
        rw [if_pos hc]
        split at h
        · exact ih _ _ hn' h
        · exact absurd h (by simp)
      · rename_i hc; rw [if_neg hc]; exact ih _ _ hn' h

/-! ## unfolding `pyLines` -/

/-- tokens of one physical line -/
def lineToks (l : List Char) : List Tok := (lexPyFlat l).filter (· != .newline)

theorem pyLines_cont_step (st : List Nat) {d : Nat} (hd : 0 < d) (l : List Char) (ls : List (List Char)) :
    pyLines st d (l :: ls) = (pyLines st (depthAfter d (lineToks l)) ls).map
      (fun r => lineToks l ++ (if depthAfter d (lineToks l) == 0 then [.newline] else []) ++ r) := by
  rw [pyLines]
  simp only [hd, if_true, lineToks]
  rfl

theorem pyLines_blank (st : List Nat) {l : List Char} (hb : isBlankLine l = true) (ls : List (List Char)) :
    pyLines st 0 (l :: ls) = pyLines st 0 ls := by
  rw [pyLines]
  simp [hb]

/-- a non-blank line at the current indentation -/
theorem pyLines_same (n : Nat) (st' : List Nat) {l : List Char} (hb : isBlankLine l = false)
    (hn : leadingSpaces l = n) (ls : List (List Char)) :
    pyLines (n :: st') 0 (l :: ls) = (pyLines (n :: st') (depthAfter 0 (lineToks l)) ls).map
      (fun r => lineToks l ++ (if depthAfter 0 (lineToks l) == 0 then [.newline] else []) ++ r) := by
  rw [pyLines]
  simp [hb, hn, lineToks]

/-- a non-blank line indented deeper than the current level: INDENT -/
theorem pyLines_indent (m : Nat) (st' : List Nat) {l : List Char} (hb : isBlankLine l = false)
    (hn : m < leadingSpaces l) (ls : List (List Char)) :
    pyLines (m :: st') 0 (l :: ls) = (pyLines (leadingSpaces l :: m :: st') (depthAfter 0 (lineToks l)) ls).map
      (fun r => [.indent] ++ lineToks l ++ (if depthAfter 0 (lineToks l) == 0 then [.newline] else []) ++ r) := by
  rw [pyLines]
  simp [hb, hn, lineToks]


/-! ## indentation of physical lines -/

/-- a physical line indented by `n` blanks -/
def ind (n : Nat) (l : List Char) : List Char := List.replicate n ' ' ++ l

theorem ind_ind (n m : Nat) (l : List Char) : ind n (ind m l) = ind (n + m) l := by
  unfold ind
  induction n with
  | zero => simp
  | succ k ih =>
    have : k + 1 + m = (k + m) + 1 := by omega
    rw [this, List.replicate_succ, List.replicate_succ, List.cons_append, List.cons_append, ih]

theorem lineToks_ind (n : Nat) (l : List Char) : lineToks (ind n l) = lineToks l := by
  unfold lineToks ind
  rw [lexPyFlat_spaces]
  simp [isPySpace]

theorem leadingSpaces_replicate (n : Nat) (l : List Char) :
    leadingSpaces (List.replicate n ' ' ++ l) = n + leadingSpaces l := by
  induction n with
  | zero => simp
  | succ k ih => simp [List.replicate_succ, leadingSpaces, ih]; omega

theorem leadingSpaces_ind (n : Nat) (l : List Char) : leadingSpaces (ind n l) = n + leadingSpaces l :=
  leadingSpaces_replicate n l

theorem isBlankLine_ind (n : Nat) (l : List Char) : isBlankLine (ind n l) = isBlankLine l := by
  unfold isBlankLine ind
  congr 1
  induction n with
  | zero => rfl
  | succ k ih =>
    rw [List.replicate_succ, List.cons_append, List.dropWhile_cons]
    simpa using ih

/-- a line that starts with a character that is neither blank nor `#` -/
def RealStart (l : List Char) : Prop :=
  ∃ c cs, l = c :: cs ∧ c ≠ ' ' ∧ c ≠ '\t' ∧ c ≠ '\r' ∧ c ≠ '#'

theorem realStart_not_blank {l : List Char} (h : RealStart l) : isBlankLine l = false := by
  obtain ⟨c, cs, rfl, h1, h2, h3, h4⟩ := h
  unfold isBlankLine
  have : List.dropWhile (fun c => c == ' ' || c == '\t' || c == '\r') (c :: cs) = c :: cs := by
    rw [List.dropWhile_cons]; simp [h1, h2, h3]
  rw [this]
  split
  · rename_i heq; simp at heq
  · rename_i heq; simp at heq; exact absurd heq.1 h4
  · rfl

theorem realStart_leading {l : List Char} (h : RealStart l) : leadingSpaces l = 0 := by
  obtain ⟨c, cs, rfl, h1, _⟩ := h
  unfold leadingSpaces
  split
  · rename_i heq; simp at heq; exact absurd heq.1 h1
  · rfl

/-! ## continuation lines inside brackets -/

theorem walk_nl_cons {d : Nat} {J : List Tok} {r : Nat} (h : walk d (.newline :: J) = some r) :
    0 < d ∧ walk d J = some r := by
  simp only [walk, if_true] at h
  split at h
  · rename_i hd; exact ⟨hd, h⟩
  · exact absurd h (by simp)

theorem pyLines_cont (st : List Nat) (rest : List (List Char)) (n : Nat) :
    ∀ (lines : List (List Char)) (d : Nat), 0 < d → lines ≠ [] → (∀ l ∈ lines, '\n' ∉ l) →
    walk d (joinTokNL (lines.map lexPyFlat)) = some 0 →
    pyLines st d (lines.map (ind n) ++ rest)
      = (pyLines st 0 rest).map (fun r => lines.flatMap lineToks ++ [.newline] ++ r) := by
  intro lines
  induction lines with
  | nil => intro d _ h; exact absurd rfl h
  | cons l ls ih =>
    intro d hd _ hnl hw
    have hl : ∀ t ∈ lexPyFlat l, t ≠ .newline := lexPyFlat_no_nl (hnl l (by simp))
    have hlt : lineToks l = lexPyFlat l := filter_no_nl hl
    simp only [List.map_cons, List.cons_append]
    rw [pyLines_cont_step st hd, lineToks_ind]
    cases ls with
    | nil =>
      simp only [List.map_cons, List.map_nil, joinTokNL] at hw
      have hd0 : depthAfter d (lineToks l) = 0 := by rw [hlt]; exact walk_depthAfter _ _ _ hl hw
      simp [hd0]
    | cons l2 more =>
      simp only [List.map_cons, joinTokNL] at hw
      rw [walk_append] at hw
      cases h1 : walk d (lexPyFlat l) with
      | none => simp [h1] at hw
      | some d1 =>
        rw [h1] at hw
        simp only [Option.bind_some] at hw
        obtain ⟨hd1, hw2⟩ := walk_nl_cons hw
        have hdd : depthAfter d (lineToks l) = d1 := by rw [hlt]; exact walk_depthAfter _ _ _ hl h1
        have hne : (d1 == 0) = false := by simp; omega
        rw [hdd]
        have := ih d1 hd1 (by simp) (fun x hx => hnl x (by simp [List.mem_cons] at hx ⊢; right; exact hx))
          (by simpa using hw2)
        rw [this, Option.map_map]
        simp [hne, Function.comp_def]

/-- **a logical line**: physical lines `lines` (the first starts with a real character, all
    line breaks are inside brackets) at indentation `n`, which is the current level -/
theorem pyLines_logical (n : Nat) (st' : List Nat) (rest : List (List Char)) (lines : List (List Char))
    (hnl : ∀ l ∈ lines, '\n' ∉ l) (hfirst : ∃ l tail, lines = l :: tail ∧ RealStart l)
    (hw : walk 0 (joinTokNL (lines.map lexPyFlat)) = some 0) :
    pyLines (n :: st') 0 (lines.map (ind n) ++ rest)
      = (pyLines (n :: st') 0 rest).map (fun r => lines.flatMap lineToks ++ [.newline] ++ r) := by
  obtain ⟨l, tail, rfl, hreal⟩ := hfirst
  have hl : ∀ t ∈ lexPyFlat l, t ≠ .newline := lexPyFlat_no_nl (hnl l (by simp))
  have hlt : lineToks l = lexPyFlat l := filter_no_nl hl
  have hb : isBlankLine (ind n l) = false := by rw [isBlankLine_ind]; exact realStart_not_blank hreal
  have hn : leadingSpaces (ind n l) = n := by rw [leadingSpaces_ind, realStart_leading hreal]; omega
  simp only [List.map_cons, List.cons_append]
  rw [pyLines_same n st' hb hn, lineToks_ind]
  cases tail with
  | nil =>
    simp only [List.map_cons, List.map_nil, joinTokNL] at hw
    have hd0 : depthAfter 0 (lineToks l) = 0 := by rw [hlt]; exact walk_depthAfter _ _ _ hl hw
    simp [hd0]
  | cons l2 more =>
    simp only [List.map_cons, joinTokNL] at hw
    rw [walk_append] at hw
    cases h1 : walk 0 (lexPyFlat l) with
    | none => simp [h1] at hw
    | some d1 =>
      rw [h1] at hw
      simp only [Option.bind_some] at hw
      obtain ⟨hd1, hw2⟩ := walk_nl_cons hw
      have hdd : depthAfter 0 (lineToks l) = d1 := by rw [hlt]; exact walk_depthAfter _ _ _ hl h1
      have hne : (d1 == 0) = false := by simp; omega
      rw [hdd]
      have := pyLines_cont (n :: st') rest n (l2 :: more) d1 hd1 (by simp)
        (fun x hx => hnl x (by simp [List.mem_cons] at hx ⊢; right; exact hx)) (by simpa using hw2)
      rw [this, Option.map_map]
      simp [hne, Function.comp_def]

end Ffcx.LNodes.Fmt
