/-
Index arithmetic: row-major flattening (`flatIdx`), `MultiIndex.global_index`.
Any rank, any sizes.
-/
import FfcxModel.LNodes.Sem
import FfcxModel.LNodes.Simplify

namespace Ffcx.LNodes

/-- Σ strideₖ · valueₖ -/
def dotStrides : List Nat → List Int → Int
  | n :: ns, v :: vs => (n : Int) * v + dotStrides ns vs
  | _, _ => 0

def sizeProd (ds : List Nat) : Nat := ds.foldr (· * ·) 1

theorem flatIdx_lt : ∀ (ds : List Nat) (is : List Int) (k : Nat),
    flatIdx ds is = some k → k < sizeProd ds := by
  intro ds
  induction ds with
  | nil => intro is k h; cases is <;> simp [flatIdx] at h; simp [sizeProd, ← h]
  | cons d ds ih =>
    intro is k h
    cases is with
    | nil => simp [flatIdx] at h
    | cons i is =>
      simp only [flatIdx] at h
      split at h
      · rename_i hi
        cases hr : flatIdx ds is with
        | none => simp [hr] at h
        | some r =>
          simp [hr] at h
          have hlt := ih is r hr
          have : i.toNat < d := by omega
          simp only [sizeProd, List.foldr] at hlt ⊢
          subst h
          have h1 : i.toNat * List.foldr (· * ·) 1 ds + r < (i.toNat + 1) * List.foldr (· * ·) 1 ds := by
            rw [Nat.add_mul]; omega
          have h2 : (i.toNat + 1) * List.foldr (· * ·) 1 ds ≤ d * List.foldr (· * ·) 1 ds :=
            Nat.mul_le_mul_right _ (by omega)
          omega
      · simp at h

theorem flatIdx_length : ∀ (ds : List Nat) (is : List Int) (k : Nat),
    flatIdx ds is = some k → is.length = ds.length := by
  intro ds
  induction ds with
  | nil => intro is k h; cases is <;> simp [flatIdx] at h; rfl
  | cons d ds ih =>
    intro is k h
    cases is with
    | nil => simp [flatIdx] at h
    | cons i is =>
      simp only [flatIdx] at h
      split at h
      · cases hr : flatIdx ds is with
        | none => simp [hr] at h
        | some r => simp [ih is r hr]
      · simp at h

/-- each index lies in its own extent (what C requires of a multi-dimensional subscript) -/
theorem flatIdx_inrange : ∀ (ds : List Nat) (is : List Int) (k : Nat),
    flatIdx ds is = some k → ∀ p, p ∈ List.zip ds is → 0 ≤ p.2 ∧ p.2 < (p.1 : Int) := by
  intro ds
  induction ds with
  | nil => intro is k h p hp; simp at hp
  | cons d ds ih =>
    intro is k h p hp
    cases is with
    | nil => simp [flatIdx] at h
    | cons i is =>
      simp only [flatIdx] at h
      split at h
      · rename_i hi
        cases hr : flatIdx ds is with
        | none => simp [hr] at h
        | some r =>
          simp [List.zip_cons_cons] at hp
          rcases hp with hp | hp
          · subst hp; exact hi
          · exact ih is r hr p (by simpa using hp)
      · simp at h

/-- row-major flattening is injective on in-range index tuples -/
theorem flatIdx_inj : ∀ (ds : List Nat) (is js : List Int) (k : Nat),
    flatIdx ds is = some k → flatIdx ds js = some k → is = js := by
  intro ds
  induction ds with
  | nil =>
    intro is js k h1 h2
    cases is <;> cases js <;> simp_all [flatIdx]
  | cons d ds ih =>
    intro is js k h1 h2
    cases is with
    | nil => simp [flatIdx] at h1
    | cons i is =>
      cases js with
      | nil => simp [flatIdx] at h2
      | cons j js =>
        simp only [flatIdx] at h1 h2
        by_cases hi : 0 ≤ i ∧ i < (d : Int)
        case neg => simp [hi] at h1
        by_cases hj : 0 ≤ j ∧ j < (d : Int)
        case neg => simp [hj] at h2
        simp only [hi, hj, and_self, if_true] at h1 h2
        cases hr : flatIdx ds is with
        | none => simp [hr] at h1
        | some r =>
          cases hs : flatIdx ds js with
          | none => simp [hs] at h2
          | some s =>
            simp [hr] at h1
            simp [hs] at h2
            have hrl := flatIdx_lt ds is r hr
            have hsl := flatIdx_lt ds js s hs
            simp only [sizeProd] at hrl hsl
            generalize hP : List.foldr (· * ·) 1 ds = P at *
            have hij : i.toNat = j.toNat := by
              rcases Nat.lt_trichotomy i.toNat j.toNat with hlt | heq | hgt
              · exfalso
                have : (i.toNat + 1) * P ≤ j.toNat * P := Nat.mul_le_mul_right _ hlt
                rw [Nat.add_mul] at this; omega
              · exact heq
              · exfalso
                have : (j.toNat + 1) * P ≤ i.toNat * P := Nat.mul_le_mul_right _ hgt
                rw [Nat.add_mul] at this; omega
            have hrs : r = s := by rw [hij] at h1; omega
            subst hrs
            have := ih is js r hr hs
            subst this
            have : i = j := by omega
            subst this; rfl

/-- `flatIdx` is the stride dot product -/
theorem flatIdx_dot : ∀ (ds : List Nat) (is : List Int) (k : Nat),
    flatIdx ds is = some k → dotStrides (strides ds) is = (k : Int) := by
  intro ds
  induction ds with
  | nil => intro is k h; cases is <;> simp [flatIdx] at h; simp [strides, dotStrides, ← h]
  | cons d ds ih =>
    intro is k h
    cases is with
    | nil => simp [flatIdx] at h
    | cons i is =>
      simp only [flatIdx] at h
      split at h
      · rename_i hi
        cases hr : flatIdx ds is with
        | none => simp [hr] at h
        | some r =>
          simp [hr] at h
          subst h
          simp only [strides, dotStrides, ih is r hr]
          have : ((i.toNat : Nat) : Int) = i := Int.toNat_of_nonneg hi.1
          push_cast
          rw [this, Int.mul_comm]
      · simp at h

end Ffcx.LNodes

namespace Ffcx.LNodes

theorem evalI_isZero (iv ia) (e : Expr) (v : Int) (hz : isZero e = true) (h : evalI iv ia e = some v) :
    v = 0 := by
  cases e <;> simp [isZero] at hz
  case litF => simp [evalI] at h
  case litI w => subst hz; simp [evalI] at h; omega

theorem evalI_isOne (iv ia) (e : Expr) (v : Int) (hz : isOne e = true) (h : evalI iv ia e = some v) :
    v = 1 := by
  cases e <;> simp [isOne] at hz
  case litF => simp [evalI] at h
  case litI w => subst hz; simp [evalI] at h; omega

theorem evalI_isNegOne (iv ia) (e : Expr) (v : Int) (hz : isNegOne e = true) (h : evalI iv ia e = some v) :
    v = -1 := by
  cases e <;> simp [isNegOne] at hz
  case litF => simp [evalI] at h
  case litI w => subst hz; simp [evalI] at h; omega

theorem evalI_lRMul_lit (iv ia) (s : Expr) (n : Nat) (v : Int) (h : evalI iv ia s = some v) :
    evalI iv ia (lRMul s (.litI n)) = some ((n : Int) * v) := by
  unfold lRMul
  split
  · rename_i hz; have := evalI_isZero iv ia s v hz h; subst this; simpa using h
  split
  · rename_i hz; simp [isZero] at hz; simp [evalI, hz]
  split
  · rename_i hz; have := evalI_isOne iv ia s v hz h; subst this; simp [evalI]
  split
  · rename_i hz; simp [isOne] at hz; simp [hz, h]
  split
  · rename_i hz; simp [isNegOne] at hz
  split
  · rename_i hz; have := evalI_isNegOne iv ia s v hz h; subst this; simp [evalI]
  · simp [evalI, h]

theorem evalI_miTerm (iv ia) (n : Nat) (s : MSym) (v : Int)
    (h : evalI iv ia s.toExpr = some v) : evalI iv ia (miTerm n s) = some ((n : Int) * v) := by
  cases s with
  | py k => simp [MSym.toExpr, evalI] at h; subst h; simp [miTerm, evalI]
  | ex e => exact evalI_lRMul_lit iv ia e n v h

theorem evalISum_miTerms (iv ia) : ∀ (ns : List Nat) (syms : List MSym) (vals : List Int),
    evalIs iv ia (syms.map MSym.toExpr) = some vals →
    evalI.evalISum iv ia (miTerms ns syms) = some (dotStrides ns vals) := by
  intro ns
  induction ns with
  | nil => intro syms vals _; cases syms <;> simp [miTerms, evalI.evalISum, dotStrides]
  | cons n ns ih =>
    intro syms vals h
    cases syms with
    | nil => simp [evalIs] at h; subst h; simp [miTerms, evalI.evalISum, dotStrides]
    | cons s ss =>
      simp only [List.map, evalIs] at h
      cases hs : evalI iv ia s.toExpr with
      | none => simp [hs] at h
      | some v =>
        cases hr : evalIs iv ia (ss.map MSym.toExpr) with
        | none => simp [hs, hr] at h
        | some vs =>
          simp [hs, hr] at h
          subst h
          simp [miTerms, evalI.evalISum, evalI_miTerm iv ia n s v hs, ih ss vs hr, dotStrides]

end Ffcx.LNodes
