/-
C16 — numba, no token fusion: appending separated piece lists, token classes at the boundaries of
Python expression texts, which characters end a pending token. Mirrors FormatSep/FormatSepExpr.
-/
import FfcxProofs.Lemmas.FormatPyLex
import FfcxProofs.Lemmas.FormatSepExpr

namespace Ffcx.LNodes.Fmt
open Ffcx.LNodes

theorem pySeparated_append {a b : List Piece} (ha : pySeparated a = true) (hb : pySeparated b = true)
    (hbr : ∀ x y, lastP a = some x → firstP b = some y → pySepTok x y = true) :
    pySeparated (a ++ b) = true := by
  induction a with
  | nil => exact hb
  | cons pc a' ih =>
    cases pc with
    | ws s =>
      simp only [List.cons_append, pySeparated, Bool.and_eq_true] at ha ⊢
      refine ⟨ha.1, ih ha.2 ?_⟩
      intro x y hx hy
      cases a' with
      | nil => simp [lastP] at hx
      | cons q qs => exact hbr x y (by simpa [lastP] using hx) hy
    | t x =>
      simp only [List.cons_append, pySeparated, Bool.and_eq_true] at ha ⊢
      obtain ⟨⟨hok, hadj⟩, hrest⟩ := ha
      refine ⟨⟨hok, ?_⟩, ih hrest ?_⟩
      · cases a' with
        | nil =>
          simp only [List.nil_append]
          cases b with
          | nil => rfl
          | cons q qs =>
            cases q with
            | ws s => rfl
            | t y => exact hbr x y rfl rfl
        | cons q qs => cases q <;> simp at hadj ⊢ <;> exact hadj
      · intro x' y hx hy
        cases a' with
        | nil => simp [lastP] at hx
        | cons q qs => exact hbr x' y (by simpa [lastP] using hx) hy

/-! ## token classes at the boundaries of expression texts -/

/-- first tokens of a Python expression text: a number, an identifier, `-`, `(` -/
def pyIsFirst (t : Tok) : Bool :=
  pyTokOK t && (match t with
    | .num _ | .id _ | .p .minus | .p .lpar => true
    | _ => false)

/-- last tokens: a number, an identifier, `)`, `]` -/
def pyIsLast (t : Tok) : Bool :=
  pyTokOK t && (match t with
    | .num _ | .id _ | .p .rpar | .p .rbrack => true
    | _ => false)

theorem pyTokOK_text_ne {t} (h : pyTokOK t = true) : ∃ c cs, t.text = c :: cs := by
  cases t with
  | id s =>
    simp only [pyTokOK] at h
    cases hl : s.toList with
    | nil => simp [hl] at h
    | cons c cs => exact ⟨c, cs, by simp [Tok.text, hl]⟩
  | num s =>
    simp only [pyTokOK, pyNumShape] at h
    cases hl : s.toList with
    | nil => simp [hl] at h
    | cons c cs => exact ⟨c, cs, by simp [Tok.text, hl]⟩
  | p q => cases q <;> exact ⟨_, _, rfl⟩
  | bad c => simp [pyTokOK] at h
  | newline => simp [pyTokOK] at h
  | indent => simp [pyTokOK] at h
  | dedent => simp [pyTokOK] at h

/-- after a token that leaves the lexer in the start state anything may follow -/
theorem pySepTok_start {x y : Tok} (hx : pyStTok x = .start) (hy : pyTokOK y = true) : pySepTok x y = true := by
  obtain ⟨c, cs, h⟩ := pyTokOK_text_ne hy
  simp [pySepTok, h, hx, pySepChar]

theorem pyStTok_lpar : pyStTok (.p .lpar) = .start := rfl
theorem pyStTok_rpar : pyStTok (.p .rpar) = .start := rfl
theorem pyStTok_lbrack : pyStTok (.p .lbrack) = .start := rfl
theorem pyStTok_rbrack : pyStTok (.p .rbrack) = .start := rfl
theorem pyStTok_comma : pyStTok (.p .comma) = .start := rfl

/-- the state after a well-shaped number: pending number whose last character is a digit -/
theorem pyStTok_num {s : String} (h : pyTokOK (.num s) = true) :
    ∃ acc, pyStTok (.num s) = .num acc ∧ ((acc.headD '0').isDigit || acc.headD '0' == 'j') = true := by
  simp only [pyTokOK, pyNumShape] at h
  cases hl : s.toList with
  | nil => simp [hl] at h
  | cons c cs =>
    simp only [hl, Bool.and_eq_true] at h
    have hf : pyFeed .start (Tok.num s).text = ([], .num (cs.reverse ++ [c])) := by
      simp only [Tok.text, hl, pyFeed, pyTrans, pyTransStart_digit h.1.1]
      rw [pyFeed_num cs [c] c rfl h.1.2]
      simp
    refine ⟨cs.reverse ++ [c], by simp [pyStTok, hf], ?_⟩
    have hlast := h.2
    simp only [List.reverse_cons] at hlast
    cases hr : cs.reverse ++ [c] with
    | nil => simp at hr
    | cons d ds => rw [hr] at hlast; simpa using hlast

theorem pyStTok_id {s : String} (h : pyTokOK (.id s) = true) : ∃ acc, pyStTok (.id s) = .ident acc := by
  simp only [pyTokOK] at h
  cases hl : s.toList with
  | nil => simp [hl] at h
  | cons c cs =>
    simp only [hl, Bool.and_eq_true] at h
    have hf : pyFeed .start (Tok.id s).text = ([], .ident (cs.reverse ++ [c])) := by
      simp only [Tok.text, hl, pyFeed, pyTrans, pyTransStart_idStart h.1]
      rw [pyFeed_ident cs [c] h.2]
      simp
    exact ⟨cs.reverse ++ [c], by simp [pyStTok, hf]⟩

/-- the last character of a number (a digit or `j`) is not an exponent marker -/
theorem pyLast_not_e {l : Char} (h : (l.isDigit || l == 'j') = true) : (l == 'e' || l == 'E') = false := by
  cases he : (l == 'e' || l == 'E') with
  | false => rfl
  | true =>
    simp only [Bool.or_eq_true, beq_iff_eq] at he
    rcases he with rfl | rfl <;> exact absurd h (by decide)

/-- characters that end an identifier or a number -/
def pyIsCloser (c : Char) : Bool :=
  c == ')' || c == ']' || c == ',' || c == '[' || c == '(' || c == '+' || c == '-' || c == ':'

theorem pySepTok_last_closer {x y : Tok} (hx : pyIsLast x = true) {c cs} (hy : y.text = c :: cs)
    (hc : pyIsCloser c = true) : pySepTok x y = true := by
  simp only [pySepTok, hy]
  have hcases : c = ')' ∨ c = ']' ∨ c = ',' ∨ c = '[' ∨ c = '(' ∨ c = '+' ∨ c = '-' ∨ c = ':' := by
    simp only [pyIsCloser, Bool.or_eq_true, beq_iff_eq] at hc
    rcases hc with ((((((h | h) | h) | h) | h) | h) | h) | h <;> simp [h]
  simp only [pyIsLast, Bool.and_eq_true] at hx
  cases x with
  | num s =>
    obtain ⟨acc, h1, h2⟩ := pyStTok_num hx.1
    rw [h1]
    simp only [pySepChar, pyNumCont, pyLast_not_e h2, Bool.and_false, Bool.or_false]
    rcases hcases with rfl | rfl | rfl | rfl | rfl | rfl | rfl | rfl <;> decide
  | id s =>
    obtain ⟨acc, h1⟩ := pyStTok_id hx.1
    rw [h1]
    simp only [pySepChar]
    rcases hcases with rfl | rfl | rfl | rfl | rfl | rfl | rfl | rfl <;> decide
  | p q =>
    have : q = .rpar ∨ q = .rbrack := by
      cases q <;> simp at hx <;> simp
    rcases this with rfl | rfl <;> rfl
  | bad c => simp [pyTokOK] at hx
  | newline => simp [pyTokOK] at hx
  | indent => simp [pyTokOK] at hx
  | dedent => simp [pyTokOK] at hx

/-- a piece list that is pySeparated, starts with an expression-first token and ends with an
    expression-last token -/
structure PSP (ps : List Piece) : Prop where
  sep : pySeparated ps = true
  first : ∃ t, firstP ps = some t ∧ pyIsFirst t = true
  last : ∃ t, lastP ps = some t ∧ pyIsLast t = true

theorem PSP.ne_nil {ps} (h : PSP ps) : ps ≠ [] := by
  obtain ⟨t, ht, _⟩ := h.first
  intro hn; subst hn; simp [firstP] at ht

theorem pyIsFirst_ok {t} (h : pyIsFirst t = true) : pyTokOK t = true := by
  simp only [pyIsFirst, Bool.and_eq_true] at h; exact h.1

theorem pyIsLast_ok {t} (h : pyIsLast t = true) : pyTokOK t = true := by
  simp only [pyIsLast, Bool.and_eq_true] at h; exact h.1

/-- `a ++ m ++ b` with given bridges into and out of the middle part -/
theorem psp_app3 {a m b : List Piece} (ha : PSP a) (hb : PSP b) (hm : pySeparated m = true)
    (h1 : ∀ x y, lastP a = some x → pyIsLast x = true → firstP m = some y → pySepTok x y = true)
    (h2 : ∀ x y, lastP m = some x → firstP b = some y → pyIsFirst y = true → pySepTok x y = true)
    (h3 : m = [] → ∀ x y, lastP a = some x → pyIsLast x = true → firstP b = some y → pyIsFirst y = true → pySepTok x y = true) :
    PSP (a ++ m ++ b) := by
  obtain ⟨fa, hfa, hfa'⟩ := ha.first
  obtain ⟨la, hla, hla'⟩ := ha.last
  obtain ⟨fb, hfb, hfb'⟩ := hb.first
  obtain ⟨lb, hlb, hlb'⟩ := hb.last
  refine ⟨?_, ⟨fa, ?_, hfa'⟩, ⟨lb, ?_, hlb'⟩⟩
  · rw [List.append_assoc]
    refine pySeparated_append ha.sep (pySeparated_append hm hb.sep ?_) ?_
    · intro x y hx hy
      rw [hfb] at hy; cases hy
      exact h2 x _ hx hfb hfb'
    · intro x y hx hy
      rw [hla] at hx; cases hx
      cases m with
      | nil =>
        simp only [List.nil_append] at hy
        exact h3 rfl _ y hla hla' hy (by rw [hfb] at hy; cases hy; exact hfb')
      | cons q qs =>
        rw [firstP_append _ (by simp)] at hy
        exact h1 _ y hla hla' hy
  · rw [List.append_assoc, firstP_append _ ha.ne_nil]; exact hfa
  · rw [lastP_append_ne _ hb.ne_nil]; exact hlb

/-- white space on both sides of a middle token: no bridge conditions -/
theorem psp_mid_ws {a b : List Piece} (t : Tok) (ht : pyTokOK t = true) (ha : PSP a) (hb : PSP b) :
    PSP (a ++ [sp, .t t, sp] ++ b) := by
  refine psp_app3 ha hb (by simp [pySeparated, sp, ht, isPySpace]) ?_ ?_ ?_
  · intro x y _ _ hy; simp [firstP, sp] at hy
  · intro x y hx; simp [lastP, sp] at hx
  · intro h; simp at h

theorem psp_paren {ps} (h : PSP ps) : PSP (pp .lpar :: ps ++ [pp .rpar]) := by
  obtain ⟨f, hf, hf'⟩ := h.first
  obtain ⟨l, hl, hl'⟩ := h.last
  have hin : pySeparated (ps ++ [pp .rpar]) = true := by
    refine pySeparated_append h.sep rfl ?_
    intro x y hx hy
    rw [hl] at hx; cases hx
    simp only [firstP, pp, Option.some.injEq] at hy; subst hy
    exact pySepTok_last_closer hl' (c := ')') (cs := []) rfl rfl
  refine ⟨?_, ⟨_, rfl, rfl⟩, ⟨.p .rpar, ?_, rfl⟩⟩
  · refine pySeparated_append (a := [pp .lpar]) rfl hin ?_
    intro x y hx hy
    simp only [lastP, pp, Option.some.injEq] at hx; subst hx
    have hy' : firstP (ps ++ [pp .rpar]) = some y := hy
    rw [firstP_append _ h.ne_nil, hf] at hy'; cases hy'
    exact pySepTok_start pyStTok_lpar (pyIsFirst_ok hf')
  · have : pp .lpar :: ps ++ [pp .rpar] = (pp .lpar :: ps) ++ [pp .rpar] := rfl
    rw [this, lastP_append_cons]; rfl

theorem psp_parenIf {ps} (b : Bool) (h : PSP ps) : PSP (parenIf b ps) := by
  cases b with
  | false => simpa [parenIf] using h
  | true => simpa [parenIf] using psp_paren h

/-! ### joins and suffixes -/

theorem psp_join {sepr : List Piece} (hs : pySeparated sepr = true) (hne : sepr ≠ [])
    (h1 : ∀ x y, pyIsLast x = true → firstP sepr = some y → pySepTok x y = true)
    (h2 : ∀ x y, lastP sepr = some x → pyIsFirst y = true → pySepTok x y = true) :
    ∀ xs : List (List Piece), xs ≠ [] → (∀ x ∈ xs, PSP x) → PSP (joinP sepr xs) := by
  intro xs
  induction xs with
  | nil => intro h; exact absurd rfl h
  | cons x xs ih =>
    intro _ hall
    cases xs with
    | nil => simpa [joinP] using hall x (by simp)
    | cons y ys =>
      have hx := hall x (by simp)
      have hr := ih (by simp) (fun z hz => hall z (by simp [hz]))
      simp only [joinP]
      refine psp_app3 hx hr hs ?_ ?_ ?_
      · intro a b _ ha hb; exact h1 a b ha hb
      · intro a b ha _ hb; exact h2 a b ha hb
      · intro h; exact absurd h hne

theorem psp_join_first {sepr : List Piece} {x : List Piece} {xs : List (List Piece)} (hx : x ≠ []) :
    firstP (joinP sepr (x :: xs)) = firstP x := by
  cases xs with
  | nil => rfl
  | cons y ys => simp only [joinP]; rw [List.append_assoc, firstP_append _ hx]

/-- a closing bracket after an expression text -/
theorem psp_snoc {ps} (q : P) (hq : q = .rpar ∨ q = .rbrack) (h : PSP ps) : PSP (ps ++ [pp q]) := by
  obtain ⟨f, hf, hf'⟩ := h.first
  obtain ⟨l, hl, hl'⟩ := h.last
  have hlast : pyIsLast (.p q) = true := by rcases hq with rfl | rfl <;> rfl
  refine ⟨?_, ⟨f, by rw [firstP_append _ h.ne_nil]; exact hf, hf'⟩, ⟨.p q, by rw [lastP_append_cons]; rfl, hlast⟩⟩
  refine pySeparated_append h.sep (by rcases hq with rfl | rfl <;> rfl) ?_
  intro x y hx hy
  rw [hl] at hx; cases hx
  simp only [firstP, pp, Option.some.injEq] at hy; subst hy
  rcases hq with rfl | rfl
  · exact pySepTok_last_closer hl' (c := ')') (cs := []) rfl rfl
  · exact pySepTok_last_closer hl' (c := ']') (cs := []) rfl rfl

/-- `name (` or `name [` in front of a pySeparated text -/
theorem psp_head {ps} (s : String) (q : P) (c : Char) (hq : q.text = [c]) (hc : pyIsCloser c = true)
    (hst : pyStTok (.p q) = .start) (hqo : pyPunctOK q = true) (hs : pyTokOK (.id s) = true) (h : PSP ps) :
    PSP (.t (.id s) :: pp q :: ps) := by
  have hid : PSP [.t (.id s)] := ⟨by simp [pySeparated, hs], ⟨_, rfl, by simp [pyIsFirst, hs]⟩, ⟨_, rfl, by simp [pyIsLast, hs]⟩⟩
  have := psp_app3 (m := [pp q]) hid h (by simp [pySeparated, pp, pyTokOK, hqo]) ?_ ?_ ?_
  · simpa using this
  · intro x y _ hx hy
    simp only [firstP, pp, Option.some.injEq] at hy; subst hy
    exact pySepTok_last_closer hx (c := c) (cs := []) (by simp [Tok.text, hq]) hc
  · intro x y hx _ hy
    simp only [lastP, pp, Option.some.injEq] at hx; subst hx
    exact pySepTok_start hst (pyIsFirst_ok hy)
  · intro h; simp at h


end Ffcx.LNodes.Fmt
