/-
C16 — token-level round trip of the C expression parser: fuel monotonicity of the mutual
precedence-climbing parser and the structural induction "what follows binds looser than the level
being parsed".
-/
import FfcxModel.LNodes.ParseC

namespace Ffcx.LNodes.Fmt
open Ffcx.LNodes

/-! ## fuel monotonicity -/

theorem parse_mono_step (f : Nat)
    (ihC : ∀ ts r, parseCond f ts = some r → parseCond (f + 1) ts = some r)
    (ihB : ∀ m ts r, parseBin f m ts = some r → parseBin (f + 1) m ts = some r)
    (ihL : ∀ m l ts r, loopBin f m l ts = some r → loopBin (f + 1) m l ts = some r)
    (ihU : ∀ ts r, parseUnary f ts = some r → parseUnary (f + 1) ts = some r)
    (ihP : ∀ b ts r, parsePost f b ts = some r → parsePost (f + 1) b ts = some r)
    (ihA : ∀ ts r, parseArgs f ts = some r → parseArgs (f + 1) ts = some r) :
    (∀ ts r, parseCond (f + 1) ts = some r → parseCond (f + 2) ts = some r)
    ∧ (∀ m ts r, parseBin (f + 1) m ts = some r → parseBin (f + 2) m ts = some r)
    ∧ (∀ m l ts r, loopBin (f + 1) m l ts = some r → loopBin (f + 2) m l ts = some r)
    ∧ (∀ ts r, parseUnary (f + 1) ts = some r → parseUnary (f + 2) ts = some r)
    ∧ (∀ b ts r, parsePost (f + 1) b ts = some r → parsePost (f + 2) b ts = some r)
    ∧ (∀ ts r, parseArgs (f + 1) ts = some r → parseArgs (f + 2) ts = some r) := by
  refine ⟨?_, ?_, ?_, ?_, ?_, ?_⟩
  · intro ts r h
    rw [parseCond] at h ⊢
    split at h
    · simp at h
    · rename_i c r1 hb
      rw [ihB _ _ _ hb]
      simp only []
      split at h
      · rename_i t r3 ht
        rw [ihC _ _ ht]
        simp only []
        split at h
        · rename_i e r4 he
          rw [ihC _ _ he]
          exact h
        · simp at h
      · simp at h
    · rename_i c r hb hne
      rw [ihB _ _ _ hb]
      sorry
  all_goals sorry
