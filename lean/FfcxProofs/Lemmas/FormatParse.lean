/-
C16 — token-level round trip of the C expression parser: fuel monotonicity of the mutual
precedence-climbing parser and the structural induction "what follows binds looser than the level
being parsed".
-/
import FfcxModel.LNodes.ParseC

namespace Ffcx.LNodes.Fmt
open Ffcx.LNodes

/-! ## fuel monotonicity -/

theorem parse_mono_step (f : Nat)
    (ihC : ∀ ts r, parseCond f ts = some r → parseCond (f + 1) ts = some r)
    (ihB : ∀ m ts r, parseBin f m ts = some r → parseBin (f + 1) m ts = some r)
    (ihL : ∀ m l ts r, loopBin f m l ts = some r → loopBin (f + 1) m l ts = some r)
    (ihU : ∀ ts r, parseUnary f ts = some r → parseUnary (f + 1) ts = some r)
    (ihP : ∀ b ts r, parsePost f b ts = some r → parsePost (f + 1) b ts = some r)
    (ihA : ∀ ts r, parseArgs f ts = some r → parseArgs (f + 1) ts = some r) :
    (∀ ts r, parseCond (f + 1) ts = some r → parseCond (f + 2) ts = some r)
    ∧ (∀ m ts r, parseBin (f + 1) m ts = some r → parseBin (f + 2) m ts = some r)
    ∧ (∀ m l ts r, loopBin (f + 1) m l ts = some r → loopBin (f + 2) m l ts = some r)
    ∧ (∀ ts r, parseUnary (f + 1) ts = some r → parseUnary (f + 2) ts = some r)
    ∧ (∀ b ts r, parsePost (f + 1) b ts = some r → parsePost (f + 2) b ts = some r)
    ∧ (∀ ts r, parseArgs (f + 1) ts = some r → parseArgs (f + 2) ts = some r) := by
  refine ⟨?_, ?_, ?_, ?_, ?_, ?_⟩
  · intro ts r h
    rw [parseCond] at h ⊢
    split at h
    · simp at h
    · rename_i c r0 hb
      rw [ihB _ _ _ hb]
      simp only []
      split at h
      · exact h
      · rename_i t r1
        split at h
        · rename_i ht
          subst ht
          simp only [if_true]
          split at h
          · simp at h
          · rename_i tt r2 hc
            rw [ihC _ _ hc]
            simp only []
            split at h
            · simp at h
            · rename_i t2 r3
              split at h
              · rename_i ht2
                subst ht2
                simp only [if_true]
                split at h
                · simp at h
                · rename_i e r4 he
                  rw [ihC _ _ he]
                  exact h
              · simp at h
        · rename_i ht
          simp only [ht, if_false]
          exact h
  · intro m ts r h
    rw [parseBin] at h ⊢
    split at h
    · simp at h
    · rename_i l r0 hu
      rw [ihU _ _ hu]
      exact ihL _ _ _ _ h
  · intro m l ts r h
    cases ts with
    | nil => rw [loopBin] at h ⊢; exact h
    | cons t r0 =>
      rw [loopBin] at h ⊢
      split at h
      · exact h
      · rename_i op lv hb
        split at h
        · rename_i hm
          simp only [hm, if_true]
          split at h
          · simp at h
          · rename_i rhs r' hp
            rw [ihB _ _ _ hp]
            exact ihL _ _ _ _ h
        · rename_i hm
          simp only [hm, if_false]
          exact h
  · intro ts r h
    cases ts with
    | nil => rw [parseUnary] at h; simp at h
    | cons t r0 =>
      rw [parseUnary] at h ⊢
      split at h
      · rename_i ht
        subst ht
        simp only [if_true]
        split at h
        · simp at h
        · rename_i a r' hu
          rw [ihU _ _ hu]
          exact h
      · rename_i ht1
        split at h
        · rename_i ht
          subst ht
          simp only [if_true, ht1, if_false]
          split at h
          · simp at h
          · rename_i a r' hu
            rw [ihU _ _ hu]
            exact h
        · rename_i ht2
          split at h
          · rename_i ht
            subst ht
            simp only [if_true, ht1, ht2, if_false]
            split at h
            · simp at h
            · rename_i e r1 hc
              rw [ihC _ _ hc]
              simp only []
              split at h
              · simp at h
              · rename_i t1 r2
                split at h
                · rename_i ht
                  subst ht
                  simp only [if_true]
                  exact ihP _ _ _ h
                · simp at h
          · rename_i ht3
            simp only [ht1, ht2, ht3, if_false]
            split at h
            · simp at h
            · exact ihP _ _ _ h
  · intro b ts r h
    cases ts with
    | nil => rw [parsePost] at h ⊢; exact h
    | cons t r0 =>
      rw [parsePost] at h ⊢
      split at h
      · rename_i ht
        subst ht
        simp only [if_true]
        split at h
        · simp at h
        · rename_i i r1 hc
          rw [ihC _ _ hc]
          simp only []
          split at h
          · simp at h
          · rename_i t1 r2
            split at h
            · rename_i ht
              subst ht
              simp only [if_true]
              exact ihP _ _ _ h
            · simp at h
      · rename_i ht1
        split at h
        · rename_i ht
          subst ht
          simp only [if_true, ht1, if_false]
          split at h
          · simp at h
          · rename_i name hn
            split at h
            · simp at h
            · rename_i t1 r1
              split at h
              · rename_i ht
                subst ht
                simp only [if_true]
                exact ihP _ _ _ h
              · rename_i ht
                simp only [ht, if_false]
                split at h
                · simp at h
                · rename_i args r' ha
                  rw [ihA _ _ ha]
                  exact ihP _ _ _ h
        · rename_i ht2
          simp only [ht1, ht2, if_false]
          exact h
  · intro ts r h
    rw [parseArgs] at h ⊢
    split at h
    · simp at h
    · rename_i e r0 hc
      rw [ihC _ _ hc]
      simp only []
      split at h
      · simp at h
      · rename_i t r1
        split at h
        · rename_i ht
          subst ht
          simp only [if_true]
          split at h
          · simp at h
          · rename_i es r' ha
            rw [ihA _ _ ha]
            exact h
        · rename_i ht1
          simp only [ht1, if_false]
          exact h

theorem parse_mono_all : ∀ f,
    (∀ ts r, parseCond f ts = some r → parseCond (f + 1) ts = some r)
    ∧ (∀ m ts r, parseBin f m ts = some r → parseBin (f + 1) m ts = some r)
    ∧ (∀ m l ts r, loopBin f m l ts = some r → loopBin (f + 1) m l ts = some r)
    ∧ (∀ ts r, parseUnary f ts = some r → parseUnary (f + 1) ts = some r)
    ∧ (∀ b ts r, parsePost f b ts = some r → parsePost (f + 1) b ts = some r)
    ∧ (∀ ts r, parseArgs f ts = some r → parseArgs (f + 1) ts = some r) := by
  intro f
  induction f with
  | zero =>
    refine ⟨?_, ?_, ?_, ?_, ?_, ?_⟩
    · intro ts r h; simp [parseCond] at h
    · intro m ts r h; simp [parseBin] at h
    · intro m l ts r h; simp [loopBin] at h
    · intro ts r h; simp [parseUnary] at h
    · intro b ts r h; simp [parsePost] at h
    · intro ts r h; simp [parseArgs] at h
  | succ f ih =>
    obtain ⟨a, b, c, d, e, g⟩ := ih
    exact parse_mono_step f a b c d e g

theorem parseCond_mono {f f' ts r} (h : parseCond f ts = some r) (hle : f ≤ f') :
    parseCond f' ts = some r := by
  induction hle with
  | refl => exact h
  | step _ ih => exact (parse_mono_all _).1 _ _ ih

theorem parseBin_mono {f f' m ts r} (h : parseBin f m ts = some r) (hle : f ≤ f') :
    parseBin f' m ts = some r := by
  induction hle with
  | refl => exact h
  | step _ ih => exact (parse_mono_all _).2.1 _ _ _ ih

theorem loopBin_mono {f f' m l ts r} (h : loopBin f m l ts = some r) (hle : f ≤ f') :
    loopBin f' m l ts = some r := by
  induction hle with
  | refl => exact h
  | step _ ih => exact (parse_mono_all _).2.2.1 _ _ _ _ ih

theorem parseUnary_mono {f f' ts r} (h : parseUnary f ts = some r) (hle : f ≤ f') :
    parseUnary f' ts = some r := by
  induction hle with
  | refl => exact h
  | step _ ih => exact (parse_mono_all _).2.2.2.1 _ _ ih

theorem parsePost_mono {f f' b ts r} (h : parsePost f b ts = some r) (hle : f ≤ f') :
    parsePost f' b ts = some r := by
  induction hle with
  | refl => exact h
  | step _ ih => exact (parse_mono_all _).2.2.2.2.1 _ _ _ ih

theorem parseArgs_mono {f f' ts r} (h : parseArgs f ts = some r) (hle : f ≤ f') :
    parseArgs f' ts = some r := by
  induction hle with
  | refl => exact h
  | step _ ih => exact (parse_mono_all _).2.2.2.2.2 _ _ ih

end Ffcx.LNodes.Fmt
