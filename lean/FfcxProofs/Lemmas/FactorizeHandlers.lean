/-
Soundness of the handlers of the factorisation model: `handle_product`, `handle_conj`,
`handle_division`, `handle_conditional` (and `handle_sum` in FactorizeSum.lean).
-/
import FfcxProofs.Lemmas.FactorizeSum

namespace Ffcx.IR
open Lean.Grind
set_option linter.unusedVariables false
set_option linter.unusedSimpArgs false

section
variable {R : Type} [Field R] (ρ : Env R)

/-- `buildDict` started on the empty dictionary -/
theorem buildDict_nil_sound {α : Type} (step : Array Node → α → Except FErr (Array Node × Nat))
    (F : Array Node) (g : α → R) (look : Nat → R) (es : List (Key × α)) (F' : Array Node) (d' : Dict)
    (hstep : ∀ e ∈ es, ∀ F1 r, Ext F F1 → Closed F1 → step F1 e.2 = .ok r →
        Grows F1 r ∧ val ρ r.1 r.2 = g e.2)
    (hnd : (es.map (·.1)).Nodup) (hc : Closed F)
    (h : buildDict step F es [] = .ok (F', d')) :
    Ext F F' ∧ Closed F' ∧ DictOK F' d' ∧ d'.keys = es.map (·.1) ∧ d'.keys.Nodup ∧
      factSum ρ F' look d' = lsum (fun e => g e.2 * keyProd look e.1) es := by
  obtain ⟨hx, hc', hd', hkeys, hsum⟩ := buildDict_sound ρ step F g look es F [] F' d' hstep hnd
    (by intro e _; simp [Dict.keys]) (Ext.refl _) hc (by intro e he; simp at he) h
  simp only [Dict.keys, List.map_nil, List.nil_append] at hkeys
  have hkeys' : d'.keys = es.map (·.1) := by unfold Dict.keys; exact hkeys
  refine ⟨hx, hc', hd', hkeys', hkeys' ▸ hnd, ?_⟩
  rw [hsum]
  have : factSum ρ F look [] = 0 := rfl
  rw [this]; grind

theorem keys_sortEntries_perm (d : Dict) : (Dict.keys (sortEntries d)).Perm d.keys :=
  (sortEntries_perm d).map _

theorem factSum_perm (F : Array Node) (look : Nat → R) {d d' : Dict} (h : d.Perm d') :
    factSum ρ F look d = factSum ρ F look d' := lsum_perm _ h

theorem ne_nil_of_perm {α : Type} {l l' : List α} (h : l.Perm l') (hne : l' ≠ []) : l ≠ [] := by
  intro hl; subst hl; exact hne (List.Perm.nil_eq h).symm

/-- `handle_product` -/
theorem handleProduct_sound (hρ : LawfulEnv ρ) (look : Nat → R) (Q : Nat → Prop)
    (F : Array Node) (fac0 fac1 : Dict) (sf0 sf1 : Nat) (F' : Array Node) (d' : Dict)
    (hc : Closed F) (h0 : DictOK F fac0) (h1 : DictOK F fac1)
    (hn0 : fac0.keys.Nodup) (hn1 : fac1.keys.Nodup)
    (hq0 : KeysIn Q fac0) (hq1 : KeysIn Q fac1)
    (hne : fac0 ≠ [] ∨ fac1 ≠ [])
    (hs0 : fac0 = [] → sf0 < F.size) (hs1 : fac1 = [] → sf1 < F.size)
    (hclash : (pairKeys (Dict.keys (sortEntries fac0)) (Dict.keys (sortEntries fac1))).Nodup)
    (h : handleProduct F fac0 fac1 sf0 sf1 = .ok (F', d')) :
    Ext F F' ∧ Closed F' ∧ DictOK F' d' ∧ d'.keys.Nodup ∧ KeysIn Q d' ∧ d' ≠ [] ∧
    factSum ρ F' look d' =
      (if fac0 = [] then val ρ F sf0 else factSum ρ F look fac0) *
      (if fac1 = [] then val ρ F sf1 else factSum ρ F look fac1) := by
  unfold handleProduct at h
  by_cases he0 : fac0 = []
  · -- non-arg * arg
    have hne1 : fac1 ≠ [] := by rcases hne with h | h; exact absurd he0 h; exact h
    subst he0
    simp only [List.isEmpty_nil, if_true] at h
    have hsf := hs0 rfl
    have hstep : ∀ e ∈ sortEntries fac1, ∀ F1 r, Ext F F1 → Closed F1 →
        (fun (F : Array Node) (f1 : Nat) => (Except.ok (mkProd F sf0 f1) : Except FErr _)) F1 e.2 = .ok r →
        Grows F1 r ∧ val ρ r.1 r.2 = val ρ F sf0 * val ρ F e.2 := by
      intro e he F1 r hx1 hc1 hs
      simp only [Except.ok.injEq] at hs
      subst hs
      have hlt : e.2 < F.size := h1 e ((sortEntries_perm fac1).mem_iff.mp he)
      obtain ⟨hg, hv⟩ := mkProd_sound ρ hρ F1 hc1 sf0 e.2
        (Nat.lt_of_lt_of_le hsf hx1.size_le) (Nat.lt_of_lt_of_le hlt hx1.size_le)
      exact ⟨hg, by rw [hv, hx1.val_eq ρ _ hsf, hx1.val_eq ρ _ hlt]⟩
    obtain ⟨hx, hc', hd', hkeys, hnd', hsum⟩ := buildDict_nil_sound ρ _ F
      (fun f1 => val ρ F sf0 * val ρ F f1) look _ F' d' hstep
      ((keys_sortEntries_perm fac1).nodup_iff.mpr hn1) hc h
    have hkp : d'.keys.Perm fac1.keys := hkeys ▸ keys_sortEntries_perm fac1
    refine ⟨hx, hc', hd', hnd', ?_, ?_, ?_⟩
    · intro k hk a ha; exact hq1 k (hkp.mem_iff.mp hk) a ha
    · intro hnil
      have : fac1.keys = [] := by rw [hnil] at hkp; exact (List.Perm.nil_eq hkp).symm
      cases hf : fac1 with
      | nil => exact hne1 hf
      | cons e t => simp [hf, Dict.keys] at this
    · rw [hsum, lsum_perm _ (sortEntries_perm fac1)]
      simp only [if_true, if_neg hne1]
      unfold factSum
      rw [← lsum_mul_left]
      apply lsum_congr; intro e _; grind
  by_cases he1 : fac1 = []
  · -- arg * non-arg
    subst he1
    have hi0 : fac0.isEmpty = false := by cases fac0 <;> simp_all
    simp only [hi0, List.isEmpty_nil, if_true, Bool.false_eq_true, if_false] at h
    have hsf := hs1 rfl
    have hstep : ∀ e ∈ sortEntries fac0, ∀ F1 r, Ext F F1 → Closed F1 →
        (fun (F : Array Node) (f0 : Nat) => (Except.ok (mkProd F sf1 f0) : Except FErr _)) F1 e.2 = .ok r →
        Grows F1 r ∧ val ρ r.1 r.2 = val ρ F sf1 * val ρ F e.2 := by
      intro e he F1 r hx1 hc1 hs
      simp only [Except.ok.injEq] at hs
      subst hs
      have hlt : e.2 < F.size := h0 e ((sortEntries_perm fac0).mem_iff.mp he)
      obtain ⟨hg, hv⟩ := mkProd_sound ρ hρ F1 hc1 sf1 e.2
        (Nat.lt_of_lt_of_le hsf hx1.size_le) (Nat.lt_of_lt_of_le hlt hx1.size_le)
      exact ⟨hg, by rw [hv, hx1.val_eq ρ _ hsf, hx1.val_eq ρ _ hlt]⟩
    obtain ⟨hx, hc', hd', hkeys, hnd', hsum⟩ := buildDict_nil_sound ρ _ F
      (fun f0 => val ρ F sf1 * val ρ F f0) look _ F' d' hstep
      ((keys_sortEntries_perm fac0).nodup_iff.mpr hn0) hc h
    have hkp : d'.keys.Perm fac0.keys := hkeys ▸ keys_sortEntries_perm fac0
    refine ⟨hx, hc', hd', hnd', ?_, ?_, ?_⟩
    · intro k hk a ha; exact hq0 k (hkp.mem_iff.mp hk) a ha
    · intro hnil
      have : fac0.keys = [] := by rw [hnil] at hkp; exact (List.Perm.nil_eq hkp).symm
      cases hf : fac0 with
      | nil => exact he0 hf
      | cons e t => simp [hf, Dict.keys] at this
    · rw [hsum, lsum_perm _ (sortEntries_perm fac0)]
      simp only [if_true, if_neg he0]
      unfold factSum
      rw [← lsum_mul_right]
      apply lsum_congr; intro e _; grind
  · -- arg * arg
    have hi0 : fac0.isEmpty = false := by cases fac0 <;> simp_all
    have hi1 : fac1.isEmpty = false := by cases fac1 <;> simp_all
    simp only [hi0, hi1, Bool.false_eq_true, if_false] at h
    generalize hes : ((sortEntries fac0).flatMap fun e0 => (sortEntries fac1).map fun e1 =>
        (sortNat (e0.1 ++ e1.1), (e0.2, e1.2))) = es at h
    have hmem : ∀ e ∈ es, ∃ e0 ∈ sortEntries fac0, ∃ e1 ∈ sortEntries fac1,
        e = (sortNat (e0.1 ++ e1.1), (e0.2, e1.2)) := by
      intro e he; rw [← hes] at he
      simp only [List.mem_flatMap, List.mem_map] at he
      obtain ⟨e0, h0', e1, h1', rfl⟩ := he
      exact ⟨e0, h0', e1, h1', rfl⟩
    have hstep : ∀ e ∈ es, ∀ F1 r, Ext F F1 → Closed F1 →
        (fun (F : Array Node) (x : Nat × Nat) => (Except.ok (mkProd F x.1 x.2) : Except FErr _)) F1 e.2 = .ok r →
        Grows F1 r ∧ val ρ r.1 r.2 = val ρ F e.2.1 * val ρ F e.2.2 := by
      intro e he F1 r hx1 hc1 hs
      simp only [Except.ok.injEq] at hs
      subst hs
      obtain ⟨e0, hm0, e1, hm1, rfl⟩ := hmem e he
      have hlt0 : e0.2 < F.size := h0 e0 ((sortEntries_perm fac0).mem_iff.mp hm0)
      have hlt1 : e1.2 < F.size := h1 e1 ((sortEntries_perm fac1).mem_iff.mp hm1)
      obtain ⟨hg, hv⟩ := mkProd_sound ρ hρ F1 hc1 e0.2 e1.2
        (Nat.lt_of_lt_of_le hlt0 hx1.size_le) (Nat.lt_of_lt_of_le hlt1 hx1.size_le)
      exact ⟨hg, by rw [hv, hx1.val_eq ρ _ hlt0, hx1.val_eq ρ _ hlt1]⟩
    have hkeysEs : es.map (·.1) = pairKeys (Dict.keys (sortEntries fac0)) (Dict.keys (sortEntries fac1)) := by
      rw [← hes]
      unfold pairKeys Dict.keys
      simp [List.map_flatMap, List.flatMap_map, List.map_map, Function.comp_def]
    obtain ⟨hx, hc', hd', hkeys, hnd', hsum⟩ := buildDict_nil_sound ρ _ F
      (fun (x : Nat × Nat) => val ρ F x.1 * val ρ F x.2) look es F' d' hstep
      (hkeysEs ▸ hclash) hc h
    refine ⟨hx, hc', hd', hnd', ?_, ?_, ?_⟩
    · intro k hk a ha
      rw [hkeys] at hk
      simp only [List.mem_map] at hk
      obtain ⟨e, he, rfl⟩ := hk
      obtain ⟨e0, hm0, e1, hm1, rfl⟩ := hmem e he
      have ha' : a ∈ e0.1 ++ e1.1 := (sortNat_perm _).mem_iff.mp ha
      rcases List.mem_append.mp ha' with ha' | ha'
      · exact hq0 e0.1 (List.mem_map_of_mem ((sortEntries_perm fac0).mem_iff.mp hm0)) a ha'
      · exact hq1 e1.1 (List.mem_map_of_mem ((sortEntries_perm fac1).mem_iff.mp hm1)) a ha'
    · intro hnil
      have hesnil : es = [] := by
        have : es.map (·.1) = [] := by rw [← hkeys, hnil]; rfl
        simpa using this
      have hs0 : sortEntries fac0 ≠ [] := ne_nil_of_perm (sortEntries_perm fac0) he0
      have hs1 : sortEntries fac1 ≠ [] := ne_nil_of_perm (sortEntries_perm fac1) he1
      obtain ⟨e0, t0, ht0⟩ := List.exists_cons_of_ne_nil hs0
      obtain ⟨e1, t1, ht1⟩ := List.exists_cons_of_ne_nil hs1
      rw [← hes, ht0, ht1] at hesnil
      simp at hesnil
    · rw [hsum, ← hes, lsum_flatMap]
      simp only [lsum_map, if_neg he0, if_neg he1]
      have hpt : ∀ e0 ∈ sortEntries fac0, lsum (fun e1 : Key × Nat =>
            val ρ F e0.2 * val ρ F e1.2 * keyProd look (sortNat (e0.1 ++ e1.1))) (sortEntries fac1) =
          lsum (fun e1 : Key × Nat => (val ρ F e0.2 * keyProd look e0.1) * (val ρ F e1.2 * keyProd look e1.1))
            (sortEntries fac1) := by
        intro e0 _
        apply lsum_congr; intro e1 _
        rw [keyProd_perm look (sortNat_perm _), keyProd_append]; grind
      rw [lsum_congr _ _ _ hpt, lsum_mul_lsum]
      unfold factSum
      rw [lsum_perm _ (sortEntries_perm fac0), lsum_perm _ (sortEntries_perm fac1)]

theorem conj_lsum (hρ : LawfulEnv ρ) {β : Type} (f : β → R) (l : List β) :
    ρ.conj (lsum f l) = lsum (fun x => ρ.conj (f x)) l := by
  induction l with
  | nil => simp [hρ.conj_zero]
  | cons x l ih => simp [hρ.conj_add, ih]

theorem conj_keyProd (hρ : LawfulEnv ρ) (look : Nat → R) (k : Key)
    (h : ∀ a ∈ k, ρ.conj (look a) = look a) : ρ.conj (keyProd look k) = keyProd look k := by
  induction k with
  | nil => simp [hρ.conj_one]
  | cons a k ih =>
    simp only [keyProd_cons, hρ.conj_mul]
    rw [h a (by simp), ih (fun b hb => h b (by simp [hb]))]

/-- `handle_conj` -/
theorem handleConj_sound (hρ : LawfulEnv ρ) (look : Nat → R) (Q : Nat → Prop)
    (hQ : ∀ a, Q a → ρ.conj (look a) = look a)
    (F : Array Node) (fac0 : Dict) (F' : Array Node) (d' : Dict)
    (hc : Closed F) (h0 : DictOK F fac0) (hn0 : fac0.keys.Nodup) (hq0 : KeysIn Q fac0)
    (hne : fac0 ≠ [])
    (h : handleConj F fac0 = .ok (F', d')) :
    Ext F F' ∧ Closed F' ∧ DictOK F' d' ∧ d'.keys.Nodup ∧ KeysIn Q d' ∧ d' ≠ [] ∧
    factSum ρ F' look d' = ρ.conj (factSum ρ F look fac0) := by
  unfold handleConj at h
  have hstep : ∀ e ∈ fac0, ∀ F1 r, Ext F F1 → Closed F1 →
      (fun (F : Array Node) (f0 : Nat) => (Except.ok (mkConj F f0) : Except FErr _)) F1 e.2 = .ok r →
      Grows F1 r ∧ val ρ r.1 r.2 = ρ.conj (val ρ F e.2) := by
    intro e he F1 r hx1 hc1 hs
    simp only [Except.ok.injEq] at hs
    subst hs
    have hlt : e.2 < F.size := h0 e he
    obtain ⟨hg, hv⟩ := mkConj_sound ρ hρ F1 hc1 e.2 (Nat.lt_of_lt_of_le hlt hx1.size_le)
    exact ⟨hg, by rw [hv, hx1.val_eq ρ _ hlt]⟩
  obtain ⟨hx, hc', hd', hkeys, hnd', hsum⟩ := buildDict_nil_sound ρ _ F
    (fun f0 => ρ.conj (val ρ F f0)) look fac0 F' d' hstep hn0 hc h
  have hkeys' : d'.keys = fac0.keys := hkeys
  refine ⟨hx, hc', hd', hnd', ?_, ?_, ?_⟩
  · rw [KeysIn, hkeys']; exact hq0
  · intro hnil
    rw [hnil] at hkeys'
    cases hf : fac0 with
    | nil => exact hne hf
    | cons e t => simp [hf, Dict.keys] at hkeys'
  · rw [hsum]
    unfold factSum
    rw [conj_lsum ρ hρ]
    apply lsum_congr
    intro e he
    rw [hρ.conj_mul, conj_keyProd ρ hρ look e.1
      (fun a ha => hQ a (hq0 e.1 (List.mem_map_of_mem he) a ha))]

/-- `handle_division` -/
theorem handleDivision_sound (hρ : LawfulEnv ρ) (look : Nat → R) (Q : Nat → Prop)
    (F : Array Node) (fac0 fac1 : Dict) (sf1 : Nat) (F' : Array Node) (d' : Dict)
    (hc : Closed F) (h0 : DictOK F fac0) (hn0 : fac0.keys.Nodup) (hq0 : KeysIn Q fac0)
    (hne : fac0 ≠ []) (hs1 : sf1 < F.size)
    (h : handleDivision F fac0 fac1 sf1 = .ok (F', d')) :
    fac1 = [] ∧ Ext F F' ∧ Closed F' ∧ DictOK F' d' ∧ d'.keys.Nodup ∧ KeysIn Q d' ∧ d' ≠ [] ∧
    factSum ρ F' look d' = factSum ρ F look fac0 / val ρ F sf1 := by
  unfold handleDivision at h
  split at h
  · cases h
  rename_i hf1
  have hf1' : fac1 = [] := by cases fac1 <;> simp_all
  have hstep : ∀ e ∈ sortEntries fac0, ∀ F1 r, Ext F F1 → Closed F1 →
      (fun (F : Array Node) (f0 : Nat) => mkDiv F f0 sf1) F1 e.2 = .ok r →
      Grows F1 r ∧ val ρ r.1 r.2 = val ρ F e.2 / val ρ F sf1 := by
    intro e he F1 r hx1 hc1 hs
    have hlt : e.2 < F.size := h0 e ((sortEntries_perm fac0).mem_iff.mp he)
    obtain ⟨hg, hv⟩ := mkDiv_sound ρ hρ F1 hc1 e.2 sf1
      (Nat.lt_of_lt_of_le hlt hx1.size_le) (Nat.lt_of_lt_of_le hs1 hx1.size_le) r hs
    exact ⟨hg, by rw [hv, hx1.val_eq ρ _ hlt, hx1.val_eq ρ _ hs1]⟩
  obtain ⟨hx, hc', hd', hkeys, hnd', hsum⟩ := buildDict_nil_sound ρ _ F
    (fun f0 => val ρ F f0 / val ρ F sf1) look _ F' d' hstep
    ((keys_sortEntries_perm fac0).nodup_iff.mpr hn0) hc h
  have hkp : d'.keys.Perm fac0.keys := hkeys ▸ keys_sortEntries_perm fac0
  refine ⟨hf1', hx, hc', hd', hnd', ?_, ?_, ?_⟩
  · intro k hk a ha; exact hq0 k (hkp.mem_iff.mp hk) a ha
  · intro hnil
    have : fac0.keys = [] := by rw [hnil] at hkp; exact (List.Perm.nil_eq hkp).symm
    cases hf : fac0 with
    | nil => exact hne hf
    | cons e t => simp [hf, Dict.keys] at this
  · rw [hsum, lsum_perm _ (sortEntries_perm fac0)]
    unfold factSum
    have : lsum (fun e : Key × Nat => val ρ F e.2 * keyProd look e.1) fac0 / val ρ F sf1 =
        lsum (fun e : Key × Nat => val ρ F e.2 * keyProd look e.1) fac0 * (val ρ F sf1)⁻¹ := by grind
    rw [this, ← lsum_mul_right]
    apply lsum_congr; intro e _; grind

/-- `handle_conditional` -/
theorem handleConditional_sound (hρ : LawfulEnv ρ) (look : Nat → R) (Q : Nat → Prop)
    (F : Array Node) (fac0 fac1 fac2 : Dict) (sf0 : Nat) (z1 z2 : Bool)
    (F' : Array Node) (d' : Dict)
    (hc : Closed F) (h1 : DictOK F fac1) (h2 : DictOK F fac2)
    (hn1 : fac1.keys.Nodup) (hn2 : fac2.keys.Nodup)
    (hq1 : KeysIn Q fac1) (hq2 : KeysIn Q fac2)
    (hs0 : sf0 < F.size)
    (h : handleConditional F fac0 fac1 fac2 sf0 z1 z2 = .ok (F', d')) :
    fac0 = [] ∧ (fac1 = [] → z1 = true) ∧ (fac2 = [] → z2 = true) ∧
    Ext F F' ∧ Closed F' ∧ DictOK F' d' ∧ d'.keys.Nodup ∧ KeysIn Q d' ∧
    (fac1 ≠ [] ∨ fac2 ≠ [] → d' ≠ []) ∧
    factSum ρ F' look d' =
      (if ρ.truth (val ρ F sf0) then factSum ρ F look fac1 else factSum ρ F look fac2) := by
  unfold handleConditional at h
  split at h
  · cases h
  rename_i hf0
  split at h
  · cases h
  rename_i hz1
  split at h
  · cases h
  rename_i hz2
  split at h
  · cases h
  simp only at h
  have hf0' : fac0 = [] := by cases fac0 <;> simp_all
  have hz1' : fac1 = [] → z1 = true := by intro h; subst h; simpa using hz1
  have hz2' : fac2 = [] → z2 = true := by intro h; subst h; simpa using hz2
  generalize hak : sortKeys (dedup (fac1.keys ++ fac2.keys)) = mas at h
  have hnd : mas.Nodup := hak ▸ unionKeys_nodup fac1 fac2
  have hmem : ∀ k, k ∈ mas ↔ k ∈ fac1.keys ∨ k ∈ fac2.keys := fun k => hak ▸ mem_unionKeys fac1 fac2 k
  generalize hen : (mas.map fun k => (k, (fac1.get k, fac2.get k))) = entries at h
  have hmap : entries.map (·.1) = mas := by
    rw [← hen]; simp [List.map_map, Function.comp_def]
  -- an optional factor, with the zero node standing in for `None`
  have hopt : ∀ (o : Option Nat) (F1 : Array Node) (z : Nat), Ext F F1 →
      (∀ f, o = some f → f < F.size) → (o = none → z < F1.size ∧ val ρ F1 z = 0) →
      o.getD z < F1.size ∧ val ρ F1 (o.getD z) = optVal ρ F o := by
    intro o F1 z hx1 hsome hnone
    cases o with
    | none =>
      obtain ⟨hlt, hv⟩ := hnone rfl
      exact ⟨hlt, by simp [optVal]; exact hv⟩
    | some f =>
      have hlt := hsome f rfl
      exact ⟨Nat.lt_of_lt_of_le hlt hx1.size_le, by simp [optVal]; rw [hx1.val_eq ρ _ hlt]⟩
  have hstep : ∀ e ∈ entries, ∀ F1 r, Ext F F1 → Closed F1 →
      (fun (F : Array Node) (x : Option Nat × Option Nat) =>
        (Except.ok (mkCond (if x.1.isNone || x.2.isNone then graphInsert F Node.zero else (F, 0)).1 sf0
          (x.1.getD (if x.1.isNone || x.2.isNone then graphInsert F Node.zero else (F, 0)).2)
          (x.2.getD (if x.1.isNone || x.2.isNone then graphInsert F Node.zero else (F, 0)).2)) :
            Except FErr _)) F1 e.2 = .ok r →
      Grows F1 r ∧ val ρ r.1 r.2 =
        (if ρ.truth (val ρ F sf0) then optVal ρ F e.2.1 else optVal ρ F e.2.2) := by
    intro e he F1 r hx1 hc1 hs
    simp only [Except.ok.injEq] at hs
    subst hs
    have hen' := he
    rw [← hen] at hen'
    simp only [List.mem_map] at hen'
    obtain ⟨k, hk, rfl⟩ := hen'
    simp only
    generalize hFz : (if (fac1.get k).isNone || (fac2.get k).isNone then graphInsert F1 Node.zero
      else (F1, 0)) = Fz
    have hzd : ∀ d ∈ Node.zero.deps, d < F1.size := by simp [Node.zero]
    have hzspec : Ext F1 Fz.1 ∧ Closed Fz.1 ∧
        (((fac1.get k).isNone || (fac2.get k).isNone) = true → Fz.2 < Fz.1.size ∧ val ρ Fz.1 Fz.2 = 0) := by
      rw [← hFz]
      by_cases hn : ((fac1.get k).isNone || (fac2.get k).isNone) = true
      · simp only [hn, if_true]
        obtain ⟨a, b, c, _⟩ := graphInsert_spec F1 Node.zero hc1 hzd
        refine ⟨a, b, fun _ => ⟨c, ?_⟩⟩
        rw [graphInsert_val ρ F1 _ hc1 hzd]; simp [evalNode, Node.zero]
      · have hn' : ((fac1.get k).isNone || (fac2.get k).isNone) = false := Bool.eq_false_iff.mpr hn
        simp only [hn', Bool.false_eq_true, if_false]
        exact ⟨Ext.refl _, hc1, fun h => by cases h⟩
    obtain ⟨hxz, hcz, hzv⟩ := hzspec
    obtain ⟨hlt1, hv1⟩ := hopt (fac1.get k) Fz.1 Fz.2 (hx1.trans hxz)
      (fun f hf => h1 _ (Dict.get_some _ _ _ hf)) (fun hn => hzv (by simp [hn]))
    obtain ⟨hlt2, hv2⟩ := hopt (fac2.get k) Fz.1 Fz.2 (hx1.trans hxz)
      (fun f hf => h2 _ (Dict.get_some _ _ _ hf)) (fun hn => hzv (by simp [hn]))
    have hs0' : sf0 < Fz.1.size := Nat.lt_of_lt_of_le hs0 (hx1.trans hxz).size_le
    obtain ⟨⟨hg1, hg2, hg3⟩, hv⟩ := mkCond_sound ρ Fz.1 hcz sf0 _ _ hs0' hlt1 hlt2
    refine ⟨⟨hxz.trans hg1, hg2, hg3⟩, ?_⟩
    rw [hv, hv1, hv2, (hx1.trans hxz).val_eq ρ _ hs0]
  obtain ⟨hx, hc', hd', hkeys, hnd', hsum⟩ := buildDict_nil_sound ρ _ F
    (fun (x : Option Nat × Option Nat) =>
      if ρ.truth (val ρ F sf0) then optVal ρ F x.1 else optVal ρ F x.2) look entries F' d' hstep
    (hmap ▸ hnd) hc h
  have hkeys' : d'.keys = mas := by rw [hkeys, hmap]
  refine ⟨hf0', hz1', hz2', hx, hc', hd', hnd', ?_, ?_, ?_⟩
  · intro k hk a ha
    rw [hkeys', hmem] at hk
    rcases hk with hk | hk
    · exact hq1 k hk a ha
    · exact hq2 k hk a ha
  · intro hne hd'nil
    have : mas = [] := by rw [← hkeys', hd'nil]; rfl
    rcases hne with hne | hne
    · cases hf : fac1 with
      | nil => exact hne hf
      | cons e t =>
        have : e.1 ∈ mas := (hmem e.1).2 (Or.inl (by simp [hf, Dict.keys]))
        simp_all
    · cases hf : fac2 with
      | nil => exact hne hf
      | cons e t =>
        have : e.1 ∈ mas := (hmem e.1).2 (Or.inr (by simp [hf, Dict.keys]))
        simp_all
  · rw [hsum, ← hen, lsum_map]
    simp only
    by_cases hct : ρ.truth (val ρ F sf0) = true
    · simp only [hct, if_true]
      exact lsum_optVal ρ F look fac1 mas hnd hn1 (fun k hk => (hmem k).2 (Or.inl hk))
    · simp only [hct, if_false]
      exact lsum_optVal ρ F look fac2 mas hnd hn2 (fun k hk => (hmem k).2 (Or.inr hk))

end
end Ffcx.IR
