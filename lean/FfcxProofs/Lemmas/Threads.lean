/- `disjointB` (finite check over the collected names) implies `Disjoint` (all names). -/
import FfcxProofs.Lemmas.Interleave
import FfcxModel.LNodes.Threads

namespace Ffcx.LNodes

mutual
theorem mem_namesE {n : String} : ∀ (e : Expr), mentionsE n e = true → n ∈ namesE e
  | .litF .., h => by simp [mentionsE] at h
  | .litI .., h => by simp [mentionsE] at h
  | .sym m dt, h => by simp [mentionsE] at h; simp [namesE, h]
  | .mi syms z gi, h => by
    simp [mentionsE] at h
    rcases h with h | h
    · simp [namesE, mem_namesEL syms h]
    · simp [namesE, mem_namesE gi h]
  | .neg a, h => by simp [mentionsE] at h; simpa [namesE] using mem_namesE a h
  | .not a, h => by simp [mentionsE] at h; simpa [namesE] using mem_namesE a h
  | .bin op a b, h => by
    simp [mentionsE] at h
    rcases h with h | h
    · simp [namesE, mem_namesE a h]
    · simp [namesE, mem_namesE b h]
  | .sum args, h => by simp [mentionsE] at h; simpa [namesE] using mem_namesEL args h
  | .prod args, h => by simp [mentionsE] at h; simpa [namesE] using mem_namesEL args h
  | .call f dt args, h => by simp [mentionsE] at h; simpa [namesE] using mem_namesEL args h
  | .idx arr dt ix, h => by
    simp [mentionsE] at h
    rcases h with h | h
    · simp [namesE, h]
    · simp [namesE, mem_namesEL ix h]
  | .cond c t f, h => by
    simp [mentionsE] at h
    rcases h with (h | h) | h
    · simp [namesE, mem_namesE c h]
    · simp [namesE, mem_namesE t h]
    · simp [namesE, mem_namesE f h]

theorem mem_namesEL {n : String} : ∀ (es : List Expr), mentionsL n es = true → n ∈ namesEL es
  | [], h => by simp [mentionsL] at h
  | e :: es, h => by
    simp [mentionsL] at h
    rcases h with h | h
    · simp [namesEL, mem_namesE e h]
    · simp [namesEL, mem_namesEL es h]
end

mutual
theorem mem_namesS {n : String} : ∀ (s : Stmt), mentionsS n s = true → n ∈ namesS s
  | .assign l r, h => by
    simp [mentionsS] at h
    rcases h with h | h
    · simp [namesS, mem_namesE l h]
    · simp [namesS, mem_namesE r h]
  | .addAssign l r, h => by
    simp [mentionsS] at h
    rcases h with h | h
    · simp [namesS, mem_namesE l h]
    · simp [namesS, mem_namesE r h]
  | .vdecl m dt v, h => by
    simp [mentionsS] at h
    rcases h with h | h
    · simp [namesS, h]
    · simp [namesS, mem_namesE v h]
  | .adecl m dt sizes c vals, h => by
    simp [mentionsS] at h
    rcases h with h | h
    · simp [namesS, h]
    · simp [namesS, mem_namesEL _ h]
  | .forRange i lo hi body, h => by
    simp [mentionsS] at h
    rcases h with ((h | h) | h) | h
    · simp [namesS, h]
    · simp [namesS, mem_namesE lo h]
    · simp [namesS, mem_namesE hi h]
    · simp [namesS, mem_namesSL body h]
  | .comment _, h => by simp [mentionsS] at h
  | .block ss, h => by simp [mentionsS] at h; simpa [namesS] using mem_namesSL ss h
  | .sect _ decls stmts _ _ _, h => by
    simp [mentionsS] at h
    rcases h with h | h
    · simp [namesS, mem_namesSL decls h]
    · simp [namesS, mem_namesSL stmts h]

theorem mem_namesSL {n : String} : ∀ (ss : List Stmt), mentionsSL n ss = true → n ∈ namesSL ss
  | [], h => by simp [mentionsSL] at h
  | s :: ss, h => by
    simp [mentionsSL] at h
    rcases h with h | h
    · simp [namesSL, mem_namesS s h]
    · simp [namesSL, mem_namesSL ss h]
end

/-- the finite certificate implies disjointness for ALL names -/
theorem disjoint_of_disjointB (p q : List Stmt) (h : disjointB p q = true) : Disjoint p q := by
  simp only [disjointB, Bool.and_eq_true, List.all_eq_true] at h
  exact ⟨fun n hn => h.1 n (mem_namesSL p hn), fun n hn => h.2 n (mem_namesSL q hn)⟩

end Ffcx.LNodes
