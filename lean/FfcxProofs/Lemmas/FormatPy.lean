/-
C16 — numba: a kernel-reducible equality on parse trees with its soundness, and the complete
family of well-typed depth-2 trees (every parent class × every well-typed child representative ×
every operand position) on which the numba round trip is decided in the kernel.
-/
import FfcxModel.LNodes.ParsePy
namespace Ffcx.LNodes.Fmt
open Ffcx.LNodes

mutual
/-- structural equality test on parse trees (kernel-reducible, unlike the derived `BEq`) -/
def PT.eqb : PT → PT → Bool
  | .num a, .num b => a == b
  | .id a, .id b => a == b
  | .call f as, .call g bs => f == g && PT.eqbL as bs
  | .idx a as, .idx b bs => PT.eqb a b && PT.eqbL as bs
  | .un o a, .un p b => decide (o = p) && PT.eqb a b
  | .bin o a1 a2, .bin p b1 b2 => decide (o = p) && PT.eqb a1 b1 && PT.eqb a2 b2
  | .cond a1 a2 a3, .cond b1 b2 b3 => PT.eqb a1 b1 && PT.eqb a2 b2 && PT.eqb a3 b3
  | .chain a as, .chain b bs => PT.eqb a b && PT.eqbC as bs
  | .kw k a, .kw l b => k == l && PT.eqb a b
  | .tuple as, .tuple bs => PT.eqbL as bs
  | .list as, .list bs => PT.eqbL as bs
  | _, _ => false
def PT.eqbL : List PT → List PT → Bool
  | [], [] => true
  | a :: as, b :: bs => PT.eqb a b && PT.eqbL as bs
  | _, _ => false
def PT.eqbC : List (BinOp × PT) → List (BinOp × PT) → Bool
  | [], [] => true
  | (o, a) :: as, (p, b) :: bs => decide (o = p) && PT.eqb a b && PT.eqbC as bs
  | _, _ => false
end

mutual
theorem PT.eqb_sound : ∀ a b : PT, PT.eqb a b = true → a = b
  | .num a, .num b, h => by simp [PT.eqb] at h; rw [h]
  | .id a, .id b, h => by simp [PT.eqb] at h; rw [h]
  | .call f as, .call g bs, h => by
    simp [PT.eqb] at h; rw [h.1, PT.eqbL_sound as bs h.2]
  | .idx a as, .idx b bs, h => by
    simp [PT.eqb] at h; rw [PT.eqb_sound a b h.1, PT.eqbL_sound as bs h.2]
  | .un o a, .un p b, h => by
    simp [PT.eqb] at h; rw [h.1, PT.eqb_sound a b h.2]
  | .bin o a1 a2, .bin p b1 b2, h => by
    simp [PT.eqb] at h; rw [h.1.1, PT.eqb_sound a1 b1 h.1.2, PT.eqb_sound a2 b2 h.2]
  | .cond a1 a2 a3, .cond b1 b2 b3, h => by
    simp [PT.eqb] at h; rw [PT.eqb_sound a1 b1 h.1.1, PT.eqb_sound a2 b2 h.1.2, PT.eqb_sound a3 b3 h.2]
  | .chain a as, .chain b bs, h => by
    simp [PT.eqb] at h; rw [PT.eqb_sound a b h.1, PT.eqbC_sound as bs h.2]
  | .kw k a, .kw l b, h => by
    simp [PT.eqb] at h; rw [h.1, PT.eqb_sound a b h.2]
  | .tuple as, .tuple bs, h => by
    simp [PT.eqb] at h; rw [PT.eqbL_sound as bs h]
  | .list as, .list bs, h => by
    simp [PT.eqb] at h; rw [PT.eqbL_sound as bs h]
  | .num _, .id _, h => by simp [PT.eqb] at h
  | .num _, .call _ _, h => by simp [PT.eqb] at h
  | .num _, .idx _ _, h => by simp [PT.eqb] at h
  | .num _, .un _ _, h => by simp [PT.eqb] at h
  | .num _, .bin _ _ _, h => by simp [PT.eqb] at h
  | .num _, .cond _ _ _, h => by simp [PT.eqb] at h
  | .num _, .chain _ _, h => by simp [PT.eqb] at h
  | .num _, .kw _ _, h => by simp [PT.eqb] at h
  | .num _, .tuple _, h => by simp [PT.eqb] at h
  | .num _, .list _, h => by simp [PT.eqb] at h
  | .id _, .num _, h => by simp [PT.eqb] at h
  | .id _, .call _ _, h => by simp [PT.eqb] at h
  | .id _, .idx _ _, h => by simp [PT.eqb] at h
  | .id _, .un _ _, h => by simp [PT.eqb] at h
  | .id _, .bin _ _ _, h => by simp [PT.eqb] at h
  | .id _, .cond _ _ _, h => by simp [PT.eqb] at h
  | .id _, .chain _ _, h => by simp [PT.eqb] at h
  | .id _, .kw _ _, h => by simp [PT.eqb] at h
  | .id _, .tuple _, h => by simp [PT.eqb] at h
  | .id _, .list _, h => by simp [PT.eqb] at h
  | .call _ _, .num _, h => by simp [PT.eqb] at h
  | .call _ _, .id _, h => by simp [PT.eqb] at h
  | .call _ _, .idx _ _, h => by simp [PT.eqb] at h
  | .call _ _, .un _ _, h => by simp [PT.eqb] at h
  | .call _ _, .bin _ _ _, h => by simp [PT.eqb] at h
  | .call _ _, .cond _ _ _, h => by simp [PT.eqb] at h
  | .call _ _, .chain _ _, h => by simp [PT.eqb] at h
  | .call _ _, .kw _ _, h => by simp [PT.eqb] at h
  | .call _ _, .tuple _, h => by simp [PT.eqb] at h
  | .call _ _, .list _, h => by simp [PT.eqb] at h
  | .idx _ _, .num _, h => by simp [PT.eqb] at h
  | .idx _ _, .id _, h => by simp [PT.eqb] at h
  | .idx _ _, .call _ _, h => by simp [PT.eqb] at h
  | .idx _ _, .un _ _, h => by simp [PT.eqb] at h
  | .idx _ _, .bin _ _ _, h => by simp [PT.eqb] at h
  | .idx _ _, .cond _ _ _, h => by simp [PT.eqb] at h
  | .idx _ _, .chain _ _, h => by simp [PT.eqb] at h
  | .idx _ _, .kw _ _, h => by simp [PT.eqb] at h
  | .idx _ _, .tuple _, h => by simp [PT.eqb] at h
  | .idx _ _, .list _, h => by simp [PT.eqb] at h
  | .un _ _, .num _, h => by simp [PT.eqb] at h
  | .un _ _, .id _, h => by simp [PT.eqb] at h
  | .un _ _, .call _ _, h => by simp [PT.eqb] at h
  | .un _ _, .idx _ _, h => by simp [PT.eqb] at h
  | .un _ _, .bin _ _ _, h => by simp [PT.eqb] at h
  | .un _ _, .cond _ _ _, h => by simp [PT.eqb] at h
  | .un _ _, .chain _ _, h => by simp [PT.eqb] at h
  | .un _ _, .kw _ _, h => by simp [PT.eqb] at h
  | .un _ _, .tuple _, h => by simp [PT.eqb] at h
  | .un _ _, .list _, h => by simp [PT.eqb] at h
  | .bin _ _ _, .num _, h => by simp [PT.eqb] at h
  | .bin _ _ _, .id _, h => by simp [PT.eqb] at h
  | .bin _ _ _, .call _ _, h => by simp [PT.eqb] at h
  | .bin _ _ _, .idx _ _, h => by simp [PT.eqb] at h
  | .bin _ _ _, .un _ _, h => by simp [PT.eqb] at h
  | .bin _ _ _, .cond _ _ _, h => by simp [PT.eqb] at h
  | .bin _ _ _, .chain _ _, h => by simp [PT.eqb] at h
  | .bin _ _ _, .kw _ _, h => by simp [PT.eqb] at h
  | .bin _ _ _, .tuple _, h => by simp [PT.eqb] at h
  | .bin _ _ _, .list _, h => by simp [PT.eqb] at h
  | .cond _ _ _, .num _, h => by simp [PT.eqb] at h
  | .cond _ _ _, .id _, h => by simp [PT.eqb] at h
  | .cond _ _ _, .call _ _, h => by simp [PT.eqb] at h
  | .cond _ _ _, .idx _ _, h => by simp [PT.eqb] at h
  | .cond _ _ _, .un _ _, h => by simp [PT.eqb] at h
  | .cond _ _ _, .bin _ _ _, h => by simp [PT.eqb] at h
  | .cond _ _ _, .chain _ _, h => by simp [PT.eqb] at h
  | .cond _ _ _, .kw _ _, h => by simp [PT.eqb] at h
  | .cond _ _ _, .tuple _, h => by simp [PT.eqb] at h
  | .cond _ _ _, .list _, h => by simp [PT.eqb] at h
  | .chain _ _, .num _, h => by simp [PT.eqb] at h
  | .chain _ _, .id _, h => by simp [PT.eqb] at h
  | .chain _ _, .call _ _, h => by simp [PT.eqb] at h
  | .chain _ _, .idx _ _, h => by simp [PT.eqb] at h
  | .chain _ _, .un _ _, h => by simp [PT.eqb] at h
  | .chain _ _, .bin _ _ _, h => by simp [PT.eqb] at h
  | .chain _ _, .cond _ _ _, h => by simp [PT.eqb] at h
  | .chain _ _, .kw _ _, h => by simp [PT.eqb] at h
  | .chain _ _, .tuple _, h => by simp [PT.eqb] at h
  | .chain _ _, .list _, h => by simp [PT.eqb] at h
  | .kw _ _, .num _, h => by simp [PT.eqb] at h
  | .kw _ _, .id _, h => by simp [PT.eqb] at h
  | .kw _ _, .call _ _, h => by simp [PT.eqb] at h
  | .kw _ _, .idx _ _, h => by simp [PT.eqb] at h
  | .kw _ _, .un _ _, h => by simp [PT.eqb] at h
  | .kw _ _, .bin _ _ _, h => by simp [PT.eqb] at h
  | .kw _ _, .cond _ _ _, h => by simp [PT.eqb] at h
  | .kw _ _, .chain _ _, h => by simp [PT.eqb] at h
  | .kw _ _, .tuple _, h => by simp [PT.eqb] at h
  | .kw _ _, .list _, h => by simp [PT.eqb] at h
  | .tuple _, .num _, h => by simp [PT.eqb] at h
  | .tuple _, .id _, h => by simp [PT.eqb] at h
  | .tuple _, .call _ _, h => by simp [PT.eqb] at h
  | .tuple _, .idx _ _, h => by simp [PT.eqb] at h
  | .tuple _, .un _ _, h => by simp [PT.eqb] at h
  | .tuple _, .bin _ _ _, h => by simp [PT.eqb] at h
  | .tuple _, .cond _ _ _, h => by simp [PT.eqb] at h
  | .tuple _, .chain _ _, h => by simp [PT.eqb] at h
  | .tuple _, .kw _ _, h => by simp [PT.eqb] at h
  | .tuple _, .list _, h => by simp [PT.eqb] at h
  | .list _, .num _, h => by simp [PT.eqb] at h
  | .list _, .id _, h => by simp [PT.eqb] at h
  | .list _, .call _ _, h => by simp [PT.eqb] at h
  | .list _, .idx _ _, h => by simp [PT.eqb] at h
  | .list _, .un _ _, h => by simp [PT.eqb] at h
  | .list _, .bin _ _ _, h => by simp [PT.eqb] at h
  | .list _, .cond _ _ _, h => by simp [PT.eqb] at h
  | .list _, .chain _ _, h => by simp [PT.eqb] at h
  | .list _, .kw _ _, h => by simp [PT.eqb] at h
  | .list _, .tuple _, h => by simp [PT.eqb] at h
theorem PT.eqbL_sound : ∀ as bs : List PT, PT.eqbL as bs = true → as = bs
  | [], [], _ => rfl
  | a :: as, b :: bs, h => by
    simp [PT.eqbL] at h; rw [PT.eqb_sound a b h.1, PT.eqbL_sound as bs h.2]
  | [], _ :: _, h => by simp [PT.eqbL] at h
  | _ :: _, [], h => by simp [PT.eqbL] at h
theorem PT.eqbC_sound : ∀ as bs : List (BinOp × PT), PT.eqbC as bs = true → as = bs
  | [], [], _ => rfl
  | (o, a) :: as, (p, b) :: bs, h => by
    simp [PT.eqbC] at h; rw [h.1.1, PT.eqb_sound a b h.1.2, PT.eqbC_sound as bs h.2]
  | [], _ :: _, h => by simp [PT.eqbC] at h
  | _ :: _, [], h => by simp [PT.eqbC] at h
end
/-! ## all well-typed depth-2 trees over representative children (numba) -/

def sx : Expr := .sym "x" .real
def sy : Expr := .sym "y" .scalar
def sz : Expr := .sym "z" .real
def si : Expr := .sym "i" .int
def sj : Expr := .sym "j" .int
def sb : Expr := .sym "b" .bool
def cnd1 : Expr := .bin .lt sx sz
def cnd2 : Expr := .bin .ge sy sx

/-- arithmetic children: one representative of every arithmetic expression class (and of the
    literal shapes: positive, negative, exponent form, complex, negative int) -/
def arithKids : List Expr := [
  .litF (5 / 2) 0 false, .litF (-2) 0 false, .litF (1 / 100000) 0 false, .litF (-150000000000000000000) 0 false,
  .litF (3 / 2) (-2) true, .litF 0 2 true, .litI 3, .litI (-1), .litI 0, sx, si,
  .neg sx, .bin .add sx sy, .bin .sub sx sy, .bin .mul sx sy, .bin .div sx sy,
  .sum [sx, sy, .litF 3 0 false], .sum [sx], .prod [sx, sy], .prod [sy],
  .call "sqrt" .real [sx], .call "power" .scalar [sy, sx], .call "ln" .real [sx], .call "erf" .real [sx],
  .idx "T" .real [si], .idx "U" .scalar [si, .litI 0], .cond cnd1 sx sy,
  .call "bessel_j" .int [.litI 1, sx], .call "bessel_y" .int [.litI 0, sx],
  .mi [si, sj] [3, 4] (.sum [.bin .mul (.litI 4) si, sj]), .mi [] [] (.litI 0)]

/-- condition children -/
def condKids : List Expr := [
  sb, .not cnd1, .bin .eq sx sy, .bin .ne sx sy, .bin .lt sx sy, .bin .gt sx sy, .bin .le sx sy,
  .bin .ge sx sy, .bin .and cnd1 cnd2, .bin .or cnd1 cnd2]

def arithOps : List BinOp := [.add, .sub, .mul, .div]
def cmpOps : List BinOp := [.eq, .ne, .lt, .gt, .le, .ge]
def logicOps : List BinOp := [.and, .or]

/-- every parent class × every well-typed child × every operand position -/
def depth2WT : List Expr :=
  arithKids.map .neg ++ condKids.map .not
  ++ (arithOps ++ cmpOps).flatMap (fun op => arithKids.flatMap (fun k => [.bin op k sz, .bin op sz k]))
  ++ logicOps.flatMap (fun op => condKids.flatMap (fun k => [.bin op k sb, .bin op sb k]))
  ++ arithKids.flatMap (fun k => [.sum [k, sz, sz], .sum [sz, k, sz], .sum [sz, sz, k],
        .prod [k, sz, sz], .prod [sz, k, sz], .prod [sz, sz, k],
        .call "power" .real [k, sz], .call "power" .real [sz, k],
        .idx "T" .real [k, sj], .idx "T" .real [si, k],
        .cond sb k sz, .cond sb sz k])
  ++ condKids.map (fun k => .cond k sz sz)
  ++ [.idx "T" .real [.mi [si, sj] [3, 4] (.sum [.bin .mul (.litI 4) si, sj]), sj]]
  ++ arithKids ++ condKids


/-- the executable round-trip verdict with the kernel-reducible equality -/
def pyOK (e : Expr) : Bool :=
  WT .f64 e && (match parseExprPy (lexPyExpr (fmtExprPy e)) with
    | some t => PT.eqb t (erasePy e)
    | none => false)

theorem pyOK_sound {e : Expr} (h : pyOK e = true) :
    WT .f64 e = true ∧ parseExprPy (lexPyExpr (fmtExprPy e)) = some (erasePy e) := by
  simp only [pyOK, Bool.and_eq_true] at h
  refine ⟨h.1, ?_⟩
  have h2 := h.2
  split at h2
  · rename_i t ht; rw [ht, PT.eqb_sound _ _ h2]
  · simp at h2

set_option maxRecDepth 100000 in
theorem depth2WT_all_ok : depth2WT.all pyOK = true := by decide +kernel

/-- ill-typed but constructible: every comparison directly under every comparison, both sides
    (Python would chain `a < b == c`; the formatter parenthesises the inner comparison) -/
def cmpNested : List Expr :=
  cmpOps.flatMap (fun op => cmpOps.flatMap (fun op2 =>
    [.bin op (.bin op2 sx sy) sz, .bin op sz (.bin op2 sx sy), .bin op (.bin op2 sx sy) (.bin op sz sx)]))

def pyOKraw (e : Expr) : Bool :=
  match parseExprPy (lexPyExpr (fmtExprPy e)) with
  | some t => PT.eqb t (erasePy e)
  | none => false

theorem pyOKraw_sound {e : Expr} (h : pyOKraw e = true) :
    parseExprPy (lexPyExpr (fmtExprPy e)) = some (erasePy e) := by
  simp only [pyOKraw] at h
  split at h
  · rename_i t ht; rw [ht, PT.eqb_sound _ _ h]
  · simp at h

theorem cmpNested_all_ok : cmpNested.all pyOKraw = true := by decide +kernel

end Ffcx.LNodes.Fmt
