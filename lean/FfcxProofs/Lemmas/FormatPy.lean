/-
C16 — numba: a kernel-reducible equality on parse trees with its soundness (used to evaluate the
round trip on single trees: regression examples and counterexamples), and the family of
comparisons nested directly under comparisons.
-/
import FfcxModel.LNodes.ParsePy
namespace Ffcx.LNodes.Fmt
open Ffcx.LNodes

mutual
/-- structural equality test on parse trees (kernel-reducible, unlike the derived `BEq`) -/
def PT.eqb : PT → PT → Bool
  | .num a, .num b => a == b
  | .id a, .id b => a == b
  | .call f as, .call g bs => f == g && PT.eqbL as bs
  | .idx a as, .idx b bs => PT.eqb a b && PT.eqbL as bs
  | .un o a, .un p b => decide (o = p) && PT.eqb a b
  | .bin o a1 a2, .bin p b1 b2 => decide (o = p) && PT.eqb a1 b1 && PT.eqb a2 b2
  | .cond a1 a2 a3, .cond b1 b2 b3 => PT.eqb a1 b1 && PT.eqb a2 b2 && PT.eqb a3 b3
  | .chain a as, .chain b bs => PT.eqb a b && PT.eqbC as bs
  | .kw k a, .kw l b => k == l && PT.eqb a b
  | .tuple as, .tuple bs => PT.eqbL as bs
  | .list as, .list bs => PT.eqbL as bs
  | _, _ => false
def PT.eqbL : List PT → List PT → Bool
  | [], [] => true
  | a :: as, b :: bs => PT.eqb a b && PT.eqbL as bs
  | _, _ => false
def PT.eqbC : List (BinOp × PT) → List (BinOp × PT) → Bool
  | [], [] => true
  | (o, a) :: as, (p, b) :: bs => decide (o = p) && PT.eqb a b && PT.eqbC as bs
  | _, _ => false
end

mutual
theorem PT.eqb_sound : ∀ a b : PT, PT.eqb a b = true → a = b
  | .num a, .num b, h => by simp [PT.eqb] at h; rw [h]
  | .id a, .id b, h => by simp [PT.eqb] at h; rw [h]
  | .call f as, .call g bs, h => by
    simp [PT.eqb] at h; rw [h.1, PT.eqbL_sound as bs h.2]
  | .idx a as, .idx b bs, h => by
    simp [PT.eqb] at h; rw [PT.eqb_sound a b h.1, PT.eqbL_sound as bs h.2]
  | .un o a, .un p b, h => by
    simp [PT.eqb] at h; rw [h.1, PT.eqb_sound a b h.2]
  | .bin o a1 a2, .bin p b1 b2, h => by
    simp [PT.eqb] at h; rw [h.1.1, PT.eqb_sound a1 b1 h.1.2, PT.eqb_sound a2 b2 h.2]
  | .cond a1 a2 a3, .cond b1 b2 b3, h => by
    simp [PT.eqb] at h; rw [PT.eqb_sound a1 b1 h.1.1, PT.eqb_sound a2 b2 h.1.2, PT.eqb_sound a3 b3 h.2]
  | .chain a as, .chain b bs, h => by
    simp [PT.eqb] at h; rw [PT.eqb_sound a b h.1, PT.eqbC_sound as bs h.2]
  | .kw k a, .kw l b, h => by
    simp [PT.eqb] at h; rw [h.1, PT.eqb_sound a b h.2]
  | .tuple as, .tuple bs, h => by
    simp [PT.eqb] at h; rw [PT.eqbL_sound as bs h]
  | .list as, .list bs, h => by
    simp [PT.eqb] at h; rw [PT.eqbL_sound as bs h]
  | .num _, .id _, h => by simp [PT.eqb] at h
  | .num _, .call _ _, h => by simp [PT.eqb] at h
  | .num _, .idx _ _, h => by simp [PT.eqb] at h
  | .num _, .un _ _, h => by simp [PT.eqb] at h
  | .num _, .bin _ _ _, h => by simp [PT.eqb] at h
  | .num _, .cond _ _ _, h => by simp [PT.eqb] at h
  | .num _, .chain _ _, h => by simp [PT.eqb] at h
  | .num _, .kw _ _, h => by simp [PT.eqb] at h
  | .num _, .tuple _, h => by simp [PT.eqb] at h
  | .num _, .list _, h => by simp [PT.eqb] at h
  | .id _, .num _, h => by simp [PT.eqb] at h
  | .id _, .call _ _, h => by simp [PT.eqb] at h
  | .id _, .idx _ _, h => by simp [PT.eqb] at h
  | .id _, .un _ _, h => by simp [PT.eqb] at h
  | .id _, .bin _ _ _, h => by simp [PT.eqb] at h
  | .id _, .cond _ _ _, h => by simp [PT.eqb] at h
  | .id _, .chain _ _, h => by simp [PT.eqb] at h
  | .id _, .kw _ _, h => by simp [PT.eqb] at h
  | .id _, .tuple _, h => by simp [PT.eqb] at h
  | .id _, .list _, h => by simp [PT.eqb] at h
  | .call _ _, .num _, h => by simp [PT.eqb] at h
  | .call _ _, .id _, h => by simp [PT.eqb] at h
  | .call _ _, .idx _ _, h => by simp [PT.eqb] at h
  | .call _ _, .un _ _, h => by simp [PT.eqb] at h
  | .call _ _, .bin _ _ _, h => by simp [PT.eqb] at h
  | .call _ _, .cond _ _ _, h => by simp [PT.eqb] at h
  | .call _ _, .chain _ _, h => by simp [PT.eqb] at h
  | .call _ _, .kw _ _, h => by simp [PT.eqb] at h
  | .call _ _, .tuple _, h => by simp [PT.eqb] at h
  | .call _ _, .list _, h => by simp [PT.eqb] at h
  | .idx _ _, .num _, h => by simp [PT.eqb] at h
  | .idx _ _, .id _, h => by simp [PT.eqb] at h
  | .idx _ _, .call _ _, h => by simp [PT.eqb] at h
  | .idx _ _, .un _ _, h => by simp [PT.eqb] at h
  | .idx _ _, .bin _ _ _, h => by simp [PT.eqb] at h
  | .idx _ _, .cond _ _ _, h => by simp [PT.eqb] at h
  | .idx _ _, .chain _ _, h => by simp [PT.eqb] at h
  | .idx _ _, .kw _ _, h => by simp [PT.eqb] at h
  | .idx _ _, .tuple _, h => by simp [PT.eqb] at h
  | .idx _ _, .list _, h => by simp [PT.eqb] at h
  | .un _ _, .num _, h => by simp [PT.eqb] at h
  | .un _ _, .id _, h => by simp [PT.eqb] at h
  | .un _ _, .call _ _, h => by simp [PT.eqb] at h
  | .un _ _, .idx _ _, h => by simp [PT.eqb] at h
  | .un _ _, .bin _ _ _, h => by simp [PT.eqb] at h
  | .un _ _, .cond _ _ _, h => by simp [PT.eqb] at h
  | .un _ _, .chain _ _, h => by simp [PT.eqb] at h
  | .un _ _, .kw _ _, h => by simp [PT.eqb] at h
  | .un _ _, .tuple _, h => by simp [PT.eqb] at h
  | .un _ _, .list _, h => by simp [PT.eqb] at h
  | .bin _ _ _, .num _, h => by simp [PT.eqb] at h
  | .bin _ _ _, .id _, h => by simp [PT.eqb] at h
  | .bin _ _ _, .call _ _, h => by simp [PT.eqb] at h
  | .bin _ _ _, .idx _ _, h => by simp [PT.eqb] at h
  | .bin _ _ _, .un _ _, h => by simp [PT.eqb] at h
  | .bin _ _ _, .cond _ _ _, h => by simp [PT.eqb] at h
  | .bin _ _ _, .chain _ _, h => by simp [PT.eqb] at h
  | .bin _ _ _, .kw _ _, h => by simp [PT.eqb] at h
  | .bin _ _ _, .tuple _, h => by simp [PT.eqb] at h
  | .bin _ _ _, .list _, h => by simp [PT.eqb] at h
  | .cond _ _ _, .num _, h => by simp [PT.eqb] at h
  | .cond _ _ _, .id _, h => by simp [PT.eqb] at h
  | .cond _ _ _, .call _ _, h => by simp [PT.eqb] at h
  | .cond _ _ _, .idx _ _, h => by simp [PT.eqb] at h
  | .cond _ _ _, .un _ _, h => by simp [PT.eqb] at h
  | .cond _ _ _, .bin _ _ _, h => by simp [PT.eqb] at h
  | .cond _ _ _, .chain _ _, h => by simp [PT.eqb] at h
  | .cond _ _ _, .kw _ _, h => by simp [PT.eqb] at h
  | .cond _ _ _, .tuple _, h => by simp [PT.eqb] at h
  | .cond _ _ _, .list _, h => by simp [PT.eqb] at h
  | .chain _ _, .num _, h => by simp [PT.eqb] at h
  | .chain _ _, .id _, h => by simp [PT.eqb] at h
  | .chain _ _, .call _ _, h => by simp [PT.eqb] at h
  | .chain _ _, .idx _ _, h => by simp [PT.eqb] at h
  | .chain _ _, .un _ _, h => by simp [PT.eqb] at h
  | .chain _ _, .bin _ _ _, h => by simp [PT.eqb] at h
  | .chain _ _, .cond _ _ _, h => by simp [PT.eqb] at h
  | .chain _ _, .kw _ _, h => by simp [PT.eqb] at h
  | .chain _ _, .tuple _, h => by simp [PT.eqb] at h
  | .chain _ _, .list _, h => by simp [PT.eqb] at h
  | .kw _ _, .num _, h => by simp [PT.eqb] at h
  | .kw _ _, .id _, h => by simp [PT.eqb] at h
  | .kw _ _, .call _ _, h => by simp [PT.eqb] at h
  | .kw _ _, .idx _ _, h => by simp [PT.eqb] at h
  | .kw _ _, .un _ _, h => by simp [PT.eqb] at h
  | .kw _ _, .bin _ _ _, h => by simp [PT.eqb] at h
  | .kw _ _, .cond _ _ _, h => by simp [PT.eqb] at h
  | .kw _ _, .chain _ _, h => by simp [PT.eqb] at h
  | .kw _ _, .tuple _, h => by simp [PT.eqb] at h
  | .kw _ _, .list _, h => by simp [PT.eqb] at h
  | .tuple _, .num _, h => by simp [PT.eqb] at h
  | .tuple _, .id _, h => by simp [PT.eqb] at h
  | .tuple _, .call _ _, h => by simp [PT.eqb] at h
  | .tuple _, .idx _ _, h => by simp [PT.eqb] at h
  | .tuple _, .un _ _, h => by simp [PT.eqb] at h
  | .tuple _, .bin _ _ _, h => by simp [PT.eqb] at h
  | .tuple _, .cond _ _ _, h => by simp [PT.eqb] at h
  | .tuple _, .chain _ _, h => by simp [PT.eqb] at h
  | .tuple _, .kw _ _, h => by simp [PT.eqb] at h
  | .tuple _, .list _, h => by simp [PT.eqb] at h
  | .list _, .num _, h => by simp [PT.eqb] at h
  | .list _, .id _, h => by simp [PT.eqb] at h
  | .list _, .call _ _, h => by simp [PT.eqb] at h
  | .list _, .idx _ _, h => by simp [PT.eqb] at h
  | .list _, .un _ _, h => by simp [PT.eqb] at h
  | .list _, .bin _ _ _, h => by simp [PT.eqb] at h
  | .list _, .cond _ _ _, h => by simp [PT.eqb] at h
  | .list _, .chain _ _, h => by simp [PT.eqb] at h
  | .list _, .kw _ _, h => by simp [PT.eqb] at h
  | .list _, .tuple _, h => by simp [PT.eqb] at h
theorem PT.eqbL_sound : ∀ as bs : List PT, PT.eqbL as bs = true → as = bs
  | [], [], _ => rfl
  | a :: as, b :: bs, h => by
    simp [PT.eqbL] at h; rw [PT.eqb_sound a b h.1, PT.eqbL_sound as bs h.2]
  | [], _ :: _, h => by simp [PT.eqbL] at h
  | _ :: _, [], h => by simp [PT.eqbL] at h
theorem PT.eqbC_sound : ∀ as bs : List (BinOp × PT), PT.eqbC as bs = true → as = bs
  | [], [], _ => rfl
  | (o, a) :: as, (p, b) :: bs, h => by
    simp [PT.eqbC] at h; rw [h.1.1, PT.eqb_sound a b h.1.2, PT.eqbC_sound as bs h.2]
  | [], _ :: _, h => by simp [PT.eqbC] at h
  | _ :: _, [], h => by simp [PT.eqbC] at h
end
/-! ## evaluation of the numba round trip on single trees -/

def sx : Expr := .sym "x" .real
def sy : Expr := .sym "y" .scalar
def sz : Expr := .sym "z" .real

def cmpOps : List BinOp := [.eq, .ne, .lt, .gt, .le, .ge]

/-- ill-typed but constructible: every comparison directly under every comparison, both sides
    (Python would chain `a < b == c`; the formatter parenthesises the inner comparison) -/
def cmpNested : List Expr :=
  cmpOps.flatMap (fun op => cmpOps.flatMap (fun op2 =>
    [.bin op (.bin op2 sx sy) sz, .bin op sz (.bin op2 sx sy), .bin op (.bin op2 sx sy) (.bin op sz sx)]))

/-- the numba text of `e` parses to the tree `t` (kernel-reducible verdict) -/
def pyParsesTo (e : Expr) (t : PT) : Bool :=
  match parseExprPy (lexPyExpr (fmtExprPy e)) with
  | some u => PT.eqb u t
  | none => false

theorem pyParsesTo_sound {e : Expr} {t : PT} (h : pyParsesTo e t = true) :
    parseExprPy (lexPyExpr (fmtExprPy e)) = some t := by
  simp only [pyParsesTo] at h
  split at h
  · rename_i u hu; rw [hu, PT.eqb_sound _ _ h]
  · simp at h

end Ffcx.LNodes.Fmt
