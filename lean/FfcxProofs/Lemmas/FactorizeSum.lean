/-
Soundness of `handle_sum` of the factorisation model: both operands depend on arguments (else
`sumArgFree` is raised), the result dictionary has the union of the keys and
`Σ result = Σ fac0 + Σ fac1`.
-/
import FfcxProofs.Lemmas.FactorizeDict

namespace Ffcx.IR
open Lean.Grind
set_option linter.unusedVariables false
set_option linter.unusedSimpArgs false

section
variable {R : Type} [Field R] (ρ : Env R)

/-- value of an optional factor -/
def optVal (F : Array Node) (o : Option Nat) : R :=
  match o with
  | some f => val ρ F f
  | none => 0

/-- keys of a dictionary only contain elements satisfying `Q` -/
def KeysIn (Q : Nat → Prop) (d : Dict) : Prop := ∀ k ∈ d.keys, ∀ a ∈ k, Q a

theorem unionKeys_nodup (d0 d1 : Dict) : (sortKeys (dedup (d0.keys ++ d1.keys))).Nodup :=
  (sortKeys_perm _).nodup_iff.mpr (nodup_dedup _)

theorem mem_unionKeys (d0 d1 : Dict) (k : Key) :
    k ∈ sortKeys (dedup (d0.keys ++ d1.keys)) ↔ k ∈ d0.keys ∨ k ∈ d1.keys := by
  rw [(sortKeys_perm _).mem_iff, mem_dedup, List.mem_append]

theorem lsum_optVal (F : Array Node) (look : Nat → R) (d : Dict) (ks : List Key)
    (hks : ks.Nodup) (hd : d.keys.Nodup) (hsub : ∀ k ∈ d.keys, k ∈ ks) :
    lsum (fun k => optVal ρ F (d.get k) * keyProd look k) ks = factSum ρ F look d := by
  unfold factSum
  rw [← lsum_lookup d ks hks hd hsub (fun k f => val ρ F f * keyProd look k)]
  apply lsum_congr
  intro k _
  unfold optVal
  cases d.get k <;> simp
  grind

/-- `handle_sum` -/
theorem handleSum_sound (hρ : LawfulEnv ρ) (look : Nat → R) (Q : Nat → Prop)
    (F : Array Node) (fac0 fac1 : Dict) (F' : Array Node) (d' : Dict)
    (hc : Closed F) (h0 : DictOK F fac0) (h1 : DictOK F fac1)
    (hn0 : fac0.keys.Nodup) (hn1 : fac1.keys.Nodup)
    (hq0 : KeysIn Q fac0) (hq1 : KeysIn Q fac1)
    (h : handleSum F fac0 fac1 = .ok (F', d')) :
    fac0 ≠ [] ∧ fac1 ≠ [] ∧
    Ext F F' ∧ Closed F' ∧ DictOK F' d' ∧ d'.keys.Nodup ∧ KeysIn Q d' ∧
    (fac0 ≠ [] ∨ fac1 ≠ [] → d' ≠ []) ∧
    factSum ρ F' look d' = factSum ρ F look fac0 + factSum ρ F look fac1 := by
  unfold handleSum at h
  split at h
  · cases h
  rename_i hboth
  have hne0 : fac0 ≠ [] := by intro h0; subst h0; simp at hboth
  have hne1 : fac1 ≠ [] := by intro h1; subst h1; simp at hboth
  refine ⟨hne0, hne1, ?_⟩
  simp only at h
  generalize hak : sortKeys (dedup (fac0.keys ++ fac1.keys)) = argkeys at h
  have hnd : argkeys.Nodup := hak ▸ unionKeys_nodup fac0 fac1
  have hmem : ∀ k, k ∈ argkeys ↔ k ∈ fac0.keys ∨ k ∈ fac1.keys := fun k => hak ▸ mem_unionKeys fac0 fac1 k
  have hmap : (argkeys.map fun k => (k, (k, fac0.get k, fac1.get k))).map (·.1) = argkeys := by
    simp [List.map_map, Function.comp_def]
  generalize hstepdef : (fun (F : Array Node) (x : Key × Option Nat × Option Nat) =>
      if x.1.length ≠ (argkeys.headD []).length then (Except.error FErr.sumRank : Except FErr (Array Node × Nat))
      else match x.2.1, x.2.2 with
        | none, none => .error (.malformed "sum key")
        | none, some fi1 => .ok (F, fi1)
        | some fi0, none => .ok (F, fi0)
        | some fi0, some fi1 => .ok (mkSum F fi0 fi1)) = step at h
  suffices hstep : ∀ e ∈ (argkeys.map fun k => (k, (k, fac0.get k, fac1.get k))), ∀ F1 r,
      Ext F F1 → Closed F1 → step F1 e.2 = .ok r →
      Grows F1 r ∧ val ρ r.1 r.2 = optVal ρ F e.2.2.1 + optVal ρ F e.2.2.2 by
    obtain ⟨hx, hc', hd', hkeys, hsum⟩ := buildDict_sound ρ step F
      (fun (x : Key × Option Nat × Option Nat) => optVal ρ F x.2.1 + optVal ρ F x.2.2) look
      _ F [] F' d' hstep (by rw [hmap]; exact hnd) (by intro e _; simp [Dict.keys]) (Ext.refl _) hc
      (by intro e he; simp at he) h
    simp only [Dict.keys, List.map_nil, List.nil_append] at hkeys
    have hkeys' : d'.keys = argkeys := by unfold Dict.keys; rw [hkeys, hmap]
    refine ⟨hx, hc', hd', hkeys' ▸ hnd, ?_, ?_, ?_⟩
    · intro k hk a ha
      rw [hkeys', hmem] at hk
      rcases hk with hk | hk
      · exact hq0 k hk a ha
      · exact hq1 k hk a ha
    · intro hne hd'nil
      have : argkeys = [] := by rw [← hkeys', hd'nil]; rfl
      rcases hne with hne | hne
      · cases hf : fac0 with
        | nil => exact hne hf
        | cons e t =>
          have : e.1 ∈ argkeys := (hmem e.1).2 (Or.inl (by simp [hf, Dict.keys]))
          simp_all
      · cases hf : fac1 with
        | nil => exact hne hf
        | cons e t =>
          have : e.1 ∈ argkeys := (hmem e.1).2 (Or.inr (by simp [hf, Dict.keys]))
          simp_all
    · rw [hsum]
      have : factSum ρ F look [] = 0 := rfl
      rw [this, lsum_map]
      simp only
      have hpt : ∀ k ∈ argkeys, (optVal ρ F (fac0.get k) + optVal ρ F (fac1.get k)) * keyProd look k =
          optVal ρ F (fac0.get k) * keyProd look k + optVal ρ F (fac1.get k) * keyProd look k := by
        intro k _; grind
      rw [lsum_congr _ _ argkeys hpt, lsum_add,
        lsum_optVal ρ F look fac0 argkeys hnd hn0 (fun k hk => (hmem k).2 (Or.inl hk)),
        lsum_optVal ρ F look fac1 argkeys hnd hn1 (fun k hk => (hmem k).2 (Or.inr hk))]
      grind
  · -- the step
    intro e he F1 r hx1 hc1 hs
    simp only [List.mem_map] at he
    obtain ⟨k, hk, rfl⟩ := he
    subst hstepdef
    simp only at hs ⊢
    split at hs
    · cases hs
    · split at hs
      · cases hs
      · rename_i fi1 hg0 hg1
        cases hs
        have hlt : fi1 < F.size := h1 _ (Dict.get_some _ _ _ hg1)
        refine ⟨⟨Ext.refl _, hc1, Nat.lt_of_lt_of_le hlt hx1.size_le⟩, ?_⟩
        simp only [hg0, hg1, optVal]
        rw [hx1.val_eq ρ fi1 hlt]; grind
      · rename_i fi0 hg0 hg1
        cases hs
        have hlt : fi0 < F.size := h0 _ (Dict.get_some _ _ _ hg0)
        refine ⟨⟨Ext.refl _, hc1, Nat.lt_of_lt_of_le hlt hx1.size_le⟩, ?_⟩
        simp only [hg0, hg1, optVal]
        rw [hx1.val_eq ρ fi0 hlt]; grind
      · rename_i fi0 fi1 hg0 hg1
        cases hs
        have hlt0 : fi0 < F.size := h0 _ (Dict.get_some _ _ _ hg0)
        have hlt1 : fi1 < F.size := h1 _ (Dict.get_some _ _ _ hg1)
        obtain ⟨hg, hv⟩ := mkSum_sound ρ hρ F1 hc1 fi0 fi1
          (Nat.lt_of_lt_of_le hlt0 hx1.size_le) (Nat.lt_of_lt_of_le hlt1 hx1.size_le)
        refine ⟨hg, ?_⟩
        simp only [hg0, hg1, optVal]
        rw [hv, hx1.val_eq ρ fi0 hlt0, hx1.val_eq ρ fi1 hlt1]

end
end Ffcx.IR
