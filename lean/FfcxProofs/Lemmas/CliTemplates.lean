/-
Helper lemmas for C20 `decl_defined_templates`: the lexical machine of FfcxModel/Cli/Templates.lean
run on an instantiated template agrees with the symbolic run on the template itself
(`symRun_sound`), for every filling that satisfies the obligations the symbolic run collects.
-/
import FfcxModel.Cli.Templates

namespace Ffcx.Cli.Tpl
open Ffcx.Naming

/-! ## Running over a concatenation -/

theorem grun_append {α : Type} (inj : Char → α) : ∀ (a b : Str) (k : Ctl α),
    grun inj (a ++ b) k =
      ((grun inj b (grun inj a k).1).1, (grun inj a k).2 ++ (grun inj b (grun inj a k).1).2)
  | [], b, k => by simp [grun]
  | c :: a, b, k => by
    simp only [List.cons_append, grun]
    rw [grun_append inj a b]
    simp [List.append_assoc]

theorem run_append (a b : Str) (k : Ctl Char) :
    run (a ++ b) k = ((run b (run a k).1).1, (run a k).2 ++ (run b (run a k).1).2) :=
  grun_append id a b k

/-! ## Expansion -/

theorem inst_append (σ : Filling) : ∀ a b : Template, inst σ (a ++ b) = inst σ a ++ inst σ b
  | [], b => rfl
  | .ch c :: a, b => by simp [inst, inst_append σ a b]
  | .hole h :: a, b => by simp [inst, inst_append σ a b]
  | .holeNL h :: a, b => by simp [inst, inst_append σ a b]

theorem expand_snoc_ch (σ : Filling) (l : List Sym) (c : Char) :
    expand σ (l ++ [Sym.ch c]) = expand σ l ++ [c] := by
  simp [expand, inst_append, inst]

theorem expand_snoc_hole (σ : Filling) (l : List Sym) (h : String) :
    expand σ (l ++ [Sym.hole h]) = expand σ l ++ σ h := by
  simp [expand, inst_append, inst]

theorem inst_lits (σ : Filling) : ∀ s : Str, inst σ (lits s) = s
  | [] => rfl
  | c :: s => by
    have := inst_lits σ s
    simp only [lits] at this
    simp [lits, inst, this]

/-- Control states correspond when modes, depths and freshness agree and the head expands. -/
def Ctl.map {α β : Type} (φ : List α → List β) (k : Ctl α) : Ctl β :=
  ⟨k.mode, k.depth, k.fresh, k.head.map φ⟩

/-- One literal character: the machine on symbols and the machine on characters commute with
expansion. -/
theorem gstep_expand (σ : Filling) (k : Ctl Sym) (c : Char) :
    gstep id (k.map (expand σ)) c =
      ((gstep Sym.ch k c).1.map (expand σ), (gstep Sym.ch k c).2.map (expandItem σ)) := by
  obtain ⟨mode, depth, fresh, head⟩ := k
  cases mode <;> cases head <;>
    simp only [gstep, codeStep, plain, Ctl.map, Option.map] <;>
    cases classify c <;>
    simp [expandItem, expand, inst_append, inst, id] <;>
    first
      | rfl
      | (split <;> rename_i hh <;> simp [hh, inst])

/-! ## Identifier characters -/

theorem classify_ident {c : Char} (h : isIdentChar c = true) :
    classify c = .alpha ∨ classify c = .digit := by
  have n1 : c ≠ '/' := by rintro rfl; revert h; decide
  have n2 : c ≠ '*' := by rintro rfl; revert h; decide
  have n3 : c ≠ '"' := by rintro rfl; revert h; decide
  have n4 : c ≠ '\'' := by rintro rfl; revert h; decide
  have n5 : c ≠ '\\' := by rintro rfl; revert h; decide
  have n6 : c ≠ '{' := by rintro rfl; revert h; decide
  have n7 : c ≠ '}' := by rintro rfl; revert h; decide
  have n8 : c ≠ ';' := by rintro rfl; revert h; decide
  have n9 : c ≠ '#' := by rintro rfl; revert h; decide
  have n10 : c ≠ '\n' := by rintro rfl; revert h; decide
  have n11 : c ≠ ' ' := by rintro rfl; revert h; decide
  have n12 : c ≠ '\t' := by rintro rfl; revert h; decide
  have n13 : c ≠ '\r' := by rintro rfl; revert h; decide
  simp only [classify, n1, n2, n3, n4, n5, n6, n7, n8, n9, n10, n11, n12, n13, ↓reduceIte, or_self]
  by_cases hs : isIdentStart c = true
  · simp [hs]
  · have hd : isDigitC c = true := by
      simp only [isIdentChar, Bool.or_eq_true, decide_eq_true_eq] at h
      simp only [isIdentStart, Bool.or_eq_true, decide_eq_true_eq] at hs
      rcases h with (h | h) | h
      · exact absurd (Or.inl h) hs
      · exact h
      · exact absurd (Or.inr h) hs
    simp [hs, hd]

/-- Identifier characters extend the head that is being collected. -/
theorem run_ident_head : ∀ (f : Str) (d : Nat) (fr : Bool) (hd : Str),
    f.all isIdentChar = true →
    run f ⟨.code, d, fr, some hd⟩ = (⟨.code, d, fr, some (hd ++ f)⟩, [])
  | [], d, fr, hd, _ => by simp [run, grun]
  | c :: f, d, fr, hd, h => by
    simp only [List.all_cons, Bool.and_eq_true] at h
    have ih := run_ident_head f d fr (hd ++ [c]) h.2
    simp only [run] at ih
    rcases classify_ident h.1 with hc | hc <;>
      simp [run, grun, gstep, codeStep, hc, ih]

/-- Identifier characters outside the start of an item only clear `fresh`. -/
theorem run_ident_code : ∀ (f : Str) (d : Nat) (fr : Bool),
    f.all isIdentChar = true → ¬ (d = 0 ∧ fr = true) →
    run f ⟨.code, d, fr, none⟩ = (⟨.code, d, if f = [] then fr else false, none⟩, [])
  | [], d, fr, _, _ => by simp [run, grun]
  | c :: f, d, fr, h, hn => by
    simp only [List.all_cons, Bool.and_eq_true] at h
    have ih := run_ident_code f d false h.2 (by simp)
    simp only [run] at ih
    rcases classify_ident h.1 with hc | hc <;>
      simp [run, grun, gstep, codeStep, plain, hc, ih, hn]

/-- Identifier characters inside a `//` comment, a `/* */` comment or a string literal. -/
theorem run_ident_inert : ∀ (f : Str) (k : Ctl Char),
    f.all isIdentChar = true → (k.mode = .line ∨ k.mode = .block ∨ k.mode = .str) →
    run f k = (k, [])
  | [], k, _, _ => by simp [run, grun]
  | c :: f, k, h, hm => by
    simp only [List.all_cons, Bool.and_eq_true] at h
    have ih := run_ident_inert f k h.2 hm
    simp only [run] at ih
    obtain ⟨mode, depth, fresh, head⟩ := k
    simp only at hm
    rcases hm with rfl | rfl | rfl <;>
      rcases classify_ident h.1 with hc | hc <;>
      simp [run, grun, gstep, hc, ih]

theorem ite_ne_strip {α : Type} {p : Prop} [Decidable p] {a b x : α} (ha : a ≠ x)
    (h : (if p then a else b) = x) : b = x := by
  split at h
  · exact absurd h ha
  · exact h

theorem classify_eq_nl {c : Char} (h : classify c = .nl) : c = '\n' := by
  unfold classify at h
  have h := ite_ne_strip (by decide) h
  have h := ite_ne_strip (by decide) h
  have h := ite_ne_strip (by decide) h
  have h := ite_ne_strip (by decide) h
  have h := ite_ne_strip (by decide) h
  have h := ite_ne_strip (by decide) h
  have h := ite_ne_strip (by decide) h
  have h := ite_ne_strip (by decide) h
  have h := ite_ne_strip (by decide) h
  by_cases h0 : c = '\n'
  · exact h0
  · rw [if_neg h0] at h
    have h := ite_ne_strip (by decide) h
    have h := ite_ne_strip (by decide) h
    have h := ite_ne_strip (by decide) h
    exact absurd h (by decide)

/-- Text without newline inside a `//` comment. -/
theorem run_line_inert : ∀ (f : Str) (d : Nat) (fr : Bool) (hd : Option Str),
    f.all (fun c => c != '\n') = true →
    run f ⟨.line, d, fr, hd⟩ = (⟨.line, d, fr, hd⟩, [])
  | [], _, _, _, _ => by simp [run, grun]
  | c :: f, d, fr, hd, h => by
    simp only [List.all_cons, Bool.and_eq_true, bne_iff_ne, ne_eq] at h
    have ih := run_line_inert f d fr hd (by simpa using h.2)
    simp only [run] at ih
    cases hcc : classify c
    case nl => exact absurd (classify_eq_nl hcc) h.1
    all_goals simp [run, grun, gstep, hcc, ih]

/-! ## The symbolic run is sound -/

/-- One hole: if the filling takes the expanded state `k` to the expanded state `k'` and the rest
of the template is handled from `k'`, the whole is handled from `k`. -/
theorem sound_step {σ : Filling} {t : Template} {k k' : Ctl Sym} {its : List (Item Char)}
    {s : SymRes} {f : Str}
    (h1 : run f (k.map (expand σ)) = (k'.map (expand σ), its))
    (ih : ∃ cits, run (inst σ t) (k'.map (expand σ)) = (s.ctl.map (expand σ), cits) ∧
      (∀ it ∈ s.items, expandItem σ it ∈ cits) ∧
      (s.exact = true → cits = s.items.map (expandItem σ))) :
    ∃ cits, run (f ++ inst σ t) (k.map (expand σ)) = (s.ctl.map (expand σ), cits) ∧
      (∀ it ∈ s.items, expandItem σ it ∈ cits) ∧
      (its = [] → s.exact = true → cits = s.items.map (expandItem σ)) := by
  obtain ⟨cits, hr, hmem, hex⟩ := ih
  refine ⟨its ++ cits, ?_, ?_, ?_⟩
  · rw [run_append, h1]; simp [hr]
  · intro it hit; exact List.mem_append_right _ (hmem it hit)
  · intro h0 he; simp [h0, hex he]

theorem symRun_sound (σ : Filling) : ∀ (t : Template) (k : Ctl Sym) (res : SymRes),
    symRun t k = some res → (∀ ob ∈ res.obs, ob.check σ = true) →
    ∃ cits, run (inst σ t) (k.map (expand σ)) = (res.ctl.map (expand σ), cits) ∧
      (∀ it ∈ res.items, expandItem σ it ∈ cits) ∧
      (res.exact = true → cits = res.items.map (expandItem σ))
  | [], k, res, h, _ => by
    simp only [symRun, Option.some.injEq] at h
    subst h
    exact ⟨[], by simp [inst, run, grun], by simp, by simp⟩
  | .ch c :: t, k, res, h, hob => by
    simp only [symRun, Option.map_eq_some_iff] at h
    obtain ⟨s, hs, rfl⟩ := h
    obtain ⟨cits, hrun, hmem, hex⟩ := symRun_sound σ t _ s hs hob
    simp only [run] at hrun
    refine ⟨((gstep Sym.ch k c).2.map (expandItem σ)).toList ++ cits, ?_, ?_, ?_⟩
    · simp only [inst, run, grun, gstep_expand, hrun]
    · intro it hit
      simp only [List.mem_append] at hit ⊢
      rcases hit with hit | hit
      · left
        cases hg : (gstep Sym.ch k c).2 <;> simp_all
      · exact Or.inr (hmem it hit)
    · intro he
      simp only [hex he, List.map_append]
      cases (gstep Sym.ch k c).2 <;> simp
  | .hole h :: t, k, res, hrun, hob => by
    obtain ⟨mode, depth, fresh, head⟩ := k
    simp only [symRun] at hrun
    simp only [inst]
    cases hc : holeClass h <;> simp only [hc] at hrun
    · -- identifier
      cases mode <;> cases head <;> simp only [] at hrun
      all_goals try contradiction
      case code.none =>
        split at hrun
        · exact absurd hrun (by simp)
        · rename_i hn
          simp only [Option.map_eq_some_iff] at hrun
          obtain ⟨s, hs, rfl⟩ := hrun
          have ho := hob (.ident h) (by simp)
          simp only [Ob.check, Bool.and_eq_true, bne_iff_ne, ne_eq] at ho
          have ih := symRun_sound σ t _ s hs (fun ob hm => hob ob (by simp [hm]))
          obtain ⟨cits, h1, h2, h3⟩ := sound_step (k := ⟨.code, depth, fresh, none⟩) (f := σ h) (its := [])
            (by simp [Ctl.map, run_ident_code _ _ _ ho.2 hn, ho.1]) ih
          exact ⟨cits, h1, h2, h3 rfl⟩
      case code.some hd =>
        simp only [Option.map_eq_some_iff] at hrun
        obtain ⟨s, hs, rfl⟩ := hrun
        have ho := hob (.ident h) (by simp)
        simp only [Ob.check, Bool.and_eq_true] at ho
        have ih := symRun_sound σ t _ s hs (fun ob hm => hob ob (by simp [hm]))
        obtain ⟨cits, h1, h2, h3⟩ := sound_step (k := ⟨.code, depth, fresh, some hd⟩) (f := σ h) (its := [])
          (by simp [Ctl.map, run_ident_head _ _ _ _ ho.2, expand_snoc_hole]) ih
        exact ⟨cits, h1, h2, h3 rfl⟩
      all_goals
        simp only [Option.map_eq_some_iff] at hrun
        obtain ⟨s, hs, rfl⟩ := hrun
        have ho := hob (.ident h) (by simp)
        simp only [Ob.check, Bool.and_eq_true] at ho
        have ih := symRun_sound σ t _ s hs (fun ob hm => hob ob (by simp [hm]))
        obtain ⟨cits, h1, h2, h3⟩ := sound_step (f := σ h) (its := [])
          (run_ident_inert _ _ ho.2 (by simp [Ctl.map])) ih
        exact ⟨cits, h1, h2, h3 rfl⟩
    · exact absurd hrun (by simp)
    · -- free
      cases mode <;> cases head <;> simp only [] at hrun
      all_goals try contradiction
      case code.none =>
        simp only [Option.map_eq_some_iff] at hrun
        obtain ⟨s, hs, rfl⟩ := hrun
        have ho := hob (.neutral h depth fresh) (by simp)
        simp only [Ob.check, beq_iff_eq] at ho
        have ih := symRun_sound σ t _ s hs (fun ob hm => hob ob (by simp [hm]))
        obtain ⟨cits, h1, h2, _⟩ := sound_step (k := ⟨.code, depth, fresh, none⟩) (f := σ h)
          (its := (run (σ h) ⟨.code, depth, fresh, none⟩).2)
          (by simp only [Ctl.map, Option.map]; exact Prod.ext ho rfl) ih
        exact ⟨cits, h1, h2, by simp⟩
      case line.none =>
        simp only [Option.map_eq_some_iff] at hrun
        obtain ⟨s, hs, rfl⟩ := hrun
        have ho := hob (.noNewline h) (by simp)
        simp only [Ob.check] at ho
        have ih := symRun_sound σ t _ s hs (fun ob hm => hob ob (by simp [hm]))
        obtain ⟨cits, h1, h2, h3⟩ := sound_step (k := ⟨.line, depth, fresh, none⟩) (f := σ h) (its := [])
          (by simp only [Ctl.map]; exact run_line_inert _ _ _ _ ho) ih
        exact ⟨cits, h1, h2, h3 rfl⟩
      case line.some hd =>
        simp only [Option.map_eq_some_iff] at hrun
        obtain ⟨s, hs, rfl⟩ := hrun
        have ho := hob (.noNewline h) (by simp)
        simp only [Ob.check] at ho
        have ih := symRun_sound σ t _ s hs (fun ob hm => hob ob (by simp [hm]))
        obtain ⟨cits, h1, h2, h3⟩ := sound_step (k := ⟨.line, depth, fresh, some hd⟩) (f := σ h) (its := [])
          (by simp only [Ctl.map]; exact run_line_inert _ _ _ _ ho) ih
        exact ⟨cits, h1, h2, h3 rfl⟩
  | .holeNL h :: t, k, res, hrun, hob => by
    obtain ⟨mode, depth, fresh, head⟩ := k
    simp only [symRun] at hrun
    have hi : inst σ (Sym.holeNL h :: t) = (σ h ++ ['\n']) ++ inst σ t := by simp [inst]
    rw [hi]
    cases hc : holeClass h <;> cases mode <;> cases head <;> simp only [hc] at hrun
    all_goals try contradiction
    simp only [Option.map_eq_some_iff] at hrun
    obtain ⟨s, hs, rfl⟩ := hrun
    have ho := hob (.lines h depth fresh) (by simp)
    simp only [Ob.check, beq_iff_eq] at ho
    have ih := symRun_sound σ t _ s hs (fun ob hm => hob ob (by simp [hm]))
    obtain ⟨cits, h1, h2, h3⟩ := sound_step (k := ⟨.code, depth, fresh, none⟩) (f := σ h ++ ['\n']) (its := [])
      (by simpa [Ctl.map] using ho) ih
    exact ⟨cits, h1, h2, h3 rfl⟩

end Ffcx.Cli.Tpl
