/-
Helper lemmas for C13 / C20: list-of-characters facts about separators, fixed-width
concatenation, prefix codes, Python `repr` printers, insertion sort and dict updates.
-/
import FfcxModel.Jit.Naming
import FfcxModel.Cli.Options

namespace Ffcx.Naming

/-! ## Separators -/

/-- Splitting at the first separator is unique. -/
theorem split_sep {sep : Char} : ∀ {x y r s : Str}, sep ∉ x → sep ∉ y →
    x ++ sep :: r = y ++ sep :: s → x = y ∧ r = s
  | [], [], _, _, _, _, h => by simp_all
  | [], b :: y, _, _, _, hy, h => by
    simp only [List.nil_append, List.cons_append, List.cons.injEq] at h
    exact absurd (by rw [h.1]; exact List.mem_cons_self) hy
  | a :: x, [], _, _, hx, _, h => by
    simp only [List.nil_append, List.cons_append, List.cons.injEq] at h
    exact absurd (by rw [← h.1]; exact List.mem_cons_self) hx
  | a :: x, b :: y, r, s, hx, hy, h => by
    simp only [List.cons_append, List.cons.injEq] at h
    have hx' : sep ∉ x := fun m => hx (List.mem_cons_of_mem _ m)
    have hy' : sep ∉ y := fun m => hy (List.mem_cons_of_mem _ m)
    obtain ⟨h1, h2⟩ := split_sep hx' hy' h.2
    exact ⟨by rw [h.1, h1], h2⟩

theorem joinWith_cons_cons (sep a b : Str) (rest : List Str) :
    joinWith sep (a :: b :: rest) = a ++ sep ++ joinWith sep (b :: rest) := rfl

theorem joinWith_snoc_cons (sep a : Str) (xs : List Str) (z : Str) :
    joinWith sep (a :: (xs ++ [z])) = a ++ sep ++ joinWith sep (xs ++ [z]) := by
  cases xs <;> rfl

/-- The `sep`-join is injective when all fields but the last contain no `sep`
(same number of fields on both sides). -/
theorem joinWith_inj {sep : Char} : ∀ {xs ys : List Str} {a b : Str},
    xs.length = ys.length → (∀ x ∈ xs, sep ∉ x) → (∀ y ∈ ys, sep ∉ y) →
    joinWith [sep] (xs ++ [a]) = joinWith [sep] (ys ++ [b]) → xs = ys ∧ a = b
  | [], [], a, b, _, _, _, h => by simpa [joinWith] using h
  | [], _ :: _, _, _, hl, _, _, _ => by simp at hl
  | _ :: _, [], _, _, hl, _, _, _ => by simp at hl
  | x :: xs, y :: ys, a, b, hl, hx, hy, h => by
    rw [List.cons_append, List.cons_append, joinWith_snoc_cons, joinWith_snoc_cons] at h
    simp only [List.append_assoc, List.singleton_append] at h
    obtain ⟨h1, h2⟩ := split_sep (hx x List.mem_cons_self) (hy y List.mem_cons_self) h
    have hl' : xs.length = ys.length := by simpa using hl
    obtain ⟨h3, h4⟩ := joinWith_inj hl' (fun z hz => hx z (List.mem_cons_of_mem _ hz))
      (fun z hz => hy z (List.mem_cons_of_mem _ hz)) h2
    exact ⟨by rw [h1, h3], h4⟩

/-! ## Fixed-width concatenation -/

/-- Concatenation of blocks of one fixed positive width is injective. -/
theorem flatten_fixed_inj {n : Nat} (hn : 0 < n) : ∀ {xs ys : List Str},
    (∀ x ∈ xs, x.length = n) → (∀ y ∈ ys, y.length = n) → xs.flatten = ys.flatten → xs = ys
  | [], [], _, _, _ => rfl
  | [], y :: ys, _, hy, h => by
    have := hy y List.mem_cons_self
    have h' := congrArg List.length h
    rw [List.flatten_cons, List.length_append] at h'
    simp only [List.flatten_nil, List.length_nil] at h'
    omega
  | x :: xs, [], hx, _, h => by
    have := hx x List.mem_cons_self
    have h' := congrArg List.length h
    rw [List.flatten_cons, List.length_append] at h'
    simp only [List.flatten_nil, List.length_nil] at h'
    omega
  | x :: xs, y :: ys, hx, hy, h => by
    simp only [List.flatten_cons] at h
    have hlen : x.length = y.length := by
      rw [hx x List.mem_cons_self, hy y List.mem_cons_self]
    obtain ⟨h1, h2⟩ := List.append_inj h hlen
    have := flatten_fixed_inj hn (fun z hz => hx z (List.mem_cons_of_mem _ hz))
      (fun z hz => hy z (List.mem_cons_of_mem _ hz)) h2
    rw [h1, this]

/-- A printer is a *prefix code* if what it printed can be read back from the front of a text,
whatever follows. -/
def PrefixCode {α : Type} (f : α → Str) : Prop :=
  ∀ a b r s, f a ++ r = f b ++ s → a = b

theorem PrefixCode.rest {α : Type} {f : α → Str} (h : PrefixCode f) {a b r s}
    (e : f a ++ r = f b ++ s) : a = b ∧ r = s := by
  have := h a b r s e
  subst this
  exact ⟨rfl, List.append_cancel_left e⟩

theorem PrefixCode.injective {α : Type} {f : α → Str} (h : PrefixCode f) {a b} (e : f a = f b) :
    a = b := h a b [] [] (by simpa using e)

/-- Prefix code on the arguments satisfying `S`. -/
def PrefixCodeOn {α : Type} (S : α → Prop) (f : α → Str) : Prop :=
  ∀ a b r s, S a → S b → f a ++ r = f b ++ s → a = b

theorem PrefixCodeOn.rest {α : Type} {S : α → Prop} {f : α → Str} (h : PrefixCodeOn S f) {a b r s}
    (ha : S a) (hb : S b) (e : f a ++ r = f b ++ s) : a = b ∧ r = s := by
  have := h a b r s ha hb e
  subst this
  exact ⟨rfl, List.append_cancel_left e⟩

theorem PrefixCode.on {α : Type} {f : α → Str} (h : PrefixCode f) (S : α → Prop) : PrefixCodeOn S f :=
  fun a b r s _ _ e => h a b r s e

/-- Fixed-width signature followed by a prefix-coded payload, concatenated: injective. -/
theorem flatten_sig_payload_inj {P : Type} {S : P → Prop} {reprP : P → Str}
    (hp : PrefixCodeOn S reprP) {n : Nat} (hn : 0 < n) : ∀ {es fs : List (Str × P)},
    (∀ e ∈ es, e.1.length = n) → (∀ e ∈ fs, e.1.length = n) →
    (∀ e ∈ es, S e.2) → (∀ e ∈ fs, S e.2) →
    (es.map (fun e => e.1 ++ reprP e.2)).flatten = (fs.map (fun e => e.1 ++ reprP e.2)).flatten →
    es = fs
  | [], [], _, _, _, _, _ => rfl
  | [], f :: fs, _, hf, _, _, h => by
    have := hf f List.mem_cons_self
    have h' := congrArg List.length h
    rw [List.map_cons, List.flatten_cons, List.length_append, List.length_append] at h'
    simp only [List.map_nil, List.flatten_nil, List.length_nil] at h'
    omega
  | e :: es, [], he, _, _, _, h => by
    have := he e List.mem_cons_self
    have h' := congrArg List.length h
    rw [List.map_cons, List.flatten_cons, List.length_append, List.length_append] at h'
    simp only [List.map_nil, List.flatten_nil, List.length_nil] at h'
    omega
  | e :: es, f :: fs, he, hf, se, sf, h => by
    simp only [List.map_cons, List.flatten_cons, List.append_assoc] at h
    have hlen : e.1.length = f.1.length := by
      rw [he e List.mem_cons_self, hf f List.mem_cons_self]
    obtain ⟨h1, h2⟩ := List.append_inj h hlen
    obtain ⟨h3, h4⟩ := hp.rest (se e List.mem_cons_self) (sf f List.mem_cons_self) h2
    have := flatten_sig_payload_inj hp hn (fun z hz => he z (List.mem_cons_of_mem _ hz))
      (fun z hz => hf z (List.mem_cons_of_mem _ hz)) (fun z hz => se z (List.mem_cons_of_mem _ hz))
      (fun z hz => sf z (List.mem_cons_of_mem _ hz)) h4
    rw [this]
    congr 1
    exact Prod.ext h1 h3

/-! ## Decimal digits -/

theorem isDigitC_of_isDigit {c : Char} (h : c.isDigit = true) : isDigitC c = true := by
  simp only [Char.isDigit, Bool.and_eq_true, decide_eq_true_eq] at h
  simp only [isDigitC, Bool.and_eq_true, decide_eq_true_eq, Char.toNat]
  have h1 := UInt32.le_iff_toNat_le.mp h.1
  have h2 := UInt32.le_iff_toNat_le.mp h.2
  simp at h1 h2
  exact ⟨h1, h2⟩

theorem natDigits_isDigit {n : Nat} {c : Char} (h : c ∈ natDigits n) : isDigitC c = true :=
  isDigitC_of_isDigit (Nat.isDigit_of_mem_toDigits (by decide) (by decide) h)

theorem natDigits_inj {m n : Nat} (h : natDigits m = natDigits n) : m = n := by
  have := congrArg (fun l => Nat.ofDigitChars 10 l 0) h
  simpa [natDigits, Nat.ofDigitChars_ten_toDigits] using this

theorem natDigits_ne_nil (n : Nat) : natDigits n ≠ [] := Nat.toDigits_ne_nil

/-! ## `repr(str)` is a prefix code -/

def unhex (c : Char) : Nat := if c.toNat < 58 then c.toNat - 48 else c.toNat - 87

/-- Reads one (possibly escaped) character of a `repr(str)` body back. -/
def unesc : Str → Option (Char × Str)
  | [] => none
  | c :: r =>
    if c ≠ '\\' then some (c, r) else
    match r with
    | [] => none
    | e :: r' =>
      if e = 'n' then some ('\n', r') else if e = 'r' then some ('\r', r')
      else if e = 't' then some ('\t', r')
      else if e = 'x' then
        match r' with
        | h1 :: h2 :: r'' => some (Char.ofNat (unhex h1 * 16 + unhex h2), r'')
        | _ => none
      else some (e, r')

def IsQuote (q : Char) : Prop := q = '\'' ∨ q = '"'

theorem unhex_hexDigit : ∀ k : Fin 16, unhex (hexDigit k.val) = k.val := by decide

theorem unesc_escChar {q : Char} (hq : IsQuote q) (c : Char) (r : Str) :
    unesc (escChar q c ++ r) = some (c, r) := by
  unfold escChar
  split
  · subst_vars; simp [unesc]
  split
  · rename_i h1 h2
    subst h2
    rcases hq with rfl | rfl <;> simp [unesc]
  split
  · subst_vars; simp [unesc]
  split
  · subst_vars; simp [unesc]
  split
  · subst_vars; simp [unesc]
  split
  · rename_i h1 h2 h3 h4 h5 h6
    have hlt : c.toNat < 128 := by omega
    have hd : c.toNat / 16 < 16 := by omega
    have hm : c.toNat % 16 < 16 := by omega
    have e1 := unhex_hexDigit ⟨c.toNat / 16, hd⟩
    have e2 := unhex_hexDigit ⟨c.toNat % 16, hm⟩
    simp only at e1 e2
    simp only [List.cons_append, List.nil_append, unesc, ne_eq, not_true_eq_false, ↓reduceIte,
      Char.reduceEq, e1, e2, Nat.div_add_mod', Char.ofNat_toNat]
  · rename_i h1 h2 h3 h4 h5 h6
    simp [unesc, h1]


theorem isQuote_ne_backslash {q : Char} (hq : IsQuote q) : q ≠ '\\' := by
  rcases hq with rfl | rfl <;> decide

theorem unesc_quote {q : Char} (hq : IsQuote q) (r : Str) : unesc (q :: r) = some (q, r) := by
  simp [unesc, isQuote_ne_backslash hq]

/-- An escaped character never starts with the (unescaped) closing quote. -/
theorem escChar_head_ne {q : Char} (hq : IsQuote q) (c : Char) (r t : Str) :
    escChar q c ++ r ≠ q :: t := by
  intro h
  have h1 := unesc_escChar hq c r
  rw [h, unesc_quote hq] at h1
  simp only [Option.some.injEq, Prod.mk.injEq] at h1
  obtain ⟨rfl, rfl⟩ := h1
  -- c = q: escChar q q = ['\\', q]
  have hb := isQuote_ne_backslash hq
  simp [escChar, hb] at h

theorem flatMap_esc_inj {q : Char} (hq : IsQuote q) : ∀ (a b : Str) (r s : Str),
    a.flatMap (escChar q) ++ q :: r = b.flatMap (escChar q) ++ q :: s → a = b ∧ r = s
  | [], [], r, s, h => by simpa using h
  | [], d :: b, r, s, h => by
    simp only [List.flatMap_nil, List.nil_append, List.flatMap_cons, List.append_assoc] at h
    exact absurd h.symm (escChar_head_ne hq d _ _)
  | c :: a, [], r, s, h => by
    simp only [List.flatMap_nil, List.nil_append, List.flatMap_cons, List.append_assoc] at h
    exact absurd h (escChar_head_ne hq c _ _)
  | c :: a, d :: b, r, s, h => by
    simp only [List.flatMap_cons, List.append_assoc] at h
    have h1 := unesc_escChar hq c (a.flatMap (escChar q) ++ q :: r)
    rw [h, unesc_escChar hq d] at h1
    simp only [Option.some.injEq, Prod.mk.injEq] at h1
    obtain ⟨h2, h3⟩ := flatMap_esc_inj hq a b r s h1.2.symm
    exact ⟨by rw [h1.1, h2], h3⟩

theorem quoteOf_isQuote (s : Str) : IsQuote (quoteOf s) := by
  unfold quoteOf IsQuote
  split <;> simp

/-- `repr(str)` can be read back from the front of any text. -/
theorem reprStr_prefix : PrefixCode reprStr := by
  intro a b r s h
  unfold reprStr at h
  simp only [List.cons_append, List.append_assoc, List.cons.injEq] at h
  obtain ⟨hq, h⟩ := h
  rw [← hq] at h
  exact (flatMap_esc_inj (quoteOf_isQuote a) a b r s h).1

/-! ## Tokens: maximal runs of body characters -/

theorem token_inj {body : Char → Prop} : ∀ {u v r s : Str}, (∀ c ∈ u, body c) → (∀ c ∈ v, body c) →
    (∀ c t, r = c :: t → ¬ body c) → (∀ c t, s = c :: t → ¬ body c) →
    u ++ r = v ++ s → u = v ∧ r = s
  | [], [], _, _, _, _, _, _, h => ⟨rfl, by simpa using h⟩
  | [], d :: v, r, s, _, hv, hr, _, h => by
    simp only [List.nil_append, List.cons_append] at h
    exact absurd (hv d List.mem_cons_self) (hr d _ h)
  | c :: u, [], r, s, hu, _, _, hs, h => by
    simp only [List.nil_append, List.cons_append] at h
    exact absurd (hu c List.mem_cons_self) (hs c _ h.symm)
  | c :: u, d :: v, r, s, hu, hv, hr, hs, h => by
    simp only [List.cons_append, List.cons.injEq] at h
    obtain ⟨h1, h2⟩ := token_inj (fun x hx => hu x (List.mem_cons_of_mem _ hx))
      (fun x hx => hv x (List.mem_cons_of_mem _ hx)) hr hs h.2
    exact ⟨by rw [h.1, h1], h2⟩

/-- Characters that can follow a printed component inside a tuple / list. -/
def IsStop (c : Char) : Prop := c = ',' ∨ c = ')' ∨ c = ']'

/-- `r` is non-empty and starts with a stop character. -/
def StopHead (r : Str) : Prop := ∃ c t, r = c :: t ∧ IsStop c

/-- A printer whose output (on arguments satisfying `S`) can be read back when followed by a stop
character. -/
def DelimOn {α : Type} (S : α → Prop) (f : α → Str) : Prop :=
  ∀ a b r s, S a → S b → StopHead r → StopHead s → f a ++ r = f b ++ s → a = b ∧ r = s

theorem PrefixCode.delimOn {α : Type} {f : α → Str} (h : PrefixCode f) (S : α → Prop) : DelimOn S f :=
  fun _ _ _ _ _ _ _ _ e => h.rest e

/-- `f a` is non-empty and does not start with `c`. -/
def HeadNe {α : Type} (f : α → Str) (c : Char) : Prop := ∀ a r t, f a ++ r ≠ c :: t

def joinTail (sep : Str) : List Str → Str
  | [] => []
  | b :: rest => sep ++ joinWith sep (b :: rest)

theorem joinWith_cons (sep a : Str) (rest : List Str) :
    joinWith sep (a :: rest) = a ++ joinTail sep rest := by
  cases rest <;> simp [joinWith, joinTail]

/-- `", ".join(map f xs)` followed by a closing bracket is injective for delimited printers. -/
theorem joined_inj {α : Type} {S : α → Prop} {f : α → Str} (hf : DelimOn S f) {cl : Char}
    (hcl : cl = ')' ∨ cl = ']') (hne : HeadNe f cl) : ∀ (xs ys : List α) (r s : Str),
    (∀ x ∈ xs, S x) → (∀ y ∈ ys, S y) →
    joinWith (cs! ", ") (xs.map f) ++ cl :: r = joinWith (cs! ", ") (ys.map f) ++ cl :: s →
    xs = ys ∧ r = s
  | [], [], r, s, _, _, h => by simpa [joinWith] using h
  | [], y :: ys, r, s, _, _, h => by
    rw [List.map_cons, joinWith_cons] at h
    simp only [List.map_nil, joinWith, List.nil_append, List.append_assoc] at h
    exact absurd h.symm (hne y _ _)
  | x :: xs, [], r, s, _, _, h => by
    rw [List.map_cons, joinWith_cons] at h
    simp only [List.map_nil, joinWith, List.nil_append, List.append_assoc] at h
    exact absurd h (hne x _ _)
  | x :: xs, y :: ys, r, s, hx, hy, h => by
    rw [List.map_cons, List.map_cons, joinWith_cons, joinWith_cons] at h
    simp only [List.append_assoc] at h
    have stop : ∀ (zs : List α) (t : Str), StopHead (joinTail (cs! ", ") (zs.map f) ++ cl :: t) := by
      intro zs t
      cases zs with
      | nil => exact ⟨cl, t, rfl, by rcases hcl with rfl | rfl <;> simp [IsStop]⟩
      | cons z zs => exact ⟨',', _, rfl, Or.inl rfl⟩
    obtain ⟨h1, h2⟩ := hf x y _ _ (hx x List.mem_cons_self) (hy y List.mem_cons_self)
      (stop xs r) (stop ys s) h
    subst h1
    have hx' : ∀ z ∈ xs, S z := fun z hz => hx z (List.mem_cons_of_mem _ hz)
    have hy' : ∀ z ∈ ys, S z := fun z hz => hy z (List.mem_cons_of_mem _ hz)
    cases xs with
    | nil =>
      cases ys with
      | nil => simpa [joinTail] using h2
      | cons y' ys =>
        simp only [List.map_nil, joinTail, List.nil_append, List.map_cons, List.cons_append,
          List.cons.injEq] at h2
        rcases hcl with rfl | rfl <;> simp at h2
    | cons x' xs =>
      cases ys with
      | nil =>
        simp only [List.map_nil, joinTail, List.nil_append, List.map_cons, List.cons_append,
          List.cons.injEq] at h2
        rcases hcl with rfl | rfl <;> simp at h2
      | cons y' ys =>
        simp only [List.map_cons, joinTail, List.cons_append, List.nil_append, List.cons.injEq,
          true_and] at h2
        rw [← List.map_cons, ← List.map_cons] at h2
        obtain ⟨h3, h4⟩ := joined_inj hf hcl hne (x' :: xs) (y' :: ys) r s hx' hy' h2
        exact ⟨by rw [h3], h4⟩

/-- `str(list)` of delimited components can be read back from the front of any text. -/
theorem listOf_inj {α : Type} {S : α → Prop} {f : α → Str} (hf : DelimOn S f) (hne : HeadNe f ']')
    (xs ys : List α) (r s : Str) (hx : ∀ x ∈ xs, S x) (hy : ∀ y ∈ ys, S y)
    (h : listOf (xs.map f) ++ r = listOf (ys.map f) ++ s) :
    xs = ys ∧ r = s := by
  unfold listOf at h
  simp only [List.cons_append, List.append_assoc, List.cons.injEq,
    true_and] at h
  exact joined_inj hf (Or.inr rfl) hne xs ys r s hx hy h

/-! ## Scalars as tokens -/

def isFltChar (c : Char) : Bool :=
  isDigitC c || c = '.' || c = 'e' || c = '+' || c = '-' || c = 'i' || c = 'n' || c = 'f' || c = 'a'

/-- Characters of the non-string scalar reprs. None of them is a stop character or a quote. -/
def isTokChar (c : Char) : Bool := isIdentChar c || c = '.' || c = '+' || c = '-'

theorem isDigitC_digitChar (d : Nat) : isDigitC (digitChar d) = true := by
  have : ∀ k : Fin 10, isDigitC (Char.ofNat (48 + k.val)) = true := by decide
  exact this ⟨d % 10, Nat.mod_lt _ (by decide)⟩

theorem isTok_of_digit {c : Char} (h : isDigitC c = true) : isTokChar c = true := by
  simp [isTokChar, isIdentChar, h]

theorem isFlt_of_digit {c : Char} (h : isDigitC c = true) : isFltChar c = true := by
  simp [isFltChar, h]

theorem isTok_of_flt {c : Char} (h : isFltChar c = true) : isTokChar c = true := by
  simp only [isFltChar, Bool.or_eq_true, decide_eq_true_eq] at h
  rcases h with (((((((h | h) | h) | h) | h) | h) | h) | h) | h
  · exact isTok_of_digit h
  all_goals (subst h; decide)

theorem not_tok_of_stop {c : Char} (h : IsStop c) : ¬ (isTokChar c = true) := by
  rcases h with rfl | rfl | rfl <;> decide

theorem mem_zeros {c : Char} {n : Nat} (h : c ∈ zeros n) : c = '0' := by
  simpa [zeros] using (List.mem_replicate.mp h).2

theorem reprInt_chars {i : Int} {c : Char} (h : c ∈ reprInt i) : isDigitC c = true ∨ c = '-' := by
  unfold reprInt at h
  split at h
  · rcases List.mem_cons.mp h with h | h
    · exact Or.inr h
    · exact Or.inl (natDigits_isDigit h)
  · exact Or.inl (natDigits_isDigit h)

theorem reprInt_inj {i j : Int} (h : reprInt i = reprInt j) : i = j := by
  unfold reprInt at h
  have nd : ∀ n, '-' ∉ natDigits n := fun n hm => by
    have := natDigits_isDigit hm
    revert this; decide
  split at h <;> split at h
  · have := natDigits_inj (List.cons.inj h).2
    omega
  · have hm : '-' ∈ natDigits j.toNat := by rw [← h]; exact List.mem_cons_self
    exact absurd hm (nd _)
  · have hm : '-' ∈ natDigits i.toNat := by rw [h]; exact List.mem_cons_self
    exact absurd hm (nd _)
  · have := natDigits_inj h
    omega

theorem reprFlt_chars {f : Flt} {c : Char} (h : c ∈ reprFlt f) : isFltChar c = true := by
  have sign : ∀ (neg : Bool) c, c ∈ (if neg then ['-'] else ([] : Str)) → isFltChar c = true := by
    intro neg c hc
    cases neg <;> simp at hc
    subst hc; decide
  have dig : ∀ (ds : List Nat) c, c ∈ ds.map digitChar → isFltChar c = true := by
    intro ds c hc
    obtain ⟨d, _, rfl⟩ := List.mem_map.mp hc
    exact isFlt_of_digit (isDigitC_digitChar d)
  have zer : ∀ n c, c ∈ zeros n → isFltChar c = true := by
    intro n c hc; rw [mem_zeros hc]; decide
  cases f with
  | nan => simp [reprFlt] at h; rcases h with rfl | rfl | rfl <;> decide
  | inf neg =>
    simp only [reprFlt, List.mem_append] at h
    rcases h with h | h
    · exact sign _ _ h
    · simp at h; rcases h with rfl | rfl | rfl <;> decide
  | fin neg ds decpt =>
    simp only [reprFlt] at h
    split at h
    · simp only [List.mem_append, List.mem_cons, List.not_mem_nil, or_false] at h
      rcases h with ((h | h) | h) | h
      · exact sign _ _ h
      · split at h
        · simp at h; subst h; decide
        · rename_i d hd
          simp at h; subst h
          exact dig ds _ (by rw [hd]; exact List.mem_cons_self)
        · rename_i d rest hd
          simp only [List.mem_cons] at h
          rcases h with rfl | rfl | h
          · exact dig ds _ (by rw [hd]; exact List.mem_cons_self)
          · decide
          · exact dig ds _ (by rw [hd]; exact List.mem_cons_of_mem _ h)
      · rcases h with rfl | h
        · decide
        · split at h <;> (subst h; decide)
      · split at h
        · rcases List.mem_cons.mp h with rfl | h
          · decide
          · exact isFlt_of_digit (natDigits_isDigit h)
        · exact isFlt_of_digit (natDigits_isDigit h)
    · split at h
      · simp only [List.mem_append, List.mem_cons, List.not_mem_nil, or_false] at h
        rcases h with ((h | h) | h) | h
        · exact sign _ _ h
        · rcases h with rfl | rfl <;> decide
        · exact zer _ _ h
        · exact dig _ _ h
      · split at h
        · simp only [List.mem_append, List.mem_cons, List.not_mem_nil, or_false] at h
          rcases h with ((h | h) | h) | h
          · exact sign _ _ h
          · exact dig _ _ h
          · exact zer _ _ h
          · rcases h with rfl | rfl <;> decide
        · simp only [List.mem_append, List.mem_cons, List.not_mem_nil, or_false] at h
          rcases h with ((h | h) | h) | h
          · exact sign _ _ h
          · exact dig _ _ (List.mem_of_mem_take h)
          · subst h; decide
          · exact dig _ _ (List.mem_of_mem_drop h)

/-- Every float repr contains `.`, `e` or `n` — no int repr does. -/
theorem reprFlt_mark (f : Flt) : ∃ c ∈ reprFlt f, c = '.' ∨ c = 'e' ∨ c = 'n' := by
  cases f with
  | nan => exact ⟨'n', by simp [reprFlt], by simp⟩
  | inf neg => exact ⟨'n', by simp [reprFlt], by simp⟩
  | fin neg ds decpt =>
    simp only [reprFlt]
    split
    · exact ⟨'e', by simp, by simp⟩
    · split
      · exact ⟨'.', by simp, by simp⟩
      · split
        · exact ⟨'.', by simp, by simp⟩
        · exact ⟨'.', by simp, by simp⟩

variable {T : Flt → Prop}

/-- Shortest-digit normal form of a finite float (what `repr` works from). -/
def Flt.Norm : Flt → Prop
  | .fin _ ds decpt => ds ≠ [] ∧ (∀ d ∈ ds, d < 10) ∧
      ((ds = [0] ∧ decpt = 1) ∨ (ds.head? ≠ some 0 ∧ ds.getLast? ≠ some 0))
  | _ => True

/-- Injectivity of the float layout on a class `T` of floats. -/
def FltInjOn (T : Flt → Prop) : Prop := ∀ f g : Flt, T f → T g → reprFlt f = reprFlt g → f = g

/-- Scalars whose `repr` the theorems speak about: no opaque objects, floats in the class `T`. -/
def Scalar.OK (T : Flt → Prop) : Scalar → Prop
  | .raw _ => False
  | .float f => T f
  | _ => True

/-- str / int / bool / None. -/
abbrev Scalar.Simple : Scalar → Prop := Scalar.OK (fun _ => False)

theorem fltInjOn_false : FltInjOn (fun _ => False) := fun _ _ h => h.elim

def Scalar.isStr : Scalar → Bool
  | .str _ => true
  | _ => false

theorem nonstr_chars {v : Scalar} (hv : v.OK T) (hs : v.isStr = false) {c : Char}
    (h : c ∈ reprScalar v) : isTokChar c = true := by
  cases v with
  | str s => simp [Scalar.isStr] at hs
  | raw r => exact absurd hv (by simp [Scalar.OK])
  | int i =>
    rcases reprInt_chars h with h | rfl
    · exact isTok_of_digit h
    · decide
  | bool b =>
    cases b <;> simp [reprScalar, reprBool] at h
    · rcases h with rfl | rfl | rfl | rfl | rfl <;> decide
    · rcases h with rfl | rfl | rfl | rfl <;> decide
  | float f => exact isTok_of_flt (reprFlt_chars h)
  | none =>
    simp [reprScalar] at h
    rcases h with rfl | rfl | rfl | rfl <;> decide

theorem nonstr_ne_nil {v : Scalar} (hs : v.isStr = false) (hv : v.OK T) : reprScalar v ≠ [] := by
  cases v with
  | str s => simp [Scalar.isStr] at hs
  | raw r => exact absurd hv (by simp [Scalar.OK])
  | int i =>
    simp only [reprScalar, reprInt]
    split
    · simp
    · exact natDigits_ne_nil _
  | bool b => cases b <;> simp [reprScalar, reprBool]
  | float f =>
    obtain ⟨c, hc, _⟩ := reprFlt_mark f
    exact List.ne_nil_of_mem hc
  | none => simp [reprScalar]

theorem not_digit_or_minus {c : Char} (h : c = '.' ∨ c = 'e' ∨ c = 'n') :
    ¬ (isDigitC c = true ∨ c = '-') := by
  rcases h with rfl | rfl | rfl <;> decide

/-- Non-string scalar texts are pairwise different. -/
theorem nonstr_inj (hF : FltInjOn T) {a b : Scalar} (ha : a.OK T) (hb : b.OK T) (hsa : a.isStr = false)
    (hsb : b.isStr = false) (h : reprScalar a = reprScalar b) : a = b := by
  have intflt : ∀ (i : Int) (f : Flt), reprInt i ≠ reprFlt f := by
    intro i f e
    obtain ⟨c, hc, hm⟩ := reprFlt_mark f
    rw [← e] at hc
    exact not_digit_or_minus hm (reprInt_chars hc)
  have intup : ∀ (i : Int) (c : Char), c ∈ reprInt i → ¬ (c = 'T' ∨ c = 'F' ∨ c = 'N') := by
    intro i c hc hu
    have := reprInt_chars hc
    rcases hu with rfl | rfl | rfl <;> revert this <;> decide
  have fltup : ∀ (f : Flt) (c : Char), c ∈ reprFlt f → ¬ (c = 'T' ∨ c = 'F' ∨ c = 'N') := by
    intro f c hc hu
    have := reprFlt_chars hc
    rcases hu with rfl | rfl | rfl <;> revert this <;> decide
  cases a with
  | str s => simp [Scalar.isStr] at hsa
  | raw r => exact absurd ha (by simp [Scalar.OK])
  | int i =>
    cases b with
    | str s => simp [Scalar.isStr] at hsb
    | raw r => exact absurd hb (by simp [Scalar.OK])
    | int j => rw [reprInt_inj h]
    | bool c =>
      exfalso
      cases c
      · exact intup i 'F' (by simp only [reprScalar] at h; rw [h]; simp [reprBool]) (by simp)
      · exact intup i 'T' (by simp only [reprScalar] at h; rw [h]; simp [reprBool]) (by simp)
    | float f => exact absurd h (intflt i f)
    | none => exact absurd (intup i 'N' (by simp only [reprScalar] at h; rw [h]; simp) (by simp)) id
  | bool c =>
    cases b with
    | str s => simp [Scalar.isStr] at hsb
    | raw r => exact absurd hb (by simp [Scalar.OK])
    | int j =>
      exfalso
      cases c
      · exact intup j 'F' (by simp only [reprScalar] at h; rw [← h]; simp [reprBool]) (by simp)
      · exact intup j 'T' (by simp only [reprScalar] at h; rw [← h]; simp [reprBool]) (by simp)
    | bool d => cases c <;> cases d <;> simp_all [reprScalar, reprBool]
    | float f =>
      exfalso
      cases c
      · exact fltup f 'F' (by simp only [reprScalar] at h; rw [← h]; simp [reprBool]) (by simp)
      · exact fltup f 'T' (by simp only [reprScalar] at h; rw [← h]; simp [reprBool]) (by simp)
    | none => cases c <;> simp [reprScalar, reprBool] at h
  | float f =>
    cases b with
    | str s => simp [Scalar.isStr] at hsb
    | raw r => exact absurd hb (by simp [Scalar.OK])
    | int j => exact absurd h.symm (intflt j f)
    | bool c =>
      exfalso
      cases c
      · exact fltup f 'F' (by simp only [reprScalar] at h; rw [h]; simp [reprBool]) (by simp)
      · exact fltup f 'T' (by simp only [reprScalar] at h; rw [h]; simp [reprBool]) (by simp)
    | float g => rw [hF f g ha hb h]
    | none => exact absurd (fltup f 'N' (by simp only [reprScalar] at h; rw [h]; simp) (by simp)) id
  | none =>
    cases b with
    | str s => simp [Scalar.isStr] at hsb
    | raw r => exact absurd hb (by simp [Scalar.OK])
    | int j => exact absurd (intup j 'N' (by simp only [reprScalar] at h; rw [← h]; simp) (by simp)) id
    | bool c => cases c <;> simp [reprScalar, reprBool] at h
    | float f => exact absurd (fltup f 'N' (by simp only [reprScalar] at h; rw [← h]; simp) (by simp)) id
    | none => rfl

theorem quote_not_tok {q : Char} (hq : IsQuote q) : ¬ (isTokChar q = true) := by
  rcases hq with rfl | rfl <;> decide

/-- `repr` of a scalar can be read back when a stop character follows. -/
theorem reprScalar_delim (hF : FltInjOn T) : DelimOn (Scalar.OK T) reprScalar := by
  intro a b r s ha hb hr hs h
  have stopTok : ∀ {t : Str}, StopHead t → ∀ c u, t = c :: u → ¬ (isTokChar c = true) := by
    intro t ht c u e
    obtain ⟨c', u', e', hc'⟩ := ht
    rw [e'] at e
    obtain ⟨rfl, _⟩ := List.cons.inj e
    exact not_tok_of_stop hc'
  by_cases hsa : a.isStr = true <;> by_cases hsb : b.isStr = true
  · cases a <;> simp [Scalar.isStr] at hsa
    cases b <;> simp [Scalar.isStr] at hsb
    obtain ⟨h1, h2⟩ := reprStr_prefix.rest h
    exact ⟨by rw [h1], h2⟩
  · exfalso
    cases a <;> simp [Scalar.isStr] at hsa
    rename_i sa
    have hsb' : b.isStr = false := by simpa using hsb
    obtain ⟨c, t, e⟩ := List.exists_cons_of_ne_nil (nonstr_ne_nil hsb' hb)
    have hc := nonstr_chars hb hsb' (c := c) (by rw [e]; exact List.mem_cons_self)
    rw [e] at h
    simp only [reprScalar, reprStr, List.cons_append, List.cons.injEq] at h
    rw [← h.1] at hc
    exact quote_not_tok (quoteOf_isQuote sa) hc
  · exfalso
    cases b <;> simp [Scalar.isStr] at hsb
    rename_i sb
    have hsa' : a.isStr = false := by simpa using hsa
    obtain ⟨c, t, e⟩ := List.exists_cons_of_ne_nil (nonstr_ne_nil hsa' ha)
    have hc := nonstr_chars ha hsa' (c := c) (by rw [e]; exact List.mem_cons_self)
    rw [e] at h
    simp only [reprScalar, reprStr, List.cons_append, List.cons.injEq] at h
    rw [h.1] at hc
    exact quote_not_tok (quoteOf_isQuote sb) hc
  · have hsa' : a.isStr = false := by simpa using hsa
    have hsb' : b.isStr = false := by simpa using hsb
    obtain ⟨h1, h2⟩ := token_inj (body := fun c => isTokChar c = true)
      (fun c hc => nonstr_chars ha hsa' hc) (fun c hc => nonstr_chars hb hsb' hc)
      (stopTok hr) (stopTok hs) h
    exact ⟨nonstr_inj hF ha hb hsa' hsb' h1, h2⟩

/-! ## Python's `str` order and `sorted` -/

theorem char_eq_of_toNat {a b : Char} (h1 : ¬ a.toNat < b.toNat) (h2 : ¬ b.toNat < a.toNat) : a = b := by
  have : a.toNat = b.toNat := by omega
  exact Char.toNat_inj.mp this

theorem strLe_refl : ∀ a : Str, strLe a a = true
  | [] => rfl
  | a :: as => by simp [strLe, strLe_refl as]

theorem strLe_total : ∀ a b : Str, strLe a b = true ∨ strLe b a = true
  | [], _ => Or.inl rfl
  | _ :: _, [] => Or.inr rfl
  | a :: as, b :: bs => by
    simp only [strLe]
    by_cases h1 : a.toNat < b.toNat
    · simp [h1]
    · by_cases h2 : b.toNat < a.toNat
      · simp [h2]
      · simp only [h1, h2, ↓reduceIte]
        exact strLe_total as bs

theorem strLe_antisymm : ∀ {a b : Str}, strLe a b = true → strLe b a = true → a = b
  | [], [], _, _ => rfl
  | [], _ :: _, _, h => by simp [strLe] at h
  | _ :: _, [], h, _ => by simp [strLe] at h
  | a :: as, b :: bs, h1, h2 => by
    simp only [strLe] at h1 h2
    by_cases c1 : a.toNat < b.toNat
    · have : ¬ b.toNat < a.toNat := by omega
      simp [c1, this] at h2
    · by_cases c2 : b.toNat < a.toNat
      · simp [c1, c2] at h1
      · simp only [c1, c2, ↓reduceIte] at h1 h2
        rw [char_eq_of_toNat c1 c2, strLe_antisymm h1 h2]

theorem strLe_trans : ∀ {a b c : Str}, strLe a b = true → strLe b c = true → strLe a c = true
  | [], _, _, _, _ => rfl
  | _ :: _, [], _, h, _ => by simp [strLe] at h
  | _ :: _, _ :: _, [], _, h => by simp [strLe] at h
  | a :: as, b :: bs, c :: cs, h1, h2 => by
    simp only [strLe] at h1 h2 ⊢
    by_cases ab : a.toNat < b.toNat
    · by_cases bc : b.toNat < c.toNat
      · have : a.toNat < c.toNat := by omega
        simp [this]
      · by_cases cb : c.toNat < b.toNat
        · simp [bc, cb] at h2
        · have : a.toNat < c.toNat := by omega
          simp [this]
    · by_cases ba : b.toNat < a.toNat
      · simp [ab, ba] at h1
      · simp only [ab, ba, ↓reduceIte] at h1
        by_cases bc : b.toNat < c.toNat
        · have : a.toNat < c.toNat := by omega
          simp [this]
        · by_cases cb : c.toNat < b.toNat
          · simp [bc, cb] at h2
          · simp only [bc, cb, ↓reduceIte] at h2
            have e1 : ¬ a.toNat < c.toNat := by omega
            have e2 : ¬ c.toNat < a.toNat := by omega
            simp only [e1, e2, ↓reduceIte]
            exact strLe_trans h1 h2

section SortSec
variable {α : Type}

theorem insertItem_perm (x : Str × α) : ∀ l, (insertItem x l).Perm (x :: l)
  | [] => List.Perm.refl _
  | y :: ys => by
    simp only [insertItem]
    split
    · exact List.Perm.refl _
    · exact ((insertItem_perm x ys).cons y).trans (List.Perm.swap x y ys)

theorem sortItems_perm : ∀ l : List (Str × α), (sortItems l).Perm l
  | [] => List.Perm.refl _
  | x :: xs => (insertItem_perm x (sortItems xs)).trans ((sortItems_perm xs).cons x)

/-- The order `sorted` uses on items with distinct keys. -/
def keyLe (a b : Str × α) : Prop := strLe a.1 b.1 = true

theorem insertItem_sorted (x : Str × α) : ∀ l, l.Pairwise keyLe → (insertItem x l).Pairwise keyLe
  | [], _ => by simp [insertItem]
  | y :: ys, h => by
    simp only [insertItem]
    split
    · rename_i hxy
      refine List.Pairwise.cons ?_ h
      intro z hz
      rcases List.mem_cons.mp hz with rfl | hz
      · exact hxy
      · exact strLe_trans hxy (List.rel_of_pairwise_cons h hz)
    · rename_i hxy
      have hyx : strLe y.1 x.1 = true := by
        rcases strLe_total x.1 y.1 with h' | h'
        · exact absurd h' hxy
        · exact h'
      refine List.Pairwise.cons ?_ (insertItem_sorted x ys h.tail)
      intro z hz
      have := (insertItem_perm x ys).subset hz
      rcases List.mem_cons.mp this with rfl | hz
      · exact hyx
      · exact List.rel_of_pairwise_cons h hz

theorem sortItems_sorted : ∀ l : List (Str × α), (sortItems l).Pairwise keyLe
  | [] => List.Pairwise.nil
  | x :: xs => insertItem_sorted x _ (sortItems_sorted xs)

/-- Two items of a dict with the same key are the same item. -/
theorem item_eq_of_key : ∀ {l : List (Str × α)}, (l.map (·.1)).Nodup → ∀ {a b}, a ∈ l → b ∈ l →
    a.1 = b.1 → a = b
  | [], _, _, _, ha, _, _ => by simp at ha
  | z :: zs, hn, a, b, ha, hb, hk => by
    simp only [List.map_cons, List.nodup_cons, List.mem_map, not_exists, not_and] at hn
    rcases List.mem_cons.mp ha with rfl | ha'
    · rcases List.mem_cons.mp hb with rfl | hb'
      · rfl
      · exact absurd hk.symm (hn.1 b hb')
    · rcases List.mem_cons.mp hb with rfl | hb'
      · exact absurd hk (hn.1 a ha')
      · exact item_eq_of_key hn.2 ha' hb' hk

/-- `sorted(d.items())` does not depend on the insertion order of a dict (keys are unique). -/
theorem sortItems_of_perm {l₁ l₂ : List (Str × α)} (hp : l₁.Perm l₂)
    (hn : (l₁.map (·.1)).Nodup) : sortItems l₁ = sortItems l₂ := by
  have p12 : (sortItems l₁).Perm (sortItems l₂) :=
    (sortItems_perm l₁).trans (hp.trans (sortItems_perm l₂).symm)
  refine List.Perm.eq_of_pairwise (le := keyLe) ?_ (sortItems_sorted l₁) (sortItems_sorted l₂) p12
  intro a b ha hb hab hba
  exact item_eq_of_key hn ((sortItems_perm l₁).subset ha)
    (hp.symm.subset ((sortItems_perm l₂).subset hb)) (strLe_antisymm hab hba)

end SortSec

/-! ## Items, option signature, compile signature -/

theorem reprStr_headNe {c : Char} (hc : ¬ IsQuote c) : HeadNe reprStr c := by
  intro a r t h
  simp only [reprStr, List.cons_append, List.cons.injEq] at h
  exact hc (h.1 ▸ quoteOf_isQuote a)

theorem tupleOf_pair (a b : Str) : tupleOf [a, b] = '(' :: (a ++ (cs! ", " ++ (b ++ [')']))) := by
  simp [tupleOf, joinWith]

theorem itemRepr_eq (kv : Str × Scalar) :
    itemRepr kv = '(' :: (reprStr kv.1 ++ (cs! ", " ++ (reprScalar kv.2 ++ [')']))) := by
  simp [itemRepr, tupleOf_pair]

def ItemOK (T : Flt → Prop) (kv : Str × Scalar) : Prop := kv.2.OK T

theorem stopHead_close (t : Str) : StopHead (')' :: t) := ⟨')', t, rfl, Or.inr (Or.inl rfl)⟩
theorem stopHead_comma (t : Str) : StopHead (',' :: t) := ⟨',', t, rfl, Or.inl rfl⟩

/-- `repr((key, value))` can be read back from the front of any text. -/
theorem itemRepr_prefix (hF : FltInjOn T) (x y : Str × Scalar) (r s : Str) (hx : ItemOK T x)
    (hy : ItemOK T y) (h : itemRepr x ++ r = itemRepr y ++ s) : x = y ∧ r = s := by
  rw [itemRepr_eq, itemRepr_eq] at h
  simp only [List.cons_append, List.append_assoc, List.cons.injEq, true_and] at h
  obtain ⟨h1, h2⟩ := reprStr_prefix.rest h
  simp only [List.nil_append, List.cons.injEq, true_and] at h2
  obtain ⟨h3, h4⟩ := reprScalar_delim hF _ _ _ _ hx hy (stopHead_close _) (stopHead_close _) h2
  exact ⟨Prod.ext h1 h3, by simpa using h4⟩

theorem itemRepr_delimOn (hF : FltInjOn T) : DelimOn (ItemOK T) itemRepr :=
  fun a b r s ha hb _ _ h => itemRepr_prefix hF a b r s ha hb h

theorem itemRepr_headNe : HeadNe itemRepr ']' := by
  intro a r t h
  rw [itemRepr_eq] at h
  simp at h

/-- `str(sorted(options.items()))`, followed by anything, determines the sorted item list. -/
theorem optionSignature_prefix (hF : FltInjOn T) (o₁ o₂ : Options) (r s : Str)
    (h₁ : ∀ kv ∈ o₁, ItemOK T kv) (h₂ : ∀ kv ∈ o₂, ItemOK T kv)
    (h : optionSignature o₁ ++ r = optionSignature o₂ ++ s) :
    sortItems o₁ = sortItems o₂ ∧ r = s :=
  listOf_inj (itemRepr_delimOn hF) itemRepr_headNe _ _ r s
    (fun kv hkv => h₁ kv ((sortItems_perm o₁).subset hkv))
    (fun kv hkv => h₂ kv ((sortItems_perm o₂).subset hkv)) h

/-- `str(cffi_extra_compile_args)` followed by anything determines the argument list. -/
theorem argsRepr_prefix (a b : List Str) (r s : Str)
    (h : listOf (a.map reprStr) ++ r = listOf (b.map reprStr) ++ s) : a = b ∧ r = s :=
  listOf_inj (S := fun _ => True) (reprStr_prefix.delimOn _)
    (reprStr_headNe (by unfold IsQuote; decide)) a b r s (fun _ _ => trivial) (fun _ _ => trivial) h

theorem strBool_prefix (a b : Bool) (r s : Str)
    (h : strScalar (.bool a) ++ r = strScalar (.bool b) ++ s) : a = b ∧ r = s := by
  cases a <;> cases b <;> simp_all [strScalar, reprScalar, reprBool]

/-! ## Tags -/

theorem reprInt_delim : DelimOn (fun _ : Int => True) reprInt := by
  intro a b r s _ _ hr hs h
  have stopTok : ∀ {t : Str}, StopHead t → ∀ c u, t = c :: u → ¬ (isTokChar c = true) := by
    intro t ht c u e
    obtain ⟨c', u', e', hc'⟩ := ht
    rw [e'] at e
    obtain ⟨rfl, _⟩ := List.cons.inj e
    exact not_tok_of_stop hc'
  have tok : ∀ (i : Int) c, c ∈ reprInt i → isTokChar c = true := by
    intro i c hc
    rcases reprInt_chars hc with h | rfl
    · exact isTok_of_digit h
    · decide
  obtain ⟨h1, h2⟩ := token_inj (body := fun c => isTokChar c = true) (tok a) (tok b)
    (stopTok hr) (stopTok hs) h
  exact ⟨reprInt_inj h1, h2⟩

theorem formTag_eq (p : Str) (i : Int) :
    formTag p i = '(' :: (reprStr p ++ (cs! ", " ++ (reprInt i ++ [')']))) := by
  simp [formTag, tupleOf_pair]

/-- The form tag is injective in `(prefix, form_id)`, even when followed by other text. -/
theorem formTag_prefix (p q : Str) (i j : Int) (r s : Str)
    (h : formTag p i ++ r = formTag q j ++ s) : p = q ∧ i = j ∧ r = s := by
  rw [formTag_eq, formTag_eq] at h
  simp only [List.cons_append, List.append_assoc, List.cons.injEq, true_and] at h
  obtain ⟨h1, h2⟩ := reprStr_prefix.rest h
  simp only [List.nil_append, List.cons.injEq, true_and] at h2
  obtain ⟨h3, h4⟩ := reprInt_delim _ _ _ _ trivial trivial (stopHead_close _) (stopHead_close _) h2
  exact ⟨h1, h3, by simpa using h4⟩

theorem reprScalar_headNe_close :
    ∀ (a : Scalar), a.OK T → ∀ r t, reprScalar a ++ r ≠ ')' :: t := by
  intro a ha r t h
  by_cases hs : a.isStr = true
  · cases a <;> simp [Scalar.isStr] at hs
    exact reprStr_headNe (by unfold IsQuote; decide) _ _ _ h
  · have hs' : a.isStr = false := by simpa using hs
    obtain ⟨c, u, e⟩ := List.exists_cons_of_ne_nil (nonstr_ne_nil hs' ha)
    have hc := nonstr_chars ha hs' (c := c) (by rw [e]; exact List.mem_cons_self)
    rw [e] at h
    simp only [List.cons_append, List.cons.injEq] at h
    rw [h.1] at hc
    revert hc; decide

theorem tupleOf_nil : tupleOf [] = cs! "()" := rfl
theorem tupleOf_single (a : Str) : tupleOf [a] = '(' :: (a ++ cs! ",)") := rfl
theorem tupleOf_many (a b : Str) (rest : List Str) :
    tupleOf (a :: b :: rest) = '(' :: (joinWith (cs! ", ") (a :: b :: rest) ++ [')']) := rfl

/-- `repr(tuple)` of delimited components can be read back from the front of any text. -/
theorem tupleOf_inj {α : Type} {S : α → Prop} {f : α → Str} (hf : DelimOn S f)
    (hne : ∀ a, S a → ∀ r t, f a ++ r ≠ ')' :: t) :
    ∀ (xs ys : List α) (r s : Str), (∀ x ∈ xs, S x) → (∀ y ∈ ys, S y) →
    tupleOf (xs.map f) ++ r = tupleOf (ys.map f) ++ s → xs = ys ∧ r = s := by
  intro xs ys r s hx hy h
  -- restrict to the subtype so that the head condition is unconditional
  match xs, ys with
  | [], [] => simpa [tupleOf_nil] using h
  | [], [y] =>
    simp only [List.map_nil, tupleOf_nil, List.map_cons, tupleOf_single, List.cons_append,
      List.cons.injEq, true_and] at h
    exact absurd h.symm (by simpa using hne y (hy y List.mem_cons_self) _ _)
  | [], y :: y' :: ys =>
    simp only [List.map_nil, tupleOf_nil, List.map_cons, tupleOf_many, joinWith_cons_cons,
      List.cons_append, List.append_assoc, List.cons.injEq, true_and] at h
    exact absurd h.symm (hne y (hy y List.mem_cons_self) _ _)
  | [x], [] =>
    simp only [List.map_nil, tupleOf_nil, List.map_cons, tupleOf_single, List.cons_append,
      List.cons.injEq, true_and] at h
    exact absurd h (by simpa using hne x (hx x List.mem_cons_self) _ _)
  | x :: x' :: xs, [] =>
    simp only [List.map_nil, tupleOf_nil, List.map_cons, tupleOf_many, joinWith_cons_cons,
      List.cons_append, List.append_assoc, List.cons.injEq, true_and] at h
    exact absurd h (hne x (hx x List.mem_cons_self) _ _)
  | [x], [y] =>
    simp only [List.map_cons, List.map_nil, tupleOf_single, List.cons_append, List.append_assoc,
      List.cons.injEq, true_and] at h
    obtain ⟨h1, h2⟩ := hf x y _ _ (hx x List.mem_cons_self) (hy y List.mem_cons_self)
      (stopHead_comma _) (stopHead_comma _) h
    exact ⟨by rw [h1], by simpa using h2⟩
  | [x], y :: y' :: ys =>
    simp only [List.map_cons, List.map_nil, tupleOf_single, tupleOf_many, joinWith_cons_cons,
      List.cons_append, List.append_assoc, List.cons.injEq, true_and] at h
    obtain ⟨_, h2⟩ := hf x y _ _ (hx x List.mem_cons_self) (hy y List.mem_cons_self)
      (stopHead_comma _) (stopHead_comma _) h
    simp at h2
  | x :: x' :: xs, [y] =>
    simp only [List.map_cons, List.map_nil, tupleOf_single, tupleOf_many, joinWith_cons_cons,
      List.cons_append, List.append_assoc, List.cons.injEq, true_and] at h
    obtain ⟨_, h2⟩ := hf x y _ _ (hx x List.mem_cons_self) (hy y List.mem_cons_self)
      (stopHead_comma _) (stopHead_comma _) h
    simp at h2
  | x :: x' :: xs, y :: y' :: ys =>
    -- both sides are `(` join `)`: read the items back one by one
    have h' : joinWith (cs! ", ") ((x :: x' :: xs).map f) ++ ')' :: r =
        joinWith (cs! ", ") ((y :: y' :: ys).map f) ++ ')' :: s := by
      simp only [List.map_cons, tupleOf_many, List.cons_append, List.append_assoc,
        List.cons.injEq, true_and, List.nil_append] at h
      simpa using h
    -- use the subtype trick: joined_inj wants an unconditional head condition
    have key : ∀ (as bs : List α) (r s : Str), (∀ a ∈ as, S a) → (∀ b ∈ bs, S b) →
        as ≠ [] → bs ≠ [] →
        joinWith (cs! ", ") (as.map f) ++ ')' :: r = joinWith (cs! ", ") (bs.map f) ++ ')' :: s →
        as = bs ∧ r = s := by
      intro as
      induction as with
      | nil => intro bs r s _ _ h0; exact absurd rfl h0
      | cons a as ih =>
        intro bs r s ha hb _ hb0 h
        cases bs with
        | nil => exact absurd rfl hb0
        | cons b bs =>
          rw [List.map_cons, List.map_cons, joinWith_cons, joinWith_cons] at h
          simp only [List.append_assoc] at h
          have stop : ∀ (zs : List α) (t : Str),
              StopHead (joinTail (cs! ", ") (zs.map f) ++ ')' :: t) := by
            intro zs t
            cases zs with
            | nil => exact stopHead_close t
            | cons z zs => exact ⟨',', _, rfl, Or.inl rfl⟩
          obtain ⟨h1, h2⟩ := hf a b _ _ (ha a List.mem_cons_self) (hb b List.mem_cons_self)
            (stop as r) (stop bs s) h
          subst h1
          cases as with
          | nil =>
            cases bs with
            | nil => simpa [joinTail] using h2
            | cons b' bs => simp [joinTail] at h2
          | cons a' as =>
            cases bs with
            | nil => simp [joinTail] at h2
            | cons b' bs =>
              simp only [List.map_cons, joinTail, List.cons_append, List.nil_append,
                List.cons.injEq, true_and] at h2
              rw [← List.map_cons, ← List.map_cons] at h2
              obtain ⟨h3, h4⟩ := ih (b' :: bs) r s
                (fun z hz => ha z (List.mem_cons_of_mem _ hz))
                (fun z hz => hb z (List.mem_cons_of_mem _ hz)) (by simp) (by simp) h2
              exact ⟨by rw [h3], h4⟩
    exact key (x :: x' :: xs) (y :: y' :: ys) r s hx hy (by simp) (by simp) h'

theorem integralTag_eq (p t : Str) (i : Int) (sub : List Scalar) :
    integralTag p t i sub = '(' :: (reprStr p ++ (cs! ", " ++ (reprStr t ++ (cs! ", " ++
      (reprInt i ++ (cs! ", " ++ (tupleOf (sub.map reprScalar) ++ [')']))))))) := by
  simp [integralTag, tupleOf, joinWith]

/-- The integral tag is injective in `(prefix, integral_type, form_id, subdomain_id)`. -/
theorem integralTag_prefix (p q t u : Str) (i j : Int) (a b : List Scalar) (r s : Str)
    (ha : ∀ v ∈ a, v.Simple) (hb : ∀ v ∈ b, v.Simple)
    (h : integralTag p t i a ++ r = integralTag q u j b ++ s) :
    p = q ∧ t = u ∧ i = j ∧ a = b ∧ r = s := by
  rw [integralTag_eq, integralTag_eq] at h
  simp only [List.cons_append, List.append_assoc, List.cons.injEq, true_and] at h
  obtain ⟨h1, h2⟩ := reprStr_prefix.rest h
  simp only [List.nil_append, List.cons.injEq, true_and] at h2
  obtain ⟨h3, h4⟩ := reprStr_prefix.rest h2
  simp only [List.cons.injEq, true_and] at h4
  obtain ⟨h5, h6⟩ := reprInt_delim _ _ _ _ trivial trivial (stopHead_comma _) (stopHead_comma _) h4
  simp only [List.cons.injEq, true_and] at h6
  obtain ⟨h7, h8⟩ := tupleOf_inj (reprScalar_delim fltInjOn_false)
    (fun v hv => reprScalar_headNe_close v hv) a b _ _ ha hb h6
  exact ⟨h1, h3, h5, h7, by simpa using h8⟩

/-! ## Identifiers -/

theorem isIdent_of_hex {c : Char} (h : isHexChar c = true) : isIdentChar c = true := by
  simp only [isHexChar, Bool.or_eq_true, Bool.and_eq_true, decide_eq_true_eq] at h
  simp only [isIdentChar, isLetter, Bool.or_eq_true, Bool.and_eq_true, decide_eq_true_eq]
  rcases h with h | h
  · exact Or.inl (Or.inr h)
  · exact Or.inl (Or.inl (Or.inl ⟨h.1, by omega⟩))

theorem all_ident_append {a b : Str} (ha : a.all isIdentChar = true) (hb : b.all isIdentChar = true) :
    (a ++ b).all isIdentChar = true := by
  simp [List.all_append, ha, hb]

/-- A known identifier head followed by identifier characters is a valid identifier. -/
theorem validIdent_append {a b : Str} (ha : validIdent a = true) (hb : b.all isIdentChar = true) :
    validIdent (a ++ b) = true := by
  cases a with
  | nil => simp [validIdent] at ha
  | cons c cs =>
    simp only [validIdent, Bool.and_eq_true] at ha
    simp only [List.cons_append, validIdent, Bool.and_eq_true]
    exact ⟨ha.1, all_ident_append ha.2 hb⟩

theorem validIdent_all {a : Str} (h : validIdent a = true) : a.all isIdentChar = true := by
  cases a with
  | nil => simp [validIdent] at h
  | cons c cs =>
    simp only [validIdent, Bool.and_eq_true] at h
    simp only [List.all_cons, Bool.and_eq_true]
    refine ⟨?_, h.2⟩
    have := h.1
    simp only [isIdentStart, Bool.or_eq_true] at this
    simp only [isIdentChar, Bool.or_eq_true]
    rcases this with h | h
    · exact Or.inl (Or.inl h)
    · exact Or.inr h

/-! ## The float layout is injective on shortest-digit normal forms -/

def dC (ds : List Nat) : Str := ds.map digitChar
def signOf (neg : Bool) : Str := if neg then ['-'] else []
def mantOf (dsC : Str) : Str :=
  match dsC with
  | [] => ['0']
  | [d] => [d]
  | d :: rest => d :: '.' :: rest
def expDigits (p : Int) : Str :=
  let ed := natDigits (p - 1).natAbs
  if ed.length < 2 then '0' :: ed else ed
def expOf (p : Int) : Str := ['e', if p - 1 < 0 then '-' else '+'] ++ expDigits p
def intFrac (dsC : Str) (p : Int) : Str × Str :=
  if p ≤ 0 then (['0'], zeros (-p).toNat ++ dsC)
  else if p ≥ dsC.length then (dsC ++ zeros (p - dsC.length).toNat, ['0'])
  else (dsC.take p.toNat, dsC.drop p.toNat)

theorem reprFlt_fin (neg : Bool) (ds : List Nat) (p : Int) :
    reprFlt (.fin neg ds p) = signOf neg ++
      (if p ≤ -4 ∨ p > 16 then mantOf (dC ds) ++ expOf p
       else (intFrac (dC ds) p).1 ++ '.' :: (intFrac (dC ds) p).2) := by
  simp only [reprFlt, signOf, dC, mantOf, expOf, expDigits, intFrac, List.length_map]
  split
  · simp only [List.append_assoc, List.cons_append, List.nil_append]
    rfl
  · split
    · simp
    · split <;> simp


/-! ### digit characters -/

theorem digitChar_inj {a b : Nat} (ha : a < 10) (hb : b < 10) (h : digitChar a = digitChar b) : a = b := by
  have key : ∀ x y : Fin 10, digitChar x.val = digitChar y.val → x = y := by decide
  exact congrArg Fin.val (key ⟨a, ha⟩ ⟨b, hb⟩ h)

theorem digitChar_eq_zero {a : Nat} (ha : a < 10) (h : digitChar a = '0') : a = 0 := by
  have key : ∀ x : Fin 10, digitChar x.val = '0' → x.val = 0 := by decide
  exact key ⟨a, ha⟩ h

theorem dC_inj : ∀ {a b : List Nat}, (∀ d ∈ a, d < 10) → (∀ d ∈ b, d < 10) → dC a = dC b → a = b
  | [], [], _, _, _ => rfl
  | [], _ :: _, _, _, h => by simp [dC] at h
  | _ :: _, [], _, _, h => by simp [dC] at h
  | x :: xs, y :: ys, ha, hb, h => by
    simp only [dC, List.map_cons, List.cons.injEq] at h
    rw [digitChar_inj (ha x List.mem_cons_self) (hb y List.mem_cons_self) h.1,
      dC_inj (fun d hd => ha d (List.mem_cons_of_mem _ hd)) (fun d hd => hb d (List.mem_cons_of_mem _ hd)) h.2]

theorem dC_digit {ds : List Nat} {c : Char} (h : c ∈ dC ds) : isDigitC c = true := by
  obtain ⟨d, _, rfl⟩ := List.mem_map.mp h
  exact isDigitC_digitChar d

theorem digit_ne_special {c : Char} (h : isDigitC c = true) : c ≠ '.' ∧ c ≠ 'e' ∧ c ≠ '-' ∧ c ≠ '+' ∧ c ≠ 'n' := by
  refine ⟨?_, ?_, ?_, ?_, ?_⟩ <;> (rintro rfl; revert h; decide)

/-! ### stripping zeros -/

def stripL (s : Str) : Str := s.dropWhile (· = '0')
def lz (s : Str) : Nat := (s.takeWhile (· = '0')).length
def stripR (s : Str) : Str := (s.reverse.dropWhile (· = '0')).reverse

/-- empty, or the first character is not `0` -/
def HeadNZ (x : Str) : Prop := ∀ c t, x = c :: t → c ≠ '0'

theorem stripL_zeros : ∀ (k : Nat) (x : Str), HeadNZ x → stripL (zeros k ++ x) = x
  | 0, x, h => by
    cases x with
    | nil => rfl
    | cons c t => simp [stripL, zeros, h c t rfl]
  | k + 1, x, h => by
    have := stripL_zeros k x h
    simp only [stripL, zeros, List.replicate_succ, List.cons_append, List.dropWhile_cons,
      decide_true, ↓reduceIte] at this ⊢
    exact this

theorem lz_zeros : ∀ (k : Nat) (x : Str), HeadNZ x → lz (zeros k ++ x) = k
  | 0, x, h => by
    cases x with
    | nil => rfl
    | cons c t => simp [lz, zeros, h c t rfl]
  | k + 1, x, h => by
    have := lz_zeros k x h
    simp only [lz, zeros, List.replicate_succ, List.cons_append, List.takeWhile_cons,
      decide_true, ↓reduceIte, List.length_cons] at this ⊢
    omega

theorem stripR_zeros (k : Nat) (x : Str) (h : HeadNZ x.reverse) : stripR (x ++ zeros k) = x := by
  unfold stripR
  rw [List.reverse_append]
  have : (zeros k).reverse = zeros k := by simp [zeros]
  rw [this]
  have := stripL_zeros k x.reverse h
  unfold stripL at this
  rw [this, List.reverse_reverse]

/-- Digits and decimal-point position recovered from (integer part, fractional part). -/
def normIF (x : Str × Str) : Str × Int :=
  (stripR (stripL (x.1 ++ x.2)), (x.1.length : Int) - (lz (x.1 ++ x.2) : Int))

/-- Non-zero shortest digits: non-empty, no leading and no trailing zero. -/
structure NZDigits (dsC : Str) : Prop where
  ne : dsC ≠ []
  head : HeadNZ dsC
  last : HeadNZ dsC.reverse

theorem headNZ_append {x y : Str} (hx : x ≠ []) (h : HeadNZ x) : HeadNZ (x ++ y) := by
  intro c t e
  cases x with
  | nil => exact absurd rfl hx
  | cons a as =>
    simp only [List.cons_append, List.cons.injEq] at e
    exact e.1 ▸ h a as rfl

theorem normIF_intFrac {dsC : Str} (h : NZDigits dsC) (p : Int) :
    normIF (intFrac dsC p) = (dsC, p) := by
  unfold normIF intFrac
  split
  · rename_i hp
    have e : (['0'] : Str) ++ (zeros (-p).toNat ++ dsC) = zeros ((-p).toNat + 1) ++ dsC := by
      simp [zeros, List.replicate_succ]
    simp only [e]
    rw [stripL_zeros _ _ h.head, lz_zeros _ _ h.head]
    have := stripR_zeros 0 dsC h.last
    simp only [zeros, List.replicate_zero, List.append_nil] at this
    rw [this]
    simp only [List.length_cons, List.length_nil, Prod.mk.injEq, true_and]
    omega
  · split
    · rename_i hp1 hp2
      have e : dsC ++ zeros (p - dsC.length).toNat ++ (['0'] : Str) = dsC ++ zeros ((p - dsC.length).toNat + 1) := by
        simp [zeros, List.replicate_succ']
      simp only [e]
      have hh : HeadNZ (dsC ++ zeros ((p - dsC.length).toNat + 1)) := headNZ_append h.ne h.head
      have s1 := stripL_zeros 0 _ hh
      have l1 := lz_zeros 0 _ hh
      simp only [zeros, List.replicate_zero, List.nil_append] at s1 l1
      simp only [zeros] at hh ⊢
      rw [s1, l1]
      have := stripR_zeros ((p - dsC.length).toNat + 1) dsC h.last
      simp only [zeros] at this
      rw [this]
      simp only [List.length_append, List.length_replicate, Prod.mk.injEq, true_and]
      omega
    · rename_i hp1 hp2
      simp only [List.take_append_drop]
      have s1 := stripL_zeros 0 _ h.head
      have l1 := lz_zeros 0 _ h.head
      simp only [zeros, List.replicate_zero, List.nil_append] at s1 l1
      rw [s1, l1]
      have := stripR_zeros 0 dsC h.last
      simp only [zeros, List.replicate_zero, List.append_nil] at this
      rw [this]
      simp only [List.length_take, Prod.mk.injEq, true_and]
      omega


/-! ### from `Flt.Norm` to the digit-string facts -/

theorem nzDigits_of_norm {ds : List Nat} (hne : ds ≠ []) (hlt : ∀ d ∈ ds, d < 10)
    (hh : ds.head? ≠ some 0) (hl : ds.getLast? ≠ some 0) : NZDigits (dC ds) := by
  refine ⟨by simpa [dC] using hne, ?_, ?_⟩
  · intro c t e
    cases ds with
    | nil => exact absurd rfl hne
    | cons d ds' =>
      simp only [dC, List.map_cons, List.cons.injEq] at e
      intro hc
      have := digitChar_eq_zero (hlt d List.mem_cons_self) (e.1.trans hc)
      exact hh (by simp [this])
  · intro c t e
    have e' : dC ds.reverse = c :: t := by simpa [dC, List.map_reverse] using e
    cases hr : ds.reverse with
    | nil => rw [hr] at e'; simp [dC] at e'
    | cons d ds' =>
      rw [hr] at e'
      simp only [dC, List.map_cons, List.cons.injEq] at e'
      intro hc
      have hd : d ∈ ds := by
        have : d ∈ ds.reverse := by rw [hr]; exact List.mem_cons_self
        exact List.mem_reverse.mp this
      have := digitChar_eq_zero (hlt d hd) (e'.1.trans hc)
      apply hl
      rw [List.getLast?_eq_head?_reverse, hr, this]
      rfl

theorem intFrac_digits {dsC : Str} (hd : ∀ c ∈ dsC, isDigitC c = true) (p : Int) :
    (∀ c ∈ (intFrac dsC p).1, isDigitC c = true) ∧ (∀ c ∈ (intFrac dsC p).2, isDigitC c = true) := by
  have z : ∀ n c, c ∈ zeros n → isDigitC c = true := fun n c hc => by rw [mem_zeros hc]; decide
  unfold intFrac
  split
  · refine ⟨fun c hc => ?_, fun c hc => ?_⟩
    · simp only [List.mem_cons, List.not_mem_nil, or_false] at hc; subst hc; decide
    · rcases List.mem_append.mp hc with h | h
      · exact z _ _ h
      · exact hd _ h
  · split
    · refine ⟨fun c hc => ?_, fun c hc => ?_⟩
      · rcases List.mem_append.mp hc with h | h
        · exact hd _ h
        · exact z _ _ h
      · simp only [List.mem_cons, List.not_mem_nil, or_false] at hc; subst hc; decide
    · exact ⟨fun c hc => hd _ (List.mem_of_mem_take hc), fun c hc => hd _ (List.mem_of_mem_drop hc)⟩

theorem intFrac_int_ne_nil {dsC : Str} (hne : dsC ≠ []) (p : Int) : (intFrac dsC p).1 ≠ [] := by
  unfold intFrac
  split
  · simp
  · split
    · simp [hne]
    · rename_i h1 h2
      cases dsC with
      | nil => exact absurd rfl hne
      | cons c t =>
        have : p.toNat = (p.toNat - 1) + 1 := by omega
        rw [this]
        simp

/-- The fixed-notation body determines digits and exponent (non-zero normal forms). -/
theorem fixed_body_inj {a b : Str} (ha : NZDigits a) (hb : NZDigits b)
    (da : ∀ c ∈ a, isDigitC c = true) (db : ∀ c ∈ b, isDigitC c = true) {p q : Int}
    (h : (intFrac a p).1 ++ '.' :: (intFrac a p).2 = (intFrac b q).1 ++ '.' :: (intFrac b q).2) :
    a = b ∧ p = q := by
  have na : '.' ∉ (intFrac a p).1 := fun m => (digit_ne_special ((intFrac_digits da p).1 _ m)).1 rfl
  have nb : '.' ∉ (intFrac b q).1 := fun m => (digit_ne_special ((intFrac_digits db q).1 _ m)).1 rfl
  obtain ⟨h1, h2⟩ := split_sep na nb h
  have : normIF (intFrac a p) = normIF (intFrac b q) := by
    rw [show intFrac a p = ((intFrac a p).1, (intFrac a p).2) from rfl,
      show intFrac b q = ((intFrac b q).1, (intFrac b q).2) from rfl, h1, h2]
  rw [normIF_intFrac ha, normIF_intFrac hb] at this
  exact Prod.mk.inj this

/-! ### exponent notation -/

theorem filter_dot_digits {l : Str} (h : ∀ c ∈ l, isDigitC c = true) : l.filter (· ≠ '.') = l := by
  apply List.filter_eq_self.mpr
  intro c hc
  simpa using (digit_ne_special (h c hc)).1

theorem mantOf_filter {dsC : Str} (hne : dsC ≠ []) (hd : ∀ c ∈ dsC, isDigitC c = true) :
    (mantOf dsC).filter (· ≠ '.') = dsC := by
  cases dsC with
  | nil => exact absurd rfl hne
  | cons d rest =>
    cases rest with
    | nil => exact filter_dot_digits hd
    | cons r rs =>
      have hd' : d ≠ '.' := (digit_ne_special (hd d List.mem_cons_self)).1
      have : (r :: rs).filter (· ≠ '.') = r :: rs :=
        filter_dot_digits (fun c hc => hd c (List.mem_cons_of_mem _ hc))
      show (d :: '.' :: (r :: rs)).filter (· ≠ '.') = d :: r :: rs
      rw [List.filter_cons_of_pos (by simpa using hd'), List.filter_cons_of_neg (by simp), this]

theorem mantOf_chars {dsC : Str} (hd : ∀ c ∈ dsC, isDigitC c = true) {c : Char} (h : c ∈ mantOf dsC) :
    isDigitC c = true ∨ c = '.' := by
  unfold mantOf at h
  split at h
  · simp at h; subst h; exact Or.inl (by decide)
  · exact Or.inl (hd c (by simpa using h))
  · rename_i d rest _
    simp only [List.mem_cons] at h
    rcases h with rfl | rfl | h
    · exact Or.inl (hd _ List.mem_cons_self)
    · exact Or.inr rfl
    · exact Or.inl (hd _ (List.mem_cons_of_mem _ h))

theorem expDigits_val (p : Int) : Nat.ofDigitChars 10 (expDigits p) 0 = (p - 1).natAbs := by
  simp only [expDigits]
  split
  · simp [Nat.ofDigitChars_cons, natDigits, Nat.ofDigitChars_ten_toDigits]
  · simp [natDigits, Nat.ofDigitChars_ten_toDigits]

theorem exp_body_inj {a b : Str} (ha : a ≠ []) (hb : b ≠ []) (da : ∀ c ∈ a, isDigitC c = true)
    (db : ∀ c ∈ b, isDigitC c = true) {p q : Int}
    (h : mantOf a ++ expOf p = mantOf b ++ expOf q) : a = b ∧ p = q := by
  have ne : ∀ {x : Str}, (∀ c ∈ x, isDigitC c = true) → 'e' ∉ mantOf x := by
    intro x hx m
    rcases mantOf_chars hx m with h | h
    · exact (digit_ne_special h).2.1 rfl
    · revert h; decide
  unfold expOf at h
  simp only [List.cons_append, List.nil_append] at h
  obtain ⟨h1, h2⟩ := split_sep (ne da) (ne db) h
  have hab : a = b := by
    have := congrArg (List.filter (· ≠ '.')) h1
    rwa [mantOf_filter ha da, mantOf_filter hb db] at this
  simp only [List.cons.injEq] at h2
  have hv : (p - 1).natAbs = (q - 1).natAbs := by
    rw [← expDigits_val p, ← expDigits_val q, h2.2]
  have hs : (p - 1 < 0) ↔ (q - 1 < 0) := by
    have := h2.1
    by_cases c1 : p - 1 < 0 <;> by_cases c2 : q - 1 < 0 <;> simp [c1, c2] at this ⊢
  refine ⟨hab, ?_⟩
  omega


/-! ### assembling -/

/-- `x` starts with a digit. -/
def DigitHead (x : Str) : Prop := ∃ c t, x = c :: t ∧ isDigitC c = true

theorem sign_strip {a b : Bool} {u v : Str} (hu : DigitHead u) (hv : DigitHead v)
    (h : signOf a ++ u = signOf b ++ v) : a = b ∧ u = v := by
  obtain ⟨c, t, rfl, hc⟩ := hu
  obtain ⟨d, w, rfl, hd⟩ := hv
  cases a <;> cases b <;> simp only [signOf, Bool.false_eq_true, ↓reduceIte, List.nil_append,
    List.cons_append, List.cons.injEq, true_and] at h
  · exact ⟨rfl, by rw [h.1, h.2]⟩
  · exact absurd h.1 (digit_ne_special hc).2.2.1
  · exact absurd h.1.symm (digit_ne_special hd).2.2.1
  · exact ⟨rfl, by rw [h.1, h.2]⟩

/-- The text after the sign of a finite float. -/
def bodyOf (dsC : Str) (p : Int) : Str :=
  if p ≤ -4 ∨ p > 16 then mantOf dsC ++ expOf p
  else (intFrac dsC p).1 ++ '.' :: (intFrac dsC p).2

theorem reprFlt_fin' (neg : Bool) (ds : List Nat) (p : Int) :
    reprFlt (.fin neg ds p) = signOf neg ++ bodyOf (dC ds) p := reprFlt_fin neg ds p

theorem bodyOf_digitHead {dsC : Str} (hne : dsC ≠ []) (hd : ∀ c ∈ dsC, isDigitC c = true) (p : Int) :
    DigitHead (bodyOf dsC p) := by
  unfold bodyOf
  split
  · cases dsC with
    | nil => exact absurd rfl hne
    | cons d rest =>
      cases rest with
      | nil => exact ⟨d, _, rfl, hd d List.mem_cons_self⟩
      | cons r rs => exact ⟨d, _, rfl, hd d List.mem_cons_self⟩
  · obtain ⟨c, t, e⟩ := List.exists_cons_of_ne_nil (intFrac_int_ne_nil hne p)
    refine ⟨c, t ++ '.' :: (intFrac dsC p).2, by rw [e]; rfl, ?_⟩
    exact (intFrac_digits hd p).1 c (by rw [e]; exact List.mem_cons_self)

theorem expOf_chars {p : Int} {c : Char} (h : c ∈ expOf p) :
    isDigitC c = true ∨ c = 'e' ∨ c = '+' ∨ c = '-' := by
  simp only [expOf, expDigits, List.cons_append, List.nil_append, List.mem_cons] at h
  rcases h with rfl | h | h
  · exact Or.inr (Or.inl rfl)
  · split at h
    · exact Or.inr (Or.inr (Or.inr h))
    · exact Or.inr (Or.inr (Or.inl h))
  · split at h
    · rcases List.mem_cons.mp h with rfl | h
      · exact Or.inl (by decide)
      · exact Or.inl (natDigits_isDigit h)
    · exact Or.inl (natDigits_isDigit h)

theorem bodyOf_no_n {dsC : Str} (hd : ∀ c ∈ dsC, isDigitC c = true) (p : Int) : 'n' ∉ bodyOf dsC p := by
  intro hm
  have dn : ∀ c, isDigitC c = true → c ≠ 'n' := fun c h => (digit_ne_special h).2.2.2.2
  unfold bodyOf at hm
  split at hm
  · rcases List.mem_append.mp hm with h | h
    · rcases mantOf_chars hd h with h | h
      · exact dn _ h rfl
      · revert h; decide
    · rcases expOf_chars h with h | h | h | h
      · exact dn _ h rfl
      all_goals (revert h; decide)
  · rcases List.mem_append.mp hm with h | h
    · exact dn _ ((intFrac_digits hd p).1 _ h) rfl
    · rcases List.mem_cons.mp h with h | h
      · revert h; decide
      · exact dn _ ((intFrac_digits hd p).2 _ h) rfl

theorem fixed_no_e {dsC : Str} (hd : ∀ c ∈ dsC, isDigitC c = true) (p : Int) :
    'e' ∉ (intFrac dsC p).1 ++ '.' :: (intFrac dsC p).2 := by
  intro hm
  rcases List.mem_append.mp hm with h | h
  · exact (digit_ne_special ((intFrac_digits hd p).1 _ h)).2.1 rfl
  · rcases List.mem_cons.mp h with h | h
    · revert h; decide
    · exact (digit_ne_special ((intFrac_digits hd p).2 _ h)).2.1 rfl

theorem exp_has_e (dsC : Str) (p : Int) : 'e' ∈ mantOf dsC ++ expOf p := by
  simp [expOf]

/-- `0.0` is not the fixed-notation body of any non-zero normal form. -/
theorem fixed_zero_ne {b : Str} (hb : NZDigits b) (db : ∀ c ∈ b, isDigitC c = true) (q : Int) :
    (intFrac ['0'] 1).1 ++ '.' :: (intFrac ['0'] 1).2 ≠ (intFrac b q).1 ++ '.' :: (intFrac b q).2 := by
  intro h
  have na : '.' ∉ (intFrac ['0'] 1).1 := by decide
  have nb : '.' ∉ (intFrac b q).1 := fun m => (digit_ne_special ((intFrac_digits db q).1 _ m)).1 rfl
  obtain ⟨h1, h2⟩ := split_sep na nb h
  have : normIF (intFrac ['0'] 1) = normIF (intFrac b q) := by
    rw [show intFrac ['0'] 1 = ((intFrac ['0'] 1).1, (intFrac ['0'] 1).2) from rfl,
      show intFrac b q = ((intFrac b q).1, (intFrac b q).2) from rfl, h1, h2]
  rw [normIF_intFrac hb] at this
  have z : normIF (intFrac ['0'] 1) = ([], -1) := by decide
  rw [z] at this
  exact hb.ne (Prod.mk.inj this).1.symm

theorem dC_zero : dC [0] = ['0'] := by decide

/-- The body determines digits and exponent on normal forms. -/
theorem bodyOf_inj {ds es : List Nat} {p q : Int} (hf : Flt.Norm (.fin false ds p))
    (hg : Flt.Norm (.fin false es q)) (h : bodyOf (dC ds) p = bodyOf (dC es) q) : ds = es ∧ p = q := by
  obtain ⟨ne1, lt1, z1⟩ := hf
  obtain ⟨ne2, lt2, z2⟩ := hg
  have d1 : ∀ c ∈ dC ds, isDigitC c = true := fun c hc => dC_digit hc
  have d2 : ∀ c ∈ dC es, isDigitC c = true := fun c hc => dC_digit hc
  have n1 : dC ds ≠ [] := by simpa [dC] using ne1
  have n2 : dC es ≠ [] := by simpa [dC] using ne2
  unfold bodyOf at h
  by_cases e1 : p ≤ -4 ∨ p > 16 <;> by_cases e2 : q ≤ -4 ∨ q > 16
  · simp only [e1, e2, ↓reduceIte] at h
    obtain ⟨h1, h2⟩ := exp_body_inj n1 n2 d1 d2 h
    exact ⟨dC_inj lt1 lt2 h1, h2⟩
  · simp only [e1, e2, ↓reduceIte] at h
    exact absurd (h ▸ exp_has_e _ _) (fixed_no_e d2 q)
  · simp only [e1, e2, ↓reduceIte] at h
    exact absurd (h.symm ▸ exp_has_e _ _) (fixed_no_e d1 p)
  · simp only [e1, e2, ↓reduceIte] at h
    rcases z1 with ⟨rfl, rfl⟩ | ⟨hh1, hl1⟩ <;> rcases z2 with ⟨rfl, rfl⟩ | ⟨hh2, hl2⟩
    · exact ⟨rfl, rfl⟩
    · rw [dC_zero] at h
      exact absurd h (fixed_zero_ne (nzDigits_of_norm ne2 lt2 hh2 hl2) d2 q)
    · rw [dC_zero] at h
      exact absurd h.symm (fixed_zero_ne (nzDigits_of_norm ne1 lt1 hh1 hl1) d1 p)
    · obtain ⟨h1, h2⟩ := fixed_body_inj (nzDigits_of_norm ne1 lt1 hh1 hl1)
        (nzDigits_of_norm ne2 lt2 hh2 hl2) d1 d2 h
      exact ⟨dC_inj lt1 lt2 h1, h2⟩

/-- Python's float `repr` layout is injective on shortest-digit normal forms. -/
theorem reprFlt_inj : FltInjOn Flt.Norm := by
  intro f g hf hg h
  have nfin : ∀ (neg : Bool) (ds : List Nat) (p : Int), (∀ d ∈ ds, d < 10) → ds ≠ [] →
      'n' ∉ reprFlt (.fin neg ds p) := by
    intro neg ds p _ _ hm
    rw [reprFlt_fin'] at hm
    rcases List.mem_append.mp hm with h | h
    · cases neg <;> simp [signOf] at h
    · exact bodyOf_no_n (fun c hc => dC_digit hc) p h
  cases f with
  | nan =>
    cases g with
    | nan => rfl
    | inf b => cases b <;> simp [reprFlt] at h
    | fin b es q =>
      exact absurd (h ▸ (by simp [reprFlt] : 'n' ∈ reprFlt .nan)) (nfin b es q hg.2.1 hg.1)
  | inf a =>
    cases g with
    | nan => cases a <;> simp [reprFlt] at h
    | inf b => cases a <;> cases b <;> simp [reprFlt] at h ⊢
    | fin b es q =>
      exact absurd (h ▸ (by cases a <;> simp [reprFlt] : 'n' ∈ reprFlt (.inf a))) (nfin b es q hg.2.1 hg.1)
  | fin a ds p =>
    cases g with
    | nan =>
      exact absurd (h.symm ▸ (by simp [reprFlt] : 'n' ∈ reprFlt .nan)) (nfin a ds p hf.2.1 hf.1)
    | inf b =>
      exact absurd (h.symm ▸ (by cases b <;> simp [reprFlt] : 'n' ∈ reprFlt (.inf b))) (nfin a ds p hf.2.1 hf.1)
    | fin b es q =>
      rw [reprFlt_fin', reprFlt_fin'] at h
      have n1 : dC ds ≠ [] := by simpa [dC] using hf.1
      have n2 : dC es ≠ [] := by simpa [dC] using hg.1
      obtain ⟨hs, hb⟩ := sign_strip (bodyOf_digitHead n1 (fun c hc => dC_digit hc) p)
        (bodyOf_digitHead n2 (fun c hc => dC_digit hc) q) h
      obtain ⟨h1, h2⟩ := bodyOf_inj (ds := ds) (es := es) hf hg hb
      rw [hs, h1, h2]

/-! ## The points key `dtype.str ++ str(shape) ++ digest` -/

/-- `repr(int)` never starts with a character that is neither a digit nor `-`. -/
theorem reprInt_headNe {c : Char} (hd : isDigitC c = false) (hm : c ≠ '-') : HeadNe reprInt c := by
  intro a r t h
  have hm' : c ∈ reprInt a := by
    cases hr : reprInt a with
    | nil =>
      exfalso
      unfold reprInt at hr
      split at hr
      · simp at hr
      · exact natDigits_ne_nil _ hr
    | cons x u =>
      rw [hr] at h
      simp only [List.cons_append, List.cons.injEq] at h
      rw [h.1]; exact List.mem_cons_self
  rcases reprInt_chars hm' with h' | h'
  · rw [hd] at h'; cases h'
  · exact hm h'

theorem natRepr_delim : DelimOn (fun _ : Nat => True) (fun n => reprInt (Int.ofNat n)) := by
  intro a b r s _ _ hr hs h
  obtain ⟨h1, h2⟩ := reprInt_delim _ _ _ _ trivial trivial hr hs h
  exact ⟨Int.ofNat.inj h1, h2⟩

theorem tupleOf_head (parts : List Str) : ∃ t, tupleOf parts = '(' :: t := by
  unfold tupleOf
  split <;> exact ⟨_, rfl⟩

/-- `str(shape)` can be read back from the front of any text. -/
theorem shapeRepr_prefix (a b : List Nat) (r s : Str) (h : shapeRepr a ++ r = shapeRepr b ++ s) :
    a = b ∧ r = s :=
  tupleOf_inj natRepr_delim
    (fun n _ r t => reprInt_headNe (c := ')') (by decide) (by decide) (Int.ofNat n) r t)
    a b r s (fun _ _ => trivial) (fun _ _ => trivial) h

theorem joined_ints_no_semi : ∀ (xs : List Int), ';' ∉ joinWith (cs! ", ") (xs.map reprInt)
  | [] => by simp [joinWith]
  | x :: xs => by
    rw [List.map_cons, joinWith_cons]
    intro hm
    rcases List.mem_append.mp hm with hm | hm
    · have := reprInt_chars hm
      revert this; decide
    · cases xs with
      | nil => simp [joinTail] at hm
      | cons y ys =>
        simp only [List.map_cons, joinTail, List.cons_append, List.nil_append, List.mem_cons] at hm
        rcases hm with hm | hm | hm
        · revert hm; decide
        · revert hm; decide
        · exact joined_ints_no_semi (y :: ys) hm

theorem shapeRepr_no_semi (sh : List Nat) : ';' ∉ shapeRepr sh := by
  have key := joined_ints_no_semi (sh.map Int.ofNat)
  rw [List.map_map] at key
  intro hm
  unfold shapeRepr tupleOf at hm
  split at hm
  · rename_i a heq
    cases sh with
    | nil => simp at heq
    | cons n ns =>
      cases ns with
      | nil =>
        simp only [List.map_cons, List.map_nil, List.cons.injEq, and_true] at heq
        subst heq
        simp only [List.mem_cons, List.mem_append, List.not_mem_nil, or_false] at hm
        rcases hm with hm | hm | hm | hm
        · revert hm; decide
        · have := reprInt_chars hm
          revert this; decide
        · revert hm; decide
        · revert hm; decide
      | cons m ms => simp at heq
  · simp only [List.mem_cons, List.mem_append, List.not_mem_nil, or_false] at hm
    rcases hm with hm | hm | hm
    · revert hm; decide
    · exact key hm
    · revert hm; decide

section PointsKey
variable {B : Type} (digest : B → Str)

/-- Points the theorems speak about: the dtype string has no `(` and no `;`, the bytes belong to
the set `D` of explored inputs. -/
def Pts.OK (D : B → Prop) (p : Pts B) : Prop := '(' ∉ p.dtype ∧ ';' ∉ p.dtype ∧ D p.data

/-- The points key can be read back from the front of any text, provided the digest has fixed width
and is injective on the explored byte strings. -/
theorem pointsKey_prefix {D : B → Prop} (hlen : ∀ b, (digest b).length = 40)
    (hinj : ∀ a b, D a → D b → digest a = digest b → a = b) :
    PrefixCodeOn (Pts.OK D) (pointsKey digest) := by
  intro p q r s hp hq h
  unfold pointsKey at h
  simp only [List.append_assoc] at h
  obtain ⟨t₁, e₁⟩ := tupleOf_head (p.shape.map fun n => reprInt (Int.ofNat n))
  obtain ⟨t₂, e₂⟩ := tupleOf_head (q.shape.map fun n => reprInt (Int.ofNat n))
  have h' := h
  unfold shapeRepr at h'
  rw [e₁, e₂] at h'
  simp only [List.cons_append] at h'
  obtain ⟨hd, hrest⟩ := split_sep hp.1 hq.1 h'
  have h2 : shapeRepr p.shape ++ (digest p.data ++ r) = shapeRepr q.shape ++ (digest q.data ++ s) := by
    unfold shapeRepr
    rw [e₁, e₂]
    simp only [List.cons_append, List.cons.injEq, true_and]
    exact hrest
  obtain ⟨hs, h3⟩ := shapeRepr_prefix _ _ _ _ h2
  obtain ⟨h4, _⟩ := List.append_inj h3 (by rw [hlen, hlen])
  have hdat := hinj _ _ hp.2.2 hq.2.2 h4
  cases p; cases q
  simp_all

theorem pointsKey_no_semi {D : B → Prop} (hhex : ∀ b, ∀ c ∈ digest b, isHexChar c = true)
    (p : Pts B) (hp : Pts.OK D p) : ';' ∉ pointsKey digest p := by
  intro hm
  unfold pointsKey at hm
  rcases List.mem_append.mp hm with hm | hm
  · rcases List.mem_append.mp hm with hm | hm
    · exact hp.2.1 hm
    · exact shapeRepr_no_semi _ hm
  · have := hhex _ _ hm
    revert this; decide

end PointsKey

end Ffcx.Naming

namespace Ffcx.Cli
open Ffcx.Naming

/-! ## Dict lemmas -/
namespace Dict
variable {κ ν : Type} [DecidableEq κ]

theorem get_set (d : Dict κ ν) (x y : κ) (v : ν) :
    get (set d x v) y = if x = y then some v else get d y := by
  induction d with
  | nil => simp [set, get]
  | cons p m ih =>
    obtain ⟨k, w⟩ := p
    by_cases hk : k = x
    · subst hk
      by_cases hy : k = y <;> simp [set, get, hy]
    · by_cases hy : k = y
      · subst hy
        have : ¬ x = k := fun e => hk e.symm
        simp [set, get, hk, this]
      · simp [set, get, hk, hy, ih]

/-- After `d.update(e)`: the last binding of `k` in `e`, else what `d` had. -/
theorem get_update (d e : Dict κ ν) (k : κ) :
    get (update d e) k = (rlookup e k).or (get d k) := by
  induction e generalizing d with
  | nil => simp [update, rlookup]
  | cons p e ih =>
    obtain ⟨k', v⟩ := p
    have : update d ((k', v) :: e) = update (set d k' v) e := rfl
    rw [this, ih, get_set]
    simp only [rlookup]
    cases rlookup e k with
    | some w => simp
    | none => by_cases h : k' = k <;> simp [h]

theorem keys_set (d : Dict κ ν) (x : κ) (v : ν) :
    keys (set d x v) = if x ∈ keys d then keys d else keys d ++ [x] := by
  induction d with
  | nil => simp [set, keys]
  | cons p m ih =>
    obtain ⟨k, w⟩ := p
    by_cases hk : k = x
    · subst hk; simp [set, keys]
    · have hx : ¬ x = k := fun e => hk e.symm
      simp only [set, hk, ↓reduceIte, keys, List.map_cons, List.mem_cons, hx, false_or] at ih ⊢
      rw [ih]
      split <;> simp [*]

theorem nodup_set (d : Dict κ ν) (x : κ) (v : ν) (h : (keys d).Nodup) : (keys (set d x v)).Nodup := by
  rw [keys_set]
  split
  · exact h
  · rename_i hx
    exact List.nodup_append.mpr ⟨h, by simp, by
      intro a ha b hb
      simp only [List.mem_cons, List.not_mem_nil, or_false] at hb
      subst hb
      exact fun e => hx (e ▸ ha)⟩

theorem nodup_update (d e : Dict κ ν) (h : (keys d).Nodup) : (keys (update d e)).Nodup := by
  induction e generalizing d with
  | nil => exact h
  | cons p e ih => exact ih _ (nodup_set d p.1 p.2 h)

/-- In a dict (unique keys) membership of an item is `get`. -/
theorem mem_iff_get (d : Dict κ ν) (h : (keys d).Nodup) (k : κ) (v : ν) :
    (k, v) ∈ d ↔ get d k = some v := by
  induction d with
  | nil => simp [get]
  | cons p m ih =>
    obtain ⟨k', w⟩ := p
    simp only [keys, List.map_cons, List.nodup_cons, List.mem_map, not_exists, not_and] at h
    by_cases hk : k' = k
    · subst hk
      simp only [List.mem_cons, Prod.mk.injEq, true_and, get, ↓reduceIte, Option.some.injEq]
      constructor
      · rintro (h1 | h1)
        · exact h1.symm
        · exact absurd rfl (h.1 _ h1)
      · intro h1; exact Or.inl h1.symm
    · have hk' : ¬ k = k' := fun e => hk e.symm
      simp only [List.mem_cons, Prod.mk.injEq, hk', false_and, false_or, get, hk, ↓reduceIte]
      exact ih h.2

theorem rlookup_some_mem {e : Dict κ ν} {k : κ} {v : ν} (h : rlookup e k = some v) : (k, v) ∈ e := by
  induction e with
  | nil => simp [rlookup] at h
  | cons p e ih =>
    obtain ⟨k', w⟩ := p
    simp only [rlookup] at h
    cases hr : rlookup e k with
    | some u =>
      rw [hr] at h
      simp only [Option.some.injEq] at h
      subst h
      exact List.mem_cons_of_mem _ (ih hr)
    | none =>
      rw [hr] at h
      by_cases hk : k' = k
      · simp only [hk, ↓reduceIte, Option.some.injEq] at h
        subst h; subst hk
        exact List.mem_cons_self
      · simp [hk] at h

theorem rlookup_none_iff {e : Dict κ ν} {k : κ} : rlookup e k = none ↔ k ∉ keys e := by
  induction e with
  | nil => simp [rlookup, keys]
  | cons p e ih =>
    obtain ⟨k', w⟩ := p
    simp only [rlookup, keys, List.map_cons, List.mem_cons, not_or]
    cases hr : rlookup e k with
    | some u =>
      simp only [reduceCtorEq, false_iff, not_and, Decidable.not_not]
      intro _
      have : k ∈ keys e := Classical.byContradiction fun hc => by
        have := ih.mpr hc
        rw [hr] at this
        cases this
      simpa [keys] using this
    | none =>
      have := ih.mp hr
      by_cases hk : k' = k
      · simp [hk]
      · have hk' : ¬ k = k' := fun e => hk e.symm
        simp only [hk, ↓reduceIte, hk', not_false_eq_true, true_and, true_iff]
        simpa [keys] using this

end Dict
end Ffcx.Cli
