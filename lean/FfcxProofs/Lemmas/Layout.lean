/-
Helper lemmas and the C04/C05 layout theorems about `FfcxModel/IR/Layout.lean`.

  coeff_blocks_tile   C05  coefficient blocks of `w` tile `[0, width·Σdim)`
  coeffAccess_in_block C05 `w[offset_k + dof]` lies in block k (model of symbols.coefficient_dof_access, tied by evali/coeffaccess)
  const_blocks_tile   C05  constant blocks of `c` tile `[0, ΣΠshape)`; row-major component inside its block
  orig_positions      C04/C05  original_coefficient_positions
  flatten_lt / flatten_inj / flatIdx_eq_flatComponent   row-major flattening, any rank, any sizes
  expr_layout / expr_layout_inj   C04  A[point][component][argument dof]
  expr_descriptor     C04  descriptor fields vs the layout
  expr_num_constants / expr_num_constants_witness   C04  num_constants = number of blocks of the c layout
  tensor_sizes_integral / tensor_sizes_expression   declared extents of A, w, c, coordinate_dofs = contract extents

Core Lean only (no Mathlib needed).
-/
import FfcxModel.IR.Layout
import FfcxModel.LNodes.Sem

namespace Ffcx.Layout

/-! ### sums of prefixes -/

theorem sum_take_succ (xs : List Nat) (k : Nat) (h : k < xs.length) :
    (xs.take (k + 1)).sum = (xs.take k).sum + xs.getD k 0 := by
  induction xs generalizing k with
  | nil => simp at h
  | cons a l ih =>
    cases k with
    | zero => simp
    | succ k =>
      have := ih k (by simpa using h)
      simp only [List.take_succ_cons, List.sum_cons, List.getD_cons_succ] at this ⊢
      omega

theorem sum_take_le (xs : List Nat) (j k : Nat) (h : j ≤ k) :
    (xs.take j).sum ≤ (xs.take k).sum := by
  induction xs generalizing j k with
  | nil => simp
  | cons a l ih =>
    cases j with
    | zero => simp
    | succ j =>
      cases k with
      | zero => omega
      | succ k =>
        have := ih j k (by omega)
        simp only [List.take_succ_cons, List.sum_cons]
        omega

theorem sum_take_le_sum (xs : List Nat) (k : Nat) : (xs.take k).sum ≤ xs.sum := by
  have := sum_take_le xs k xs.length
  by_cases h : k ≤ xs.length
  · simpa using this h
  · rw [List.take_of_length_le (by omega)]; exact Nat.le_refl _

theorem exists_block (xs : List Nat) (x : Nat) (h : x < xs.sum) :
    ∃ k, k < xs.length ∧ (xs.take k).sum ≤ x ∧ x < (xs.take k).sum + xs.getD k 0 := by
  induction xs generalizing x with
  | nil => simp at h
  | cons a l ih =>
    by_cases hx : x < a
    · exact ⟨0, by simp, by simp, by simpa using hx⟩
    · simp only [List.sum_cons] at h
      obtain ⟨k, hk, h1, h2⟩ := ih (x - a) (by omega)
      refine ⟨k + 1, by simpa using hk, ?_, ?_⟩
      · simp only [List.take_succ_cons, List.sum_cons]; omega
      · simp only [List.take_succ_cons, List.sum_cons, List.getD_cons_succ]; omega

/-! ### offsetsFrom: closed form -/

@[simp] theorem offsetsFrom_length (s : Nat) (xs : List Nat) :
    (offsetsFrom s xs).length = xs.length := by
  induction xs generalizing s with
  | nil => rfl
  | cons a l ih => simp [offsetsFrom, ih]

theorem offsetsFrom_getD (s : Nat) (xs : List Nat) (k : Nat) (h : k < xs.length) :
    (offsetsFrom s xs).getD k 0 = s + (xs.take k).sum := by
  induction xs generalizing s k with
  | nil => simp at h
  | cons a l ih =>
    cases k with
    | zero => simp [offsetsFrom]
    | succ k =>
      have := ih (s + a) k (by simpa using h)
      simp only [offsetsFrom, List.getD_cons_succ, List.take_succ_cons, List.sum_cons] at this ⊢
      omega

/-- Blocks `[offs[k], offs[k] + sizes[k])`, `k < n`, tile `[0, total)`: pairwise disjoint, in
increasing order, contiguous (no gaps), inside `[0,total)` and covering it. -/
structure Tiles (offs sizes : List Nat) (total : Nat) : Prop where
  length_eq : offs.length = sizes.length
  first : 0 < sizes.length → offs.getD 0 0 = 0
  contiguous : ∀ k, k + 1 < sizes.length → offs.getD (k + 1) 0 = offs.getD k 0 + sizes.getD k 0
  last : ∀ k, k + 1 = sizes.length → offs.getD k 0 + sizes.getD k 0 = total
  ordered : ∀ j k, j < k → k < sizes.length → offs.getD j 0 + sizes.getD j 0 ≤ offs.getD k 0
  inside : ∀ k, k < sizes.length → offs.getD k 0 + sizes.getD k 0 ≤ total
  cover : ∀ x, x < total → ∃ k, k < sizes.length ∧ offs.getD k 0 ≤ x ∧ x < offs.getD k 0 + sizes.getD k 0
  total_eq : total = sizes.sum

/-- disjointness in the usual form: a position belongs to at most one block -/
theorem Tiles.disjoint {offs sizes : List Nat} {total : Nat} (T : Tiles offs sizes total)
    (j k x : Nat) (hj : j < sizes.length) (hk : k < sizes.length)
    (h1 : offs.getD j 0 ≤ x ∧ x < offs.getD j 0 + sizes.getD j 0)
    (h2 : offs.getD k 0 ≤ x ∧ x < offs.getD k 0 + sizes.getD k 0) : j = k := by
  rcases Nat.lt_trichotomy j k with h | h | h
  · have := T.ordered j k h hk; omega
  · exact h
  · have := T.ordered k j h hj; omega

theorem offsetsFrom_tiles (sizes : List Nat) : Tiles (offsetsFrom 0 sizes) sizes sizes.sum where
  length_eq := by simp
  first := fun h => by rw [offsetsFrom_getD 0 sizes 0 h]; simp
  contiguous := fun k h => by
    rw [offsetsFrom_getD 0 sizes (k + 1) h, offsetsFrom_getD 0 sizes k (by omega),
      sum_take_succ sizes k (by omega)]; omega
  last := fun k h => by
    rw [offsetsFrom_getD 0 sizes k (by omega)]
    have := sum_take_succ sizes k (by omega)
    rw [h, List.take_length] at this; omega
  ordered := fun j k hjk hk => by
    rw [offsetsFrom_getD 0 sizes j (by omega), offsetsFrom_getD 0 sizes k hk]
    have h1 := sum_take_succ sizes j (by omega)
    have h2 := sum_take_le sizes (j + 1) k (by omega)
    omega
  inside := fun k hk => by
    rw [offsetsFrom_getD 0 sizes k hk]
    have h1 := sum_take_succ sizes k hk
    have h2 := sum_take_le_sum sizes (k + 1)
    omega
  cover := fun x hx => by
    obtain ⟨k, hk, h1, h2⟩ := exists_block sizes x hx
    exact ⟨k, hk, by rw [offsetsFrom_getD 0 sizes k hk]; omega,
      by rw [offsetsFrom_getD 0 sizes k hk]; omega⟩
  total_eq := rfl

/-! ### C05: coefficient blocks -/

theorem blockSizes_sum (width : Nat) (dims : List Nat) :
    (blockSizes width dims).sum = width * dims.sum := by
  induction dims with
  | nil => simp [blockSizes]
  | cons a l ih =>
    simp only [blockSizes, List.map_cons, List.sum_cons] at ih ⊢
    rw [ih, Nat.mul_add]

theorem blockSizes_getD (width : Nat) (dims : List Nat) (k : Nat) :
    (blockSizes width dims).getD k 0 = width * dims.getD k 0 := by
  induction dims generalizing k with
  | nil => simp [blockSizes]
  | cons a l ih =>
    cases k with
    | zero => simp [blockSizes]
    | succ k => simpa [blockSizes] using ih k

/-- **C05 `coeff_blocks_tile`.**  For ANY list of element dimensions and any `width` (the code uses
1, and 2 for interior facets), the blocks `[off_k, off_k + width·dim_k)` that
`_compute_integral_ir` / `_compute_expression_ir` assign to the reduced coefficients are pairwise
disjoint, ordered, contiguous and cover exactly `[0, width·Σdim)`; block `k` has size
`width·dim_k` ("its element dimension, twice that for interior facets"). -/
theorem coeff_blocks_tile (width : Nat) (dims : List Nat) :
    Tiles (coeffOffsets width dims) (blockSizes width dims) (width * dims.sum)
    ∧ (blockSizes width dims).length = dims.length
    ∧ (∀ k, (blockSizes width dims).getD k 0 = width * dims.getD k 0)
    ∧ coeffTotal width dims = width * dims.sum := by
  refine ⟨?_, by simp [blockSizes], blockSizes_getD width dims, blockSizes_sum width dims⟩
  have := offsetsFrom_tiles (blockSizes width dims)
  rw [blockSizes_sum] at this
  exact this

/-- every `w[offset_k + dof]` with `dof < width·dim_k` is inside block `k` and inside `w`.
`coeffAccess` is tied to the code by `harness/layout_checks._coeff_access_cases`: the index expressions the REAL
`FFCXBackendSymbols.coefficient_dof_access` (call sites of access.py and definitions.py) and
`coefficient_dof_access_blocked` build over the real `coefficient_offsets` of every IntegralIR of the run are
exported and evaluated by the Lean `evalI` (driver command `evali`) and compared with `coeffAccess`
(driver command `coeffaccess`) for a seeded (block size, begin, dof); `Ffcx.LNodes.coeffAccess_reads`
(FfcxProofs/C05.lean) connects it to the per-read block attribution. -/
theorem coeffAccess_in_block (width : Nat) (dims : List Nat) (k dof : Nat)
    (hk : k < dims.length) (hd : dof < width * dims.getD k 0) :
    (coeffOffsets width dims).getD k 0 ≤ coeffAccess width dims k dof
    ∧ coeffAccess width dims k dof < (coeffOffsets width dims).getD k 0 + width * dims.getD k 0
    ∧ coeffAccess width dims k dof < width * dims.sum := by
  obtain ⟨T, hl, hs, _⟩ := coeff_blocks_tile width dims
  have := T.inside k (by omega)
  rw [hs k] at this
  simp only [coeffAccess]
  omega

/-- width table: on the integral types FFCx supports, `width = 2` exactly for interior facets
(the substring test `in ("interior_facet")` happens to agree with equality there). -/
theorem width_table :
    widthOf "cell" = 1 ∧ widthOf "exterior_facet" = 1 ∧ widthOf "interior_facet" = 2
    ∧ widthOf "vertex" = 1 ∧ widthOf "ridge" = 1 := by decide

/-- … but it is a substring test: a hypothetical integral type "facet" would get width 2. -/
theorem width_substring_witness : widthOf "facet" = 2 := by decide

/-! ### row-major flattening -/

@[simp] theorem shapeProd_nil : shapeProd [] = 1 := rfl
@[simp] theorem shapeProd_cons (d : Nat) (ds : List Nat) : shapeProd (d :: ds) = d * shapeProd ds := rfl

/-- `flatten_lt`: any rank, any sizes. -/
theorem flatten_lt : ∀ (shape idx : List Nat), InRange shape idx →
    flatComponent shape idx < shapeProd shape := by
  intro shape
  induction shape with
  | nil => intro idx h; cases idx <;> simp [InRange, flatComponent] at *
  | cons d ds ih =>
    intro idx h
    cases idx with
    | nil => simp [InRange] at h
    | cons i is =>
      obtain ⟨hi, hr⟩ := h
      have h1 := ih is hr
      have h2 : (i + 1) * shapeProd ds ≤ d * shapeProd ds := Nat.mul_le_mul_right _ hi
      simp only [flatComponent, shapeProd_cons]
      rw [Nat.add_mul] at h2
      omega

/-- `flatten_inj`: distinct in-range multi-indices have distinct flat indices. -/
theorem flatten_inj : ∀ (shape i j : List Nat), InRange shape i → InRange shape j →
    flatComponent shape i = flatComponent shape j → i = j := by
  intro shape
  induction shape with
  | nil =>
    intro i j hi hj _
    cases i <;> cases j <;> simp [InRange] at *
  | cons d ds ih =>
    intro i j hi hj h
    cases i with
    | nil => simp [InRange] at hi
    | cons a as =>
      cases j with
      | nil => simp [InRange] at hj
      | cons b bs =>
        obtain ⟨_, hra⟩ := hi
        obtain ⟨_, hrb⟩ := hj
        have la := flatten_lt ds as hra
        have lb := flatten_lt ds bs hrb
        simp only [flatComponent] at h
        have hab : a = b := by
          rcases Nat.lt_trichotomy a b with hlt | heq | hgt
          · have : (a + 1) * shapeProd ds ≤ b * shapeProd ds := Nat.mul_le_mul_right _ hlt
            rw [Nat.add_mul] at this; omega
          · exact heq
          · have : (b + 1) * shapeProd ds ≤ a * shapeProd ds := Nat.mul_le_mul_right _ hgt
            rw [Nat.add_mul] at this; omega
        subst hab
        have : flatComponent ds as = flatComponent ds bs := by omega
        rw [ih as bs hra hrb this]

/-- Bridge to the LNodes semantics: the row-major index `flatIdx` computes for an array access
is `flatComponent` (so `flatten_lt` / `flatten_inj` speak about real `A[...]`, `w[...]`, `c[...]`). -/
theorem flatIdx_eq_flatComponent : ∀ (shape idx : List Nat), InRange shape idx →
    LNodes.flatIdx shape (idx.map Int.ofNat) = some (flatComponent shape idx) := by
  intro shape
  induction shape with
  | nil => intro idx h; cases idx <;> simp [InRange, LNodes.flatIdx, flatComponent] at *
  | cons d ds ih =>
    intro idx h
    cases idx with
    | nil => simp [InRange] at h
    | cons i is =>
      obtain ⟨hi, hr⟩ := h
      have hc : (0 : Int) ≤ Int.ofNat i ∧ Int.ofNat i < (d : Int) := by
        constructor
        · exact Int.natCast_nonneg i
        · exact Int.ofNat_lt.mpr hi
      simp only [List.map_cons, LNodes.flatIdx, hc, and_self, if_true, ih is hr, flatComponent]
      rfl

/-! ### C05: constant blocks -/

/-- **C05 `const_blocks_tile`.**  The blocks `[off_k, off_k + Πshape_k)` assigned to the constants
of the ORIGINAL form/expression (in that order) tile `[0, ΣΠshape)`, and the row-major flat
component of an in-range component index lies inside the constant's own block. -/
theorem const_blocks_tile (shapes : List (List Nat)) :
    Tiles (constOffsets shapes) (shapes.map shapeProd) (constTotal shapes)
    ∧ (∀ k idx, k < shapes.length → InRange (shapes.getD k []) idx →
        (constOffsets shapes).getD k 0 ≤ constAccess shapes k idx
        ∧ constAccess shapes k idx < (constOffsets shapes).getD k 0 + shapeProd (shapes.getD k [])
        ∧ constAccess shapes k idx < constTotal shapes) := by
  have T := offsetsFrom_tiles (shapes.map shapeProd)
  refine ⟨T, ?_⟩
  intro k idx hk hr
  have h1 := flatten_lt _ _ hr
  have h2 := T.inside k (by simpa using hk)
  have h3 : (shapes.map shapeProd).getD k 0 = shapeProd (shapes.getD k []) := by
    simp [List.getD_eq_getElem?_getD, hk]
  rw [h3] at h2
  simp only [constAccess, constOffsets, constTotal] at *
  omega

/-! ### original_coefficient_positions -/

theorem survivingIdx_lt {α} (p : α → Bool) (l : List α) : ∀ i ∈ survivingIdx p l, i < l.length := by
  induction l with
  | nil => simp [survivingIdx]
  | cons a l ih =>
    intro i hi
    simp only [survivingIdx, List.mem_append, List.mem_map] at hi
    rcases hi with hi | ⟨j, hj, rfl⟩
    · split at hi <;> simp at hi; subst hi; simp
    · have := ih j hj; simp; omega

theorem survivingIdx_sorted {α} (p : α → Bool) (l : List α) :
    (survivingIdx p l).Pairwise (· < ·) := by
  induction l with
  | nil => simp [survivingIdx]
  | cons a l ih =>
    simp only [survivingIdx]
    rw [List.pairwise_append]
    refine ⟨by split <;> simp, ?_, ?_⟩
    · rw [List.pairwise_map]; exact ih.imp (by intro a b h; omega)
    · intro x hx y hy
      split at hx <;> simp at hx
      subst hx
      simp only [List.mem_map] at hy
      obtain ⟨j, _, rfl⟩ := hy
      omega

theorem survivingIdx_length {α} (p : α → Bool) (l : List α) :
    (survivingIdx p l).length = (l.filter p).length := by
  induction l with
  | nil => simp [survivingIdx]
  | cons a l ih =>
    simp only [survivingIdx, List.length_append, List.length_map, ih, List.filter_cons]
    split <;> simp <;> omega

theorem survivingIdx_get {α} (p : α → Bool) (l : List α) :
    (survivingIdx p l).filterMap (l[·]?) = l.filter p := by
  induction l with
  | nil => simp [survivingIdx]
  | cons a l ih =>
    simp only [survivingIdx, List.filterMap_append, List.filterMap_map, List.filter_cons]
    have : List.filterMap ((fun x => (a :: l)[x]?) ∘ fun x => x + 1) (survivingIdx p l)
        = List.filterMap (l[·]?) (survivingIdx p l) := by
      congr 1
    rw [this, ih]
    split <;> simp

theorem origPositions_filter {α} [DecidableEq α] (p : α → Bool) (orig : List α) (hn : orig.Nodup) :
    origPositions orig (orig.filter p) = survivingIdx p orig := by
  induction orig with
  | nil => simp [origPositions, survivingIdx]
  | cons a l ih =>
    have hn' : l.Nodup := (List.nodup_cons.mp hn).2
    have ha : a ∉ l := (List.nodup_cons.mp hn).1
    have hrest : (l.filter p).map (List.idxOf · (a :: l)) = (survivingIdx p l).map (· + 1) := by
      rw [← ih hn']
      simp only [origPositions, List.map_map]
      apply List.map_congr_left
      intro x hx
      have hxl : x ∈ l := (List.mem_filter.mp hx).1
      have hne : a ≠ x := fun h => ha (h ▸ hxl)
      have : (a == x) = false := by simpa using hne
      simp [List.idxOf_cons, this]
    simp only [origPositions, survivingIdx, List.filter_cons]
    split
    · simp only [List.map_cons, List.singleton_append]
      rw [hrest]
      simp
    · simp only [List.nil_append]
      rw [hrest]

theorem sublist_eq_filter {α} [DecidableEq α] {red orig : List α} (h : red.Sublist orig)
    (hn : orig.Nodup) : red = orig.filter (fun a => decide (a ∈ red)) := by
  induction h with
  | slnil => simp
  | cons a h ih =>
    rename_i l₁ l₂
    have ha : a ∉ l₂ := (List.nodup_cons.mp hn).1
    have : a ∉ l₁ := fun hm => ha (h.subset hm)
    simp only [List.filter_cons, this, decide_false]
    exact ih (List.nodup_cons.mp hn).2
  | cons_cons a h ih =>
    rename_i l₁ l₂
    have ha : a ∉ l₂ := (List.nodup_cons.mp hn).1
    have hn' := (List.nodup_cons.mp hn).2
    simp only [List.filter_cons, List.mem_cons, true_or, decide_true, if_true]
    congr 1
    have e := ih hn'
    refine e.trans (List.filter_congr ?_)
    intro x hx
    have : x ≠ a := fun hh => ha (hh ▸ hx)
    simp [this]

/-- **C04/C05 `orig_positions`.**  If the surviving coefficients are a sub-list of the original
coefficient list (same relative order) and the original list has no repetition, then
`original_coefficient_positions` is strictly increasing, has one entry per surviving coefficient
(`num_coefficients`), every entry is a valid index of the original list, entry `i` is THE index of
surviving coefficient `i`, and the list is exactly the list of indices of the survivors. -/
theorem orig_positions {α} [DecidableEq α] (orig reduced : List α)
    (hsub : reduced.Sublist orig) (hn : orig.Nodup) :
    (origPositions orig reduced).Pairwise (· < ·)
    ∧ (origPositions orig reduced).length = reduced.length
    ∧ (∀ i ∈ origPositions orig reduced, i < orig.length)
    ∧ (origPositions orig reduced).filterMap (orig[·]?) = reduced
    ∧ origPositions orig reduced = survivingIdx (fun a => decide (a ∈ reduced)) orig := by
  have e := sublist_eq_filter hsub hn
  have hp : origPositions orig reduced = survivingIdx (fun a => decide (a ∈ reduced)) orig := by
    conv => lhs; rw [e]
    exact origPositions_filter _ orig hn
  refine ⟨?_, by simp [origPositions], ?_, ?_, hp⟩
  · rw [hp]; exact survivingIdx_sorted _ _
  · rw [hp]; exact survivingIdx_lt _ _
  · rw [hp, survivingIdx_get]; exact e.symm

/-! ### C04: expression layout and descriptor -/

/-- **C04 `expr_layout`.**  `MultiIndex([iq, comp, dof], [P, C, D])` flattens (in the LNodes
semantics) to `iq·C·D + comp·D + dof`, which is inside `A[P·C·D]`. -/
theorem expr_layout (P C D iq comp dof : Nat) (h1 : iq < P) (h2 : comp < C) (h3 : dof < D) :
    LNodes.flatIdx [P, C, D] [(iq : Int), (comp : Int), (dof : Int)] = some (iq * C * D + comp * D + dof)
    ∧ iq * C * D + comp * D + dof < P * C * D := by
  have hr : InRange [P, C, D] [iq, comp, dof] := ⟨h1, h2, h3, trivial⟩
  have e := flatIdx_eq_flatComponent _ _ hr
  have l := flatten_lt _ _ hr
  have v : flatComponent [P, C, D] [iq, comp, dof] = iq * C * D + comp * D + dof := by
    simp [flatComponent, Nat.mul_assoc, Nat.add_assoc]
  have s : shapeProd [P, C, D] = P * C * D := by simp [Nat.mul_assoc]
  rw [v] at e l
  rw [s] at l
  exact ⟨e, l⟩

/-- … and it is injective: two different (point, component, dof) triples never share a slot. -/
theorem expr_layout_inj (P C D iq comp dof iq' comp' dof' : Nat)
    (h1 : iq < P) (h2 : comp < C) (h3 : dof < D) (h1' : iq' < P) (h2' : comp' < C) (h3' : dof' < D)
    (h : iq * C * D + comp * D + dof = iq' * C * D + comp' * D + dof') :
    iq = iq' ∧ comp = comp' ∧ dof = dof' := by
  have hr : InRange [P, C, D] [iq, comp, dof] := ⟨h1, h2, h3, trivial⟩
  have hr' : InRange [P, C, D] [iq', comp', dof'] := ⟨h1', h2', h3', trivial⟩
  have := flatten_inj _ _ _ hr hr' (by simpa [flatComponent, Nat.mul_assoc, Nat.add_assoc] using h)
  simpa using this

/-- rank-0 expressions: `A[iq][comp]`. -/
theorem expr_layout_rank0 (P C iq comp : Nat) (h1 : iq < P) (h2 : comp < C) :
    LNodes.flatIdx [P, C] [(iq : Int), (comp : Int)] = some (iq * C + comp) ∧ iq * C + comp < P * C := by
  have hr : InRange [P, C] [iq, comp] := ⟨h1, h2, trivial⟩
  have e := flatIdx_eq_flatComponent _ _ hr
  have l := flatten_lt _ _ hr
  have v : flatComponent [P, C] [iq, comp] = iq * C + comp := by simp [flatComponent]
  have s : shapeProd [P, C] = P * C := by simp
  rw [v] at e l
  rw [s] at l
  exact ⟨e, l⟩

theorem entityType_ok (tdim : Option Nat) (pdim : Nat) (s : String) (h : entityType tdim pdim = .ok s) :
    (s = "cell" ∧ (tdim = none ∨ tdim = some pdim)) ∨ (s = "facet" ∧ tdim = some (pdim + 1)) := by
  unfold entityType at h
  split at h
  · left; simp at h; exact ⟨h.symm, Or.inl rfl⟩
  · rename_i t
    split at h
    · left; rename_i ht; simp at h; exact ⟨h.symm, Or.inr (by rw [ht])⟩
    · split at h
      · right; rename_i ht; simp at h; exact ⟨h.symm, by rw [ht]⟩
      · simp at h

/-- the error branch: a domain of dimension `t` with points of dimension other than `t`, `t-1` is rejected -/
theorem entityType_error (t pdim : Nat) (h1 : t ≠ pdim) (h2 : t ≠ pdim + 1) :
    ∃ m, entityType (some t) pdim = .error m := by
  simp [entityType, h1, h2]

/-- **C04 `expr_descriptor`.**  Whenever `_compute_expression_ir` + `C/expression.py` accept an
expression, the descriptor describes the layout `A[point][component][argument dof]`:
`num_points = P`, `entity_dimension = pdim ∈ {tdim, tdim-1}` (or no domain), `value_shape` is the UFL
shape and `num_components` its LENGTH (as ufcx.h documents), `rank ≤ 1`, the extent of `A` is
`P·Πvalue_shape·Πargdims` = Π `A_shape`, `num_coefficients = len(original_coefficient_positions)`. -/
theorem expr_descriptor (e : ExprIn) (d : ExprDesc) (h : exprDesc e = .ok d) :
    d.numPoints = e.numPoints ∧ d.entityDimension = e.pdim
    ∧ (e.tdim = none ∨ e.tdim = some e.pdim ∨ e.tdim = some (e.pdim + 1))
    ∧ d.valueShape = e.shape ∧ d.numComponents = d.valueShape.length
    ∧ d.rank = e.argDims.length ∧ d.rank ≤ 1
    ∧ d.sizeA = shapeProd (exprAShape e)
    ∧ d.numCoefficients = d.origPositions.length := by
  unfold exprDesc at h
  split at h
  · simp at h
  · rename_i hr
    split at h
    · simp at h
    · rename_i et het
      simp only [Except.ok.injEq] at h
      subst h
      have := entityType_ok _ _ _ het
      refine ⟨rfl, rfl, ?_, rfl, rfl, rfl, by simpa using hr, ?_, by simp [origPositions]⟩
      · rcases this with ⟨_, h | h⟩ | ⟨_, h⟩
        · exact Or.inl h
        · exact Or.inr (Or.inl h)
        · exact Or.inr (Or.inr h)
      · simp [exprAShape, shapeProd, Nat.mul_assoc]

/-- more than one Argument is rejected -/
theorem exprDesc_two_arguments (e : ExprIn) (h : e.argDims.length > 1) :
    exprDesc e = .error "Expression with more than one Argument not implemented." := by
  simp [exprDesc, h]

/-- **C04 `expr_num_constants`** (full).  The descriptor's `num_constants` (= number of `constant_names`)
is the number of constant blocks the kernel's `c` is laid out with (`original_constant_offsets` has one
block per constant of the ORIGINAL expression, in that order), whatever preprocessing removes; and
for every named constant `k` the slot the kernel reads for an in-range component,
`c[constAccess … k idx]`, lies in block `k` of that layout and inside `c[0, ΣΠshape)`. -/
theorem expr_num_constants (e : ExprIn) (d : ExprDesc) (h : exprDesc e = .ok d) :
    d.numConstants = e.origConstShapes.length
    ∧ d.numConstants = (constOffsets e.origConstShapes).length
    ∧ Tiles (constOffsets e.origConstShapes) (e.origConstShapes.map shapeProd) (constTotal e.origConstShapes)
    ∧ (∀ k idx, k < d.numConstants → InRange (e.origConstShapes.getD k []) idx →
        (constOffsets e.origConstShapes).getD k 0 ≤ constAccess e.origConstShapes k idx
        ∧ constAccess e.origConstShapes k idx
            < (constOffsets e.origConstShapes).getD k 0 + shapeProd (e.origConstShapes.getD k [])
        ∧ constAccess e.origConstShapes k idx < constTotal e.origConstShapes) := by
  have hn : d.numConstants = e.origConstShapes.length := by
    unfold exprDesc at h
    split at h
    · simp at h
    · split at h
      · simp at h
      · simp only [Except.ok.injEq] at h
        subst h
        rfl
  obtain ⟨T, hacc⟩ := const_blocks_tile e.origConstShapes
  refine ⟨hn, by simp [constOffsets, hn], T, ?_⟩
  intro k idx hk hr
  exact hacc k idx (by omega) hr

/-- the former witness of `exprdesc:num_constants:dropped-constant`:
`diff(c1*g + c3*h + c2[1]*x*x, x)`, `x = variable(f)`; constants of the original expression have
shapes `(), (2,), ()`; only `c2` survives preprocessing. -/
def dropWitness : ExprIn :=
  { tdim := some 2, numPoints := 2, pdim := 2, shape := [], argDims := [],
    origCoeffs := [0, 1, 2], coeffs := [0], origConstShapes := [[], [2], []], numConstsReduced := 1 }

/-- on the witness the descriptor now announces all 3 constants (it was 1), and the slot the kernel reads,
`c[2]`, is component 1 of constant 1 inside `c[0,4)`. -/
theorem expr_num_constants_witness :
    ∃ d, exprDesc dropWitness = .ok d ∧ d.numConstants = 3
      ∧ constAccess dropWitness.origConstShapes 1 [1] = 2 ∧ constTotal dropWitness.origConstShapes = 4 := by
  refine ⟨_, rfl, ?_, ?_, ?_⟩ <;> decide

/-! ### tensor_sizes (extents the numba backend declares for A, w, c, coordinate_dofs) -/

/-- the integral types of `ufcx.h` / `supported_integral_types` (cf. `Ffcx.C06.enum_order`) -/
def integralTypes : List String := ["cell", "exterior_facet", "interior_facet", "vertex", "ridge"]

/-- on the supported integral types the two width tests of the code base agree
(`in ("interior_facet")` in `_compute_integral_ir`, `== "interior_facet"` in `tensor_sizes`) -/
theorem width_agree (t : String) (h : t ∈ integralTypes) : widthOf t = tensorWidth t := by
  simp only [integralTypes, List.mem_cons, List.not_mem_nil, or_false] at h
  rcases h with rfl | rfl | rfl | rfl | rfl <;> decide

/-- **`tensor_sizes_integral`** (full).  For every supported integral type, ANY number of coefficients and
constants, any argument dimensions, with or without diagonalisation, the extents `tensor_sizes` declares
equal the UFCx contract extents:
`A = Π_j width·argdim_j` (first argument only when diagonalising),
`w = width·Σdim` = end of the last coefficient block (`coeff_blocks_tile`),
`c = ΣΠshape` = end of the last constant block (`const_blocks_tile`),
`coordinate_dofs = width·nodes·3`, with `width = 2` exactly for interior facets. -/
theorem tensor_sizes_integral (t : String) (ht : t ∈ integralTypes) (argDims dims : List Nat)
    (diag : Bool) (constShapes : List (List Nat)) (nodes : Nat) (perm : Bool) :
    let s := tensorSizesIntegral t (integralTensorShape t argDims diag) dims constShapes nodes perm
    s.A = shapeProd (((if diag then argDims.take 1 else argDims)).map (widthOf t * ·))
    ∧ s.w = coeffTotal (widthOf t) dims
    ∧ Tiles (coeffOffsets (widthOf t) dims) (blockSizes (widthOf t) dims) s.w
    ∧ s.c = constTotal constShapes
    ∧ Tiles (constOffsets constShapes) (constShapes.map shapeProd) s.c
    ∧ s.coords = widthOf t * nodes * 3
    ∧ (widthOf t = 2 ↔ t = "interior_facet") ∧ (widthOf t = 1 ∨ widthOf t = 2) := by
  intro s
  have hw := width_agree t ht
  have hA : s.A = shapeProd (((if diag then argDims.take 1 else argDims)).map (widthOf t * ·)) := by
    simp only [s, tensorSizesIntegral, integralTensorShape, hw, tensorWidth]
    by_cases hi : t = "interior_facet" <;> cases diag <;> simp [hi, List.map_take]
  have hcw : s.w = coeffTotal (widthOf t) dims := by
    rw [(coeff_blocks_tile (widthOf t) dims).2.2.2, hw]; rfl
  refine ⟨hA, hcw, ?_, rfl, (const_blocks_tile constShapes).1, by rw [hw]; rfl, ?_, ?_⟩
  · rw [hcw, (coeff_blocks_tile (widthOf t) dims).2.2.2]
    exact (coeff_blocks_tile (widthOf t) dims).1
  · rw [hw]; simp only [tensorWidth]; by_cases hi : t = "interior_facet" <;> simp [hi]
  · rw [hw]; simp only [tensorWidth]; by_cases hi : t = "interior_facet" <;> simp [hi]

/-- **`tensor_sizes_expression`** (full).  For every accepted expression the declared extents are the contract
extents: `A = num_points·Πvalue_shape·Πargdims` = Π`A_shape` (the descriptor's `sizeA`), `w = Σdim` =
end of the last coefficient block (width 1), `c = ΣΠshape` of the ORIGINAL constants,
`coordinate_dofs = nodes·3`. -/
theorem tensor_sizes_expression (e : ExprIn) (d : ExprDesc) (h : exprDesc e = .ok d)
    (dims : List Nat) (nodes : Nat) (perm : Bool) :
    let s := tensorSizesExpr e.numPoints e.shape e.argDims dims e.origConstShapes nodes perm
    s.A = d.sizeA ∧ s.A = shapeProd (exprAShape e)
    ∧ s.w = coeffTotal 1 dims ∧ Tiles (coeffOffsets 1 dims) (blockSizes 1 dims) s.w
    ∧ s.c = constTotal e.origConstShapes ∧ s.coords = nodes * 3 := by
  intro s
  have hd := (expr_descriptor e d h).2.2.2.2.2.2.2.1
  have hA : s.A = d.sizeA := by
    unfold exprDesc at h
    split at h
    · simp at h
    · split at h
      · simp at h
      · simp only [Except.ok.injEq] at h
        subst h
        rfl
  have hw : s.w = coeffTotal 1 dims := by
    rw [(coeff_blocks_tile 1 dims).2.2.2]; simp [s, tensorSizesExpr]
  refine ⟨hA, hA.trans hd, hw, ?_, rfl, rfl⟩
  rw [hw, (coeff_blocks_tile 1 dims).2.2.2]
  exact (coeff_blocks_tile 1 dims).1

/-- the former witness of `tensor_sizes:w:interior_facet` (one P1-triangle coefficient, interior facet,
rank 1): `w` is now 6 (it was 3), `coordinate_dofs` 18, `A` 6. -/
theorem tensor_sizes_interior_witness :
    tensorSizesIntegral "interior_facet" (integralTensorShape "interior_facet" [3] false) [3] [] 3 true
      = { A := 6, w := 6, c := 0, coords := 18, localIndex := 2, permutation := 2 } := by decide

/-! ### non-vacuity -/

example : coeffOffsets 2 [3, 6, 1] = [0, 6, 18] ∧ coeffTotal 2 [3, 6, 1] = 20 := by decide
example : constOffsets [[2, 2], [], [3]] = [0, 4, 5] ∧ constTotal [[2, 2], [], [3]] = 8 := by decide
example : InRange [2, 3] [1, 2] ∧ flatComponent [2, 3] [1, 2] = 5 :=
  ⟨⟨by omega, by omega, trivial⟩, by decide⟩
example : origPositions [10, 11, 12, 13] [11, 13] = [1, 3] := by decide
example : ([11, 13] : List Nat).Sublist [10, 11, 12, 13] ∧ ([10, 11, 12, 13] : List Nat).Nodup := by
  decide
def facetWitness : ExprIn :=
  { tdim := some 2, numPoints := 3, pdim := 1, shape := [2], argDims := [3],
    origCoeffs := [0, 1], coeffs := [1], origConstShapes := [[]], numConstsReduced := 1 }
example : ∃ d, exprDesc facetWitness = .ok d
    ∧ d.entityType = "facet" ∧ d.sizeA = 18 ∧ d.origPositions = [1] := ⟨_, rfl, by decide⟩

end Ffcx.Layout

/-! ## C06 helpers: permutations, argsort, offsets loop, slices, `_compute_form_ir` -/

namespace Ffcx.Layout

theorem getD_eq_getElem' {α} (l : List α) (d : α) (t : Nat) (h : t < l.length) :
    l.getD t d = l[t] := by
  simp [List.getD_eq_getElem?_getD, h]

theorem pairwise_const {α β} (R : β → β → Prop) (b : β) (hb : R b b) (l : List α) :
    (l.map (fun _ => b)).Pairwise R := by
  induction l with
  | nil => simp
  | cons a l ih =>
    simp only [List.map_cons, List.pairwise_cons]
    refine ⟨?_, ih⟩
    intro x hx
    simp only [List.mem_map] at hx
    obtain ⟨_, _, rfl⟩ := hx
    exact hb

theorem range_filterMap_getElem? {α} (g : List α) :
    (List.range g.length).filterMap (g[·]?) = g := by
  induction g with
  | nil => simp
  | cons a l ih =>
    rw [List.length_cons, List.range_succ_eq_map, List.filterMap_cons]
    simp only [List.getElem?_cons_zero, List.filterMap_map]
    congr 1

theorem applyPerm_perm {α} (π : List Nat) (g : List α) (h : π.Perm (List.range g.length)) :
    (applyPerm π g).Perm g := by
  have := List.Perm.filterMap (g[·]?) h
  rw [range_filterMap_getElem?] at this
  exact this

theorem applyPerm_map {α β} (f : α → β) (π : List Nat) (g : List α) :
    (applyPerm π g).map f = applyPerm π (g.map f) := by
  simp only [applyPerm, List.map_filterMap]
  congr 1
  funext i
  simp [List.getElem?_map]

/-- the stable merge-sort argsort satisfies the relation assumed of `np.argsort` -/
theorem argsortStable_isArgsort (ids : List Int) : IsArgsort ids (argsortStable ids) := by
  have hperm := List.mergeSort_perm ids.zipIdx (fun a b => decide (a.1 ≤ b.1))
  have hsorted := List.pairwise_mergeSort (le := fun (a b : Int × Nat) => decide (a.1 ≤ b.1))
    (by intro a b c; simp; omega) (by intro a b; simp; omega) ids.zipIdx
  constructor
  · have := hperm.map (·.2)
    simp only [argsortStable]
    refine this.trans ?_
    rw [List.zipIdx_map_snd, List.range_eq_range']
  · -- on pairs of `zipIdx`, looking up the index gives back the id
    have key : ∀ (l : List (Int × Nat)), (∀ p ∈ l, ids[p.2]? = some p.1) →
        applyPerm (l.map (·.2)) ids = l.map (·.1) := by
      intro l
      induction l with
      | nil => intro _; simp [applyPerm]
      | cons p l ih =>
        intro h
        have hp := h p (by simp)
        have := ih (fun q hq => h q (by simp [hq]))
        simp only [applyPerm, List.map_cons, List.filterMap_cons, hp] at this ⊢
        rw [this]
    have hmem : ∀ p ∈ ids.zipIdx.mergeSort (fun a b => decide (a.1 ≤ b.1)), ids[p.2]? = some p.1 := by
      intro p hp
      have : p ∈ ids.zipIdx := hperm.subset hp
      exact List.mk_mem_zipIdx_iff_getElem?.mp this
    simp only [argsortStable]
    rw [key _ hmem, List.pairwise_map]
    exact hsorted.imp (by intro a b h; simpa using h)

theorem isArgsortB_sound (ids : List Int) (π : List Nat) (h : isArgsortB ids π = true) :
    π.Perm (List.range ids.length) := by
  simp only [isArgsortB, Bool.and_eq_true] at h
  exact List.isPerm_iff.mp h.1

/-- `start + c₀, start + c₀ + c₁, …` -/
def cumulFrom (s : Nat) : List Nat → List Nat
  | [] => []
  | c :: cs => (s + c) :: cumulFrom (s + c) cs

theorem cumul_getElem? (s : Nat) (cs : List Nat) (t : Nat) (h : t ≤ cs.length) :
    (s :: cumulFrom s cs)[t]? = some (s + (cs.take t).sum) := by
  induction cs generalizing s t with
  | nil => have : t = 0 := by simpa using h
           subst this; simp
  | cons c cs ih =>
    cases t with
    | zero => simp
    | succ t =>
      have := ih (s + c) t (by simpa using h)
      simp only [cumulFrom, List.getElem?_cons_succ, List.take_succ_cons, List.sum_cons] at this ⊢
      rw [this]; congr 1; omega

@[simp] theorem cumulFrom_length (s : Nat) (cs : List Nat) : (cumulFrom s cs).length = cs.length := by
  induction cs generalizing s with
  | nil => rfl
  | cons c cs ih => simp [cumulFrom, ih]

theorem delimits_cumul (cs : List Nat) : Delimits (0 :: cumulFrom 0 cs) cs := by
  refine ⟨by simp, ?_⟩
  intro t ht
  simpa using cumul_getElem? 0 cs t ht

/-- consequences of `Delimits` in the form the property uses -/
theorem Delimits.first {offs counts : List Nat} (h : Delimits offs counts) : offs[0]? = some 0 := by
  simpa using h.2 0 (Nat.zero_le _)

theorem Delimits.last {offs counts : List Nat} (h : Delimits offs counts) :
    offs[counts.length]? = some counts.sum := by
  simpa using h.2 counts.length (Nat.le_refl _)

theorem Delimits.diff {offs counts : List Nat} (h : Delimits offs counts) (t : Nat)
    (ht : t < counts.length) : offs.getD (t + 1) 0 - offs.getD t 0 = counts.getD t 0
      ∧ offs.getD t 0 ≤ offs.getD (t + 1) 0 := by
  have h1 := h.2 t (by omega)
  have h2 := h.2 (t + 1) (by omega)
  have h3 := sum_take_succ counts t ht
  simp only [List.getD_eq_getElem?_getD, h1, h2, Option.getD_some]
  simp only [List.getD_eq_getElem?_getD] at h3
  omega

theorem kernelCount_single (g : Group) (h : ∀ e ∈ g, e.domains.length = 1) : kernelCount g = g.length := by
  induction g with
  | nil => rfl
  | cons a l ih =>
    have := ih (fun e he => h e (by simp [he]))
    have ha := h a (by simp)
    simp only [kernelCount, List.map_cons, List.sum_cons, List.length_cons] at this ⊢
    omega

/-- The offsets loop is the running sum of the kernel counts of the groups — for integrals with ANY
number of domains. -/
theorem offsLoop_eq (last : Nat) (gs : List Group) :
    offsLoop last gs = cumulFrom last (gs.map kernelCount) := by
  induction gs generalizing last with
  | nil => rfl
  | cons g gs ih => simp only [offsLoop, List.map_cons, cumulFrom, ih]

theorem slice_flatten {β} (offs : List Nat) (segs : List (List β))
    (h : Delimits offs (segs.map List.length)) (t : Nat) (ht : t < segs.length) :
    slice offs t segs.flatten = segs.getD t [] := by
  have h1 := h.2 t (by simp; omega)
  have h2 := h.2 (t + 1) (by simp; omega)
  have h3 := sum_take_succ (segs.map List.length) t (by simpa using ht)
  have hl : (segs.map List.length).getD t 0 = (segs.getD t []).length := by
    simp [List.getD_eq_getElem?_getD, ht]
  simp only [slice, List.getD_eq_getElem?_getD, h1, h2, Option.getD_some]
  rw [h3, hl, ← List.getD_eq_getElem?_getD]
  -- now a pure fact about flatten
  clear h h1 h2 h3 hl
  induction segs generalizing t with
  | nil => simp at ht
  | cons s segs ih =>
    cases t with
    | zero => simp
    | succ t =>
      have := ih t (by simpa using ht)
      simp only [List.map_cons, List.take_succ_cons, List.sum_cons, List.flatten_cons,
        List.getD_cons_succ] at this ⊢
      rw [← List.drop_drop, List.drop_left]
      have e : s.length + (List.take t (List.map List.length segs)).sum + (segs.getD t []).length
          - (s.length + (List.take t (List.map List.length segs)).sum)
          = (List.take t (List.map List.length segs)).sum + (segs.getD t []).length
            - (List.take t (List.map List.length segs)).sum := by omega
      rw [e]; exact this

theorem emit_length (g : Group) : (emit g).length = kernelCount g := by
  simp [emit, kernelCount, List.length_flatMap]

theorem emitIds_eq (es : List Entry) : emitIds es = (emit es).map (·.1) := by
  simp [emitIds, emit, List.map_flatMap, Function.comp_def]

theorem emitKernels_eq (es : List Entry) : emitKernels es = (emit es).map (·.2) := by
  simp [emitKernels, emit, List.map_flatMap, Function.comp_def]

theorem emit_flatten (gs : List Group) : emit gs.flatten = (gs.map emit).flatten := by
  induction gs with
  | nil => rfl
  | cons g gs ih =>
    simp only [List.flatten_cons, List.map_cons]
    rw [← ih]
    simp [emit, List.flatMap_append]

/-! ### `_compute_form_ir` -/

@[simp] theorem modifyAt_length {α} (f : α → α) (n : Nat) (l : List α) :
    (modifyAt f n l).length = l.length := by
  induction l generalizing n with
  | nil => cases n <;> rfl
  | cons a l ih => cases n <;> simp [modifyAt, ih]

theorem modifyAt_getD {α} (f : α → α) (n : Nat) (l : List α) (d : α) (t : Nat) (ht : t < l.length) :
    (modifyAt f n l).getD t d = if t = n then f (l.getD t d) else l.getD t d := by
  induction l generalizing n t with
  | nil => simp at ht
  | cons a l ih =>
    cases n with
    | zero => cases t <;> simp [modifyAt]
    | succ n =>
      cases t with
      | zero => simp [modifyAt]
      | succ t =>
        have := ih n t (by simpa using ht)
        simpa [modifyAt] using this

theorem expectedGroup_cons (d : ItgData) (ds : List ItgData) (t : Nat) :
    expectedGroup (d :: ds) t = (if d.itype = t then d.entries else []) ++ expectedGroup ds t := by
  simp only [expectedGroup, List.filter_cons]
  by_cases h : d.itype = t <;> simp [h]

theorem isNegative_false_iff (s : SubId) :
    s.isNegative = false ↔ (∀ i, s = .num i → 0 ≤ i) := by
  cases s with
  | otherwise => simp [SubId.isNegative]
  | num i =>
    simp only [SubId.isNegative, decide_eq_false_iff_not, SubId.num.injEq, forall_eq']
    omega

theorem tooLarge_false_iff (s : SubId) :
    s.tooLarge = false ↔ (∀ i, s = .num i → i ≤ 2147483647) := by
  cases s with
  | otherwise => simp [SubId.tooLarge]
  | num i =>
    simp only [SubId.tooLarge, decide_eq_false_iff_not, SubId.num.injEq, forall_eq']
    omega

theorem formIRStep_ok (groups : List Group) (d : ItgData) (g' : List Group)
    (h : formIRStep groups d = .ok g') :
    g' = modifyAt (· ++ d.entries) d.itype groups ∧ d.itype < groups.length
      ∧ ∀ i, SubId.num i ∈ d.subIds → 0 ≤ i ∧ i ≤ 2147483647 := by
  unfold formIRStep at h
  split at h
  · simp at h
  · rename_i hneg
    split at h
    · simp at h
    · rename_i hbig
      split at h
      · rename_i hlt
        simp only [Except.ok.injEq] at h
        refine ⟨h.symm, hlt, ?_⟩
        intro i hi
        have h1 : (SubId.num i).isNegative = false := by
          cases hb : (SubId.num i).isNegative with
          | false => rfl
          | true => exact absurd (List.any_eq_true.mpr ⟨_, hi, hb⟩) hneg
        have h2 : (SubId.num i).tooLarge = false := by
          cases hb : (SubId.num i).tooLarge with
          | false => rfl
          | true => exact absurd (List.any_eq_true.mpr ⟨_, hi, hb⟩) hbig
        exact ⟨(isNegative_false_iff _).mp h1 i rfl, (tooLarge_false_iff _).mp h2 i rfl⟩
      · simp at h

theorem formIRStep_neg (groups : List Group) (d : ItgData) (i : Int) (hi : SubId.num i ∈ d.subIds)
    (hneg : i < 0) : formIRStep groups d = .error "Integral subdomain IDs must be non-negative." := by
  unfold formIRStep
  have : d.subIds.any SubId.isNegative = true :=
    List.any_eq_true.mpr ⟨_, hi, by simp [SubId.isNegative, hneg]⟩
  simp [this]

/-- the second guard: no negative id in the tuple, one id above 2³¹−1 -/
theorem formIRStep_large (groups : List Group) (d : ItgData) (i : Int) (hi : SubId.num i ∈ d.subIds)
    (hbig : 2147483647 < i) (hnn : ∀ j, SubId.num j ∈ d.subIds → 0 ≤ j) :
    formIRStep groups d = .error "Integral subdomain IDs must fit a 32-bit signed integer." := by
  unfold formIRStep
  have h1 : d.subIds.any SubId.isNegative = false := by
    rw [List.any_eq_false]
    intro s hs
    cases s with
    | otherwise => simp [SubId.isNegative]
    | num j => have := hnn j hs; simp [SubId.isNegative]; omega
  have h2 : d.subIds.any SubId.tooLarge = true :=
    List.any_eq_true.mpr ⟨_, hi, by simp [SubId.tooLarge, hbig]⟩
  simp [h1, h2]

theorem formIRLoop_ok (groups : List Group) (itgs : List ItgData) (gs : List Group)
    (h : formIRLoop groups itgs = .ok gs) :
    gs.length = groups.length
    ∧ (∀ t, t < groups.length → gs.getD t [] = groups.getD t [] ++ expectedGroup itgs t)
    ∧ (∀ d ∈ itgs, d.itype < groups.length ∧ ∀ i, SubId.num i ∈ d.subIds → 0 ≤ i ∧ i ≤ 2147483647) := by
  induction itgs generalizing groups with
  | nil =>
    simp only [formIRLoop, Except.ok.injEq] at h
    subst h
    simp [expectedGroup]
  | cons d ds ih =>
    simp only [formIRLoop] at h
    split at h
    · simp at h
    · rename_i g' hstep
      obtain ⟨hg', hlt, hge⟩ := formIRStep_ok groups d g' hstep
      obtain ⟨hl, hget, hacc⟩ := ih g' h
      have hlen : g'.length = groups.length := by rw [hg']; simp
      refine ⟨by omega, ?_, ?_⟩
      · intro t ht
        rw [hget t (by omega), hg', modifyAt_getD _ _ _ _ _ ht, expectedGroup_cons]
        by_cases e : t = d.itype
        · simp [e]
        · have : ¬ d.itype = t := fun h => e h.symm
          simp [e, this]
      · intro x hx
        rcases List.mem_cons.mp hx with rfl | hx
        · exact ⟨hlt, hge⟩
        · have := hacc x hx
          exact ⟨by omega, this.2⟩

end Ffcx.Layout
