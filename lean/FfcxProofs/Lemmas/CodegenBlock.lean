/-
What `genOneBlock` / `genBlockParts` produce in the regular case (no tensor factors, full tensor),
and the value of the produced right-hand sides and subscripts: `fw · Π_r table_r[perm][entity][q][d_r]`
and the row-major flat index of `(block_size_r · d_r + offset_r)_r`.
-/
import FfcxModel.Codegen.Spec
import FfcxProofs.Lemmas.CodegenEval
import FfcxProofs.Lemmas.CodegenNest

set_option linter.unusedSectionVars false

namespace Ffcx.Codegen
open Ffcx Ffcx.LNodes Lean.Grind
attribute [local instance] Lean.Grind.Ring.intCast
variable {R : Type} [Field R] (x : Extra R)

/-- the entity subscript of a table access (`entity = 0` for uniform tables) -/
def entExpr (et : String) (t : TableRef) (r : Restr) : Option Expr :=
  if t.isUniform then some (.litI 0) else entityExpr et r

/-- value of a subscript that reads only literals / integer arrays -/
def subVal (σ : St R) (e : Expr) : Int := (evalI σ.iv σ.ia e).getD 0

/-- **The argument table value** `table[perm][entity][q or 0][d]` as the generated access reads it
    (1 for a "ones" table). -/
def argVal (σ : St R) (et : String) (q : Int) (a : ArgDesc) (d : Int) : R :=
  if a.table.ttype == "ones" then 1
  else readArr σ a.table.name
    [subVal σ (qpExpr a.table a.restriction),
     (match entExpr et a.table a.restriction with | some e => subVal σ e | none => 0),
     (if a.table.isPiecewise then 0 else q), d]

/-- The table of argument `a` is declared and the accesses `[perm][entity][q or 0][d]`, `d < ndofs`,
    are inside its extents (or the table is "ones": no access). -/
def ArgOk (σ : St R) (et : String) (q : Int) (a : ArgDesc) : Prop :=
  a.table.ttype = "ones" ∨
  ∃ e vp ve arr, entExpr et a.table a.restriction = some e ∧
    evalI σ.iv σ.ia (qpExpr a.table a.restriction) = some vp ∧ evalI σ.iv σ.ia e = some ve ∧
    σ.sa.get a.table.name = some arr ∧
    ∀ d : Nat, d < a.table.ndofs →
      (flatIdx arr.dims [vp, ve, (if a.table.isPiecewise then 0 else q), (d : Int)]).isSome = true

/-- subscripts built by `qpExpr` / `entityExpr` read no integer variable -/
theorem evalI_qpExpr_iv (iv iv' : AList Int) (ia) (t : TableRef) (r : Restr) :
    evalI iv ia (qpExpr t r) = evalI iv' ia (qpExpr t r) := by
  unfold qpExpr
  split
  · split <;> simp [evalI]
  · simp [evalI]

theorem evalI_entExpr_iv (iv iv' : AList Int) (ia) (et : String) (t : TableRef) (r : Restr) (e : Expr)
    (h : entExpr et t r = some e) : evalI iv ia e = evalI iv' ia e := by
  unfold entExpr at h
  split at h
  · cases h; simp [evalI]
  · unfold entityExpr at h
    simp only at h
    repeat' split at h
    all_goals first | (cases h; simp [evalI]) | simp at h

theorem mentions_qpExpr (m : String) (t : TableRef) (r : Restr) (hm : m ≠ "quadrature_permutation") :
    mentionsE m (qpExpr t r) = false := by
  have : ("quadrature_permutation" == m) = false := by simp; exact fun e => hm e.symm
  unfold qpExpr
  split
  · split <;> simp [mentionsE, mentionsL, this]
  · simp [mentionsE]

theorem mentions_entExpr (m : String) (et : String) (t : TableRef) (r : Restr) (e : Expr)
    (h : entExpr et t r = some e) (hm : m ≠ "entity_local_index") : mentionsE m e = false := by
  have : ("entity_local_index" == m) = false := by simp; exact fun e => hm e.symm
  unfold entExpr at h
  split at h
  · cases h; simp [mentionsE]
  · unfold entityExpr at h
    simp only at h
    repeat' split at h
    all_goals first | (cases h; simp [mentionsE, mentionsL, this]) | simp at h

/-- the one-symbol quadrature index of a rule without tensor factors -/
theorem quadIndex_noTF (r : QRule) (h : r.factors = none) :
    quadIndex r = { syms := ["iq"], sizes := [r.nweights] } := by
  simp [quadIndex, h]

/-- **One argument factor.** Its value is the table value; it is safe to evaluate; it does not
    mention `A`. -/
theorem argFactor_sem (g : GroupDesc) (a : ArgDesc) (s : String) (n nq : Nat) (f : MSym)
    (tabs : List String)
    (h : argFactor g { syms := ["iq"], sizes := [nq] } a { syms := [s], sizes := [n] } = .ok (f, tabs))
    (τ : St R) (q d : Int) (hq : τ.iv.get "iq" = some q) (hd : τ.iv.get s = some d)
    (hok : ArgOk τ g.entityType q a) :
    eval x τ f.toExpr = argVal τ g.entityType q a d ∧
    ((∃ dn : Nat, d = dn ∧ dn < a.table.ndofs) → safeE τ f.toExpr = true) ∧
    (∀ m, m ≠ a.table.name → m ≠ "iq" → m ≠ s → m ≠ "quadrature_permutation" →
      m ≠ "entity_local_index" → mentionsE m f.toExpr = false) := by
  unfold argFactor at h
  split at h
  · simp at h
  split at h
  · rename_i hz hone
    simp only [Except.ok.injEq, Prod.mk.injEq] at h
    obtain ⟨rfl, _⟩ := h
    refine ⟨?_, fun _ => by simp [MSym.toExpr, safeE], fun m _ _ _ _ _ => by simp [MSym.toExpr, mentionsE]⟩
    simp [MSym.toExpr, eval, argVal, hone, Ring.intCast_one]
  · rename_i hz hone
    rcases hok with hok | ⟨e, vp, ve, arr, he, hvp, hve, harr, hfl⟩
    · simp [hok] at hone
    unfold tableAccess at h
    simp only [MIx.dim, List.length_cons, List.length_nil, Nat.zero_add, beq_self_eq_true,
      Bool.and_self, if_true] at h
    have he' : (if a.table.isUniform = true then some (Expr.litI 0)
        else entityExpr g.entityType a.restriction) = some e := he
    rw [he'] at h
    simp only [Except.ok.injEq, Prod.mk.injEq] at h
    obtain ⟨rfl, _⟩ := h
    have hiq : evalI τ.iv τ.ia (if a.table.isPiecewise = true then Expr.litI 0
        else MIx.global { syms := ["iq"], sizes := [nq] }) =
        some (if a.table.isPiecewise = true then 0 else q) := by
      split
      · simp [evalI]
      · exact evalI_global_single τ.iv τ.ia "iq" nq q hq
    have hic := evalI_global_single τ.iv τ.ia s n d hd
    have hixs : evalIs τ.iv τ.ia [qpExpr a.table a.restriction, e,
        (if a.table.isPiecewise = true then Expr.litI 0 else MIx.global { syms := ["iq"], sizes := [nq] }),
        MIx.global { syms := [s], sizes := [n] }] =
        some [vp, ve, (if a.table.isPiecewise = true then 0 else q), d] := by
      simp [evalIs, hvp, hve, hiq, hic]
    refine ⟨?_, ?_, ?_⟩
    · simp only [MSym.toExpr, eval, hixs, Option.getD_some, argVal, hone, he, subVal, hvp, hve]
      simp
    · rintro ⟨dn, rfl, hdn⟩
      simp only [MSym.toExpr, safeE, harr, hixs]
      simpa using hfl dn hdn
    · intro m h1 h2 h3 h4 h5
      have e1 : (a.table.name == m) = false := by simp; exact fun e => h1 e.symm
      have e2 : ("iq" == m) = false := by simp; exact fun e => h2 e.symm
      have e3 : (s == m) = false := by simp; exact fun e => h3 e.symm
      have m1 := mentions_qpExpr m a.table a.restriction h4
      have m2 := mentions_entExpr m g.entityType a.table a.restriction e he h5
      have m3 : mentionsE m (if a.table.isPiecewise = true then Expr.litI 0
          else MIx.global { syms := ["iq"], sizes := [nq] }) = false := by
        split
        · simp [mentionsE]
        · rw [mentions_global_single]; exact e2
      have m4 : mentionsE m (MIx.global { syms := [s], sizes := [n] }) = false := by
        rw [mentions_global_single]; exact e3
      simp [MSym.toExpr, mentionsE, mentionsL, e1, m1, m2, m3, m4]

/-! ## All arguments of a block -/

/-- the dof loop indices hold the values `ds` (argument order) -/
def Bound (τ : St R) : List String → List Int → Prop
  | nm :: nms, d :: ds => τ.iv.get nm = some d ∧ Bound τ nms ds
  | _, [] => True
  | [], _ :: _ => False

def argVals (σ : St R) (et : String) (q : Int) : List ArgDesc → List Int → List R
  | a :: as, d :: ds => argVal σ et q a d :: argVals σ et q as ds
  | _, _ => []

/-- every dof index is a natural number below the table's number of dofs -/
def InRange : List ArgDesc → List Int → Prop
  | a :: as, d :: ds => (∃ dn : Nat, d = dn ∧ dn < a.table.ndofs) ∧ InRange as ds
  | _, _ => True

def aCoords : List ArgDesc → List Nat → List Int → List Int
  | a :: as, n :: ns, d :: ds => aCoord a n d :: aCoords as ns ds
  | _, _, _ => []

theorem dofIndex_noTF (t : TableRef) (nm : String) (h : t.factors = none) :
    dofIndex t nm = { syms := [nm], sizes := [t.ndofs] } := by
  simp [dofIndex, h]

theorem argFactors_sem (g : GroupDesc) (nq : Nat) (τ : St R) (q : Int)
    (hq : τ.iv.get "iq" = some q) :
    ∀ (args : List ArgDesc) (names : List String) (ds : List Int) (facs : List MSym)
      (tabs : List String),
      argFactors g { syms := ["iq"], sizes := [nq] } (args.zip (bIndices args names)) = .ok (facs, tabs) →
      (∀ a ∈ args, a.table.factors = none) → args.length ≤ names.length → ds.length = args.length →
      Bound τ names ds → (∀ a ∈ args, ArgOk τ g.entityType q a) →
      evalPy x τ facs = argVals τ g.entityType q args ds ∧
      (InRange args ds → ∀ f ∈ facs, safeE τ f.toExpr = true) ∧
      (∀ m, (∀ a ∈ args, m ≠ a.table.name) → m ∉ names → m ≠ "iq" → m ≠ "quadrature_permutation" →
        m ≠ "entity_local_index" → ∀ f ∈ facs, mentionsE m f.toExpr = false)
  | [], names, ds, facs, tabs, h, _, _, hl, _, _ => by
    cases names <;> simp [bIndices, argFactors] at h <;> obtain ⟨rfl, _⟩ := h <;>
      (cases ds <;> simp at hl) <;> simp [evalPy, argVals]
  | a :: as, [], ds, facs, tabs, _, _, hn, _, _, _ => by simp at hn
  | a :: as, nm :: nms, [], facs, tabs, _, _, _, hl, _, _ => by simp at hl
  | a :: as, nm :: nms, d :: ds, facs, tabs, h, hnf, hn, hl, hb, hok => by
    have ha := hnf a (by simp)
    simp only [bIndices, dofIndex_noTF _ _ ha, List.zip_cons_cons, argFactors] at h
    cases h1 : argFactor g { syms := ["iq"], sizes := [nq] } a { syms := [nm], sizes := [a.table.ndofs] } with
    | error e => simp [h1] at h
    | ok p =>
      obtain ⟨f, ts⟩ := p
      cases h2 : argFactors g { syms := ["iq"], sizes := [nq] } (as.zip (bIndices as nms)) with
      | error e => simp [h1, h2] at h
      | ok p2 =>
        obtain ⟨fs, tss⟩ := p2
        simp only [h1, h2, Except.ok.injEq, Prod.mk.injEq] at h
        obtain ⟨rfl, _⟩ := h
        simp only [Bound] at hb
        obtain ⟨h_1, h_2, h_3⟩ := argFactor_sem x g a nm a.table.ndofs nq f ts h1 τ q d hq hb.1
          (hok a (by simp))
        obtain ⟨i_1, i_2, i_3⟩ := argFactors_sem g nq τ q hq as nms ds fs tss h2
          (fun b hb' => hnf b (by simp [hb'])) (by simpa using hn) (by simpa using hl) hb.2
          (fun b hb' => hok b (by simp [hb']))
        refine ⟨by simp [evalPy, argVals, h_1, i_1], ?_, ?_⟩
        · intro hin f' hf'
          simp only [InRange] at hin
          rcases List.mem_cons.mp hf' with rfl | hf'
          · exact h_2 hin.1
          · exact i_2 hin.2 f' hf'
        · intro m hm1 hm2 hm3 hm4 hm5 f' hf'
          rcases List.mem_cons.mp hf' with rfl | hf'
          · exact h_3 m (hm1 a (by simp)) hm3 (fun e => hm2 (by simp [e])) hm4 hm5
          · exact i_3 m (fun b hb' => hm1 b (by simp [hb'])) (fun e => hm2 (by simp [e])) hm3 hm4 hm5 f' hf'

theorem aIndices_sem (τ : St R) :
    ∀ (args : List ArgDesc) (names : List String) (lens : List Nat) (ds : List Int),
      (∀ a ∈ args, a.table.factors = none) → args.length ≤ names.length → ds.length = args.length →
      lens.length = args.length → Bound τ names ds →
      evalIs τ.iv τ.ia (aIndices args (bIndices args names) lens) = some (aCoords args lens ds) ∧
      (∀ m, m ∉ names → ∀ e ∈ aIndices args (bIndices args names) lens, mentionsE m e = false)
  | [], names, lens, ds, _, _, hl, hl2, _ => by
    cases ds <;> simp at hl
    cases lens <;> simp at hl2
    cases names <;> simp [aIndices, bIndices, evalIs, aCoords]
  | a :: as, [], _, _, _, hn, _, _, _ => by simp at hn
  | a :: as, nm :: nms, [], _, _, _, _, hl2, _ => by simp at hl2
  | a :: as, nm :: nms, n :: ns, [], _, _, hl, _, _ => by simp at hl
  | a :: as, nm :: nms, n :: ns, d :: ds, hnf, hn, hl, hl2, hb => by
    have ha := hnf a (by simp)
    simp only [Bound] at hb
    obtain ⟨i_1, i_2⟩ := aIndices_sem τ as nms ns ds (fun b hb' => hnf b (by simp [hb']))
      (by simpa using hn) (by simpa using hl) (by simpa using hl2) hb.2
    simp only [bIndices, dofIndex_noTF _ _ ha, aIndices, evalIs, aCoords,
      evalI_aIndex τ.iv τ.ia a nm a.table.ndofs n d hb.1, i_1]
    refine ⟨rfl, ?_⟩
    intro m hm e he
    rcases List.mem_cons.mp he with rfl | he
    · exact mentions_aIndex m a nm _ n (by simp; exact fun e => hm (by simp [e]))
    · exact i_2 m (fun e => hm (by simp [e])) e he

/-! ## One block, all blocks of a group -/

/-- what a successful `genOneBlock` returns for a full-tensor block without tensor factors -/
theorem genOneBlock_inv (g : GroupDesc) (st st1 : GenState) (b : BlockData) (o : BlockOut)
    (hgen : genOneBlock g st b = .ok (o, st1)) (hdiag : g.diagonal = false)
    (hlen : b.args.length = g.bmLens.length) :
    o.fw = (fwOf g st b).1 ∧ o.decl = (fwOf g st b).2.1 ∧ st1 = (fwOf g st b).2.2 ∧
    o.bIdx = bIndices b.args dofNames ∧
    o.term.aIdx = aIndices b.args (bIndices b.args dofNames) g.bmLens ∧
    g.bmLens.length ≤ dofNames.length ∧
    ∃ facs tabs, argFactors g (quadIndex g.rule) (b.args.zip (bIndices b.args dofNames)) = .ok (facs, tabs) ∧
      o.term.rhs = (floatProductPy (.ex o.fw :: facs)).toExpr := by
  unfold genOneBlock at hgen
  have hlen' := hlen.symm
  simp only [hlen'] at hgen
  simp only [hdiag, Bool.false_and, Nat.lt_irrefl, decide_false, Bool.false_or,
    Bool.false_eq_true, if_false, List.take_length] at hgen
  split at hgen
  · simp at hgen
  rename_i hr
  split at hgen
  · simp at hgen
  split at hgen
  · simp at hgen
  split at hgen
  · simp at hgen
  cases hv : varOf (fwOf g st b).1 with
  | error e => simp [hv] at hgen
  | ok var =>
    simp only [hv] at hgen
    split at hgen
    · simp at hgen
    cases ha : argFactors g (quadIndex g.rule) (b.args.zip (bIndices b.args dofNames)) with
    | error e => simp [ha] at hgen
    | ok p =>
      obtain ⟨facs, tabs⟩ := p
      simp only [ha, Except.ok.injEq, Prod.mk.injEq] at hgen
      obtain ⟨rfl, rfl⟩ := hgen
      refine ⟨rfl, rfl, rfl, rfl, rfl, ?_, facs, tabs, rfl, rfl⟩
      simp only [decide_eq_true_eq, Nat.not_lt] at hr
      omega

/-- the `fw` expressions of the blocks are `fwExprs` -/
theorem genBlocks_inv (g : GroupDesc) (hdiag : g.diagonal = false) :
    ∀ (bs : List BlockData) (st st' : GenState) (outs : List BlockOut),
      genBlocks g st bs = .ok (outs, st') → (∀ b ∈ bs, b.args.length = g.bmLens.length) →
      outs.length = bs.length ∧ outs.map (·.fw) = fwExprs g st bs ∧ st' = fwState g st bs ∧
      ∀ p ∈ bs.zip outs,
        p.2.bIdx = bIndices p.1.args dofNames ∧
        p.2.term.aIdx = aIndices p.1.args (bIndices p.1.args dofNames) g.bmLens ∧
        g.bmLens.length ≤ dofNames.length ∧
        ∃ facs tabs, argFactors g (quadIndex g.rule) (p.1.args.zip (bIndices p.1.args dofNames)) =
            .ok (facs, tabs) ∧
          p.2.term.rhs = (floatProductPy (.ex p.2.fw :: facs)).toExpr
  | [], st, st', outs, h, _ => by
    simp only [genBlocks, Except.ok.injEq, Prod.mk.injEq] at h
    obtain ⟨rfl, rfl⟩ := h
    simp [fwExprs, fwState]
  | b :: bs, st, st', outs, h, hl => by
    simp only [genBlocks, bind, Except.bind] at h
    cases h1 : genOneBlock g st b with
    | error e => simp [h1] at h
    | ok p =>
      obtain ⟨o, st1⟩ := p
      simp only [h1] at h
      cases h2 : genBlocks g st1 bs with
      | error e => simp [h2] at h
      | ok p2 =>
        obtain ⟨os, st2⟩ := p2
        simp only [h2, Except.ok.injEq, Prod.mk.injEq] at h
        obtain ⟨rfl, rfl⟩ := h
        obtain ⟨e1, e2, e3, e4, e5, e6, e7⟩ := genOneBlock_inv g st st1 b o h1 hdiag (hl b (by simp))
        subst e3
        obtain ⟨i1, i2, i4, i3⟩ := genBlocks_inv g hdiag bs _ _ os h2 (fun b' hb' => hl b' (by simp [hb']))
        refine ⟨by simp [i1], by simp [fwExprs, e1, i2], by simp [fwState, i4], ?_⟩
        intro p hp
        simp only [List.zip_cons_cons, List.mem_cons] at hp
        rcases hp with rfl | hp
        · exact ⟨e4, e5, e6, e7⟩
        · exact i3 p hp

/-! ## `A` covers the blockmap -/

theorem coversB_lens : ∀ (args : List ArgDesc) (lens shape : List Nat), coversB args lens shape = true →
    lens.length = args.length ∧ shape.length = args.length ∧ args.map (·.table.ndofs) = lens
  | [], [], [], _ => by simp
  | [], [], _ :: _, h => by simp [coversB] at h
  | [], _ :: _, _, h => by simp [coversB] at h
  | _ :: _, [], _, h => by simp [coversB] at h
  | _ :: _, _ :: _, [], h => by simp [coversB] at h
  | a :: as, n :: ns, e :: es, h => by
    simp only [coversB, Bool.and_eq_true, beq_iff_eq] at h
    obtain ⟨h1, h2, h3⟩ := coversB_lens as ns es h.2
    simp [h1, h2, h3, h.1.1.1.1.1]

theorem coversB_pos : ∀ (args : List ArgDesc) (lens shape : List Nat), coversB args lens shape = true →
    ∀ n ∈ lens, 1 ≤ n
  | [], [], [], _ => by simp
  | [], [], _ :: _, h => by simp [coversB] at h
  | [], _ :: _, _, h => by simp [coversB] at h
  | _ :: _, [], _, h => by simp [coversB] at h
  | _ :: _, _ :: _, [], h => by simp [coversB] at h
  | a :: as, n :: ns, e :: es, h => by
    simp only [coversB, Bool.and_eq_true, beq_iff_eq, decide_eq_true_eq] at h
    intro m hm
    rcases List.mem_cons.mp hm with rfl | hm
    · exact h.1.1.2
    · exact coversB_pos as ns es h.2 m hm

theorem coversB_inrange : ∀ (args : List ArgDesc) (lens shape : List Nat) (ds : List Int),
    coversB args lens shape = true → InRange args ds → ds.length = args.length →
    (aCoords args lens ds).length = shape.length ∧
      ∀ p ∈ List.zip shape (aCoords args lens ds), 0 ≤ p.2 ∧ p.2 < (p.1 : Int)
  | [], [], [], ds, _, _, hl => by cases ds <;> simp [aCoords] at hl ⊢
  | [], [], _ :: _, _, h, _, _ => by simp [coversB] at h
  | [], _ :: _, _, _, h, _, _ => by simp [coversB] at h
  | _ :: _, [], _, _, h, _, _ => by simp [coversB] at h
  | _ :: _, _ :: _, [], _, h, _, _ => by simp [coversB] at h
  | a :: as, n :: ns, e :: es, [], _, _, hl => by simp at hl
  | a :: as, n :: ns, e :: es, d :: ds, h, hin, hl => by
    simp only [coversB, Bool.and_eq_true, beq_iff_eq, decide_eq_true_eq] at h
    obtain ⟨⟨⟨⟨⟨hn, ho⟩, hb⟩, hn1⟩, hc'⟩, hrest⟩ := h
    simp only [InRange] at hin
    obtain ⟨⟨dn, rfl, hdn⟩, hin'⟩ := hin
    obtain ⟨i1, i2⟩ := coversB_inrange as ns es ds hrest hin' (by simpa using hl)
    refine ⟨by simp [aCoords, i1], ?_⟩
    intro p hp
    simp only [aCoords, List.zip_cons_cons, List.mem_cons] at hp
    rcases hp with rfl | hp
    · simp only [aCoord]
      split
      · rename_i h1
        have : n = 1 := by simpa using h1
        subst this
        have : dn = 0 := by omega
        subst this
        simp at hc' ⊢
        omega
      · have hmul : a.table.blockSize * (dn : Int) ≤ a.table.blockSize * ((n : Int) - 1) :=
          Int.mul_le_mul_of_nonneg_left (by omega) hb
        have hnn : 0 ≤ a.table.blockSize * (dn : Int) := Int.mul_nonneg hb (by omega)
        constructor <;> omega
    · exact i2 p hp

/-! ## Frame facts for table values -/

variable {A : String} {Pi Ps : String → Prop}

theorem argVal_agree {σ τ : St R} (h : Agree A Pi Ps σ τ) (et : String) (q : Int) (a : ArgDesc)
    (d : Int) (hn : a.table.name ≠ A) : argVal τ et q a d = argVal σ et q a d := by
  have h1 : subVal τ (qpExpr a.table a.restriction) = subVal σ (qpExpr a.table a.restriction) := by
    simp only [subVal, h.ia]; rw [evalI_qpExpr_iv τ.iv σ.iv]
  have h2 : (match entExpr et a.table a.restriction with | some e => subVal τ e | none => 0) =
      (match entExpr et a.table a.restriction with | some e => subVal σ e | none => 0) := by
    cases he : entExpr et a.table a.restriction with
    | none => rfl
    | some e => simp only [subVal, h.ia]; rw [evalI_entExpr_iv τ.iv σ.iv _ et _ _ e he]
  have h3 : ∀ ix, readArr τ a.table.name ix = readArr σ a.table.name ix := by
    intro ix; simp only [readArr, h.sa _ hn]
  simp only [argVal, h1, h2, h3]

theorem argVals_agree {σ τ : St R} (h : Agree A Pi Ps σ τ) (et : String) (q : Int) :
    ∀ (args : List ArgDesc) (ds : List Int), (∀ a ∈ args, a.table.name ≠ A) →
      argVals τ et q args ds = argVals σ et q args ds
  | [], _, _ => by simp [argVals]
  | _ :: _, [], _ => by simp [argVals]
  | a :: as, d :: ds, hn => by
    simp only [argVals, argVal_agree h et q a d (hn a (by simp)),
      argVals_agree h et q as ds (fun b hb => hn b (by simp [hb]))]

theorem ArgOk_agree {σ τ : St R} (h : Agree A Pi Ps σ τ) (et : String) (q : Int) (a : ArgDesc)
    (hn : a.table.name ≠ A) (hok : ArgOk σ et q a) : ArgOk τ et q a := by
  rcases hok with hok | ⟨e, vp, ve, arr, he, hvp, hve, harr, hfl⟩
  · exact Or.inl hok
  · refine Or.inr ⟨e, vp, ve, arr, he, ?_, ?_, ?_, hfl⟩
    · rw [h.ia, evalI_qpExpr_iv τ.iv σ.iv]; exact hvp
    · rw [h.ia, evalI_entExpr_iv τ.iv σ.iv _ et _ _ e he]; exact hve
    · rw [h.sa _ hn]; exact harr

/-! ## One emitted term at one index tuple -/

/-- what `genBlocks_inv` says about one (block, output) pair -/
def BlockInv (g : GroupDesc) (b : BlockData) (o : BlockOut) : Prop :=
  o.bIdx = bIndices b.args dofNames ∧
  o.term.aIdx = aIndices b.args (bIndices b.args dofNames) g.bmLens ∧
  g.bmLens.length ≤ dofNames.length ∧
  ∃ facs tabs, argFactors g (quadIndex g.rule) (b.args.zip (bIndices b.args dofNames)) = .ok (facs, tabs) ∧
    o.term.rhs = (floatProductPy (.ex o.fw :: facs)).toExpr

/-- the accumulation term `(subscript of A, right-hand side)` of an emitted `Term` -/
def Term.aterm (aShape : List Nat) (t : Term) : ATerm := (mkMultiIndex (t.aIdx.map .ex) aShape, t.rhs)

theorem termStmt_eq (aShape : List Nat) (t : Term) :
    termStmt aShape t = ATerm.stmt aName (t.aterm aShape) := rfl

/-- **One term, one index tuple.** With `iq = q` and the dof indices bound to `ds` (in range), the
    subscript of `A` evaluates to the row-major flat index of `(block_size_r·d_r + offset_r)_r` — inside
    `prod A_shape` — and the right-hand side to `fw · Π_r table_r[…][q][d_r]`; both are well defined
    and neither mentions `A`. -/
theorem block_term_sem (hlaw : LawfulExtra x) (g : GroupDesc) (b : BlockData) (o : BlockOut)
    (hinv : BlockInv g b o) (hrule : g.rule.factors = none)
    (hnf : ∀ a ∈ b.args, a.table.factors = none)
    (hcov : coversB b.args g.bmLens g.aShape = true)
    (hnames : ∀ a ∈ b.args, a.table.name ≠ aName) (hfwA : mentionsE aName o.fw = false)
    (τ : St R) (q : Int) (ds : List Int) (hq : τ.iv.get "iq" = some q) (hb : Bound τ dofNames ds)
    (hl : ds.length = b.args.length) (hin : InRange b.args ds)
    (hok : ∀ a ∈ b.args, ArgOk τ g.entityType q a) (hsfw : safeE τ o.fw = true) :
    (o.term.aterm g.aShape).noA aName = true ∧ safeE τ o.term.rhs = true ∧
    ∃ k : Nat, evalI τ.iv τ.ia (o.term.aterm g.aShape).1 = some (k : Int) ∧ k < sizeProd g.aShape ∧
      flatIdx g.aShape (aCoords b.args g.bmLens ds) = some k ∧
      eval x τ o.term.rhs = eval x τ o.fw * prodR (argVals τ g.entityType q b.args ds) := by
  obtain ⟨_, haidx, hrank, facs, tabs, hfac, hrhs⟩ := hinv
  obtain ⟨hl1, hl2, hl3⟩ := coversB_lens _ _ _ hcov
  have hlen : b.args.length ≤ dofNames.length := by omega
  rw [quadIndex_noTF _ hrule] at hfac
  obtain ⟨f1, f2, f3⟩ := argFactors_sem x g g.rule.nweights τ q hq b.args dofNames ds facs tabs hfac
    hnf hlen hl hb hok
  obtain ⟨a1, a2⟩ := aIndices_sem τ b.args dofNames g.bmLens ds hnf hlen hl hl1 hb
  obtain ⟨c1, c2⟩ := coversB_inrange _ _ _ ds hcov hin hl
  rw [← haidx] at a1 a2
  obtain ⟨k, k1, k2, k3⟩ := evalI_mkMultiIndex τ.iv τ.ia o.term.aIdx g.aShape _ a1 c1 c2
  have hAd : aName ∉ dofNames := by decide
  have hfacA : ∀ f ∈ facs, mentionsE aName f.toExpr = false :=
    f3 aName (fun a ha => (hnames a ha).symm) hAd (by decide) (by decide) (by decide)
  refine ⟨?_, ?_, k, k1, k2, k3, ?_⟩
  · simp only [ATerm.noA, Term.aterm, Bool.and_eq_true, Bool.not_eq_true']
    refine ⟨mentions_mkMultiIndex aName _ _ (a2 aName hAd), ?_⟩
    rw [hrhs]
    apply mentions_floatProductPy
    intro f hf
    rcases List.mem_cons.mp hf with rfl | hf
    · exact hfwA
    · exact hfacA f hf
  · rw [hrhs]
    apply safe_floatProductPy
    intro f hf
    rcases List.mem_cons.mp hf with rfl | hf
    · exact hsfw
    · exact f2 hin f hf
  · rw [hrhs, eval_floatProductPy hlaw]
    simp only [evalPy, prodR, MSym.toExpr, f1]

end Ffcx.Codegen
