/-
C17 — AST simplifications and optimiser passes preserve the computed values.

Part 1 (this section): the overloaded operators of `LExpr`.  For ALL operands
(every constructor, every literal value) and every state, in any field `R` with
a lawful literal embedding, the folded tree has the value of the unfolded
operation; the `ValueError` branches are exactly division by a zero literal.
Floating-point caveat (stated, not proved): `0*x = 0` and `x/… ` are real-number
facts; for IEEE NaN/Inf operands `0*x` is NaN, so folding can change non-finite results.
-/
import FfcxProofs.Lemmas.Fold
import FfcxProofs.Lemmas.Index
import FfcxProofs.Lemmas.Threads
import FfcxModel.LNodes.Scalars

namespace Ffcx.LNodes
open Lean.Grind
attribute [local instance] Lean.Grind.Ring.intCast

variable {R : Type} [Field R] {x : Extra R}

theorem neg_sound (h : LawfulExtra x) (σ : St R) (a : Expr) :
    eval x σ (lNeg a) = - eval x σ a := eval_lNeg h σ a

theorem add_sound (h : LawfulExtra x) (σ : St R) (a b : Expr) :
    eval x σ (lAdd a b) = eval x σ a + eval x σ b := by
  unfold lAdd
  split
  · rename_i hz; rw [eval_isZero h σ a hz]; grind
  split
  · rename_i hz; rw [eval_isZero h σ b hz]; grind
  split <;> simp [eval] <;> grind

theorem radd_sound (h : LawfulExtra x) (σ : St R) (a b : Expr) :
    eval x σ (lRAdd a b) = eval x σ b + eval x σ a := by
  unfold lRAdd
  split
  · rename_i hz; rw [eval_isZero h σ a hz]; grind
  split
  · rename_i hz; rw [eval_isZero h σ b hz]; grind
  split <;> simp [eval] <;> grind

theorem sub_sound (h : LawfulExtra x) (σ : St R) (a b : Expr) :
    eval x σ (lSub a b) = eval x σ a - eval x σ b := by
  unfold lSub
  split
  · rename_i hz; rw [eval_isZero h σ a hz, eval_lNeg h]; grind
  split
  · rename_i hz; rw [eval_isZero h σ b hz]; grind
  split
  · simp [eval]; grind
  · split
    · simp [eval, Ring.intCast_sub]
    · simp [eval]

theorem rsub_sound (h : LawfulExtra x) (σ : St R) (a b : Expr) :
    eval x σ (lRSub a b) = eval x σ b - eval x σ a := by
  unfold lRSub
  split
  · rename_i hz; rw [eval_isZero h σ a hz]; grind
  split
  · rename_i hz; rw [eval_isZero h σ b hz, eval_lNeg h]; grind
  split <;> simp [eval] <;> grind

theorem mul_sound (h : LawfulExtra x) (σ : St R) (a b : Expr) :
    eval x σ (lMul a b) = eval x σ a * eval x σ b := by
  unfold lMul
  split
  · rename_i hz; rw [eval_isZero h σ a hz]; grind
  split
  · rename_i hz; rw [eval_isZero h σ b hz]; grind
  split
  · rename_i hz; rw [eval_isOne h σ a hz]; grind
  split
  · rename_i hz; rw [eval_isOne h σ b hz]; grind
  split
  · rename_i hz; rw [eval_isNegOne h σ b hz]; simp [eval]; grind
  split
  · rename_i hz; rw [eval_isNegOne h σ a hz]; simp [eval]; grind
  split
  · simp [eval, Ring.intCast_mul]
  · simp [eval]

theorem rmul_sound (h : LawfulExtra x) (σ : St R) (a b : Expr) :
    eval x σ (lRMul a b) = eval x σ b * eval x σ a := by
  unfold lRMul
  split
  · rename_i hz; rw [eval_isZero h σ a hz]; grind
  split
  · rename_i hz; rw [eval_isZero h σ b hz]; grind
  split
  · rename_i hz; rw [eval_isOne h σ a hz]; grind
  split
  · rename_i hz; rw [eval_isOne h σ b hz]; grind
  split
  · rename_i hz; rw [eval_isNegOne h σ b hz]; simp [eval]; grind
  split
  · rename_i hz; rw [eval_isNegOne h σ a hz]; simp [eval]; grind
  · simp [eval]

/-- `__div__` raises exactly when the divisor is a zero literal, and otherwise is sound. -/
theorem div_sound (h : LawfulExtra x) (σ : St R) (a b : Expr) :
    (lDiv a b = none ↔ isZero b = true) ∧
    ∀ e, lDiv a b = some e → eval x σ e = eval x σ a / eval x σ b := by
  unfold lDiv
  constructor
  · split <;> simp_all
    split <;> simp
  · intro e
    split
    · simp
    split
    · rename_i hz
      intro he
      simp at he; subst he
      rw [eval_isZero h σ a hz, Field.div_eq_mul_inv]; grind
    · intro he; simp at he; subst he; simp [eval]

theorem rdiv_sound (h : LawfulExtra x) (σ : St R) (a b : Expr) :
    (lRDiv a b = none ↔ isZero a = true) ∧
    ∀ e, lRDiv a b = some e → eval x σ e = eval x σ b / eval x σ a := by
  unfold lRDiv
  constructor
  · split <;> simp_all
    split <;> simp
  · intro e
    split
    · simp
    split
    · rename_i hz
      intro he
      simp at he; subst he
      rw [eval_isZero h σ b hz, Field.div_eq_mul_inv]; grind
    · intro he; simp at he; subst he; simp [eval]

end Ffcx.LNodes

namespace Ffcx.LNodes
open Lean.Grind
attribute [local instance] Lean.Grind.Ring.intCast
variable {R : Type} [Field R] {x : Extra R}

/-- `float_product(factors)` has the value of the product of all factors. -/
theorem float_product_sound (h : LawfulExtra x) (σ : St R) (fs : List Expr) :
    eval x σ (floatProduct fs) = prodR (evalL x σ fs) := by
  unfold floatProduct
  rw [← prodR_filter_ones h σ fs]
  split
  · rename_i he; simp [he, eval, evalL, prodR, h.ofRat_one]
  · rename_i f he; simp [he, evalL, prodR]; grind
  · rename_i he; rw [eval_prod]

/-- Non-vacuity: the rationals with the driver's literal embedding are lawful. -/
theorem ratExtra_lawful : LawfulExtra (R := Rat) ratExtra :=
  ⟨rfl, rfl, fun _ _ => by simp [ratExtra]⟩

end Ffcx.LNodes

namespace Ffcx.LNodes

/-- `MultiIndex.global_index` evaluates to Σ strideₖ·symₖ, for any rank and any sizes, whatever
    folding the `n * sym` products underwent; and when every symbol is inside its extent this is
    the row-major flat index (`flatIdx`). -/
theorem global_index_value (iv : AList Int) (ia : AList (Array Int)) (syms : List MSym)
    (sizes : List Nat) (vals : List Int)
    (hv : evalIs iv ia (syms.map MSym.toExpr) = some vals) :
    evalI iv ia (miGlobal syms sizes) =
      some (if sizes.isEmpty then 0 else dotStrides (strides sizes) vals) ∧
    ∀ k, flatIdx sizes vals = some k → evalI iv ia (miGlobal syms sizes) = some (k : Int) := by
  have h1 : evalI iv ia (miGlobal syms sizes) =
      some (if sizes.isEmpty then 0 else dotStrides (strides sizes) vals) := by
    unfold miGlobal
    split
    · simp [evalI]
    · simp [evalI, evalISum_miTerms iv ia (strides sizes) syms vals hv]
  refine ⟨h1, ?_⟩
  intro k hk
  rw [h1]
  have := flatIdx_dot sizes vals k hk
  split
  · rename_i he
    have : sizes = [] := by simpa using he
    subst this
    cases vals <;> simp [flatIdx] at hk
    simp [← hk]
  · rw [this]

end Ffcx.LNodes

/-! ## Part 2: optimiser passes (algebraic cores)

`licm` removes the loop-invariant factors from a `Product`, appends one temporary holding their
product, i.e. it replaces `Π args` by `Π (kept ++ [Π hoisted])` where `args` is a permutation of
`kept ++ hoisted`.  `fuse_sections` / `fuse_loops` concatenate statement lists.  The theorems below
are the value-preservation facts these rewrites rest on, for all operand values and any number of
factors.  The side conditions that are about *state* (a hoisted factor has the same value in the
pre-loop as in the inner loop; moved statements do not interfere with the statements they hop over)
are not discharged by a theorem: they are validated for every generated kernel by executing the
optimised and the unoptimised AST exactly (over `Rat`) on the same inputs (`harness/props/c17.py`),
and are therefore labelled per-program in the evidence.
-/

namespace Ffcx.LNodes
open Lean.Grind
attribute [local instance] Lean.Grind.Ring.intCast
variable {R : Type} [Field R] {x : Extra R}

theorem prodR_append (l₁ l₂ : List R) : prodR (l₁ ++ l₂) = prodR l₁ * prodR l₂ := by
  induction l₁ with
  | nil => simp [prodR]; grind
  | cons a as ih => simp [prodR, ih]; grind

theorem prodR_perm {l₁ l₂ : List R} (h : l₁.Perm l₂) : prodR l₁ = prodR l₂ := by
  induction h with
  | nil => rfl
  | cons a _ ih => simp [prodR, ih]
  | swap a b l => simp only [prodR]; grind
  | trans _ _ ih1 ih2 => rw [ih1, ih2]

theorem evalL_append (σ : St R) (l₁ l₂ : List Expr) :
    evalL x σ (l₁ ++ l₂) = evalL x σ l₁ ++ evalL x σ l₂ := by
  induction l₁ with
  | nil => simp [evalL]
  | cons a as ih => simp [evalL, ih]

theorem evalL_perm (σ : St R) {l₁ l₂ : List Expr} (h : l₁.Perm l₂) :
    (evalL x σ l₁).Perm (evalL x σ l₂) := by
  induction h with
  | nil => simp [evalL]
  | cons a _ ih => simp [evalL, ih]
  | swap a b l => simp only [evalL]; exact List.Perm.swap _ _ _
  | trans _ _ ih1 ih2 => exact ih1.trans ih2

/-- a `Product` has the same value under any reordering of its factors -/
theorem prod_perm_sound (σ : St R) {l₁ l₂ : List Expr} (h : l₁.Perm l₂) :
    eval x σ (.prod l₁) = eval x σ (.prod l₂) := by
  rw [eval_prod, eval_prod]; exact prodR_perm (evalL_perm σ h)

/-- licm's rewrite of one product: if `args` is a permutation of `kept ++ hoisted` and the
    temporary `t` holds the value of `Π hoisted`, then `Π (kept ++ [t])` has the value of `Π args`.
    Any number of factors, any values. -/
theorem licm_factor_sound (σ : St R) (args kept hoisted : List Expr) (t : Expr)
    (hperm : args.Perm (kept ++ hoisted))
    (ht : eval x σ t = eval x σ (.prod hoisted)) :
    eval x σ (.prod (kept ++ [t])) = eval x σ (.prod args) := by
  rw [prod_perm_sound σ hperm]
  simp only [eval_prod, evalL_append, prodR_append, evalL, prodR]
  rw [ht, eval_prod]; grind

end Ffcx.LNodes

namespace Ffcx.LNodes
variable {R : Type} [Add R] [Sub R] [Mul R] [Div R] [Neg R] [IntCast R] (x : Extra R)

/-- concatenating statement lists (what `fuse_sections` does with `statements.extend`, and
    `fuse_loops` with loop bodies) runs the first list, then the second -/
theorem execL_append (l₁ l₂ : List Stmt) (σ : St R) :
    execL x (l₁ ++ l₂) σ = (match execL x l₁ σ with
      | .error e => .error e
      | .ok σ' => execL x l₂ σ') := by
  induction l₁ generalizing σ with
  | nil => simp [execL]
  | cons s ss ih =>
    simp only [List.cons_append, execL]
    cases exec x s σ with
    | error e => rfl
    | ok σ' => exact ih σ'

/-- a `Section` is its declarations followed by its statements; fusing two adjacent sections of
    the same name is sound when the second section's declarations commute with the first one's
    statements — in particular when the first section has no statements of its own -/
theorem fuse_adjacent_sections_partial (n : String) (d₁ d₂ s₂ : List Stmt)
    (i₁ o₁ a₁ i₂ o₂ a₂ i o a : List String) (σ : St R) :
    execL x [.sect n d₁ [] i₁ o₁ a₁, .sect n d₂ s₂ i₂ o₂ a₂] σ =
    exec x (.sect n (d₁ ++ d₂) ([] ++ s₂) i o a) σ := by
  simp only [execL, exec, List.nil_append]
  rw [execL_append]
  cases execL x d₁ σ with
  | error e => rfl
  | ok σ₁ =>
    simp only [execL]
    cases execL x d₂ σ₁ with
    | error e => rfl
    | ok σ₂ => simp only []; cases execL x s₂ σ₂ <;> rfl

end Ffcx.LNodes

/-! ## Part 3: statements hopping over other statements (section fusion) -/

namespace Ffcx.LNodes
variable {R : Type} [Add R] [Sub R] [Mul R] [Div R] [Neg R] [IntCast R] (x : Extra R)

/-- **fuse_sections_sound (hop).** `fuse_sections` moves the declarations and statements of later
    same-named sections up to the first one, i.e. it lets a statement `t` hop over the list `p` of
    statements in between. If `t` writes no name mentioned in `p` and `p` writes no name `t` mentions
    (decidable, `disjointB [t] p`), then `t; p` and `p; t` fail together or end in extensionally equal
    states, for every initial state. -/
theorem fuse_sections_hop_sound (t : Stmt) (p : List Stmt) (hd : disjointB [t] p = true) (σ : St R) :
    ResEq ((exec x t σ).bind (execL x p)) ((execL x p σ).bind (exec x t)) := by
  have d := disjoint_of_disjointB [t] p hd
  refine hop_over_list x t p (fun n hn => ?_) (fun n hn => ?_) σ
  · have := d.2 n hn; simpa [neverWrittenL] using this
  · exact d.1 n (by simp [mentionsSL, hn])

end Ffcx.LNodes
