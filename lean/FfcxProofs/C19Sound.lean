/-
C19 — soundness of the block-scoping checker (`scopedS`, `scopedKernel`: FfcxModel/LNodes/Scoped.lean)
with respect to the scope-aware semantics `execB` (FfcxModel/LNodes/ScopedSem.lean), and faithfulness
of the flat semantics `exec` (used by every other theorem about kernels) for accepted kernels.

* `scoped_sound` / `scopedL_sound` / `kernel_scoped_sound` (FULL): if the checker accepts `s` from the
  scopes `sc` with result `sc'`, then from ANY block-structured state whose stack has exactly the
  names `sc`, `execB` never raises a scope error (`undeclared` / `redeclared`); it either stops with
  a run-time error of the flat semantics or ends in a state whose stack has exactly the names `sc'`.
  (A flat `Err.undeclared n` passed through as `run (undeclared n)` is not a scope error: it is
  raised only by `store`, when a VISIBLE name is used as an lvalue of the wrong kind —
  `assign_run_undeclared_visible`.)
* `scoped_tight` / `kernel_tight` (FULL): `execB` really is block structured — if every name bound in
  the store is visible in the stack before an accepted statement, so it is afterwards: the
  variables of a block that was left are erased, shadowed ones are restored (`Tight`).
* `scoped_flat_faithful` / `scopedL_flat_faithful` / `kernel_flat_faithful` (FULL, under decidable
  per-kernel certificates): for an accepted statement with `clobS sc D s = ok D'` and `kindsS κ s`,
  from states related by `Rel κ sc D` the two semantics fail with the same run-time error or both
  succeed in states related by `Rel κ sc' D'`: the stores agree in all four name spaces on every
  name visible afterwards that is not in `D'`.  For a kernel (`flatCert k`, evaluated per kernel by
  `driver (scopecert …)`) `D'` contains no parameter, so the two runs agree on `A` and all inputs.
  The statement WITHOUT certificates,
      scopedKernel k = ok → execB and exec agree on A,
  is FALSE: `flat_unfaithful_shadow_counterexample` (an outer variable read after an inner block
  re-declared it) and `flat_unfaithful_kind_counterexample` (no shadowing at all, but a name declared
  as `double` in one block and as `int` in a sibling block: the flat store still holds the stale
  `double`).  Plain "no shadowing" is NOT what is certified, because real kernels shadow
  (`J0_c0…` re-declared inside the quadrature loop of a second rule): `clobS` only demands that a
  shadowed outer variable is not used again after the inner block.
* `scoped_complete_partial`: a REJECTED loop-free statement never runs to completion: `execB` raises
  exactly the reported scope error unless a run-time error stops it earlier.  The full statement
  (all statements) is false for the dynamic semantics — `scoped_zero_trip_conservative`: the body of
  a loop with zero iterations is never executed, the checker (like a C compiler, whose scoping is
  static) rejects an undeclared identifier in it all the same.
-/
import FfcxProofs.Lemmas.ScopeSound
import FfcxProofs.Lemmas.ScopeFlat
import FfcxProofs.Lemmas.ScopeTight

namespace Ffcx.LNodes
variable {R : Type} [Add R] [Sub R] [Mul R] [Div R] [Neg R] [IntCast R]

/-! ## Soundness -/

/-- `SoundRes sc' r`: `r` is not a scope error, and if it is a state its visible names are `sc'`. -/
theorem scoped_sound (x : Extra R) (s : Stmt) (sc sc' : Scopes) (b : BSt R)
    (h : scopedS sc s = .ok sc') (hb : stackNames b.st = sc) : SoundRes sc' (execB x s b) :=
  scopedS_sound x s sc sc' b h hb

/-- spelled out: no scope error, and the final stack is the one the checker computed -/
theorem scoped_sound_no_scope_error (x : Extra R) (s : Stmt) (sc sc' : Scopes) (b : BSt R)
    (h : scopedS sc s = .ok sc') (hb : stackNames b.st = sc) :
    (∀ e, execB x s b ≠ .error (.scope e)) ∧ (∀ b', execB x s b = .ok b' → stackNames b'.st = sc') := by
  have hs := scoped_sound x s sc sc' b h hb
  constructor
  · intro e he; rw [he] at hs; exact hs
  · intro b' he; rw [he] at hs; exact hs

omit [Add R] [Sub R] [Mul R] [Div R] [Neg R] [IntCast R] in
theorem initB_names (σ : St R) : stackNames (initB σ).st = kernelScope := rfl

/-- kernel level: from the state the driver starts a kernel in (store = the arguments, one block
    holding the parameters) an accepted kernel never raises a scope error, and at the end the only
    block left is the function body, which still declares every parameter. -/
theorem kernel_scoped_sound (x : Extra R) (k : Stmt) (σ : St R) (h : scopedKernel k = .ok ()) :
    match execB x k (initB σ) with
    | .error (.scope _) => False
    | .error (.run _) => True
    | .ok b' => ∃ f, stackNames b'.st = [f] ∧
        ∀ p, p ∈ ["A", "w", "c", "coordinate_dofs", "entity_local_index", "quadrature_permutation",
          "custom_data"] → p ∈ f := by
  simp only [scopedKernel] at h
  cases hs : scopedS kernelScope k with
  | error e => simp [hs] at h
  | ok sc' =>
    obtain ⟨f, rfl, hf⟩ := scopedS_tail k _ [] sc' hs
    have := scoped_sound x k kernelScope (f :: []) (initB σ) hs (initB_names σ)
    cases hr : execB x k (initB σ) with
    | error e =>
      cases e with
      | scope e => simp [hr, SoundRes] at this
      | run e => trivial
    | ok b' =>
      simp only [hr, SoundRes] at this
      exact ⟨f, this, hf⟩

omit [Add R] [Sub R] [Mul R] [Div R] [Neg R] in
/-- the flat `Err.undeclared n` is only ever raised by `store`, for the head name of the lvalue -/
theorem store_undeclared_mentions (x : Extra R) (σ : St R) (l : Expr) (f : R → R) (n : String)
    (h : store x σ l f = .error (.undeclared n)) : mentionsE n l = true := by
  cases l <;> simp only [store] at h
  case sym m dt =>
    split at h
    · simp at h
    · split at h
      · simp at h; subst h; simp [mentionsE]
      · simp at h
  case idx arr dt ix =>
    split at h
    · simp at h
    · split at h
      · rename_i e hres
        simp at h; subst h
        simp only [resolve] at hres
        split at hres
        · simp at hres; subst hres; simp [mentionsE]
        · split at hres
          · simp at hres
          · split at hres
            · simp at hres
            · split at hres <;> simp at hres
      · split at h <;> simp at h
  all_goals simp at h

/-- on the `run` channel of `execB`, `undeclared n` is not a scope error: `n` IS visible at that
    point (it is an lvalue of the wrong kind — e.g. an array name assigned as a scalar) -/
theorem assign_run_undeclared_visible (x : Extra R) (l r : Expr) (b : BSt R) (n : String)
    (h : execB x (.assign l r) b = .error (.run (.undeclared n)) ∨
         execB x (.addAssign l r) b = .error (.run (.undeclared n))) :
    declared (stackNames b.st) n = true := by
  rcases h with h | h <;> simp only [execB] at h
  all_goals
    cases hu : (usesOkE (stackNames b.st) l).orElse (fun _ => usesOkE (stackNames b.st) r) with
    | some m => rw [hu] at h; simp at h
    | none =>
      rw [hu] at h
      simp only [] at h
      rw [orElse_none] at hu
      simp only [exec] at h
      split at h
      · rename_i e he
        simp at h; subst h
        split at he
        · exact usesOkE_none l hu.1 n (store_undeclared_mentions x _ l _ n he)
        · simp at he
      · simp at h
/-! ## The block-structured store holds exactly the visible variables -/

/-- `Tight b`: every name bound in `b.σ` (in any of the four name spaces) is declared in `b.st`, and
    every binding a frame remembers as shadowed belongs to a name declared further out.  An accepted
    statement preserves it: leaving a block removes the block's variables from the store. -/
theorem scoped_tight (x : Extra R) (s : Stmt) (sc sc' : Scopes) (b b' : BSt R)
    (h : scopedS sc s = .ok sc') (hb : stackNames b.st = sc) (ht : Tight b)
    (hr : execB x s b = .ok b') : Tight b' :=
  execB_tight x s sc sc' b b' h hb ht hr

/-- kernel level: started on a store that binds nothing but parameters, an accepted kernel ends
    with a store that binds nothing but names declared in the function body's own block -/
theorem kernel_tight (x : Extra R) (k : Stmt) (σ : St R) (b' : BSt R) (h : scopedKernel k = .ok ())
    (hσ : ∀ n, Bound σ n → declared kernelScope n = true) (hr : execB x k (initB σ) = .ok b') :
    ∃ f, stackNames b'.st = [f] ∧ ∀ n, Bound b'.σ n → n ∈ f := by
  simp only [scopedKernel] at h
  cases hs : scopedS kernelScope k with
  | error e => simp [hs] at h
  | ok sc' =>
    obtain ⟨f, rfl, _⟩ := scopedS_tail k _ [] sc' hs
    have ht0 : Tight (initB σ) := by
      refine ⟨fun n hn => by rw [initB_names]; exact hσ n hn, ⟨?_, trivial⟩⟩
      intro s hs' hb
      simp only [paramFrame, List.mem_map] at hs'
      obtain ⟨n, _, rfl⟩ := hs'
      simp [SavedBound] at hb
    have ht := scoped_tight x k kernelScope (f :: []) (initB σ) b' hs (initB_names σ) ht0 hr
    have hn : stackNames b'.st = [f] := by
      have := scoped_sound x k kernelScope (f :: []) (initB σ) hs (initB_names σ)
      rw [hr] at this; exact this
    refine ⟨f, hn, fun n hb => ?_⟩
    have := ht.bound n hb
    rw [hn] at this
    simpa [declared] using this

/-! ## Faithfulness of the flat semantics -/

theorem scoped_flat_faithful (x : Extra R) (κ : String → Kind) (s : Stmt) (sc sc' : Scopes)
    (D D' : List String) (b : BSt R) (τ : St R)
    (h : scopedS sc s = .ok sc') (hc : clobS sc D s = .ok D') (hk : kindsS κ s = true)
    (hr : Rel κ sc D b τ) : FaithRes (Rel κ sc' D') (execB x s b) (exec x s τ) :=
  scopedS_flat_faithful x κ s sc sc' D D' b τ h hc hk hr

theorem lookupKind_append_left {l1 l2 : List (String × Kind)} {n : String} {k : Kind}
    (h : (n, k) ∈ l1) (hu : ∀ k', (n, k') ∈ l1 → k' = k) : lookupKind (l1 ++ l2) n = k := by
  induction l1 with
  | nil => simp at h
  | cons p l ih =>
    obtain ⟨m, km⟩ := p
    simp only [List.cons_append, lookupKind]
    by_cases hm : m = n
    · subst hm
      simp only [if_true]
      exact hu km (by simp)
    · simp only [hm, if_false]
      refine ih ?_ (fun k' hk' => hu k' (List.mem_cons_of_mem _ hk'))
      rcases List.mem_cons.mp h with e | e
      · simp only [Prod.mk.injEq] at e; exact absurd e.1.symm hm
      · exact e

omit [Add R] [Sub R] [Mul R] [Div R] [Neg R] [IntCast R] in
/-- the stores the harness passes to the driver (scalar arrays `A w c coordinate_dofs`, integer arrays
    `entity_local_index quadrature_permutation`, nothing else) respect the kind assignment of every kernel -/
theorem paramState_kindInv (k : Stmt) (σ : St R) (hiv : σ.iv = []) (hsv : σ.sv = [])
    (hia : ∀ n, σ.ia.get n ≠ none → n = "entity_local_index" ∨ n = "quadrature_permutation")
    (hsa : ∀ n, σ.sa.get n ≠ none → n = "A" ∨ n = "w" ∨ n = "c" ∨ n = "coordinate_dofs") :
    KindInv (kindOf k) σ := by
  have hp : ∀ n kd, (n, kd) ∈ paramKinds → kindOf k n = kd := by
    intro n kd hmem
    refine lookupKind_append_left hmem ?_
    intro k' hk'
    simp only [paramKinds, List.mem_cons, Prod.mk.injEq, List.not_mem_nil, or_false] at hmem hk'
    rcases hmem with ⟨rfl, rfl⟩ | ⟨rfl, rfl⟩ | ⟨rfl, rfl⟩ | ⟨rfl, rfl⟩ | ⟨rfl, rfl⟩ | ⟨rfl, rfl⟩ | ⟨rfl, rfl⟩ <;>
      simp at hk' <;> exact hk'
  refine ⟨fun n _ => by simp [hiv, AList.get], fun n _ => by simp [hsv, AList.get], ?_, ?_⟩
  · intro n hn
    apply Classical.byContradiction
    intro hne
    rcases hia n hne with rfl | rfl
    · exact hn (hp _ _ (by simp [paramKinds]))
    · exact hn (hp _ _ (by simp [paramKinds]))
  · intro n hn
    apply Classical.byContradiction
    intro hne
    rcases hsa n hne with rfl | rfl | rfl | rfl
    · exact hn (hp _ _ (by simp [paramKinds]))
    · exact hn (hp _ _ (by simp [paramKinds]))
    · exact hn (hp _ _ (by simp [paramKinds]))
    · exact hn (hp _ _ (by simp [paramKinds]))

/-- kernel level: for an accepted kernel with the certificate `flatCert`, started on a store that
    respects the kernel's kind assignment (e.g. `paramState_kindInv`), the block-structured run and
    the flat run fail with the same run-time error, or both succeed and all four bindings of every
    parameter (in particular the tensor `A`) are the same in the two final stores. -/
theorem kernel_flat_faithful (x : Extra R) (k : Stmt) (σ : St R) (h : scopedKernel k = .ok ())
    (hc : flatCert k = true) (hk : KindInv (kindOf k) σ) :
    FaithRes (fun b' τ' => ∀ p, p ∈ kernelParams → Same4 p τ' b'.σ)
      (execB x k (initB σ)) (exec x k σ) := by
  simp only [scopedKernel] at h
  cases hs : scopedS kernelScope k with
  | error e => simp [hs] at h
  | ok sc' =>
    obtain ⟨f, rfl, hf⟩ := scopedS_tail k _ [] sc' hs
    simp only [flatCert, Bool.and_eq_true] at hc
    obtain ⟨hkinds, hclob⟩ := hc
    cases hcl : clobS kernelScope [] k with
    | error n => simp [hcl] at hclob
    | ok D' =>
      simp only [hcl, List.all_eq_true, Bool.not_eq_true', List.contains_eq_mem,
        decide_eq_false_iff_not] at hclob
      have hr : Rel (kindOf k) kernelScope [] (initB σ) σ :=
        ⟨initB_names σ, agree_of_pointwise (fun m _ => Same4.refl m σ), hk⟩
      refine (scoped_flat_faithful x (kindOf k) k kernelScope (f :: []) [] D' (initB σ) σ hs hcl hkinds hr).mono ?_
      intro b' τ' hq p hp
      refine hq.agree.at ⟨?_, hclob p hp⟩
      rw [declared_cons]
      have : p ∈ f := hf p (by
        simp only [kernelParams, List.mem_cons, List.not_mem_nil, or_false] at hp
        rcases hp with rfl | rfl | rfl | rfl | rfl | rfl <;> simp)
      simp [this]

/-! ## Partial completeness -/

mutual
/-- no `ForRange` anywhere -/
def straight : Stmt → Bool
  | .forRange .. => false
  | .block ss => straightL ss
  | .sect _ decls stmts _ _ _ => straightL decls && straightL stmts
  | _ => true
def straightL : List Stmt → Bool
  | [] => true
  | s :: ss => straight s && straightL ss
end

/-- the run stops with the scope error `e`, unless a run-time error stops it earlier -/
def Rejects (e : ScopeErr) (r : Except BErr (BSt R)) : Prop :=
  r = .error (.scope e) ∨ ∃ re, r = .error (.run re)

mutual
theorem scopedS_complete (x : Extra R) : ∀ (s : Stmt) (sc : Scopes) (e : ScopeErr) (b : BSt R),
    straight s = true → scopedS sc s = .error e → stackNames b.st = sc → Rejects e (execB x s b)
  | .assign l r, sc, e, b, _, h, hn => by
    simp only [scopedS] at h
    cases hu : (usesOkE sc l).orElse (fun _ => usesOkE sc r) with
    | none => rw [hu] at h; simp [checkUse] at h
    | some n =>
      rw [hu] at h; simp [checkUse] at h; subst h
      exact Or.inl (by simp only [execB, hn, hu])
  | .addAssign l r, sc, e, b, _, h, hn => by
    simp only [scopedS] at h
    cases hu : (usesOkE sc l).orElse (fun _ => usesOkE sc r) with
    | none => rw [hu] at h; simp [checkUse] at h
    | some n =>
      rw [hu] at h; simp [checkUse] at h; subst h
      exact Or.inl (by simp only [execB, hn, hu])
  | .vdecl n dt v, sc, e, b, _, h, hn => by
    simp only [scopedS] at h
    cases hu : usesOkE sc v with
    | some m =>
      rw [hu] at h; simp [checkUse] at h; subst h
      exact Or.inl (by simp only [execB, hn, hu])
    | none =>
      rw [hu] at h; simp only [checkUse] at h
      have hd := declareB_names b.st b.σ n
      rw [hn, h] at hd
      cases hdb : declareB b.st b.σ n with
      | ok st' => simp [hdb] at hd
      | error e' =>
        simp only [hdb, Except.error.injEq] at hd
        subst hd
        exact Or.inl (by simp only [execB, hn, hu, hdb])
  | .adecl n dt sizes c vals, sc, e, b, _, h, hn => by
    simp only [scopedS] at h
    cases hu : usesOkL sc (vals.getD []) with
    | some m =>
      rw [hu] at h; simp [checkUse] at h; subst h
      exact Or.inl (by simp only [execB, hn, hu])
    | none =>
      rw [hu] at h; simp only [checkUse] at h
      have hd := declareB_names b.st b.σ n
      rw [hn, h] at hd
      cases hdb : declareB b.st b.σ n with
      | ok st' => simp [hdb] at hd
      | error e' =>
        simp only [hdb, Except.error.injEq] at hd
        subst hd
        exact Or.inl (by simp only [execB, hn, hu, hdb])
  | .forRange i lo hi body, sc, e, b, hst, _, _ => by simp [straight] at hst
  | .comment _, sc, e, b, _, h, _ => by simp [scopedS] at h
  | .block ss, sc, e, b, hst, h, hn => by
    simp only [scopedS] at h
    simp only [straight] at hst
    simp only [execB]
    exact scopedL_complete x ss sc e b hst h hn
  | .sect _ decls stmts _ _ _, sc, e, b, hst, h, hn => by
    simp only [scopedS] at h
    simp only [straight, Bool.and_eq_true] at hst
    simp only [execB]
    cases h1 : scopedL sc decls with
    | error e1 =>
      simp [h1] at h; subst h
      rcases scopedL_complete x decls sc e1 b hst.1 h1 hn with hr | ⟨re, hr⟩
      · rw [hr]; exact Or.inl rfl
      · rw [hr]; exact Or.inr ⟨re, rfl⟩
    | ok sc1 =>
      simp only [h1] at h
      cases h2 : scopedL ([] :: sc1) stmts with
      | ok sc2 => simp [h2] at h
      | error e2 =>
        simp [h2] at h; subst h
        have hd := scopedL_sound x decls sc sc1 b h1 hn
        cases hr : execBL x decls b with
        | error eb =>
          cases eb with
          | scope es => simp [hr, SoundRes] at hd
          | run re => exact Or.inr ⟨re, rfl⟩
        | ok b1 =>
          simp only [hr, SoundRes] at hd
          simp only []
          rcases scopedL_complete x stmts ([] :: sc1) e2 (enter b1) hst.2 h2 (by simp [hd]) with hr2 | ⟨re, hr2⟩
          · rw [hr2]; exact Or.inl rfl
          · rw [hr2]; exact Or.inr ⟨re, rfl⟩

theorem scopedL_complete (x : Extra R) : ∀ (ss : List Stmt) (sc : Scopes) (e : ScopeErr) (b : BSt R),
    straightL ss = true → scopedL sc ss = .error e → stackNames b.st = sc → Rejects e (execBL x ss b)
  | [], sc, e, b, _, h, _ => by simp [scopedL] at h
  | s :: ss, sc, e, b, hst, h, hn => by
    simp only [scopedL] at h
    simp only [straightL, Bool.and_eq_true] at hst
    simp only [execBL]
    cases h1 : scopedS sc s with
    | error e1 =>
      simp [h1] at h; subst h
      rcases scopedS_complete x s sc e1 b hst.1 h1 hn with hr | ⟨re, hr⟩
      · rw [hr]; exact Or.inl rfl
      · rw [hr]; exact Or.inr ⟨re, rfl⟩
    | ok sc1 =>
      simp only [h1] at h
      have hd := scopedS_sound x s sc sc1 b h1 hn
      cases hr : execB x s b with
      | error eb =>
        cases eb with
        | scope es => simp [hr, SoundRes] at hd
        | run re => exact Or.inr ⟨re, rfl⟩
      | ok b1 =>
        simp only [hr, SoundRes] at hd
        simp only []
        exact scopedL_complete x ss sc1 e b1 hst.2 h hd
end

/-- PARTIAL completeness (loop-free statements): a rejected statement never runs to completion —
    `execB` raises exactly the scope error the checker reports, unless a run-time error of the flat
    semantics (out of bounds, bad index, …) stops the run before that point.
    Full statement (false, see `scoped_zero_trip_conservative`):
      `scopedS sc s = .error e → stackNames b.st = sc → Rejects e (execB x s b)` for every `s`. -/
theorem scoped_complete_partial (x : Extra R) (s : Stmt) (sc : Scopes) (e : ScopeErr) (b : BSt R)
    (hs : straight s = true) (h : scopedS sc s = .error e) (hb : stackNames b.st = sc) :
    execB x s b = .error (.scope e) ∨ ∃ re, execB x s b = .error (.run re) :=
  scopedS_complete x s sc e b hs h hb

/-! ## Concrete instances (non-vacuity, counterexamples) -/

/-- a tiny scalar domain for closed examples -/
def xI : Extra Int :=
  { ofRat := fun re _ => re.num, lt := fun a b => decide (a < b), le := fun a b => decide (a ≤ b),
    eqb := fun a b => a == b, fn := fun _ _ => 0 }

/-- `A` and `w` of length 2 -/
def σI : St Int :=
  { sa := [("A", { dims := [2], data := #[0, 0] }), ("w", { dims := [2], data := #[1, 10] })] }

def resB (r : Except BErr (BSt Int)) (n : String) : Option (List Int) :=
  match r with
  | .ok b => (b.σ.sa.get n).map (·.data.toList)
  | .error _ => none
def resF (r : Except Err (St Int)) (n : String) : Option (List Int) :=
  match r with
  | .ok b => (b.sa.get n).map (·.data.toList)
  | .error _ => none
def errB (r : Except BErr (BSt Int)) : Option BErr := match r with | .ok _ => none | .error e => some e

/-- a kernel fragment of the shape FFCx generates: a table, a quadrature loop whose body holds a
    section with a declared temporary `w0` filled by a loop nest, and a tensor section -/
def exK : Stmt :=
  .block [
    .adecl "FE0" .real [2, 2] true (some [.litF 1 0 false, .litF 2 0 false, .litF 3 0 false, .litF 4 0 false]),
    .forRange "iq" (.litI 0) (.litI 2) [
      .sect "coef" [.vdecl "w0" .scalar (.litF 0 0 false)]
        [.forRange "ic" (.litI 0) (.litI 2)
          [.addAssign (.sym "w0" .scalar)
            (.bin .mul (.idx "w" .scalar [.sym "ic" .int]) (.idx "FE0" .real [.sym "iq" .int, .sym "ic" .int]))]]
        [] [] [],
      .sect "tensor" [] [.forRange "i" (.litI 0) (.litI 2)
          [.addAssign (.idx "A" .scalar [.sym "i" .int])
            (.bin .mul (.sym "w0" .scalar) (.idx "FE0" .real [.sym "iq" .int, .sym "i" .int]))]] [] [] []
    ]]

/-- non-vacuity: the fragment is accepted and certified; both semantics compute the same `A`;
    after the run the temporary `w0` of the loop body is gone from the block-structured store
    (and still there, stale, in the flat one) -/
example :
    scopedKernel exK = .ok () ∧ flatCert exK = true ∧
    resB (execB xI exK (initB σI)) "A" = some [150, 214] ∧ resF (exec xI exK σI) "A" = some [150, 214] ∧
    (match execB xI exK (initB σI) with | .ok b => b.σ.sv.get "w0" | .error _ => some 0) = none ∧
    (match exec xI exK σI with | .ok τ => τ.sv.get "w0" | .error _ => none) = some 43 :=
  ⟨rfl, by decide, by decide +kernel, by decide +kernel, by decide +kernel, by decide +kernel⟩

/-- the hypotheses of `kernel_flat_faithful` are satisfiable on this instance -/
example : KindInv (kindOf exK) σI :=
  paramState_kindInv exK σI rfl rfl
    (fun n hn => by simp [σI, AList.get] at hn)
    (fun n hn => by
      simp only [σI, AList.get] at hn
      by_cases h1 : "A" = n
      · exact Or.inl h1.symm
      · by_cases h2 : "w" = n
        · exact Or.inr (Or.inl h2.symm)
        · simp [h1, h2] at hn)

/-- rejected, one per error kind — and `execB` really raises that error, from every store over
    every scalar domain: a loop index used after its loop; a parameter re-declared in the function
    body's own block -/
example (x : Extra R) (σ : St R) :
    scopedKernel (.block [.forRange "i" (.litI 0) (.litI 2) [],
      .addAssign (.idx "A" .scalar [.sym "i" .int]) (.litF 1 0 false)]) = .error (.undeclared "i") ∧
    execB x (.block [.forRange "i" (.litI 0) (.litI 2) [],
      .addAssign (.idx "A" .scalar [.sym "i" .int]) (.litF 1 0 false)]) (initB σ)
      = .error (.scope (.undeclared "i")) ∧
    scopedKernel (.vdecl "w" .scalar (.litF 1 0 false)) = .error (.redeclared "w") ∧
    execB x (.vdecl "w" .scalar (.litF 1 0 false)) (initB σ) = .error (.scope (.redeclared "w")) :=
  ⟨rfl, rfl, rfl, rfl⟩

/-- shadowing in an inner block is legal C and accepted; an outer `t` read again after the block -/
def kS : Stmt :=
  .block [.vdecl "t" .scalar (.litF 1 0 false),
    .forRange "i" (.litI 0) (.litI 1) [.vdecl "t" .scalar (.litF 2 0 false)],
    .addAssign (.idx "A" .scalar [.litI 0]) (.sym "t" .scalar)]

/-- the flat semantics is NOT faithful for every accepted kernel: here C (and `execB`) add the outer
    `t = 1` to `A[0]`, the flat store was overwritten by the inner `t = 2`.  `flatCert` rejects it. -/
theorem flat_unfaithful_shadow_counterexample :
    scopedKernel kS = .ok () ∧ flatCert kS = false ∧
    resB (execB xI kS (initB σI)) "A" = some [1, 0] ∧ resF (exec xI kS σI) "A" = some [2, 0] :=
  ⟨rfl, by decide, by decide +kernel, by decide +kernel⟩

/-- no shadowing, but `t` is a `double` in one loop body and an `int` in the next one -/
def kK : Stmt :=
  .block [.forRange "i" (.litI 0) (.litI 1) [.vdecl "t" .scalar (.litF 1 0 false)],
    .forRange "j" (.litI 0) (.litI 1) [.vdecl "t" .int (.litI 5),
      .addAssign (.idx "A" .scalar [.litI 0]) (.sym "t" .scalar)]]

/-- … nor without the kind certificate: nothing is clobbered (`clobS … = ok []`), yet the flat run
    reads the stale `double t` of the first loop body where the block-structured run has no scalar
    `t` at all (run-time error; in C the read would see the `int`). `kindsS` rejects it. -/
theorem flat_unfaithful_kind_counterexample :
    scopedKernel kK = .ok () ∧ clobS kernelScope [] kK = .ok [] ∧ flatCert kK = false ∧
    errB (execB xI kK (initB σI)) = some (.run (.oob "rhs")) ∧ resF (exec xI kK σI) "A" = some [1, 0] :=
  ⟨rfl, rfl, by decide, by decide +kernel, by decide +kernel⟩

/-- rejection is conservative for the DYNAMIC semantics: the body of a zero-trip loop is never run,
    so `execB` succeeds, while the checker (like a C compiler) rejects the undeclared `zz` in it.
    Hence `scoped_complete_partial` cannot be extended to loops without an "at least one
    iteration" hypothesis. -/
theorem scoped_zero_trip_conservative :
    scopedKernel (.forRange "i" (.litI 0) (.litI 0)
      [.addAssign (.idx "A" .scalar [.litI 0]) (.sym "zz" .scalar)]) = .error (.undeclared "zz") ∧
    errB (execB xI (.forRange "i" (.litI 0) (.litI 0)
      [.addAssign (.idx "A" .scalar [.litI 0]) (.sym "zz" .scalar)]) (initB σI)) = none :=
  ⟨rfl, by decide +kernel⟩

/-- the certificate accepts legal shadowing when the shadowed variable is dead afterwards (the shape
    of the real `multi_rule` kernel: `J` at function level, re-declared inside a quadrature loop) -/
example :
    flatCert (.block [.vdecl "J" .scalar (.litF 3 0 false),
      .vdecl "d" .scalar (.sym "J" .scalar),
      .forRange "iq" (.litI 0) (.litI 2) [.vdecl "J" .scalar (.litF 4 0 false),
        .addAssign (.idx "A" .scalar [.sym "iq" .int]) (.bin .mul (.sym "J" .scalar) (.sym "d" .scalar))]]) = true ∧
    clobS kernelScope [] (.block [.vdecl "J" .scalar (.litF 3 0 false),
      .forRange "iq" (.litI 0) (.litI 2) [.vdecl "J" .scalar (.litF 4 0 false)]]) = .ok ["J"] :=
  ⟨by decide, rfl⟩

end Ffcx.LNodes
