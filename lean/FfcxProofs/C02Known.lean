/-
C02 — statements that are EXPECTED TO FLIP when a known finding is repaired upstream.

Audited as its own obligation by `harness/props/c02.py`: if this module stops building while
`FfcxProofs.C02` still builds, the known finding
`refgeom:reference_facet_edge_vectors:ignores-facet` no longer reproduces in the model (the
regenerated `Generated/RefCells.lean` shows a table/access that takes the facet into account):
update `known_findings.jsonl` and retire the theorem below — nothing else is affected.
-/
import FfcxProofs.C02

namespace Ffcx.C02
open Ffcx.Geometry Ffcx.Generated

/-- **Counterexample (real defect of the pinned tree, known finding
`refgeom:reference_facet_edge_vectors:ignores-facet`).** `access.reference_facet_edge_vectors`
accepts the tetrahedron and the hexahedron, returns `table[component[0]][component[1]]` *without*
the facet index, while `geometry.reference_facet_edge_vectors` emits the vectors of all facets
flattened facet by facet: for facet 1, edge 1 of the tetrahedron the row read (`1`) is not the row
holding that edge (`rfevRow = 4`) and the two rows differ — UFL's `ReferenceFacetEdgeVectors`
("for each edge in current facet") evaluates to facet 0's edges on every facet. -/
theorem refgeom_access_counterexample :
    (accessOf tetrahedronCell "reference_facet_edge_vectors").map (fun a => (a.accepted, a.usesEntity, a.rank))
      = some (true, false, 2) ∧
    rfevRow tetrahedronCell 1 1 = 4 ∧
    getRow tetrahedronCell.referenceFacetEdgeVectors 1 ≠
      getRow tetrahedronCell.referenceFacetEdgeVectors (rfevRow tetrahedronCell 1 1) ∧
    (accessOf hexahedronCell "reference_facet_edge_vectors").map (fun a => (a.accepted, a.usesEntity))
      = some (true, false) := by
  decide +kernel

end Ffcx.C02
