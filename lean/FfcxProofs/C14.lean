/-
C14 — concurrent JIT requests on a shared cache.

Theorems about EVERY state reachable in the transition system `FfcxModel/Jit/Cache.lean`
(`Reach`: any number of requests, any interleaving of their file-system steps, any fail/kill choice
at every step - including a failing `fd.write`/`fd.close` of the ready marker; `ReachW`: the same
except that the marker write never fails; `ReachNF`: no failures at all).  The model is tied to
`ffcx/codegeneration/jit.py` by the forced-schedule correspondence of `harness/props/c14.py`.
Trusted: atomicity of `open(...,'x')`, `os.replace`, `os.path.exists`; the import machinery.

`compile_forms` and `compile_expressions` run the same protocol (`get_cached_module`,
`_compile_objects`, `_load_objects`, the same `except` block): one request of the model is one call
of either; every theorem below is about both, and the scheduler drives both.

The code as it is leaves the ready marker behind when `fd.write(s)`/`fd.close()` raises after
`open(ready_name,'x')` succeeded, while the `except` block renames the lock: `marker_implies_complete`,
`load_only_complete` and `reuse` are FALSE for the full fault domain (`..._counterexample`) and are
proved for runs with a fault-free marker write (`..._partial`).
-/
import FfcxProofs.Lemmas.Cache

namespace Ffcx.Jit

/-- Mutual exclusion: in every reachable state at most one request is inside a lock epoch
(between its successful `open(c,'x')` and its return / release / death), stated pairwise and as a
count; the compiler is invoked at most once per lock acquisition, and acquisitions are bracketed by
releases (`os.replace(.c -> .c.failed)`). -/
theorem at_most_one_builder {s : Sys} (h : Reach s) :
    (∀ (i j : Nat) (p q : Proc), s.procs[i]? = some p → s.procs[j]? = some q →
        p.pc.isB = true → q.pc.isB = true → i = j) ∧
    s.procs.countP (fun p => p.pc.isB) ≤ 1 ∧
    s.nCompile ≤ s.nLock ∧ s.nLock ≤ s.nRel + 1 := by
  have hi := inv_reach h
  refine ⟨hi.mutex, countP_le_one_of_unique _ _ hi.mutex, hi.compiles, ?_⟩
  have := hi.epochs
  split at this <;> omega

/-- non-vacuity: three racing requests, exactly one becomes the builder, two wait -/
example : (run (init 3 2) [(0, .none), (1, .none), (2, .none)]).procs.countP (fun p => p.pc.isB) = 1 ∧
    (run (init 3 2) [(0, .none), (1, .none), (2, .none)]).procs.map (·.pc) = [.bGen, .wPoll 0, .wPoll 0] := by
  decide

/- Full statement (FALSE for the code as it is, see the counterexample):
   theorem marker_implies_complete {s : Sys} (h : Reach s) (hm : s.fs.marker = true) :
       s.fs.so = .complete ∧ s.fs.lock = .source ∧ s.fs.obj = true
   Missing: the `except` path after a failing `fd.write`/`fd.close` does not remove the marker. -/

/-- The ready marker certifies a complete build: `.c.cached` exists → the `.so` is completely
written, `.c` holds the source and the object file exists - in every state reachable with any
interleaving and any fail/kill choices other than a failing write/close of the marker itself. -/
theorem marker_implies_complete_partial {s : Sys} (h : ReachW s) (hm : s.fs.marker = true) :
    s.fs.so = .complete ∧ s.fs.lock = .source ∧ s.fs.obj = true :=
  (invS_reachW h).ginv hm

/-- The code as it is: request 0 builds, `open(ready,'x')` succeeds, `fd.write` raises; the `finally`
block restores the handlers and the `except` block renames the lock.  Reachable state: marker
present, NO lock (so the next request becomes a builder).  Six steps of that next request later:
marker present while the linker is rewriting the `.so`. -/
theorem marker_implies_complete_counterexample :
    Reach (run (init 3 2) staleMarker) ∧
    (run (init 3 2) staleMarker).fs =
      { lock := .absent, so := .complete, obj := true, marker := true, failed := true, gen := 1 } ∧
    Reach (run (init 3 2) (staleMarker ++ List.replicate 6 (1, .none))) ∧
    (run (init 3 2) (staleMarker ++ List.replicate 6 (1, .none))).fs =
      { lock := .source, so := .part, obj := true, marker := true, failed := true, gen := 2 } := by
  refine ⟨reach_run (Reach.init 3 2) _, by decide, reach_run (Reach.init 3 2) _, by decide⟩

/-- non-vacuity: the marker is reachable (request 0 builds while request 1 polls) -/
example : (run (init 2 3) ((1, .none) :: List.replicate 9 (0, .none))).fs.marker = false ∧
    (run (init 2 3) ((0, .none) :: (1, .none) :: List.replicate 8 (0, .none))).fs.marker = true := by
  decide

/- Full statement (FALSE for the code as it is, see the counterexample): the same with `Reach s`. -/

/-- Nobody ever imports an incomplete module: whenever the next step of a request is the import
(`module_from_spec`/`exec_module`, waiter or builder) the `.so` is complete; the observable of every
load step says so; and every request that has returned imported a complete file, namely the `.so`
generation now on disk (`tok = fs.gen`: all requests that have returned hold the same module) - in
every state reachable with a fault-free marker write. -/
theorem load_only_complete_partial {s : Sys} (h : ReachW s) :
    (∀ (pid : Nat) (p : Proc), s.procs[pid]? = some p → p.pc.isLoad = true → s.fs.so = .complete) ∧
    (∀ (pid : Nat) (c : Choice), (obs s pid c).op = .load → (obs s pid c).res = .so .complete) ∧
    (∀ (i : Nat) (p : Proc) (b : Bool) (so : So), s.procs[i]? = some p → p.pc = .done b so →
        so = .complete ∧ p.tok = s.fs.gen) := by
  have hS := invS_reachW h
  have hi := hS.inv
  have h1 : ∀ (pid : Nat) (p : Proc), s.procs[pid]? = some p → p.pc.isLoad = true →
      s.fs.so = .complete := by
    intro pid p hp hl
    have hloc := (hi.loc pid p hp).2
    obtain ⟨pc, g, saved, polls, tok⟩ := p
    cases pc <;> simp_all [Pc.isLoad, LocPc]
    all_goals exact (hS.ginv hloc.1).1
  refine ⟨h1, ?_, ?_⟩
  · intro pid c hop
    cases hp : s.procs[pid]? with
    | none => simp [obs, hp] at hop
    | some p =>
      have hs := (step_procs_self s pid c p hp).2.2
      rw [hs] at hop ⊢
      have hl := stepProc_load _ _ _ _ hop
      rw [hl.2, h1 pid p hp hl.1]
  · intro i p b so hp hpc
    have hst := (hS.strong i p hp).2
    simp only [StrongPc, hpc] at hst
    exact hst

/-- The code as it is: after the stale marker of `staleMarker` request 1 rebuilds; while its linker
is writing, request 2 finds the lock taken, sees the stale marker at its first poll and imports the
half-written `.so`. -/
theorem load_only_complete_counterexample :
    Reach (run (init 3 2) (staleMarker ++ List.replicate 6 (1, .none) ++ List.replicate 3 (2, .none))) ∧
    (run (init 3 2) (staleMarker ++ List.replicate 6 (1, .none) ++ List.replicate 3 (2, .none))).procs.map (·.pc) =
      [.raised (.build .markWrite), .bLink2, .wLoad] ∧
    obs (run (init 3 2) (staleMarker ++ List.replicate 6 (1, .none) ++ List.replicate 3 (2, .none))) 2 .none =
      ⟨.load, .so .part⟩ ∧
    (run (init 3 2) (staleMarker ++ List.replicate 6 (1, .none) ++ List.replicate 4 (2, .none))).procs.map (·.pc) =
      [.raised (.build .markWrite), .bLink2, .done false .part] := by
  refine ⟨reach_run (Reach.init 3 2) _, by decide, by decide, by decide⟩

/-- non-vacuity: a waiter about to import, and the builder about to import -/
example :
    let s := run (init 2 3) ((0, .none) :: (1, .none) :: List.replicate 8 (0, .none) ++ [(1, .none), (1, .none)])
    s.procs.map (·.pc) = [.bMarkWrite, .wLoad] ∧ obs s 1 .none = ⟨.load, .so .complete⟩ := by
  decide

/- Full statement (FALSE for the code as it is, see the counterexample): the same with `Reach s`
   and every continuation `sch`. -/

/-- Reuse: once the marker exists no request is in (or ever enters) code generation or
compilation, a newly arriving request finds the lock taken (`open(c,'x')` fails), and along every
continuation, with arbitrary faults other than a failing marker write, the lock is never acquired
and the compiler never invoked again. -/
theorem reuse_partial {s : Sys} (h : ReachW s) (hm : s.fs.marker = true) :
    (∀ (i : Nat) (p : Proc), s.procs[i]? = some p → p.pc.isCompile = false) ∧
    (∀ (pid : Nat) (p : Proc), s.procs[pid]? = some p → p.pc = .idle →
        obs s pid .none = ⟨.lock, .exists_⟩) ∧
    (∀ sch : List (Nat × Choice), NoMWFail s sch →
        (run s sch).fs.marker = true ∧ (run s sch).nLock = s.nLock ∧
        (run s sch).nCompile = s.nCompile ∧
        ∀ (i : Nat) (p : Proc), (run s sch).procs[i]? = some p → p.pc.isCompile = false) := by
  have hi := invS_reachW h
  have key : ∀ {s : Sys}, InvS s → s.fs.marker = true →
      ∀ (i : Nat) (p : Proc), s.procs[i]? = some p → p.pc.isCompile = false := by
    intro s hi hm i p hp
    have hloc := (hi.strong i p hp).1
    cases hc : p.pc.isCompile with
    | false => rfl
    | true =>
      have : p.pc.isPre = true := by
        revert hc; cases p.pc <;> simp [Pc.isCompile, Pc.isPre]
      rw [hloc this] at hm; cases hm
  refine ⟨key hi hm, ?_, ?_⟩
  · intro pid p hp hidle
    have hl := (hi.ginv hm).2.1
    rw [(step_procs_self s pid .none p hp).2.2]
    obtain ⟨pc, g, saved, polls, tok⟩ := p
    simp only at hidle; subst hidle
    by_cases ht : s.timeout = 0 <;> simp [stepProc, stepLive, Pc.terminal, hl, ht]
  · intro sch hw
    have hr := run_after_marker s sch hi hw hm
    exact ⟨hr.1, hr.2.1, hr.2.2, key (invS_run hi sch hw) hr.1⟩

/-- The code as it is: with the stale marker of `staleMarker` present, a newly arriving request
acquires the lock and invokes the compiler although the marker exists. -/
theorem reuse_counterexample :
    Reach (run (init 3 2) staleMarker) ∧ (run (init 3 2) staleMarker).fs.marker = true ∧
    obs (run (init 3 2) staleMarker) 1 .none = ⟨.lock, .ok⟩ ∧
    (run (init 3 2) staleMarker).nCompile = 1 ∧
    (run (init 3 2) (staleMarker ++ List.replicate 4 (1, .none))).nCompile = 2 ∧
    (run (init 3 2) (staleMarker ++ List.replicate 4 (1, .none))).fs.marker = true := by
  refine ⟨reach_run (Reach.init 3 2) _, by decide, by decide, by decide, by decide, by decide⟩

/-- non-vacuity: a late request on a finished cache waits zero polls, imports, compiles nothing -/
example :
    let s := run (init 2 3) (List.replicate 13 (0, .none))
    s.fs.marker = true ∧ s.nCompile = 1 ∧ obs s 1 .none = ⟨.lock, .exists_⟩ ∧
    (run s (List.replicate 4 (1, .none))).procs.map (·.pc) = [.done true .complete, .done false .complete] ∧
    (run s (List.replicate 4 (1, .none))).nCompile = 1 := by
  decide

/-- A waiter raises `TimeoutError` after exactly `timeout` unsuccessful polls: a polling waiter has
made `i < timeout` unsuccessful polls; a further unsuccessful poll leads to the `(i+1)`-th wait or,
iff `i + 1 = timeout`, to the exception; whoever raised the timeout polled exactly `timeout` times. -/
theorem timeout_bound {s : Sys} (h : Reach s) (pid : Nat) (p : Proc) (hp : s.procs[pid]? = some p) :
    (∀ i : Nat, p.pc = .wPoll i → i < s.timeout ∧ p.polls = i ∧
      (s.fs.marker = false → ∀ c : Choice, c ≠ .kill →
        (step s pid c).procs[pid]? = some { p with
          pc := if i + 1 = s.timeout then .raised .timeout else .wPoll (i + 1), polls := i + 1 })) ∧
    (p.pc = .raised .timeout → p.polls = s.timeout) := by
  have hi := inv_reach h
  have hloc := (hi.loc pid p hp).2
  constructor
  · intro i hpc
    simp only [LocPc, hpc] at hloc
    refine ⟨hloc.1, hloc.2.1, ?_⟩
    intro hm c hc
    rw [(step_procs_self s pid c p hp).1]
    obtain ⟨pc, g, saved, polls, tok⟩ := p
    simp only at hpc hloc; subst hpc
    have hpolls := hloc.2.1
    by_cases ht : i + 1 < s.timeout
    · have : ¬ (i + 1 = s.timeout) := by omega
      simp [stepProc, stepLive, Pc.terminal, hc, hm, ht, this, hpolls]
    · have : i + 1 = s.timeout := by omega
      simp [stepProc, stepLive, Pc.terminal, hc, hm, this, hpolls]
  · intro hpc
    simp only [LocPc, hpc] at hloc
    exact hloc.1

/-- non-vacuity: timeout 2, the builder stalls, the waiter polls twice and raises -/
example : (run (init 2 2) [(0, .none), (1, .none), (1, .none)]).procs[1]? =
      some { pc := .wPoll 1, polls := 1 } ∧
    (run (init 2 2) [(0, .none), (1, .none), (1, .none), (1, .none)]).procs[1]? =
      some { pc := .raised .timeout, polls := 2 } := by
  decide

/-- Failure-free runs (a request = one call of `compile_forms` or of `compile_expressions`, same
transition system): for every number of requests, every timeout and every failure-free schedule
from the empty cache: the lock is acquired and the compiler invoked at most once; every request
scheduled at least `timeout + 14` times has terminated; every terminated request has either
returned a completely built module with its globals restored - THE SAME module for all of them:
the first and only `.so` the linker produced (`tok = 1`, the one on disk), built by the unique
builder - or raised `TimeoutError` after exactly `timeout` unsuccessful polls of its own (so with a
timeout larger than the number of times it is scheduled it does not raise at all). -/
theorem no_failure_all_succeed (n t : Nat) (sch : List (Nat × Choice))
    (hnf : ∀ x ∈ sch, x.2 = .none) :
    (run (init n t) sch).nLock ≤ 1 ∧ (run (init n t) sch).nCompile ≤ 1 ∧
    ∀ (j : Nat) (p : Proc), (run (init n t) sch).procs[j]? = some p →
      (sched sch j ≥ t + 14 → p.pc.terminal = true) ∧
      (p.pc.terminal = true →
        (∃ b, p.pc = .done b .complete ∧ p.g = userG ∧ p.tok = 1 ∧ (run (init n t) sch).fs.gen = 1) ∨
        (p.pc = .raised .timeout ∧ p.polls = t)) ∧
      (sched sch j < t → p.pc ≠ .raised .timeout) := by
  have hnfr := reachNF_run (ReachNF.init n t) sch hnf
  have hr := reachNF_reach hnfr
  have hS := invS_reachW (reachNF_reachW hnfr)
  have hi := hS.inv
  have hn := invNF_reach hnfr
  have hlock : (run (init n t) sch).nLock ≤ 1 := by
    have := hi.epochs; have := hn.norel
    split at * <;> omega
  refine ⟨hlock, Nat.le_trans hi.compiles hlock, ?_⟩
  intro j p hp
  have hloc := (hi.loc j p hp).2
  have hto : (run (init n t) sch).timeout = t := by rw [run_timeout]; rfl
  refine ⟨?_, ?_, ?_⟩
  · intro hs
    have hnr : noRetry sch j := fun x hx _ => by rw [hnf x hx]; simp
    exact terminal_of_sched (init n t) sch j p hnr (by simpa [init] using hs) hp
  · intro hterm
    have hcl := hn.clean j p hp
    have hst := (hS.strong j p hp).2
    have hlow := hi.lower
    have hgl := hi.genle
    have hcm := hi.compiles
    obtain ⟨pc, g, saved, polls, tok⟩ := p
    cases pc <;> simp_all [Pc.terminal, Pc.faulty, LocPc, StrongPc]
    case raised e => cases e <;> simp_all
    case done b so => omega
  · intro hs hpc
    simp only [LocPc, hpc, hto] at hloc
    have h1 := pollsAt_run (init n t) sch j
    rw [pollsAt_init] at h1
    simp only [pollsAt, hp] at h1
    omega

/-- non-vacuity: four requests, round-robin, timeout 20: all return the complete module, one compile -/
example :
    let sch := (List.range 40).flatMap fun _ => [(0, Choice.none), (1, .none), (2, .none), (3, .none)]
    (run (init 4 20) sch).procs.map (·.pc) =
      [.done true .complete, .done false .complete, .done false .complete, .done false .complete] ∧
    (run (init 4 20) sch).procs.map (·.tok) = [1, 1, 1, 1] ∧
    (run (init 4 20) sch).nCompile = 1 := by
  decide +kernel

/-- Exactly one compiles (`compile_forms` and `compile_expressions` alike: same transition system):
in every failure-free run (any number of requests, any interleaving, any timeout) in which at least one request has returned - in particular in every run in which all
requests have finished successfully - the compiler has been invoked exactly once, the lock acquired
exactly once, the `.so` linked exactly once, and exactly one request is (or was) the builder.
(`at_most_one_builder`/`no_failure_all_succeed` give `≤ 1`; this is the lower bound.) -/
theorem exactly_one_builder (n t : Nat) (sch : List (Nat × Choice))
    (hnf : ∀ x ∈ sch, x.2 = .none)
    (hfin : ∃ (j : Nat) (p : Proc) (b : Bool) (so : So),
      (run (init n t) sch).procs[j]? = some p ∧ p.pc = .done b so) :
    (run (init n t) sch).nCompile = 1 ∧ (run (init n t) sch).nLock = 1 ∧
    (run (init n t) sch).fs.gen = 1 ∧
    (run (init n t) sch).procs.countP (fun p => p.pc.isBB) = 1 := by
  have hnfr := reachNF_run (ReachNF.init n t) sch hnf
  have hi := inv_reach (reachNF_reach hnfr)
  have hn := invNF_reach hnfr
  obtain ⟨j, p, b, so, hp, hpc⟩ := hfin
  have hloc := (hi.loc j p hp).2
  simp only [LocPc, hpc] at hloc
  have hlow := hi.lower hloc.1
  have hlock : (run (init n t) sch).nLock ≤ 1 := by
    have := hi.epochs; have := hn.norel
    split at * <;> omega
  have := hi.compiles
  have := hi.genle
  have := hn.built
  refine ⟨by omega, by omega, by omega, by omega⟩

/-- non-vacuity: three requests, all finish successfully; exactly one compile, one builder -/
example :
    let sch := (List.range 20).flatMap fun _ => [(2, Choice.none), (0, .none), (1, .none)]
    (run (init 3 9) sch).procs.map (·.pc) = [.done false .complete, .done false .complete, .done true .complete] ∧
    (run (init 3 9) sch).nCompile = 1 ∧ (run (init 3 9) sch).procs.countP (fun p => p.pc.isBB) = 1 := by
  decide +kernel

end Ffcx.Jit
