/-
C14 — concurrent JIT requests on a shared cache.

Theorems about EVERY state reachable in the transition system `FfcxModel/Jit/Cache.lean`
(`Reach`: any number of requests, any interleaving of their file-system steps, any fail/kill choice
at every step; `ReachNF`: the same without failures).  The model is tied to
`ffcx/codegeneration/jit.py` by the forced-schedule correspondence of `harness/props/c14.py`.
Trusted: atomicity of `open(...,'x')`, `os.replace`, `os.path.exists`; the import machinery.
-/
import FfcxProofs.Lemmas.Cache

namespace Ffcx.Jit

/-- Mutual exclusion: in every reachable state at most one request is inside a lock epoch
(between its successful `open(c,'x')` and its return / release / death), stated pairwise and as a
count; the compiler is invoked at most once per lock acquisition, and acquisitions are bracketed by
releases (`os.replace(.c -> .c.failed)`). -/
theorem at_most_one_builder {s : Sys} (h : Reach s) :
    (∀ (i j : Nat) (p q : Proc), s.procs[i]? = some p → s.procs[j]? = some q →
        p.pc.isB = true → q.pc.isB = true → i = j) ∧
    s.procs.countP (fun p => p.pc.isB) ≤ 1 ∧
    s.nCompile ≤ s.nLock ∧ s.nLock ≤ s.nRel + 1 := by
  have hi := inv_reach h
  refine ⟨hi.mutex, countP_le_one_of_unique _ _ hi.mutex, hi.compiles, ?_⟩
  have := hi.epochs
  split at this <;> omega

/-- non-vacuity: three racing requests, exactly one becomes the builder, two wait -/
example : (run (init 3 2) [(0, .none), (1, .none), (2, .none)]).procs.countP (fun p => p.pc.isB) = 1 ∧
    (run (init 3 2) [(0, .none), (1, .none), (2, .none)]).procs.map (·.pc) = [.bGen, .wPoll 0, .wPoll 0] := by
  decide

/-- The ready marker certifies a complete build: `.c.cached` exists → the `.so` is completely
written, `.c` holds the source and the object file exists. -/
theorem marker_implies_complete {s : Sys} (h : Reach s) (hm : s.fs.marker = true) :
    s.fs.so = .complete ∧ s.fs.lock = .source ∧ s.fs.obj = true :=
  (inv_reach h).ginv hm

/-- non-vacuity: the marker is reachable (request 0 builds while request 1 polls) -/
example : (run (init 2 3) ((1, .none) :: List.replicate 9 (0, .none))).fs.marker = false ∧
    (run (init 2 3) ((0, .none) :: (1, .none) :: List.replicate 8 (0, .none))).fs.marker = true := by
  decide

/-- Nobody ever imports an incomplete module: whenever the next step of a request is the import
(`module_from_spec`/`exec_module`, waiter or builder) the `.so` is complete; the observable of every
load step says so; and every request that has returned imported a complete file. -/
theorem load_only_complete {s : Sys} (h : Reach s) :
    (∀ (pid : Nat) (p : Proc), s.procs[pid]? = some p → p.pc.isLoad = true → s.fs.so = .complete) ∧
    (∀ (pid : Nat) (c : Choice), (obs s pid c).op = .load → (obs s pid c).res = .so .complete) ∧
    (∀ (i : Nat) (p : Proc) (b : Bool) (so : So), s.procs[i]? = some p → p.pc = .done b so →
        so = .complete) := by
  have hi := inv_reach h
  have h1 : ∀ (pid : Nat) (p : Proc), s.procs[pid]? = some p → p.pc.isLoad = true →
      s.fs.so = .complete := by
    intro pid p hp hl
    have hloc := (hi.loc pid p hp).2.2
    obtain ⟨pc, g, saved, polls⟩ := p
    cases pc <;> simp_all [Pc.isLoad, LocPc]
    all_goals exact (hi.ginv hloc.1).1
  refine ⟨h1, ?_, ?_⟩
  · intro pid c hop
    cases hp : s.procs[pid]? with
    | none => simp [obs, hp] at hop
    | some p =>
      have hs := (step_procs_self s pid c p hp).2.2
      rw [hs] at hop ⊢
      have hl := stepProc_load _ _ _ _ hop
      rw [hl.2, h1 pid p hp hl.1]
  · intro i p b so hp hpc
    have hloc := (hi.loc i p hp).2.2
    simp only [LocPc, hpc] at hloc
    exact hloc.1

/-- non-vacuity: a waiter about to import, and the builder about to import -/
example :
    let s := run (init 2 3) ((0, .none) :: (1, .none) :: List.replicate 8 (0, .none) ++ [(1, .none), (1, .none)])
    s.procs.map (·.pc) = [.bRestore, .wLoad] ∧ obs s 1 .none = ⟨.load, .so .complete⟩ := by
  decide

/-- Reuse: once the marker exists no request is in (or ever enters) code generation or
compilation, a newly arriving request finds the lock taken (`open(c,'x')` fails), and along every
continuation, with arbitrary faults, the lock is never acquired and the compiler never invoked again. -/
theorem reuse {s : Sys} (h : Reach s) (hm : s.fs.marker = true) :
    (∀ (i : Nat) (p : Proc), s.procs[i]? = some p → p.pc.isCompile = false) ∧
    (∀ (pid : Nat) (p : Proc), s.procs[pid]? = some p → p.pc = .idle →
        obs s pid .none = ⟨.lock, .exists_⟩) ∧
    (∀ sch : List (Nat × Choice), (run s sch).fs.marker = true ∧ (run s sch).nLock = s.nLock ∧
        (run s sch).nCompile = s.nCompile ∧
        ∀ (i : Nat) (p : Proc), (run s sch).procs[i]? = some p → p.pc.isCompile = false) := by
  have hi := inv_reach h
  have key : ∀ {s : Sys}, Inv s → s.fs.marker = true →
      ∀ (i : Nat) (p : Proc), s.procs[i]? = some p → p.pc.isCompile = false := by
    intro s hi hm i p hp
    have hloc := (hi.loc i p hp).2.1
    cases hc : p.pc.isCompile with
    | false => rfl
    | true =>
      have : p.pc.isPre = true := by
        revert hc; cases p.pc <;> simp [Pc.isCompile, Pc.isPre]
      rw [hloc this] at hm; cases hm
  refine ⟨key hi hm, ?_, ?_⟩
  · intro pid p hp hidle
    have hl := (hi.ginv hm).2.1
    rw [(step_procs_self s pid .none p hp).2.2]
    obtain ⟨pc, g, saved, polls⟩ := p
    simp only at hidle; subst hidle
    by_cases ht : s.timeout = 0 <;> simp [stepProc, stepLive, Pc.terminal, hl, ht]
  · intro sch
    have hr := run_after_marker s sch hi hm
    exact ⟨hr.1, hr.2.1, hr.2.2, key (inv_reach (reach_run h sch)) hr.1⟩

/-- non-vacuity: a late request on a finished cache waits zero polls, imports, compiles nothing -/
example :
    let s := run (init 2 3) (List.replicate 12 (0, .none))
    s.fs.marker = true ∧ s.nCompile = 1 ∧ obs s 1 .none = ⟨.lock, .exists_⟩ ∧
    (run s (List.replicate 4 (1, .none))).procs.map (·.pc) = [.done true .complete, .done false .complete] ∧
    (run s (List.replicate 4 (1, .none))).nCompile = 1 := by
  decide

/-- A waiter raises `TimeoutError` after exactly `timeout` unsuccessful polls: a polling waiter has
made `i < timeout` unsuccessful polls; a further unsuccessful poll leads to the `(i+1)`-th wait or,
iff `i + 1 = timeout`, to the exception; whoever raised the timeout polled exactly `timeout` times. -/
theorem timeout_bound {s : Sys} (h : Reach s) (pid : Nat) (p : Proc) (hp : s.procs[pid]? = some p) :
    (∀ i : Nat, p.pc = .wPoll i → i < s.timeout ∧ p.polls = i ∧
      (s.fs.marker = false → ∀ c : Choice, c ≠ .kill →
        (step s pid c).procs[pid]? = some { p with
          pc := if i + 1 = s.timeout then .raised .timeout else .wPoll (i + 1), polls := i + 1 })) ∧
    (p.pc = .raised .timeout → p.polls = s.timeout) := by
  have hi := inv_reach h
  have hloc := (hi.loc pid p hp).2.2
  constructor
  · intro i hpc
    simp only [LocPc, hpc] at hloc
    refine ⟨hloc.1, hloc.2.1, ?_⟩
    intro hm c hc
    rw [(step_procs_self s pid c p hp).1]
    obtain ⟨pc, g, saved, polls⟩ := p
    simp only at hpc hloc; subst hpc
    have hpolls := hloc.2.1
    by_cases ht : i + 1 < s.timeout
    · have : ¬ (i + 1 = s.timeout) := by omega
      simp [stepProc, stepLive, Pc.terminal, hc, hm, ht, this, hpolls]
    · have : i + 1 = s.timeout := by omega
      simp [stepProc, stepLive, Pc.terminal, hc, hm, this, hpolls]
  · intro hpc
    simp only [LocPc, hpc] at hloc
    exact hloc.1

/-- non-vacuity: timeout 2, the builder stalls, the waiter polls twice and raises -/
example : (run (init 2 2) [(0, .none), (1, .none), (1, .none)]).procs[1]? =
      some { pc := .wPoll 1, polls := 1 } ∧
    (run (init 2 2) [(0, .none), (1, .none), (1, .none), (1, .none)]).procs[1]? =
      some { pc := .raised .timeout, polls := 2 } := by
  decide

/-- Failure-free runs: for every number of requests, every timeout and every failure-free schedule
from the empty cache: the lock is acquired and the compiler invoked at most once; every request
scheduled at least `timeout + 13` times has terminated; every terminated request has either
returned a completely built module with its globals restored, or raised `TimeoutError` after exactly
`timeout` unsuccessful polls of its own (so with a timeout larger than the number of times it is
scheduled it does not raise at all). -/
theorem no_failure_all_succeed (n t : Nat) (sch : List (Nat × Choice))
    (hnf : ∀ x ∈ sch, x.2 = .none) :
    (run (init n t) sch).nLock ≤ 1 ∧ (run (init n t) sch).nCompile ≤ 1 ∧
    ∀ (j : Nat) (p : Proc), (run (init n t) sch).procs[j]? = some p →
      (sched sch j ≥ t + 13 → p.pc.terminal = true) ∧
      (p.pc.terminal = true →
        (∃ b, p.pc = .done b .complete ∧ p.g = userG) ∨ (p.pc = .raised .timeout ∧ p.polls = t)) ∧
      (sched sch j < t → p.pc ≠ .raised .timeout) := by
  have hnfr := reachNF_run (ReachNF.init n t) sch hnf
  have hr := reachNF_reach hnfr
  have hi := inv_reach hr
  have hn := invNF_reach hnfr
  have hlock : (run (init n t) sch).nLock ≤ 1 := by
    have := hi.epochs; have := hn.norel
    split at * <;> omega
  refine ⟨hlock, Nat.le_trans hi.compiles hlock, ?_⟩
  intro j p hp
  have hloc := (hi.loc j p hp).2.2
  have hto : (run (init n t) sch).timeout = t := by rw [run_timeout]; rfl
  refine ⟨?_, ?_, ?_⟩
  · intro hs
    have hnr : noRetry sch j := fun x hx _ => by rw [hnf x hx]; simp
    exact terminal_of_sched (init n t) sch j p hnr (by simpa [init] using hs) hp
  · intro hterm
    have hcl := hn.clean j p hp
    obtain ⟨pc, g, saved, polls⟩ := p
    cases pc <;> simp_all [Pc.terminal, Pc.faulty, LocPc]
    case raised e => cases e <;> simp_all
  · intro hs hpc
    simp only [LocPc, hpc, hto] at hloc
    have h1 := pollsAt_run (init n t) sch j
    rw [pollsAt_init] at h1
    simp only [pollsAt, hp] at h1
    omega

/-- non-vacuity: four requests, round-robin, timeout 20: all return the complete module, one compile -/
example :
    let sch := (List.range 40).flatMap fun _ => [(0, Choice.none), (1, .none), (2, .none), (3, .none)]
    (run (init 4 20) sch).procs.map (·.pc) =
      [.done true .complete, .done false .complete, .done false .complete, .done false .complete] ∧
    (run (init 4 20) sch).nCompile = 1 := by
  decide +kernel

end Ffcx.Jit
