/-
C14 — concurrent JIT requests on a shared cache.

Theorems about EVERY state reachable in the transition system `FfcxModel/Jit/Cache.lean`
(`Reach`: any number of requests, any interleaving of their file-system steps, any fail/kill choice
at every step — code generation, the four phases of the C build, creating / writing / publishing
the ready marker; `ReachNF`: the same without failures).  The model is tied to
`ffcx/codegeneration/jit.py` by the forced-schedule correspondence of `harness/props/c14.py`.
Trusted: atomicity of `open(...,'x')`, `os.replace`, `os.path.exists`; the import machinery.

`compile_forms` and `compile_expressions` run the same protocol (`get_cached_module`,
`_compile_objects`, `_load_objects`, the same `except` block): one request of the model is one call
of either; every theorem below is about both, and the scheduler drives both.

Since /repo commit 101bdbe the ready marker is completed under a temporary name and moved into place
with one `os.replace`: it never exists without being complete and nobody removes it, so all theorems
hold for the full fault domain (before that commit a failing `fd.write` on the marker left a stale
marker behind: `marker_implies_complete`, `load_only_complete` and `reuse` were false then).
-/
import FfcxProofs.Lemmas.Cache

namespace Ffcx.Jit

/-- Mutual exclusion: in every reachable state at most one request is inside a lock epoch
(between its successful `open(c,'x')` and its return / release / death), stated pairwise and as a
count; the compiler is invoked at most once per lock acquisition, and acquisitions are bracketed by
releases (`os.replace(.c -> .c.failed)`). -/
theorem at_most_one_builder {s : Sys} (h : Reach s) :
    (∀ (i j : Nat) (p q : Proc), s.procs[i]? = some p → s.procs[j]? = some q →
        p.pc.isB = true → q.pc.isB = true → i = j) ∧
    s.procs.countP (fun p => p.pc.isB) ≤ 1 ∧
    s.nCompile ≤ s.nLock ∧ s.nLock ≤ s.nRel + 1 := by
  have hi := inv_reach h
  refine ⟨hi.mutex, countP_le_one_of_unique _ _ hi.mutex, hi.compiles, ?_⟩
  have := hi.epochs
  split at this <;> omega

/-- non-vacuity: three racing requests, exactly one becomes the builder, two wait -/
example : (run (init 3 2) [(0, .none), (1, .none), (2, .none)]).procs.countP (fun p => p.pc.isB) = 1 ∧
    (run (init 3 2) [(0, .none), (1, .none), (2, .none)]).procs.map (·.pc) = [.bGen, .wPoll 0, .wPoll 0] := by
  decide

/-- The ready marker certifies a complete build: `.c.cached` exists → the `.so` is completely
written, `.c` holds the source and the object file exists — in every reachable state, whatever
failed or was killed, including a failing write of the marker itself. -/
theorem marker_implies_complete {s : Sys} (h : Reach s) (hm : s.fs.marker = true) :
    s.fs.so = .complete ∧ s.fs.lock = .source ∧ s.fs.obj = true :=
  (inv_reach h).ginv.1 hm

/-- non-vacuity: the marker is reachable (request 0 builds while request 1 polls); a failing write of
the marker leaves neither marker nor temp file nor lock -/
example : (run (init 2 3) ((1, .none) :: List.replicate 12 (0, .none))).fs.marker = false ∧
    (run (init 2 3) ((0, .none) :: (1, .none) :: List.replicate 11 (0, .none))).fs.marker = true ∧
    (run (init 2 3) failedMarkerWrite).fs = { so := .complete, obj := true, failed := true, gen := 1 } := by
  decide

/-- Nobody ever imports an incomplete module: whenever the next step of a request is the import
(`module_from_spec`/`exec_module`, waiter or builder) the `.so` is complete; the observable of every
load step says so; and every request that has returned imported a complete file, namely the `.so`
generation now on disk (`tok = fs.gen`: all requests that have returned hold the same module). -/
theorem load_only_complete {s : Sys} (h : Reach s) :
    (∀ (pid : Nat) (p : Proc), s.procs[pid]? = some p → p.pc.isLoad = true → s.fs.so = .complete) ∧
    (∀ (pid : Nat) (c : Choice), (obs s pid c).op = .load → (obs s pid c).res = .so .complete) ∧
    (∀ (i : Nat) (p : Proc) (b : Bool) (so : So), s.procs[i]? = some p → p.pc = .done b so →
        so = .complete ∧ p.tok = s.fs.gen) := by
  have hi := inv_reach h
  have h1 : ∀ (pid : Nat) (p : Proc), s.procs[pid]? = some p → p.pc.isLoad = true →
      s.fs.so = .complete := by
    intro pid p hp hl
    have hloc := (hi.loc pid p hp).2.2.2
    obtain ⟨pc, g, saved, polls, tok⟩ := p
    cases pc <;> simp_all [Pc.isLoad, LocPc]
    all_goals exact (hi.ginv.1 hloc.1).1
  refine ⟨h1, ?_, ?_⟩
  · intro pid c hop
    cases hp : s.procs[pid]? with
    | none => simp [obs, hp] at hop
    | some p =>
      have hs := (step_procs_self s pid c p hp).2.2
      rw [hs] at hop ⊢
      have hl := stepProc_load _ _ _ _ hop
      rw [hl.2, h1 pid p hp hl.1]
  · intro i p b so hp hpc
    have hloc := (hi.loc i p hp).2.2.2
    simp only [LocPc, hpc] at hloc
    exact ⟨hloc.1, hloc.2.1⟩

/-- non-vacuity: a waiter about to import, and the builder about to import; the interleaving of
the former withdrawn-marker race (request 1 polls while request 0 is writing the marker's temp file,
the write fails, request 2 rebuilds): request 1 never sees a marker before the rebuild is complete -/
example :
    let s := run (init 2 3) ((0, .none) :: (1, .none) :: List.replicate 11 (0, .none) ++ [(1, .none), (1, .none)])
    s.procs.map (·.pc) = [.bRestore, .wLoad] ∧ obs s 1 .none = ⟨.load, .so .complete⟩ := by
  decide

example :
    let sch := List.replicate 9 (0, Choice.none) ++ [(1, .none), (1, .none)] ++
      [(0, .fail), (0, .none), (0, .none), (0, .none)] ++ List.replicate 6 (2, .none) ++ [(1, .none)]
    (run (init 3 3) sch).procs.map (·.pc) = [.raised (.build .tmpWrite), .wPoll 2, .bLink2] ∧
    (run (init 3 3) sch).fs.marker = false := by
  decide

/-- Reuse: once the marker exists no request is in (or ever enters) code generation or
compilation, a newly arriving request finds the lock taken (`open(c,'x')` fails), and along every
continuation, with arbitrary faults, the marker stays, the lock is never acquired and the compiler
never invoked again. -/
theorem reuse {s : Sys} (h : Reach s) (hm : s.fs.marker = true) :
    (∀ (i : Nat) (p : Proc), s.procs[i]? = some p → p.pc.isCompile = false) ∧
    (∀ (pid : Nat) (p : Proc), s.procs[pid]? = some p → p.pc = .idle →
        obs s pid .none = ⟨.lock, .exists_⟩) ∧
    (∀ sch : List (Nat × Choice), (run s sch).fs.marker = true ∧ (run s sch).nLock = s.nLock ∧
        (run s sch).nCompile = s.nCompile ∧
        ∀ (i : Nat) (p : Proc), (run s sch).procs[i]? = some p → p.pc.isCompile = false) := by
  have hi := inv_reach h
  have key : ∀ {s : Sys}, Inv s → s.fs.marker = true →
      ∀ (i : Nat) (p : Proc), s.procs[i]? = some p → p.pc.isCompile = false := by
    intro s hi hm i p hp
    have hloc := (hi.loc i p hp).2.1
    cases hc : p.pc.isCompile with
    | false => rfl
    | true =>
      have : p.pc.isPre = true := by
        revert hc; cases p.pc <;> simp [Pc.isCompile, Pc.isPre]
      rw [hloc this] at hm; cases hm
  refine ⟨key hi hm, ?_, ?_⟩
  · intro pid p hp hidle
    have hl := (hi.ginv.1 hm).2.1
    rw [(step_procs_self s pid .none p hp).2.2]
    obtain ⟨pc, g, saved, polls, tok⟩ := p
    simp only at hidle; subst hidle
    by_cases ht : s.timeout = 0 <;> simp [stepProc, stepLive, Pc.terminal, hl, ht]
  · intro sch
    have hr := run_after_marker s sch hi hm
    exact ⟨hr.1, hr.2.1, hr.2.2, key (inv_reach (reach_run h sch)) hr.1⟩

/-- non-vacuity: a late request on a finished cache waits zero polls, imports, compiles nothing -/
example :
    let s := run (init 2 3) (List.replicate 15 (0, .none))
    s.fs.marker = true ∧ s.nCompile = 1 ∧ obs s 1 .none = ⟨.lock, .exists_⟩ ∧
    (run s (List.replicate 4 (1, .none))).procs.map (·.pc) = [.done true .complete, .done false .complete] ∧
    (run s (List.replicate 4 (1, .none))).nCompile = 1 := by
  decide

/-- A waiter raises `TimeoutError` after exactly `timeout` unsuccessful polls: a polling waiter has
made `i < timeout` unsuccessful polls; a further unsuccessful poll leads to the `(i+1)`-th wait or,
iff `i + 1 = timeout`, to the exception; whoever raised the timeout polled exactly `timeout` times. -/
theorem timeout_bound {s : Sys} (h : Reach s) (pid : Nat) (p : Proc) (hp : s.procs[pid]? = some p) :
    (∀ i : Nat, p.pc = .wPoll i → i < s.timeout ∧ p.polls = i ∧
      (s.fs.marker = false → ∀ c : Choice, c ≠ .kill →
        (step s pid c).procs[pid]? = some { p with
          pc := if i + 1 = s.timeout then .raised .timeout else .wPoll (i + 1), polls := i + 1 })) ∧
    (p.pc = .raised .timeout → p.polls = s.timeout) := by
  have hi := inv_reach h
  have hloc := (hi.loc pid p hp).2.2.2
  constructor
  · intro i hpc
    simp only [LocPc, hpc] at hloc
    refine ⟨hloc.1, hloc.2.1, ?_⟩
    intro hm c hc
    rw [(step_procs_self s pid c p hp).1]
    obtain ⟨pc, g, saved, polls, tok⟩ := p
    simp only at hpc hloc; subst hpc
    have hpolls := hloc.2.1
    by_cases ht : i + 1 < s.timeout
    · have : ¬ (i + 1 = s.timeout) := by omega
      simp [stepProc, stepLive, Pc.terminal, hc, hm, ht, this, hpolls]
    · have : i + 1 = s.timeout := by omega
      simp [stepProc, stepLive, Pc.terminal, hc, hm, this, hpolls]
  · intro hpc
    simp only [LocPc, hpc] at hloc
    exact hloc.1

/-- non-vacuity: timeout 2, the builder stalls, the waiter polls twice and raises -/
example : (run (init 2 2) [(0, .none), (1, .none), (1, .none)]).procs[1]? =
      some { pc := .wPoll 1, polls := 1 } ∧
    (run (init 2 2) [(0, .none), (1, .none), (1, .none), (1, .none)]).procs[1]? =
      some { pc := .raised .timeout, polls := 2 } := by
  decide

/-- Failure-free runs (a request = one call of `compile_forms` or of `compile_expressions`, same
transition system): for every number of requests, every timeout and every failure-free schedule
from the empty cache: the lock is acquired and the compiler invoked at most once; every request
scheduled at least `timeout + 16` times has terminated; every terminated request has either
returned a completely built module with its globals restored — THE SAME module for all of them:
the first and only `.so` the linker produced (`tok = 1`, the one on disk), built by the unique
builder — or raised `TimeoutError` after exactly `timeout` unsuccessful polls of its own (so with a
timeout larger than the number of times it is scheduled it does not raise at all). -/
theorem no_failure_all_succeed (n t : Nat) (sch : List (Nat × Choice))
    (hnf : ∀ x ∈ sch, x.2 = .none) :
    (run (init n t) sch).nLock ≤ 1 ∧ (run (init n t) sch).nCompile ≤ 1 ∧
    ∀ (j : Nat) (p : Proc), (run (init n t) sch).procs[j]? = some p →
      (sched sch j ≥ t + 16 → p.pc.terminal = true) ∧
      (p.pc.terminal = true →
        (∃ b, p.pc = .done b .complete ∧ p.g = userG ∧ p.tok = 1 ∧ (run (init n t) sch).fs.gen = 1) ∨
        (p.pc = .raised .timeout ∧ p.polls = t)) ∧
      (sched sch j < t → p.pc ≠ .raised .timeout) := by
  have hnfr := reachNF_run (ReachNF.init n t) sch hnf
  have hr := reachNF_reach hnfr
  have hi := inv_reach hr
  have hn := invNF_reach hnfr
  have hlock : (run (init n t) sch).nLock ≤ 1 := by
    have := hi.epochs; have := hn.norel
    split at * <;> omega
  refine ⟨hlock, Nat.le_trans hi.compiles hlock, ?_⟩
  intro j p hp
  have hloc := (hi.loc j p hp).2.2.2
  have hto : (run (init n t) sch).timeout = t := by rw [run_timeout]; rfl
  refine ⟨?_, ?_, ?_⟩
  · intro hs
    have hnr : noRetry sch j := fun x hx _ => by rw [hnf x hx]; simp
    exact terminal_of_sched (init n t) sch j p hnr (by simpa [init] using hs) hp
  · intro hterm
    have hcl := hn.clean j p hp
    have hlow := hi.lower
    have hgl := hi.genle
    have hcm := hi.compiles
    obtain ⟨pc, g, saved, polls, tok⟩ := p
    cases pc <;> simp_all [Pc.terminal, Pc.faulty, LocPc]
    case raised e => cases e <;> simp_all
    case done b so => omega
  · intro hs hpc
    simp only [LocPc, hpc, hto] at hloc
    have h1 := pollsAt_run (init n t) sch j
    rw [pollsAt_init] at h1
    simp only [pollsAt, hp] at h1
    omega

/-- non-vacuity: four requests, round-robin, timeout 20: all return the complete module, one compile -/
example :
    let sch := (List.range 40).flatMap fun _ => [(0, Choice.none), (1, .none), (2, .none), (3, .none)]
    (run (init 4 20) sch).procs.map (·.pc) =
      [.done true .complete, .done false .complete, .done false .complete, .done false .complete] ∧
    (run (init 4 20) sch).procs.map (·.tok) = [1, 1, 1, 1] ∧
    (run (init 4 20) sch).nCompile = 1 := by
  decide +kernel

/-- Exactly one compiles (`compile_forms` and `compile_expressions` alike: same transition system):
in every failure-free run (any number of requests, any interleaving, any timeout) in which at least
one request has returned — in particular in every run in which all
requests have finished successfully — the compiler has been invoked exactly once, the lock acquired
exactly once, the `.so` linked exactly once, and exactly one request is (or was) the builder.
(`at_most_one_builder`/`no_failure_all_succeed` give `≤ 1`; this is the lower bound.) -/
theorem exactly_one_builder (n t : Nat) (sch : List (Nat × Choice))
    (hnf : ∀ x ∈ sch, x.2 = .none)
    (hfin : ∃ (j : Nat) (p : Proc) (b : Bool) (so : So),
      (run (init n t) sch).procs[j]? = some p ∧ p.pc = .done b so) :
    (run (init n t) sch).nCompile = 1 ∧ (run (init n t) sch).nLock = 1 ∧
    (run (init n t) sch).fs.gen = 1 ∧
    (run (init n t) sch).procs.countP (fun p => p.pc.isBB) = 1 := by
  have hnfr := reachNF_run (ReachNF.init n t) sch hnf
  have hi := inv_reach (reachNF_reach hnfr)
  have hn := invNF_reach hnfr
  obtain ⟨j, p, b, so, hp, hpc⟩ := hfin
  have hloc := (hi.loc j p hp).2.2.2
  simp only [LocPc, hpc] at hloc
  have hlow := hi.lower hloc.2.2.1
  have hlock : (run (init n t) sch).nLock ≤ 1 := by
    have := hi.epochs; have := hn.norel
    split at * <;> omega
  have := hi.compiles
  have := hi.genle
  have := hn.built
  refine ⟨by omega, by omega, by omega, by omega⟩

/-- non-vacuity: three requests, all finish successfully; exactly one compile, one builder -/
example :
    let sch := (List.range 20).flatMap fun _ => [(2, Choice.none), (0, .none), (1, .none)]
    (run (init 3 14) sch).procs.map (·.pc) = [.done false .complete, .done false .complete, .done true .complete] ∧
    (run (init 3 14) sch).nCompile = 1 ∧ (run (init 3 14) sch).procs.countP (fun p => p.pc.isBB) = 1 := by
  decide +kernel

end Ffcx.Jit
