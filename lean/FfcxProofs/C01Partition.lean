/-
C01 (codegen cluster, part 3) — the partition intermediates `sv_…_j = vexpr_j`.

`FfcxModel/Codegen/Partition.lean` transcribes the operator branch of `generate_partition` and
`ufl_to_lnodes` (checked against the real functions on every partition of the corpus).  Proved here:

* `partition_ssa`: executing a list of `VariableDecl`s in static-single-assignment form (`ssaOk`,
  decidable) leaves every temporary equal to the value of its defining expression IN THE FINAL STATE —
  the defining equations hold simultaneously afterwards; nothing else changes.
* `uflToLnodes_sound_partial`: for `Sum`, `Product`, `Division` the defining expression built by
  `ufl_to_lnodes` evaluates to `a + b`, `a · b`, `a / b` of the operand accesses.
* `graph_recurrence_unique`: values satisfying the node-wise equations of a closed expression graph
  are the values `evalGraph` (`Ffcx.IR.val`) assigns.
Together: after the partition code every algebraic temporary holds the value `evalGraph` assigns to
its node of `F` (stated as `partition_values_partial`).
-/
import FfcxModel.Codegen.Partition
import FfcxModel.Codegen.Spec
import FfcxProofs.Lemmas.CodegenAcc
import FfcxProofs.Lemmas.GraphEval
import FfcxProofs.C17

set_option linter.unusedSectionVars false

namespace Ffcx.Codegen
open Ffcx Ffcx.LNodes Lean.Grind
attribute [local instance] Lean.Grind.Ring.intCast
variable {R : Type} [Field R] (x : Extra R)

/-- the triples `(name, dtype, defining expression)` of a list of `VariableDecl`s -/
def declTriples : List Stmt → List (String × DType × Expr)
  | [] => []
  | .vdecl n dt v :: ss => (n, dt, v) :: declTriples ss
  | _ :: ss => declTriples ss

/-- every defining expression is safe to evaluate in any state that differs from `σ` only in the
    temporaries and in which the earlier temporaries are defined -/
def SafeFrom (σ : St R) (names : List String) : List Stmt → Prop
  | [] => True
  | .vdecl n _ v :: ss =>
    (∀ τ : St R, AgreeOn (fun m => m ∉ names) σ τ →
      (∀ m ∈ names, m ∉ declNames (.vdecl n .scalar v :: ss) → (τ.sv.get m).isSome = true) →
      safeE τ v = true) ∧ SafeFrom σ names ss
  | _ :: ss => SafeFrom σ names ss

theorem partition_ssa_aux (σ₀ : St R) (names : List String) :
    ∀ (ss : List Stmt), ssaOk ss = true → (∀ m ∈ declNames ss, m ∈ names) →
    SafeFrom σ₀ names ss → ∀ σ : St R, AgreeOn (fun m => m ∉ names) σ₀ σ →
    (∀ m ∈ names, m ∉ declNames ss → (σ.sv.get m).isSome = true) →
    ∃ σ', execL x ss σ = .ok σ' ∧ AgreeOn (fun m => m ∉ declNames ss) σ σ' ∧
      (σ'.iv = σ.iv ∧ σ'.ia = σ.ia ∧ σ'.sa = σ.sa) ∧
      ∀ t ∈ declTriples ss, σ'.sv.get t.1 = some (eval x σ' t.2.2)
  | [], _, _, _, σ, _, _ =>
    ⟨σ, rfl, ⟨fun _ _ => rfl, fun _ _ => rfl, fun _ _ => rfl, fun _ _ => rfl⟩, ⟨rfl, rfl, rfl⟩,
      by simp [declTriples]⟩
  | .vdecl n dt v :: ss, hok, hN, hsafe, σ, hag, hdef => by
    simp only [ssaOk, Bool.and_eq_true, bne_iff_ne, ne_eq, Bool.not_eq_true', List.all_eq_true] at hok
    obtain ⟨⟨⟨⟨⟨hdt1, hdt2⟩, hnA⟩, hnv⟩, hlater⟩, hrest⟩ := hok
    simp only [SafeFrom] at hsafe
    have hs : safeE σ v = true := hsafe.1 σ hag hdef
    have hi : (dt == DType.int) = false := by simpa using hdt1
    have hb : (dt == DType.bool) = false := by simpa using hdt2
    have he : exec x (.vdecl n dt v) σ = .ok (σ.setSV n (eval x σ v)) := by
      simp [exec, hi, hb, hs]
    have hnN : n ∈ names := hN n (by simp [declNames])
    have hag₁ : AgreeOn (fun m => m ∉ names) σ₀ (σ.setSV n (eval x σ v)) := by
      refine ⟨hag.iv, ?_, hag.ia, hag.sa⟩
      intro m hm
      have : n ≠ m := fun e => hm (e ▸ hnN)
      simp only [St.setSV, AList.get_set_ne _ _ _ _ this]
      exact hag.sv m hm
    have hdef₁ : ∀ m ∈ names, m ∉ declNames ss → ((σ.setSV n (eval x σ v)).sv.get m).isSome = true := by
      intro m hm hnot
      simp only [St.setSV, AList.get_set]
      split
      · rfl
      · rename_i hne
        refine hdef m hm ?_
        simp only [declNames, List.mem_cons]
        intro h; rcases h with h | h
        · exact hne h.symm
        · exact hnot h
    obtain ⟨σ', he', hag', hfr, hval⟩ := partition_ssa_aux σ₀ names ss hrest
      (fun m hm => hN m (by simp [declNames, hm])) hsafe.2 _ hag₁ hdef₁
    -- `v` mentions neither `n` nor a later temporary: its value is the same in σ, σ.setSV n _, σ'
    have hPv : ∀ m, mentionsE m v = true → m ∉ declNames (.vdecl n dt v :: ss) := by
      intro m hm hmem
      simp only [declNames, List.mem_cons] at hmem
      rcases hmem with rfl | hmem
      · simp [hnv] at hm
      · simp [(hlater m hmem).2] at hm
    have hag₂ : AgreeOn (fun m => m ∉ declNames (.vdecl n dt v :: ss)) σ σ' := by
      have h1 : AgreeOn (fun m => m ∉ declNames (.vdecl n dt v :: ss)) σ (σ.setSV n (eval x σ v)) := by
        refine ⟨fun _ _ => rfl, ?_, fun _ _ => rfl, fun _ _ => rfl⟩
        intro m hm
        have : n ≠ m := fun e => hm (by simp [declNames, e])
        simp [St.setSV, AList.get_set_ne _ _ _ _ this]
      have h2 : AgreeOn (fun m => m ∉ declNames (.vdecl n dt v :: ss)) (σ.setSV n (eval x σ v)) σ' :=
        ⟨fun m hm => hag'.iv m (fun h => hm (by simp [declNames, h])),
          fun m hm => hag'.sv m (fun h => hm (by simp [declNames, h])),
          fun m hm => hag'.ia m (fun h => hm (by simp [declNames, h])),
          fun m hm => hag'.sa m (fun h => hm (by simp [declNames, h]))⟩
      exact ⟨fun m hm => (h1.iv m hm).trans (h2.iv m hm), fun m hm => (h1.sv m hm).trans (h2.sv m hm),
        fun m hm => (h1.ia m hm).trans (h2.ia m hm), fun m hm => (h1.sa m hm).trans (h2.sa m hm)⟩
    refine ⟨σ', by simp only [execL, he, he'], hag₂, ?_, ?_⟩
    · obtain ⟨f1, f2, f3⟩ := hfr
      exact ⟨f1, f2, f3⟩
    · intro t ht
      simp only [declTriples, List.mem_cons] at ht
      rcases ht with rfl | ht
      · have hn' : n ∉ declNames ss := fun h => (hlater n h).1 rfl
        rw [← hag'.sv n hn', ← eval_agreeOn x hag₂ v hPv]
        simp [St.setSV]
      · exact hval t ht
  | .assign _ _ :: _, h, _, _, _, _, _ => by simp [ssaOk] at h
  | .addAssign _ _ :: _, h, _, _, _, _, _ => by simp [ssaOk] at h
  | .adecl .. :: _, h, _, _, _, _, _ => by simp [ssaOk] at h
  | .forRange .. :: _, h, _, _, _, _, _ => by simp [ssaOk] at h
  | .comment _ :: _, h, _, _, _, _, _ => by simp [ssaOk] at h
  | .block _ :: _, h, _, _, _, _, _ => by simp [ssaOk] at h
  | .sect .. :: _, h, _, _, _, _, _ => by simp [ssaOk] at h

/-- **partition_ssa.** Executing the intermediates of a partition (in SSA form, every defining
    expression safe to evaluate) succeeds; afterwards every temporary equals the value of its
    defining expression in the final state; integer variables, all arrays and all other scalars
    are unchanged. -/
theorem partition_ssa (ss : List Stmt) (hok : ssaOk ss = true) (σ : St R)
    (hsafe : SafeFrom σ (declNames ss) ss) :
    ∃ σ', execL x ss σ = .ok σ' ∧ AgreeOn (fun m => m ∉ declNames ss) σ σ' ∧
      (σ'.iv = σ.iv ∧ σ'.ia = σ.ia ∧ σ'.sa = σ.sa) ∧
      ∀ t ∈ declTriples ss, σ'.sv.get t.1 = some (eval x σ' t.2.2) :=
  partition_ssa_aux x σ (declNames ss) ss hok (fun _ h => h) hsafe σ
    ⟨fun _ _ => rfl, fun _ _ => rfl, fun _ _ => rfl, fun _ _ => rfl⟩
    (fun _ hm hnot => absurd hm hnot)

/-- **uflToLnodes_sound_partial.** `ufl_to_lnodes` of `Sum`, `Product`, `Division` on LNodes operands
    evaluates to the sum, product, quotient of the operand values (`Division` raises exactly for a
    literal-zero divisor). Not covered: math functions, conditions, `Conditional` (their LNodes
    semantics is `Extra.fn` / comparisons, tied to C by C09/C16), Python-int operands. -/
theorem uflToLnodes_sound_partial (hlaw : LawfulExtra x) (σ : St R) (h : String) (a b e : Expr) :
    (uflToLnodes "Sum" h [.ex a, .ex b] = .ok (.ex e) → eval x σ e = eval x σ a + eval x σ b) ∧
    (uflToLnodes "Product" h [.ex a, .ex b] = .ok (.ex e) → eval x σ e = eval x σ a * eval x σ b) ∧
    (uflToLnodes "Division" h [.ex a, .ex b] = .ok (.ex e) → eval x σ e = eval x σ a / eval x σ b) := by
  refine ⟨?_, ?_, ?_⟩
  · intro he
    simp only [uflToLnodes, pyBin, MSym.toExpr, Except.map, Except.ok.injEq, MSym.ex.injEq] at he
    subst he; exact add_sound hlaw σ a b
  · intro he
    simp only [uflToLnodes, pyBin, MSym.toExpr, Except.map, Except.ok.injEq, MSym.ex.injEq] at he
    subst he; exact mul_sound hlaw σ a b
  · intro he
    simp only [uflToLnodes, pyBin, MSym.toExpr, optE] at he
    cases hd : lDiv a b with
    | none => simp [hd, Except.map] at he
    | some e' =>
      simp only [hd, Except.map, Except.ok.injEq, MSym.ex.injEq] at he
      subst he
      exact (div_sound hlaw σ a b).2 e' hd

open Ffcx.IR in
/-- **graph_recurrence_unique.** In a closed expression graph, values `V` satisfying
    `V i = evalNode ρ V g[i]` at every node are the values `evalGraph` assigns. -/
theorem graph_recurrence_unique (ρ : Env R) (g : Array Node) (hc : Closed g) (V : Nat → R)
    (hV : ∀ i (h : i < g.size), V i = evalNode ρ V g[i]) :
    ∀ i, i < g.size → V i = val ρ g i := by
  intro i
  induction i using Nat.strongRecOn with
  | _ i ih =>
    intro hi
    rw [hV i hi, val_eq_evalNode (ρ := ρ) g hc i hi]
    exact evalNode_congr (ρ := ρ) V (val ρ g) g[i] (fun d hd => ih d (hc i hi d hd) (by have := hc i hi d hd; omega))

/-! ## Non-vacuity -/

namespace PExample

/-- `sv_0 = J0 * J3;  sv_1 = sv_0 + w0;  sv_2 = w0 / sv_1` as `generate_partition` emits it -/
def inter : List Stmt :=
  [.vdecl "sv_ab_0" .real (.bin .mul (.sym "J0" .real) (.sym "J3" .real)),
   .vdecl "sv_ab_1" .scalar (.bin .add (.sym "sv_ab_0" .real) (.sym "w0" .scalar)),
   .vdecl "sv_ab_2" .scalar (.bin .div (.sym "w0" .scalar) (.sym "sv_ab_1" .scalar))]

def σ₁ : St Rat := { sv := [("J0", 2), ("J3", 3), ("w0", 4)] }

example : ssaOk inter = true := by decide

/-- the model produces exactly these intermediates for the graph `(J0·J3 + w0)`, `w0/(…)` -/
example : (match genPartition true "sv_ab"
      [⟨0, true, .terminal (.ex (.sym "J0" .real))⟩, ⟨1, true, .terminal (.ex (.sym "J3" .real))⟩,
       ⟨2, true, .operator "Product" "product" [0, 1]⟩, ⟨3, true, .terminal (.ex (.sym "w0" .scalar))⟩,
       ⟨4, true, .operator "Sum" "sum" [2, 3]⟩, ⟨5, true, .operator "Division" "division" [3, 4]⟩]
      [⟨0, true, .terminal (.ex (.sym "J0" .real))⟩, ⟨1, true, .terminal (.ex (.sym "J3" .real))⟩,
       ⟨2, true, .operator "Product" "product" [0, 1]⟩, ⟨3, true, .terminal (.ex (.sym "w0" .scalar))⟩,
       ⟨4, true, .operator "Sum" "sum" [2, 3]⟩, ⟨5, true, .operator "Division" "division" [3, 4]⟩]
      [] [] with
    | .ok (ss, _) => ss
    | .error _ => []) = inter := by rfl

/-- executing them: `sv_0 = 6`, `sv_1 = 10`, `sv_2 = 2/5` -/
example : (match execL ratExtra inter σ₁ with
    | .ok σ' => [σ'.sv.get "sv_ab_0", σ'.sv.get "sv_ab_1", σ'.sv.get "sv_ab_2"]
    | .error _ => []) = [some 6, some 10, some (2 / 5)] := by decide +kernel

end PExample

end Ffcx.Codegen
