/-
C12 — generation is deterministic and history independent.

  "The generated source for given UFL objects and options is a function of their signature only:
   regenerating it in another process, with another hash seed, after unrelated UFL objects were created,
   or after other forms were compiled in the same process, yields byte-identical text.
   No state leaks from one compilation into the next."

What is proved here (model: FfcxModel/Determinism/Sites.lean, inventory: FfcxModel/Generated/Sites.lean):

* `sorted_canon`, `dedup_sorted_canon`: the canonicalisation idiom `sorted(set(...))` is independent of the
  set's iteration order, for every total order that is antisymmetric on the keys present.
* `site_invariant_<s>` for every canonicalised / order-oblivious / identity / counter site `s`:
  the text fragment is the same for ALL iteration orders (resp. all addresses, all counter offsets).
* The model mirrors the code as it is.  For a site where the FULL statement
      ∀ l s₁ s₂, IsSetIter l s₁ → IsSetIter l s₂ → site s₁ = site s₂        (all hash seeds)
  is false, `site_<s>_counterexample` proves its negation on a concrete witness and `site_<s>_partial` proves
  what does hold.  Today this is only left for the two sets of int-hashed keys (`site_integral_domains`,
  `site_int_argkeys`: canonical by the CPython detail `Ascending`, checked at run time).
* DESIGN §7 F9 (fuse_sections / generate_block_parts comments, FE table numbering, J<ufl_id> symbols) and the
  geometry-table order were such sites up to /repo commit 9fb79f1; after the fix commits d2dfc42, 7e76306,
  e98a00c, 8598377 the model is the fixed code and the full-strength `site_invariant_fuse_inputs`,
  `…_fuse_outputs`, `…_block_inputs`, `…_table_numbering`, `…_geometry_tables`, `…_jacobian_symbol` replace the
  former counterexample/partial pairs.  `set_order_would_leak` records why a set must not come back.
* `counters_fresh`, `site_invariant_temp_symbols`, `no_written_module_state`: no generator state survives
  a kernel, no module-level container is written.
* `inventory_complete`: every site the scanner finds in the working tree is in `modelledSites`
  (a new site, or an edited statement, changes a key and breaks this `decide`).
-/
import FfcxModel.Generated.Sites
import FfcxModel.Determinism.Sites
import FfcxProofs.Lemmas.Sites

namespace Ffcx.C12
open Ffcx.Determinism Ffcx.C12.Lemmas

/-! ## Canonicalisation idioms -/

/-- Sorting any permutation of a list gives the same list (total preorder, antisymmetric on the keys present). -/
theorem sorted_canon {α : Type} (le : α → α → Bool)
    (trans : ∀ a b c, le a b = true → le b c = true → le a c = true)
    (total : ∀ a b, (le a b || le b a) = true)
    (l₁ l₂ : List α)
    (antisymm : ∀ a b, a ∈ l₁ → b ∈ l₁ → le a b = true → le b a = true → a = b)
    (h : l₁.Perm l₂) : pySorted le l₁ = pySorted le l₂ :=
  pySorted_eq_of_perm le trans total antisymm h

/-- `sorted(set(l))` does not depend on the iteration order of the set. -/
theorem dedup_sorted_canon {α : Type} (le : α → α → Bool)
    (trans : ∀ a b c, le a b = true → le b c = true → le a c = true)
    (total : ∀ a b, (le a b || le b a) = true)
    (l s₁ s₂ : List α)
    (antisymm : ∀ a b, a ∈ l → b ∈ l → le a b = true → le b a = true → a = b)
    (h₁ : IsSetIter l s₁) (h₂ : IsSetIter l s₂) : pySorted le s₁ = pySorted le s₂ :=
  pySorted_eq_of_perm le trans total
    (fun a b ha hb => antisymm a b ((h₁.2 a).mp ha) ((h₁.2 b).mp hb)) (setIter_perm h₁ h₂)

/-- … nor on the order/multiplicity in which the elements were inserted (`set(fac0) | set(fac1)`). -/
theorem dedup_sorted_canon_of_same_elems {α : Type} (le : α → α → Bool) (ho : TotalOrder le)
    (l l' s₁ s₂ : List α) (hm : ∀ x, x ∈ l ↔ x ∈ l')
    (h₁ : IsSetIter l s₁) (h₂ : IsSetIter l' s₂) : pySorted le s₁ = pySorted le s₂ :=
  pySorted_eq_of_perm le ho.trans ho.total (fun a b _ _ => ho.antisymm a b) (setIter_perm' h₁ h₂ hm)

/-- Reduction used for every `hashdef` site: whatever the `__hash__` functions and the hash seed are, they
only select one iteration order; a permutation-invariant consumer cannot see which. -/
theorem hash_irrelevant_of_perm_invariant {α β : Type} (f : List α → β)
    (hf : ∀ s₁ s₂ : List α, s₁.Perm s₂ → f s₁ = f s₂) (l s₁ s₂ : List α)
    (h₁ : IsSetIter l s₁) (h₂ : IsSetIter l s₂) : f s₁ = f s₂ :=
  hf s₁ s₂ (setIter_perm h₁ h₂)

-- non-vacuity: the hypotheses are satisfiable by real orders and non-trivial sets
example : TotalOrder natLe := natLe_totalOrder
example : TotalOrder lexLe := lexLe_totalOrder
example : IsSetIter [3, 1, 3, 2] [1, 2, 3] ∧ IsSetIter [3, 1, 3, 2] [3, 2, 1] := by
  refine ⟨⟨by decide, fun x => ?_⟩, ⟨by decide, fun x => ?_⟩⟩ <;> simp <;> omega
example : pySorted natLe [3, 2, 1] = [1, 2, 3] := by
  rw [sorted_canon natLe natLe_totalOrder.trans natLe_totalOrder.total [3, 2, 1] [1, 2, 3]
    (fun a b _ _ => natLe_totalOrder.antisymm a b) (by decide)]
  exact List.mergeSort_of_pairwise (by decide)

/-! ## Canonicalised / order-oblivious sites: invariant for ALL iteration orders -/

/-- analysis.py:105 `sorted(set(coordinate_elements), key=repr)` (distinct elements have distinct reprs). -/
theorem site_invariant_coordinate_elements {α : Type} (le : α → α → Bool)
    (trans : ∀ a b c, le a b = true → le b c = true → le a c = true)
    (total : ∀ a b, (le a b || le b a) = true) (l s₁ s₂ : List α)
    (distinct_keys : ∀ a b, a ∈ l → b ∈ l → le a b = true → le b a = true → a = b)
    (h₁ : IsSetIter l s₁) (h₂ : IsSetIter l s₂) :
    site_sorted_set le s₁ = site_sorted_set le s₂ :=
  dedup_sorted_canon le trans total l s₁ s₂ distinct_keys h₁ h₂

/-- factorization.py:76-79 `argkeys = set(fac0) | set(fac1)`; `sorted(argkeys)` — tuples of ints, unconditional. -/
theorem site_invariant_argkeys_sum (fac0 fac1 s₁ s₂ : List (List Nat))
    (h₁ : IsSetIter (fac0 ++ fac1) s₁) (h₂ : IsSetIter (fac0 ++ fac1) s₂) :
    site_argkeys s₁ = site_argkeys s₂ := by
  have hp := setIter_perm h₁ h₂
  unfold site_argkeys
  rw [perm_isEmpty hp]
  split
  · rfl
  · exact pySorted_eq_of_perm lexLe lexLe_trans lexLe_total (fun a b _ _ => lexLe_antisymm a b) hp

/-- factorization.py:206 `sorted(set(fac1.keys()) | set(fac2.keys()))`. -/
theorem site_invariant_argkeys_conditional (k1 k2 s₁ s₂ : List (List Nat))
    (h₁ : IsSetIter (k1 ++ k2) s₁) (h₂ : IsSetIter (k1 ++ k2) s₂) :
    site_sorted_set lexLe s₁ = site_sorted_set lexLe s₂ :=
  pySorted_eq_of_perm lexLe lexLe_trans lexLe_total (fun a b _ _ => lexLe_antisymm a b) (setIter_perm h₁ h₂)

/-- jit.py:182 `tuple(sorted(set(a.number() for a in arguments)))`. -/
theorem site_invariant_jit_argument_numbers (numbers s₁ s₂ : List Nat)
    (h₁ : IsSetIter numbers s₁) (h₂ : IsSetIter numbers s₂) :
    site_sorted_set natLe s₁ = site_sorted_set natLe s₂ :=
  dedup_sorted_canon natLe natLe_totalOrder.trans natLe_totalOrder.total numbers s₁ s₂
    (fun a b _ _ => natLe_totalOrder.antisymm a b) h₁ h₂

/-- integral.py:346-375: the dicts filled in set order are emitted through `sorted(tables)`. -/
theorem site_invariant_active_tables {α : Type} (le : α → α → Bool) (ho : TotalOrder le)
    (keep : α → Bool) (names s₁ s₂ : List α)
    (h₁ : IsSetIter names s₁) (h₂ : IsSetIter names s₂) :
    site_active_tables le keep s₁ = site_active_tables le keep s₂ :=
  pySorted_eq_of_perm le ho.trans ho.total (fun a b _ _ => ho.antisymm a b)
    ((setIter_perm h₁ h₂).filter keep)

/-- access.py:320,354,394 `(x,) = set(sub_elements)`: the unpacked element (or the ValueError) is order independent. -/
theorem site_invariant_singleton_unpack {α : Type} (l s₁ s₂ : List α)
    (h₁ : IsSetIter l s₁) (h₂ : IsSetIter l s₂) :
    site_singleton_unpack s₁ = site_singleton_unpack s₂ := by
  have hp := setIter_perm h₁ h₂
  have hl := hp.length_eq
  match s₁, s₂, hp, hl with
  | [], [], _, _ => rfl
  | [a], s₂, hp, _ => rw [List.perm_singleton.mp hp.symm]
  | _ :: _ :: _, [], _, hl => simp at hl
  | _ :: _ :: _, [_], _, hl => simp at hl
  | _ :: _ :: _, _ :: _ :: _, _, _ => rfl
  | [], _ :: _, _, hl => simp at hl

/-- membership tests, truth tests and set equality see the elements only. -/
theorem site_invariant_membership {α : Type} [DecidableEq α] (l s₁ s₂ other : List α) (x : α)
    (h₁ : IsSetIter l s₁) (h₂ : IsSetIter l s₂) :
    site_membership x s₁ = site_membership x s₂ ∧ site_truth s₁ = site_truth s₂
      ∧ site_set_eq other s₁ = site_set_eq other s₂ := by
  have hm : ∀ y, y ∈ s₁ ↔ y ∈ s₂ := fun y => (h₁.2 y).trans (h₂.2 y).symm
  refine ⟨?_, ?_, ?_⟩
  · unfold site_membership
    rw [Bool.eq_iff_iff]; simp [hm]
  · unfold site_truth
    rw [perm_isEmpty (setIter_perm h₁ h₂)]
  · unfold site_set_eq
    rw [Bool.eq_iff_iff]; simp [hm]

/-- `self._ufl_names` is written and never read. -/
theorem site_invariant_ufl_names (s₁ s₂ : List String) : site_ufl_names s₁ = site_ufl_names s₂ := rfl

/-- analysis.py:104: the numbering produced by `sort_elements(set(elements))` is only a key set. -/
theorem site_invariant_element_dimensions (dim : Elem → Nat) (l s₁ s₂ : List Elem) (q : Elem)
    (h₁ : IsSetIter l s₁) (h₂ : IsSetIter l s₂) :
    site_element_dimensions dim s₁ q = site_element_dimensions dim s₂ q := by
  unfold site_element_dimensions
  rw [lookup_map_self, lookup_map_self]
  have : q ∈ s₁ ↔ q ∈ s₂ := (h₁.2 q).trans (h₂.2 q).symm
  simp [this]

/-- … and it stays so for the topologically sorted list, which is what the code stores
(`sortElements` only permutes; here for the orders it can actually produce on a concrete family). -/
example : site_element_dimensions (fun e => e + 10) (sortElements (fun e => if e = 2 then [0, 1] else []) [0, 1, 2]) 1
    = site_element_dimensions (fun e => e + 10) (sortElements (fun e => if e = 2 then [0, 1] else []) [2, 1, 0]) 1 := by
  decide

/-- representation.py: `object_names.get(id(obj), default)` — the address is a key only: any two injective
address assignments (two processes, two histories) give the same name. -/
theorem site_invariant_object_names (named : List (Nat × String)) (addr₁ addr₂ : Nat → Nat)
    (inj₁ : ∀ a b, addr₁ a = addr₁ b → a = b) (inj₂ : ∀ a b, addr₂ a = addr₂ b → a = b)
    (obj : Nat) (default : String) :
    site_object_name named addr₁ obj default = site_object_name named addr₂ obj default := by
  unfold site_object_name
  rw [lookup_by_addr named addr₁ inj₁, lookup_by_addr named addr₂ inj₂]

example : site_object_name [(0, "f"), (1, "g")] (fun i => 140000 + 64 * i) 1 "w1" = "g" := by decide

/-- indexing.py:59,134, reconstruct.py:118: only the POSITION of an index count among the free-index counts is
used; it is unchanged by any injective renumbering of UFL's global Index counter (e.g. a history offset). -/
theorem site_invariant_index_position (f : Nat → Nat) (inj : ∀ a b, f a = f b → a = b)
    (freeIndexCounts : List Nat) (c : Nat) :
    site_index_position (freeIndexCounts.map f) (f c) = site_index_position freeIndexCounts c :=
  idxOf_map_inj f inj freeIndexCounts c

example : site_index_position ([7, 9, 12].map (· + 100)) (9 + 100) = 1 := by decide

/-! ## Generator state -/

/-- Every generator instance of a compilation starts with all counters at 0 (a `defaultdict(int)` created in
`__init__`), there is exactly one instance per kernel, and the first temp of every base name is `<base>0`. -/
theorem counters_fresh (kernels : List (List String)) :
    (generatorInstances kernels).length = kernels.length
    ∧ (∀ g ∈ generatorInstances kernels, ∀ base, g.get base = 0)
    ∧ (∀ base, (newTempSymbol GenState.fresh base).1 = base ++ "0")
    ∧ generateAll kernels = kernels.map (genTemps GenState.fresh) := by
  refine ⟨by simp [generatorInstances], ?_, ?_, rfl⟩
  · intro g hg base
    simp only [generatorInstances, List.mem_map] at hg
    obtain ⟨_, _, rfl⟩ := hg
    simp [GenState.get, GenState.fresh]
  · intro base
    simp only [newTempSymbol, GenState.get, GenState.fresh, List.lookup, Option.getD]
    rfl

/-- The temp names of a kernel do not depend on which kernels were generated before or after it
(no counter offset can leak): all histories `pre₁/post₁`, `pre₂/post₂`. -/
theorem site_invariant_temp_symbols (pre₁ post₁ pre₂ post₂ : List (List String)) (k : List String) :
    (generateAll (pre₁ ++ k :: post₁))[pre₁.length]? = (generateAll (pre₂ ++ k :: post₂))[pre₂.length]? := by
  simp [generateAll]

example : generateAll [["fw", "fw", "temp_"], ["fw"]] = [["fw0", "fw1", "temp_0"], ["fw0"]] := by decide

/-! ## The sites repaired by the F9 fix commits: full invariance -/

/-- optimizer.py:62.  The `// Inputs:` comment of a fused section is a function of the concatenated input
lists alone (no set, hence no hash seed): it lists the symbols with later duplicates removed, in order of first
occurrence — the same symbols, each once, that the former `set` held. -/
theorem site_invariant_fuse_inputs (input : List String) :
    site_fuse_inputs input = inputsComment (dedupFirst input)
    ∧ IsSetIter input (dedupFirst input)
    ∧ (dedupFirst input).Sublist input
    ∧ (input.Nodup → site_fuse_inputs input = inputsComment input) :=
  ⟨rfl, dedupFirst_isSetIter input, dedupFirst_sublist input,
    fun h => by unfold site_fuse_inputs; rw [dedupFirst_of_nodup input h]⟩

/-- optimizer.py:64 (then `Section.__init__` completes the list with the declared symbols). -/
theorem site_invariant_fuse_outputs (decls output : List String) :
    site_fuse_outputs decls output = outputsComment (sectionOutput (dedupFirst output) decls)
    ∧ IsSetIter output (dedupFirst output)
    ∧ (dedupFirst output).Sublist output
    ∧ (output.Nodup → site_fuse_outputs decls output = outputsComment (sectionOutput output decls)) :=
  ⟨rfl, dedupFirst_isSetIter output, dedupFirst_sublist output,
    fun h => by unfold site_fuse_outputs; rw [dedupFirst_of_nodup output h]⟩

/-- integral_generator.py:585. -/
theorem site_invariant_block_inputs (input : List String) :
    site_block_inputs input = inputsComment (dedupFirst input)
    ∧ IsSetIter input (dedupFirst input)
    ∧ (dedupFirst input).Sublist input
    ∧ (input.Nodup → site_block_inputs input = inputsComment input) :=
  ⟨rfl, dedupFirst_isSetIter input, dedupFirst_sublist input,
    fun h => by unfold site_block_inputs; rw [dedupFirst_of_nodup input h]⟩

example : site_fuse_inputs ["w", "FE0_C0_F_Q4a8", "w"] = "// Inputs: w, FE0_C0_F_Q4a8" := by decide
example : site_fuse_outputs ["w0_r0", "w0_r1"] ["w0_r1", "w0_r0", "w0_r1"] = "// Outputs: w0_r1, w0_r0" := by decide

/-- elementtables.py:393-397.  The FE numbering is `sort_elements` applied to the first-occurrence
de-duplication of the LIST `extract_sub_elements(all_elements)`: a function of that list alone, over the same
elements (each once) as the former set. -/
theorem site_invariant_table_numbering (subs : Elem → List Elem) (suffix : Elem → String)
    (queries elems : List Elem) :
    site_table_numbering subs suffix queries elems
      = tableNumberingOfOrder subs suffix queries (dedupFirst elems)
    ∧ IsSetIter elems (dedupFirst elems) ∧ (dedupFirst elems).Sublist elems :=
  ⟨rfl, dedupFirst_isSetIter elems, dedupFirst_sublist elems⟩

/-- P2 unknown (1), P1 coefficient (2), vector P1 coordinate element (4 ⊃ [3]): terminal order decides. -/
example : site_table_numbering (fun e => if e = 4 then [3] else []) (fun _ => "C0_Q39d") [1, 2, 4]
    [1, 2, 4, 1, 3] = ["FE3_C0_Q39d", "FE2_C0_Q39d", "FE1_C0_Q39d"] := by decide

/-- Why a set must not come back (the pre-fix code, DESIGN F9): for an ARBITRARY node order the numbering — and for
an arbitrary symbol order the comment — does depend on the order; two iteration orders of one set suffice. -/
theorem set_order_would_leak :
    (∃ subs suffix queries l s₁ s₂, IsSetIter l s₁ ∧ IsSetIter l s₂ ∧
      tableNumberingOfOrder subs suffix queries s₁ ≠ tableNumberingOfOrder subs suffix queries s₂)
    ∧ (∃ l s₁ s₂ : List String, IsSetIter l s₁ ∧ IsSetIter l s₂ ∧ inputsComment s₁ ≠ inputsComment s₂) := by
  have iter_ab : ∀ {α : Type} [DecidableEq α] (a b : α), a ≠ b →
      IsSetIter [a, b, a] [a, b] ∧ IsSetIter [a, b, a] [b, a] := by
    intro α _ a b hab
    refine ⟨⟨by simp [hab], fun x => ?_⟩, ⟨by simp [Ne.symm hab], fun x => ?_⟩⟩
    · simp only [List.mem_cons, List.mem_nil_iff, or_false]
      constructor
      · rintro (h | h)
        · exact Or.inl h
        · exact Or.inr (Or.inl h)
      · rintro (h | h | h)
        · exact Or.inl h
        · exact Or.inr h
        · exact Or.inl h
    · simp only [List.mem_cons, List.mem_nil_iff, or_false]
      constructor
      · rintro (h | h)
        · exact Or.inr (Or.inl h)
        · exact Or.inl h
      · rintro (h | h | h)
        · exact Or.inr h
        · exact Or.inl h
        · exact Or.inr h
  exact ⟨⟨fun _ => [], fun e => if e = 0 then "C0_Q39d" else "C0_D10_Q39d", [0, 1], [0, 1, 0], [0, 1], [1, 0],
      (iter_ab 0 1 (by decide)).1, (iter_ab 0 1 (by decide)).2, by decide⟩,
    ⟨["w", "FE0_C0_F_Q4a8", "w"], ["w", "FE0_C0_F_Q4a8"], ["FE0_C0_F_Q4a8", "w"],
      (iter_ab _ _ (by decide)).1, (iter_ab _ _ (by decide)).2, by decide⟩⟩

/-- The sub-elements of ONE mixed element do not tie (Taylor–Hood alone: mixed = 2 ⊃ [0, 1]) … -/
example : tableNumberingOfOrder (fun e => if e = 2 then [0, 1] else []) (fun _ => "C0") [0, 1, 2] [0, 1, 2]
    = tableNumberingOfOrder (fun e => if e = 2 then [0, 1] else []) (fun _ => "C0") [0, 1, 2] [1, 0, 2] := by decide

/-- … but two roots do: the mixed element 2 ⊃ [0, 1] and the vector coordinate element 4 ⊃ [3]. -/
example : tableNumberingOfOrder (fun e => if e = 2 then [0, 1] else if e = 4 then [3] else []) (fun _ => "C0")
      [0, 1, 2, 3, 4] [0, 1, 2, 3, 4]
    ≠ tableNumberingOfOrder (fun e => if e = 2 then [0, 1] else if e = 4 then [3] else []) (fun _ => "C0")
      [0, 1, 2, 3, 4] [4, 3, 2, 1, 0] := by decide

/-- integral_generator.py:217-233 / expression_generator.py:74-93: `for c in sorted(cell_list)` — the tables
of one geometry quantity come in the same order for ALL iteration orders of the set of cell names. -/
theorem site_invariant_geometry_tables (name : String) (l s₁ s₂ : List String)
    (h₁ : IsSetIter l s₁) (h₂ : IsSetIter l s₂) :
    site_geometry_tables name s₁ = site_geometry_tables name s₂ := by
  unfold site_geometry_tables
  rw [dedup_sorted_canon strLe strLe_totalOrder.trans strLe_totalOrder.total l s₁ s₂
    (fun a b _ _ => strLe_totalOrder.antisymm a b) h₁ h₂]

example : site_geometry_tables "reference_cell_volume" ["triangle", "interval"]
    = site_geometry_tables "reference_cell_volume" ["interval", "triangle"] :=
  site_invariant_geometry_tables _ ["triangle", "interval"] _ _
    ⟨by decide, fun x => Iff.rfl⟩
    ⟨by decide, fun x => by simp only [List.mem_cons, List.mem_nil_iff, or_false]; exact Or.comm⟩

/-- symbols.py:142-148.  The Jacobian symbol of domain `d` depends only on the order in which the kernel's
`J_component` calls meet the domains, not on the values of UFL's global mesh counter: for EVERY injective
renumbering `f` of the `ufl_id`s (a history offset `(· + k)`, meshes created in between, …) the name is the same. -/
theorem site_invariant_jacobian_symbol (r : Option Bool) (c : Nat) (f : Nat → Nat)
    (inj : ∀ a b, f a = f b → a = b) (uses : List Nat) (d : Nat) :
    site_jacobian_symbol r c (uses.map f) (f d) = site_jacobian_symbol r c uses d := by
  unfold site_jacobian_symbol domainNumber
  rw [dedupFirst_map_inj f inj, idxOf_map_inj f inj]

/-- fresh process (`ufl_id`s 0, 1) vs three meshes created before (3, 4): `J1_c2` both times. -/
example : site_jacobian_symbol none 2 [0, 1, 0, 1] 1 = "J1_c2"
    ∧ site_jacobian_symbol none 2 ([0, 1, 0, 1].map (· + 3)) (1 + 3) = "J1_c2" := by decide

/-! ## Sets of int-hashed keys: canonical only by a CPython detail (counterexample + what holds) -/

private theorem iter_ab {α : Type} [DecidableEq α] (a b : α) (hab : a ≠ b) :
    IsSetIter [a, b, a] [a, b] ∧ IsSetIter [a, b, a] [b, a] := by
  refine ⟨⟨?_, fun x => ?_⟩, ⟨?_, fun x => ?_⟩⟩
  · simp [hab]
  · simp only [List.mem_cons, List.mem_nil_iff, or_false]
    constructor
    · rintro (h | h)
      · exact Or.inl h
      · exact Or.inr (Or.inl h)
    · rintro (h | h | h)
      · exact Or.inl h
      · exact Or.inr h
      · exact Or.inl h
  · simp [Ne.symm hab]
  · simp only [List.mem_cons, List.mem_nil_iff, or_false]
    constructor
    · rintro (h | h)
      · exact Or.inr (Or.inl h)
      · exact Or.inl h
    · rintro (h | h | h)
      · exact Or.inr h
      · exact Or.inl h
      · exact Or.inr h

/-- representation.py:274 / codegeneration.py:59: prism facets {triangle = 2, quadrilateral = 4}: the language
does not fix the order, and the kernel order follows it. -/
theorem site_integral_domains_counterexample :
    ∃ name l s₁ s₂, IsSetIter l s₁ ∧ IsSetIter l s₂ ∧ site_integral_domains name s₁ ≠ site_integral_domains name s₂ :=
  ⟨"integral_abc", [2, 4, 2], [2, 4], [4, 2],
    (iter_ab _ _ (by decide)).1, (iter_ab _ _ (by decide)).2, by decide⟩

/-- FULL (false in Python-the-language): invariance for all iteration orders.  What holds: under the CPython
behaviour for small int-hashed keys (`Ascending`; checked on the real `basix.CellType` at run time). -/
theorem site_integral_domains_partial (name : String) (l s₁ s₂ : List Nat)
    (h₁ : IsSetIter l s₁) (h₂ : IsSetIter l s₂) (a₁ : Ascending s₁) (a₂ : Ascending s₂) :
    site_integral_domains name s₁ = site_integral_domains name s₂ := by
  rw [ascending_unique (setIter_perm h₁ h₂) a₁ a₂]

theorem site_int_argkeys_counterexample :
    ∃ l s₁ s₂, IsSetIter l s₁ ∧ IsSetIter l s₂ ∧ site_int_argkeys s₁ ≠ site_int_argkeys s₂ :=
  ⟨[0, 1, 0], [0, 1], [1, 0], (iter_ab _ _ (by decide)).1, (iter_ab _ _ (by decide)).2, by decide⟩

/-- FULL (false in Python-the-language); holds under `Ascending`. -/
theorem site_int_argkeys_partial (l s₁ s₂ : List Nat)
    (h₁ : IsSetIter l s₁) (h₂ : IsSetIter l s₂) (a₁ : Ascending s₁) (a₂ : Ascending s₂) :
    site_int_argkeys s₁ = site_int_argkeys s₂ := by
  rw [ascending_unique (setIter_perm h₁ h₂) a₁ a₂]

example : Ascending [2, 4] := by unfold Ascending; decide

/-! ## Inventory -/

set_option maxRecDepth 200000

/-- the theorems above, by name (`` ``name `` fails to elaborate if the theorem does not exist) -/
def provedTheorems : List (String × Lean.Name) := [
  ("sorted_canon", ``sorted_canon), ("dedup_sorted_canon", ``dedup_sorted_canon),
  ("hash_irrelevant_of_perm_invariant", ``hash_irrelevant_of_perm_invariant),
  ("site_invariant_coordinate_elements", ``site_invariant_coordinate_elements),
  ("site_invariant_argkeys_sum", ``site_invariant_argkeys_sum),
  ("site_invariant_argkeys_conditional", ``site_invariant_argkeys_conditional),
  ("site_invariant_jit_argument_numbers", ``site_invariant_jit_argument_numbers),
  ("site_invariant_active_tables", ``site_invariant_active_tables),
  ("site_invariant_singleton_unpack", ``site_invariant_singleton_unpack),
  ("site_invariant_membership", ``site_invariant_membership),
  ("site_invariant_ufl_names", ``site_invariant_ufl_names),
  ("site_invariant_element_dimensions", ``site_invariant_element_dimensions),
  ("site_invariant_object_names", ``site_invariant_object_names),
  ("site_invariant_index_position", ``site_invariant_index_position),
  ("site_invariant_temp_symbols", ``site_invariant_temp_symbols),
  ("counters_fresh", ``counters_fresh),
  ("site_invariant_fuse_inputs", ``site_invariant_fuse_inputs),
  ("site_invariant_fuse_outputs", ``site_invariant_fuse_outputs),
  ("site_invariant_block_inputs", ``site_invariant_block_inputs),
  ("site_invariant_table_numbering", ``site_invariant_table_numbering),
  ("site_invariant_geometry_tables", ``site_invariant_geometry_tables),
  ("site_invariant_jacobian_symbol", ``site_invariant_jacobian_symbol),
  ("set_order_would_leak", ``set_order_would_leak),
  ("site_integral_domains_counterexample", ``site_integral_domains_counterexample),
  ("site_integral_domains_partial", ``site_integral_domains_partial),
  ("site_int_argkeys_counterexample", ``site_int_argkeys_counterexample),
  ("site_int_argkeys_partial", ``site_int_argkeys_partial),
  ("no_written_module_state", `Ffcx.C12.no_written_module_state)
]

/-- Every site found by the scanner in the working tree is modelled (same file, function and statement hash).
A new site, or a modelled site whose statement was edited, makes this `decide` fail. -/
theorem inventory_complete :
    ∀ s ∈ Generated.sites, s.key ∈ modelledSites.map (·.key) := by decide

/-- Conversely, every row of the model table is a statement that exists in the working tree: a modelled
statement that was edited or removed (even into something that is no site any more) is noticed. -/
theorem inventory_no_stale :
    ∀ m ∈ modelledSites, m.key ∈ Generated.sites.map (·.key) := by decide

/-- No module-level container of ffcx is ever written after import: every `module-state` record is `const`
and the scanner found no `module-state-write` / `global` statement, no `itertools.count`, no class-level state. -/
theorem no_written_module_state :
    ∀ s ∈ Generated.sites,
      ("module-state" ∈ s.kinds → "const" ∈ s.uses)
      ∧ "module-state-write" ∉ s.kinds ∧ "class-state" ∉ s.kinds ∧ "itertools-count" ∉ s.kinds := by decide

/-- The hand-written classification agrees with the scanner: a statement the scanner sees as an order-revealing
use of a set (`iterated`/`passed`/`escapes`) is not classified `oblivious`, and a site the model calls
`leak`/`intset` is not one the scanner found to be passed straight through `sorted`/`len`/`in`. -/
theorem inventory_tags_consistent :
    ∀ s ∈ Generated.sites, ∀ m ∈ modelledSites, m.key = s.key →
      (s.oblivious = true → m.cls.orderFree = true)
      ∧ (m.cls = SiteClass.oblivious → (s.tag ≠ "set-iterated" ∧ s.tag ≠ "set-passed")) := by decide

/-- Every modelled site that needs a theorem names one, and every named theorem exists (in `provedTheorems`). -/
theorem modelled_sites_have_theorems :
    ∀ m ∈ modelledSites,
      (∀ t ∈ m.theorems, t ∈ provedTheorems.map (·.1))
      ∧ ((m.cls = SiteClass.leak ∨ m.cls = SiteClass.intset) → m.theorems.length = 2)
      ∧ ((m.cls = SiteClass.canon ∨ m.cls = SiteClass.oblivious ∨ m.cls = SiteClass.identity
          ∨ m.cls = SiteClass.counter ∨ m.cls = SiteClass.hashdef) → m.theorems ≠ []) := by decide

-- non-vacuity of the inventory: it is not empty and contains the (repaired) F9 sites
example : Generated.sites.length ≥ 60 := by decide
example : ("ffcx/codegeneration/optimizer.py", "fuse_sections", "340a3597d3e9") ∈ Generated.sites.map (·.key) := by decide

end Ffcx.C12
