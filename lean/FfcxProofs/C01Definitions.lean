/-
C01 (codegen cluster, stage 2) — the definition sections of `definitions.py`.

`FfcxModel/Codegen/Definitions.lean` transcribes `FFCXBackendDefinitions.get` and the `access.py`
handlers it relies on (checked against the real functions on every terminal of the corpus and on
seeded synthetic terminals: `harness/codegen_checks.py`).  Proved here, for any number of dofs,
block size, offset, restriction, table contents, over any field:

* `coeff_lincomb`: after the section `FFCXBackendDefinitions.coefficient` emits, the coefficient
  symbol holds `Σ_ic w[offset + bs·ic + begin] · FE[perm][entity][q][ic]`;
* `coord_lincomb`: after the section `_define_coordinate_dofs_lincomb` emits (Jacobian,
  SpatialCoordinate), the symbol holds `Σ_ic coordinate_dofs[3·ic + begin (+ 3·nodes for '-')] · FE[…][q][ic]`;
in both cases only the symbol and the loop index `ic` change (`A`, all arrays, all other variables
are untouched).

Handlers: `coefficient`, `_define_coordinate_dofs_lincomb`/`jacobian`, `spatial_coordinate` are covered
(non-tensor-factorised tables: with sum factorisation the same sections are nests over `ic0, ic1, …`
whose transcription is checked structurally but whose value is not proved); `pass_through` emits
nothing.  Access handlers not transcribed: `cell_coordinate`, `facet_coordinate`, `facet_edge_vectors`.
-/
import FfcxProofs.Lemmas.CodegenDefs
import FfcxModel.LNodes.Scalars

set_option linter.unusedSectionVars false

namespace Ffcx.Codegen
open Ffcx Ffcx.LNodes Lean.Grind
attribute [local instance] Lean.Grind.Ring.intCast
variable {R : Type} [Field R] (x : Extra R)

theorem evalI_coeffDofIdx (t : TableRef) (off : Int) (iv : AList Int) (ia : AList (Array Int)) (d : Int)
    (h : iv.get "ic" = some d) :
    evalI iv ia (coeffDofIdx t { syms := ["ic"], sizes := [t.ndofs] } off) =
      some (off + (d * t.blockSize + t.offset)) := by
  unfold coeffDofIdx
  exact evalI_lRAdd_lit iv ia _ _ _ (evalI_lAdd_lit iv ia _ _ _
    (evalI_lMul_lit iv ia _ _ _ (evalI_global_single iv ia "ic" t.ndofs d h)))

theorem evalI_coordDofIdx (t : TableRef) (offset : Int) (iv : AList Int) (ia : AList (Array Int)) (d : Int)
    (h : iv.get "ic" = some d) :
    evalI iv ia (coordDofIdx t { syms := ["ic"], sizes := [t.ndofs] } offset) =
      some (d * 3 + t.offset + offset) := by
  unfold coordDofIdx
  exact evalI_lAdd_lit iv ia _ _ _ (evalI_lAdd_lit iv ia _ _ _
    (evalI_lMul_lit iv ia _ _ _ (evalI_global_single iv ia "ic" t.ndofs d h)))

/-- **coeff_lincomb.** Let `coefficient` (as transcribed) produce the section for a coefficient whose
    table is not tensor-factorised and not of type "ones", in a kernel whose quadrature index is the
    single symbol `iq`.  In every state with `iq = q`, where `w` covers the subscripts
    `offset + bs·d + begin` (`d < ndofs`) and the table covers `[perm][entity][q][d]`, executing the
    section succeeds; afterwards the coefficient symbol equals
    `Σ_{d<ndofs} w[offset + (d·bs + begin)] · FE[perm][entity][q or 0][d]`, and only that symbol and
    `ic` have changed. -/
theorem coeff_lincomb (hlaw : LawfulExtra x) (ctx : DefCtx) (mt : MtDesc) (t : TableRef) (access : MSym)
    (l : Lincomb) (h : coeffLincomb ctx mt t access = .ok (some l))
    (hnf : t.factors = none) (nq : Nat)
    (hiq : quadIndexOpt ctx.rule = { syms := ["iq"], sizes := [nq] })
    (ho : (t.ttype == "ones") = false)
    (hdt1 : (l.dtype == DType.int) = false) (hdt2 : (l.dtype == DType.bool) = false)
    (σ : St R) (q : Int) (hq : σ.iv.get "iq" = some q)
    (htab : ArgOk σ ctx.entityType q { table := t, restriction := mt.restriction }) :
    ∃ off, ctx.coeffOffset = some off ∧
      (DofsOk σ "w" t.ndofs (fun d => off + (d * t.blockSize + t.offset)) →
      ∃ σ', exec x (lincombSection l) σ = .ok σ' ∧ SFrame l.access "ic" σ σ' ∧
        σ'.sv.get l.access = some (isum 0 t.ndofs (fun d =>
          readArr σ "w" [off + (d * t.blockSize + t.offset)] *
            argVal σ ctx.entityType q { table := t, restriction := mt.restriction } d))) := by
  unfold coeffLincomb at h
  simp only [hiq, dofIndex_noTF _ _ hnf] at h
  split at h
  · simp at h
  rename_i hz
  split at h
  · simp at h
  split at h
  · simp at h
  cases hta : tableAccess t ctx.entityType mt.restriction { syms := ["iq"], sizes := [nq] }
      { syms := ["ic"], sizes := [t.ndofs] } with
  | error e => simp [hta] at h
  | ok p =>
    obtain ⟨fe, tabs⟩ := p
    simp only [hta] at h
    cases hoff : ctx.coeffOffset with
    | none => simp [hoff] at h
    | some off =>
      simp only [hoff] at h
      cases hs : accessSym access with
      | error e => simp [hs] at h
      | ok p =>
        obtain ⟨n, dt⟩ := p
        simp only [hs, Except.ok.injEq, Option.some.injEq] at h
        subst h
        refine ⟨off, rfl, fun hdofs => ?_⟩
        exact lincomb_core x hlaw _ ctx.entityType t mt.restriction nq tabs
          (fun d => off + (d * t.blockSize + t.offset)) rfl hdt1 hdt2 rfl hta
          (by simpa using hz) ho (fun iv ia d hd => evalI_coeffDofIdx t off iv ia d hd) σ q hq htab hdofs

/-- **coord_lincomb.** The section `_define_coordinate_dofs_lincomb` emits for a component of `x` or of
    the Jacobian (table not tensor-factorised): afterwards the symbol equals
    `Σ_{d<nodes} coordinate_dofs[3·d + begin + offset] · FE[perm][entity][q or 0][d]` with
    `offset = 3·nodes` for a '-' restriction and `0` otherwise; only the symbol and `ic` have changed. -/
theorem coord_lincomb (hlaw : LawfulExtra x) (ctx : DefCtx) (mt : MtDesc) (t : TableRef) (access : MSym)
    (l : Lincomb) (h : coordLincomb ctx mt t access = .ok l)
    (hnf : t.factors = none) (nq : Nat)
    (hiq : quadIndexOpt ctx.rule = { syms := ["iq"], sizes := [nq] })
    (hdt1 : (l.dtype == DType.int) = false) (hdt2 : (l.dtype == DType.bool) = false)
    (σ : St R) (q : Int) (hq : σ.iv.get "iq" = some q)
    (htab : ArgOk σ ctx.entityType q { table := t, restriction := mt.restriction })
    (hdofs : DofsOk σ "coordinate_dofs" t.ndofs (fun d => d * 3 + t.offset +
      (if mt.restriction == .minus then (ctx.numScalarDofs : Int) * 3 else 0))) :
    ∃ σ', exec x (lincombSection l) σ = .ok σ' ∧ SFrame l.access "ic" σ σ' ∧
      σ'.sv.get l.access = some (isum 0 t.ndofs (fun d =>
        readArr σ "coordinate_dofs" [d * 3 + t.offset +
            (if mt.restriction == .minus then (ctx.numScalarDofs : Int) * 3 else 0)] *
          argVal σ ctx.entityType q { table := t, restriction := mt.restriction } d)) := by
  unfold coordLincomb at h
  simp only [hiq, dofIndex_noTF _ _ hnf] at h
  split at h
  · simp at h
  split at h
  · simp at h
  rename_i hzo
  have hz1 : (t.ttype == "zeros") = false := by
    cases hc : (t.ttype == "zeros") <;> simp_all
  have hz2 : (t.ttype == "ones") = false := by
    cases hc : (t.ttype == "ones") <;> simp_all
  cases hta : tableAccess t ctx.entityType mt.restriction { syms := ["iq"], sizes := [nq] }
      { syms := ["ic"], sizes := [t.ndofs] } with
  | error e => simp [hta] at h
  | ok p =>
    obtain ⟨fe, tabs⟩ := p
    simp only [hta] at h
    cases hs : accessSym access with
    | error e => simp [hs] at h
    | ok p =>
      obtain ⟨n, dt⟩ := p
      simp only [hs, Except.ok.injEq] at h
      subst h
      exact lincomb_core x hlaw _ ctx.entityType t mt.restriction nq tabs _ rfl hdt1 hdt2 rfl hta
        hz1 hz2 (fun iv ia d hd => evalI_coordDofIdx t _ iv ia d hd) σ q hq htab hdofs

/-! ## Non-vacuity: a blocked P1 coefficient (3 dofs, block size 2, component 1), 2 points -/

namespace DExample

def t₀ : TableRef :=
  { name := "FE3_C1", ttype := "varying", ndofs := 3, offset := 1, blockSize := 2, isPermuted := false,
    factors := none }

def ctx₀ : DefCtx :=
  { entityType := "cell", custom := false, rule := some { id := "ab12cd34", nweights := 2, factors := none },
    coeffNumber := some 0, coeffOffset := some 4, constOffset := none, jnum := 0, numScalarDofs := 3 }

def mt₀ : MtDesc :=
  { mro := ["Coefficient", "FormArgument", "Terminal", "Expr", "object"],
    bases := ["Coefficient", "FormArgument", "Terminal", "Expr", "object"], averaged := none,
    restriction := .none, globalDerivs := [], localDerivs := [], gdim := 2, component := [1],
    flatComponent := 1, cellname := "triangle" }

/-- `iq = 1`, `w = [0,…,0, 1,2,3,4,5,6]` from position 4, table `FE[q][d] = 10q + d + 1` -/
def σ₀ : St Rat :=
  { iv := [("iq", 1)],
    sa := [("w", { dims := [10], data := #[0, 0, 0, 0, 1, 2, 3, 4, 5, 6] }),
           ("FE3_C1", { dims := [1, 1, 2, 3], data := #[1, 2, 3, 11, 12, 13] })] }

/-- the access symbol is `w0_c1`, the definition is a section -/
example : (match genAccess ctx₀ mt₀ (some t₀) with | .ok (.ex (.sym n _)) => n | _ => "") = "w0_c1" := by
  decide

/-- executing the generated section: `w0_c1 = w[4+1]·11 + w[4+3]·12 + w[4+5]·13 = 2·11 + 4·12 + 6·13` -/
example : (match genDefinition ctx₀ mt₀ (some t₀) (.ex (.sym "w0_c1" .scalar)) with
    | .ok (some s) => (match exec ratExtra s σ₀ with
        | .ok σ' => σ'.sv.get "w0_c1"
        | .error _ => none)
    | _ => none) = some (2 * 11 + 4 * 12 + 6 * 13) := by decide +kernel

/-- … which is the closed form of `coeff_lincomb` -/
example : isum 0 t₀.ndofs (fun d => readArr σ₀ "w" [4 + (d * t₀.blockSize + t₀.offset)] *
    argVal σ₀ "cell" 1 { table := t₀, restriction := .none } d) = (2 * 11 + 4 * 12 + 6 * 13 : Rat) := by
  decide +kernel

end DExample

end Ffcx.Codegen
