/-
C01 (codegen cluster, stage 2) — composition: definitions + partition + tensor computation.

`kernel_meets_spec_defs_partial` replaces the hypothesis `hpart` of `kernel_meets_spec_partial` (an
assumption about the execution of the whole code before the tensor computation) by
  * `IsDef` facts for the definition sections (proved for the coefficient / Jacobian /
    SpatialCoordinate sections by `coeff_isDef`, `coord_isDef`),
  * decidable name conditions (`PrefixDisjoint`, `PrefixReads`, `ssaOk`, `fwDeclsOk`, `fwLinkedB`):
    every `sv_`/`fw` temporary is defined from symbols the definition sections establish, from earlier
    temporaries, or from names the loop never writes,
  * safety of the partition's expressions (array reads in range, symbols declared): `hsafe`, `hsafeFw`,
and pins the factor values `Φ q fw` down: they are the values of the `fw` defining expressions in ANY
state in which the definition symbols hold their closed-form values and the SSA equations of the
intermediates hold (`PrefixPost`) — no reference to the execution history.
-/
import FfcxProofs.Lemmas.CodegenPrefix

set_option linter.unusedSectionVars false

namespace Ffcx.Codegen
open Ffcx Ffcx.LNodes Lean.Grind
attribute [local instance] Lean.Grind.Ring.intCast
variable {R : Type} [Field R] (x : Extra R)

/-- integer names the quadrature loop writes -/
def loopInts : List String := "iq" :: "ic" :: dofNames

/-- **Closure of the partition's reads** (decidable): the defining expressions of the intermediates,
    of the `fw` temporaries and the non-symbol `fw` expressions mention neither `A`, nor `ic`, nor a
    dof loop index, nor an `fw` temporary; no temporary / definition symbol is a loop integer or `A`. -/
structure PrefixReads (ds : List (DefItem R)) (fw i0 : List Stmt) (fwes : List Expr) : Prop where
  exprs : ∀ e, (e ∈ (declTriples i0).map (·.2.2) ∨ e ∈ (fwPairs fw).map (·.2) ∨ e ∈ fwes) →
    ∀ m, mentionsE m e = true → m ≠ aName ∧ m ∉ "ic" :: dofNames ∧ m ∉ declNames fw
  names : ∀ n, (n ∈ ds.map (·.name) ∨ n ∈ declNames fw ∨ n ∈ declNames i0) → n ∉ loopInts ∧ n ≠ aName

/-- a state that is `σ` outside the loop's write sets -/
structure SigmaLike (σ : St R) (ds : List (DefItem R)) (fw i0 : List Stmt) (τ : St R) : Prop where
  arr : ArrAgree σ τ
  iv : ∀ n, n ∉ loopInts → τ.iv.get n = σ.iv.get n
  sv : ∀ n, n ∉ ds.map (·.name) → n ∉ declNames fw → n ∉ declNames i0 → τ.sv.get n = σ.sv.get n

theorem declTriples_names : ∀ (ss : List Stmt) (t : String × DType × Expr), t ∈ declTriples ss →
    t.1 ∈ declNames ss
  | [], _, h => by simp [declTriples] at h
  | .vdecl n dt v :: ss, t, h => by
    simp only [declTriples, List.mem_cons] at h
    rcases h with rfl | h
    · simp [declNames]
    · simp [declNames, declTriples_names ss t h]
  | .assign _ _ :: ss, t, h => by simpa [declNames] using declTriples_names ss t (by simpa [declTriples] using h)
  | .addAssign _ _ :: ss, t, h => by simpa [declNames] using declTriples_names ss t (by simpa [declTriples] using h)
  | .adecl .. :: ss, t, h => by simpa [declNames] using declTriples_names ss t (by simpa [declTriples] using h)
  | .forRange .. :: ss, t, h => by simpa [declNames] using declTriples_names ss t (by simpa [declTriples] using h)
  | .comment _ :: ss, t, h => by simpa [declNames] using declTriples_names ss t (by simpa [declTriples] using h)
  | .block _ :: ss, t, h => by simpa [declNames] using declTriples_names ss t (by simpa [declTriples] using h)
  | .sect .. :: ss, t, h => by simpa [declNames] using declTriples_names ss t (by simpa [declTriples] using h)

theorem declNames_triples : ∀ (ss : List Stmt) (n : String), n ∈ declNames ss →
    ∃ t ∈ declTriples ss, t.1 = n
  | [], _, h => by simp [declNames] at h
  | .vdecl m dt v :: ss, n, h => by
    simp only [declNames, List.mem_cons] at h
    rcases h with rfl | h
    · exact ⟨(n, dt, v), by simp [declTriples], rfl⟩
    · obtain ⟨t, ht, e⟩ := declNames_triples ss n h
      exact ⟨t, by simp [declTriples, ht], e⟩
  | .assign _ _ :: ss, n, h => by simpa [declTriples] using declNames_triples ss n (by simpa [declNames] using h)
  | .addAssign _ _ :: ss, n, h => by simpa [declTriples] using declNames_triples ss n (by simpa [declNames] using h)
  | .adecl .. :: ss, n, h => by simpa [declTriples] using declNames_triples ss n (by simpa [declNames] using h)
  | .forRange .. :: ss, n, h => by simpa [declTriples] using declNames_triples ss n (by simpa [declNames] using h)
  | .comment _ :: ss, n, h => by simpa [declTriples] using declNames_triples ss n (by simpa [declNames] using h)
  | .block _ :: ss, n, h => by simpa [declTriples] using declNames_triples ss n (by simpa [declNames] using h)
  | .sect .. :: ss, n, h => by simpa [declTriples] using declNames_triples ss n (by simpa [declNames] using h)

/-- **post_values_agree.** Two post-prefix states at the same point `q`, both started from states that
    are `σ` outside the loop's write sets, agree on every name a closed expression can mention. -/
theorem post_values_agree (σ : St R) (ds : List (DefItem R)) (fw i0 : List Stmt) (fwes : List Expr)
    (hssa : ssaOk i0 = true) (hreads : PrefixReads ds fw i0 fwes) (q : Nat)
    (τ τ' τ₁ τ₁' : St R) (hσ : SigmaLike σ ds fw i0 τ) (hσ' : SigmaLike σ ds fw i0 τ')
    (hp : PrefixPost x σ ds fw i0 q τ τ₁) (hp' : PrefixPost x σ ds fw i0 q τ' τ₁') :
    AgreeOn (fun m => m ≠ aName ∧ m ∉ "ic" :: dofNames ∧ m ∉ declNames fw) τ₁ τ₁' := by
  -- agreement outside the intermediates
  have hiv : ∀ m, m ∉ "ic" :: dofNames → τ₁.iv.get m = τ₁'.iv.get m := by
    intro m hm
    by_cases e : m = "iq"
    · subst e; rw [hp.after.iq, hp'.after.iq]
    · have hic : m ≠ "ic" := fun e' => hm (by simp [e'])
      have hl : m ∉ loopInts := by
        simp only [loopInts, List.mem_cons]
        intro h; rcases h with h | h | h
        · exact e h
        · exact hic h
        · exact hm (by simp [h])
      rw [hp.iv m hic e, hp'.iv m hic e, hσ.iv m hl, hσ'.iv m hl]
  have hia : τ₁.ia = τ₁'.ia := by rw [hp.after.arr.ia, hp'.after.arr.ia]
  have hsa : ∀ m, m ≠ aName → τ₁.sa.get m = τ₁'.sa.get m := by
    intro m hm; rw [hp.after.arr.sa m hm, hp'.after.arr.sa m hm]
  have hsv0 : ∀ m, m ∉ declNames fw → m ∉ declNames i0 → τ₁.sv.get m = τ₁'.sv.get m := by
    intro m h2 h3
    by_cases h1 : m ∈ ds.map (·.name)
    · obtain ⟨d, hd, rfl⟩ := List.mem_map.mp h1
      rw [hp.after.defs d hd, hp'.after.defs d hd]
    · rw [hp.sv m h1 h2 h3, hp'.sv m h1 h2 h3, hσ.sv m h1 h2 h3, hσ'.sv m h1 h2 h3]
  have hag0 : AgreeOn (fun m => (m ≠ aName ∧ m ∉ "ic" :: dofNames ∧ m ∉ declNames fw) ∧ m ∉ declNames i0)
      τ₁ τ₁' :=
    ⟨fun m hm => hiv m hm.1.2.1, fun m hm => hsv0 m hm.1.2.2 hm.2, fun m _ => by rw [hia],
      fun m hm => hsa m hm.1.1⟩
  -- the intermediates
  have hssav : ∀ t ∈ declTriples i0, τ₁.sv.get t.1 = τ₁'.sv.get t.1 := by
    refine ssa_values_agree x i0 hssa τ₁ τ₁' _ hag0 ?_ ?_ hp.eqs hp'.eqs
    · intro m ⟨⟨t, ht, hm⟩, hnot⟩
      exact ⟨hreads.exprs t.2.2 (Or.inl (List.mem_map_of_mem ht)) m hm, hnot⟩
    · intro m hm
      obtain ⟨hl, hA⟩ := hreads.names m (Or.inr (Or.inr hm))
      refine ⟨hiv m (fun h => hl ?_), by rw [hia], hsa m hA⟩
      simp only [loopInts, List.mem_cons] at h ⊢
      exact Or.inr h
  refine ⟨fun m hm => hiv m hm.2.1, ?_, fun m _ => by rw [hia], fun m hm => hsa m hm.1⟩
  intro m hm
  by_cases h3 : m ∈ declNames i0
  · obtain ⟨t, ht, rfl⟩ := declNames_triples i0 m h3
    exact hssav t ht
  · exact hsv0 m hm.2.2 h3

theorem fwPairs_names : ∀ (fw : List Stmt) (p : String × Expr), p ∈ fwPairs fw → p.1 ∈ declNames fw
  | [], _, h => by simp [fwPairs] at h
  | .vdecl n dt v :: ss, p, h => by
    simp only [fwPairs, List.mem_cons] at h
    rcases h with rfl | h
    · simp [declNames]
    · simp [declNames, fwPairs_names ss p h]
  | .assign _ _ :: ss, p, h => by simpa [declNames] using fwPairs_names ss p (by simpa [fwPairs] using h)
  | .addAssign _ _ :: ss, p, h => by simpa [declNames] using fwPairs_names ss p (by simpa [fwPairs] using h)
  | .adecl .. :: ss, p, h => by simpa [declNames] using fwPairs_names ss p (by simpa [fwPairs] using h)
  | .forRange .. :: ss, p, h => by simpa [declNames] using fwPairs_names ss p (by simpa [fwPairs] using h)
  | .comment _ :: ss, p, h => by simpa [declNames] using fwPairs_names ss p (by simpa [fwPairs] using h)
  | .block _ :: ss, p, h => by simpa [declNames] using fwPairs_names ss p (by simpa [fwPairs] using h)
  | .sect .. :: ss, p, h => by simpa [declNames] using fwPairs_names ss p (by simpa [fwPairs] using h)

/-- `e` is a `Symbol` -/
def isSymB : Expr → Bool
  | .sym .. => true
  | _ => false

/-- the value of an `fw` expression in a post-prefix state: for a temporary the value of its defining
    expression `f·w[iq]`, for `weights[iq]` itself its value -/
def fwVal (fw : List Stmt) (τ : St R) (e : Expr) : R :=
  match e with
  | .sym n _ =>
    match (fwPairs fw).find? (fun p => p.1 == n) with
    | some p => eval x τ p.2
    | none => eval x τ e
  | _ => eval x τ e

/-- `fwLinkedB` (decidable, evaluated on every real quadrature loop) gives what the theorem needs -/
theorem fwLinkedB_sound (fw : List Stmt) (st : GenState) (gs : List GroupDesc)
    (h : fwLinkedB fw st gs = true) :
    ∀ fwe ∈ allFw st gs, ∀ n dt, fwe = .sym n dt → dt ≠ .int ∧ ∃ p ∈ fwPairs fw, p.1 = n := by
  intro fwe hf n dt he
  subst he
  simp only [fwLinkedB, List.all_eq_true] at h
  have := h _ hf
  simp only [Bool.and_eq_true, bne_iff_ne, ne_eq, List.any_eq_true, beq_iff_eq] at this
  exact this

/-- **kernel_meets_spec_defs_partial.** The quadrature loop
    `for iq { definitions; Intermediates{fw = 0; sv_… ; fw = f·w[iq]}; Tensor Computation… }` where
    * every definition section establishes its symbol (`IsDef`: proved for the coefficient, Jacobian and
      SpatialCoordinate sections by `coeff_isDef` / `coord_isDef`; pass-through terminals have no section),
    * the `sv_` intermediates are in SSA form and the names are disjoint / closed (decidable),
    * the partition's expressions are safe to evaluate (`hsafe`, `hsafeFw`: array reads in range and
      symbols declared — the assumption that remains, together with the block-side conditions),
    adds `Σ_q Σ_groups Σ_(i,j) Σ_b [flat = k] · Φ q fw_b · Π_r T_br[…][q][d_r]` to `A[k]`, where `Φ q fw_b`
    is the value of the defining expression of `fw_b` in ANY state that is `σ` outside the loop's write
    sets, has `iq = q`, the definition symbols at their closed-form values and the intermediates
    satisfying their defining equations.

    Still assumed / outside: `optimize` (the real kernel holds the optimised definitions and sections;
    C17), table values = basis functions (C02/C03/Tables), the terminals without transcription
    (`facet_edge_vectors`, `cell_coordinate`, `facet_coordinate`), boolean temporaries (conditions),
    tensor-factorised and diagonal groups (see `genBlock_tensor_spec`, `genBlock_diagonal_spec`). -/
theorem kernel_meets_spec_defs_partial (hlaw : LawfulExtra x) (rule : QRule) (hrule : rule.factors = none)
    (aShape : List Nat) (gs : List GroupDesc) (st st' : GenState) (tc fw : List Stmt)
    (hgen : genGroups st gs = .ok (tc, fw, st')) (hok : GroupsOk rule aShape st gs)
    (hfwok : fwDeclsOk fw = true) (hlinked : fwLinkedB fw st gs = true)
    (ds : List (DefItem R)) (i0 : List Stmt)
    (σ : St R) (hA : AOk aName (sizeProd aShape) σ)
    (htab : ∀ q : Nat, q < rule.nweights → ∀ g ∈ gs, ∀ b ∈ g.blocks, ∀ a ∈ b.args,
      ArgOk σ g.entityType q a)
    (hdef : ∀ d ∈ ds, IsDef x σ rule.nweights d.stmt d.name d.val)
    (hdis : PrefixDisjoint ds fw i0) (hssa : ssaOk i0 = true)
    (hreads : PrefixReads ds fw i0 ((allFw st gs).filter (fun e => !isSymB e)))
    (hsafe : ∀ q : Nat, q < rule.nweights → ∀ τ υ : St R, SigmaLike σ ds fw i0 τ → AfterDefs σ ds fw q υ →
      (∀ n, n ∉ ds.map (·.name) → n ∉ declNames fw → υ.sv.get n = τ.sv.get n) →
      SafeFrom υ (declNames i0) i0)
    (hsafeFw : ∀ q : Nat, q < rule.nweights → ∀ τ τ₁ : St R, SigmaLike σ ds fw i0 τ →
      PrefixPost x σ ds fw i0 q τ τ₁ →
      (∀ p ∈ fwPairs fw, safeE τ₁ p.2 = true) ∧
      ∀ fwe ∈ allFw st gs, isSymB fwe = false → safeE τ₁ fwe = true) :
    ∃ (Φ : Nat → Expr → R) (σ' : St R),
      exec x (genQuadLoop rule (quadLoopCode (ds.map (·.stmt)) i0 tc fw)) σ = .ok σ' ∧
      Acc aName (fun n => n ∈ loopInts) (fun n => n ∈ ds.map (·.name) ++ declNames fw ++ declNames i0)
        (fun k => isum 0 rule.nweights (fun q => groupsSum (Φ q.toNat) σ q k st gs)) σ σ' ∧
      ∀ q : Nat, q < rule.nweights → ∀ τ τ₁ : St R, SigmaLike σ ds fw i0 τ →
        PrefixPost x σ ds fw i0 q τ τ₁ → ∀ fwe ∈ allFw st gs, Φ q fwe = fwVal x fw τ₁ fwe := by
  have hfwshape : fwShape fw = true := by
    simp only [fwDeclsOk, Bool.and_eq_true] at hfwok; exact hfwok.1.1
  have hσlike : SigmaLike σ ds fw i0 σ := ⟨Agree.refl σ, fun _ _ => rfl, fun _ _ _ _ => rfl⟩
  have hrun : ∀ q : Nat, q < rule.nweights → ∃ S, PrefixPost x σ ds fw i0 q σ S := by
    intro q hq
    obtain ⟨S, _, hS⟩ := prefix_run x σ rule.nweights ds fw i0 hdef hdis hfwshape hssa q hq σ
      (Agree.refl σ) (fun υ h1 h2 => hsafe q hq σ υ hσlike h1 h2)
    exact ⟨S, hS⟩
  let S : Nat → St R := fun q => if h : q < rule.nweights then Classical.choose (hrun q h) else σ
  have hS : ∀ q, q < rule.nweights → PrefixPost x σ ds fw i0 q σ (S q) := by
    intro q hq
    simp only [S, hq, dif_pos]
    exact Classical.choose_spec (hrun q hq)
  -- values of closed expressions do not depend on the state the prefix was started from
  have hval : ∀ q, q < rule.nweights → ∀ τ τ₁, SigmaLike σ ds fw i0 τ → PrefixPost x σ ds fw i0 q τ τ₁ →
      ∀ fwe ∈ allFw st gs, fwVal x fw τ₁ fwe = fwVal x fw (S q) fwe := by
    intro q hq τ τ₁ hτ hp fwe hfwe
    have hag := post_values_agree x σ ds fw i0 _ hssa hreads q τ σ τ₁ (S q) hτ hσlike hp (hS q hq)
    cases fwe with
    | sym n dt =>
      simp only [fwVal]
      cases hfind : (fwPairs fw).find? (fun p => p.1 == n) with
      | some p =>
        have hmem := List.mem_of_find?_eq_some hfind
        exact eval_agreeOn x hag p.2 (hreads.exprs p.2 (Or.inr (Or.inl (List.mem_map_of_mem hmem))))
      | none =>
        obtain ⟨_, p, hp', hpn⟩ := fwLinkedB_sound fw st gs hlinked _ hfwe n dt rfl
        have := List.find?_eq_none.mp hfind p hp'
        simp [hpn] at this
    | litF _ _ _ | litI _ | mi _ _ _ | neg _ | not _ | bin _ _ _ | sum _ | prod _ | call _ _ _
    | idx _ _ _ | cond _ _ _ =>
      simp only [fwVal]
      exact eval_agreeOn x hag _ (hreads.exprs _ (Or.inr (Or.inr
        (List.mem_filter.mpr ⟨hfwe, by simp [isSymB]⟩))))
  refine ⟨fun q fwe => fwVal x fw (S q) fwe, ?_⟩
  have hpart : ∀ q : Nat, q < rule.nweights → ∀ (τ : St R) (d : Nat → R),
      Acc aName (fun n => n ∈ loopInts)
        (fun n => n ∈ ds.map (·.name) ++ declNames fw ++ declNames i0) d σ τ →
      ∃ τ₁, execL x (ds.map (·.stmt) ++ fwDecls fw ++ i0) (τ.setIV "iq" q) = .ok τ₁ ∧
        Acc aName (fun n => n ∈ loopInts)
          (fun n => n ∈ ds.map (·.name) ++ declNames fw ++ declNames i0) (fun _ => 0) τ τ₁ ∧
        τ₁.iv.get "iq" = some (q : Int) ∧
        (∀ p ∈ fwPairs fw, (τ₁.sv.get p.1).isSome = true ∧ safeE τ₁ p.2 = true) ∧
        ∀ fwe ∈ allFw st gs, FwReady x fw τ₁ (fwVal x fw (S q) fwe) fwe := by
    intro q hq τ d hτ
    have hτlike : SigmaLike σ ds fw i0 τ :=
      ⟨⟨hτ.ia, fun _ h => h.elim, fun _ h => h.elim, hτ.sa⟩, fun n hn => hτ.iv n hn,
        fun n h1 h2 h3 => hτ.sv n (by
          simp only [List.mem_append]
          intro h; rcases h with (h | h) | h
          · exact h1 h
          · exact h2 h
          · exact h3 h)⟩
    obtain ⟨τ₁, he1, hp⟩ := prefix_run x σ rule.nweights ds fw i0 hdef hdis hfwshape hssa q hq τ
      hτlike.arr (fun υ h1 h2 => hsafe q hq τ υ hτlike h1 h2)
    obtain ⟨sf1, sf2⟩ := hsafeFw q hq τ τ₁ hτlike hp
    refine ⟨τ₁, he1, ?_, hp.after.iq, ?_, ?_⟩
    · obtain ⟨_, a, _, ha, _⟩ := hτ.arr
      refine ⟨hp.ia, ?_, ?_, fun n _ => by rw [hp.sa], ⟨a, a, ha, by rw [hp.sa]; exact ha, rfl, rfl, rfl,
        fun k _ => by grind⟩⟩
      · intro n hn
        refine hp.iv n (fun e => hn (by simp [loopInts, e])) (fun e => hn (by simp [loopInts, e]))
      · intro n hn
        simp only [List.mem_append] at hn
        exact hp.sv n (fun h => hn (Or.inl (Or.inl h))) (fun h => hn (Or.inl (Or.inr h)))
          (fun h => hn (Or.inr h))
    · intro p hp'
      exact ⟨hp.after.fwd p.1 (fwPairs_names fw p hp'), sf1 p hp'⟩
    · intro fwe hfwe
      have hv := hval q hq τ τ₁ hτlike hp fwe hfwe
      cases hsym : isSymB fwe with
      | true =>
        cases fwe with
        | sym n dt =>
          obtain ⟨hdt, p, hp', hpn⟩ := fwLinkedB_sound fw st gs hlinked _ hfwe n dt rfl
          cases hfind : (fwPairs fw).find? (fun p => p.1 == n) with
          | none =>
            have := List.find?_eq_none.mp hfind p hp'
            simp [hpn] at this
          | some p₀ =>
            have hmem := List.mem_of_find?_eq_some hfind
            have hp₀ : p₀.1 = n := by
              have := List.find?_some hfind
              simpa using this
            refine Or.inl ⟨n, dt, p₀.2, rfl, hdt, by rw [← hp₀]; exact hmem, ?_⟩
            simp only [fwVal, hfind] at hv
            simp only [fwVal, hfind]
            exact hv
        | litF _ _ _ | litI _ | mi _ _ _ | neg _ | not _ | bin _ _ _ | sum _ | prod _ | call _ _ _
        | idx _ _ _ | cond _ _ _ => simp [isSymB] at hsym
      | false =>
        refine Or.inr ⟨sf2 fwe hfwe hsym, ?_, ?_⟩
        · have : fwVal x fw τ₁ fwe = eval x τ₁ fwe := by
            cases fwe <;> first | rfl | simp [isSymB] at hsym
          have h2 : fwVal x fw (S q) fwe = eval x (S q) fwe := by
            cases fwe <;> first | rfl | simp [isSymB] at hsym
          rw [← this, hv]
        · intro m hm
          cases hmm : mentionsE m fwe with
          | false => rfl
          | true =>
            exact absurd hm (hreads.exprs fwe (Or.inr (Or.inr (List.mem_filter.mpr
              ⟨hfwe, by simp [hsym]⟩))) m hmm).2.2

  obtain ⟨σ', he, hacc⟩ := kernel_meets_spec_partial x hlaw rule hrule aShape gs st st' tc fw hgen hok hfwok
    (ds.map (·.stmt)) i0 (fun n => n ∈ loopInts)
    (fun n => n ∈ ds.map (·.name) ++ declNames fw ++ declNames i0)
    (by simp [loopInts]) (fun n hn => by simp [loopInts, hn]) (fun n hn => by simp [hn])
    σ hA htab (fun q fwe => fwVal x fw (S q) fwe) hpart
  exact ⟨σ', he, hacc, fun q hq τ τ₁ hτ hp fwe hfwe => (hval q hq τ τ₁ hτ hp fwe hfwe).symm⟩

end Ffcx.Codegen
