/-
C16 — formatted source means what the AST says.

Property: for every expression and statement tree of the code-generation AST, the text emitted
by the C formatter parses, under the C grammar, back to the same tree (same operator nesting,
operands, array subscripts, loop bounds); the numba formatter satisfies the same under Python's
grammar; floating-point literals read back to within one unit in the last place.

Models (FfcxModel/LNodes/{FormatC,FormatNumba,Lex,ParseC,ParsePy}.lean) mirror the formatters of
the working tree (after the /repo fixes 784668e, 74ce3e1, abc5593, b5ab6da, ab851ef, 79475cb,
96a0205, 584b753, and the MathFunction handler change 656b74c/c5f832c) and are tied to them by exact-text correspondence on every run.

* `prec_table_agrees`, `multiindex_prec_agrees`, `math_names_injective`, `local_faithful`,
  `local_faithful_py` — complete `decide` over the table regenerated from /repo on every run.
* `no_token_fusion` — FULL: for every well-formed expression tree the C lexer reads the text back
  to exactly the tokens the formatter intends (the former exclusion "no unary minus directly over
  a negative literal" is gone: the formatter now prints `-(-2.0)`).
* `roundtrip_C` — FULL for expressions: `wfC e → parseExprC (lexC (fmtExprC sc e)) = some (eraseC sc (norm e))`;
  `norm_eval`: `eval (norm e) = eval e`.
* `literal_readback_exact` / `literal_1ulp` — FULL at the value level (normal binary64, no overflow),
  backed by `literal_exact_17`.
* `roundtrip_stmt_C`, `roundtrip_stmt_Py`, `roundtrip_stmt` — FULL for every statement form
  (text → tokens → statement tree; for numba with NEWLINE / INDENT / DEDENT and the `pass` rule).
* `no_token_fusion_py`, `roundtrip_Py` — FULL for numba expressions (no typing hypothesis).
* Modelling limits of the lexer models (FfcxModel/LNodes/Lex.lean): the only line terminator is
  `\n` (a lone `\r` inside a comment text would end the line for GCC / CPython); no `-0.0`, no
  overflow in the literal theorems. Every tree and statement the harness evaluates (all generated
  kernels included) satisfies the hypotheses `wfC` / `wfPy` / `wfS` / `wfSPy` (reported per run).
-/
import FfcxProofs.Lemmas.FormatNorm
import FfcxProofs.Lemmas.FormatTables
import FfcxProofs.Lemmas.FormatLit
import FfcxProofs.Lemmas.FormatStmt
import FfcxProofs.Lemmas.FormatPy
import FfcxProofs.Lemmas.FormatEval
import FfcxProofs.Lemmas.FormatShape
import FfcxProofs.Lemmas.FormatStmtText
import FfcxProofs.Lemmas.FormatRaise
import FfcxProofs.Lemmas.FormatPySepExpr
import FfcxProofs.Lemmas.FormatPyShape
import FfcxProofs.Lemmas.FormatPyNorm
import FfcxProofs.Lemmas.FormatPyStmtText
import FfcxModel.LNodes.Scalars


namespace Ffcx.LNodes.Fmt
open Ffcx.LNodes Ffcx.Generated.Precedence

/-! ## the finite tables -/

/-- `Expr.prec` / `BinOp.prec` / `opStr` of the model equal the regenerated table, every
    expression class of lnodes.py is modelled, and the operator tokens spell the `op` strings. -/
theorem prec_table_agrees :
    (∀ r ∈ modelRows, ∃ c ∈ classes, rowMatches r c = true)
    ∧ (∀ c ∈ classes, c.kind ≠ "assign" → ∃ r ∈ modelRows, rowMatches r c = true)
    ∧ (∀ op : BinOp, (opTok op).text = op.opStr.toList) := by
  refine ⟨by decide, by decide, ?_⟩
  intro op; cases op <;> decide

/-- A `MultiIndex` INSTANCE carries the precedence of its global index (lnodes `MultiIndex.__init__`
    sets `self.precedence = self.global_index.precedence`; probed on instances with 0, 1, 2 symbols
    on every run). The formatter models read it off with `precF`; this is what makes a MultiIndex
    operand get its parentheses (`x * (4 * i + j)`). -/
theorem multiindex_prec_agrees : miProbes = multiIndexPrec := by decide

/-- each `math_table[dtype]` and the numba `function_map` are injective on their keys: the name
    in the text determines the function (so `eraseC`, which maps names forward, loses nothing) -/
theorem math_names_injective :
    (∀ t ∈ mathTable, tableInjective t.2 = true) ∧ tableInjective numbaFunctionMap = true := by
  decide

/-- C: for EVERY (parent class, child class, operand position) — no typing needed — the rule
    "parenthesise iff child.precedence ≥ parent.precedence" parenthesises whenever the child's
    grammar level does not bind tight enough at that position. (The class row `MultiIndex` is left
    out: an instance never presents the class attribute but the precedence of its global index — a
    `Sum` or `LiteralInt` row, see `multiindex_prec_agrees`.) -/
theorem local_faithful :
    ∀ p ∈ parentRows, ∀ c ∈ childRows, c.name ≠ "MultiIndex" → ∀ pos ∈ positions p,
      cFaithful p c pos = true := by decide

/-- numba: the rule, with the extra parentheses around a comparison directly under a comparison,
    is faithful to Python's levels (comparisons chain!) for EVERY pair and position — well-typedness
    is no longer needed (it was, before /repo b5ab6da: `a < b == c`). -/
theorem local_faithful_py :
    ∀ p ∈ parentRows, ∀ c ∈ childRows, c.name ≠ "MultiIndex" → ∀ pos ∈ positions p,
      pyFaithful p c pos = true := by decide

/-! ## no token fusion -/

/-- `Neg(LiteralFloat(-2.0))`, reachable as `LiteralFloat(-2.0) * -1` -/
def negNegLit : Expr := .neg (.litF (-2) 0 false)

/-- **No token fusion (full).** In `lexC (fmtExprC sc e)` no two adjacent emitted tokens fuse: for
    every well-formed expression tree the lexer reads the text back to exactly the tokens the
    formatter intends. (`lex_render`: generic statement for `separated` piece lists;
    `separated_pieces`: the pieces of every well-formed tree are separated.) -/
theorem no_token_fusion (sc : Scalar) (e : Expr) (hwf : wfC sc e = true) :
    lexC (fmtExprC sc e) = tokExprC sc e :=
  lex_render _ (separated_pieces sc e hwf)

/-- regression: the former witness of token fusion (`--2.0`, the decrement token) is now printed
    `-(-2.0)`, and a `Not` over a `Not`/negative literal likewise keeps its tokens apart -/
example :
    fmtExprC .f64 negNegLit = "-(-2.0)".toList
    ∧ lexC (fmtExprC .f64 negNegLit) = [.p .minus, .p .lpar, .p .minus, .num "2.0", .p .rpar]
    ∧ fmtExprC .f64 (.neg (.litI (-1))) = "-(-1)".toList
    ∧ fmtExprC .f64 (.not (.litF (-2) 0 false)) = "!-2.0".toList := by
  refine ⟨?_, ?_, ?_, ?_⟩ <;> decide +kernel

/-! ## the C round trip -/

/-- **Round trip, C, expressions (full).** For every well-formed expression tree (identifiers are
    identifiers, n-ary nodes and subscript/argument lists are non-empty, a non-complex literal has
    no imaginary part) the C text lexes and parses back to the erased normal form of the tree: same
    operator nesting, operands, subscripts, call arguments. Structural induction over all trees
    (`rt_all`) with the invariant "what follows binds no tighter than the level being parsed"; no
    typing discipline is needed for C. -/
theorem roundtrip_C (sc : Scalar) (e : Expr) (hwf : wfC sc e = true) :
    parseExprC (lexC (fmtExprC sc e)) = some (eraseC sc (norm e)) := by
  rw [no_token_fusion sc e hwf, parse_tokens_C sc e hwf, eraseC_norm sc e hwf]

/-- …and on a well-formed tree the formatter does not raise: `formatExprC` (the MathFunction
    handler of the current /repo: the math table is the scalar-type one iff ANY argument has dtype
    SCALAR; if that table belongs to a complex type and does not contain the function — `erf`,
    `atan_2`, Bessel functions, `min_value`/`max_value`, unknown handler names — the handler raises
    `RuntimeError`) returns the text `fmtExprC`. `wfC` excludes exactly those calls (`callOK`). -/
theorem format_C_total (sc : Scalar) (e : Expr) (hwf : wfC sc e = true) :
    formatExprC sc e = some (fmtExprC sc e) := by
  simp only [formatExprC, wfC_not_raises sc e hwf, Bool.false_eq_true, if_false]

/-- the raising case is real and is excluded by `wfC` only where the formatter raises: `erf` of a
    SCALAR symbol raises in complex128 and is printed (`erf(y)`) in float64, `sqrt` of it is printed
    `csqrt(y)`; one SCALAR argument anywhere selects the complex table (`cpow(x, y)`) -/
example :
    formatExprC .c128 (.call "erf" .scalar [.sym "y" .scalar]) = none
    ∧ wfC .c128 (.call "erf" .scalar [.sym "y" .scalar]) = false
    ∧ formatExprC .f64 (.call "erf" .scalar [.sym "y" .scalar]) = some "erf(y)".toList
    ∧ formatExprC .c128 (.call "sqrt" .scalar [.sym "y" .scalar]) = some "csqrt(y)".toList
    ∧ formatExprC .c128 (.call "power" .real [.sym "x" .real, .sym "y" .scalar]) = some "cpow(x, y)".toList
    ∧ formatExprC .c128 (.call "power" .real [.sym "x" .real, .sym "z" .real]) = some "pow(x, z)".toList
    ∧ formatExprC .c128 (.call "atan_2" .real [.sym "x" .real, .sym "y" .scalar]) = none := by
  refine ⟨?_, ?_, ?_, ?_, ?_, ?_, ?_⟩ <;> decide +kernel

/-- The only non-structural conjunct of `wfC` — "the printed literal text is one number token" —
    always holds: every text `repr(float)` / `str(int)` produces is a pp-number that starts with a
    digit and ends in a digit (`numShape_reprFloat`, `numShape_fmtInt`). What remains of it is the
    representation invariant that a non-complex `LiteralFloat` carries no imaginary part. -/
theorem literal_texts_are_tokens (e : Expr) : litShapeOK e = (match e with
    | .litF _ im c => c || decide (im = 0)
    | _ => true) := litShapeOK_eq e

/-- the statement of DESIGN §6 (`WT` = well-formed and well-typed) is an instance -/
theorem roundtrip_C_WT (sc : Scalar) (e : Expr) (hwt : WT sc e = true) :
    parseExprC (lexC (fmtExprC sc e)) = some (eraseC sc (norm e)) := by
  simp only [WT, Bool.and_eq_true] at hwt
  exact roundtrip_C sc e hwt.1

/-- a tree using every constructor, with negative, exponent-form and complex literals, a unary
    minus over a negative literal, nested conditionals, n-ary nodes, a MultiIndex as a subscript and
    as an operand -/
def sampleTree : Expr :=
  .cond (.bin .or (.bin .and (.bin .lt (.sym "x" .real) (.litF (-5 / 2) 0 false)) (.not (.bin .eq (.sym "i" .int) (.litI (-1)))))
                  (.bin .ge (.sym "y" .scalar) (.litF (1 / 100000) 0 false)))
    (.bin .sub (.sum [.sym "x" .real, .prod [.litF 3 0 false, .sym "y" .scalar, .neg (.litF (-2) 0 false)], .litF 1 2 true])
               (.bin .div (.call "sqrt" .real [.sym "x" .real]) (.sum [.sym "y" .scalar])))
    (.cond (.sym "b" .bool)
      (.idx "T" .real [.mi [.sym "i" .int, .sym "j" .int] [3, 4] (.sum [.bin .mul (.litI 4) (.sym "i" .int), .sym "j" .int]), .litI 0])
      (.neg (.call "power" .scalar [.sym "y" .scalar,
        .bin .mul (.sym "i" .int) (.mi [.sym "i" .int, .sym "j" .int] [3, 4] (.sum [.bin .mul (.litI 4) (.sym "i" .int), .sym "j" .int]))])))

/-- the hypotheses of `roundtrip_C` are satisfiable by a non-trivial tree -/
example : WT .c64 sampleTree = true
    ∧ parseExprC (lexC (fmtExprC .c64 sampleTree)) = some (eraseC .c64 (norm sampleTree)) := by
  have h1 : WT .c64 sampleTree = true := by decide +kernel
  exact ⟨h1, roundtrip_C_WT _ _ h1⟩

/-- regression: a MultiIndex operand is parenthesised like the Sum it prints as -/
example : fmtExprC .f64 (.bin .mul (.sym "x" .int)
      (.mi [.sym "i" .int, .sym "j" .int] [3, 4] (.sum [.bin .mul (.litI 4) (.sym "i" .int), .sym "j" .int])))
    = "x * (4 * i + j)".toList := by decide +kernel

/-! ## the value of the normal form -/

section Value
open Lean.Grind
attribute [local instance] Lean.Grind.Ring.intCast

/-- **`eval (norm e) = eval e`** over any field `R` with a lawful literal embedding (`LawfulExtra`:
    `ofRat` respects 0, 1 and negation) in which the symbol `I` is the imaginary unit (`ComplexI`),
    for well-typed `e` whose MultiIndex global indices evaluate (`miOK`). Together with
    `roundtrip_C`: the tree the C grammar reads from the text has the value of the AST — operator
    precedence and associativity never change the computed value (n-ary nodes are evaluated left to
    right, as C does). -/
theorem norm_eval {R : Type} [Field R] {x : Extra R} {sc : Scalar} (hl : LawfulExtra x) (σ : St R) (hI : ComplexI x σ)
    (e : Expr) (hwt : WT sc e = true) (hm : miOK σ e = true) : eval x σ (norm e) = eval x σ e := by
  simp only [WT, Bool.and_eq_true] at hwt
  exact norm_eval_of_kind hl σ hI e hwt.2 hm

/-- the hypotheses are satisfiable: exact rationals (the real sub-domain; `I` unbound = 0), the
    sample tree, a state binding the index symbols -/
example : LawfulExtra ratExtra ∧ ComplexI ratExtra ({ iv := [("i", 1), ("j", 2)] } : St Rat)
    ∧ miOK ({ iv := [("i", 1), ("j", 2)] } : St Rat) sampleTree = true := by
  refine ⟨⟨rfl, rfl, fun _ _ => rfl⟩, ?_, by decide +kernel⟩
  intro re im
  simp [ratExtra, eval, AList.get]
  grind

end Value

/-! ## statements (C) -/

/-- **Round trip, C, statements (full).** For every well-formed statement tree — `Assign`,
    `AssignAdd`, `VariableDecl`, `ArrayDecl` (with dimensions, `static const`, nested initialiser
    lists or none), `ForRange` (index, bounds, body), `Comment` (also multi-line), `StatementList`,
    `Section` (comment header, declarations, the scoping braces around the body) — the formatter
    does not raise, the C lexer reads the text back to exactly the intended token stream (comments
    are not tokens), and the statement parser reads the tokens back to the erased statement tree.
    `wfS` (decidable, FfcxModel/LNodes/ParseC.lean): left-hand sides are symbols or array accesses,
    declared names and loop indices are identifiers, the declared type is not `DataType.NONE`, array
    initialisers are numeric literals, Section names and input/output names contain no line break,
    every expression is well-formed (`wfC`).
    Text level (`stmt_lex`): the lexer is line-compositional, so `indentLines`, `indentAfterNewlines`
    and `//` lines do not change the token stream; each line is a separated piece list.
    Token level (`parse_tokens_stmt`): fuel-monotone statement parser, every statement form parses
    in front of arbitrary following tokens (`stmt_prefix`), induction over the nested statement type. -/
theorem roundtrip_stmt_C (sc : Scalar) (s : Stmt) (hwf : wfS sc s = true) :
    ∃ text, formatStmtC sc s = some text ∧ lexC text = tokStmtC sc s
      ∧ parseStmtsTopC (lexC text) = some (eraseStmtC sc s) := by
  obtain ⟨text, h1, h2, _⟩ := stmt_lex sc s hwf
  refine ⟨text, ?_, h2, by rw [h2]; exact parse_tokens_stmt sc s hwf⟩
  simp only [formatStmtC, wfS_not_raises sc s hwf, Bool.false_eq_true, if_false, h1]

/-- a Section with declarations (2-D `static const` table with negative and exponent-form
    entries, an uninitialised array, a scalar), a multi-line comment, a loop nest with `=` and `+=`
    on array accesses with a MultiIndex, an empty comment, an empty loop inside a StatementList -/
def sampleStmt : Stmt :=
  .sect "tables and loops"
    [.adecl "FE" .real [2, 3] true (some [.litF (-1 / 2) 0 false, .litF 1 0 false, .litF (1 / 100000) 0 false,
        .litF 0 0 false, .litF 3 0 false, .litI (-7)]),
     .adecl "sp" .scalar [4] false none,
     .vdecl "w0" .scalar (.bin .mul (.sym "c" .scalar) (.litF (1 / 2) 0 false))]
    [.comment "first line\nsecond line",
     .forRange "i" (.litI 0) (.litI 2)
       [.forRange "j" (.litI 0) (.sym "n" .int)
          [.assign (.idx "sp" .scalar [.sym "j" .int]) (.sym "w0" .scalar),
           .addAssign (.idx "A" .scalar [.mi [.sym "i" .int, .sym "j" .int] [2, 3]
               (.sum [.bin .mul (.litI 3) (.sym "i" .int), .sym "j" .int])])
             (.bin .mul (.idx "FE" .real [.sym "i" .int, .sym "j" .int]) (.idx "sp" .scalar [.sym "j" .int]))],
        .block [.comment "", .forRange "k" (.litI 0) (.litI 1) []]]]
    ["c"] ["A"] []

/-- the hypothesis of `roundtrip_stmt_C` is satisfiable by a statement using every form -/
example : wfS .c64 sampleStmt = true
    ∧ ∃ text, formatStmtC .c64 sampleStmt = some text ∧ lexC text = tokStmtC .c64 sampleStmt
      ∧ parseStmtsTopC (lexC text) = some (eraseStmtC .c64 sampleStmt) := by
  have h1 : wfS .c64 sampleStmt = true := by decide +kernel
  exact ⟨h1, roundtrip_stmt_C _ _ h1⟩

/-- what such a text looks like -/
example : fmtStmtC .f64 (.forRange "i" (.litI 0) (.litI 2)
      [.adecl "t" .real [2, 2] true (some [.litF 1 0 false, .litF (-2) 0 false, .litF 3 0 false, .litF 4 0 false]),
       .comment "a\nb",
       .addAssign (.idx "A" .scalar [.sym "i" .int]) (.idx "t" .real [.sym "i" .int, .litI 0])])
    = some ("for (int i = 0; i < 2; ++i)\n{\n  static const double t[2][2] = {{1.0, -2.0},\n    {3.0, 4.0}};\n"
        ++ "  // a\n  // b\n  A[i] += t[i][0];\n}\n").toList := by decide +kernel

/-- the hypothesis is needed: a Section whose name contains a line break prints the rest of the
    name outside the `//` comment, where it is lexed as tokens the statement does not have
    (not reachable from ffcx: section names are fixed strings without line breaks) -/
theorem roundtrip_stmt_C_counterexample :
    wfS .f64 (.sect "a\nb" [] [] [] [] []) = false
    ∧ (fmtStmtC .f64 (.sect "a\nb" [] [] [] [] [])).map lexC = some [.id "b"]
    ∧ tokStmtC .f64 (.sect "a\nb" [] [] [] [] []) = [] := by
  refine ⟨?_, ?_, ?_⟩ <;> decide +kernel

/-- the accumulation statement of every kernel, `A[4 * i + j] += fw0 * T[i];`, is an instance -/
example :
    wfS .f64 (.addAssign (.idx "A" .scalar [.mi [.sym "i" .int, .sym "j" .int] [3, 4] (.sum [.bin .mul (.litI 4) (.sym "i" .int), .sym "j" .int])])
      (.bin .mul (.sym "fw0" .scalar) (.idx "T" .real [.sym "i" .int]))) = true := by decide +kernel

/-! ## numba: expressions -/

/-- **No token fusion, numba (full).** For every well-formed expression the Python lexer reads the
    numba text back to exactly the tokens the formatter intends (`lex_render_py`: generic statement
    for separated piece lists; `pySeparated_pieces`: the pieces of every well-formed tree are
    separated — `not` and keyword operators are set off by blanks, dotted heads `np.sqrt`, a sign
    in front of a number, the imaginary suffix `j`). -/
theorem no_token_fusion_py (e : Expr) (hwf : wfPy e = true) : lexPyExpr (fmtExprPy e) = tokExprPy e :=
  no_token_fusion_py_aux e hwf

/-- **Round trip, numba, expressions (full).** For every well-formed expression tree the numba text
    lexes and parses, under Python's expression grammar, back to the erased tree: same operator
    nesting, operands, subscripts (`A[i, j]`, MultiIndex by its global index), call arguments,
    callables (`np.*`, `math.erf`, `scipy.special.yn/jn`); `erasePy` left-nests n-ary Sum/Product
    itself (`leftNestPT`), reads a negative literal as unary minus over its magnitude and a complex
    literal `(1+2j)` as the sum Python parses.
    `wfPy` (decidable, FfcxModel/LNodes/ParsePy.lean): identifiers are identifiers and not Python
    keywords, n-ary nodes and subscript lists are non-empty, a non-complex literal has no imaginary
    part, `erf` has one argument, a MultiIndex carries a Sum or integer literal. NO typing
    hypothesis: comparison chaining (`a < b == c` is one chained comparison in Python) cannot occur
    because the formatter parenthesises a comparison directly under a comparison; `(not (x))` and
    `(t if c else f)` are always parenthesised; the text has no `**`.
    Architecture as for C: pieces/separated → `lex_render_py` → fuel-monotone parser (`PyMono`) →
    `rtp_all` by induction on the tree size with the invariant "what follows binds no tighter than
    the level being parsed, and no comparison operator follows a comparison". -/
theorem roundtrip_Py (e : Expr) (hwf : wfPy e = true) :
    parseExprPy (lexPyExpr (fmtExprPy e)) = some (erasePy e) := by
  rw [no_token_fusion_py e hwf, parse_tokens_Py e hwf]

/-- …in terms of the normal form `norm` of the C round trip, for trees without complex literals
    (`norm` writes `1 + I * 2`, Python reads `(1+2j)` as a sum with an imaginary NUMBER) -/
theorem roundtrip_Py_norm (e : Expr) (hwf : wfPy e = true) (hnc : noComplex e = true) :
    parseExprPy (lexPyExpr (fmtExprPy e)) = some (erasePy (norm e)) := by
  rw [roundtrip_Py e hwf, erasePy_norm e hnc]

/-- the literal-shape conjunct of `wfPy` — "the printed magnitude is one NUMBER token" — always
    holds (`repr` of a float, the `'r'`-formatted parts of a complex with the `j` suffix, `str(int)`) -/
theorem literal_texts_are_tokens_py (e : Expr) : pyLitShapeOK e = (match e with
    | .litF _ im c => c || decide (im = 0)
    | _ => true) := pyLitShapeOK_eq e

/-- the hypotheses of `roundtrip_Py` are satisfiable by the tree that uses every constructor -/
example : wfPy sampleTree = true
    ∧ parseExprPy (lexPyExpr (fmtExprPy sampleTree)) = some (erasePy sampleTree) := by
  have h1 : wfPy sampleTree = true := by decide +kernel
  exact ⟨h1, roundtrip_Py _ h1⟩

/-- `wfPy` is needed, (1): `math.erf(args[0])` drops further arguments; (2): a symbol named like a
    Python keyword is not an expression. Neither is reachable from UFL (`erf` has one operand,
    names are generated). -/
theorem roundtrip_Py_counterexample :
    (wfPy (.call "erf" .real [.sym "x" .real, .sym "y" .real]) = false
      ∧ parseExprPy (lexPyExpr (fmtExprPy (.call "erf" .real [.sym "x" .real, .sym "y" .real])))
          = some (.call "math.erf" [.id "x"])
      ∧ erasePy (.call "erf" .real [.sym "x" .real, .sym "y" .real]) = .call "math.erf" [.id "x", .id "y"])
    ∧ (wfPy (.sym "lambda" .real) = false
      ∧ (parseExprPy (lexPyExpr (fmtExprPy (.sym "lambda" .real)))).isNone = true) := by
  refine ⟨⟨by decide +kernel, pyParsesTo_sound (by decide +kernel), PT.eqb_sound _ _ (by decide +kernel)⟩,
    by decide +kernel, by decide +kernel⟩

/-- the ill-typed but constructible family that used to fail (DESIGN F16) — every comparison
    directly under every comparison, left, right and both sides — is covered by `roundtrip_Py`:
    Python chains `a < b == c`; the formatter prints `(a < b) == c`. -/
theorem roundtrip_Py_comparisons :
    ∀ e ∈ cmpNested, parseExprPy (lexPyExpr (fmtExprPy e)) = some (erasePy e) := by
  intro e he
  have : cmpNested.all wfPy = true := by decide +kernel
  exact roundtrip_Py e (List.all_eq_true.1 this e he)

/-- `EQ(LT(a,b), LT(c,d))` -/
def chainTree : Expr :=
  .bin .eq (.bin .lt (.sym "a" .real) (.sym "b" .real)) (.bin .lt (.sym "c" .real) (.sym "d" .real))

/-- `bessel_y(1, x)` -/
def besselTree : Expr := .call "bessel_y" .real [.litI 1, .sym "x" .real]

/-- regression: the texts of the two former counterexamples of the numba round trip -/
example :
    fmtExprPy chainTree = "(a < b) == (c < d)".toList ∧ wfPy chainTree = true
    ∧ fmtExprPy besselTree = "scipy.special.yn(1, x)".toList ∧ wfPy besselTree = true := by
  refine ⟨?_, ?_, ?_, ?_⟩ <;> decide +kernel

/-! ## numba: statements -/

/-- **Round trip, numba, statements (full).** For every well-formed statement tree — `Assign`,
    `AssignAdd`, `VariableDecl`, `ArrayDecl` (`np.empty`, `np.full`, `np.array` with nested list
    displays that continue over several physical lines), `ForRange`, `Comment`, `StatementList`,
    `Section` — the numba formatter does not raise, the Python lexer (physical lines, indentation
    stack, implicit line joining inside brackets, blank and comment lines) reads the text back to
    exactly the intended token stream with NEWLINE / INDENT / DEDENT, and the statement parser reads
    the tokens back to the erased statement tree; a loop body without any real line gets `pass`,
    which is no statement.
    `wfSPy` (decidable, FfcxModel/LNodes/ParsePy.lean): as `wfS`, with Python keywords excluded as
    names; comment texts and Section names are arbitrary (every line of them gets its own `#`).
    Text level (`stmt_lex_py`): every statement is a list of physical lines; `Lx` states what
    `pyLines` makes of them at every indentation and on every indentation stack; INDENT is produced
    by the first real line of a body (`pyLines_enter`), DEDENT by the next real line at or below the
    enclosing level or by the end of the text (`pyLines_leave`); a logical line is a piece list with
    all line breaks inside brackets (`lex_render_nl`, `walk`, bracket balance `balT_expr`).
    Token level (`parse_tokens_stmt_py`): fuel-monotone statement parser, tuples / list displays /
    keyword arguments / `np.*(…)` calls as operands (`op_tuple`, `op_list`, `step_kw`, `op_npcall`),
    every statement form in front of arbitrary following tokens (`stmtpy_prefix`). -/
theorem roundtrip_stmt_Py (sc : Scalar) (s : Stmt) (hwf : wfSPy sc s = true) :
    ∃ text, fmtStmtPy sc s = some text ∧ lexPy text = some (tokStmtPy sc s)
      ∧ (lexPy text).bind parseStmtsTopPy = some (eraseStmtPy sc s) := by
  obtain ⟨text, h1, h2⟩ := stmt_lex_py sc s hwf
  exact ⟨text, h1, h2, by rw [h2]; exact parse_tokens_stmt_py sc s hwf⟩

/-- **Round trip, statements (full), both back ends.** -/
theorem roundtrip_stmt (sc : Scalar) (s : Stmt) (hC : wfS sc s = true) (hPy : wfSPy sc s = true) :
    (∃ text, formatStmtC sc s = some text ∧ lexC text = tokStmtC sc s
      ∧ parseStmtsTopC (lexC text) = some (eraseStmtC sc s))
    ∧ (∃ text, fmtStmtPy sc s = some text ∧ lexPy text = some (tokStmtPy sc s)
      ∧ (lexPy text).bind parseStmtsTopPy = some (eraseStmtPy sc s)) :=
  ⟨roundtrip_stmt_C sc s hC, roundtrip_stmt_Py sc s hPy⟩

/-- the hypotheses are satisfiable by the statement that uses every form -/
example : wfS .f64 sampleStmt = true ∧ wfSPy .f64 sampleStmt = true
    ∧ ∃ text, fmtStmtPy .f64 sampleStmt = some text ∧ lexPy text = some (tokStmtPy .f64 sampleStmt)
      ∧ (lexPy text).bind parseStmtsTopPy = some (eraseStmtPy .f64 sampleStmt) := by
  have h1 : wfS .f64 sampleStmt = true := by decide +kernel
  have h2 : wfSPy .f64 sampleStmt = true := by decide +kernel
  exact ⟨h1, h2, roundtrip_stmt_Py _ _ h2⟩

/-- what such a text looks like: a continued list display inside a loop, a comment-only inner
    body that gets `pass` -/
example : fmtStmtPy .f64 (.forRange "i" (.litI 0) (.litI 2)
      [.adecl "t" .real [2, 2] true (some [.litF 1 0 false, .litF (-2) 0 false, .litF 3 0 false, .litF 4 0 false]),
       .forRange "j" (.litI 0) (.litI 1) [.comment "nothing"],
       .addAssign (.idx "A" .scalar [.sym "i" .int]) (.idx "t" .real [.sym "i" .int, .litI 0])])
    = some ("for i in range(0, 2):\n    t = np.array([[1.0, -2.0],\n    [3.0, 4.0]], dtype=np.float64)\n"
        ++ "    for j in range(0, 1):\n        # nothing \n        \n        pass\n    A[i] += t[i, 0]\n    \n").toList := by
  decide +kernel

/-- `wfSPy` is needed: a declared name that is a Python keyword gives a line Python cannot parse
    (names are generated by ffcx, none is a keyword) -/
theorem roundtrip_stmt_Py_counterexample :
    wfSPy .f64 (.vdecl "in" .real (.litI 1)) = false
    ∧ fmtStmtPy .f64 (.vdecl "in" .real (.litI 1)) = some "in = 1\n".toList
    ∧ ((lexPy "in = 1\n".toList).bind parseStmtsTopPy).isNone = true := by
  refine ⟨?_, ?_, ?_⟩ <;> decide +kernel

/-! ## literals -/

/-- **Literals read back exactly.** For every normal binary64 value `x = M·2^(E−52)`
    (`2⁵² ≤ M < 2⁵³`, `E ≥ −1022`; exponents unbounded above, i.e. overflow is not modelled), the
    decimal the formatters print for `x` — `litValueR x`, the value of `repr(x)`: the first decimal
    with `n = 1 … 17` significant digits found by the digit search that reads back to `x` — reads
    back, with round-to-nearest-even, to exactly `x`.
    HONESTY NOTE: for the candidates the search accepts this holds by construction (the search tests
    `round64 d = x`); the content of the theorem is that the search cannot end without such a
    candidate: its fallback is the correctly rounded 17-digit decimal, which `literal_exact_17`
    proves to read back. Value level: the digit string `reprFloat x` is tied to `litValueR x` and
    to Python's `repr` by execution on every sample of a run. Negative `x` by symmetry. -/
theorem literal_readback_exact (M : Nat) (E : Int) (hM1 : 2 ^ 52 ≤ M) (hM2 : M < 2 ^ 53) (hE : -1022 ≤ E) :
    round64 (litValueR ((M : Rat) * p2i (E - 52))) = (M : Rat) * p2i (E - 52) :=
  literal_readback_aux M E hM1 hM2 hE

/-- the property's clause: the literal reads back to within one unit in the last place (in fact
    with error 0) -/
theorem literal_1ulp (M : Nat) (E : Int) (hM1 : 2 ^ 52 ≤ M) (hM2 : M < 2 ^ 53) (hE : -1022 ≤ E) :
    let x := (M : Rat) * p2i (E - 52)
    round64 (litValueR x) - x ≤ ulp64 x ∧ x - round64 (litValueR x) ≤ ulp64 x := by
  intro x
  have h : round64 (litValueR x) = x := literal_readback_aux M E hM1 hM2 hE
  have hu : 0 < ulp64 x := by unfold ulp64; exact p2i_pos _
  rw [h]
  constructor <;> grind

/-- **17 digits are exact** (the backing theorem). For every normal binary64 value, rounding to 17
    significant decimal digits and reading the decimal back with round-to-nearest-even gives the
    value: the classical `10¹⁶ > 2⁵³` argument, including the power-of-two boundary (where the
    binade below has half the spacing) and the lowest normal binade. -/
theorem literal_exact_17 (M : Nat) (E : Int) (hM1 : 2 ^ 52 ≤ M) (hM2 : M < 2 ^ 53) (hE : -1022 ≤ E) :
    round64 (litValue 17 ((M : Rat) * p2i (E - 52))) = (M : Rat) * p2i (E - 52) :=
  literal_exact_17_aux M E hM1 hM2 hE

/-- `1 + 2⁻⁵¹` (two ulps above 1): the former witness of the 16-digit defect (`1.0`) -/
def twoUlp : Rat := 1 + 1 / 2 ^ 51

/-- regression + non-vacuity: the witness is now printed with 17 digits and reads back exactly;
    `twoUlp` is an instance of the theorems (`M = 2⁵² + 2`, `E = 0`) -/
example :
    fmtExprC .f64 (.litF twoUlp 0 false) = "1.0000000000000004".toList
    ∧ readNum (reprFloat twoUlp) = some (litValueR twoUlp)
    ∧ round64 (litValueR twoUlp) = twoUlp := by
  refine ⟨by decide +kernel, by decide +kernel, ?_⟩
  have := literal_readback_exact (2 ^ 52 + 2) 0 (by decide) (by decide) (by decide)
  have e : (((2 ^ 52 + 2 : Nat) : Rat) * p2i (0 - 52)) = twoUlp := by decide +kernel
  rw [e] at this; exact this

end Ffcx.LNodes.Fmt
