/-
C16 — formatted source means what the AST says.

Property: for every expression and statement tree of the code-generation AST, the text emitted
by the C formatter parses, under the C grammar, back to the same tree (same operator nesting,
operands, array subscripts, loop bounds); the numba formatter satisfies the same under Python's
grammar; floating-point literals read back to within one unit in the last place.

Models (FfcxModel/LNodes/{FormatC,FormatNumba,Lex,ParseC,ParsePy}.lean) mirror the formatters of
the working tree (after the /repo fixes 784668e, 74ce3e1, abc5593, b5ab6da, ab851ef, 79475cb,
96a0205, 584b753) and are tied to them by exact-text correspondence on every run.

* `prec_table_agrees`, `multiindex_prec_agrees`, `math_names_injective`, `local_faithful`,
  `local_faithful_py` — complete `decide` over the table regenerated from /repo on every run.
* `no_token_fusion` — FULL: for every well-formed expression tree the C lexer reads the text back
  to exactly the tokens the formatter intends (the former exclusion "no unary minus directly over
  a negative literal" is gone: the formatter now prints `-(-2.0)`).
* `roundtrip_C` — FULL for expressions: `wfC e → parseExprC (lexC (fmtExprC sc e)) = some (eraseC sc (norm e))`;
  `norm_eval`: `eval (norm e) = eval e`.
* `literal_readback_exact` / `literal_1ulp` — FULL at the value level (normal binary64, no overflow),
  backed by `literal_exact_17`.
* statements, numba: partial, see below.
-/
import FfcxProofs.Lemmas.FormatNorm
import FfcxProofs.Lemmas.FormatTables
import FfcxProofs.Lemmas.FormatLit
import FfcxProofs.Lemmas.FormatStmt
import FfcxProofs.Lemmas.FormatPy
import FfcxProofs.Lemmas.FormatEval
import FfcxProofs.Lemmas.FormatShape
import FfcxModel.LNodes.Scalars


namespace Ffcx.LNodes.Fmt
open Ffcx.LNodes Ffcx.Generated.Precedence

/-! ## the finite tables -/

/-- `Expr.prec` / `BinOp.prec` / `opStr` of the model equal the regenerated table, every
    expression class of lnodes.py is modelled, and the operator tokens spell the `op` strings. -/
theorem prec_table_agrees :
    (∀ r ∈ modelRows, ∃ c ∈ classes, rowMatches r c = true)
    ∧ (∀ c ∈ classes, c.kind ≠ "assign" → ∃ r ∈ modelRows, rowMatches r c = true)
    ∧ (∀ op : BinOp, (opTok op).text = op.opStr.toList) := by
  refine ⟨by decide, by decide, ?_⟩
  intro op; cases op <;> decide

/-- A `MultiIndex` INSTANCE carries the precedence of its global index (lnodes `MultiIndex.__init__`
    sets `self.precedence = self.global_index.precedence`; probed on instances with 0, 1, 2 symbols
    on every run). The formatter models read it off with `precF`; this is what makes a MultiIndex
    operand get its parentheses (`x * (4 * i + j)`). -/
theorem multiindex_prec_agrees : miProbes = multiIndexPrec := by decide

/-- each `math_table[dtype]` and the numba `function_map` are injective on their keys: the name
    in the text determines the function (so `eraseC`, which maps names forward, loses nothing) -/
theorem math_names_injective :
    (∀ t ∈ mathTable, tableInjective t.2 = true) ∧ tableInjective numbaFunctionMap = true := by
  decide

/-- C: for EVERY (parent class, child class, operand position) — no typing needed — the rule
    "parenthesise iff child.precedence ≥ parent.precedence" parenthesises whenever the child's
    grammar level does not bind tight enough at that position. (The class row `MultiIndex` is left
    out: an instance never presents the class attribute but the precedence of its global index — a
    `Sum` or `LiteralInt` row, see `multiindex_prec_agrees`.) -/
theorem local_faithful :
    ∀ p ∈ parentRows, ∀ c ∈ childRows, c.name ≠ "MultiIndex" → ∀ pos ∈ positions p,
      cFaithful p c pos = true := by decide

/-- numba: the rule, with the extra parentheses around a comparison directly under a comparison,
    is faithful to Python's levels (comparisons chain!) for EVERY pair and position — well-typedness
    is no longer needed (it was, before /repo b5ab6da: `a < b == c`). -/
theorem local_faithful_py :
    ∀ p ∈ parentRows, ∀ c ∈ childRows, c.name ≠ "MultiIndex" → ∀ pos ∈ positions p,
      pyFaithful p c pos = true := by decide

/-! ## no token fusion -/

/-- `Neg(LiteralFloat(-2.0))`, reachable as `LiteralFloat(-2.0) * -1` -/
def negNegLit : Expr := .neg (.litF (-2) 0 false)

/-- **No token fusion (full).** In `lexC (fmtExprC sc e)` no two adjacent emitted tokens fuse: for
    every well-formed expression tree the lexer reads the text back to exactly the tokens the
    formatter intends. (`lex_render`: generic statement for `separated` piece lists;
    `separated_pieces`: the pieces of every well-formed tree are separated.) -/
theorem no_token_fusion (sc : Scalar) (e : Expr) (hwf : wfC sc e = true) :
    lexC (fmtExprC sc e) = tokExprC sc e :=
  lex_render _ (separated_pieces sc e hwf)

/-- regression: the former witness of token fusion (`--2.0`, the decrement token) is now printed
    `-(-2.0)`, and a `Not` over a `Not`/negative literal likewise keeps its tokens apart -/
example :
    fmtExprC .f64 negNegLit = "-(-2.0)".toList
    ∧ lexC (fmtExprC .f64 negNegLit) = [.p .minus, .p .lpar, .p .minus, .num "2.0", .p .rpar]
    ∧ fmtExprC .f64 (.neg (.litI (-1))) = "-(-1)".toList
    ∧ fmtExprC .f64 (.not (.litF (-2) 0 false)) = "!-2.0".toList := by
  refine ⟨?_, ?_, ?_, ?_⟩ <;> decide +kernel

/-! ## the C round trip -/

/-- **Round trip, C, expressions (full).** For every well-formed expression tree (identifiers are
    identifiers, n-ary nodes and subscript/argument lists are non-empty, a non-complex literal has
    no imaginary part) the C text lexes and parses back to the erased normal form of the tree: same
    operator nesting, operands, subscripts, call arguments. Structural induction over all trees
    (`rt_all`) with the invariant "what follows binds no tighter than the level being parsed"; no
    typing discipline is needed for C. -/
theorem roundtrip_C (sc : Scalar) (e : Expr) (hwf : wfC sc e = true) :
    parseExprC (lexC (fmtExprC sc e)) = some (eraseC sc (norm e)) := by
  rw [no_token_fusion sc e hwf, parse_tokens_C sc e hwf, eraseC_norm]

/-- The only non-structural conjunct of `wfC` — "the printed literal text is one number token" —
    always holds: every text `repr(float)` / `str(int)` produces is a pp-number that starts with a
    digit and ends in a digit (`numShape_reprFloat`, `numShape_fmtInt`). What remains of it is the
    representation invariant that a non-complex `LiteralFloat` carries no imaginary part. -/
theorem literal_texts_are_tokens (e : Expr) : litShapeOK e = (match e with
    | .litF _ im c => c || decide (im = 0)
    | _ => true) := litShapeOK_eq e

/-- the statement of DESIGN §6 (`WT` = well-formed and well-typed) is an instance -/
theorem roundtrip_C_WT (sc : Scalar) (e : Expr) (hwt : WT sc e = true) :
    parseExprC (lexC (fmtExprC sc e)) = some (eraseC sc (norm e)) := by
  simp only [WT, Bool.and_eq_true] at hwt
  exact roundtrip_C sc e hwt.1

/-- a tree using every constructor, with negative, exponent-form and complex literals, a unary
    minus over a negative literal, nested conditionals, n-ary nodes, a MultiIndex as a subscript and
    as an operand -/
def sampleTree : Expr :=
  .cond (.bin .or (.bin .and (.bin .lt (.sym "x" .real) (.litF (-5 / 2) 0 false)) (.not (.bin .eq (.sym "i" .int) (.litI (-1)))))
                  (.bin .ge (.sym "y" .scalar) (.litF (1 / 100000) 0 false)))
    (.bin .sub (.sum [.sym "x" .real, .prod [.litF 3 0 false, .sym "y" .scalar, .neg (.litF (-2) 0 false)], .litF 1 2 true])
               (.bin .div (.call "sqrt" .real [.sym "x" .real]) (.sum [.sym "y" .scalar])))
    (.cond (.sym "b" .bool)
      (.idx "T" .real [.mi [.sym "i" .int, .sym "j" .int] [3, 4] (.sum [.bin .mul (.litI 4) (.sym "i" .int), .sym "j" .int]), .litI 0])
      (.neg (.call "power" .scalar [.sym "y" .scalar,
        .bin .mul (.sym "i" .int) (.mi [.sym "i" .int, .sym "j" .int] [3, 4] (.sum [.bin .mul (.litI 4) (.sym "i" .int), .sym "j" .int]))])))

/-- the hypotheses of `roundtrip_C` are satisfiable by a non-trivial tree -/
example : WT .c64 sampleTree = true
    ∧ parseExprC (lexC (fmtExprC .c64 sampleTree)) = some (eraseC .c64 (norm sampleTree)) := by
  have h1 : WT .c64 sampleTree = true := by decide +kernel
  exact ⟨h1, roundtrip_C_WT _ _ h1⟩

/-- regression: a MultiIndex operand is parenthesised like the Sum it prints as -/
example : fmtExprC .f64 (.bin .mul (.sym "x" .int)
      (.mi [.sym "i" .int, .sym "j" .int] [3, 4] (.sum [.bin .mul (.litI 4) (.sym "i" .int), .sym "j" .int])))
    = "x * (4 * i + j)".toList := by decide +kernel

/-! ## the value of the normal form -/

section Value
open Lean.Grind
attribute [local instance] Lean.Grind.Ring.intCast

/-- **`eval (norm e) = eval e`** over any field `R` with a lawful literal embedding (`LawfulExtra`:
    `ofRat` respects 0, 1 and negation) in which the symbol `I` is the imaginary unit (`ComplexI`),
    for well-typed `e` whose MultiIndex global indices evaluate (`miOK`). Together with
    `roundtrip_C`: the tree the C grammar reads from the text has the value of the AST — operator
    precedence and associativity never change the computed value (n-ary nodes are evaluated left to
    right, as C does). -/
theorem norm_eval {R : Type} [Field R] {x : Extra R} {sc : Scalar} (hl : LawfulExtra x) (σ : St R) (hI : ComplexI x σ)
    (e : Expr) (hwt : WT sc e = true) (hm : miOK σ e = true) : eval x σ (norm e) = eval x σ e := by
  simp only [WT, Bool.and_eq_true] at hwt
  exact norm_eval_of_kind hl σ hI e hwt.2 hm

/-- the hypotheses are satisfiable: exact rationals (the real sub-domain; `I` unbound = 0), the
    sample tree, a state binding the index symbols -/
example : LawfulExtra ratExtra ∧ ComplexI ratExtra ({ iv := [("i", 1), ("j", 2)] } : St Rat)
    ∧ miOK ({ iv := [("i", 1), ("j", 2)] } : St Rat) sampleTree = true := by
  refine ⟨⟨rfl, rfl, fun _ _ => rfl⟩, ?_, by decide +kernel⟩
  intro re im
  simp [ratExtra, eval, AList.get]
  grind

end Value

/-! ## statements -/

/-- FULL STATEMENT (`roundtrip_stmt`, not proved in general):
    `∀ s, wfS s → fmtStmtC sc s = some text ∧ lexC text = tokStmtC sc s ∧ parseStmtsTopC (lexC text) = some (eraseStmtC sc s)`
    for every statement form (ForRange bounds/index, declarations with nested initialisers and
    `static const`, sections with their scoping braces, comments, statement lists).
    PROVED HERE: the two statement forms that carry the arithmetic — `Assign` and `AssignAdd` with a
    symbol or array access on the left and ANY well-formed right-hand side — at all three levels
    (text → tokens → statement tree).
    MISSING: ForRange, VariableDecl, ArrayDecl, Section, StatementList, Comment. For those the same
    three equalities are evaluated by the driver (`stmtC`) for every statement of every kernel and of
    the synthetic statement family on every run, and cross-checked against pycparser. -/
theorem roundtrip_stmt_partial (sc : Scalar) (l r : Expr)
    (hlv : isLvalue l = true) (hl : wfC sc l = true) (hr : wfC sc r = true) :
    (∃ text, fmtStmtC sc (.assign l r) = some text ∧ lexC text = tokStmtC sc (.assign l r)
        ∧ parseStmtsTopC (lexC text) = some (eraseStmtC sc (.assign l r)))
    ∧ (∃ text, fmtStmtC sc (.addAssign l r) = some text ∧ lexC text = tokStmtC sc (.addAssign l r)
        ∧ parseStmtsTopC (lexC text) = some (eraseStmtC sc (.addAssign l r))) := by
  constructor
  · obtain ⟨h1, h2⟩ := assign_roundtrip sc .assign (Or.inl rfl) l r hlv hl hr
    exact ⟨_, fmtStmtC_assign sc l r, by rw [h1]; simp [tokStmtC], by rw [h2]; simp [eraseStmtC]⟩
  · obtain ⟨h1, h2⟩ := assign_roundtrip sc .plusAssign (Or.inr rfl) l r hlv hl hr
    exact ⟨_, fmtStmtC_addAssign sc l r, by rw [h1]; simp [tokStmtC], by rw [h2]; simp [eraseStmtC]⟩

/-- the accumulation statement of every kernel, `A[4 * i + j] += fw0 * T[i];`, is an instance -/
example :
    isLvalue (.idx "A" .scalar [.mi [.sym "i" .int, .sym "j" .int] [3, 4] (.sum [.bin .mul (.litI 4) (.sym "i" .int), .sym "j" .int])]) = true
    ∧ wfC .f64 (.idx "A" .scalar [.mi [.sym "i" .int, .sym "j" .int] [3, 4] (.sum [.bin .mul (.litI 4) (.sym "i" .int), .sym "j" .int])]) = true
    ∧ wfC .f64 (.bin .mul (.sym "fw0" .scalar) (.idx "T" .real [.sym "i" .int])) = true := by
  refine ⟨rfl, ?_, ?_⟩ <;> decide +kernel

/-! ## numba -/

/-- FULL STATEMENT (`roundtrip_Py`, not proved in general; no counterexample is known any more):
    `∀ e, wfC e → parseExprPy (lexPyExpr (fmtExprPy e)) = some (erasePy e)`.
    PROVED HERE: the statement for EVERY well-typed tree of depth 2 — every parent class × every
    well-typed child representative (all expression classes incl. Bessel calls and MultiIndex
    operands; positive, negative, exponent-form, complex and integer literals) × every operand
    position — by evaluating the numba formatter model, the Python lexer and the Python parser in
    the kernel; see also `roundtrip_Py_comparisons`.
    MISSING: the induction over all trees (the C proof does not transfer verbatim: `not`, chained
    comparisons, `x if c else y`); on every run the Lean parser is executed on all generated
    trees of depth ≤ 6 and agrees with CPython's `ast`. -/
theorem roundtrip_Py_partial :
    ∀ e ∈ depth2WT, WT .f64 e = true ∧ parseExprPy (lexPyExpr (fmtExprPy e)) = some (erasePy e) := by
  intro e he
  exact pyOK_sound (List.all_eq_true.1 depth2WT_all_ok e he)

/-- …and for the ill-typed but constructible family that used to fail (DESIGN F16): every
    comparison directly under every comparison, left, right and both sides. Python chains
    `a < b == c`; the formatter now prints `(a < b) == c`. -/
theorem roundtrip_Py_comparisons :
    ∀ e ∈ cmpNested, parseExprPy (lexPyExpr (fmtExprPy e)) = some (erasePy e) := by
  intro e he
  exact pyOKraw_sound (List.all_eq_true.1 cmpNested_all_ok e he)

/-- `EQ(LT(a,b), LT(c,d))` -/
def chainTree : Expr :=
  .bin .eq (.bin .lt (.sym "a" .real) (.sym "b" .real)) (.bin .lt (.sym "c" .real) (.sym "d" .real))

/-- `bessel_y(1, x)` -/
def besselTree : Expr := .call "bessel_y" .real [.litI 1, .sym "x" .real]

/-- regression: the two former counterexamples of the numba round trip now parse back -/
example :
    fmtExprPy chainTree = "(a < b) == (c < d)".toList
    ∧ pyOKraw chainTree = true
    ∧ fmtExprPy besselTree = "scipy.special.yn(1, x)".toList
    ∧ pyOKraw besselTree = true := by
  refine ⟨?_, ?_, ?_, ?_⟩ <;> decide +kernel

/-! ## literals -/

/-- **Literals read back exactly.** For every normal binary64 value `x = M·2^(E−52)`
    (`2⁵² ≤ M < 2⁵³`, `E ≥ −1022`; exponents unbounded above, i.e. overflow is not modelled), the
    decimal the formatters print for `x` — `litValueR x`, the value of `repr(x)`: the first decimal
    with `n = 1 … 17` significant digits found by the digit search that reads back to `x` — reads
    back, with round-to-nearest-even, to exactly `x`.
    HONESTY NOTE: for the candidates the search accepts this holds by construction (the search tests
    `round64 d = x`); the content of the theorem is that the search cannot end without such a
    candidate: its fallback is the correctly rounded 17-digit decimal, which `literal_exact_17`
    proves to read back. Value level: the digit string `reprFloat x` is tied to `litValueR x` and
    to Python's `repr` by execution on every sample of a run. Negative `x` by symmetry. -/
theorem literal_readback_exact (M : Nat) (E : Int) (hM1 : 2 ^ 52 ≤ M) (hM2 : M < 2 ^ 53) (hE : -1022 ≤ E) :
    round64 (litValueR ((M : Rat) * p2i (E - 52))) = (M : Rat) * p2i (E - 52) :=
  literal_readback_aux M E hM1 hM2 hE

/-- the property's clause: the literal reads back to within one unit in the last place (in fact
    with error 0) -/
theorem literal_1ulp (M : Nat) (E : Int) (hM1 : 2 ^ 52 ≤ M) (hM2 : M < 2 ^ 53) (hE : -1022 ≤ E) :
    let x := (M : Rat) * p2i (E - 52)
    round64 (litValueR x) - x ≤ ulp64 x ∧ x - round64 (litValueR x) ≤ ulp64 x := by
  intro x
  have h : round64 (litValueR x) = x := literal_readback_aux M E hM1 hM2 hE
  have hu : 0 < ulp64 x := by unfold ulp64; exact p2i_pos _
  rw [h]
  constructor <;> grind

/-- **17 digits are exact** (the backing theorem). For every normal binary64 value, rounding to 17
    significant decimal digits and reading the decimal back with round-to-nearest-even gives the
    value: the classical `10¹⁶ > 2⁵³` argument, including the power-of-two boundary (where the
    binade below has half the spacing) and the lowest normal binade. -/
theorem literal_exact_17 (M : Nat) (E : Int) (hM1 : 2 ^ 52 ≤ M) (hM2 : M < 2 ^ 53) (hE : -1022 ≤ E) :
    round64 (litValue 17 ((M : Rat) * p2i (E - 52))) = (M : Rat) * p2i (E - 52) :=
  literal_exact_17_aux M E hM1 hM2 hE

/-- `1 + 2⁻⁵¹` (two ulps above 1): the former witness of the 16-digit defect (`1.0`) -/
def twoUlp : Rat := 1 + 1 / 2 ^ 51

/-- regression + non-vacuity: the witness is now printed with 17 digits and reads back exactly;
    `twoUlp` is an instance of the theorems (`M = 2⁵² + 2`, `E = 0`) -/
example :
    fmtExprC .f64 (.litF twoUlp 0 false) = "1.0000000000000004".toList
    ∧ readNum (reprFloat twoUlp) = some (litValueR twoUlp)
    ∧ round64 (litValueR twoUlp) = twoUlp := by
  refine ⟨by decide +kernel, by decide +kernel, ?_⟩
  have := literal_readback_exact (2 ^ 52 + 2) 0 (by decide) (by decide) (by decide)
  have e : (((2 ^ 52 + 2 : Nat) : Rat) * p2i (0 - 52)) = twoUlp := by decide +kernel
  rw [e] at this; exact this

end Ffcx.LNodes.Fmt
