/-
C10 — optimisation options never change the computed tensor.  (Algebraic cores.)

* `sum_factorization_identity(3)`: a sum over a tensor-product rule of a product of per-direction
  factors is the product of the per-direction sums — the identity sum factorisation rests on, for any
  rules, any per-direction factors (tables × coefficient sums), any sizes.
* `flat_pair_bijective`: the flat quadrature / dof index `i0·n1 + i1` and the pair `(i0, i1)`
  determine each other (re-indexing between the flat and the factorised loop nest).
* `diagonal_of_outer`: accumulating `f i i` over one shared index yields the diagonal of the tensor
  accumulated with two indices.
* `clamp_bound_real`: clamping a table value to n ∈ {−1,0,1} moves it by at most atol + rtol·|n|.
The hypothesis that the real full table IS the outer product of the real factor tables is data
(Basix): it is checked numerically per table by the harness, as are the option-pair comparisons.
-/
import FfcxModel.Geometry.Quad
import FfcxProofs.Lemmas.Index

namespace Ffcx.Quad
open Lean.Grind

variable {R : Type} [CommRing R]

/-- Σ_{a∈r1} w_a·f a -/
def wsum {α : Type} (r : List (α × R)) (f : α → R) : R :=
  r.foldr (fun (pw : α × R) (acc : R) => pw.2 * f pw.1 + acc) (0 : R)

def tensorPts {α β : Type} (r1 : List (α × R)) (r2 : List (β × R)) : List ((α × β) × R) :=
  r1.flatMap (fun a => r2.map (fun b => ((a.1, b.1), a.2 * b.2)))

theorem wsum_append {α : Type} (r1 r2 : List (α × R)) (f : α → R) :
    wsum (r1 ++ r2) f = wsum r1 f + wsum r2 f := by
  induction r1 with
  | nil => simp [wsum]; grind
  | cons a as ih => simp only [wsum, List.cons_append, List.foldr] at ih ⊢; rw [ih]; grind

theorem wsum_map_pair {α β : Type} (a : α × R) (r2 : List (β × R)) (f : α → R) (g : β → R) :
    wsum (r2.map (fun b => ((a.1, b.1), a.2 * b.2))) (fun p => f p.1 * g p.2) =
      a.2 * f a.1 * wsum r2 g := by
  induction r2 with
  | nil => simp [wsum]; grind
  | cons b bs ih => simp only [wsum, List.map, List.foldr] at ih ⊢; rw [ih]; grind

/-- **sum factorisation identity** (two directions) -/
theorem sum_factorization_identity {α β : Type} (r1 : List (α × R)) (r2 : List (β × R))
    (f : α → R) (g : β → R) :
    wsum (tensorPts r1 r2) (fun p => f p.1 * g p.2) = wsum r1 f * wsum r2 g := by
  induction r1 with
  | nil => simp [tensorPts, wsum]; grind
  | cons a as ih =>
    simp only [tensorPts, List.flatMap_cons] at ih ⊢
    rw [wsum_append, wsum_map_pair, ih]
    simp only [wsum, List.foldr]; grind

/-- three directions (hexahedron) -/
theorem sum_factorization_identity3 {α β γ : Type} (r1 : List (α × R)) (r2 : List (β × R))
    (r3 : List (γ × R)) (f : α → R) (g : β → R) (h : γ → R) :
    wsum (tensorPts r1 (tensorPts r2 r3)) (fun p => f p.1 * (g p.2.1 * h p.2.2)) =
      wsum r1 f * (wsum r2 g * wsum r3 h) := by
  rw [sum_factorization_identity r1 (tensorPts r2 r3) f (fun q => g q.1 * h q.2),
    sum_factorization_identity r2 r3 g h]

/-- flat index ↔ pair of indices, for any extents -/
theorem flat_pair_bijective (n1 : Nat) (i0 i1 j0 j1 : Nat) (hi : i1 < n1) (hj : j1 < n1)
    (h : i0 * n1 + i1 = j0 * n1 + j1) : i0 = j0 ∧ i1 = j1 := by
  have h0 : i0 = j0 := by
    rcases Nat.lt_trichotomy i0 j0 with hlt | heq | hgt
    · exfalso
      have : (i0 + 1) * n1 ≤ j0 * n1 := Nat.mul_le_mul_right _ hlt
      rw [Nat.add_mul] at this; omega
    · exact heq
    · exfalso
      have : (j0 + 1) * n1 ≤ i0 * n1 := Nat.mul_le_mul_right _ hgt
      rw [Nat.add_mul] at this; omega
  subst h0
  exact ⟨rfl, by omega⟩

/-- the diagonal kernel: with both argument loops sharing one index the accumulated entry `i` is
    what the full kernel accumulates in entry `(i, i)` -/
theorem diagonal_of_outer (n : Nat) (f : Nat → Nat → R) (i : Nat) (hi : i < n) :
    (List.range n).foldr (fun k acc => (if k = i then f k k else 0) + acc) (0 : R) = f i i := by
  induction n with
  | zero => omega
  | succ m ih =>
    rw [List.range_succ, List.foldr_append]
    by_cases h : i = m
    · subst h
      simp only [List.foldr, if_true]
      have : ∀ (l : List Nat) (init : R), (∀ k ∈ l, k ≠ i) →
          l.foldr (fun k acc => (if k = i then f k k else 0) + acc) init = init := by
        intro l init hl
        induction l with
        | nil => rfl
        | cons a as iha =>
          simp only [List.foldr]
          rw [iha (fun k hk => hl k (by simp [hk]))]
          have : a ≠ i := hl a (by simp)
          simp [this]; grind
      rw [this _ _ (by intro k hk; simp at hk; omega)]; grind
    · have hm : i < m := by omega
      simp only [List.foldr]
      have hne : ¬ m = i := fun e => h e.symm
      simp only [hne, if_false]
      have : ((0 : R) + 0) = 0 := by grind
      rw [this]
      exact ih hm

end Ffcx.Quad

namespace Ffcx.Quad

def absR (x : Rat) : Rat := if x < 0 then -x else x

/-- `clamp_table_small_numbers` on one value, for one target number `n`
    (`np.isclose(x, n)`: |x − n| ≤ atol + rtol·|n|) -/
def clampTo (rtol atol n x : Rat) : Rat :=
  if absR (x - n) ≤ atol + rtol * absR n then n else x

theorem clamp_bound_real (rtol atol n x : Rat) :
    absR (clampTo rtol atol n x - x) ≤ atol + rtol * absR n ∨ clampTo rtol atol n x = x := by
  unfold clampTo
  split
  · left
    rename_i h
    have : absR (n - x) = absR (x - n) := by
      unfold absR; split <;> split <;> grind
    rw [this]; exact h
  · right; rfl

example : clampTo (1/1000000) (1/1000000000) 1 (9999999/10000000) = 1 := by
  simp [clampTo, absR]; decide +kernel

end Ffcx.Quad
