/-
C08 — kernels stay inside the extents the UFCx contract gives them.

`exec` is an instrumented semantics: every scalar-array read/write is checked against the
declared extents per axis (`flatIdx`), every read of `entity_local_index` /
`quadrature_permutation` against their lengths; any violation is an `Err`.

Theorem `oob_data_independent`: whether a run errs — and with which error — depends only on the
integer part of the state (loop indices, entity / permutation codes) and on the *shapes* of the
arrays, never on the scalar data and not even on the scalar domain.  Hence one successful run over
the one-point domain `U`, with arrays of exactly the contract extents, proves absence of
out-of-bounds accesses for ALL coefficient / constant / coordinate values and all initial A.
The remaining quantifier (entity and permutation codes) ranges over a finite set that the check
enumerates completely for every kernel.
-/
import FfcxProofs.Lemmas.SameShape
import FfcxProofs.Lemmas.Index
import FfcxModel.LNodes.ShapeDomain
import FfcxModel.LNodes.Static

namespace Ffcx.LNodes

variable {R : Type} [Add R] [Sub R] [Mul R] [Div R] [Neg R] [IntCast R]

/-- errors (incl. out-of-bounds) are independent of the scalar data and domain -/
theorem oob_data_independent (x : Extra R) (k : Stmt) (σ : St R) (τ : St U) (h : SameShape σ τ) :
    (∀ e, exec x k σ = .error e ↔ exec uExtra k τ = .error e) ∧
    ((∃ τ', exec uExtra k τ = .ok τ') → ∃ σ', exec x k σ = .ok σ') := by
  have hr := exec_sameShape x uExtra k σ τ h
  cases h1 : exec x k σ with
  | error e =>
    cases h2 : exec uExtra k τ with
    | error e' => simp [h1, h2, RelRes2] at hr; subst hr; simp
    | ok b => simp [h1, h2, RelRes2] at hr
  | ok a =>
    cases h2 : exec uExtra k τ with
    | error e' => simp [h1, h2, RelRes2] at hr
    | ok b => simp

def Arr.toShape (a : Arr R) : Arr U :=
  { dims := a.dims, data := Array.replicate a.data.size ⟨⟩, const := a.const }

/-- the shape-only image of a state -/
def toShape (σ : St R) : St U :=
  { iv := σ.iv, ia := σ.ia,
    sv := σ.sv.map (fun p => (p.1, (fun (_ : R) => (⟨⟩ : U)) p.2)),
    sa := σ.sa.map (fun p => (p.1, Arr.toShape p.2)) }

theorem get_map {α β : Type} (f : α → β) : ∀ (m : AList α) (n : String),
    AList.get (m.map (fun p => (p.1, f p.2))) n = (AList.get m n).map f
  | [], _ => rfl
  | (k, v) :: m, n => by
    simp only [List.map, AList.get]
    split
    · rfl
    · exact get_map f m n

theorem sameShape_toShape (σ : St R) : SameShape σ (toShape σ) := by
  refine ⟨rfl, rfl, ?_, ?_⟩
  · intro n
    simp only [toShape]
    rw [get_map (fun (_ : R) => (⟨⟩ : U)) σ.sv n]
    cases σ.sv.get n <;> rfl
  · intro n
    simp only [toShape]
    rw [get_map Arr.toShape σ.sa n]
    cases σ.sa.get n <;> simp [Arr.shape, Arr.toShape]

/-- **bounds_sound**: if the kernel runs without error on the shape image of a state, it runs
    without error — no out-of-bounds read or write, no read of an absent entity/permutation
    entry, no write to a const table — on the state itself, whatever the scalar values are. -/
theorem bounds_sound (x : Extra R) (k : Stmt) (σ : St R)
    (h : ∃ τ', exec uExtra k (toShape σ) = .ok τ') : ∃ σ', exec x k σ = .ok σ' :=
  (oob_data_independent x k σ (toShape σ) (sameShape_toShape σ)).2 h

/-- every multi-dimensional subscript that `exec` accepts is inside its own axis extent, and
    its flat offset is inside the array: any rank, any sizes -/
theorem subscript_in_extent (ds : List Nat) (is : List Int) (k : Nat) (h : flatIdx ds is = some k) :
    k < sizeProd ds ∧ is.length = ds.length ∧
    ∀ p, p ∈ List.zip ds is → 0 ≤ p.2 ∧ p.2 < (p.1 : Int) :=
  ⟨flatIdx_lt ds is k h, flatIdx_length ds is k h, flatIdx_inrange ds is k h⟩

/-- row-major flattening is injective: distinct in-range index tuples address distinct entries
    (so the blocks of `A` written through `MultiIndex` never alias) -/
theorem flatten_inj (ds : List Nat) (is js : List Int) (k : Nat)
    (h1 : flatIdx ds is = some k) (h2 : flatIdx ds js = some k) : is = js :=
  flatIdx_inj ds is js k h1 h2

/-- non-vacuity: a 2×3 table read at [1][2] is accepted, [2][0] and [0][3] are rejected -/
example : flatIdx [2, 3] [1, 2] = some 5 ∧ flatIdx [2, 3] [2, 0] = none ∧ flatIdx [2, 3] [0, 3] = none := by
  decide

end Ffcx.LNodes
